/-
  C10 (fourth part), helpers: the eighteen spellings of the binary operators, the canonical spaced text of a token
  list (which lexes back to the token list: `C04.lex_complete_spaced`), the documents and operand tables that make
  the grouping of every pair of binary operators observable, and the evaluator-level associativity facts for the pairs
  whose grouping is NOT observable.
-/
import Jmes.Properties.C10C
import Jmes.Proofs.Refine
namespace Jmes.C10E
open Jmes Jmes.Parser Jmes.Grammar
open Jmes.C10B (Lexes Tight)
set_option linter.unusedSimpArgs false

/-! ## A fingerprint of outcomes (a decidable sufficient test for "different outcome") -/

mutual
/-- a serialisation of values; only used as `code x ≠ code y → x ≠ y` -/
def code : Val → List Nat
  | .null => [0]
  | .bool b => [1, b.toNat]
  | .str s => 2 :: s.length :: s
  | .num (.jnum t) => 3 :: t.length :: t
  | .num (.dec (.fin n c e)) => [4, n.toNat, c, e.toNat, (-e).toNat]
  | .num _ => [5]
  | .arr _ xs => 6 :: codeL xs
  | .obj kvs => 7 :: codeF kvs
  | .foreign t => [8, t]
def codeL : List Val → List Nat
  | [] => [9]
  | x :: xs => code x ++ codeL xs
def codeF : List (Bytes × Val) → List Nat
  | [] => [9]
  | (k, x) :: xs => k.length :: k ++ code x ++ codeF xs
end

def catCode : Cat → Nat
  | .syntax => 0 | .arity => 1 | .unknownFunction => 2 | .invalidType => 3 | .invalidValue => 4 | .notANumber => 5
  | .undefinedVariable => 6 | .evaluationFailed => 7

/-- a serialisation of outcomes -/
def codeR : Res Val → List Nat
  | .ok v => 0 :: code v
  | .err cs => 1 :: cs.map catCode
  | .panic _ => [2]
  | .nondet => [3]
  | .unmodelled _ => [4]

/-- outcomes with different fingerprints are different -/
theorem ne_of_codeR {x y : Res Val} (h : codeR x ≠ codeR y) : x ≠ y := fun e => h (e ▸ rfl)

/-! ## The eighteen spellings -/

/-- the eighteen spellings of the binary operators: `|`, `||`, `&&`, the six comparisons, `+`, `-`, `−` (U+2212),
    `*`, `×` (U+00D7), `/`, `÷` (U+00F7), `//`, `%` -/
def binOps : List Token := [
  ⟨.pipe, [0x7C]⟩, ⟨.or, [0x7C, 0x7C]⟩, ⟨.and, [0x26, 0x26]⟩,
  ⟨.equal, [0x3D, 0x3D]⟩, ⟨.notEqual, [0x21, 0x3D]⟩, ⟨.less, [0x3C]⟩, ⟨.lessOrEqual, [0x3C, 0x3D]⟩,
  ⟨.greater, [0x3E]⟩, ⟨.greaterOrEqual, [0x3E, 0x3D]⟩,
  ⟨.add, [0x2B]⟩, ⟨.subtract, [0x2D]⟩, ⟨.subtract, [0xE2, 0x88, 0x92]⟩,
  ⟨.asterisk, [0x2A]⟩, ⟨.multiply, [0xC3, 0x97]⟩, ⟨.divide, [0x2F]⟩, ⟨.divide, [0xC3, 0xB7]⟩,
  ⟨.integerDivide, [0x2F, 0x2F]⟩, ⟨.modulo, [0x25]⟩]

/-- the level of an operator token: `|` 2, `||` 3, `&&` 4, comparisons 5, `+ - −` 6, `* × / ÷ // %` 7 -/
def lvl (o : Token) : Nat := (binLevel o.type).getD 0

theorem binOps_level : ∀ o ∈ binOps, binLevel o.type = some (lvl o) := by decide

theorem binOps_shape : ∀ o ∈ binOps, Lexical.TokShape o.type o.value := by
  intro o ho
  simp only [binOps, List.mem_cons, List.mem_nil_iff, or_false] at ho
  rcases ho with rfl | rfl | rfl | rfl | rfl | rfl | rfl | rfl | rfl | rfl | rfl | rfl | rfl | rfl | rfl | rfl | rfl | rfl
  all_goals first | exact rfl | exact Or.inl rfl | exact Or.inr rfl

/-- every token type that is a binary operator has a spelling in the list -/
theorem binOps_complete (ty : TokenType) (l : Nat) (h : binLevel ty = some l) : ∃ o ∈ binOps, o.type = ty := by
  cases ty <;> simp [binLevel] at h <;> simp [binOps]

/-! ## Canonical text of a token list -/

/-- the values of the tokens, separated by single blanks -/
def sp (ts : List Token) : Bytes := Lexical.spaced (ts.map (·.value))

/-- … which lexes back to the tokens, provided each has the shape of its type -/
theorem lexes_sp {ts : List Token} (h : ∀ t ∈ ts, Lexical.TokShape t.type t.value) : Lexes (sp ts) ts :=
  C04.lex_complete_spaced ts h

/-- a one-letter identifier token -/
def idTok (c : Nat) : Token := ⟨.unquotedIdentifier, [c]⟩
/-- … as a tree -/
def fld (c : Nat) : PTree := .atom (idTok c)

theorem idTok_shape {c : Nat} (h : Lexical.isIdStartB c = true) : Lexical.TokShape (idTok c).type (idTok c).value :=
  ⟨⟨c, [], rfl, h, fun _ hb => by cases hb⟩, (by intro h; cases h), (by intro h; cases h)⟩

theorem tight_fld (c : Nat) : Tight (fld c) := C10B.tight_atom rfl
theorem erase_fld (c : Nat) : erase (fld c) = .field [c] := rfl
theorem flatten_fld (c : Nat) : Grammar.flatten (fld c) = [idTok c] := rfl

theorem paren_shape : Lexical.TokShape tLParen.type tLParen.value ∧ Lexical.TokShape tRParen.type tRParen.value :=
  ⟨rfl, rfl⟩

/-! ## Three operands, two operators: the three texts -/

/-- `a o1 b o2 c` -/
def txt (a : Nat) (o1 : Token) (b : Nat) (o2 : Token) (c : Nat) : Bytes := sp [idTok a, o1, idTok b, o2, idTok c]
/-- `( a o1 b ) o2 c` -/
def txtL (a : Nat) (o1 : Token) (b : Nat) (o2 : Token) (c : Nat) : Bytes :=
  sp [tLParen, idTok a, o1, idTok b, tRParen, o2, idTok c]
/-- `a o1 ( b o2 c )` -/
def txtR (a : Nat) (o1 : Token) (b : Nat) (o2 : Token) (c : Nat) : Bytes :=
  sp [idTok a, o1, tLParen, idTok b, o2, idTok c, tRParen]

/-- the node of `(a o1 b) o2 c` -/
def nodeL (a : Nat) (o1 : Token) (b : Nat) (o2 : Token) (c : Nat) : INode :=
  binNode o2.type (binNode o1.type (.field [a]) (.field [b])) (.field [c])
/-- the node of `a o1 (b o2 c)` -/
def nodeR (a : Nat) (o1 : Token) (b : Nat) (o2 : Token) (c : Nat) : INode :=
  binNode o1.type (.field [a]) (binNode o2.type (.field [b]) (.field [c]))

section
variable {a b c : Nat} {o1 o2 : Token}
  (ha : Lexical.isIdStartB a = true) (hb : Lexical.isIdStartB b = true) (hc : Lexical.isIdStartB c = true)
  (h1 : o1 ∈ binOps) (h2 : o2 ∈ binOps)
include ha hb hc h1 h2

theorem shapes5 : ∀ t ∈ [idTok a, o1, idTok b, o2, idTok c], Lexical.TokShape t.type t.value := by
  intro t ht
  simp only [List.mem_cons, List.mem_nil_iff, or_false] at ht
  rcases ht with rfl | rfl | rfl | rfl | rfl
  · exact idTok_shape ha
  · exact binOps_shape _ h1
  · exact idTok_shape hb
  · exact binOps_shape _ h2
  · exact idTok_shape hc

/-- `a o1 b o2 c` compiles to the right grouping when `o2` is tighter, to the left grouping otherwise -/
theorem parse_txt : Parser.parse (txt a o1 b o2 c) =
    .ok (if lvl o1 < lvl o2 then nodeR a o1 b o2 c else nodeL a o1 b o2 c) :=
  C10B.triple_tight (A := fld a) (B := fld b) (C := fld c) (binOps_level _ h1) (binOps_level _ h2)
    (tight_fld a) (tight_fld b) (tight_fld c) (lexes_sp (shapes5 ha hb hc h1 h2))

/-- `( a o1 b ) o2 c` compiles to the left grouping -/
theorem parse_txtL : Parser.parse (txtL a o1 b o2 c) = .ok (nodeL a o1 b o2 c) := by
  have hs := shapes5 ha hb hc h1 h2
  refine C10B.paren_override_left (A := fld a) (B := fld b) (C := fld c) (binOps_level _ h1) (binOps_level _ h2)
    (tight_fld a).1 (tight_fld b).1 (tight_fld c).1 ?_ ?_ ?_ (lexes_sp ?_)
  · have := C10B.level_le (binOps_level _ h1); simp only [fld, rlevel, top, lvlMul] at *; omega
  · have := C10B.level_le (binOps_level _ h1); simp only [fld, llevel, top, lvlMul] at *; omega
  · have := C10B.level_le (binOps_level _ h2); simp only [fld, llevel, top, lvlMul] at *; omega
  · intro t ht
    simp only [flatten_fld, List.cons_append, List.nil_append, List.mem_cons, List.mem_nil_iff, or_false] at ht
    rcases ht with rfl | ht
    · exact paren_shape.1
    rcases ht with ht | ht | ht | rfl | ht | ht
    · exact hs t (by simp [ht])
    · exact hs t (by simp [ht])
    · exact hs t (by simp [ht])
    · exact paren_shape.2
    · exact hs t (by simp [ht])
    · exact hs t (by simp [ht])

/-- `a o1 ( b o2 c )` compiles to the right grouping -/
theorem parse_txtR : Parser.parse (txtR a o1 b o2 c) = .ok (nodeR a o1 b o2 c) := by
  have hs := shapes5 ha hb hc h1 h2
  refine C10B.paren_override_right (A := fld a) (B := fld b) (C := fld c) (binOps_level _ h1) (binOps_level _ h2)
    (tight_fld a).1 (tight_fld b).1 (tight_fld c).1 ?_ ?_ ?_ (lexes_sp ?_)
  · have := C10B.level_le (binOps_level _ h1); simp only [fld, rlevel, top, lvlMul] at *; omega
  · have := C10B.level_le (binOps_level _ h2); simp only [fld, rlevel, top, lvlMul] at *; omega
  · have := C10B.level_le (binOps_level _ h2); simp only [fld, llevel, top, lvlMul] at *; omega
  · intro t ht
    simp only [flatten_fld, List.cons_append, List.nil_append, List.mem_cons, List.mem_nil_iff, or_false] at ht
    rcases ht with ht | ht | rfl | ht | ht | ht | rfl
    · exact hs t (by simp [ht])
    · exact hs t (by simp [ht])
    · exact paren_shape.1
    · exact hs t (by simp [ht])
    · exact hs t (by simp [ht])
    · exact hs t (by simp [ht])
    · exact paren_shape.2
end

/-! ## The document and the operand tables -/

/-- a JSON number -/
def jn (s : String) : Val := .num (.jnum (Ex.bs s))

/-- `{"a": 5, "b": 7, "c": 1, "f": true, "n": 5, "t": false}` -/
def wdocInner : Val :=
  .obj [(Ex.bs "a", jn "5"), (Ex.bs "b", jn "7"), (Ex.bs "c", jn "1"), (Ex.bs "f", .bool true), (Ex.bs "n", jn "5"),
    (Ex.bs "t", .bool false)]

/-- the document on which every grouping is observed:
    `{"a": 2, "b": 3, "c": 4, "e": [], "f": false, "h": 0.5, "n": null, "o": {"a": 5, "b": 7, "c": 1, "f": true,
      "n": 5, "t": false}, "p": 9999999999999999999999999999999999, "t": true, "w": 1e4000, "x": 1e34, "z": 1e-4000}` -/
def wdoc : Val :=
  .obj [(Ex.bs "a", jn "2"), (Ex.bs "b", jn "3"), (Ex.bs "c", jn "4"), (Ex.bs "e", .arr .plain []),
    (Ex.bs "f", .bool false), (Ex.bs "h", jn "0.5"), (Ex.bs "n", .null), (Ex.bs "o", wdocInner),
    (Ex.bs "p", jn "9999999999999999999999999999999999"), (Ex.bs "t", .bool true), (Ex.bs "w", jn "1e4000"),
    (Ex.bs "x", jn "1e34"), (Ex.bs "z", jn "1e-4000")]

/-- three one-letter field names -/
abbrev Wit := Nat × Nat × Nat

/-- **the table for different levels**: for each ordered pair of levels, the three operands (fields of `wdoc`) on which
    the two groupings of `A o1 B o2 C` differ, whatever the operators `o1`, `o2` of those levels.
    Letters: `a` 0x61, `b` 0x62, `c` 0x63, `e` 0x65, `n` 0x6E, `o` 0x6F. -/
def witness : Nat → Nat → Wit
  | 2, 3 => (0x61, 0x61, 0x61)   -- a | a || a
  | 2, 5 => (0x6F, 0x61, 0x6E)   -- o | a == n
  | 2, _ => (0x6F, 0x61, 0x61)   -- o | a + a
  | 3, 4 => (0x61, 0x61, 0x62)   -- a || a && b
  | 3, _ => (0x61, 0x61, 0x61)   -- a || a + a
  | 4, _ => (0x65, 0x61, 0x61)   -- e && a + a
  | 5, 2 => (0x61, 0x6F, 0x61)   -- a == o | a
  | 5, 3 => (0x61, 0x65, 0x61)   -- a == e || a
  | 5, 4 => (0x61, 0x61, 0x65)   -- a == a && e
  | 6, 3 => (0x61, 0x65, 0x61)   -- a + e || a
  | 7, 3 => (0x61, 0x65, 0x61)   -- a * e || a
  | 7, 6 => (0x61, 0x61, 0x63)   -- a * a + c
  | _, _ => (0x61, 0x61, 0x61)   -- a == a + a, a + a * a, …

def mulish (t : TokenType) : Bool := t == .asterisk || t == .multiply

/-- **the table for equal levels** (by operator, where one choice does not fit the whole level):
    comparisons `f == a == t`; additive `b + h + x` (rounding tells `+ +` apart); multiplicative `c / b / a`, and
    `h * a * p` where the first operator is a multiplication (rounding again) and for `% //`.
    Letters: `f` 0x66, `t` 0x74, `h` 0x68, `x` 0x78, `p` 0x70. -/
def sameWitness (o1 o2 : Token) : Wit :=
  match lvl o1 with
  | 5 => (0x66, 0x61, 0x74)
  | 6 => (0x62, 0x68, 0x78)
  | _ =>
    if (mulish o1.type && (mulish o2.type || o2.type == .divide)) || (o1.type == .modulo && o2.type == .integerDivide)
    then (0x68, 0x61, 0x70) else (0x63, 0x62, 0x61)

/-- an ordering comparison -/
def isOrd (t : TokenType) : Bool := t == .less || t == .lessOrEqual || t == .greater || t == .greaterOrEqual

/-- the pairs of operators of one level whose grouping cannot be observed: `| |`, `|| ||`, `&& &&` (associative) and
    two ordering comparisons (the result of the inner one is never a number, so both groupings give `null`) -/
def assocPair (o1 o2 : Token) : Bool :=
  (o1.type == .pipe && o2.type == .pipe) || (o1.type == .or && o2.type == .or) ||
  (o1.type == .and && o2.type == .and) || (isOrd o1.type && isOrd o2.type)

def isLetter (w : Wit) : Bool := Lexical.isIdStartB w.1 && Lexical.isIdStartB w.2.1 && Lexical.isIdStartB w.2.2

theorem witness_letters : ∀ l1 ∈ [2, 3, 4, 5, 6, 7], ∀ l2 ∈ [2, 3, 4, 5, 6, 7], isLetter (witness l1 l2) = true := by
  decide
theorem sameWitness_letters : ∀ o1 ∈ binOps, ∀ o2 ∈ binOps, isLetter (sameWitness o1 o2) = true := by decide
theorem lvl_mem : ∀ o ∈ binOps, lvl o ∈ [2, 3, 4, 5, 6, 7] := by decide

/-- **the finite check, different levels**: for every ordered pair of spellings at different levels, the two groupings
    of the table's operands evaluate differently on `wdoc` (306 pairs, each evaluated in the kernel) -/
theorem witness_table : ∀ o1 ∈ binOps, ∀ o2 ∈ binOps, lvl o1 ≠ lvl o2 →
    codeR (evaluate (nodeL (witness (lvl o1) (lvl o2)).1 o1 (witness (lvl o1) (lvl o2)).2.1 o2
        (witness (lvl o1) (lvl o2)).2.2) wdoc) ≠
    codeR (evaluate (nodeR (witness (lvl o1) (lvl o2)).1 o1 (witness (lvl o1) (lvl o2)).2.1 o2
        (witness (lvl o1) (lvl o2)).2.2) wdoc) := by
  decide +kernel

/-- **the finite check, equal levels**: for every ordered pair of spellings at one level, except the unobservable
    pairs, the two groupings of the table's operands evaluate differently on `wdoc` -/
theorem sameWitness_table : ∀ o1 ∈ binOps, ∀ o2 ∈ binOps, lvl o1 = lvl o2 → assocPair o1 o2 = false →
    codeR (evaluate (nodeL (sameWitness o1 o2).1 o1 (sameWitness o1 o2).2.1 o2 (sameWitness o1 o2).2.2) wdoc) ≠
    codeR (evaluate (nodeR (sameWitness o1 o2).1 o1 (sameWitness o1 o2).2.1 o2 (sameWitness o1 o2).2.2) wdoc) := by
  decide +kernel


/-! ## The pairs whose grouping is not observable: associativity at the level of the evaluator -/

theorem or_assoc_ieval (root : Val) (A B C : INode) (cur : Val) (env : Env) :
    ieval root (.or (.or A B) C) cur env = ieval root (.or A (.or B C)) cur env := by
  simp only [ieval]
  cases ieval root A cur env with
  | ok a =>
    simp only [Res.ok_bind]
    cases ha : isTrue a
    · simp only [Bool.false_eq_true, if_false]
    · simp only [if_true, Res.pure_eq, Res.ok_bind, ha, if_true]
  | _ => rfl

theorem and_assoc_ieval (root : Val) (A B C : INode) (cur : Val) (env : Env) :
    ieval root (.and (.and A B) C) cur env = ieval root (.and A (.and B C)) cur env := by
  simp only [ieval]
  cases ieval root A cur env with
  | ok a =>
    simp only [Res.ok_bind]
    cases ha : isTrue a
    · simp only [Bool.not_false, if_true, Res.pure_eq, Res.ok_bind, ha]
    · simp only [Bool.not_true, Bool.false_eq_true, if_false]
  | _ => rfl

theorem pipe_assoc_ieval (root : Val) (A B C : INode) (cur : Val) (env : Env) :
    ieval root (.pipe (.pipe A B) C) cur env = ieval root (.pipe A (.pipe B C)) cur env := by
  simp only [ieval]
  cases ieval root A cur env <;> rfl

/-- `<`, `<=`, `>`, `>=` -/
def ordOp (o : BinOp) : Bool := o == .lt || o == .le || o == .gt || o == .ge

theorem cmpOp_left_nonnum (f : Dec → Dec → Bool) {x : Val} (h : toDecimal x = none) (y : Val) :
    cmpOp f x y = .null := by
  simp only [cmpOp, h]
theorem cmpOp_right_nonnum (f : Dec → Dec → Bool) (x : Val) {y : Val} (h : toDecimal y = none) :
    cmpOp f x y = .null := by
  simp only [cmpOp, h]; cases toDecimal x <;> rfl
/-- the result of an ordering comparison is never a number -/
theorem cmpOp_nonnum (f : Dec → Dec → Bool) (x y : Val) : toDecimal (cmpOp f x y) = none := by
  unfold cmpOp
  cases toDecimal x
  · rfl
  · cases toDecimal y <;> rfl

/-- two ordering comparisons in a row give `null` in either grouping (or the first failure among the operands, which
    are evaluated in the same order) -/
theorem ord_chain_ieval (root : Val) (o1 o2 : BinOp) (h1 : ordOp o1 = true) (h2 : ordOp o2 = true) (A B C : INode)
    (cur : Val) (env : Env) :
    ieval root (.binop o2 (.binop o1 A B) C) cur env = ieval root (.binop o1 A (.binop o2 B C)) cur env := by
  simp only [ieval]
  cases ieval root A cur env with
  | ok a =>
    simp only [Res.ok_bind]
    cases ieval root B cur env with
    | ok b =>
      simp only [Res.ok_bind]
      cases ieval root C cur env with
      | ok c =>
        simp only [Res.ok_bind]
        cases o1 <;> simp [ordOp] at h1 <;> cases o2 <;> simp [ordOp] at h2 <;>
          simp only [applyBinOp, Res.ok_bind, less, lessOrEqual, greater, greaterOrEqual,
            cmpOp_left_nonnum _ (cmpOp_nonnum _ _ _), cmpOp_right_nonnum _ _ (cmpOp_nonnum _ _ _)]
      | _ =>
        cases o1 <;> simp [ordOp] at h1 <;> simp only [applyBinOp, Res.ok_bind] <;> rfl
    | _ => rfl
  | _ => rfl

/-- for an unobservable pair the two groupings evaluate alike, whatever the operands, the document, the current node
    and the variables -/
theorem assocPair_ieval {o1 o2 : Token} (h : assocPair o1 o2 = true) (root : Val) (X Y Z : INode) (cur : Val)
    (env : Env) :
    ieval root (binNode o2.type (binNode o1.type X Y) Z) cur env =
    ieval root (binNode o1.type X (binNode o2.type Y Z)) cur env := by
  obtain ⟨t1, v1⟩ := o1
  obtain ⟨t2, v2⟩ := o2
  cases t1 <;> simp [assocPair, isOrd] at h <;> cases t2 <;> simp at h <;>
    first
    | exact or_assoc_ieval root X Y Z cur env
    | exact and_assoc_ieval root X Y Z cur env
    | exact pipe_assoc_ieval root X Y Z cur env
    | exact ord_chain_ieval root _ _ rfl rfl X Y Z cur env

/-! ## Unary operators next to binary operators -/

/-- the general text lemma: a well-formed tree whose tokens have the shape of their types, printed with single blanks,
    compiles to the node of the tree and evaluates as that node -/
theorem text_of_tree {t : PTree} (hw : WellPrec t)
    (hs : ∀ tok ∈ Grammar.flatten t, Lexical.TokShape tok.type tok.value) :
    Parser.parse (sp (Grammar.flatten t)) = .ok (erase t) ∧
    ∀ d, search (sp (Grammar.flatten t)) d = evaluate (erase t) d :=
  C10B.parse_tree hw (lexes_sp hs)

/-- the three texts `u a o b`, `( u a ) o b`, `u ( a o b )` for a prefix operator `u` (given by its tree constructor
    `U`, its node constructor `N`, its token) and any binary operator `o`: the first two compile to `(u a) o b`, the
    third to `u (a o b)` -/
theorem unary_texts {U : PTree → PTree} {N : INode → INode} {u : Token}
    (hu : Lexical.TokShape u.type u.value)
    (hflat : ∀ X, Grammar.flatten (U X) = u :: Grammar.flatten X)
    (herase : ∀ X, erase (U X) = N (erase X))
    (hwp : ∀ X, WellPrec X → llevel X = top → WellPrec (U X))
    (hr : ∀ X, rlevel X = top → lvlMul ≤ rlevel (U X))
    {a b : Nat} {o : Token} (ha : Lexical.isIdStartB a = true) (hb : Lexical.isIdStartB b = true) (ho : o ∈ binOps) :
    Parser.parse (sp [u, idTok a, o, idTok b]) = .ok (binNode o.type (N (.field [a])) (.field [b])) ∧
    Parser.parse (sp [tLParen, u, idTok a, tRParen, o, idTok b]) =
      .ok (binNode o.type (N (.field [a])) (.field [b])) ∧
    Parser.parse (sp [u, tLParen, idTok a, o, idTok b, tRParen]) =
      .ok (N (binNode o.type (.field [a]) (.field [b]))) := by
  have hl := binOps_level _ ho
  have hle := C10B.level_le hl
  have hso := binOps_shape _ ho
  have hsa := idTok_shape ha
  have hsb := idTok_shape hb
  have wA : WellPrec (U (fld a)) := hwp _ (tight_fld a).1 rfl
  have rA : lvl o ≤ rlevel (U (fld a)) := Nat.le_trans hle (hr _ rfl)
  have w1 : WellPrec (.bin o (U (fld a)) (fld b)) :=
    C10B.binary_wf hl wA (tight_fld b).1 rA (by simp only [fld, llevel, top, lvlMul] at *; omega)
  have w2 : WellPrec (.bin o (.paren (U (fld a))) (fld b)) :=
    C10B.binary_wf hl (C04G.wellPrec_paren wA) (tight_fld b).1
      (by simp only [rlevel, top, lvlMul] at *; omega) (by simp only [fld, llevel, top, lvlMul] at *; omega)
  have w3 : WellPrec (U (.paren (.bin o (fld a) (fld b)))) :=
    hwp _ (C04G.wellPrec_paren (C10B.binary_wf hl (tight_fld a).1 (tight_fld b).1
      (by simp only [fld, rlevel, top, lvlMul] at *; omega) (by simp only [fld, llevel, top, lvlMul] at *; omega))) rfl
  refine ⟨?_, ?_, ?_⟩
  · have h := (text_of_tree w1 ?_).1
    · rw [C10B.flatten_bin, hflat, flatten_fld, flatten_fld] at h
      rw [C10B.erase_bin, herase, erase_fld, erase_fld] at h
      exact h
    · intro t ht
      rw [C10B.flatten_bin, hflat, flatten_fld, flatten_fld] at ht
      simp only [List.cons_append, List.nil_append, List.mem_cons, List.mem_nil_iff, or_false] at ht
      rcases ht with rfl | rfl | rfl | rfl <;> assumption
  · have h := (text_of_tree w2 ?_).1
    · rw [C10B.flatten_bin, C10B.flatten_paren, hflat, flatten_fld, flatten_fld] at h
      rw [C10B.erase_bin, C04G.erase_paren, herase, erase_fld, erase_fld] at h
      exact h
    · intro t ht
      rw [C10B.flatten_bin, C10B.flatten_paren, hflat, flatten_fld, flatten_fld] at ht
      simp only [List.cons_append, List.nil_append, List.mem_cons, List.mem_nil_iff, or_false] at ht
      rcases ht with rfl | rfl | rfl | rfl | rfl | rfl
      · exact paren_shape.1
      · assumption
      · assumption
      · exact paren_shape.2
      · assumption
      · assumption
  · have h := (text_of_tree w3 ?_).1
    · rw [hflat, C10B.flatten_paren, C10B.flatten_bin, flatten_fld, flatten_fld] at h
      rw [herase, C04G.erase_paren, C10B.erase_bin, erase_fld, erase_fld] at h
      exact h
    · intro t ht
      rw [hflat, C10B.flatten_paren, C10B.flatten_bin, flatten_fld, flatten_fld] at ht
      simp only [List.cons_append, List.nil_append, List.mem_cons, List.mem_nil_iff, or_false] at ht
      rcases ht with rfl | rfl | rfl | rfl | rfl | rfl
      · assumption
      · exact paren_shape.1
      · assumption
      · assumption
      · assumption
      · exact paren_shape.2

/-- `-` and `−` (U+2212) as prefix operators -/
def minusToks : List Token := [⟨.subtract, [0x2D]⟩, ⟨.subtract, [0xE2, 0x88, 0x92]⟩]

/-- operands for `! a o b`: `a && e` for `&&`, `a o b` otherwise -/
def notWitness (o : Token) : Nat × Nat := if o.type == .and then (0x61, 0x65) else (0x61, 0x62)

/-- operands for `- a o b`: `o | a`, `o || a`; `z * z`, `z / w` (the sign of an underflowed zero tells the groupings
    apart); `a // b`; `a o a` otherwise -/
def negWitness (o : Token) : Nat × Nat :=
  if o.type == .pipe || o.type == .or then (0x6F, 0x61)
  else if mulish o.type then (0x7A, 0x7A)
  else if o.type == .divide then (0x7A, 0x77)
  else if o.type == .integerDivide then (0x61, 0x62)
  else (0x61, 0x61)

/-- operands for `+ a o b` (`o` not arithmetic): `o | a`, `o || a`, `o && a`; `a o a` for the comparisons -/
def posWitness (o : Token) : Nat × Nat := if lvl o ≤ 4 then (0x6F, 0x61) else (0x61, 0x61)

theorem unary_letters : ∀ o ∈ binOps,
    (Lexical.isIdStartB (notWitness o).1 && Lexical.isIdStartB (notWitness o).2 &&
     Lexical.isIdStartB (negWitness o).1 && Lexical.isIdStartB (negWitness o).2 &&
     Lexical.isIdStartB (posWitness o).1 && Lexical.isIdStartB (posWitness o).2) = true := by decide

/-- **the finite check for `!`**: `(!a) o b` and `!(a o b)` differ on `wdoc`, for every binary operator -/
theorem not_table : ∀ o ∈ binOps,
    codeR (evaluate (binNode o.type (.not (.field [(notWitness o).1])) (.field [(notWitness o).2])) wdoc) ≠
    codeR (evaluate (.not (binNode o.type (.field [(notWitness o).1]) (.field [(notWitness o).2]))) wdoc) := by
  decide +kernel

/-- **the finite check for the sign**: `(-a) o b` and `-(a o b)` differ on `wdoc`, for every binary operator -/
theorem neg_table : ∀ o ∈ binOps,
    codeR (evaluate (binNode o.type (.negate (.field [(negWitness o).1])) (.field [(negWitness o).2])) wdoc) ≠
    codeR (evaluate (.negate (binNode o.type (.field [(negWitness o).1]) (.field [(negWitness o).2]))) wdoc) := by
  decide +kernel

/-- **the finite check for unary `+`**: `(+a) o b` and `+(a o b)` differ on `wdoc`, for every binary operator that is
    not arithmetic -/
theorem pos_table : ∀ o ∈ binOps, lvl o ≤ 5 →
    codeR (evaluate (binNode o.type (.assertNumber (.field [(posWitness o).1])) (.field [(posWitness o).2])) wdoc) ≠
    codeR (evaluate (.assertNumber (binNode o.type (.field [(posWitness o).1]) (.field [(posWitness o).2]))) wdoc) := by
  decide +kernel

/-- arithmetic on "the operand if it is a number, else `null`" is arithmetic on the operand, and the result of
    arithmetic is a number -/
theorem arith_assertNumber (fop : F64 → F64 → F64) (dop : Dec → Dec → Dec) (x y : Val) :
    arith fop dop (if isNumber x then x else .null) y =
    (arith fop dop x y >>= fun r => pure (if isNumber r then r else .null)) := by
  have key : ∀ r : Res Val, (∀ v, r = .ok v → isNumber v = true) →
      r = (r >>= fun r => pure (if isNumber r then r else .null)) := by
    intro r hr
    cases r with
    | ok v => simp only [Res.ok_bind, Res.pure_eq, hr v rfl, if_true]
    | _ => rfl
  have hnum : ∀ x y, ∀ v, arith fop dop x y = .ok v → isNumber v = true := by
    intro x y v h
    unfold arith at h
    split at h
    · unfold checkF at h; split at h
      · cases h
      · split at h
        · cases h
        · cases h; rfl
    · split at h
      · cases h
      · split at h
        · cases h
        · unfold checkD at h; split at h
          · cases h
          · split at h
            · cases h
            · cases h; rfl
  cases x with
  | num n => simp only [isNumber, if_true]; exact key _ (hnum _ _)
  | _ =>
    simp only [isNumber, Bool.false_eq_true, if_false]
    simp only [arith, toFloatPair, toFloat, toDecimal]
    rfl

/-- an arithmetic operator -/
def arithOp (o : BinOp) : Bool := o == .add || o == .sub || o == .mul || o == .div || o == .idiv || o == .mod

/-- **unary `+` commutes with the arithmetic operators**: `(+A) o B` and `+(A o B)` evaluate alike, whatever the
    operands — this grouping is not observable -/
theorem pos_arith_ieval (root : Val) (o : BinOp) (h : arithOp o = true) (A B : INode) (cur : Val) (env : Env) :
    ieval root (.binop o (.assertNumber A) B) cur env = ieval root (.assertNumber (.binop o A B)) cur env := by
  simp only [ieval]
  cases ieval root A cur env with
  | ok a =>
    simp only [Res.ok_bind, Res.pure_eq]
    cases ieval root B cur env with
    | ok b =>
      simp only [Res.ok_bind]
      cases o <;> simp [arithOp] at h <;>
        simp only [applyBinOp, add, subtract, multiply, divide, integerDivide, modulo] <;>
        exact arith_assertNumber _ _ a b
    | _ => rfl
  | _ => rfl

end Jmes.C10E
