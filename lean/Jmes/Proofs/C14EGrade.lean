/-
  Helper for property C14, fourth round: an ABSTRACT accounting of "all intermediate values are exactly
  representable" along an expression.

  `C14C` fixed one accounting: floats hold integers `< 2^k`, every arithmetic operator doubles `k`.  Here the accounting
  is a parameter (`Grading`): a set `G` of grades, a family of float predicates `P g`, and for every arithmetic
  operator the grade `opG op ga gb` of the result on operands of grades `ga`, `gb` together with a decidable budget
  check `opOK op ga gb` under which the operator is exact in both representations (`op_rr`, `op_fb`).
  From that: `grade Γ t g` — the grade of the result of `t` on inputs of grade `g`, following the flow of values — and
  `budget Γ t g` — every operator of `t` meets its operands within budget.  The two inductions over expressions
  (`Jmes/Proofs/C14EGradeEval.lean`) are done once, for every grading.
-/
import Jmes.Properties.C14C
namespace Jmes
namespace C14E
open C14 C14B C14C

/-- an accounting of exactly representable floats -/
structure Grading (G : Type) where
  /-- `le g g'`: everything of grade `g` is of grade `g'` -/
  le : G → G → Prop
  le_refl : ∀ g, le g g
  le_trans : ∀ {a b c}, le a b → le b c → le a c
  /-- the floats of grade `g` -/
  P : G → F64 → Prop
  mono : ∀ {g g' : G} {f : F64}, le g g' → P g f → P g' f
  /-- each grade is closed under the exact unary operations (unary minus, `abs`, `ceil`, `floor`) -/
  unclosed : ∀ g, UnClosed (P g)
  join : G → G → G
  le_join_left : ∀ a b, le a (join a b)
  le_join_right : ∀ a b, le b (join a b)
  /-- the grade of `a op b` for operands of grades `ga`, `gb` (`op` one of `+ - * / // %`) -/
  opG : BinOp → G → G → G
  /-- the budget check for `a op b` on operands of grades `ga`, `gb` -/
  opOK : BinOp → G → G → Bool
  le_opG_left : ∀ op a b, le a (opG op a b)
  le_opG_right : ∀ op a b, le b (opG op a b)
  /-- within budget the operator gives related outcomes on related operands, whatever mix of representations -/
  op_rr : ∀ {op : BinOp} {ga gb : G} {a a' b b' : Val}, op.isCmp = false → opOK op ga gb = true →
    VR false a a' → VR false b b' → AllF (P ga) a → AllF (P ga) a' → AllF (P gb) b → AllF (P gb) b' →
    RR (VR false) (applyBinOp op a b) (applyBinOp op a' b')
  /-- … and a float result is of grade `opG op ga gb` -/
  op_fb : ∀ {op : BinOp} {ga gb : G} {a b w : Val}, op.isCmp = false → opOK op ga gb = true →
    AllF (P ga) a → AllF (P gb) b → applyBinOp op a b = .ok w → AllF (P (opG op ga gb)) w

section
variable {G : Type} (Γ : Grading G)

mutual
/-- the grade of the result of `t` when the current value, the root and the environment are of grade `g` -/
def grade : Tree → G → G
  | .lit _, g | .current, g | .root, g | .field _, g | .var _, g | .index _, g | .slice _ _, g
  | .sliceStep _ _ _, g => g
  | .binop op l r, g => if op.isCmp then g else Γ.opG op (grade l g) (grade r g)
  | .sub l r, g | .proj l r, g | .sliceProj l r, g | .flatProj l r, g | .valueProj l r, g => grade r (grade l g)
  | .groupBy l r, g | .maxBy l r, g | .minBy l r, g | .sortBy l r, g => grade r (grade l g)
  | .map l r, g => grade l (grade r g)
  | .and l r, g | .or l r, g => Γ.join (grade l g) (grade r g)
  | .not _, g => g
  | .neg c, g | .pos c, g | .prune c, g => grade c g
  | .filterProj l _ r, g => grade r (grade l g)
  | .call _ args, g | .multiList _ args, g | .merge args, g | .notNull args, g | .zip args, g => gradeL args g
  | .multiHash _ kvs, g => gradeF kvs g
  | .letIn bs body, g => grade body (gradeF bs g)
def gradeL : List Tree → G → G
  | [], g => g
  | t :: ts, g => Γ.join (grade t g) (gradeL ts g)
def gradeF : List (Bytes × Tree) → G → G
  | [], g => g
  | (_, t) :: rest, g => Γ.join (grade t g) (gradeF rest g)
end

mutual
/-- every arithmetic operator of `t` meets operands within its budget, on inputs of grade `g` -/
def budget : Tree → G → Bool
  | .lit _, _ | .current, _ | .root, _ | .field _, _ | .var _, _ | .index _, _ | .slice _ _, _
  | .sliceStep _ _ _, _ => true
  | .binop op l r, g => budget l g && budget r g && (op.isCmp || Γ.opOK op (grade Γ l g) (grade Γ r g))
  | .sub l r, g | .proj l r, g | .sliceProj l r, g | .flatProj l r, g | .valueProj l r, g =>
    budget l g && budget r (grade Γ l g)
  | .groupBy l r, g | .maxBy l r, g | .minBy l r, g | .sortBy l r, g => budget l g && budget r (grade Γ l g)
  | .map l r, g => budget r g && budget l (grade Γ r g)
  | .and l r, g | .or l r, g => budget l g && budget r g
  | .not c, g | .neg c, g | .pos c, g | .prune c, g => budget c g
  | .filterProj l c r, g => budget l g && budget c (grade Γ l g) && budget r (grade Γ l g)
  | .call _ args, g | .multiList _ args, g | .merge args, g | .notNull args, g | .zip args, g => budgetL args g
  | .multiHash _ kvs, g => budgetF kvs g
  | .letIn bs body, g => budgetF bs g && budget body (gradeF Γ bs g)
def budgetL : List Tree → G → Bool
  | [], _ => true
  | t :: ts, g => budget t g && budgetL ts g
def budgetF : List (Bytes × Tree) → G → Bool
  | [], _ => true
  | (_, t) :: rest, g => budget t g && budgetF rest g
end

end

/-- the fragment: any binary operator (the budget decides about the arithmetic ones), the builtins that are congruent
    outright, literals that are proper float-free numbers -/
abbrev FragE (t : Tree) : Prop :=
  t.Ops (fun _ => True) (fun f => f.plain = true ∨ f.isRound = true) True (fun v => v.Valued ∧ v.NoFloat)
abbrev FragEL (ts : List Tree) : Prop :=
  Tree.OpsL (fun _ => True) (fun f => f.plain = true ∨ f.isRound = true) True (fun v => v.Valued ∧ v.NoFloat) ts
abbrev FragEF (fs : List (Bytes × Tree)) : Prop :=
  Tree.OpsF (fun _ => True) (fun f => f.plain = true ∨ f.isRound = true) True (fun v => v.Valued ∧ v.NoFloat) fs

end C14E
end Jmes
