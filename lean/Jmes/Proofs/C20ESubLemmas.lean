/-
  Property C20, fourth pass — helper: **what `decimal128.Parse` makes of a number text whose last digit lies below
  `10^EMIN`** (the subnormal band and beyond; C20B stops at `EMIN ≤` exponent of the last digit).

  The rule (`reduce_low`, `parseNumber_low`): let `V` be the digit string, `E < EMIN` the exponent of its last digit and
  `K = max (ndrop V) (EMIN − E)` the number of low digits that must go (to bring the coefficient down to `MAXSIG` and the
  exponent up to `EMIN`).  The text is read as `rhe V K · 10^(E+K)`: ONE rounding, half-even, of the exact value — the
  sticky flag of the scanner and of `dropLow` makes the two stages (coefficient, exponent) round as one.  Silent
  underflow (KF07): when `2·V ≤ 10^K` the result is zero, without any error.
-/
import Jmes.Proofs.C20EEqLemmas
import Jmes.Proofs.Repr
namespace Jmes.C20E
open Jmes Jmes.Dec Jmes.C05 Jmes.C20 Jmes.C20B Jmes.C20C

/-! ## arithmetic of the rounding rule -/

/-- a value at most half a unit rounds to zero -/
theorem rhe_small {V m : Nat} (h : 2 * V ≤ 10 ^ m) : rhe V m = 0 := by
  have hp : 0 < 10 ^ m := Nat.pow_pos (by decide)
  have hlt : V < 10 ^ m := by omega
  unfold rhe
  rw [Nat.div_eq_of_lt hlt, Nat.mod_eq_of_lt hlt]
  have : ¬ (2 * V > 10 ^ m ∨ 2 * V = 10 ^ m ∧ 0 % 2 = 1) := by omega
  simp only [this, if_false]

example : rhe 5 1 = 0 ∧ rhe 6 1 = 1 ∧ rhe 49 2 = 0 := by decide

theorem RInv_zero_small {V k dg : Nat} {st : Bool} (h : RInv V k 0 dg st) : V < 10 ^ k := by
  obtain ⟨t, h1, h2, h3, _⟩ := h
  have hub : dg * 10 ^ k ≤ 9 * 10 ^ k := Nat.mul_le_mul_right _ (by omega)
  simp only [Nat.zero_mul, Nat.zero_add] at h1
  omega

theorem RInv_bound {V k c dg : Nat} {st : Bool} (h : RInv V k c dg st) : V < (c + 1) * 10 ^ k := by
  obtain ⟨r, t, h1, h2, _⟩ := RInv_decomp h
  rw [Nat.succ_mul]; omega

/-- the outcome of the final rounding step on a state that stands for `V` after `k` dropped digits -/
theorem rhe_of_RInv' {V k c dg : Nat} {st : Bool} (h : RInv V k c dg st) :
    (if RoundUp c dg st then c + 1 else c) = rhe V k := (rhe_of_RInv h).symm

/-! ## `dropLow` -/

/-- **gradual underflow drops exactly the digits below `10^EMIN`**: starting from a state that stands for `V` after `k`
    dropped digits at an exponent `e < EMIN`, with enough fuel, `dropLow` ends at exponent `EMIN` in a state whose final
    rounding is `rhe V (k + (EMIN − e))` — either the state after `EMIN − e` more digits, or the all-zero shortcut, which
    it takes only when everything left rounds to zero anyway -/
theorem dropLow_spec (V : Nat) : ∀ (fuel c : Nat) (e : Int) (dg : Nat) (st : Bool) (k : Nat),
    RInv V k c dg st → e < EMIN → (EMIN - e).toNat ≤ fuel →
    ∃ c' dg' st', dropLow fuel c e dg st = (c', EMIN, dg', st') ∧ c' ≤ c / 10 ∧
      (if RoundUp c' dg' st' then c' + 1 else c') = rhe V (k + (EMIN - e).toNat)
  | 0, c, e, dg, st, k, _, he, hf => by omega
  | fuel + 1, c, e, dg, st, k, h, he, hf => by
    unfold dropLow
    simp only [he, if_true]
    by_cases hz : c / 10 = 0 ∧ c % 10 = 0
    · simp only [hz, and_self, if_true]
      have hc0 : c = 0 := by omega
      subst hc0
      refine ⟨0, 0, false, rfl, by simp, ?_⟩
      have hV := RInv_zero_small h
      have hn : 1 ≤ (EMIN - e).toNat := by omega
      have hpow : 10 ^ (k + 1) ≤ 10 ^ (k + (EMIN - e).toNat) := Nat.pow_le_pow_right (by decide) (by omega)
      rw [rhe_small (by rw [Nat.pow_succ] at hpow; omega)]
      decide
    · simp only [hz, if_false]
      have hstep := RInv_step h
      by_cases he1 : e + 1 < EMIN
      · obtain ⟨c', dg', st', g1, g2, g3⟩ :=
          dropLow_spec V fuel (c / 10) (e + 1) (c % 10) (st || dg != 0) (k + 1) hstep he1 (by omega)
        refine ⟨c', dg', st', g1, by omega, ?_⟩
        rw [g3]
        congr 1
        omega
      · have hE : e + 1 = EMIN := by omega
        rw [dropLow_id _ _ _ _ _ (by omega), hE]
        refine ⟨c / 10, c % 10, (st || dg != 0), rfl, Nat.le_refl _, ?_⟩
        rw [rhe_of_RInv' hstep]
        congr 1
        omega

/-! ## `reduce` from the state `dropHigh` leaves -/

theorem MAXSIG_lt_pow35 : MAXSIG < 10 ^ 35 := by decide

/-- the part of `reduce` after `dropHigh`, when `dropHigh` ends below `EMIN` (but within 59 places of it): the value
    `V`, of which `k1` digits have been dropped, loses the `EMIN − e1` further digits below `10^EMIN` and is rounded once,
    half-even -/
theorem reduceTail_low (neg : Bool) (V k1 c1 d1 : Nat) (s1 : Bool) (e1 : Int) (h : RInv V k1 c1 d1 s1)
    (hc : c1 ≤ MAXSIG) (hlt : e1 < EMIN) (hn : EMIN - 59 ≤ e1) :
    reduceTail neg (if (reduceLow (c1, e1, d1, s1)).2.1 < EMIN then (0, EMIN, 0, true) else reduceLow (c1, e1, d1, s1)) =
      normalize (.fin neg (rhe V (k1 + (EMIN - e1).toNat)) EMIN) := by
  obtain ⟨c', dg', st', g1, g2, g3⟩ :=
    dropLow_spec V (min ((EMIN - e1).toNat + 1) 60) c1 e1 d1 s1 k1 h hlt (by omega)
  have hlow : reduceLow (c1, e1, d1, s1) = (c', EMIN, dg', st') := g1
  rw [hlow]
  simp only [Int.lt_irrefl, if_false]
  unfold reduceTail
  simp only []
  rw [scaleUp_id 40 c' EMIN (by decide)]
  simp only []
  rw [show (3 : Nat) = 2 + 1 from rfl, roundEven_succ]
  have hc' : ¬ (c' + 1 > MAXSIG) := by rw [MAXSIG_val] at *; omega
  by_cases hup : RoundUp c' dg' st'
  · simp only [hup, if_true, hc', if_false] at g3 ⊢
    rw [g3]
    simp only [show ¬ (EMIN > EMAX) by decide, if_false]
  · simp only [hup, if_false] at g3 ⊢
    rw [g3]
    simp only [show ¬ (EMIN > EMAX) by decide, if_false]

/-- **`reduce` on a coefficient that needs no `dropHigh`**, below `EMIN` -/
theorem reduce_low_small (neg : Bool) (V : Nat) (e : Int) (hV0 : V ≠ 0) (hV : V ≤ MAXSIG) (hlt : e < EMIN)
    (hn : EMIN - 59 ≤ e) :
    reduce neg V e false = normalize (.fin neg (rhe V (EMIN - e).toNat) EMIN) := by
  rw [reduce_eq]
  simp only [hV0, false_and, if_false]
  obtain ⟨j, c', dg', st', g1, g2, g3, g4, _⟩ :=
    dropHigh_spec V (Nat.log2 (V + 1) + 2) V e 0 false 0 (RInv_init V) (lt_two_pow_fuel V)
  obtain ⟨hj, hc'⟩ := g4 hV
  rw [hj, hc'] at g1 g2
  simp only [Nat.zero_add, Int.natCast_zero, Int.add_zero] at g1 g2
  rw [g1, reduceTail_low neg V 0 V dg' st' e g2 hV hlt hn]
  simp

/-- what `dropHigh` does to a coefficient `C > MAXSIG` standing (with the sticky flag) for `V = C·10^j + tail`: it ends
    after `ndrop V` dropped digits of `V` in all -/
theorem dropHigh_big (C : Nat) (e : Int) (St : Bool) (V j tail : Nat) (hV : V = C * 10 ^ j + tail)
    (ht : tail < 10 ^ j) (hst : St = true ↔ tail ≠ 0) (hC : MAXSIG < C) :
    j + 1 ≤ ndrop V ∧ ∃ c1 d1 s1, dropHigh (Nat.log2 (C + 1) + 2) C e 0 St = (c1, e - j + (ndrop V : Nat), d1, s1) ∧
      RInv V (ndrop V) c1 d1 s1 ∧ c1 ≤ MAXSIG ∧ (MAXSIG + 1) / 10 ≤ c1 := by
  have hinv : RInv V (j + 1) (C / 10) (C % 10) St := by
    refine ⟨10 * tail, ?_, by rw [Nat.pow_succ]; omega, by omega, by rw [hst]; omega⟩
    have hc : C = 10 * (C / 10) + C % 10 := by omega
    generalize C / 10 = a at *
    generalize C % 10 = b at *
    subst hc
    rw [hV]
    simp only [Nat.pow_succ]
    grind
  have hfuel : C / 10 < 2 ^ (Nat.log2 (C + 1) + 1) := by
    have := lt_two_pow_fuel C
    rw [Nat.pow_succ] at this
    omega
  obtain ⟨j2, c1, d1, s1, g1, g2, g3, g4, g5⟩ :=
    dropHigh_spec V (Nat.log2 (C + 1) + 1) (C / 10) (e + 1) (C % 10) St (j + 1) hinv hfuel
  have hc1 : (MAXSIG + 1) / 10 ≤ c1 := by
    by_cases h10 : C / 10 ≤ MAXSIG
    · rw [(g4 h10).2]; rw [MAXSIG_val] at *; omega
    · exact (g5 (by omega)).2
  have hK : ndrop V = j + 1 + j2 := by
    apply ndrop_unique
    · rw [RInv_div g2]; exact g3
    · intro _
      obtain ⟨r, t, q1, _⟩ := RInv_decomp g2
      have e1 : j + 1 + j2 - 1 = j + j2 := by omega
      have e2 : 10 ^ (j + 1 + j2) = 10 * 10 ^ (j + j2) := by
        rw [show j + 1 + j2 = (j + j2) + 1 by omega, Nat.pow_succ, Nat.mul_comm]
      rw [e1]
      have hp : 0 < 10 ^ (j + j2) := Nat.pow_pos (by decide)
      have : c1 * 10 ≤ V / 10 ^ (j + j2) := by
        rw [Nat.le_div_iff_mul_le hp, q1, e2]
        have : c1 * 10 * 10 ^ (j + j2) = c1 * (10 * 10 ^ (j + j2)) := by rw [Nat.mul_assoc]
        omega
      rw [MAXSIG_val] at *
      omega
  refine ⟨by omega, c1, d1, s1, ?_, by rw [hK]; exact g2, g3, hc1⟩
  rw [show Nat.log2 (C + 1) + 2 = (Nat.log2 (C + 1) + 1) + 1 from rfl]
  unfold dropHigh
  simp only [hC, if_true, bne_self_eq_false, Bool.or_false]
  rw [g1, hK]
  simp only [Prod.mk.injEq, true_and, and_true]
  omega

/-- **`reduce` on a coefficient `C > MAXSIG`** (with a sticky flag for a tail) whose rounding to `MAXSIG` still ends below
    `EMIN`: the digits below `10^EMIN` go too, one rounding in all -/
theorem reduce_low_big (neg : Bool) (C : Nat) (e : Int) (St : Bool) (V j tail : Nat) (hV : V = C * 10 ^ j + tail)
    (ht : tail < 10 ^ j) (hst : St = true ↔ tail ≠ 0) (hC : MAXSIG < C) (hlt : e - j + (ndrop V : Nat) < EMIN)
    (hn : EMIN - 59 ≤ e - j + (ndrop V : Nat)) :
    reduce neg C e St = normalize (.fin neg (rhe V (EMIN - (e - j)).toNat) EMIN) := by
  obtain ⟨hj, c1, d1, s1, g1, g2, g3, _⟩ := dropHigh_big C e St V j tail hV ht hst hC
  have hC0 : C ≠ 0 := by rw [MAXSIG_val] at hC; omega
  rw [reduce_eq]
  simp only [hC0, false_and, if_false]
  rw [g1, reduceTail_low neg V (ndrop V) c1 d1 s1 _ g2 g3 hlt hn]
  congr 3
  omega

/-- the general form of `C20B.reduce_round`: the hypothesis is only that the exponent is `≥ EMIN` AFTER the coefficient
    has been brought down to `MAXSIG` (`e` itself may be below `EMIN`) -/
theorem reduce_round_long (neg : Bool) (C : Nat) (e : Int) (St : Bool) (V j tail : Nat) (hV : V = C * 10 ^ j + tail)
    (ht : tail < 10 ^ j) (hst : St = true ↔ tail ≠ 0) (hC : MAXSIG < C) (he : EMIN ≤ e - j + (ndrop V : Nat)) :
    reduce neg C e St =
      if e - j + (ndrop V : Nat) + (if rhe V (ndrop V) ≤ MAXSIG then 0 else 1) > EMAX then .inf neg
      else normalize (.fin neg (rhe V (ndrop V)) (e - j + (ndrop V : Nat))) := by
  obtain ⟨hj, c1, d1, s1, g1, g2, g3, g4⟩ := dropHigh_big C e St V j tail hV ht hst hC
  have hC0 : C ≠ 0 := by rw [MAXSIG_val] at hC; omega
  obtain ⟨r1, r2⟩ := roundEven_exact 1 (e - j + (ndrop V : Nat)) g2 g3
  unfold reduce
  simp only [hC0, false_and, if_false]
  rw [g1]
  simp only []
  rw [dropLow_id _ _ _ _ _ he]
  simp only []
  have hlt : ¬ (e - j + ((ndrop V : Nat) : Int) < EMIN) := by omega
  simp only [hlt, if_false]
  rw [scaleUp_full _ _ _ (by rw [MAXSIG_val] at *; omega)]
  simp only []
  rw [r1]
  rcases r2 with r2 | r2
  · simp only [r2, if_true, Int.add_zero]
  · have hn : ¬ (rhe V (ndrop V) ≤ MAXSIG) := by omega
    simp only [hn, if_false]
    rw [r2, ← MAXSIG_succ_div, normalize_shift]
    rfl

/-! ## the parser -/

theorem PFULL_bound : PFULL * 10 + 10 ≤ 10 ^ 39 := by decide

/-- the digit string a scanner state stands for is below `10^(J+39)` -/
theorem MI_lt {C : Nat} {St : Bool} {V J : Nat} (h : MI C St V J) (hC : C ≤ PFULL * 10 + 9) : V < 10 ^ (J + 39) := by
  obtain ⟨tail, h1, h2, _, _⟩ := h
  have h3 : (C + 1) * 10 ^ J ≤ (PFULL * 10 + 10) * 10 ^ J := Nat.mul_le_mul_right _ (by omega)
  have h4 : (PFULL * 10 + 10) * 10 ^ J ≤ 10 ^ 39 * 10 ^ J := Nat.mul_le_mul_right _ PFULL_bound
  rw [Nat.succ_mul] at h3
  rw [Nat.pow_add, Nat.mul_comm (10 ^ J)]
  omega

/-- **texts whose last digit is below `10^EMIN` even after the coefficient has been cut to `MAXSIG`** (all texts of the
    subnormal band with at most 34 digits, and the tiny ones): the digit string `V` loses its `EMIN − E` digits below
    `10^EMIN` in ONE half-even rounding; no error, whatever is lost (silent underflow, KF07) -/
theorem parseNumber_low (neg sep : Bool) (b : Nat) (ip fp : Bytes) (ex : Option (Bool × Option Bool × Bytes))
    (h : WF b ip fp ex) (hx : exField ex ≤ 6189) (hV0 : dval 0 ((b :: ip) ++ fp) ≠ 0)
    (hlt : numTextExp fp ex + (ndrop (dval 0 ((b :: ip) ++ fp)) : Nat) < EMIN) :
    parseNumber (numText false (b :: ip) fp ex) neg sep =
      .ok (normalize (.fin neg (rhe (dval 0 ((b :: ip) ++ fp)) (EMIN - numTextExp fp ex).toNat) EMIN)) := by
  obtain ⟨s, J, h1, h2, h3, h4, h5, h6, hcb, h7, _⟩ := parseNumber_scan neg sep b ip fp ex h
  obtain ⟨h7a, h7b⟩ := h7 hx
  have hexp := state_exp h5 h6 h7b
  generalize dval 0 ((b :: ip) ++ fp) = V at *
  generalize numTextExp fp ex = E at *
  rw [h1]
  have hc0 : s.c ≠ 0 := fun hc => hV0 ((MI_zero h3).mp hc)
  have hEM : EMIN < EMAX := by decide
  unfold parseFinish
  simp only [h2, Bool.not_true, Bool.false_eq_true, if_false, hc0, h7a]
  rw [hexp]
  by_cases hV : V ≤ MAXSIG
  · obtain ⟨rfl, hC, hSt⟩ := MI_small h3 hV
    rw [ndrop_zero hV] at hlt
    simp only [Int.natCast_zero, Int.add_zero] at hlt ⊢
    have c1 : ¬ (E > EMAX + 39) := by omega
    simp only [c1, if_false]
    by_cases c2 : E < EMIN - 39
    · simp only [c2, if_true]
      have hpow : 10 ^ 36 ≤ 10 ^ (EMIN - E).toNat := Nat.pow_le_pow_right (by decide) (by omega)
      have h36 : 2 * MAXSIG ≤ 10 ^ 36 := by decide
      rw [rhe_small (by omega), normalize_zero]
    · simp only [c2, if_false]
      rw [hC, hSt, reduce_low_small neg V E hV0 hV hlt (by omega)]
      obtain ⟨c', e', hn⟩ := normalize_fin neg (rhe V (EMIN - E).toNat) EMIN
      rw [hn]
  · have hVb : MAXSIG < V := by omega
    have hCb := MI_big h3 hVb
    have hVlt := MI_lt h3 hcb
    obtain ⟨tail, t1, t2, t3, _⟩ := h3
    have hj := (dropHigh_big s.c 0 s.sticky V J tail t1 t2 t3 hCb).1
    have c1 : ¬ (E + (J : Int) > EMAX + 39) := by omega
    simp only [c1, if_false]
    by_cases c2 : E + (J : Int) < EMIN - 39
    · simp only [c2, if_true]
      have hpow : 10 ^ (J + 40) ≤ 10 ^ (EMIN - E).toNat := Nat.pow_le_pow_right (by decide) (by omega)
      have h40 : 10 ^ (J + 40) = 10 * 10 ^ (J + 39) := by
        rw [show J + 40 = (J + 39) + 1 by omega, Nat.pow_succ, Nat.mul_comm]
      rw [rhe_small (by omega), normalize_zero]
    · simp only [c2, if_false]
      rw [reduce_low_big neg s.c (E + J) s.sticky V J tail t1 t2 t3 hCb (by omega) (by omega)]
      have e1 : E + (J : Int) - (J : Int) = E := by omega
      rw [e1]
      obtain ⟨c', e', hn⟩ := normalize_fin neg (rhe V (EMIN - E).toNat) EMIN
      rw [hn]

/-- **texts with a long digit string whose last digit is below `10^EMIN` but which end at or above it once cut to
    `MAXSIG`**: as for regular texts, the `ndrop V` low digits are rounded away half-even; a range error if that
    overflows (only possible with more than 12000 digits) -/
theorem parseNumber_long (neg sep : Bool) (b : Nat) (ip fp : Bytes) (ex : Option (Bool × Option Bool × Bytes))
    (h : WF b ip fp ex) (hx : exField ex ≤ 6189) (hV : MAXSIG < dval 0 ((b :: ip) ++ fp))
    (hlo : EMIN ≤ numTextExp fp ex + (ndrop (dval 0 ((b :: ip) ++ fp)) : Nat)) :
    parseNumber (numText false (b :: ip) fp ex) neg sep =
      if numTextExp fp ex + (ndrop (dval 0 ((b :: ip) ++ fp)) : Nat) +
          (if rhe (dval 0 ((b :: ip) ++ fp)) (ndrop (dval 0 ((b :: ip) ++ fp))) ≤ MAXSIG then 0 else 1) > EMAX
      then .range (.inf neg)
      else .ok (normalize (.fin neg (rhe (dval 0 ((b :: ip) ++ fp)) (ndrop (dval 0 ((b :: ip) ++ fp))))
        (numTextExp fp ex + (ndrop (dval 0 ((b :: ip) ++ fp)) : Nat)))) := by
  obtain ⟨s, J, h1, h2, h3, h4, h5, h6, hcb, h7, _⟩ := parseNumber_scan neg sep b ip fp ex h
  obtain ⟨h7a, h7b⟩ := h7 hx
  have hexp := state_exp h5 h6 h7b
  generalize dval 0 ((b :: ip) ++ fp) = V at *
  generalize numTextExp fp ex = E at *
  rw [h1]
  have hCb := MI_big h3 hV
  have hVlt := MI_lt h3 hcb
  have hnd : ndrop V ≤ J + 39 := ndrop_le hVlt
  obtain ⟨tail, t1, t2, t3, _⟩ := h3
  have hj := (dropHigh_big s.c 0 s.sticky V J tail t1 t2 t3 hCb).1
  have hc0 : s.c ≠ 0 := by rw [MAXSIG_val] at hCb; omega
  unfold parseFinish
  simp only [h2, Bool.not_true, Bool.false_eq_true, if_false, hc0, h7a]
  rw [hexp]
  have c2 : ¬ (E + (J : Int) < EMIN - 39) := by omega
  by_cases c1 : E + (J : Int) > EMAX + 39
  · have c3 : E + ((ndrop V : Nat) : Int) + (if rhe V (ndrop V) ≤ MAXSIG then 0 else 1) > EMAX := by
      split <;> omega
    simp only [c1, c3, if_true]
  · simp only [c1, c2, if_false]
    rw [reduce_round_long neg s.c (E + J) s.sticky V J tail t1 t2 t3 hCb (by omega)]
    have e1 : E + (J : Int) - (J : Int) = E := by omega
    rw [e1]
    by_cases c3 : E + ((ndrop V : Nat) : Int) + (if rhe V (ndrop V) ≤ MAXSIG then 0 else 1) > EMAX
    · simp only [c3, if_true]
    · simp only [c3, if_false]
      obtain ⟨c', e', hn⟩ := normalize_fin neg (rhe V (ndrop V)) (E + ((ndrop V : Nat) : Int))
      rw [hn]

/-! ## number texts -/

/-- a text of the JSON grammar whose last digit is below `10^EMIN` and stays there when the digit string is cut to
    `MAXSIG`: every subnormal text of at most 34 digits is one (`ndrop = 0`) -/
structure Low (t : Bytes) : Prop where
  gram : Lexical.JNumber t
  efield : (numParts t).efield ≤ 6189
  nz : (numParts t).mant ≠ 0
  low : (ratRaw t).2 + (ndrop (numParts t).mant : Nat) < EMIN

/-- a text whose last digit is below `10^EMIN` but whose digit string is so long that, cut to `MAXSIG`, it ends at or
    above `10^EMIN` -/
structure LongLow (t : Bytes) : Prop where
  gram : Lexical.JNumber t
  efield : (numParts t).efield ≤ 6189
  below : (ratRaw t).2 < EMIN
  reach : EMIN ≤ (ratRaw t).2 + (ndrop (numParts t).mant : Nat)

theorem low_iff (t : Bytes) : Low t ↔ (Json.isValidNumber t = true ∧ (numParts t).efield ≤ 6189 ∧
    (numParts t).mant ≠ 0 ∧ (ratRaw t).2 + (ndrop (numParts t).mant : Nat) < EMIN) := by
  rw [JsonGrammar.isValidNumber_iff]
  exact ⟨fun h => ⟨h.gram, h.efield, h.nz, h.low⟩, fun ⟨a, b, c, d⟩ => ⟨a, b, c, d⟩⟩

instance (t : Bytes) : Decidable (Low t) := decidable_of_iff _ (low_iff t).symm

theorem longLow_iff (t : Bytes) : LongLow t ↔ (Json.isValidNumber t = true ∧ (numParts t).efield ≤ 6189 ∧
    (ratRaw t).2 < EMIN ∧ EMIN ≤ (ratRaw t).2 + (ndrop (numParts t).mant : Nat)) := by
  rw [JsonGrammar.isValidNumber_iff]
  exact ⟨fun h => ⟨h.gram, h.efield, h.below, h.reach⟩, fun ⟨a, b, c, d⟩ => ⟨a, b, c, d⟩⟩

instance (t : Bytes) : Decidable (LongLow t) := decidable_of_iff _ (longLow_iff t).symm

theorem LongLow.big {t : Bytes} (h : LongLow t) : MAXSIG < (numParts t).mant := by
  apply Nat.lt_of_not_le
  intro hle
  have := h.reach; have := h.below
  rw [ndrop_zero hle] at *
  omega

/-- every text with non-zero digits, an exponent field `≤ 6189` and its last digit below `10^EMIN` is `Low` or `LongLow` -/
theorem low_or_longLow {t : Bytes} (hg : Lexical.JNumber t) (he : (numParts t).efield ≤ 6189)
    (hnz : (numParts t).mant ≠ 0) (hb : (ratRaw t).2 < EMIN) : Low t ∨ LongLow t := by
  by_cases h : (ratRaw t).2 + (ndrop (numParts t).mant : Nat) < EMIN
  · exact .inl ⟨hg, he, hnz, h⟩
  · exact .inr ⟨hg, he, hb, by omega⟩

/-- **what `toDecimal` makes of a `Low` text**: the digit string rounded ONCE, half-even, at `10^EMIN` -/
theorem toDecimal_low {t : Bytes} (h : Low t) :
    toDecimal (.num (.jnum t)) = some (normalize (.fin (numParts t).neg
      (rhe (numParts t).mant (EMIN - (ratRaw t).2).toNat) EMIN)) := by
  obtain ⟨neg, b, ip, fp, ex, rfl, hwf⟩ := jnumber_numText h.gram
  have hb : isDigit b = true := hwf.1 b (List.mem_cons_self ..)
  have hef := h.efield
  have hnz := h.nz
  have hlow := h.low
  rw [ratRaw_numText neg b ip fp ex hwf, numParts_numText neg b ip fp ex hwf] at *
  simp only [] at hef hnz hlow ⊢
  simp only [toDecimal]
  rw [parse_numText neg b ip fp ex hb, parseNumber_low neg true b ip fp ex hwf hef hnz hlow]

/-- **what `toDecimal` makes of a `LongLow` text**: as for a regular text; none when the rounding overflows -/
theorem toDecimal_long {t : Bytes} (h : LongLow t) :
    toDecimal (.num (.jnum t)) =
      if (ratRaw t).2 + (ndrop (numParts t).mant : Nat) +
          (if rhe (numParts t).mant (ndrop (numParts t).mant) ≤ MAXSIG then 0 else 1) > EMAX then none
      else some (normalize (.fin (numParts t).neg (rhe (numParts t).mant (ndrop (numParts t).mant))
        ((ratRaw t).2 + (ndrop (numParts t).mant : Nat)))) := by
  have hbig := h.big
  obtain ⟨neg, b, ip, fp, ex, rfl, hwf⟩ := jnumber_numText h.gram
  have hb : isDigit b = true := hwf.1 b (List.mem_cons_self ..)
  have hef := h.efield
  have hre := h.reach
  rw [ratRaw_numText neg b ip fp ex hwf, numParts_numText neg b ip fp ex hwf] at *
  simp only [] at hef hre hbig ⊢
  simp only [toDecimal]
  rw [parse_numText neg b ip fp ex hb, parseNumber_long neg true b ip fp ex hwf hef hbig hre]
  by_cases c : numTextExp fp ex + (ndrop (dval 0 ((b :: ip) ++ fp)) : Nat) +
      (if rhe (dval 0 ((b :: ip) ++ fp)) (ndrop (dval 0 ((b :: ip) ++ fp))) ≤ MAXSIG then 0 else 1) > EMAX
  · simp only [c, if_true]
  · simp only [c, if_false]

/-- the value of a number whose `toDecimal` is a normalised finite decimal -/
theorem valX_of_normalize {a : Num} {n : Bool} {c : Nat} {e : Int}
    (h : toDecimal (.num a) = some (normalize (.fin n c e))) :
    (valX a).map XRat.norm = some (.fin (ratNorm (decRat (.fin n c e)))) := by
  have hden : Den (normalize (.fin n c e)) (.fin (decRat (.fin n c e))) := den_normalize rfl
  obtain ⟨y, hy⟩ := decX_some_of_ne_nan hden.ne_nan
  rw [valX_eq_some_iff.mpr ⟨_, h, hy⟩]
  simp only [Option.map_some, Option.some.injEq]
  exact (den_equal (decX_den hy) hden).mp (Dec.cmp_self hden.ne_nan)

/-- **rounding into the format, gradual underflow included**: of the pair `(m, e)` the `K` low digits go, where `K` is
    the larger of `ndrop |m|` (coefficient down to `MAXSIG`) and `EMIN − e` (exponent up to `EMIN`); one half-even
    rounding.  For `e ≥ EMIN` without long digit strings this is `C20B.round34`. -/
def roundFmt (p : Int × Int) : Int × Int :=
  (if p.1 < 0 then -(rhe p.1.natAbs (max (ndrop p.1.natAbs) (EMIN - p.2).toNat) : Int)
    else (rhe p.1.natAbs (max (ndrop p.1.natAbs) (EMIN - p.2).toNat) : Int),
   p.2 + (max (ndrop p.1.natAbs) (EMIN - p.2).toNat : Nat))

theorem roundFmt_signed (neg : Bool) (V : Nat) (E : Int) :
    roundFmt (if neg then -(V : Int) else (V : Int), E) =
      decRat (.fin neg (rhe V (max (ndrop V) (EMIN - E).toNat)) (E + (max (ndrop V) (EMIN - E).toNat : Nat))) := by
  by_cases hV : V = 0
  · subst hV
    cases neg <;> simp [roundFmt, decRat, rhe_zero_left]
  · cases neg with
    | false =>
      have : ¬ ((V : Int) < 0) := by omega
      simp [roundFmt, decRat, this]
    | true =>
      simp [roundFmt, decRat, hV]

theorem roundFmt_eq_round34 {p : Int × Int} (h : EMIN ≤ p.2 + (ndrop p.1.natAbs : Nat)) : roundFmt p = round34 p := by
  have : max (ndrop p.1.natAbs) (EMIN - p.2).toNat = ndrop p.1.natAbs := by omega
  simp only [roundFmt, round34, this]

example : roundFmt (123456, -6180) = (12, -6176) ∧ roundFmt (15, -6177) = (2, -6176) ∧ roundFmt (-25, -6177) = (-2, -6176) ∧
    roundFmt (5, -6177) = (0, -6176) ∧ roundFmt (250, -2) = (250, -2) := by decide

end Jmes.C20E
