/-
  C11 (third wave): the evaluator commutes with a consistent renaming of characters — the mutual induction over
  `ieval` and its five list companions, as the logical relation `RR` of `C11CLemmas` between the original run and the
  renamed run (`renN`, `renV`, `renE`).
-/
import Jmes.Proofs.C11CArrLemmas
import Jmes.Proofs.C11CSliceLemmas
import Jmes.Proofs.C11CObjFnLemmas
import Jmes.Proofs.C11CStrFnLemmas
import Jmes.Proofs.C11CKeyLemmas
namespace Jmes.C11C
open Jmes Jmes.Utf8 Jmes.C11 Jmes.C11S Jmes.C11R Jmes.C11V Jmes.Invar

/-! ## the condition on nodes -/

/-- the argument list of `trim(s, cut)` / `trim_left` / `trim_right`: the cutset is a non-empty raw string literal -/
def litCut : List INode → Bool
  | [_, .lit (.str p)] => !p.isEmpty
  | _ => false

/-- what the renaming theorem asks of one node:
    * literals, field names and multi-select keys can be renamed (`RnV`, `rnB`: valid UTF-8 whose renamed code points
      are scalar values);
    * a builtin call is to an equivariant builtin (`fnOK`), `trim*/2` with a non-empty literal cutset;
    * the step of a stepped slice is a non-zero Go `int` (`≠ 0`, `≥ MinInt`: what the parser produces). -/
def renHead (f : Nat → Nat) : INode → Bool
  | .lit v => RnV f v
  | .field k => rnB f k
  | .selectObject _ fs => fs.all (fun kn => rnB f kn.1)
  | .selectObjectCurrent fs => fs.all (fun kn => rnB f kn.1)
  | .selectObjectSingle _ k _ => rnB f k
  | .selectObjectSingleCurrent k _ => rnB f k
  | .call .trim args => litCut args
  | .call .trimLeft args => litCut args
  | .call .trimRight args => litCut args
  | .call fn _ => fnOK fn
  | .sliceStep _ _ _ s => decide (s ≠ 0 ∧ -2 ^ 63 ≤ s)
  | .sliceStepCurrent _ _ s => decide (s ≠ 0 ∧ -2 ^ 63 ≤ s)
  | _ => true

/-- every node of the expression satisfies `renHead` -/
def RenOK (f : Nat → Nat) (n : INode) : Bool := n.all (renHead f)

theorem fnOK_of_head {f : Nat → Nat} {fn : Fn} {args : List INode} (h : renHead f (.call fn args) = true) :
    fnOK fn = true := by
  cases fn <;> first | rfl | exact h

/-! ## the eager builtins -/

set_option hygiene false in
macro "fn_arity1 " lem:term : tactic =>
  `(tactic| (rcases args with _ | ⟨a, _ | ⟨b, rest⟩⟩ <;> simp only [renVL] <;>
      first | exact RR.err _ | exact $lem hm (H _ (by simp))))
set_option hygiene false in
macro "fn_arity2 " lem:term : tactic =>
  `(tactic| (rcases args with _ | ⟨a, _ | ⟨b, _ | ⟨c, rest⟩⟩⟩ <;> simp only [renVL] <;>
      first | exact RR.err _ | exact $lem hm (H _ (by simp)) (H _ (by simp))))
set_option hygiene false in
macro "fn_arity3 " lem:term : tactic =>
  `(tactic| (rcases args with _ | ⟨a, _ | ⟨b, _ | ⟨c, _ | ⟨d, rest⟩⟩⟩⟩ <;> simp only [renVL] <;>
      first | exact RR.err _ | exact $lem hm (H _ (by simp)) (H _ (by simp)) (H _ (by simp))))
set_option hygiene false in
macro "fn_arity4 " lem:term : tactic =>
  `(tactic| (rcases args with _ | ⟨a, _ | ⟨b, _ | ⟨c, _ | ⟨d, _ | ⟨e, rest⟩⟩⟩⟩⟩ <;> simp only [renVL] <;>
      first | exact RR.err _
            | exact $lem hm (H _ (by simp)) (H _ (by simp)) (H _ (by simp)) (H _ (by simp))))

/-- **every equivariant builtin, applied to renamed arguments, gives the renamed outcome** (and a value that can be
    renamed again) -/
theorem applyFn_rr {f : Nat → Nat} (hm : Mono f) (fn : Fn) (hfn : fnOK fn = true) {args : List Val}
    (hargs : RnVL f args = true) (hcut : cutOK fn args = true) :
    RRV f (applyFn fn args) (applyFn fn (renVL f args)) := by
  have H := rnVL_iff.mp hargs
  cases fn with
  | lower => cases hfn
  | upper => cases hfn
  | toNumber => cases hfn
  | toString => cases hfn
  | type => cases hfn
  | trimSpace => cases hfn
  | trimSpaceLeft => cases hfn
  | trimSpaceRight => cases hfn
  | padSpaceLeft => cases hfn
  | padSpaceRight => cases hfn
  | abs => fn_arity1 numAbs_rr
  | avg => fn_arity1 numAvg_rr
  | ceil => fn_arity1 numCeil_rr
  | floor => fn_arity1 numFloor_rr
  | sum => fn_arity1 numSum_rr
  | fromItems => fn_arity1 fromItems_rr
  | items => fn_arity1 items_rr
  | keys => fn_arity1 keys_rr
  | values => fn_arity1 values_rr
  | length => fn_arity1 length_rr
  | max => fn_arity1 arrayMax_rr
  | min => fn_arity1 arrayMin_rr
  | reverse => fn_arity1 reverse_rr
  | sort => fn_arity1 sortArray_rr
  | toArray => fn_arity1 toArray_rr
  | contains => fn_arity2 contains_rr
  | endsWith => fn_arity2 endsWith_rr
  | startsWith => fn_arity2 startsWith_rr
  | findFirst => fn_arity2 findFirst_rr
  | findLast => fn_arity2 findLast_rr
  | join => fn_arity2 join_rr
  | split => fn_arity2 split_rr
  | findFirstFrom => fn_arity3 (fun hm => findFrom_rr hm false)
  | findLastFrom => fn_arity3 (fun hm => findFrom_rr hm true)
  | padLeft => fn_arity3 padLeft_rr
  | padRight => fn_arity3 padRight_rr
  | replace => fn_arity3 replace_rr
  | splitCount => fn_arity3 splitCount_rr
  | findFirstBetween => fn_arity4 (fun hm => findBetween_rr hm false)
  | findLastBetween => fn_arity4 (fun hm => findBetween_rr hm true)
  | replaceCount => fn_arity4 replaceCount_rr
  | trim =>
    rcases args with _ | ⟨a, _ | ⟨b, _ | ⟨c, rest⟩⟩⟩ <;> simp only [cutOK] at hcut <;> try (cases hcut)
    cases b <;> simp only [cutOK] at hcut <;> try (cases hcut)
    rename_i p
    simp only [renVL]
    exact trim_rr hm (H _ (by simp)) (rn_str.mp (H _ (by simp))) (by simpa using hcut)
  | trimLeft =>
    rcases args with _ | ⟨a, _ | ⟨b, _ | ⟨c, rest⟩⟩⟩ <;> simp only [cutOK] at hcut <;> try (cases hcut)
    cases b <;> simp only [cutOK] at hcut <;> try (cases hcut)
    rename_i p
    simp only [renVL]
    exact trimLeft_rr hm (H _ (by simp)) (rn_str.mp (H _ (by simp))) (by simpa using hcut)
  | trimRight =>
    rcases args with _ | ⟨a, _ | ⟨b, _ | ⟨c, rest⟩⟩⟩ <;> simp only [cutOK] at hcut <;> try (cases hcut)
    cases b <;> simp only [cutOK] at hcut <;> try (cases hcut)
    rename_i p
    simp only [renVL]
    exact trimRight_rr hm (H _ (by simp)) (rn_str.mp (H _ (by simp))) (by simpa using hcut)

/-- the cutset condition on the evaluated arguments follows from the condition on the node -/
theorem cut_of_args {f : Nat → Nat} {fn : Fn} {args : List INode} (h : renHead f (.call fn args) = true)
    {root cur : Val} {env : Env} {vs : List Val} (e : ievalList root args cur env = .ok vs) : cutOK fn vs = true := by
  have key : litCut args = true → ∃ v p, vs = [v, .str p] ∧ p.isEmpty = false := by
    intro hl
    unfold litCut at hl
    split at hl
    case h_2 => cases hl
    rename_i a p
    simp only [ievalList, ieval] at e
    cases ha : ieval root a cur env <;> rw [ha] at e <;> simp only [bind, Res.bind, pure] at e <;> try (cases e)
    rename_i v
    exact ⟨v, p, rfl, by simpa using hl⟩
  cases fn
  case trim => obtain ⟨v, p, rfl, hp⟩ := key h; simp [cutOK, hp]
  case trimLeft => obtain ⟨v, p, rfl, hp⟩ := key h; simp [cutOK, hp]
  case trimRight => obtain ⟨v, p, rfl, hp⟩ := key h; simp [cutOK, hp]
  all_goals first | rfl | (cases vs <;> rfl)

/-! ## members of a multi-select hash / bindings of `let` -/

theorem combineUnordered_rrK {f : Nat → Nat} (hm : Mono f) {k : Bytes} (hk : rnB f k = true)
    {acc acc' : Res (List (Bytes × Val))} (ha : RR (fun kvs => RnVF f kvs = true) (renVF f) acc acc')
    {r r' : Res Val} (hr : RRV f r r') :
    RR (fun kvs => RnVF f kvs = true) (renVF f) (combineUnordered acc k r) (combineUnordered acc' (renB f k) r') := by
  obtain ⟨e1, i1⟩ := ha
  obtain ⟨e2, i2⟩ := hr
  subst e1; subst e2
  cases acc <;> cases r <;> simp only [combineUnordered, mapO] <;>
    first
      | exact RR.err _ | exact RR.nondet | exact RR.panic _ | exact RR.unmodelled _
      | (rw [objInsert_ren hm hk _ (i1 _ rfl)]; exact RR.ok (rnVF_objInsert hk (i2 _ rfl) (i1 _ rfl)))

theorem combineUnordered_rrV {f : Nat → Nat} (k : Bytes)
    {acc acc' : Res (List (Bytes × Val))} (ha : RR (fun bs => RnE f bs = true) (renE f) acc acc')
    {r r' : Res Val} (hr : RRV f r r') :
    RR (fun bs => RnE f bs = true) (renE f) (combineUnordered acc k r) (combineUnordered acc' k r') := by
  obtain ⟨e1, i1⟩ := ha
  obtain ⟨e2, i2⟩ := hr
  subst e1; subst e2
  cases acc <;> cases r <;> simp only [combineUnordered, mapO] <;>
    first
      | exact RR.err _ | exact RR.nondet | exact RR.panic _ | exact RR.unmodelled _
      | (rw [objInsert_renVals]; exact RR.ok (rnE_objInsert (i2 _ rfl) (i1 _ rfl)))

/-! ## the evaluator -/

mutual
/-- **the evaluator commutes with the renaming, node by node**: with root, current value and bindings that can be
    renamed, and an expression satisfying `RenOK`, the renamed expression on the renamed inputs gives the renamed
    outcome (`RR`: same error categories, nondet ↦ nondet, the value renamed), and the value can be renamed again -/
theorem ieval_rr {f : Nat → Nat} (hm : Mono f) {root : Val} (hroot : RnV f root = true) :
    ∀ (n : INode) (cur : Val) (env : Env), n.all (renHead f) = true → RnV f cur = true → RnE f env = true →
      RRV f (ieval root n cur env) (ieval (renV f root) (renN f n) (renV f cur) (renE f env))
  | .lit v, cur, env, h, hc, hv => by
    simp only [INode.all] at h
    simp only [renN, ieval]
    exact RR.ok h
  | .current, cur, env, h, hc, hv => by simp only [renN, ieval]; exact RR.ok hc
  | .root, cur, env, h, hc, hv => by simp only [renN, ieval]; exact RR.ok hroot
  | .field k, cur, env, h, hc, hv => by
    simp only [INode.all] at h
    simp only [renN, ieval]
    obtain ⟨e, r⟩ := field_rr hm h hc
    exact RRV.of_ok r e.symm
  | .variable name, cur, env, h, hc, hv => by
    simp only [renN, ieval, envGet_ren]
    cases hl : Env.get env name with
    | none => exact RR.err _
    | some v => exact RR.ok (rn_envGet hv hl)
  | .binop op l r, cur, env, h, hc, hv => by
    simp only [INode.all, Bool.and_eq_true] at h
    simp only [renN, ieval]
    exact RR.bind (ieval_rr hm hroot l cur env h.1.2 hc hv) fun a ha =>
      RR.bind (ieval_rr hm hroot r cur env h.2 hc hv) fun b hb => applyBinOp_rr hm op ha hb
  | .and l r, cur, env, h, hc, hv => by
    simp only [INode.all, Bool.and_eq_true] at h
    simp only [renN, ieval]
    refine RR.bind (ieval_rr hm hroot l cur env h.1.2 hc hv) fun a ha => ?_
    simp only [isTrue_ren ha]
    split
    · exact RR.pure ha
    · exact ieval_rr hm hroot r cur env h.2 hc hv
  | .or l r, cur, env, h, hc, hv => by
    simp only [INode.all, Bool.and_eq_true] at h
    simp only [renN, ieval]
    refine RR.bind (ieval_rr hm hroot l cur env h.1.2 hc hv) fun a ha => ?_
    simp only [isTrue_ren ha]
    split
    · exact RR.pure ha
    · exact ieval_rr hm hroot r cur env h.2 hc hv
  | .not c, cur, env, h, hc, hv => by
    simp only [INode.all, Bool.and_eq_true] at h
    simp only [renN, ieval]
    refine RR.bind (ieval_rr hm hroot c cur env h.2 hc hv) fun a ha => ?_
    simp only [isTrue_ren ha]
    exact RRV.of_ok rfl (renV_bool f _)
  | .negate c, cur, env, h, hc, hv => by
    simp only [INode.all, Bool.and_eq_true] at h
    simp only [renN, ieval]
    refine RR.bind (ieval_rr hm hroot c cur env h.2 hc hv) fun a ha => ?_
    exact RRV.of_ok (negateVal_rr f a).2 (negateVal_rr f a).1.symm
  | .assertNumber c, cur, env, h, hc, hv => by
    simp only [INode.all, Bool.and_eq_true] at h
    simp only [renN, ieval]
    refine RR.bind (ieval_rr hm hroot c cur env h.2 hc hv) fun a ha => ?_
    simp only [isNumber_ren]
    split
    · exact RR.pure ha
    · exact RRV.null
  | .call fn args, cur, env, h, hc, hv => by
    simp only [INode.all, Bool.and_eq_true] at h
    simp only [renN, ieval]
    have hl := ievalList_rr hm hroot args cur env h.2 hc hv
    have hl' : RR (fun vs => RnVL f vs = true ∧ cutOK fn vs = true) (renVL f) _ _ :=
      ⟨hl.eq, fun vs e => ⟨hl.inv vs e, cut_of_args h.1 e⟩⟩
    exact RR.bind hl' fun vs hvs => applyFn_rr hm fn (fnOK_of_head h.1) hvs.1 hvs.2
  | .defineVariables vars child, cur, env, h, hc, hv => by
    simp only [INode.all, Bool.and_eq_true] at h
    simp only [renN, ieval]
    refine RR.bind (ievalFieldsV_rr hm hroot vars cur env h.1.2 hc hv) fun bs hbs => ?_
    rw [← renE_append]
    exact ieval_rr hm hroot child cur (bs ++ env) h.2 hc (rnE_append hbs hv)
  | .filter c p, cur, env, h, hc, hv => by
    simp only [INode.all, Bool.and_eq_true] at h
    simp only [renN, ieval]
    exact RR.bind (ieval_rr hm hroot c cur env h.1.2 hc hv) fun a ha =>
      filterArray_rr (fun v hv' => ieval_rr hm hroot p v env h.2 hv' hv) ha
  | .filterCurrent p, cur, env, h, hc, hv => by
    simp only [INode.all, Bool.and_eq_true] at h
    simp only [renN, ieval]
    exact filterArray_rr (fun v hv' => ieval_rr hm hroot p v env h.2 hv' hv) hc
  | .filterAndProject l p r, cur, env, h, hc, hv => by
    simp only [INode.all, Bool.and_eq_true] at h
    simp only [renN, ieval]
    exact RR.bind (ieval_rr hm hroot l cur env h.1.1.2 hc hv) fun a ha =>
      filterAndProjectArray_rr (fun v hv' => ieval_rr hm hroot p v env h.1.2 hv' hv)
        (fun v hv' => ieval_rr hm hroot r v env h.2 hv' hv) ha
  | .filterAndProjectCurrent p c, cur, env, h, hc, hv => by
    simp only [INode.all, Bool.and_eq_true] at h
    simp only [renN, ieval]
    exact filterAndProjectArray_rr (fun v hv' => ieval_rr hm hroot p v env h.1.2 hv' hv)
        (fun v hv' => ieval_rr hm hroot c v env h.2 hv' hv) hc
  | .flatten c, cur, env, h, hc, hv => by
    simp only [INode.all, Bool.and_eq_true] at h
    simp only [renN, ieval]
    exact RR.bind (ieval_rr hm hroot c cur env h.2 hc hv) fun a ha =>
      RRV.of_ok (flatten_rr ha).2 (flatten_rr ha).1.symm
  | .flattenCurrent, cur, env, h, hc, hv => by
    simp only [renN, ieval]
    exact RRV.of_ok (flatten_rr hc).2 (flatten_rr hc).1.symm
  | .flattenAndProject l r, cur, env, h, hc, hv => by
    simp only [INode.all, Bool.and_eq_true] at h
    simp only [renN, ieval]
    exact RR.bind (ieval_rr hm hroot l cur env h.1.2 hc hv) fun a ha =>
      flattenAndProjectArray_rr (fun v hv' => ieval_rr hm hroot r v env h.2 hv' hv) ha
  | .flattenAndProjectCurrent c, cur, env, h, hc, hv => by
    simp only [INode.all, Bool.and_eq_true] at h
    simp only [renN, ieval]
    exact flattenAndProjectArray_rr (fun v hv' => ieval_rr hm hroot c v env h.2 hv' hv) hc
  | .index c i, cur, env, h, hc, hv => by
    simp only [INode.all, Bool.and_eq_true] at h
    simp only [renN, ieval]
    exact RR.bind (ieval_rr hm hroot c cur env h.2 hc hv) fun a ha => index_rr ha i
  | .indexCurrent i, cur, env, h, hc, hv => by simp only [renN, ieval]; exact index_rr hc i
  | .smallIndexCurrent i, cur, env, h, hc, hv => by simp only [renN, ieval]; exact index_rr hc _
  | .objectValues c, cur, env, h, hc, hv => by
    simp only [INode.all, Bool.and_eq_true] at h
    simp only [renN, ieval]
    exact RR.bind (ieval_rr hm hroot c cur env h.2 hc hv) fun a ha =>
      RRV.of_ok (objectValues_rr ha).2 (objectValues_rr ha).1.symm
  | .objectValuesCurrent, cur, env, h, hc, hv => by
    simp only [renN, ieval]
    exact RRV.of_ok (objectValues_rr hc).2 (objectValues_rr hc).1.symm
  | .pipe l r, cur, env, h, hc, hv => by
    simp only [INode.all, Bool.and_eq_true] at h
    simp only [renN, ieval]
    exact RR.bind (ieval_rr hm hroot l cur env h.1.2 hc hv) fun a ha => ieval_rr hm hroot r a env h.2 ha hv
  | .projectArray l r, cur, env, h, hc, hv => by
    simp only [INode.all, Bool.and_eq_true] at h
    simp only [renN, ieval]
    refine RR.bind (ieval_rr hm hroot l cur env h.1.2 hc hv) fun a ha => ?_
    cases a with
    | str s =>
      have h1 := ieval_rr hm hroot r (.str s) env h.2 ha hv
      have h2 := projectArray_rr (k := fun v => ieval root r v env)
        (k' := fun v => ieval (renV f root) (renN f r) v (renE f env))
        (fun v hv' => ieval_rr hm hroot r v env h.2 hv' hv) ha
      simp only [renV] at h1 h2 ⊢
      simp only [isSlice_ren]
      split
      · exact h1
      · exact h2
    | _ =>
      have h2 := projectArray_rr (k := fun v => ieval root r v env)
        (k' := fun v => ieval (renV f root) (renN f r) v (renE f env))
        (fun v hv' => ieval_rr hm hroot r v env h.2 hv' hv) ha
      simp only [renV] at h2 ⊢
      exact h2
  | .projectArrayCurrent c, cur, env, h, hc, hv => by
    simp only [INode.all, Bool.and_eq_true] at h
    simp only [renN, ieval]
    exact projectArray_rr (fun v hv' => ieval_rr hm hroot c v env h.2 hv' hv) hc
  | .projectObject l r, cur, env, h, hc, hv => by
    simp only [INode.all, Bool.and_eq_true] at h
    simp only [renN, ieval]
    exact RR.bind (ieval_rr hm hroot l cur env h.1.2 hc hv) fun a ha =>
      projectObject_rr (fun v hv' => ieval_rr hm hroot r v env h.2 hv' hv) ha
  | .projectObjectCurrent c, cur, env, h, hc, hv => by
    simp only [INode.all, Bool.and_eq_true] at h
    simp only [renN, ieval]
    exact projectObject_rr (fun v hv' => ieval_rr hm hroot c v env h.2 hv' hv) hc
  | .pruneArray c, cur, env, h, hc, hv => by
    simp only [INode.all, Bool.and_eq_true] at h
    simp only [renN, ieval]
    exact RR.bind (ieval_rr hm hroot c cur env h.2 hc hv) fun a ha =>
      RRV.of_ok (pruneArray_rr ha).2 (pruneArray_rr ha).1.symm
  | .pruneArrayCurrent, cur, env, h, hc, hv => by
    simp only [renN, ieval]
    exact RRV.of_ok (pruneArray_rr hc).2 (pruneArray_rr hc).1.symm
  | .selectArray c fs, cur, env, h, hc, hv => by
    simp only [INode.all, Bool.and_eq_true] at h
    simp only [renN, ieval]
    refine RR.bind (ieval_rr hm hroot c cur env h.1.2 hc hv) fun a ha => ?_
    simp only [isNull_ren]
    split
    · exact RRV.null
    · exact RRV.arr .plain (ievalList_rr hm hroot fs a env h.2 ha hv)
  | .selectArrayCurrent fs, cur, env, h, hc, hv => by
    simp only [INode.all, Bool.and_eq_true] at h
    simp only [renN, ieval, isNull_ren]
    split
    · exact RRV.null
    · exact RRV.arr .plain (ievalList_rr hm hroot fs cur env h.2 hc hv)
  | .selectArraySingle c p, cur, env, h, hc, hv => by
    simp only [INode.all, Bool.and_eq_true] at h
    simp only [renN, ieval]
    refine RR.bind (ieval_rr hm hroot c cur env h.1.2 hc hv) fun a ha => ?_
    simp only [isNull_ren]
    split
    · exact RRV.null
    · exact RR.bind (ieval_rr hm hroot p a env h.2 ha hv) fun v hv' =>
        RRV.of_ok (rn_arr.mpr (rnVL_cons.mpr ⟨hv', rfl⟩)) (by simp only [renV, renVL])
  | .selectArraySingleCurrent p, cur, env, h, hc, hv => by
    simp only [INode.all, Bool.and_eq_true] at h
    simp only [renN, ieval]
    exact RR.bind (ieval_rr hm hroot p cur env h.2 hc hv) fun v hv' =>
      RRV.of_ok (rn_arr.mpr (rnVL_cons.mpr ⟨hv', rfl⟩)) (by simp only [renV, renVL])
  | .selectObject c fs, cur, env, h, hc, hv => by
    simp only [INode.all, Bool.and_eq_true] at h
    have hk : fs.all (fun kn => rnB f kn.1) = true := h.1.1
    simp only [renN, ieval]
    refine RR.bind (ieval_rr hm hroot c cur env h.1.2 hc hv) fun a ha => ?_
    simp only [isNull_ren]
    split
    · exact RRV.null
    · exact RR.bind (ievalFieldsK_rr hm hroot fs a env hk h.2 ha hv) fun kvs hkvs =>
        RRV.of_ok (rn_obj.mpr hkvs) (renV_obj f kvs)
  | .selectObjectCurrent fs, cur, env, h, hc, hv => by
    simp only [INode.all, Bool.and_eq_true] at h
    have hk : fs.all (fun kn => rnB f kn.1) = true := h.1
    simp only [renN, ieval, isNull_ren]
    split
    · exact RRV.null
    · exact RR.bind (ievalFieldsK_rr hm hroot fs cur env hk h.2 hc hv) fun kvs hkvs =>
        RRV.of_ok (rn_obj.mpr hkvs) (renV_obj f kvs)
  | .selectObjectSingle c k p, cur, env, h, hc, hv => by
    simp only [INode.all, Bool.and_eq_true] at h
    have hk : rnB f k = true := h.1.1
    simp only [renN, ieval]
    refine RR.bind (ieval_rr hm hroot c cur env h.1.2 hc hv) fun a ha => ?_
    simp only [isNull_ren]
    split
    · exact RRV.null
    · exact RR.bind (ieval_rr hm hroot p a env h.2 ha hv) fun v hv' =>
        RRV.of_ok (rn_obj.mpr (rnVF_cons.mpr ⟨hk, hv', rfl⟩)) (by simp only [renV, renVF])
  | .selectObjectSingleCurrent k p, cur, env, h, hc, hv => by
    simp only [INode.all, Bool.and_eq_true] at h
    have hk : rnB f k = true := h.1
    simp only [renN, ieval]
    exact RR.bind (ieval_rr hm hroot p cur env h.2 hc hv) fun v hv' =>
      RRV.of_ok (rn_obj.mpr (rnVF_cons.mpr ⟨hk, hv', rfl⟩)) (by simp only [renV, renVF])
  | .slice c a b, cur, env, h, hc, hv => by
    simp only [INode.all, Bool.and_eq_true] at h
    simp only [renN, ieval]
    exact RR.bind (ieval_rr hm hroot c cur env h.2 hc hv) fun v hv' => slice_rr hm hv' a b
  | .sliceCurrent a b, cur, env, h, hc, hv => by simp only [renN, ieval]; exact slice_rr hm hc a b
  | .sliceStep c a b st, cur, env, h, hc, hv => by
    simp only [INode.all, Bool.and_eq_true] at h
    have hs : st ≠ 0 ∧ -2 ^ 63 ≤ st := by simpa [renHead] using h.1
    simp only [renN, ieval]
    exact RR.bind (ieval_rr hm hroot c cur env h.2 hc hv) fun v hv' => sliceStep_rr hm hv' a b st hs.1 hs.2
  | .sliceStepCurrent a b st, cur, env, h, hc, hv => by
    simp only [INode.all] at h
    have hs : st ≠ 0 ∧ -2 ^ 63 ≤ st := by simpa [renHead] using h
    simp only [renN, ieval]
    exact sliceStep_rr hm hc a b st hs.1 hs.2
  | .groupBy a e, cur, env, h, hc, hv => by
    simp only [INode.all, Bool.and_eq_true] at h
    simp only [renN, ieval]
    exact RR.bind (ieval_rr hm hroot a cur env h.1.2 hc hv) fun v hv' =>
      groupBy_rr hm (fun x hx => ieval_rr hm hroot e x env h.2 hx hv) hv'
  | .map e a, cur, env, h, hc, hv => by
    simp only [INode.all, Bool.and_eq_true] at h
    simp only [renN, ieval]
    exact RR.bind (ieval_rr hm hroot a cur env h.2 hc hv) fun v hv' =>
      mapArray_rr (fun x hx => ieval_rr hm hroot e x env h.1.2 hx hv) hv'
  | .maxBy a e, cur, env, h, hc, hv => by
    simp only [INode.all, Bool.and_eq_true] at h
    simp only [renN, ieval]
    exact RR.bind (ieval_rr hm hroot a cur env h.1.2 hc hv) fun v hv' =>
      arrayMaxBy_rr hm (fun x hx => ieval_rr hm hroot e x env h.2 hx hv) hv'
  | .minBy a e, cur, env, h, hc, hv => by
    simp only [INode.all, Bool.and_eq_true] at h
    simp only [renN, ieval]
    exact RR.bind (ieval_rr hm hroot a cur env h.1.2 hc hv) fun v hv' =>
      arrayMinBy_rr hm (fun x hx => ieval_rr hm hroot e x env h.2 hx hv) hv'
  | .sortBy a e, cur, env, h, hc, hv => by
    simp only [INode.all, Bool.and_eq_true] at h
    simp only [renN, ieval]
    exact RR.bind (ieval_rr hm hroot a cur env h.1.2 hc hv) fun v hv' =>
      sortArrayBy_rr hm (fun x hx => ieval_rr hm hroot e x env h.2 hx hv) hv'
  | .merge args, cur, env, h, hc, hv => by
    simp only [INode.all, Bool.and_eq_true] at h
    simp only [renN, ieval]
    have := ievalMerge_rr hm hroot args cur env [] h.2 hc hv rfl
    simp only [renVF] at this
    exact RR.bind this fun kvs hk => RRV.of_ok (rn_obj.mpr hk) (renV_obj f kvs)
  | .notNull args, cur, env, h, hc, hv => by
    simp only [INode.all, Bool.and_eq_true] at h
    simp only [renN, ieval]
    exact ievalNotNull_rr hm hroot args cur env h.2 hc hv
  | .zip args, cur, env, h, hc, hv => by
    simp only [INode.all, Bool.and_eq_true] at h
    simp only [renN, ieval]
    refine RR.bind (ievalZip_rr hm hroot args cur env h.2 hc hv) fun vs hvs =>
      RR.bind (zipArgs_rr hvs) fun cols hcols => ?_
    cases cols with
    | nil => exact RRV.of_ok rfl (by simp only [renV, renVL])
    | cons c cs =>
      simp only [List.map_cons, zipCount_ren]
      refine RRV.of_ok (rn_arr.mpr (rnVL_zipRows _ hcols)) ?_
      rw [renV_arr, ← zipRows_ren]; rfl
/-- argument lists / multi-select lists -/
theorem ievalList_rr {f : Nat → Nat} (hm : Mono f) {root : Val} (hroot : RnV f root = true) :
    ∀ (ns : List INode) (cur : Val) (env : Env), INode.allL (renHead f) ns = true → RnV f cur = true →
      RnE f env = true →
      RRL f (ievalList root ns cur env) (ievalList (renV f root) (renNL f ns) (renV f cur) (renE f env))
  | [], cur, env, h, hc, hv => by simp only [renNL, ievalList]; exact RRL.of_ok rfl (renVL_nil f)
  | n :: ns, cur, env, h, hc, hv => by
    simp only [INode.allL, Bool.and_eq_true] at h
    simp only [renNL, ievalList]
    exact RR.bind (ieval_rr hm hroot n cur env h.1 hc hv) fun v hv' =>
      RR.bind (ievalList_rr hm hroot ns cur env h.2 hc hv) fun vs hvs =>
        RRL.of_ok (rnVL_cons.mpr ⟨hv', hvs⟩) (renVL_cons f v vs)
/-- members of a multi-select hash: the keys are renamed -/
theorem ievalFieldsK_rr {f : Nat → Nat} (hm : Mono f) {root : Val} (hroot : RnV f root = true) :
    ∀ (fs : List (Bytes × INode)) (cur : Val) (env : Env), fs.all (fun kn => rnB f kn.1) = true →
      INode.allF (renHead f) fs = true → RnV f cur = true → RnE f env = true →
      RR (fun kvs => RnVF f kvs = true) (renVF f) (ievalFields root fs cur env)
        (ievalFields (renV f root) (renNF f true fs) (renV f cur) (renE f env))
  | [], cur, env, hk, h, hc, hv => by
    simp only [renNF, ievalFields]; exact RR.ok (g := renVF f) (a := []) rfl
  | (k, n) :: rest, cur, env, hk, h, hc, hv => by
    simp only [INode.allF, Bool.and_eq_true] at h
    simp only [List.all_cons, Bool.and_eq_true] at hk
    simp only [renNF, ievalFields, if_true]
    exact combineUnordered_rrK hm hk.1 (ievalFieldsK_rr hm hroot rest cur env hk.2 h.2 hc hv)
      (ieval_rr hm hroot n cur env h.1 hc hv)
/-- bindings of a `let`: the variable names stay -/
theorem ievalFieldsV_rr {f : Nat → Nat} (hm : Mono f) {root : Val} (hroot : RnV f root = true) :
    ∀ (fs : List (Bytes × INode)) (cur : Val) (env : Env),
      INode.allF (renHead f) fs = true → RnV f cur = true → RnE f env = true →
      RR (fun bs => RnE f bs = true) (renE f) (ievalFields root fs cur env)
        (ievalFields (renV f root) (renNF f false fs) (renV f cur) (renE f env))
  | [], cur, env, h, hc, hv => by
    simp only [renNF, ievalFields]; exact RR.ok (g := renE f) (a := []) rfl
  | (k, n) :: rest, cur, env, h, hc, hv => by
    simp only [INode.allF, Bool.and_eq_true] at h
    simp only [renNF, ievalFields, Bool.false_eq_true, if_false]
    exact combineUnordered_rrV k (ievalFieldsV_rr hm hroot rest cur env h.2 hc hv)
      (ieval_rr hm hroot n cur env h.1 hc hv)
theorem ievalMerge_rr {f : Nat → Nat} (hm : Mono f) {root : Val} (hroot : RnV f root = true) :
    ∀ (ns : List INode) (cur : Val) (env : Env) (acc : List (Bytes × Val)), INode.allL (renHead f) ns = true →
      RnV f cur = true → RnE f env = true → RnVF f acc = true →
      RR (fun kvs => RnVF f kvs = true) (renVF f) (ievalMerge root ns cur env acc)
        (ievalMerge (renV f root) (renNL f ns) (renV f cur) (renE f env) (renVF f acc))
  | [], cur, env, acc, h, hc, hv, ha => by simp only [renNL, ievalMerge]; exact RR.ok ha
  | n :: ns, cur, env, acc, h, hc, hv, ha => by
    simp only [INode.allL, Bool.and_eq_true] at h
    simp only [renNL, ievalMerge]
    refine RR.bind (ieval_rr hm hroot n cur env h.1 hc hv) fun v hv' => ?_
    cases v with
    | obj kvs =>
      obtain ⟨e, r⟩ := foldInsert_ren hm (rn_obj.mp hv') ha
      have := ievalMerge_rr hm hroot ns cur env _ h.2 hc hv r
      simp only [renV]
      rw [e]
      exact this
    | _ => simp only [renV]; exact RR.errType
theorem ievalNotNull_rr {f : Nat → Nat} (hm : Mono f) {root : Val} (hroot : RnV f root = true) :
    ∀ (ns : List INode) (cur : Val) (env : Env), INode.allL (renHead f) ns = true → RnV f cur = true →
      RnE f env = true →
      RRV f (ievalNotNull root ns cur env) (ievalNotNull (renV f root) (renNL f ns) (renV f cur) (renE f env))
  | [], cur, env, h, hc, hv => by simp only [renNL, ievalNotNull]; exact RRV.null
  | n :: ns, cur, env, h, hc, hv => by
    simp only [INode.allL, Bool.and_eq_true] at h
    simp only [renNL, ievalNotNull]
    refine RR.bind (ieval_rr hm hroot n cur env h.1 hc hv) fun v hv' => ?_
    simp only [isNull_ren]
    split
    · exact ievalNotNull_rr hm hroot ns cur env h.2 hc hv
    · exact RR.pure hv'
theorem ievalZip_rr {f : Nat → Nat} (hm : Mono f) {root : Val} (hroot : RnV f root = true) :
    ∀ (ns : List INode) (cur : Val) (env : Env), INode.allL (renHead f) ns = true → RnV f cur = true →
      RnE f env = true →
      RRL f (ievalZip root ns cur env) (ievalZip (renV f root) (renNL f ns) (renV f cur) (renE f env))
  | [], cur, env, h, hc, hv => by simp only [renNL, ievalZip]; exact RRL.of_ok rfl (renVL_nil f)
  | n :: ns, cur, env, h, hc, hv => by
    simp only [INode.allL, Bool.and_eq_true] at h
    simp only [renNL, ievalZip]
    refine RR.bind (ieval_rr hm hroot n cur env h.1 hc hv) fun v hv' => ?_
    cases v with
    | arr t xs =>
      have := ievalZip_rr hm hroot ns cur env h.2 hc hv
      simp only [renV]
      exact RR.bind this fun vs hvs =>
        RRL.of_ok (rnVL_cons.mpr ⟨hv', hvs⟩) (by simp only [renVL, renV])
    | _ => simp only [renV]; exact RR.errType
end

end Jmes.C11C
