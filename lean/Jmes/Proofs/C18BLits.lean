/-
  Property C18 (second pass), the two ends of the chain "Fin in, Fin out":

  * `Json.decode_fin`, `parseJSONLiteral_fin`: what `encoding/json` decodes with `UseNumber` — documents and the JSON
    literals of expressions — is `Val.Fin` (numbers are `json.Number`s holding valid JSON number texts);
  * `parse_finLits`, `compile_finLits`: every literal of a compiled expression is `Val.Fin` (the Hoare-style fuel
    induction of `ParserLits.lean` / `C05BLits.lean`, for the predicate `Val.Fin`);
  * `encode_fin_total`: `json.Marshal` succeeds on every `Val.Fin` value (`C18.encode_total` extended with finite
    decimals: `Decimal.MarshalJSON` fails on NaN / ±Inf only).
-/
import Jmes.Proofs.C18BDefs
import Jmes.Proofs.ParserLits
import Jmes.Proofs.JsonGrammar
namespace Jmes

/-! ## what `encoding/json` decodes is `Fin` -/

theorem Val.finL_snoc {xs : List Val} {v : Val} (hx : Val.FinL xs = true) (hv : v.Fin = true) :
    Val.FinL (xs ++ [v]) = true := by
  rw [Val.finL_iff] at hx ⊢
  intro x hm
  rcases List.mem_append.1 hm with hm | hm
  · exact hx x hm
  · simp only [List.mem_singleton] at hm; subst hm; exact hv

theorem Val.finF_objInsert {k : Bytes} {v : Val} (hv : v.Fin = true) :
    ∀ {kvs : List (Bytes × Val)}, Val.FinF kvs = true → Val.FinF (objInsert k v kvs) = true
  | [], _ => by simp only [objInsert, Val.FinF, hv, Bool.and_self]
  | (k', v') :: rest, h => by
    simp only [Val.FinF, Bool.and_eq_true] at h
    simp only [objInsert]
    split
    · simp only [Val.FinF, Bool.and_eq_true]; exact ⟨hv, h.2⟩
    · split
      · simp only [Val.FinF, Bool.and_eq_true]; exact ⟨hv, h.1, h.2⟩
      · simp only [Val.FinF, Bool.and_eq_true]; exact ⟨h.1, Val.finF_objInsert hv h.2⟩

/-- the text of a JSON number token is a valid `json.Number` -/
theorem Json.parseNumberTok_valid {s n r : Bytes} (h : Json.parseNumberTok s = some (n, r)) :
    Json.isValidNumber n = true :=
  (JsonGrammar.isValidNumber_iff n).mpr (JsonGrammar.parseNumberTok_sound h).2

theorem Json.parse_fin : ∀ fuel : Nat,
    (∀ depth s v r, Json.parseValue fuel depth s = some (v, r) → v.Fin = true) ∧
    (∀ depth s acc xs r, Val.FinL acc = true → Json.parseElems fuel depth s acc = some (xs, r) →
      Val.FinL xs = true) ∧
    (∀ depth s acc kvs r, Val.FinF acc = true → Json.parseMembers fuel depth s acc = some (kvs, r) →
      Val.FinF kvs = true)
  | 0 => ⟨by simp [Json.parseValue], by simp [Json.parseElems], by simp [Json.parseMembers]⟩
  | fuel + 1 => by
    obtain ⟨ihV, ihE, ihM⟩ := Json.parse_fin fuel
    refine ⟨?_, ?_, ?_⟩
    · intro depth s v r h
      simp only [Json.parseValue] at h
      split at h
      · cases h
      · cases h; rfl
      · cases h; rfl
      · cases h; rfl
      · simp only [Option.map_eq_some_iff] at h
        obtain ⟨⟨b, r'⟩, _, h⟩ := h
        cases h; rfl
      · split at h
        · cases h
        · split at h
          · cases h; rfl
          · simp only [Option.map_eq_some_iff] at h
            obtain ⟨⟨xs, r'⟩, he, h⟩ := h
            cases h
            exact ihE _ _ _ _ _ rfl he
      · split at h
        · cases h
        · split at h
          · cases h; rfl
          · simp only [Option.map_eq_some_iff] at h
            obtain ⟨⟨kvs, r'⟩, he, h⟩ := h
            cases h
            exact ihM _ _ _ _ _ rfl he
      · split at h
        · simp only [Option.map_eq_some_iff] at h
          obtain ⟨⟨n, r'⟩, hn, h⟩ := h
          cases h
          exact Val.fin_jnum.mpr (Json.parseNumberTok_valid hn)
        · cases h
    · intro depth s acc xs r ha h
      simp only [Json.parseElems] at h
      split at h
      · cases h
      · next v r' hv =>
        split at h
        · exact ihE _ _ _ _ _ (Val.finL_snoc ha (ihV _ _ _ _ hv)) h
        · cases h
          exact Val.finL_snoc ha (ihV _ _ _ _ hv)
        · cases h
    · intro depth s acc kvs r ha h
      simp only [Json.parseMembers] at h
      split at h
      · split at h
        · cases h
        · split at h
          · split at h
            · cases h
            · next v r2 hv =>
              split at h
              · exact ihM _ _ _ _ _ (Val.finF_objInsert (ihV _ _ _ _ hv) ha) h
              · cases h
                exact Val.finF_objInsert (ihV _ _ _ _ hv) ha
              · cases h
          · cases h
      · cases h

/-- **what `encoding/json` decodes (with `UseNumber`) is `Fin`**: every number is a `json.Number` whose text is a
    valid JSON number; there is no float, no decimal, no foreign value -/
theorem Json.decode_fin {s : Bytes} {v : Val} (h : Json.decode s = some v) : v.Fin = true := by
  simp only [Json.decode] at h
  split at h
  · next v' r hp =>
    split at h
    · cases h
      exact (Json.parse_fin _).1 _ _ _ _ hp
    · cases h
  · cases h

/-- `[1,-2.5e3]` -/
example : Json.decode [0x5B, 0x31, 0x2C, 0x2D, 0x32, 0x2E, 0x35, 0x65, 0x33, 0x5D] =
    some (.arr .plain [.num (.jnum [0x31]), .num (.jnum [0x2D, 0x32, 0x2E, 0x35, 0x65, 0x33])]) := rfl
example : (Val.arr .plain [.num (.jnum [0x31]), .num (.jnum [0x2D, 0x32, 0x2E, 0x35, 0x65, 0x33])]).Fin = true :=
  Json.decode_fin (s := [0x5B, 0x31, 0x2C, 0x2D, 0x32, 0x2E, 0x35, 0x65, 0x33, 0x5D]) rfl

/-- the literal between backticks is `Fin` -/
theorem parseJSONLiteral_fin {s : Bytes} {v : Val} (h : parseJSONLiteral s = some v) : v.Fin = true := by
  simp only [parseJSONLiteral] at h
  split at h
  · cases h
  · exact Json.decode_fin h

example : ∀ v, parseJSONLiteral [0x60, 0x5B, 0x31, 0x5D, 0x60] = some v → v.Fin = true := fun _ h => parseJSONLiteral_fin h

/-! ## the parser builds literal nodes from `Fin` values only -/

namespace C18BLits
open Parser ParserLits

abbrev NL (n : INode) : Prop := n.all (INode.litOk Val.Fin) = true
abbrev NLL (ns : List INode) : Prop := INode.allL (INode.litOk Val.Fin) ns = true
abbrev NLF (fs : List (Bytes × INode)) : Prop := INode.allF (INode.litOk Val.Fin) fs = true
abbrev NLO (o : Option INode) : Prop := ∀ n, o = some n → NL n

/-- `indexP` returns a node whose literals are `Fin` if those of the given child are -/
theorem nindexP_ok (child : Option INode) (h : NLO child) : Post (fun p => NL p.1) (indexP child) := by
  cases child with
  | none =>
    simp only [indexP]
    repeat (first
      | exact Post.fail
      | exact Post.fail_bind
      | (refine Post.bind (Post.any _) fun _ _ => ?_)
      | (refine Post.ite (fun _ => ?_) (fun _ => ?_))
      | exact Post.pure rfl)
  | some c =>
    have hc : NL c := h c rfl
    simp only [indexP]
    repeat (first
      | exact Post.fail
      | exact Post.fail_bind
      | (refine Post.bind (Post.any _) fun _ _ => ?_)
      | (refine Post.ite (fun _ => ?_) (fun _ => ?_))
      | (refine Post.pure ?_; show INode.all _ _ = true; simp only [INode.all, Bool.and_eq_true]; exact ⟨rfl, hc⟩))

example : Post (fun p => NL p.1) (indexP none) := nindexP_ok none (fun _ h => by cases h)

/-- appending a good node to a good list -/
theorem NLL_snoc {acc : List INode} {a : INode} (h : NLL acc) (ha : NL a) : NLL (acc ++ [a]) := by
  induction acc with
  | nil => simp only [NLL, List.nil_append, INode.allL, Bool.and_eq_true]; exact ⟨ha, trivial⟩
  | cons x xs ih =>
    simp only [NLL, INode.allL, Bool.and_eq_true, List.cons_append] at h ⊢
    exact ⟨h.1, ih h.2⟩

example : NLL ([.current] ++ [.lit .null]) := NLL_snoc (by decide) (by decide)

/-- inserting a good node into a good association list -/
theorem NLF_assocInsert {k : Bytes} {v : INode} (hv : NL v) : ∀ {fs : List (Bytes × INode)}, NLF fs →
    NLF (assocInsert k v fs)
  | [], _ => by simp only [NLF, assocInsert, INode.allF, Bool.and_eq_true]; exact ⟨hv, trivial⟩
  | (k', v') :: rest, h => by
    simp only [NLF, INode.allF, Bool.and_eq_true] at h
    simp only [assocInsert]
    split
    · simp only [NLF, INode.allF, Bool.and_eq_true]; exact ⟨hv, h.2⟩
    · split
      · simp only [NLF, INode.allF, Bool.and_eq_true]; exact ⟨hv, h.1, h.2⟩
      · simp only [NLF, INode.allF, Bool.and_eq_true]; exact ⟨h.1, NLF_assocInsert hv h.2⟩

example : NLF (assocInsert [0x61] (.lit .null) []) := NLF_assocInsert (by decide) (by decide)

/-- the node constructor of a built-in function preserves "all literals `Fin`" -/
def NSpecOK : ArgSpec → Prop
  | .fixed _ _ mk => ∀ args, NLL args → NL (mk args)
  | .varArg mk => ∀ args, NLL args → NL (mk args)
  | .expArg mk => ∀ a b, NL a → NL b → NL (mk a b)
  | .mapArg mk => ∀ a b, NL a → NL b → NL (mk a b)

theorem NL_call (f : Fn) {args : List INode} (h : NLL args) : NL (.call f args) := by
  simp only [NL, INode.all, Bool.and_eq_true]; exact ⟨rfl, h⟩

example : NL (.call .abs [.lit (.num (.jnum [0x31]))]) := NL_call _ (by decide)

theorem nbuiltin_ok : ∀ e ∈ builtinTable, NSpecOK e.2 := by
  simp only [builtinTable, List.forall_mem_cons]
  repeat' apply And.intro
  all_goals first
    | (intro args h; exact NL_call _ h)
    | (intro args h; show NL (if _ then _ else _); split <;> exact NL_call _ h)
    | (intro args h; show NL (match _ with | 2 => _ | 3 => _ | _ => _); split <;> exact NL_call _ h)
    | (intro args h; simp only [NL, INode.all, Bool.and_eq_true]; exact ⟨rfl, h⟩)
    | (intro a b ha hb; simp only [NL, INode.all, Bool.and_eq_true]; exact ⟨⟨rfl, ha⟩, hb⟩)
    | (intro a b ha hb; simp only [NL, INode.all, Bool.and_eq_true]; exact ⟨⟨rfl, hb⟩, ha⟩)
    | (intro x hx; cases hx)

theorem nlookupBuiltin_ok {name : Bytes} {spec : ArgSpec} (h : lookupBuiltin name = some spec) : NSpecOK spec := by
  simp only [lookupBuiltin, Option.map_eq_some_iff] at h
  obtain ⟨e, he, rfl⟩ := h
  exact nbuiltin_ok e (List.mem_of_find?_eq_some he)

/-- the thirteen statements proved simultaneously by induction on the fuel -/
structure NIH (fuel : Nat) : Prop where
  expression : ∀ prec, Post NL (expression fuel prec)
  exprLoop : ∀ node prec, NL node → Post NL (exprLoop fuel node prec)
  filterP : Post NL (filterP fuel)
  fnArgs : ∀ mn mx acc, NLL acc → Post NLL (fnArgs fuel mn mx acc)
  fnVarArgs : ∀ acc, NLL acc → Post NLL (fnVarArgs fuel acc)
  function : Post NL (function fuel)
  letP : ∀ vars, NLF vars → Post NL (letP fuel vars)
  primaryExpression : Post NL (primaryExpression fuel)
  projection : ∀ prec, Post NLO (projection fuel prec)
  selectArray : ∀ child, NLO child → Post NL (selectArray fuel child)
  selectArrayLoop : ∀ child fields, NLO child → NLL fields → Post NL (selectArrayLoop fuel child fields)
  selectObject : ∀ child, NLO child → Post NL (selectObject fuel child)
  selectObjectLoop : ∀ child fields, NLO child → NLF fields → Post NL (selectObjectLoop fuel child fields)

theorem NLO_none : NLO none := fun _ h => by cases h
theorem NLO_some {n : INode} (h : NL n) : NLO (some n) := fun _ e => by cases e; exact h

example : NLO (some (.lit .null)) := NLO_some (by decide)

theorem nall_getD {o : Option INode} (h : ∀ n, o = some n → INode.all (INode.litOk Val.Fin) n = true) :
    INode.all (INode.litOk Val.Fin) (o.getD .current) = true := by
  cases o with
  | none => rfl
  | some n => exact h n rfl

theorem nallF_assocInsert {k : Bytes} {v : INode} {fs : List (Bytes × INode)}
    (hv : v.all (INode.litOk Val.Fin) = true) (h : INode.allF (INode.litOk Val.Fin) fs = true) :
    INode.allF (INode.litOk Val.Fin) (assocInsert k v fs) = true :=
  NLF_assocInsert hv h

/-- a literal node with a `Fin` value is good -/
theorem NL_lit {v : Val} (h : v.Fin = true) : NL (.lit v) := by
  simp only [NL, INode.all, INode.litOk]; exact h

example : NL (.lit (.num (.jnum [0x31]))) := NL_lit (by decide)

/-- a raw string literal is good -/
theorem NL_str (s : Bytes) : NL (.lit (.str s)) := NL_lit (by simp)

example : NL (.lit (.str [0x61])) := NL_str _

theorem fin_str_ (s : Bytes) : Val.Fin (.str s) = true := Val.fin_str s

/-- close a `NL`/`NLL`/`NLF`/`NLO` goal from the hypotheses in scope -/
macro "fl_close" : tactic => `(tactic| first
  | assumption
  | exact NLO_none
  | exact NLO_some (by assumption)
  | exact NL_str _
  | rfl
  | (simp_all [NL, NLL, NLF, NLO, INode.all, INode.allL, INode.allF, INode.litOk, nall_getD, allL_snoc, nallF_assocInsert, fin_str_]; done)
  | (split <;> simp_all [NL, NLL, NLF, NLO, INode.all, INode.allL, INode.allF, INode.litOk, nall_getD, allL_snoc, nallF_assocInsert, fin_str_]; done))

theorem nfixed_ok {name : Bytes} {mn mx : Nat} {mk : List INode → INode}
    (h : lookupBuiltin name = some (.fixed mn mx mk)) {args : List INode} (ha : NLL args) : NL (mk args) :=
  nlookupBuiltin_ok h args ha
theorem nvarArg_ok {name : Bytes} {mk : List INode → INode}
    (h : lookupBuiltin name = some (.varArg mk)) {args : List INode} (ha : NLL args) : NL (mk args) :=
  nlookupBuiltin_ok h args ha
theorem nexpArg_ok {name : Bytes} {mk : INode → INode → INode}
    (h : lookupBuiltin name = some (.expArg mk)) {a b : INode} (ha : NL a) (hb : NL b) : NL (mk a b) :=
  nlookupBuiltin_ok h a b ha hb
theorem nmapArg_ok {name : Bytes} {mk : INode → INode → INode}
    (h : lookupBuiltin name = some (.mapArg mk)) {a b : INode} (ha : NL a) (hb : NL b) : NL (mk a b) :=
  nlookupBuiltin_ok h a b ha hb

macro "fl_auto" ih:ident : tactic => `(tactic| repeat' (first
  | exact Post.fail
  | exact Post.fail_bind
  | (refine Post.bind (NIH.expression $ih _) fun _ _ => ?_)
  | (refine Post.bind (NIH.projection $ih _) fun _ _ => ?_)
  | (refine Post.bind (NIH.filterP $ih) fun _ _ => ?_)
  | (refine Post.bind (NIH.primaryExpression $ih) fun _ _ => ?_)
  | (refine Post.bind (NIH.exprLoop $ih _ _ (by fl_close)) fun _ _ => ?_)
  | (refine Post.bind (NIH.selectObject $ih _ (by fl_close)) fun _ _ => ?_)
  | (refine Post.bind (NIH.selectArray $ih _ (by fl_close)) fun _ _ => ?_)
  | (refine Post.bind (NIH.fnArgs $ih _ _ _ rfl) fun _ _ => ?_)
  | (refine Post.bind (NIH.fnVarArgs $ih _ rfl) fun _ _ => ?_)
  | (refine Post.bind (nindexP_ok _ (by fl_close)) fun _ _ => ?_)
  | exact NIH.expression $ih _
  | exact NIH.function $ih
  | exact NIH.exprLoop $ih _ _ (by fl_close)
  | exact NIH.selectObject $ih _ (by fl_close)
  | exact NIH.selectArray $ih _ (by fl_close)
  | exact NIH.letP $ih _ (by fl_close)
  | exact NIH.letP $ih _ (NLF_assocInsert (by assumption) (by assumption))
  | exact NIH.fnArgs $ih _ _ _ (NLL_snoc (by assumption) (by assumption))
  | exact NIH.fnVarArgs $ih _ (NLL_snoc (by assumption) (by assumption))
  | exact NIH.selectArrayLoop $ih _ _ (by assumption) (by fl_close)
  | exact NIH.selectArrayLoop $ih _ _ (by assumption) (NLL_snoc (by assumption) (by assumption))
  | exact NIH.selectObjectLoop $ih _ _ (by assumption) (by fl_close)
  | exact NIH.selectObjectLoop $ih _ _ (by assumption) (NLF_assocInsert (by assumption) (by assumption))
  | exact Post.pure (NLL_snoc (by assumption) (by assumption))
  | exact Post.pure (NL_lit (parseJSONLiteral_fin (by assumption)))
  | exact Post.pure (NL_str _)
  | exact Post.pure (nfixed_ok (by assumption) (by assumption))
  | exact Post.pure (nvarArg_ok (by assumption) (by assumption))
  | exact Post.pure (nexpArg_ok (by assumption) (by assumption) (by assumption))
  | exact Post.pure (nmapArg_ok (by assumption) (by assumption) (by assumption))
  | (refine Post.bind (Post.any _) fun _ _ => ?_)
  | (refine Post.ite (fun _ => ?_) (fun _ => ?_))
  | split
  | (refine Post.pure ?_; fl_close)))

theorem step_expression {fuel : Nat} (ih : NIH fuel) (prec : Nat) : Post NL (expression (fuel+1) prec) := by
  simp only [expression]
  fl_auto ih

theorem step_exprLoop {fuel : Nat} (ih : NIH fuel) (node : INode) (prec : Nat) (hn : NL node) : Post NL (exprLoop (fuel+1) node prec) := by
  simp only [exprLoop]
  fl_auto ih

theorem step_filterP {fuel : Nat} (ih : NIH fuel)  : Post NL (filterP (fuel+1)) := by
  simp only [filterP]
  fl_auto ih

theorem step_fnArgs {fuel : Nat} (ih : NIH fuel) (mn mx : Nat) (acc : List INode) (ha : NLL acc) : Post NLL (fnArgs (fuel+1) mn mx acc) := by
  simp only [fnArgs]
  fl_auto ih

theorem step_fnVarArgs {fuel : Nat} (ih : NIH fuel) (acc : List INode) (ha : NLL acc) : Post NLL (fnVarArgs (fuel+1) acc) := by
  simp only [fnVarArgs]
  fl_auto ih

theorem step_function {fuel : Nat} (ih : NIH fuel)  : Post NL (function (fuel+1)) := by
  simp only [function]
  fl_auto ih

theorem step_letP {fuel : Nat} (ih : NIH fuel) (vars : List (Bytes × INode)) (hv : NLF vars) : Post NL (letP (fuel+1) vars) := by
  simp only [letP]
  fl_auto ih

theorem step_primaryExpression {fuel : Nat} (ih : NIH fuel)  : Post NL (primaryExpression (fuel+1)) := by
  simp only [primaryExpression]
  refine Post.bind (Post.any _) fun _ _ => ?_
  split <;> fl_auto ih

theorem step_projection {fuel : Nat} (ih : NIH fuel) (prec : Nat) : Post NLO (projection (fuel+1) prec) := by
  simp only [projection]
  fl_auto ih

theorem step_selectArray {fuel : Nat} (ih : NIH fuel) (child : Option INode) (hc : NLO child) : Post NL (selectArray (fuel+1) child) := by
  simp only [selectArray]
  fl_auto ih

theorem step_selectArrayLoop {fuel : Nat} (ih : NIH fuel) (child : Option INode) (fields : List INode) (hc : NLO child) (hf : NLL fields) : Post NL (selectArrayLoop (fuel+1) child fields) := by
  simp only [selectArrayLoop]
  fl_auto ih

theorem step_selectObject {fuel : Nat} (ih : NIH fuel) (child : Option INode) (hc : NLO child) : Post NL (selectObject (fuel+1) child) := by
  simp only [selectObject]
  fl_auto ih

theorem step_selectObjectLoop {fuel : Nat} (ih : NIH fuel) (child : Option INode) (fields : List (Bytes × INode)) (hc : NLO child) (hf : NLF fields) : Post NL (selectObjectLoop (fuel+1) child fields) := by
  simp only [selectObjectLoop]
  fl_auto ih

/-- all thirteen parser functions, at every fuel, return nodes whose literals are `Fin` -/
theorem nih : ∀ fuel, NIH fuel
  | 0 => by
    constructor <;> intros <;>
      simp only [expression, exprLoop, filterP, fnArgs, fnVarArgs, function, letP, primaryExpression, projection,
        selectArray, selectArrayLoop, selectObject, selectObjectLoop] <;> exact Post.fail
  | fuel + 1 =>
    have ih := nih fuel
    ⟨step_expression ih, step_exprLoop ih, step_filterP ih, step_fnArgs ih, step_fnVarArgs ih, step_function ih,
      step_letP ih, step_primaryExpression ih, step_projection ih, step_selectArray ih, step_selectArrayLoop ih,
      step_selectObject ih, step_selectObjectLoop ih⟩

example : Post NL (expression 5 1) := (nih 5).expression 1

/-- every literal node of a successfully parsed expression carries a value on which `Val.Fin` is true -/
theorem parse_finLits_all {expr : Bytes} {n : INode} (h : Parser.parse expr = .ok n) :
    n.all (INode.litOk Val.Fin) = true := by
  unfold Parser.parse at h
  simp only [] at h
  split at h
  · cases h
  · next st _ =>
    split at h
    · next n' s' hr =>
      cases h
      have hp : Post NL (do
          let node ← expression (fuelFor (lexAll expr).1.length) 1
          if (← currType) != .end then Parser.fail .unexpectedToken
          return node : PM INode) := by
        refine Post.bind ((nih _).expression _) fun node hn => ?_
        refine Post.bind (Post.any _) fun _ _ => ?_
        refine Post.ite (fun _ => ?_) (fun _ => ?_)
        · exact Post.fail_bind
        · exact Post.pure hn
      exact hp st n s' hr
    · cases h

end C18BLits

/-- **every literal of a parsed expression is `Fin`** -/
theorem parse_finLits {expr : Bytes} {n : INode} (h : Parser.parse expr = .ok n) : n.FinLits = true :=
  C18BLits.parse_finLits_all h

theorem compile_finLits {expr : Bytes} {n : INode} (h : compile expr = .ok n) : n.FinLits = true :=
  parse_finLits h

/-- the expression `` a==`[1]` `` -/
example : ∀ n, compile [0x61, 0x3D, 0x3D, 0x60, 0x5B, 0x31, 0x5D, 0x60] = .ok n → n.FinLits = true :=
  fun _ h => compile_finLits h
example : (INode.binop .eq (.field [0x61]) (.lit (.arr .plain [.num (.jnum [0x31])]))).FinLits = true := by decide
example : (INode.lit (.num (.dec .nan))).FinLits = false := by decide

/-! ## `json.Marshal` succeeds on `Fin` values -/

theorem Dec.normalize_fin_C18B (neg : Bool) (c : Nat) (e : Int) :
    ∃ n' c' e', Dec.normalize (.fin neg c e) = .fin n' c' e' := by
  simp only [Dec.normalize]
  split
  · exact ⟨_, _, _, rfl⟩
  · exact ⟨_, _, _, rfl⟩

/-- `Decimal.MarshalJSON` fails on NaN and ±Inf only -/
theorem Dec.marshalJSON_fin {d : Dec} (h : d.isSpecial = false) : ∃ b, d.marshalJSON = some b := by
  cases d with
  | nan => cases h
  | inf n => cases h
  | fin neg c e =>
    simp only [Dec.marshalJSON]
    split
    · exact ⟨_, rfl⟩
    · obtain ⟨n', c', e', hn⟩ := Dec.normalize_fin_C18B neg c e
      rw [hn]
      simp only
      split
      · exact ⟨_, rfl⟩
      · split
        · exact ⟨_, rfl⟩
        · split
          · exact ⟨_, rfl⟩
          · exact ⟨_, rfl⟩

example : (Dec.fin true 5 (-1)).marshalJSON = some [0x2D, 0x30, 0x2E, 0x35] := by decide
example : Dec.nan.marshalJSON = none := rfl

mutual
/-- **`json.Marshal` succeeds on every `Fin` value** (never an error, never unmodelled) -/
theorem encode_fin_total : ∀ v : Val, v.Fin = true → ∃ b, Json.encode v = .ok b
  | .null, _ => ⟨_, rfl⟩
  | .bool true, _ => ⟨_, rfl⟩
  | .bool false, _ => ⟨_, rfl⟩
  | .str s, _ => ⟨_, rfl⟩
  | .num (.jnum t), h => by
    have h := Val.fin_jnum.mp h
    simp only [Json.encode, h, if_true]
    split <;> exact ⟨_, rfl⟩
  | .num (.int k v), _ => ⟨_, rfl⟩
  | .num (.dec d), h => by
    obtain ⟨b, hb⟩ := Dec.marshalJSON_fin (Val.fin_dec.mp h)
    simp only [Json.encode, hb]
    exact ⟨_, rfl⟩
  | .num (.f64 f), h => by simp at h
  | .num (.f32 f), h => by simp at h
  | .arr t xs, h => by
    simp only [Val.Fin] at h
    obtain ⟨parts, hp⟩ := encodeL_fin_total xs h
    cases t <;> simp only [Json.encode, hp] <;> exact ⟨_, rfl⟩
  | .obj kvs, h => by
    simp only [Val.Fin] at h
    obtain ⟨parts, hp⟩ := encodeF_fin_total kvs h
    simp only [Json.encode, hp]
    exact ⟨_, rfl⟩
  | .foreign t, h => by simp at h
theorem encodeL_fin_total : ∀ xs : List Val, Val.FinL xs = true → ∃ b, Json.encodeL xs = .ok b
  | [], _ => ⟨_, rfl⟩
  | [x], h => by
    simp only [Val.FinL, Bool.and_eq_true] at h
    simp only [Json.encodeL]
    exact encode_fin_total x h.1
  | x :: y :: rest, h => by
    simp only [Val.FinL, Bool.and_eq_true] at h
    obtain ⟨b, hb⟩ := encode_fin_total x h.1
    obtain ⟨r, hr⟩ := encodeL_fin_total (y :: rest) (by simp only [Val.FinL, Bool.and_eq_true]; exact h.2)
    simp only [Json.encodeL, hb, hr]
    exact ⟨_, rfl⟩
theorem encodeF_fin_total : ∀ kvs : List (Bytes × Val), Val.FinF kvs = true → ∃ b, Json.encodeF kvs = .ok b
  | [], _ => ⟨_, rfl⟩
  | [(k, x)], h => by
    simp only [Val.FinF, Bool.and_eq_true] at h
    obtain ⟨b, hb⟩ := encode_fin_total x h.1
    simp only [Json.encodeF, hb]
    exact ⟨_, rfl⟩
  | (k, x) :: (k', y) :: rest, h => by
    simp only [Val.FinF, Bool.and_eq_true] at h
    obtain ⟨b, hb⟩ := encode_fin_total x h.1
    obtain ⟨r, hr⟩ := encodeF_fin_total ((k', y) :: rest) (by simp only [Val.FinF, Bool.and_eq_true]; exact h.2)
    simp only [Json.encodeF, hb, hr]
    exact ⟨_, rfl⟩
end

/-- `{"a": -0.5}` with the number held as a decimal -/
example : (match Json.encode (.obj [([0x61], .num (.dec (.fin true 5 (-1))))]) with
    | .ok b => b == [0x7B, 0x22, 0x61, 0x22, 0x3A, 0x2D, 0x30, 0x2E, 0x35, 0x7D] | _ => false) = true := by decide
example : ∃ b, Json.encode (.obj [([0x61], .num (.dec (.fin true 5 (-1))))]) = .ok b :=
  encode_fin_total _ (by decide)
/-- NaN does not serialise: `Fin` is needed -/
example : (match Json.encode (.num (.dec .nan)) with | .fail => true | _ => false) = true := rfl

/-- consequently `to_string` of a `Fin` value is a string (never an error, never unmodelled) -/
theorem toString_fin_total {v : Val} (hf : v.Fin = true) (hne : v.hasEnum2 = false) :
    ∃ b, toStringV v = .ok (.str b) := by
  obtain ⟨b, hb⟩ := encode_fin_total v hf
  cases v with
  | str s => exact ⟨s, rfl⟩
  | _ => simp only [toStringV, hne, hb] <;> exact ⟨_, rfl⟩

example : ∃ b, toStringV (.num (.dec (.fin true 5 (-1)))) = .ok (.str b) := toString_fin_total (by decide) rfl

end Jmes
