/-
  Property C18, third part — the representation invariant of Go maps is an invariant of the whole pipeline.

  The model represents a Go `map[string]any` as `Val.obj kvs` with `kvs` sorted by key, keys unique; `C18CR.Sorted`
  says so at every object inside a value, and is a hypothesis of `C18CR.roundtrip_equal_of_parts`.  Here it is
  discharged for everything a search over JSON input can produce:

  (1) `decode_sorted`, `parseJSONLiteral_sorted` (in `C18CSortedEval.lean`): what `encoding/json` decodes is `Sorted`;
  (2) `ieval_sorted`, `evaluate_sorted` (in `C18CSortedEval.lean`; value-level lemmas for every builtin in
      `C18CSortedFn.lean`): the evaluator preserves it;
  (3) `compile_ilits` (in `C18CSortedLits.lean`): the literals of a compiled expression are `Sorted`; hence
      `search_sorted` and `json_search_sorted` below.

  No builtin breaks the invariant: every place where the model builds an object (`objInsert` in the decoder, in
  multi-select hashes, `let`, `merge`, `from_items`; `groupInsert` in `group_by`) keeps the keys strictly increasing.
-/
import Jmes.Proofs.C18CSortedLits
import Jmes.Model.Api
import Jmes.Proofs.C18CRoundtripEq
namespace Jmes.C18CS
open Jmes Jmes.C18CR

/-- `search` with a hypothesis on the literals of the compiled expression -/
theorem search_sorted_of_lits {expr : Bytes} {d r : Val} (hlit : ∀ n, compile expr = .ok n → ILits n)
    (hd : Sorted d) (h : search expr d = .ok r) : Sorted r := by
  unfold search at h
  split at h
  · cases h
  · cases h
  · next n hp => exact evaluate_sorted (hlit n hp) hd h

/-- the expression `@` -/
example : ∀ r, search [0x40] (.obj [([0x61], .null), ([0x62], .null)]) = .ok r → Sorted r :=
  fun _ h => search_sorted_of_lits (fun _ hn => compile_ilits hn) (sorted_obj2 (by decide) (by simp) (by simp)) h

/-- **(3) `Search` preserves the representation invariant of Go maps**: searching a document in which every object
    has strictly increasing keys yields a result with the same property, for every expression (all builtins, literals,
    `let`, multi-select hashes included). -/
theorem search_sorted {expr : Bytes} {d r : Val} (hd : Sorted d) (h : search expr d = .ok r) : Sorted r :=
  search_sorted_of_lits (fun _ hn => compile_ilits hn) hd h

/-- the document `{"a": true, "b": null}` -/
def docS : Val := .obj [([0x61], .bool true), ([0x62], .null)]

/-- the expression `{b: a, a: b}` on `docS`: the multi-select hash is stored in key order `a`, `b` -/
example : search [0x7B, 0x62, 0x3A, 0x61, 0x2C, 0x61, 0x3A, 0x62, 0x7D] docS =
    .ok (.obj [([0x61], .null), ([0x62], .bool true)]) := by
  have : (match search [0x7B, 0x62, 0x3A, 0x61, 0x2C, 0x61, 0x3A, 0x62, 0x7D] docS with
    | .ok (.obj [(k1, .null), (k2, .bool true)]) => k1 == [0x61] && k2 == [0x62]
    | _ => false) = true := by decide +kernel
  split at this
  · next k1 k2 e => rw [e]; simp only [Bool.and_eq_true, beq_iff_eq] at this; rw [this.1, this.2]
  · cases this
example : ∀ r, search [0x7B, 0x62, 0x3A, 0x61, 0x2C, 0x61, 0x3A, 0x62, 0x7D] docS = .ok r → Sorted r :=
  fun _ h => search_sorted (sorted_obj2 (by decide) (by simp) (by simp)) h

/-- **(3) the hypothesis `Sorted` of `C18CR.roundtrip_equal_of_parts` holds for every result of a search over JSON
    input**: decode a JSON text, search it with any expression — in the result every object has strictly increasing
    keys. -/
theorem json_search_sorted {expr s : Bytes} {d r : Val} (hs : Json.decode s = some d) (h : search expr d = .ok r) :
    Sorted r :=
  search_sorted (decode_sorted hs) h

/-- the text `{"b":1,"a":2}` searched with `@` -/
example : ∀ d r, Json.decode [0x7B, 0x22, 0x62, 0x22, 0x3A, 0x31, 0x2C, 0x22, 0x61, 0x22, 0x3A, 0x32, 0x7D] = some d →
    search [0x40] d = .ok r → Sorted r := fun _ _ hs h => json_search_sorted hs h
example : Json.decode [0x7B, 0x22, 0x62, 0x22, 0x3A, 0x31, 0x2C, 0x22, 0x61, 0x22, 0x3A, 0x32, 0x7D] =
    some (.obj [([0x61], .num (.jnum [0x32])), ([0x62], .num (.jnum [0x31]))]) := rfl

/-- without the hypothesis on the document the conclusion fails (the hypothesis is not vacuous): `@` returns the
    document, whatever its member order -/
example : search [0x40] (.obj [([0x62], .null), ([0x61], .null)]) = .ok (.obj [([0x62], .null), ([0x61], .null)]) ∧
    ¬ Sorted (.obj [([0x62], .null), ([0x61], .null)]) := by
  refine ⟨?_, ?_⟩
  · have : (match search [0x40] (.obj [([0x62], .null), ([0x61], .null)]) with
      | .ok (.obj [(k1, .null), (k2, .null)]) => k1 == [0x62] && k2 == [0x61]
      | _ => false) = true := by decide +kernel
    split at this
    · next k1 k2 e => rw [e]; simp only [Bool.and_eq_true, beq_iff_eq] at this; rw [this.1, this.2]
    · cases this
  · simp only [sorted_obj, KeySorted, not_and]; intro h; exact absurd h (by decide)

/-- `C18CR.roundtrip_equal_of_parts` with its `Sorted` hypothesis discharged for a result of a search over JSON input:
    the result marshals, the text decodes, and the decoded value is `==` to the result (the other hypotheses are the
    invariants of C18 / C18B / C11B and the proviso on numbers, unchanged) -/
theorem roundtrip_equal_of_json_search {expr s : Bytes} {d r : Val} (hs : Json.decode s = some d)
    (h : search expr d = .ok r) (hp : r.Plain = true) (he : r.NoEnum = true) (hf : r.Fin = true)
    (hv : r.Valid = true) (hn : NumsAll GoodNum r) (hd : C16B.dp r ≤ Json.maxDepth) :
    ∃ b r', Json.encode r = .ok b ∧ Json.decode b = some r' ∧ equal r r' = true :=
  roundtrip_equal_of_parts hp he hf hv (json_search_sorted hs h) hn hd

/-- the text `"a"` searched with `@` -/
example : ∀ r, search [0x40] (.str [0x61]) = .ok r → r.Plain = true → r.NoEnum = true → r.Fin = true →
    r.Valid = true → NumsAll GoodNum r → C16B.dp r ≤ Json.maxDepth →
    ∃ b r', Json.encode r = .ok b ∧ Json.decode b = some r' ∧ equal r r' = true :=
  fun _ h hp he hf hv hn hd =>
    roundtrip_equal_of_json_search (s := [0x22, 0x61, 0x22]) (d := .str [0x61]) rfl h hp he hf hv hn hd

end Jmes.C18CS
