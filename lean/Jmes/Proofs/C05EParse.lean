/-
  Helpers for Jmes/Properties/C05E.lean: EVERY result of the rounding routine `Dec.reduce` (sticky flag or not, gradual
  underflow included) that is not ±Inf is a number of the format; hence every `json.Number` text of the JSON grammar is a
  `Good` leaf (a finite number of the format, or no number at all), and so is every value decoded from JSON text.
-/
import Jmes.Proofs.C05ELeaf
namespace Jmes.C05EParse
open Jmes.Dec Jmes.C05 Jmes.C05ELemmas Jmes.C05CLemmas Jmes.C20B

theorem dropHigh_coef_le : ∀ (fuel c : Nat) (e : Int) (dg : Nat) (st : Bool), c < 2 ^ fuel →
    (dropHigh fuel c e dg st).1 ≤ MAXSIG
  | 0, c, e, dg, st, h => by
    have : c = 0 := by simpa using h
    subst this; simp [dropHigh]
  | fuel + 1, c, e, dg, st, h => by
    unfold dropHigh
    split
    · exact dropHigh_coef_le fuel (c / 10) (e + 1) (c % 10) (st || dg != 0) (by rw [Nat.pow_succ] at h; omega)
    · simp only []; omega

theorem dropLow_coef_le : ∀ (fuel c : Nat) (e : Int) (dg : Nat) (st : Bool), (dropLow fuel c e dg st).1 ≤ c
  | 0, c, e, dg, st => by simp [dropLow]
  | fuel + 1, c, e, dg, st => by
    unfold dropLow
    split
    · simp only []
      split
      · simp
      · have := dropLow_coef_le fuel (c / 10) (e + 1) (c % 10) (st || dg != 0)
        have : c / 10 ≤ c := Nat.div_le_self c 10
        omega
    · simp

theorem scaleUp_bounds : ∀ (fuel c : Nat) (e : Int), c ≤ MAXSIG → EMIN ≤ e →
    (scaleUp fuel c e).1 ≤ MAXSIG ∧ EMIN ≤ (scaleUp fuel c e).2
  | 0, c, e, hc, he => by simp [scaleUp, hc, he]
  | fuel + 1, c, e, hc, he => by
    unfold scaleUp
    split
    · next h =>
      have : EMIN ≤ EMAX := by decide
      exact scaleUp_bounds fuel (c * 10) (e - 1) h.2.1 (by omega)
    · exact ⟨hc, he⟩

theorem roundEven_bounds : ∀ (fuel c : Nat) (e : Int) (dg : Nat) (st : Bool), c ≤ MAXSIG →
    (roundEven fuel c e dg st).1 ≤ MAXSIG ∧ e ≤ (roundEven fuel c e dg st).2
  | 0, c, e, dg, st, hc => by simp [roundEven, hc]
  | fuel + 1, c, e, dg, st, hc => by
    rw [roundEven_succ]
    split
    · split
      · have := roundEven_bounds fuel (c / 10) (e + 1) (c % 10) (st || dg != 0) (by omega)
        exact ⟨this.1, by omega⟩
      · exact ⟨by simp only []; omega, Int.le_refl _⟩
    · exact ⟨hc, Int.le_refl _⟩

/-- the pair `reduce` computes before its overflow test: a coefficient `≤ MAXSIG` at an exponent `≥ EMIN` -/
theorem reducePair_bounds (c : Nat) (e : Int) (st : Bool) :
    (reducePair c e st).1 ≤ MAXSIG ∧ EMIN ≤ (reducePair c e st).2 := by
  unfold reducePair
  simp only []
  have h1 := dropHigh_coef_le (Nat.log2 (c + 1) + 2) c e 0 st (lt_two_pow_fuel c)
  generalize dropHigh (Nat.log2 (c + 1) + 2) c e 0 st = r1 at *
  have h2 := dropLow_coef_le (min ((EMIN - r1.2.1).toNat + 1) 60) r1.1 r1.2.1 r1.2.2.1 r1.2.2.2
  generalize dropLow (min ((EMIN - r1.2.1).toNat + 1) 60) r1.1 r1.2.1 r1.2.2.1 r1.2.2.2 = r2 at *
  split
  · have hs := scaleUp_bounds 40 0 EMIN (by decide) (Int.le_refl _)
    have hr := roundEven_bounds 3 (scaleUp 40 0 EMIN).1 (scaleUp 40 0 EMIN).2 0 true hs.1
    exact ⟨hr.1, by dsimp only; omega⟩
  · next hlo =>
    have hs := scaleUp_bounds 40 r2.1 r2.2.1 (by omega) (by omega)
    have hr := roundEven_bounds 3 (scaleUp 40 r2.1 r2.2.1).1 (scaleUp 40 r2.1 r2.2.1).2 r2.2.2.1 r2.2.2.2 hs.1
    exact ⟨hr.1, by omega⟩

/-- **every finite result of `reduce` is a number of the format** — whatever the coefficient, the exponent and the sticky
    flag (so also every quotient, every underflowing result, every number text with more digits than the scanner keeps) -/
theorem reduce_fin_representable {neg : Bool} {c : Nat} {e : Int} {st : Bool} {n : Bool} {c' : Nat} {e' : Int}
    (h : reduce neg c e st = .fin n c' e') : Representable c' e' := by
  rw [reduce_eq_pair] at h
  split at h
  · cases h; exact fits_zero 0
  · split at h
    · cases h
    · next hhi =>
      obtain ⟨hb1, hb2⟩ := reducePair_bounds c e st
      have hD := denotes_normalize neg (reducePair c e st).1 (reducePair c e st).2
      rw [h] at hD
      obtain ⟨c1, e1, heq, hz, hk, _⟩ := hD.unpack
      cases heq
      exact denotes_fits hk hz (fits_of_le hb1 hb2 (by omega))

theorem parseFinish_ok_representable {s : Dec.PState} {neg : Bool} {r : Dec} (h : parseFinish s neg = .ok r) :
    ∃ c e, r = .fin neg c e ∧ Representable c e := by
  unfold parseFinish at h
  by_cases h1 : (!s.caneof) = true
  · simp [h1] at h
  · simp only [h1] at h
    by_cases h2 : s.c = 0
    · simp only [h2, if_true] at h; cases h; exact ⟨0, 0, rfl, fits_zero 0⟩
    · simp only [h2, if_false] at h
      by_cases h3 : s.maxexp = true
      · simp only [h3, if_true] at h
        by_cases h4 : s.eneg = true
        · simp only [h4, if_true] at h; cases h; exact ⟨0, 0, rfl, fits_zero 0⟩
        · simp [h4] at h
      · simp only [h3] at h
        generalize (if s.eneg = true then -(s.exp : Int) else (s.exp : Int)) - s.nfrac = E at h
        by_cases h5 : E > EMAX + 39
        · simp [h5] at h
        · simp only [h5, if_false] at h
          by_cases h6 : E < EMIN - 39
          · simp only [h6, if_true] at h; cases h; exact ⟨0, 0, rfl, fits_zero 0⟩
          · simp only [h6, if_false] at h
            rcases Dec.reduce_fin_or_inf neg s.c E s.sticky with hr | ⟨c', e', hr⟩
            · rw [hr] at h; cases h
            · have hrep := reduce_fin_representable hr
              rw [hr] at h; cases h; exact ⟨c', e', rfl, hrep⟩

theorem parseNumber_ok_representable {d : Bytes} {neg sep : Bool} {r : Dec} (h : parseNumber d neg sep = .ok r) :
    ∃ c e, r = .fin neg c e ∧ Representable c e := by
  rw [parseNumber_eq] at h
  split at h
  · cases h
  · exact parseFinish_ok_representable h

/-- **every `json.Number` whose text is of the JSON number grammar is a `Good` leaf**: `decimal128.Parse` makes a finite
    number of the format of it (after rounding, gradual underflow included), or reports a range error — and then the text
    is not a number for the operators -/
theorem good_jnum {t : Bytes} (h : Lexical.JNumber t) : Good (.num (.jnum t)) := by
  refine ⟨Val.noFloat_jnum _, fun d hd => ?_⟩
  obtain ⟨neg, b, ip, fp, ex, rfl, hwf⟩ := jnumber_numText h
  have hb : isDigit b = true := hwf.1 b (List.mem_cons_self ..)
  simp only [toDecimal] at hd
  rw [parse_numText neg b ip fp ex hb] at hd
  split at hd
  · next r hr =>
    cases hd
    obtain ⟨c, e, rfl, hrep⟩ := parseNumber_ok_representable hr
    exact ⟨neg, c, e, rfl, hrep⟩
  · cases hd

theorem decoded_noFloat {v : Val} (h : Decoded v) : v.NoFloat := by
  revert h
  induction v using Val.ind_mem with
  | null => intro _; simp
  | bool b => intro _; simp
  | str s => intro _; simp
  | num n =>
    intro h
    cases n with
    | jnum t => simp
    | _ => simp [Decoded] at h
  | foreign t => intro h; simp [Decoded] at h
  | arr t xs ih =>
    intro h
    simp only [Decoded] at h
    exact Val.noFloat_arr.mpr fun x hx => ih x hx (DecodedL_iff.mp h.2 x hx)
  | obj kvs ih =>
    intro h
    simp only [Decoded] at h
    exact Val.noFloat_obj.mpr fun k x hm => ih k x hm (DecodedF_iff.mp h.2 k x hm)

/-- **every value decoded from JSON text (a document, a literal of the expression) is `Good`** — no hypothesis on the
    size of its numbers -/
theorem good_of_decoded {v : Val} (h : Decoded v) : Good v := by
  cases v with
  | num n =>
    cases n with
    | jnum t => simp only [Decoded] at h; exact good_jnum h
    | _ => simp [Decoded] at h
  | _ => exact good_of_notnum (decoded_noFloat h) rfl

theorem decoded_field {v : Val} (h : Decoded v) (k : Bytes) : Decoded (field k v) := by
  cases v with
  | obj kvs =>
    simp only [field]
    cases hl : objLookup k kvs with
    | none => simp [Decoded]
    | some x =>
      simp only [Decoded] at h
      have hm : (k, x) ∈ kvs := by
        clear h
        induction kvs with
        | nil => simp [objLookup] at hl
        | cons p rest ih =>
          obtain ⟨k', v'⟩ := p
          simp only [objLookup] at hl
          split at hl
          · next hk => cases hl; subst hk; exact List.mem_cons_self ..
          · exact List.mem_cons_of_mem _ (ih hl)
      exact DecodedF_iff.mp h.2 k x hm
  | _ => simp [field, Decoded]

end Jmes.C05EParse
