/-
  Property C18, second sentence, third pass — where does `| e2` land when it is written after an ARBITRARY well-formed
  `e1`?  (`C18BGraft` answers this for `PipeSafe` trees only.)

  * `RCtx`: right-edge contexts with frames `!□`, `-□`, `+□`, `l op □`, `let bs in □`;
  * `landing T`: the decomposition `T = c.fill core` at the place where a following `|` is attached: walk down the
    right edge of `T` as long as a `let` is ahead (`rlevel < lvlPipe`), enter the body of each `let` met;
  * `landing_fill`, `landing_ok`: it is a decomposition, `core` may be followed by `|`, the hole is at the top or is
    the body of a `let` (`RCtx.good`);
  * `rgraft`: the tree `c.fill (core | T2)` is well formed and prints as `T1 | T2` — for EVERY well-formed `T1`;
    its node is `c.node (pipe core T2)` (`RCtx.node`, `node_congr`);
  * `pipeSafe_iff`: `PipeSafe T` iff the landing context consists of `let` frames and `l | let` frames only and the
    core may be followed by `|` (no well-formedness needed; `Decidable (PipeSafe T)`);
    `pipeSafe_iff_opFree`: for well-formed `T`, iff no `!`, sign or binary operator other than `|` is on the path.
-/
import Jmes.Proofs.C18BGraft
namespace Jmes.C18CP
open Jmes Jmes.Grammar Jmes.C18BGraft

/-! ## Right-edge contexts -/

/-- the path from the top of `e1` down its right edge: `!□`, `-□`, `+□`, `l op □`, `let bs in □` -/
inductive RCtx where
  | hole
  | not (c : RCtx)
  | neg (tok : Token) (c : RCtx)
  | pos (c : RCtx)
  | binR (op : Token) (l : PTree) (c : RCtx)
  | letIn (bs : List (Token × PTree)) (c : RCtx)

namespace RCtx

/-- put a tree in the hole -/
def fill : RCtx → PTree → PTree
  | .hole, t => t
  | .not c, t => .not (c.fill t)
  | .neg tok c, t => .neg tok (c.fill t)
  | .pos c, t => .pos (c.fill t)
  | .binR op l c, t => .bin op l (c.fill t)
  | .letIn bs c, t => .letIn bs (c.fill t)

/-- the same context on nodes: `erase (c.fill t) = c.node (erase t)` -/
def node : RCtx → INode → INode
  | .hole, n => n
  | .not c, n => .not (c.node n)
  | .neg _ c, n => .negate (c.node n)
  | .pos c, n => .assertNumber (c.node n)
  | .binR op l c, n => binNode op.type (erase l) (c.node n)
  | .letIn bs c, n => .defineVariables (assocOf (eraseKVs Token.value bs)) (c.node n)

/-- the tokens before the hole -/
def pre : RCtx → List Token
  | .hole => []
  | .not c => tNot :: c.pre
  | .neg tok c => tok :: c.pre
  | .pos c => tPlus :: c.pre
  | .binR op l c => Grammar.flat false l ++ op :: c.pre
  | .letIn bs c => tLet :: flatKVs tAssign bs ++ tIn :: c.pre

/-- the empty context -/
def isHole : RCtx → Bool
  | .hole => true
  | _ => false

/-- the hole is the whole expression or the body of a `let` (never directly under an operator) -/
def good : RCtx → Bool
  | .hole => true
  | .not c => !c.isHole && c.good
  | .neg _ c => !c.isHole && c.good
  | .pos c => !c.isHole && c.good
  | .binR _ _ c => !c.isHole && c.good
  | .letIn _ c => c.good

/-- only `let bs in □` frames and `l | let bs in □` double frames: the contexts of `C18BGraft.Ctx` with `pipes` -/
def safe : RCtx → Bool
  | .hole => true
  | .letIn _ c => c.safe
  | .binR op _ (.letIn _ c) => op.type == .pipe && c.safe
  | _ => false

/-- no `!`, no sign, no binary operator other than `|` on the path -/
def opFree : RCtx → Bool
  | .hole => true
  | .letIn _ c => c.opFree
  | .binR op _ c => op.type == .pipe && c.opFree
  | _ => false

/-- the node of a filled context is the node-level context applied to the node of the filling -/
theorem erase_fill (c : RCtx) (t : PTree) : erase (c.fill t) = c.node (erase t) := by
  induction c with
  | hole => rfl
  | not c ih => simp only [fill, erase, ih, node]
  | neg tok c ih => simp only [fill, erase, ih, node]
  | pos c ih => simp only [fill, erase, ih, node]
  | binR op l c ih => simp only [fill, erase, ih, node]
  | letIn bs c ih => simp only [fill, erase, ih, node]

/-- a filled context prints as the tokens before the hole followed by the filling -/
theorem flat_fill (c : RCtx) (t : PTree) : Grammar.flat false (c.fill t) = c.pre ++ Grammar.flat false t := by
  induction c with
  | hole => rfl
  | not c ih => simp only [fill, Grammar.flat, ih, pre, List.cons_append]
  | neg tok c ih => simp only [fill, Grammar.flat, ih, pre, List.cons_append]
  | pos c ih => simp only [fill, Grammar.flat, ih, pre, List.cons_append]
  | binR op l c ih => simp only [fill, Grammar.flat, ih, pre, List.append_assoc, List.cons_append]
  | letIn bs c ih => simp only [fill, Grammar.flat, ih, pre, List.append_assoc, List.cons_append]

/-- the left level of a filled context does not depend on what is in the hole, unless the context is the hole -/
theorem llevel_fill (c : RCtx) (h : c.isHole = false) (t X : PTree) : llevel (c.fill X) = llevel (c.fill t) := by
  cases c with
  | hole => cases h
  | _ => rfl

/-- **well-formedness is local to the hole**: when the hole of a `good` context is filled with a well-formed tree, the
    result is well formed iff it was before (the hole is the body of a `let`, which accepts any expression) -/
theorem wp_fill (c : RCtx) (hg : c.good = true) {t X : PTree} (h : wp false (c.fill t) = true) :
    wp false t = true ∧ (wp false X = true → wp false (c.fill X) = true) := by
  induction c with
  | hole => exact ⟨h, id⟩
  | not c ih =>
    simp only [good, Bool.and_eq_true, Bool.not_eq_true'] at hg
    simp only [fill, wp, Bool.and_eq_true] at h ⊢
    obtain ⟨h1, h2⟩ := ih hg.2 h.1.2
    refine ⟨h1, fun hX => ⟨⟨h.1.1, h2 hX⟩, ?_⟩⟩
    rw [llevel_fill c hg.1 t X]; exact h.2
  | neg tok c ih =>
    simp only [good, Bool.and_eq_true, Bool.not_eq_true'] at hg
    simp only [fill, wp, Bool.and_eq_true] at h ⊢
    obtain ⟨h1, h2⟩ := ih hg.2 h.1.2
    refine ⟨h1, fun hX => ⟨⟨h.1.1, h2 hX⟩, ?_⟩⟩
    rw [llevel_fill c hg.1 t X]; exact h.2
  | pos c ih =>
    simp only [good, Bool.and_eq_true, Bool.not_eq_true'] at hg
    simp only [fill, wp, Bool.and_eq_true] at h ⊢
    obtain ⟨h1, h2⟩ := ih hg.2 h.1.2
    refine ⟨h1, fun hX => ⟨⟨h.1.1, h2 hX⟩, ?_⟩⟩
    rw [llevel_fill c hg.1 t X]; exact h.2
  | binR op l c ih =>
    simp only [good, Bool.and_eq_true, Bool.not_eq_true'] at hg
    simp only [fill, wp] at h ⊢
    split at h
    · cases h
    · rename_i lvl hl
      simp only [Bool.and_eq_true] at h ⊢
      obtain ⟨h1, h2⟩ := ih hg.2 h.1.2
      refine ⟨h1, fun hX => ⟨⟨h.1.1, h2 hX⟩, ?_⟩⟩
      rw [llevel_fill c hg.1 t X]; exact h.2
  | letIn bs c ih =>
    simp only [good] at hg
    simp only [fill, wp, Bool.and_eq_true] at h ⊢
    obtain ⟨h1, h2⟩ := ih hg h.2
    exact ⟨h1, fun hX => ⟨h.1, h2 hX⟩⟩

/-- **congruence**: a context maps pointwise-equal nodes to pointwise-equal nodes -/
theorem node_congr (c : RCtx) {n n' : INode} (h : ∀ root cur env, ieval root n cur env = ieval root n' cur env) :
    ∀ root cur env, ieval root (c.node n) cur env = ieval root (c.node n') cur env := by
  induction c with
  | hole => exact h
  | not c ih => intro root cur env; simp only [node, ieval, ih]
  | neg tok c ih => intro root cur env; simp only [node, ieval, ih]
  | pos c ih => intro root cur env; simp only [node, ieval, ih]
  | binR op l c ih =>
    intro root cur env
    simp only [node]
    cases op.type <;> simp only [binNode, ieval, ih]
  | letIn bs c ih => intro root cur env; simp only [node, ieval, ih]

end RCtx

/-! ## The landing position -/

/-- `landing T = (c, core)`: `T = c.fill core`, and a `|` written after `T` is attached to `core`.  Walk down the
    right edge while a `let` is ahead (`rlevel < lvlPipe`); the body of a `let` is always entered. -/
def landing : PTree → RCtx × PTree
  | .letIn bs body => (.letIn bs (landing body).1, (landing body).2)
  | .not t => if rlevel t < lvlPipe then (.not (landing t).1, (landing t).2) else (.hole, .not t)
  | .neg tok t => if rlevel t < lvlPipe then (.neg tok (landing t).1, (landing t).2) else (.hole, .neg tok t)
  | .pos t => if rlevel t < lvlPipe then (.pos (landing t).1, (landing t).2) else (.hole, .pos t)
  | .bin op l r => if rlevel r < lvlPipe then (.binR op l (landing r).1, (landing r).2) else (.hole, .bin op l r)
  | t => (.hole, t)


/-- `landing` is a decomposition: `T = c.fill core` -/
theorem landing_fill (T : PTree) : T = (landing T).1.fill (landing T).2 := by
  fun_induction landing T with
  | case1 bs body ih => simp only [RCtx.fill]; rw [← ih]
  | case2 t h ih => simp only [RCtx.fill]; rw [← ih]
  | case3 t h => rfl
  | case4 tok t h ih => simp only [RCtx.fill]; rw [← ih]
  | case5 => rfl
  | case6 t h ih => simp only [RCtx.fill]; rw [← ih]
  | case7 => rfl
  | case8 op l r h ih => simp only [RCtx.fill]; rw [← ih]
  | case9 => rfl
  | case10 => rfl

/-- the right operand of a well-formed `l.r` starts with an identifier: it is not a prefix form, a `let` or a
    binary operation, so nothing at its right edge absorbs a following `|` -/
theorem rlevel_dot_operand {r : PTree} (hw : wp false r = true) (hl : lvlDot < llevel r)
    (hs : startsWithIdent r = true) : lvlPipe ≤ rlevel r := by
  cases r with
  | not t => simp [startsWithIdent, Grammar.flat, tNot] at hs
  | neg tok t =>
    simp only [wp, Bool.and_eq_true, beq_iff_eq] at hw
    simp [startsWithIdent, Grammar.flat, hw.1.1.2] at hs
  | pos t => simp [startsWithIdent, Grammar.flat, tPlus] at hs
  | letIn bs body => simp [startsWithIdent, Grammar.flat, tLet] at hs
  | bin op l r =>
    simp only [wp] at hw
    split at hw
    · cases hw
    · rename_i lvl hlv
      simp only [Bool.and_eq_true, Bool.not_eq_true'] at hw
      have := (GrammarF0.binLevel_range hlv).2
      simp only [llevel, hlv, Option.getD_some, lmin, hw.1.1.1.1] at hl
      simp only [Bool.false_eq_true, if_false, lvlDot] at hl
      omega
  | dotId l r =>
    simp only [wp, Bool.and_eq_true] at hw
    by_cases hi : l.isIcur = true
    · simp [hi] at hw
    · simp only [llevel, lmin, hi, if_false, Bool.false_eq_true] at hl
      omega
  | _ => simp only [rlevel]; decide

/-- if the landing context is the hole, the core is the whole tree -/
theorem landing_hole_rlevel {T : PTree} (h : (landing T).1.isHole = true) : (landing T).2 = T := by
  have := landing_fill T
  cases hc : (landing T).1 with
  | hole => rw [hc] at this; exact this.symm
  | _ => rw [hc] at h; cases h

/-- **for a well-formed tree the landing core may be followed by `|`** (nothing at its right edge absorbs it),
    and the hole is the whole tree or the body of a `let` (`good`) -/
theorem landing_ok (T : PTree) : ∀ b, wp b T = true →
    lvlPipe ≤ rlevel (landing T).2 ∧ (landing T).1.good = true := by
  fun_induction landing T with
  | case1 bs body ih =>
    intro b h
    simp only [wp, Bool.and_eq_true] at h
    exact ih false h.2
  | case2 t hlt ih =>
    intro b h
    simp only [wp, Bool.and_eq_true] at h
    obtain ⟨h1, h2⟩ := ih false h.1.2
    refine ⟨h1, ?_⟩
    simp only [RCtx.good, h2, Bool.and_true, Bool.not_eq_true']
    cases hh : (landing t).1.isHole with
    | false => rfl
    | true => rw [landing_hole_rlevel hh] at h1; omega
  | case3 t hlt =>
    intro b h
    refine ⟨?_, rfl⟩
    simp only [rlevel, lvlNot, lvlPipe] at hlt ⊢; omega
  | case4 tok t hlt ih =>
    intro b h
    simp only [wp, Bool.and_eq_true] at h
    obtain ⟨h1, h2⟩ := ih false h.1.2
    refine ⟨h1, ?_⟩
    simp only [RCtx.good, h2, Bool.and_true, Bool.not_eq_true']
    cases hh : (landing t).1.isHole with
    | false => rfl
    | true => rw [landing_hole_rlevel hh] at h1; omega
  | case5 tok t hlt =>
    intro b h
    refine ⟨?_, rfl⟩
    simp only [rlevel, lvlMul, lvlPipe] at hlt ⊢; omega
  | case6 t hlt ih =>
    intro b h
    simp only [wp, Bool.and_eq_true] at h
    obtain ⟨h1, h2⟩ := ih false h.1.2
    refine ⟨h1, ?_⟩
    simp only [RCtx.good, h2, Bool.and_true, Bool.not_eq_true']
    cases hh : (landing t).1.isHole with
    | false => rfl
    | true => rw [landing_hole_rlevel hh] at h1; omega
  | case7 t hlt =>
    intro b h
    refine ⟨?_, rfl⟩
    simp only [rlevel, lvlMul, lvlPipe] at hlt ⊢; omega
  | case8 op l r hlt ih =>
    intro b h
    simp only [wp] at h
    split at h
    · cases h
    · simp only [Bool.and_eq_true] at h
      obtain ⟨h1, h2⟩ := ih false h.1.2
      refine ⟨h1, ?_⟩
      simp only [RCtx.good, h2, Bool.and_true, Bool.not_eq_true']
      cases hh : (landing r).1.isHole with
      | false => rfl
      | true => rw [landing_hole_rlevel hh] at h1; omega
  | case9 op l r hlt =>
    intro b h
    refine ⟨?_, rfl⟩
    simp only [wp] at h
    split at h
    · cases h
    · rename_i lvl hl
      have := (GrammarF0.binLevel_range hl).1
      simp only [rlevel, hl, Option.getD_some, lvlPipe] at hlt ⊢; omega
  | case10 t h1 h2 h3 h4 h5 =>
    intro b h
    refine ⟨?_, rfl⟩
    show lvlPipe ≤ rlevel t
    cases t with
    | letIn bs body => exact (h1 _ _ rfl).elim
    | not t => exact (h2 _ rfl).elim
    | neg tok t => exact (h3 _ _ rfl).elim
    | pos t => exact (h4 _ rfl).elim
    | bin op l r => exact (h5 _ _ _ rfl).elim
    | dotId l r =>
      simp only [wp, Bool.and_eq_true, decide_eq_true_eq] at h
      have := rlevel_dot_operand h.1.1.2 h.1.2 h.2
      simp only [rlevel, lvlDot, lvlPipe] at this ⊢; omega
    | _ => simp only [rlevel]; decide

/-- **the tree of `e1 | e2`, for an arbitrary well-formed `e1`**, given a decomposition `T1 = c.fill core` with the hole at
    the top or in a `let` body and a core that may be followed by `|`: `c.fill (core | T2)` is well formed, prints as
    `T1 | T2`, and evaluates like the node `c.node (pipe core T2)` -/
theorem rgraft_at {T1 T2 : PTree} (h1 : WellPrec T1) (h2 : WellPrec T2) {c : RCtx} {core : PTree}
    (hT : T1 = c.fill core) (hg : c.good = true) (hr : lvlPipe ≤ rlevel core) :
    WellPrec (c.fill (joinL core T2)) ∧
    Grammar.flatten (c.fill (joinL core T2)) = Grammar.flatten T1 ++ pipeTok :: Grammar.flatten T2 ∧
    ∀ root cur env, ieval root (erase (c.fill (joinL core T2))) cur env =
      ieval root (c.node (.pipe (erase core) (erase T2))) cur env := by
  subst hT
  obtain ⟨hcore, hfill⟩ := c.wp_fill hg (X := joinL core T2) h1
  have hj := joinL_ok hcore hr T2 h2
  refine ⟨hfill hj.wp, ?_, ?_⟩
  · simp only [Grammar.flatten, RCtx.flat_fill, hj.flat, List.append_assoc]
  · rw [RCtx.erase_fill]
    exact c.node_congr fun root cur env => by rw [hj.sem]; simp only [ieval]

/-- … in particular at the landing position of `T1`, which exists for every well-formed `T1` -/
theorem rgraft {T1 T2 : PTree} (h1 : WellPrec T1) (h2 : WellPrec T2) :
    WellPrec ((landing T1).1.fill (joinL (landing T1).2 T2)) ∧
    Grammar.flatten ((landing T1).1.fill (joinL (landing T1).2 T2)) =
      Grammar.flatten T1 ++ pipeTok :: Grammar.flatten T2 ∧
    ∀ root cur env, ieval root (erase ((landing T1).1.fill (joinL (landing T1).2 T2))) cur env =
      ieval root ((landing T1).1.node (.pipe (erase (landing T1).2) (erase T2))) cur env :=
  rgraft_at h1 h2 (landing_fill T1) (landing_ok T1 false h1).2 (landing_ok T1 false h1).1

/-- when `T2` is not itself a pipe, the node of `t | T2` is literally `pipe t T2` -/
theorem erase_joinL_of_not_pipe (t : PTree) {T2 : PTree} (h : ¬ IsPipe T2) :
    erase (joinL t T2) = .pipe (erase t) (erase T2) := by
  rw [joinL_of_not_pipe t h]; rfl


/-- a `C18BGraft.Ctx` as a right-edge context -/
def toR : Ctx → RCtx
  | .hole => .hole
  | .letIn bs c => .letIn bs (toR c)
  | .pipeLet op l bs c => .binR op l (.letIn bs (toR c))

/-- a `safe` right-edge context as a `C18BGraft.Ctx` -/
def ofR : RCtx → Ctx
  | .hole => .hole
  | .letIn bs c => .letIn bs (ofR c)
  | .binR op l (.letIn bs c) => .pipeLet op l bs (ofR c)
  | _ => .hole

/-- a tree that may be followed by `|` is its own landing core -/
theorem landing_of_rlevel {t : PTree} (h : lvlPipe ≤ rlevel t) : landing t = (.hole, t) := by
  cases t with
  | letIn bs body => simp only [rlevel, lvlLet, lvlPipe] at h; omega
  | not t =>
    have : ¬ rlevel t < lvlPipe := by simp only [rlevel, lvlPipe] at h ⊢; omega
    simp only [landing, this, if_false]
  | neg tok t =>
    have : ¬ rlevel t < lvlPipe := by simp only [rlevel, lvlPipe] at h ⊢; omega
    simp only [landing, this, if_false]
  | pos t =>
    have : ¬ rlevel t < lvlPipe := by simp only [rlevel, lvlPipe] at h ⊢; omega
    simp only [landing, this, if_false]
  | bin op l r =>
    have : ¬ rlevel r < lvlPipe := by simp only [rlevel, lvlPipe] at h ⊢; omega
    simp only [landing, this, if_false]
  | _ => rfl

/-- the landing position of a `C18BGraft.Ctx`-decomposition is that decomposition -/
theorem landing_ctx_fill (c : Ctx) {core : PTree} (h : lvlPipe ≤ rlevel core) :
    landing (c.fill core) = (toR c, core) := by
  induction c with
  | hole => exact landing_of_rlevel h
  | letIn bs c ih => simp only [Ctx.fill, landing, ih, toR]
  | pipeLet op l bs c ih =>
    have : rlevel (.letIn bs (c.fill core)) < lvlPipe := by simp only [rlevel]; decide
    simp only [Ctx.fill, landing, this, if_true, ih, toR]

/-- a `Ctx` whose operators are `|` is a `safe` right-edge context -/
theorem safe_toR (c : Ctx) (h : c.pipes) : (toR c).safe = true := by
  induction c with
  | hole => rfl
  | letIn bs c ih => exact ih h
  | pipeLet op l bs c ih =>
    simp only [toR, RCtx.safe, Bool.and_eq_true, beq_iff_eq]
    exact ⟨h.1, ih h.2⟩

/-- a `safe` right-edge context is a `Ctx` whose operators are `|`, with the same filling -/
theorem ofR_spec (c : RCtx) : c.safe = true → (ofR c).pipes ∧ ∀ t, (ofR c).fill t = c.fill t := by
  fun_induction RCtx.safe c with
  | case1 => intro _; exact ⟨trivial, fun _ => rfl⟩
  | case2 bs c ih =>
    intro h
    obtain ⟨h1, h2⟩ := ih h
    exact ⟨h1, fun t => by simp only [ofR, Ctx.fill, RCtx.fill, h2]⟩
  | case3 op l bs c ih =>
    intro h
    simp only [Bool.and_eq_true, beq_iff_eq] at h
    obtain ⟨h1, h2⟩ := ih h.2
    exact ⟨⟨h.1, h1⟩, fun t => by simp only [ofR, Ctx.fill, RCtx.fill, h2]⟩
  | case4 => intro h; cases h

/-- **`PipeSafe`, decidably**: `T` is `PipeSafe` iff its landing context consists of `let bs in □` frames and
    `l | let bs in □` double frames only, and the landing core may be followed by `|`.  No well-formedness needed
    (for well-formed `T` the second half always holds: `landing_ok`). -/
theorem pipeSafe_iff (T : PTree) :
    PipeSafe T ↔ ((landing T).1.safe = true ∧ lvlPipe ≤ rlevel (landing T).2) := by
  constructor
  · rintro ⟨c, core, rfl, hp, hr⟩
    rw [landing_ctx_fill c hr]
    exact ⟨safe_toR c hp, hr⟩
  · rintro ⟨hs, hr⟩
    obtain ⟨h1, h2⟩ := ofR_spec _ hs
    exact ⟨ofR (landing T).1, (landing T).2, by rw [h2]; exact landing_fill T, h1, hr⟩

/-- `PipeSafe` is decidable (by computing the landing position) -/
instance (T : PTree) : Decidable (PipeSafe T) := decidable_of_iff _ (pipeSafe_iff T).symm

/-- for a well-formed tree the second half of `pipeSafe_iff` is automatic -/
theorem pipeSafe_iff_safe {T : PTree} (hw : WellPrec T) : PipeSafe T ↔ (landing T).1.safe = true := by
  rw [pipeSafe_iff]
  exact ⟨fun h => h.1, fun h => ⟨h, (landing_ok T false hw).1⟩⟩


/-- for a well-formed tree, `safe` of the landing context just says that no `!`, sign or binary operator other than `|`
    is on the path (a well-formed right operand of `|` that ends in a `let` and is not one is under an operator) -/
theorem safe_eq_opFree (T : PTree) : ∀ b, wp b T = true → (landing T).1.safe = (landing T).1.opFree := by
  fun_induction landing T with
  | case1 bs body ih =>
    intro b h
    simp only [wp, Bool.and_eq_true] at h
    simp only [RCtx.safe, RCtx.opFree]
    exact ih false h.2
  | case2 t hlt ih => intro b h; rfl
  | case3 t hlt => intro b h; rfl
  | case4 tok t hlt ih => intro b h; rfl
  | case5 tok t hlt => intro b h; rfl
  | case6 t hlt ih => intro b h; rfl
  | case7 t hlt => intro b h; rfl
  | case8 op l r hlt ih =>
    intro b h
    simp only [wp] at h
    split at h
    · cases h
    · rename_i lvl hlv
      simp only [Bool.and_eq_true, decide_eq_true_eq] at h
      have ih' := ih false h.1.2
      cases r with
      | letIn bs body =>
        simp only [landing, RCtx.safe, RCtx.opFree] at ih' ⊢
        rw [ih']
      | not t =>
        have : rlevel t < lvlPipe := by simp only [rlevel, lvlPipe, lvlNot] at hlt ⊢; omega
        simp only [landing, this, if_true, RCtx.safe, RCtx.opFree, Bool.and_false]
      | neg tok t =>
        have : rlevel t < lvlPipe := by simp only [rlevel, lvlPipe, lvlMul] at hlt ⊢; omega
        simp only [landing, this, if_true, RCtx.safe, RCtx.opFree, Bool.and_false]
      | pos t =>
        have : rlevel t < lvlPipe := by simp only [rlevel, lvlPipe, lvlMul] at hlt ⊢; omega
        simp only [landing, this, if_true, RCtx.safe, RCtx.opFree, Bool.and_false]
      | bin op' l' r' =>
        have hw' := h.1.2
        simp only [wp] at hw'
        split at hw'
        · cases hw'
        · rename_i lvl' hlv'
          simp only [Bool.and_eq_true, Bool.not_eq_true'] at hw'
          have h2' := (GrammarF0.binLevel_range hlv').1
          have : rlevel r' < lvlPipe := by
            simp only [rlevel, hlv', Option.getD_some, lvlPipe] at hlt ⊢; omega
          simp only [landing, this, if_true, RCtx.safe, RCtx.opFree]
          by_cases hp : op.type = .pipe
          · have hp' : op'.type ≠ .pipe := by
              intro hp'
              rw [hp] at hlv; rw [hp'] at hlv'
              cases hlv; cases hlv'
              have := h.2
              simp only [llevel, hp', binLevel, Option.getD_some, lmin, hw'.1.1.1.1] at this
              simp only [Bool.false_eq_true, if_false] at this
              omega
            simp [hp']
          · simp [hp]
      | dotId l' r' =>
        exfalso
        have hw' := h.1.2
        simp only [wp, Bool.and_eq_true, decide_eq_true_eq] at hw'
        have := rlevel_dot_operand hw'.1.1.2 hw'.1.2 hw'.2
        simp only [rlevel, lvlDot, lvlPipe] at this hlt; omega
      | _ => exfalso; revert hlt; simp only [rlevel]; decide
  | case9 op l r hlt => intro b h; rfl
  | case10 t h1 h2 h3 h4 h5 => intro b h; rfl

/-- **`PipeSafe`, syntactically**: a well-formed tree is `PipeSafe` iff the path from its top to the place where a following
    `|` is attached goes through `let` bodies and right operands of `|` only — no `!`, no sign, no other binary operator -/
theorem pipeSafe_iff_opFree {T : PTree} (hw : WellPrec T) : PipeSafe T ↔ (landing T).1.opFree = true := by
  rw [pipeSafe_iff_safe hw, safe_eq_opFree T false hw]

/-! ## Non-vacuity -/

section Examples
open Grammar.Ex

/-- `let $x = a in b`, `!let $x = a in b`, `d | let $x = a in b`, `a + let $x = a in b`, `a | !let $x = a in b` -/
def exBs : List (Token × PTree) := [(⟨.variable, bs "$x"⟩, idt "a")]
/-- `let $x = a in b` -/
def exLetT : PTree := .letIn exBs (idt "b")
/-- `!let $x = a in b` -/
def exNotLet : PTree := .not exLetT
/-- `d | let $x = a in b` -/
def exPipeLetT : PTree := .bin (op .pipe "|") (idt "d") exLetT
/-- `a + let $x = a in b` -/
def exAddLet : PTree := .bin (op .add "+") (idt "a") exLetT
/-- `a | !let $x = a in b` -/
def exPipeNotLet : PTree := .bin (op .pipe "|") (idt "a") exNotLet

/-- the landing positions: the body `b` of the `let`, in each case -/
example : landing exLetT = (.letIn exBs .hole, idt "b") := rfl
example : landing exNotLet = (.not (.letIn exBs .hole), idt "b") := rfl
example : landing exPipeLetT = (.binR (op .pipe "|") (idt "d") (.letIn exBs .hole), idt "b") := rfl
example : landing exAddLet = (.binR (op .add "+") (idt "a") (.letIn exBs .hole), idt "b") := rfl
example : landing (idt "a") = (.hole, idt "a") := landing_of_rlevel (by decide)
example : landing (.not (idt "a")) = (.hole, .not (idt "a")) := rfl
example : exNotLet = (landing exNotLet).1.fill (landing exNotLet).2 := landing_fill _
example : lvlPipe ≤ rlevel (landing exNotLet).2 ∧ (landing exNotLet).1.good = true := landing_ok _ false (by decide)
example : (landing exNotLet).2 = idt "b" := rfl
example : (landing (idt "a")).2 = idt "a" := landing_hole_rlevel rfl
/-- `!□` alone is not `good`: a `|` is never attached directly under `!` -/
example : (RCtx.not .hole).good = false := rfl

/-- contexts: filling, printing, nodes -/
example : (RCtx.not (.letIn exBs .hole)).fill (idt "c") = .not (.letIn exBs (idt "c")) := rfl
example : erase ((RCtx.not (.letIn exBs .hole)).fill (idt "c")) = (RCtx.not (.letIn exBs .hole)).node (.field (bs "c")) :=
  RCtx.erase_fill _ _
example : (RCtx.not (.letIn exBs .hole)).node (.field (bs "c")) =
    .not (.defineVariables [(bs "$x", .field (bs "a"))] (.field (bs "c"))) := rfl
example : Grammar.flat false ((RCtx.not (.letIn exBs .hole)).fill (idt "c")) =
    (RCtx.not (.letIn exBs .hole)).pre ++ [⟨.unquotedIdentifier, bs "c"⟩] := RCtx.flat_fill _ _
example : llevel ((RCtx.not (.letIn exBs .hole)).fill (idt "c")) = llevel ((RCtx.not (.letIn exBs .hole)).fill (idt "b")) :=
  RCtx.llevel_fill _ rfl _ _
example : wp false ((RCtx.not (.letIn exBs .hole)).fill (.bin (op .pipe "|") (idt "b") (idt "c"))) = true :=
  (RCtx.wp_fill (.not (.letIn exBs .hole)) rfl (t := idt "b") (by decide)).2 (by decide)
example : ∀ root cur env, ieval root ((RCtx.not .hole).node (.pipe .current (.field (bs "c")))) cur env =
    ieval root ((RCtx.not .hole).node (.field (bs "c"))) cur env :=
  RCtx.node_congr _ fun _ _ _ => rfl
example : lvlPipe ≤ rlevel (.index (idt "b") (int "0")) :=
  rlevel_dot_operand (r := .index (idt "b") (int "0")) (by decide) (by decide) (by decide)

/-- the tree of `!let $x = a in b` followed by `| c`: well formed, prints as the concatenation, and its node is
    `!(let $x = a in (b | c))` -/
example : WellPrec (.not (.letIn exBs (.bin pipeTok (idt "b") (idt "c")))) ∧
    Grammar.flatten (.not (.letIn exBs (.bin pipeTok (idt "b") (idt "c")))) =
      Grammar.flatten exNotLet ++ pipeTok :: Grammar.flatten (idt "c") :=
  let h := rgraft (T1 := exNotLet) (T2 := idt "c") (by decide) (by decide)
  ⟨h.1, h.2.1⟩
example : WellPrec (.not (.letIn exBs (.bin pipeTok (idt "b") (idt "c")))) :=
  (rgraft_at (T1 := exNotLet) (T2 := idt "c") (by decide) (by decide) (c := .not (.letIn exBs .hole)) (core := idt "b")
    rfl rfl (by decide)).1
example : erase (joinL (idt "b") (idt "c")) = .pipe (.field (bs "b")) (.field (bs "c")) :=
  erase_joinL_of_not_pipe _ (by rintro ⟨_, _, _, h, _⟩; cases h)

/-- `PipeSafe`, decided -/
example : PipeSafe exLetT := by decide
example : PipeSafe exPipeLetT := by decide
example : ¬ PipeSafe exNotLet := by decide
example : ¬ PipeSafe exAddLet := by decide
example : ¬ PipeSafe exPipeNotLet := by decide
example : (landing exPipeLetT).1.safe = true ∧ lvlPipe ≤ rlevel (landing exPipeLetT).2 := (pipeSafe_iff exPipeLetT).1 (by decide)
example : (landing exPipeLetT).1.safe = true := (pipeSafe_iff_safe (by decide)).1 (by decide)
example : (landing exAddLet).1.opFree = false := rfl
example : (landing exPipeNotLet).1.safe = (landing exPipeNotLet).1.opFree := safe_eq_opFree _ false (by decide)
example : ¬ PipeSafe exPipeNotLet := fun h => by
  have := (pipeSafe_iff_opFree (T := exPipeNotLet) (by decide)).1 h
  cases this
/-- `Ctx` ⟷ `RCtx` -/
example : toR (.pipeLet (op .pipe "|") (idt "d") exBs .hole) = .binR (op .pipe "|") (idt "d") (.letIn exBs .hole) := rfl
example : ofR (.binR (op .pipe "|") (idt "d") (.letIn exBs .hole)) = .pipeLet (op .pipe "|") (idt "d") exBs .hole := rfl
example : (toR (.pipeLet (op .pipe "|") (idt "d") exBs .hole)).safe = true := safe_toR _ ⟨rfl, trivial⟩
example : (ofR (.letIn exBs .hole)).pipes := (ofR_spec (.letIn exBs .hole) rfl).1
example : landing (Ctx.fill (.letIn exBs .hole) (idt "b")) = (toR (.letIn exBs .hole), idt "b") :=
  landing_ctx_fill _ (by decide)

end Examples

end Jmes.C18CP
