/-
  Helper for property C14, fourth round: the unary induction over expressions for an ARBITRARY accounting
  (`Grading`, `Jmes/Proofs/C14EGrade.lean`).

   * `le_grade`: the grade only grows along an expression.
   * `seval_fbG`: if every float of the inputs is of grade `g` and every arithmetic operator of `t` meets its operands
     within budget (`budget Γ t g`), every float of the result is of grade `grade Γ t g` — and so is every intermediate
     value (the statement is the invariant of the induction).

  The template is `seval_fb` of `Jmes/Proofs/C14CLemmasEval.lean` (the fixed accounting `k · 2^d`).
-/
import Jmes.Proofs.C14EGrade
namespace Jmes
namespace C14E
open C14 C14B C14C

variable {G : Type}

/-! ## 1. the grade is inflationary -/

mutual
theorem le_grade (Γ : Grading G) : (t : Tree) → (g : G) → Γ.le g (grade Γ t g)
  | .lit _, g | .current, g | .root, g | .field _, g | .var _, g | .index _, g | .slice _ _, g
  | .sliceStep _ _ _, g => by simp only [grade]; exact Γ.le_refl g
  | .binop op l r, g => by
    simp only [grade]
    split
    · exact Γ.le_refl g
    · exact Γ.le_trans (le_grade Γ l g) (Γ.le_opG_left _ _ _)
  | .sub l r, g | .proj l r, g | .sliceProj l r, g | .flatProj l r, g | .valueProj l r, g
  | .groupBy l r, g | .maxBy l r, g | .minBy l r, g | .sortBy l r, g => by
    simp only [grade]; exact Γ.le_trans (le_grade Γ l g) (le_grade Γ r _)
  | .map l r, g => by simp only [grade]; exact Γ.le_trans (le_grade Γ r g) (le_grade Γ l _)
  | .and l r, g | .or l r, g => by
    simp only [grade]; exact Γ.le_trans (le_grade Γ l g) (Γ.le_join_left _ _)
  | .not _, g => by simp only [grade]; exact Γ.le_refl g
  | .neg c, g | .pos c, g | .prune c, g => by simp only [grade]; exact le_grade Γ c g
  | .filterProj l _ r, g => by simp only [grade]; exact Γ.le_trans (le_grade Γ l g) (le_grade Γ r _)
  | .call _ args, g | .multiList _ args, g | .merge args, g | .notNull args, g | .zip args, g => by
    simp only [grade]; exact le_gradeL Γ args g
  | .multiHash _ kvs, g => by simp only [grade]; exact le_gradeF Γ kvs g
  | .letIn bs body, g => by simp only [grade]; exact Γ.le_trans (le_gradeF Γ bs g) (le_grade Γ body _)
theorem le_gradeL (Γ : Grading G) : (ts : List Tree) → (g : G) → Γ.le g (gradeL Γ ts g)
  | [], g => by simp only [gradeL]; exact Γ.le_refl g
  | t :: ts, g => by simp only [gradeL]; exact Γ.le_trans (le_grade Γ t g) (Γ.le_join_left _ _)
theorem le_gradeF (Γ : Grading G) : (fs : List (Bytes × Tree)) → (g : G) → Γ.le g (gradeF Γ fs g)
  | [], g => by simp only [gradeF]; exact Γ.le_refl g
  | (_, t) :: rest, g => by simp only [gradeF]; exact Γ.le_trans (le_grade Γ t g) (Γ.le_join_left _ _)
end

/-- the grade of each element is below the grade of the list -/
theorem grade_le_gradeL (Γ : Grading G) : ∀ (ts : List Tree) (g : G) (t : Tree), t ∈ ts →
    Γ.le (grade Γ t g) (gradeL Γ ts g)
  | [], _, _, h => by cases h
  | t0 :: ts, g, t, h => by
    simp only [gradeL]
    rcases List.mem_cons.mp h with rfl | h
    · exact Γ.le_join_left _ _
    · exact Γ.le_trans (grade_le_gradeL Γ ts g t h) (Γ.le_join_right _ _)

theorem grade_le_gradeF (Γ : Grading G) : ∀ (fs : List (Bytes × Tree)) (g : G) (k : Bytes) (t : Tree), (k, t) ∈ fs →
    Γ.le (grade Γ t g) (gradeF Γ fs g)
  | [], _, _, _, h => by cases h
  | (k0, t0) :: fs, g, k, t, h => by
    simp only [gradeF]
    rcases List.mem_cons.mp h with e | h
    · cases e; exact Γ.le_join_left _ _
    · exact Γ.le_trans (grade_le_gradeF Γ fs g k t h) (Γ.le_join_right _ _)

/-! ## 2. lifting along `le` -/

theorem upG (Γ : Grading G) {a b : G} (h : Γ.le a b) {v : Val} (hv : AllF (Γ.P a) v) : AllF (Γ.P b) v :=
  AllF.mono (fun _ hf => Γ.mono h hf) v hv

theorem envUpG (Γ : Grading G) {a b : G} (h : Γ.le a b) {env : Env} (he : EnvAF (Γ.P a) env) : EnvAF (Γ.P b) env :=
  fun k x hm => upG Γ h (he k x hm)

/-! ## 3. the unary invariant: every intermediate value is of the computed grade -/

mutual
theorem seval_fbG (Γ : Grading G) (B : G) (root : Val) (hr : AllF (Γ.P B) root) : (t : Tree) → (cur : Val) →
    (env : Env) → (g : G) → FragE t → Γ.le B g → budget Γ t g = true → AllF (Γ.P g) cur → EnvAF (Γ.P g) env →
    ∀ w, seval root t cur env = .ok w → AllF (Γ.P (grade Γ t g)) w
  | .lit v, cur, env, g, hl, hB, hb, hc, he, w, hw => by
    simp only [Tree.Ops] at hl
    simp only [seval, Res.ok.injEq] at hw; subst hw
    exact allF_of_noFloat _ hl.2
  | .current, cur, env, g, hl, hB, hb, hc, he, w, hw => by
    simp only [seval, Res.ok.injEq] at hw; subst hw
    simp only [grade]; exact hc
  | .root, cur, env, g, hl, hB, hb, hc, he, w, hw => by
    simp only [seval, Res.ok.injEq] at hw; subst hw
    simp only [grade]; exact upG Γ hB hr
  | .field x, cur, env, g, hl, hB, hb, hc, he, w, hw => by
    simp only [seval, Res.ok.injEq] at hw; subst hw
    simp only [grade]; exact field_af x hc
  | .var x, cur, env, g, hl, hB, hb, hc, he, w, hw => by
    simp only [seval] at hw
    simp only [grade]
    split at hw
    · next v hv => simp only [Res.ok.injEq] at hw; subst hw; exact he x _ (objLookup_mem hv)
    · simp at hw
  | .index i, cur, env, g, hl, hB, hb, hc, he, w, hw => by
    simp only [seval] at hw; simp only [grade]; exact index_af hc hw
  | .slice a b, cur, env, g, hl, hB, hb, hc, he, w, hw => by
    simp only [seval] at hw; simp only [grade]; exact slice_af hc hw
  | .sliceStep a b s, cur, env, g, hl, hB, hb, hc, he, w, hw => by
    simp only [seval] at hw; simp only [grade]; exact sliceStep_af hc hw
  | .sub l r, cur, env, g, hl, hB, hb, hc, he, w, hw => by
    simp only [Tree.Ops] at hl
    simp only [budget, Bool.and_eq_true] at hb
    simp only [grade]
    simp only [seval, Res.bind_eq_ok] at hw
    obtain ⟨a, ha, hw⟩ := hw
    have h1 := seval_fbG Γ B root hr l cur env g hl.1 hB hb.1 hc he a ha
    exact seval_fbG Γ B root hr r a env (grade Γ l g) hl.2 (Γ.le_trans hB (le_grade Γ l g)) hb.2 h1
      (envUpG Γ (le_grade Γ l g) he) w hw
  | .binop op l r, cur, env, g, hl, hB, hb, hc, he, w, hw => by
    simp only [Tree.Ops] at hl
    simp only [budget, Bool.and_eq_true, Bool.or_eq_true] at hb
    simp only [seval, Res.bind_eq_ok] at hw
    obtain ⟨a, ha, b, hb', hw⟩ := hw
    by_cases hcmp : op.isCmp = true
    · exact applyBinOp_cmp_af hcmp hw
    · simp only [grade]
      rw [if_neg hcmp]
      have h1 := seval_fbG Γ B root hr l cur env g hl.2.1 hB hb.1.1 hc he a ha
      have h2 := seval_fbG Γ B root hr r cur env g hl.2.2 hB hb.1.2 hc he b hb'
      exact Γ.op_fb ((Bool.not_eq_true _).mp hcmp) (hb.2.resolve_left hcmp) h1 h2 hw
  | .and l r, cur, env, g, hl, hB, hb, hc, he, w, hw => by
    simp only [Tree.Ops] at hl
    simp only [budget, Bool.and_eq_true] at hb
    simp only [grade]
    simp only [seval, Res.bind_eq_ok] at hw
    obtain ⟨a, ha, hw⟩ := hw
    split at hw
    · simp only [Res.pure_eq, Res.ok.injEq] at hw; subst hw
      exact upG Γ (Γ.le_join_left _ _) (seval_fbG Γ B root hr l cur env g hl.1 hB hb.1 hc he a ha)
    · exact upG Γ (Γ.le_join_right _ _) (seval_fbG Γ B root hr r cur env g hl.2 hB hb.2 hc he w hw)
  | .or l r, cur, env, g, hl, hB, hb, hc, he, w, hw => by
    simp only [Tree.Ops] at hl
    simp only [budget, Bool.and_eq_true] at hb
    simp only [grade]
    simp only [seval, Res.bind_eq_ok] at hw
    obtain ⟨a, ha, hw⟩ := hw
    split at hw
    · simp only [Res.pure_eq, Res.ok.injEq] at hw; subst hw
      exact upG Γ (Γ.le_join_left _ _) (seval_fbG Γ B root hr l cur env g hl.1 hB hb.1 hc he a ha)
    · exact upG Γ (Γ.le_join_right _ _) (seval_fbG Γ B root hr r cur env g hl.2 hB hb.2 hc he w hw)
  | .not c, cur, env, g, hl, hB, hb, hc, he, w, hw => by
    simp only [seval, Res.bind_eq_ok, Res.pure_eq, Res.ok.injEq] at hw
    obtain ⟨a, _, rfl⟩ := hw; simp
  | .neg c, cur, env, g, hl, hB, hb, hc, he, w, hw => by
    simp only [Tree.Ops] at hl
    simp only [budget] at hb
    simp only [grade]
    simp only [seval, Res.bind_eq_ok, Res.pure_eq, Res.ok.injEq] at hw
    obtain ⟨a, ha, rfl⟩ := hw
    exact negateVal_af (Γ.unclosed _).neg (seval_fbG Γ B root hr c cur env g hl.2 hB hb hc he a ha)
  | .pos c, cur, env, g, hl, hB, hb, hc, he, w, hw => by
    simp only [Tree.Ops] at hl
    simp only [budget] at hb
    simp only [grade]
    simp only [seval, Res.bind_eq_ok, Res.pure_eq, Res.ok.injEq] at hw
    obtain ⟨a, ha, rfl⟩ := hw
    split
    · exact seval_fbG Γ B root hr c cur env g hl hB hb hc he a ha
    · simp
  | .call f args, cur, env, g, hl, hB, hb, hc, he, w, hw => by
    simp only [Tree.Ops] at hl
    simp only [budget] at hb
    simp only [grade]
    simp only [seval, Res.bind_eq_ok] at hw
    obtain ⟨vs, hvs, hw⟩ := hw
    exact applyFn_af (Γ.unclosed _) (sevalList_fbG Γ B root hr args cur env g hl.2 hB hb hc he vs hvs) hw
  | .prune l, cur, env, g, hl, hB, hb, hc, he, w, hw => by
    simp only [Tree.Ops] at hl
    simp only [budget] at hb
    simp only [grade]
    simp only [seval, Res.bind_eq_ok, Res.pure_eq, Res.ok.injEq] at hw
    obtain ⟨a, ha, rfl⟩ := hw
    exact pruneArray_af (seval_fbG Γ B root hr l cur env g hl hB hb hc he a ha)
  | .proj l r, cur, env, g, hl, hB, hb, hc, he, w, hw => by
    simp only [Tree.Ops] at hl
    simp only [budget, Bool.and_eq_true] at hb
    simp only [grade]
    simp only [seval, Res.bind_eq_ok] at hw
    obtain ⟨a, ha, hw⟩ := hw
    have h1 := seval_fbG Γ B root hr l cur env g hl.1 hB hb.1 hc he a ha
    exact projectArray_af (P' := Γ.P (grade Γ r (grade Γ l g)))
      (fun x hx v hv => seval_fbG Γ B root hr r x env (grade Γ l g) hl.2 (Γ.le_trans hB (le_grade Γ l g))
        hb.2 hx (envUpG Γ (le_grade Γ l g) he) v hv) h1 hw
  | .sliceProj l r, cur, env, g, hl, hB, hb, hc, he, w, hw => by
    simp only [Tree.Ops] at hl
    simp only [budget, Bool.and_eq_true] at hb
    simp only [grade]
    simp only [seval, Res.bind_eq_ok] at hw
    obtain ⟨a, ha, hw⟩ := hw
    have h1 := seval_fbG Γ B root hr l cur env g hl.1 hB hb.1 hc he a ha
    have hf : C14C.PF (Γ.P (grade Γ l g)) (Γ.P (grade Γ r (grade Γ l g))) (fun x => seval root r x env) :=
      fun x hx v hv => seval_fbG Γ B root hr r x env (grade Γ l g) hl.2 (Γ.le_trans hB (le_grade Γ l g))
        hb.2 hx (envUpG Γ (le_grade Γ l g) he) v hv
    split at hw
    · exact hf _ h1 w hw
    · exact projectArray_af hf h1 hw
  | .flatProj l r, cur, env, g, hl, hB, hb, hc, he, w, hw => by
    simp only [Tree.Ops] at hl
    simp only [budget, Bool.and_eq_true] at hb
    simp only [grade]
    simp only [seval, Res.bind_eq_ok] at hw
    obtain ⟨a, ha, hw⟩ := hw
    have h1 := seval_fbG Γ B root hr l cur env g hl.1 hB hb.1 hc he a ha
    exact flattenAndProjectArray_af (P' := Γ.P (grade Γ r (grade Γ l g)))
      (fun x hx v hv => seval_fbG Γ B root hr r x env (grade Γ l g) hl.2 (Γ.le_trans hB (le_grade Γ l g))
        hb.2 hx (envUpG Γ (le_grade Γ l g) he) v hv) h1 hw
  | .filterProj l c r, cur, env, g, hl, hB, hb, hc, he, w, hw => by
    simp only [Tree.Ops] at hl
    simp only [budget, Bool.and_eq_true] at hb
    simp only [grade]
    simp only [seval, Res.bind_eq_ok] at hw
    obtain ⟨a, ha, hw⟩ := hw
    have h1 := seval_fbG Γ B root hr l cur env g hl.1 hB hb.1.1 hc he a ha
    exact filterAndProjectArray_af (c := fun v => seval root c v env) (P' := Γ.P (grade Γ r (grade Γ l g)))
      (fun x hx v hv => seval_fbG Γ B root hr r x env (grade Γ l g) hl.2.2 (Γ.le_trans hB (le_grade Γ l g))
        hb.2 hx (envUpG Γ (le_grade Γ l g) he) v hv) h1 hw
  | .valueProj l r, cur, env, g, hl, hB, hb, hc, he, w, hw => by
    simp only [Tree.Ops] at hl
    simp only [budget, Bool.and_eq_true] at hb
    simp only [grade]
    simp only [seval, Res.bind_eq_ok] at hw
    obtain ⟨a, ha, hw⟩ := hw
    have h1 := seval_fbG Γ B root hr l cur env g hl.1 hB hb.1 hc he a ha
    exact projectObject_af (P' := Γ.P (grade Γ r (grade Γ l g)))
      (fun x hx v hv => seval_fbG Γ B root hr r x env (grade Γ l g) hl.2 (Γ.le_trans hB (le_grade Γ l g))
        hb.2 hx (envUpG Γ (le_grade Γ l g) he) v hv) h1 hw
  | .multiList chk es, cur, env, g, hl, hB, hb, hc, he, w, hw => by
    simp only [Tree.Ops] at hl
    simp only [budget] at hb
    simp only [grade]
    simp only [seval] at hw
    split at hw
    · simp only [Res.ok.injEq] at hw; subst hw; simp
    · simp only [Res.bind_eq_ok, Res.pure_eq, Res.ok.injEq] at hw
      obtain ⟨vs, hvs, rfl⟩ := hw
      exact allF_arr.mpr (sevalList_fbG Γ B root hr es cur env g hl hB hb hc he vs hvs)
  | .multiHash chk kvs, cur, env, g, hl, hB, hb, hc, he, w, hw => by
    simp only [Tree.Ops] at hl
    simp only [budget] at hb
    simp only [grade]
    simp only [seval] at hw
    split at hw
    · simp only [Res.ok.injEq] at hw; subst hw; simp
    · simp only [Res.bind_eq_ok, Res.pure_eq, Res.ok.injEq] at hw
      obtain ⟨fs, hfs, rfl⟩ := hw
      exact allF_obj.mpr (sevalFields_fbG Γ B root hr kvs cur env g hl hB hb hc he fs hfs)
  | .letIn bs body, cur, env, g, hl, hB, hb, hc, he, w, hw => by
    simp only [Tree.Ops] at hl
    simp only [budget, Bool.and_eq_true] at hb
    simp only [grade]
    simp only [seval, Res.bind_eq_ok] at hw
    obtain ⟨vs, hvs, hw⟩ := hw
    have hvs' := sevalFields_fbG Γ B root hr bs cur env g hl.1 hB hb.1 hc he vs hvs
    have hle := le_gradeF Γ bs g
    exact seval_fbG Γ B root hr body cur (vs ++ env) (gradeF Γ bs g) hl.2 (Γ.le_trans hB hle) hb.2
      (upG Γ hle hc) (by
        intro k' x hm
        rcases List.mem_append.mp hm with hm | hm
        · exact hvs' k' x hm
        · exact upG Γ hle (he k' x hm)) w hw
  | .groupBy a e, cur, env, g, hl, hB, hb, hc, he, w, hw => by
    simp only [Tree.Ops] at hl
    simp only [budget, Bool.and_eq_true] at hb
    simp only [grade]
    simp only [seval, Res.bind_eq_ok] at hw
    obtain ⟨v, hv, hw⟩ := hw
    exact upG Γ (le_grade Γ e _) (groupBy_af (seval_fbG Γ B root hr a cur env g hl.1 hB hb.1 hc he v hv) hw)
  | .map e a, cur, env, g, hl, hB, hb, hc, he, w, hw => by
    simp only [Tree.Ops] at hl
    simp only [budget, Bool.and_eq_true] at hb
    simp only [grade]
    simp only [seval, Res.bind_eq_ok] at hw
    obtain ⟨v, hv, hw⟩ := hw
    have h1 := seval_fbG Γ B root hr a cur env g hl.2 hB hb.1 hc he v hv
    exact mapArray_af (P' := Γ.P (grade Γ e (grade Γ a g)))
      (fun x hx v hv => seval_fbG Γ B root hr e x env (grade Γ a g) hl.1 (Γ.le_trans hB (le_grade Γ a g))
        hb.2 hx (envUpG Γ (le_grade Γ a g) he) v hv) h1 hw
  | .maxBy a e, cur, env, g, hl, hB, hb, hc, he, w, hw => by
    simp only [Tree.Ops] at hl
    simp only [budget, Bool.and_eq_true] at hb
    simp only [grade]
    simp only [seval, Res.bind_eq_ok] at hw
    obtain ⟨v, hv, hw⟩ := hw
    exact upG Γ (le_grade Γ e _) (arrayPickBy_af (seval_fbG Γ B root hr a cur env g hl.1 hB hb.1 hc he v hv) hw)
  | .minBy a e, cur, env, g, hl, hB, hb, hc, he, w, hw => by
    simp only [Tree.Ops] at hl
    simp only [budget, Bool.and_eq_true] at hb
    simp only [grade]
    simp only [seval, Res.bind_eq_ok] at hw
    obtain ⟨v, hv, hw⟩ := hw
    exact upG Γ (le_grade Γ e _) (arrayPickBy_af (seval_fbG Γ B root hr a cur env g hl.1 hB hb.1 hc he v hv) hw)
  | .sortBy a e, cur, env, g, hl, hB, hb, hc, he, w, hw => by
    simp only [Tree.Ops] at hl
    simp only [budget, Bool.and_eq_true] at hb
    simp only [grade]
    simp only [seval, Res.bind_eq_ok] at hw
    obtain ⟨v, hv, hw⟩ := hw
    exact upG Γ (le_grade Γ e _) (sortArrayBy_af (seval_fbG Γ B root hr a cur env g hl.1 hB hb.1 hc he v hv) hw)
  | .merge args, cur, env, g, hl, hB, hb, hc, he, w, hw => by
    simp only [Tree.Ops] at hl
    simp only [budget] at hb
    simp only [grade]
    simp only [seval, Res.bind_eq_ok, Res.pure_eq, Res.ok.injEq] at hw
    obtain ⟨kvs, hk, rfl⟩ := hw
    exact allF_obj.mpr (sevalMerge_fbG Γ B root hr args cur env [] g (gradeL Γ args g) hl hB (Γ.le_refl _) hb hc he
      (by simp) kvs hk)
  | .notNull args, cur, env, g, hl, hB, hb, hc, he, w, hw => by
    simp only [Tree.Ops] at hl
    simp only [budget] at hb
    simp only [grade]
    simp only [seval] at hw
    exact sevalNotNull_fbG Γ B root hr args cur env g hl hB hb hc he w hw
  | .zip args, cur, env, g, hl, hB, hb, hc, he, w, hw => by
    simp only [Tree.Ops] at hl
    simp only [budget] at hb
    simp only [grade]
    simp only [seval, Res.bind_eq_ok] at hw
    obtain ⟨vs, hvs, cols, hcols, hw⟩ := hw
    have hcn := zipArgs_af (sevalZip_fbG Γ B root hr args cur env g hl hB hb hc he vs hvs) hcols
    split at hw
    · simp only [Res.pure_eq, Res.ok.injEq] at hw; subst hw; simp [allF_arr]
    · simp only [Res.pure_eq, Res.ok.injEq] at hw; subst hw
      exact allF_arr.mpr (zipRows_af _ hcn)
theorem sevalList_fbG (Γ : Grading G) (B : G) (root : Val) (hr : AllF (Γ.P B) root) : (ts : List Tree) →
    (cur : Val) → (env : Env) → (g : G) → FragEL ts → Γ.le B g → budgetL Γ ts g = true → AllF (Γ.P g) cur →
    EnvAF (Γ.P g) env → ∀ vs, sevalList root ts cur env = .ok vs → ∀ v ∈ vs, AllF (Γ.P (gradeL Γ ts g)) v
  | [], cur, env, g, hl, hB, hb, hc, he, vs, hw => by
    simp only [sevalList, Res.ok.injEq] at hw; subst hw; simp
  | t :: ts, cur, env, g, hl, hB, hb, hc, he, vs, hw => by
    simp only [Tree.OpsL] at hl
    simp only [budgetL, Bool.and_eq_true] at hb
    simp only [gradeL]
    simp only [sevalList, Res.bind_eq_ok, Res.pure_eq, Res.ok.injEq] at hw
    obtain ⟨v, hv, rest, hrest, rfl⟩ := hw
    intro y hy
    rcases List.mem_cons.mp hy with rfl | hy
    · exact upG Γ (Γ.le_join_left _ _) (seval_fbG Γ B root hr t cur env g hl.1 hB hb.1 hc he _ hv)
    · exact upG Γ (Γ.le_join_right _ _) (sevalList_fbG Γ B root hr ts cur env g hl.2 hB hb.2 hc he rest hrest y hy)
theorem sevalFields_fbG (Γ : Grading G) (B : G) (root : Val) (hr : AllF (Γ.P B) root) :
    (fs : List (Bytes × Tree)) → (cur : Val) → (env : Env) → (g : G) → FragEF fs → Γ.le B g →
    budgetF Γ fs g = true → AllF (Γ.P g) cur → EnvAF (Γ.P g) env →
    ∀ kvs, sevalFields root fs cur env = .ok kvs → ∀ k' x, (k', x) ∈ kvs → AllF (Γ.P (gradeF Γ fs g)) x
  | [], cur, env, g, hl, hB, hb, hc, he, kvs, hw => by
    simp only [sevalFields, Res.ok.injEq] at hw; subst hw; simp
  | (k0, t) :: rest, cur, env, g, hl, hB, hb, hc, he, kvs, hw => by
    simp only [Tree.OpsF] at hl
    simp only [budgetF, Bool.and_eq_true] at hb
    simp only [gradeF]
    simp only [sevalFields] at hw
    exact combineUnordered_af
      (fun kvs' h' k' x hm => upG Γ (Γ.le_join_right _ _)
        (sevalFields_fbG Γ B root hr rest cur env g hl.2 hB hb.2 hc he kvs' h' k' x hm))
      (fun v hv => upG Γ (Γ.le_join_left _ _) (seval_fbG Γ B root hr t cur env g hl.1 hB hb.1 hc he v hv)) hw
theorem sevalMerge_fbG (Γ : Grading G) (B : G) (root : Val) (hr : AllF (Γ.P B) root) : (ts : List Tree) →
    (cur : Val) → (env : Env) → (acc : List (Bytes × Val)) → (g gd : G) → FragEL ts → Γ.le B g →
    Γ.le (gradeL Γ ts g) gd → budgetL Γ ts g = true → AllF (Γ.P g) cur → EnvAF (Γ.P g) env →
    (∀ k' x, (k', x) ∈ acc → AllF (Γ.P gd) x) →
    ∀ kvs, sevalMerge root ts cur env acc = .ok kvs → ∀ k' x, (k', x) ∈ kvs → AllF (Γ.P gd) x
  | [], cur, env, acc, g, gd, hl, hB, hd, hb, hc, he, hacc, kvs, hw => by
    simp only [sevalMerge, Res.ok.injEq] at hw; subst hw; exact hacc
  | t :: ts, cur, env, acc, g, gd, hl, hB, hd, hb, hc, he, hacc, kvs, hw => by
    simp only [Tree.OpsL] at hl
    simp only [budgetL, Bool.and_eq_true] at hb
    simp only [gradeL] at hd
    simp only [sevalMerge, Res.bind_eq_ok] at hw
    obtain ⟨v, hv, hw⟩ := hw
    have h1 : Γ.le (grade Γ t g) gd := Γ.le_trans (Γ.le_join_left _ _) hd
    have h2 : Γ.le (gradeL Γ ts g) gd := Γ.le_trans (Γ.le_join_right _ _) hd
    have hvn := upG Γ h1 (seval_fbG Γ B root hr t cur env g hl.1 hB hb.1 hc he v hv)
    split at hw
    · exact sevalMerge_fbG Γ B root hr ts cur env _ g gd hl.2 hB h2 hb.2 hc he
        (foldl_objInsert_af (allF_obj.mp hvn) hacc) kvs hw
    · simp [errType] at hw
theorem sevalNotNull_fbG (Γ : Grading G) (B : G) (root : Val) (hr : AllF (Γ.P B) root) : (ts : List Tree) →
    (cur : Val) → (env : Env) → (g : G) → FragEL ts → Γ.le B g → budgetL Γ ts g = true → AllF (Γ.P g) cur →
    EnvAF (Γ.P g) env → ∀ w, sevalNotNull root ts cur env = .ok w → AllF (Γ.P (gradeL Γ ts g)) w
  | [], cur, env, g, hl, hB, hb, hc, he, w, hw => by
    simp only [sevalNotNull, Res.ok.injEq] at hw; subst hw; simp
  | t :: ts, cur, env, g, hl, hB, hb, hc, he, w, hw => by
    simp only [Tree.OpsL] at hl
    simp only [budgetL, Bool.and_eq_true] at hb
    simp only [gradeL]
    simp only [sevalNotNull, Res.bind_eq_ok] at hw
    obtain ⟨v, hv, hw⟩ := hw
    split at hw
    · exact upG Γ (Γ.le_join_right _ _) (sevalNotNull_fbG Γ B root hr ts cur env g hl.2 hB hb.2 hc he w hw)
    · simp only [Res.pure_eq, Res.ok.injEq] at hw; subst hw
      exact upG Γ (Γ.le_join_left _ _) (seval_fbG Γ B root hr t cur env g hl.1 hB hb.1 hc he _ hv)
theorem sevalZip_fbG (Γ : Grading G) (B : G) (root : Val) (hr : AllF (Γ.P B) root) : (ts : List Tree) →
    (cur : Val) → (env : Env) → (g : G) → FragEL ts → Γ.le B g → budgetL Γ ts g = true → AllF (Γ.P g) cur →
    EnvAF (Γ.P g) env → ∀ vs, sevalZip root ts cur env = .ok vs → ∀ v ∈ vs, AllF (Γ.P (gradeL Γ ts g)) v
  | [], cur, env, g, hl, hB, hb, hc, he, vs, hw => by
    simp only [sevalZip, Res.ok.injEq] at hw; subst hw; simp
  | t :: ts, cur, env, g, hl, hB, hb, hc, he, vs, hw => by
    simp only [Tree.OpsL] at hl
    simp only [budgetL, Bool.and_eq_true] at hb
    simp only [gradeL]
    simp only [sevalZip, Res.bind_eq_ok] at hw
    obtain ⟨v, hv, hw⟩ := hw
    have hvn : AllF (Γ.P (Γ.join (grade Γ t g) (gradeL Γ ts g))) v := upG Γ (Γ.le_join_left _ _)
      (seval_fbG Γ B root hr t cur env g hl.1 hB hb.1 hc he v hv)
    split at hw
    · simp only [Res.bind_eq_ok, Res.pure_eq, Res.ok.injEq] at hw
      obtain ⟨rest, hrest, rfl⟩ := hw
      intro y hy
      rcases List.mem_cons.mp hy with rfl | hy
      · exact hvn
      · exact upG Γ (Γ.le_join_right _ _) (sevalZip_fbG Γ B root hr ts cur env g hl.2 hB hb.2 hc he rest hrest y hy)
    · simp [errType] at hw
end

end C14E
end Jmes
