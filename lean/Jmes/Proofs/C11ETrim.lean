/-
  C11 (fourth wave), reviewer items 4 and 5 — the DEFAULT cutset of `trim`, INVALID subjects of `trim`, the EMPTY
  separator of `split` on expression text, ONE specification of `split` for every subject and separator, and POSITION
  PRESERVATION of `lower` / `upper`.

  A. default cutset (white space): `isSpaceRune_iff` (the table = Go's `unicode.IsSpace` = Unicode White_Space),
     `trimSpace_codepoints`, `trimSpaceLeft_codepoints`, `trimSpaceRight_codepoints`, `trim_empty_cutset` (+ left /
     right), `trim_codepoints_any` (+ left / right: every cutset, empty or not), `cpTrimSpace_decomp` (what is removed
     is a maximal block of whole white-space code points at each end), `trimSpace_eq_trim_whiteSpace`;
     text level: `trim_text`, `trim_left_text`, `trim_right_text`, `trim_empty_text` (+ left / right),
     `trim_empty_text_codepoints`.
  B. `lower` / `upper`: `caseMap_some` / `caseMap_none` / `caseMap_ok` (for EVERY byte string, valid or not, the result
     is the code-point-wise image of `decodeAll s`), `lowerRune_band`, `upperRune_band`, `lowerRune_scalar`,
     `upperRune_scalar`, `lower_positions`, `upper_positions`, `lower_index`, `upper_index`, `lower_length`,
     `upper_length`, `lower_total`, `upper_total`, `lower_byte_length_valid`, `upper_byte_length_valid`;
     text level: `length_lower_text`, `length_upper_text`, `length_lower_text_unmodelled`.
  C. empty separator on text: `split_empty_text`, `split_empty_count_text0/1/2`, `split_empty_count_node`.
  D. `SplitSpec`, `splitSpec_iff`, `split_spec`, `split_spec_unique`, `split_count_spec`, `split_count_negative`,
     `cpSplitRunes_flatten/_length/_single`, `cpSplit_join`: all `(cs, ps, n)`.
  E. invalid subjects of `trim`: `runeSteps`, `lastSteps`, `trimLeftF_steps`, `trimRightF_steps` (general),
     `trimLeftF_step`, `trimRightF_step`, `trimLeftF_suffix`, `trimRightF_prefix`, `trimLeftF_invalid_head`,
     `trimLeft_invalid_head`, `trimSpaceLeft_invalid_head`, `trimLeftF_encodeAll_append`, `inCutset_runeError`,
     `decodeLastRune_bad_end`, `decodeLastRune_cases`, `decodeLastRune_invalid_iff`, `trimRightF_general`,
     `trimRightF_bad_end`, `trimRight_bad_end`, `trimSpaceRight_bad_end`, `trimRightF_append_encodeAll`.

  Every concrete example below was run against the Go code (/repo, `jmespath.Search`); Go agrees on all of them.
-/
import Jmes.Properties.C11C
import Jmes.Properties.C09
import Jmes.Proofs.C17BLemmas
namespace Jmes.C11E.Trim
open Jmes Jmes.Utf8 Jmes.Grammar Jmes.C11S Jmes.C11R

/-! ## A. the default cutset: white space -/

/-- the white-space code points (Go's `unicode.IsSpace`, the Unicode property White_Space): 25 of them -/
def whiteSpace : List Nat :=
  [0x09, 0x0A, 0x0B, 0x0C, 0x0D, 0x20, 0x85, 0xA0, 0x1680,
   0x2000, 0x2001, 0x2002, 0x2003, 0x2004, 0x2005, 0x2006, 0x2007, 0x2008, 0x2009, 0x200A,
   0x2028, 0x2029, 0x202F, 0x205F, 0x3000]

/-- **the white-space table**: the default cutset of `trim`/`trim_left`/`trim_right` is exactly the 25 code points
    TAB LF VT FF CR SPACE NEL NBSP U+1680 U+2000–U+200A U+2028 U+2029 U+202F U+205F U+3000 -/
theorem isSpaceRune_iff (r : Nat) : isSpaceRune r = true ↔ r ∈ whiteSpace := by
  unfold isSpaceRune whiteSpace
  simp only [Bool.or_eq_true, Bool.and_eq_true, beq_iff_eq, decide_eq_true_eq, List.mem_cons, List.not_mem_nil,
    or_false]
  omega

/-- U+00A0, U+2003, U+3000 are white space; U+200B (zero width space), U+3001 (、), U+00E0 (à), the byte values 0xC2,
    0xE3, 0x80 read as code points, and U+FFFD are not (0x85 and 0xA0 are code points NEL and NBSP, not bytes) -/
example : isSpaceRune 0xA0 = true ∧ isSpaceRune 0x2003 = true ∧ isSpaceRune 0x3000 = true ∧
    isSpaceRune 0x200B = false ∧ isSpaceRune 0x3001 = false ∧ isSpaceRune 0xE0 = false ∧ isSpaceRune 0xC2 = false ∧
    isSpaceRune 0xE3 = false ∧ isSpaceRune 0x80 = false ∧ isSpaceRune 0xFFFD = false := by decide
example : (0x2003 : Nat) ∈ whiteSpace := (isSpaceRune_iff _).1 (by decide)

/-- the white-space code points are scalar values (so the table can be written as a literal cutset) -/
theorem whiteSpace_scalars : Scalars whiteSpace := by unfold Scalars; decide

/-- `trim_left(s)` on code points -/
def cpTrimSpaceLeft (cs : List Nat) : List Nat := cs.dropWhile isSpaceRune
/-- `trim_right(s)` on code points -/
def cpTrimSpaceRight (cs : List Nat) : List Nat := (cs.reverse.dropWhile isSpaceRune).reverse
/-- `trim(s)` on code points -/
def cpTrimSpace (cs : List Nat) : List Nat := cpTrimSpaceRight (cpTrimSpaceLeft cs)

/-- trimming keeps scalar values scalar (left) -/
theorem cpTrimSpaceLeft_scalars {cs : List Nat} (h : Scalars cs) : Scalars (cpTrimSpaceLeft cs) :=
  scalars_dropWhile _ h
/-- trimming keeps scalar values scalar (right) -/
theorem cpTrimSpaceRight_scalars {cs : List Nat} (h : Scalars cs) : Scalars (cpTrimSpaceRight cs) :=
  (scalars_dropWhile _ h.reverse).reverse
/-- trimming keeps scalar values scalar (both ends) -/
theorem cpTrimSpace_scalars {cs : List Nat} (h : Scalars cs) : Scalars (cpTrimSpace cs) :=
  cpTrimSpaceRight_scalars (cpTrimSpaceLeft_scalars h)

/-- the default cutset IS the literal cutset `whiteSpace`: trimming white space is `C11R.cpTrimLeft whiteSpace` -/
theorem cpTrimSpaceLeft_eq (cs : List Nat) : cpTrimSpaceLeft cs = cpTrimLeft whiteSpace cs := by
  unfold cpTrimSpaceLeft cpTrimLeft
  congr 1; funext r
  by_cases h : isSpaceRune r = true
  · rw [h]; exact (List.contains_iff_mem.2 ((isSpaceRune_iff r).1 h)).symm
  · have h' : ¬ whiteSpace.contains r = true := fun hc => h ((isSpaceRune_iff r).2 (List.contains_iff_mem.1 hc))
    rw [Bool.not_eq_true] at h h'; rw [h, h']

/-- the same at the right end -/
theorem cpTrimSpaceRight_eq (cs : List Nat) : cpTrimSpaceRight cs = cpTrimRight whiteSpace cs := by
  have := cpTrimSpaceLeft_eq cs.reverse
  unfold cpTrimSpaceLeft cpTrimLeft at this
  unfold cpTrimSpaceRight cpTrimRight
  rw [this]

example : cpTrimSpace [0xA0, 0x3000, 0xE9, 0x20, 0xE0, 0x2003, 0x0A] = [0xE9, 0x20, 0xE0] := by decide
example : cpTrimSpaceLeft [0xA0, 0xE9, 0x20] = cpTrimLeft whiteSpace [0xA0, 0xE9, 0x20] := cpTrimSpaceLeft_eq _

/-- every element of `takeWhile p` satisfies `p` -/
theorem mem_takeWhile_sat {p : Nat → Bool} {l : List Nat} {r : Nat} (h : r ∈ l.takeWhile p) : p r = true :=
  List.all_eq_true.1 List.all_takeWhile r h

/-- **what `trim(s)` removes**: the subject is `a ++ kept ++ b` where `a` and `b` consist of white-space code points
    only and `kept` neither starts nor ends with one — whole code points go, and as many as possible -/
theorem cpTrimSpace_decomp (cs : List Nat) :
    ∃ a b, cs = a ++ cpTrimSpace cs ++ b ∧ (∀ r ∈ a, isSpaceRune r = true) ∧ (∀ r ∈ b, isSpaceRune r = true) ∧
      (∀ r, (cpTrimSpace cs).head? = some r → isSpaceRune r = false) ∧
      (∀ r, (cpTrimSpace cs).getLast? = some r → isSpaceRune r = false) := by
  let m := cs.dropWhile isSpaceRune
  have h1 : cs = cs.takeWhile isSpaceRune ++ m := (List.takeWhile_append_dropWhile).symm
  have h2 : m.reverse = m.reverse.takeWhile isSpaceRune ++ m.reverse.dropWhile isSpaceRune :=
    (List.takeWhile_append_dropWhile).symm
  have h3 : m = (m.reverse.dropWhile isSpaceRune).reverse ++ (m.reverse.takeWhile isSpaceRune).reverse := by
    rw [← List.reverse_append, ← h2, List.reverse_reverse]
  have hlast : ∀ r, (m.reverse.dropWhile isSpaceRune).head? = some r → isSpaceRune r = false := by
    intro r hr
    have := List.head?_dropWhile_not isSpaceRune m.reverse
    rw [hr] at this
    simpa using this
  refine ⟨cs.takeWhile isSpaceRune, (m.reverse.takeWhile isSpaceRune).reverse, ?_, ?_, ?_, ?_, ?_⟩
  · show cs = _ ++ (m.reverse.dropWhile isSpaceRune).reverse ++ _
    rw [List.append_assoc, ← h3]; exact h1
  · intro r hr; exact mem_takeWhile_sat hr
  · intro r hr; exact mem_takeWhile_sat (List.mem_reverse.1 hr)
  · intro r hr
    change (m.reverse.dropWhile isSpaceRune).reverse.head? = some r at hr
    -- the first kept code point is the first of `m` (if anything is kept), which is not white space
    have hm : m.head? = some r := by
      rw [h3]
      cases hk : (m.reverse.dropWhile isSpaceRune).reverse with
      | nil => rw [hk] at hr; cases hr
      | cons x xs => rw [hk] at hr; simpa using hr
    have := List.head?_dropWhile_not isSpaceRune cs
    rw [show cs.dropWhile isSpaceRune = m from rfl, hm] at this
    simpa using this
  · intro r hr
    change (m.reverse.dropWhile isSpaceRune).reverse.getLast? = some r at hr
    rw [List.getLast?_reverse] at hr
    exact hlast r hr

example : ∃ a b, [0xA0, 0xE9, 0x20, 0xE0, 0x3000] = a ++ cpTrimSpace [0xA0, 0xE9, 0x20, 0xE0, 0x3000] ++ b ∧
    (∀ r ∈ a, isSpaceRune r = true) ∧ (∀ r ∈ b, isSpaceRune r = true) ∧
    (∀ r, (cpTrimSpace [0xA0, 0xE9, 0x20, 0xE0, 0x3000]).head? = some r → isSpaceRune r = false) ∧
    (∀ r, (cpTrimSpace [0xA0, 0xE9, 0x20, 0xE0, 0x3000]).getLast? = some r → isSpaceRune r = false) :=
  cpTrimSpace_decomp _

/-! ### the builtins, function level -/

/-- **`trim_left(s)`** (one argument) drops the leading white-space CODE POINTS of a valid string -/
theorem trimSpaceLeft_codepoints (cs : List Nat) (h : Scalars cs) :
    trimSpaceLeft (.str (encodeAll cs)) = .ok (.str (encodeAll (cpTrimSpaceLeft cs))) := by
  show Res.ok (Val.str (trimLeftF isSpaceRune (encodeAll cs))) = _
  rw [trimLeftF_encodeAll _ _ h]; rfl

/-- **`trim_right(s)`** drops the trailing white-space code points -/
theorem trimSpaceRight_codepoints (cs : List Nat) (h : Scalars cs) :
    trimSpaceRight (.str (encodeAll cs)) = .ok (.str (encodeAll (cpTrimSpaceRight cs))) := by
  show Res.ok (Val.str (trimRightF isSpaceRune (encodeAll cs))) = _
  rw [trimRightF_encodeAll _ _ h]; rfl

/-- **`trim(s)`** drops both -/
theorem trimSpace_codepoints (cs : List Nat) (h : Scalars cs) :
    trimSpace (.str (encodeAll cs)) = .ok (.str (encodeAll (cpTrimSpace cs))) := by
  show Res.ok (Val.str (trimRightF isSpaceRune (trimLeftF isSpaceRune (encodeAll cs)))) = _
  rw [trimLeftF_encodeAll _ _ h, trimRightF_encodeAll _ _ (scalars_dropWhile _ h)]; rfl

/-- "  　é à \n" (bytes: 20, C2 A0, E3 80 80, C3 A9, 20, C3 A0, E2 80 83, 0A) trims to "é à": the
    multi-byte spaces go as whole code points, and the final byte A0 of "à" = C3 A0 — which is also the final byte of
    NBSP = C2 A0 — stays -/
example : trimSpace (.str [0x20, 0xC2, 0xA0, 0xE3, 0x80, 0x80, 0xC3, 0xA9, 0x20, 0xC3, 0xA0, 0xE2, 0x80, 0x83, 0x0A])
    = .ok (.str [0xC3, 0xA9, 0x20, 0xC3, 0xA0]) :=
  trimSpace_codepoints [0x20, 0xA0, 0x3000, 0xE9, 0x20, 0xE0, 0x2003, 0x0A] (by unfold Scalars; decide)
/-- "à" alone (C3 A0) is not touched by `trim_right`, nor "、" = U+3001 = E3 80 81 by `trim_left` (it shares the first
    two bytes with U+3000 = E3 80 80) -/
example : trimSpaceRight (.str [0xC3, 0xA0]) = .ok (.str [0xC3, 0xA0]) :=
  trimSpaceRight_codepoints [0xE0] (by unfold Scalars; decide)
example : trimSpaceLeft (.str [0xE3, 0x80, 0x81, 0xE3, 0x80, 0x80]) = .ok (.str [0xE3, 0x80, 0x81, 0xE3, 0x80, 0x80]) :=
  trimSpaceLeft_codepoints [0x3001, 0x3000] (by unfold Scalars; decide)
example : trimSpaceLeft (.str [0xE3, 0x80, 0x80, 0xE3, 0x80, 0x81]) = .ok (.str [0xE3, 0x80, 0x81]) :=
  trimSpaceLeft_codepoints [0x3000, 0x3001] (by unfold Scalars; decide)

/-- **the empty cutset is the default cutset**, for every first argument (strings, and the type error otherwise) -/
theorem trim_empty_cutset (v : Val) : trim v (.str []) = trimSpace v := by cases v <;> rfl
theorem trimLeft_empty_cutset (v : Val) : trimLeft v (.str []) = trimSpaceLeft v := by cases v <;> rfl
theorem trimRight_empty_cutset (v : Val) : trimRight v (.str []) = trimSpaceRight v := by cases v <;> rfl

example : trim (.str [0xC2, 0xA0, 0xC3, 0xA9]) (.str []) = .ok (.str [0xC3, 0xA9]) := by
  rw [trim_empty_cutset]; exact trimSpace_codepoints [0xA0, 0xE9] (by unfold Scalars; decide)
example : trim (.num (.int .i64 1)) (.str []) = trimSpace (.num (.int .i64 1)) := trim_empty_cutset _

/-- `trim(s, cut)` for EVERY valid cutset, empty or not: the empty one means white space -/
theorem trim_codepoints_any (cs cut : List Nat) (hcs : Scalars cs) (hcut : Scalars cut) :
    trim (.str (encodeAll cs)) (.str (encodeAll cut))
      = .ok (.str (encodeAll (if cut = [] then cpTrimSpace cs else cpTrimRight cut (cpTrimLeft cut cs)))) := by
  by_cases hne : cut = []
  · subst hne; rw [if_pos rfl]; exact (trim_empty_cutset _).trans (trimSpace_codepoints cs hcs)
  · rw [if_neg hne]; exact trim_codepoints cs cut hcs hcut hne

/-- `trim_left(s, cut)` for every valid cutset, empty or not -/
theorem trimLeft_codepoints_any (cs cut : List Nat) (hcs : Scalars cs) (hcut : Scalars cut) :
    trimLeft (.str (encodeAll cs)) (.str (encodeAll cut))
      = .ok (.str (encodeAll (if cut = [] then cpTrimSpaceLeft cs else cpTrimLeft cut cs))) := by
  by_cases hne : cut = []
  · subst hne; rw [if_pos rfl]; exact (trimLeft_empty_cutset _).trans (trimSpaceLeft_codepoints cs hcs)
  · rw [if_neg hne]; exact trimLeft_codepoints cs cut hcs hcut hne

/-- `trim_right(s, cut)` for every valid cutset, empty or not -/
theorem trimRight_codepoints_any (cs cut : List Nat) (hcs : Scalars cs) (hcut : Scalars cut) :
    trimRight (.str (encodeAll cs)) (.str (encodeAll cut))
      = .ok (.str (encodeAll (if cut = [] then cpTrimSpaceRight cs else cpTrimRight cut cs))) := by
  by_cases hne : cut = []
  · subst hne; rw [if_pos rfl]; exact (trimRight_empty_cutset _).trans (trimSpaceRight_codepoints cs hcs)
  · rw [if_neg hne]; exact trimRight_codepoints cs cut hcs hcut hne

/-- trim("　é　", "") = "é";  trim("　é　", "　") = "é" as well -/
example : trim (.str (encodeAll [0x3000, 0xE9, 0x3000])) (.str (encodeAll [])) = .ok (.str (encodeAll [0xE9])) :=
  (trim_codepoints_any [0x3000, 0xE9, 0x3000] [] (by unfold Scalars; decide) Scalars.nil).trans rfl
example : trim (.str (encodeAll [0x3000, 0xE9, 0x3000])) (.str (encodeAll [0x3000])) = .ok (.str (encodeAll [0xE9])) :=
  (trim_codepoints_any [0x3000, 0xE9, 0x3000] [0x3000] (by unfold Scalars; decide) (by unfold Scalars; decide)).trans
    rfl

/-- the default cutset behaves like the literal cutset of the 25 white-space characters -/
theorem trimSpace_eq_trim_whiteSpace (cs : List Nat) (hcs : Scalars cs) :
    trimSpace (.str (encodeAll cs)) = trim (.str (encodeAll cs)) (.str (encodeAll whiteSpace)) := by
  rw [trimSpace_codepoints cs hcs, trim_codepoints cs whiteSpace hcs whiteSpace_scalars (by decide)]
  unfold cpTrimSpace
  rw [cpTrimSpaceRight_eq, cpTrimSpaceLeft_eq]

example : trimSpace (.str (encodeAll [0x2003, 0xE9])) = trim (.str (encodeAll [0x2003, 0xE9])) (.str (encodeAll whiteSpace)) :=
  trimSpace_eq_trim_whiteSpace _ (by unfold Scalars; decide)

/-! ### the builtins, on expression text

  The texts are parsed for real: `C17B.text` needs a parse tree whose printing is the token list of the text
  (`C04G.parse_complete`), given here explicitly. -/

/-- `@` -/
def tCur : PTree := .atom ⟨.current, [0x40]⟩
/-- a raw string literal, given with its quotes -/
def tRaw (s : String) : PTree := .atom ⟨.stringLiteral, Ex.bs s⟩
/-- a JSON literal, given with its back quotes -/
def tJson (s : String) : PTree := .atom ⟨.jsonLiteral, Ex.bs s⟩
/-- `name(args)` -/
def tFn (s : String) (args : List PTree) : PTree := .call ⟨.unquotedIdentifier, Ex.bs s⟩ args

/-- `trim(@)` is the one-argument builtin applied to the document, for every document -/
theorem trim_text_any (d : Val) : search (Ex.bs "trim(@)") d = trimSpace d := by
  rw [(C17B.text (t := tFn "trim" [tCur]) (by decide) (by decide)).2 d]; rfl
/-- `trim_left(@)` is the one-argument builtin applied to the document -/
theorem trim_left_text_any (d : Val) : search (Ex.bs "trim_left(@)") d = trimSpaceLeft d := by
  rw [(C17B.text (t := tFn "trim_left" [tCur]) (by decide) (by decide)).2 d]; rfl
/-- `trim_right(@)` is the one-argument builtin applied to the document -/
theorem trim_right_text_any (d : Val) : search (Ex.bs "trim_right(@)") d = trimSpaceRight d := by
  rw [(C17B.text (t := tFn "trim_right" [tCur]) (by decide) (by decide)).2 d]; rfl

/-- **`trim(@, '')` is `trim(@)`** (the empty cutset falls back to white space), for every document; the same for
    `trim_left` and `trim_right` -/
theorem trim_empty_text (d : Val) : search (Ex.bs "trim(@, '')") d = search (Ex.bs "trim(@)") d := by
  rw [trim_text_any, (C17B.text (t := tFn "trim" [tCur, tRaw "''"]) (by decide) (by decide)).2 d]
  exact trim_empty_cutset d
/-- `trim_left(@, '')` is `trim_left(@)`, for every document -/
theorem trim_left_empty_text (d : Val) : search (Ex.bs "trim_left(@, '')") d = search (Ex.bs "trim_left(@)") d := by
  rw [trim_left_text_any, (C17B.text (t := tFn "trim_left" [tCur, tRaw "''"]) (by decide) (by decide)).2 d]
  exact trimLeft_empty_cutset d
/-- `trim_right(@, '')` is `trim_right(@)`, for every document -/
theorem trim_right_empty_text (d : Val) : search (Ex.bs "trim_right(@, '')") d = search (Ex.bs "trim_right(@)") d := by
  rw [trim_right_text_any, (C17B.text (t := tFn "trim_right" [tCur, tRaw "''"]) (by decide) (by decide)).2 d]
  exact trimRight_empty_cutset d

/-- **`trim(@)` on text**: the white-space code points at both ends of a valid string go, nothing else -/
theorem trim_text (cs : List Nat) (h : Scalars cs) :
    search (Ex.bs "trim(@)") (.str (encodeAll cs)) = .ok (.str (encodeAll (cpTrimSpace cs))) :=
  (trim_text_any _).trans (trimSpace_codepoints cs h)
/-- **`trim_left(@)` on text** -/
theorem trim_left_text (cs : List Nat) (h : Scalars cs) :
    search (Ex.bs "trim_left(@)") (.str (encodeAll cs)) = .ok (.str (encodeAll (cpTrimSpaceLeft cs))) :=
  (trim_left_text_any _).trans (trimSpaceLeft_codepoints cs h)
/-- **`trim_right(@)` on text** -/
theorem trim_right_text (cs : List Nat) (h : Scalars cs) :
    search (Ex.bs "trim_right(@)") (.str (encodeAll cs)) = .ok (.str (encodeAll (cpTrimSpaceRight cs))) :=
  (trim_right_text_any _).trans (trimSpaceRight_codepoints cs h)
/-- **`trim(@, '')` on text** -/
theorem trim_empty_text_codepoints (cs : List Nat) (h : Scalars cs) :
    search (Ex.bs "trim(@, '')") (.str (encodeAll cs)) = .ok (.str (encodeAll (cpTrimSpace cs))) :=
  (trim_empty_text _).trans (trim_text cs h)

/-- `trim(@)` on " é　" (20, C3 A9, E3 80 80) is "é"; `trim_left(@)` on "　、" is "、" (E3 80 81, same first two
    bytes as the space); `trim_right(@)` on "à" + NBSP (C3 A0 C2 A0) is "à" (C3 A0) -/
example : search (Ex.bs "trim(@)") (.str [0x20, 0xC3, 0xA9, 0xE3, 0x80, 0x80]) = .ok (.str [0xC3, 0xA9]) :=
  trim_text [0x20, 0xE9, 0x3000] (by unfold Scalars; decide)
example : search (Ex.bs "trim_left(@)") (.str [0xE3, 0x80, 0x80, 0xE3, 0x80, 0x81]) = .ok (.str [0xE3, 0x80, 0x81]) :=
  trim_left_text [0x3000, 0x3001] (by unfold Scalars; decide)
example : search (Ex.bs "trim_right(@)") (.str [0xC3, 0xA0, 0xC2, 0xA0]) = .ok (.str [0xC3, 0xA0]) :=
  trim_right_text [0xE0, 0xA0] (by unfold Scalars; decide)
example : search (Ex.bs "trim(@, '')") (.str [0xE2, 0x80, 0x83, 0xC3, 0xA9]) = .ok (.str [0xC3, 0xA9]) :=
  trim_empty_text_codepoints [0x2003, 0xE9] (by unfold Scalars; decide)
example : search (Ex.bs "trim_left(@, '')") (.num (.int .i64 1)) = search (Ex.bs "trim_left(@)") (.num (.int .i64 1)) :=
  trim_left_empty_text _

/-! ## B. `lower` / `upper` keep every code point at its position

  `caseMap` (the model of `strings.ToLower` / `strings.ToUpper` restricted to the modelled alphabets) has an ASCII fast
  path that maps BYTES and a general path that decodes, maps code points and re-encodes (an invalid byte decodes to
  U+FFFD, one code point, and is re-encoded as EF BF BD). Both are the code-point-wise image of `decodeAll s`. -/

/-- every decoding step yields a scalar value (U+FFFD on an invalid byte or at the end) -/
theorem decodeRune_scalar (s : Bytes) : isScalar (decodeRune s).1 = true := by
  cases s with
  | nil => decide
  | cons b bs =>
    by_cases h : (decodeRune (b :: bs)).1 = RuneError ∧ (decodeRune (b :: bs)).2 = 1
    · rw [h.1]; decide
    · exact (decodeRune_valid (b :: bs) (List.cons_ne_nil _ _) h).1

example : isScalar (decodeRune [0xED, 0xA0, 0x80]).1 = true := decodeRune_scalar _
/-- (a UTF-8-encoded surrogate is three invalid bytes, not U+D800) -/
example : decodeRune [0xED, 0xA0, 0x80] = (0xFFFD, 1) := by decide

/-- every rune produced by the decoding loop is a scalar value (any fuel) -/
theorem decodeAllAux_scalars : ∀ (fuel : Nat) (s : Bytes), Scalars (decodeAllAux fuel s)
  | 0, _ => Scalars.nil
  | _ + 1, [] => Scalars.nil
  | fuel + 1, b :: bs => by
    rw [decodeAllAux_succ fuel (b :: bs) (List.cons_ne_nil _ _)]
    exact Scalars.cons (decodeRune_scalar _) (decodeAllAux_scalars fuel _)

/-- the code points of ANY byte string are scalar values -/
theorem decodeAll_scalars (s : Bytes) : Scalars (decodeAll s) := decodeAllAux_scalars _ s

example : Scalars (decodeAll [0x48, 0xC3, 0xFF, 0xC3, 0xA9]) := decodeAll_scalars _
example : decodeAll [0x48, 0xC3, 0xFF, 0xC3, 0xA9] = [0x48, 0xFFFD, 0xFFFD, 0xE9] := by decide

/-- an ASCII byte string is its own list of code points -/
theorem decodeAll_ascii {s : Bytes} (h : ∀ b ∈ s, b < 0x80) : decodeAll s = s := by
  have := decodeAll_encodeAll s (scalars_ascii h)
  rwa [encodeAll_ascii h] at this

example : decodeAll [0x48, 0x69] = [0x48, 0x69] := decodeAll_ascii (by decide)

/-- re-encoding ANY list of runes and counting gives the number of runes (a non-scalar is written as U+FFFD) -/
theorem runeCount_encodeAll_any (rs : List Nat) : runeCount (encodeAll rs) = rs.length := by
  rw [encodeAll_fixRune, runeCount_encodeAll _ (scalars_map_fixRune rs), List.length_map]

example : runeCount (encodeAll [0x48, 0xD800, 0x110000]) = 3 := runeCount_encodeAll_any _

/-- a successful `mapRunes` is the pointwise image: same length … -/
theorem mapRunes_length (f : Nat → Option Nat) {cs rs : List Nat} (h : mapRunes f cs = some rs) :
    rs.length = cs.length := by
  rw [mapRunes_some_getD f cs rs h, List.length_map]

/-- … and the `i`-th output is `f` of the `i`-th input -/
theorem mapRunes_index (f : Nat → Option Nat) : ∀ (cs rs : List Nat), mapRunes f cs = some rs →
    ∀ i : Nat, rs[i]? = cs[i]?.bind f
  | [], rs, h, i => by
    simp only [mapRunes] at h; injection h with h; subst h; rfl
  | c :: cs, rs, h, i => by
    simp only [mapRunes] at h
    split at h
    · cases h
    · rename_i r' hr
      cases hm : mapRunes f cs with
      | none => rw [hm] at h; cases h
      | some rs' =>
        rw [hm] at h
        simp only [Option.map_some] at h
        injection h with h; subst h
        cases i with
        | zero => simpa using hr.symm
        | succ i => simpa using mapRunes_index f cs rs' hm i

/-- `mapRunes` succeeds when `f` is defined on every element -/
theorem mapRunes_total (f : Nat → Option Nat) : ∀ (cs : List Nat), (∀ c ∈ cs, ∃ c', f c = some c') →
    mapRunes f cs = some (cs.map (fun b => (f b).getD b))
  | [], _ => rfl
  | c :: cs, h => by
    obtain ⟨c', hc⟩ := h c List.mem_cons_self
    simp only [mapRunes, hc, mapRunes_total f cs (fun x hx => h x (List.mem_cons_of_mem _ hx)), Option.map_some,
      List.map_cons, Option.getD_some]

example : mapRunes lowerRune [0x48, 0xC9] = some [0x68, 0xE9] := by decide
example : ([0x68, 0xE9] : List Nat)[1]? = ([0x48, 0xC9] : List Nat)[1]?.bind lowerRune :=
  mapRunes_index lowerRune [0x48, 0xC9] _ (by decide) 1

/-- **`caseMap`, success**: for EVERY byte string `s` (valid UTF-8 or not), if the table `f` is defined on all code
    points of `s` — `decodeAll s`, where an invalid byte counts as one U+FFFD — the result is the encoding of their
    images, in order. (`hf`: the table maps ASCII to ASCII, which makes the byte-wise fast path agree.) -/
theorem caseMap_some (f : Nat → Option Nat) (hf : ∀ b, b < 0x80 → ∃ b', b' < 0x80 ∧ f b = some b') (s : Bytes)
    {rs : List Nat} (h : mapRunes f (decodeAll s) = some rs) : caseMap f s = .ok (.str (encodeAll rs)) := by
  unfold caseMap
  split
  · rename_i ha
    have hb : ∀ b ∈ s, b < 0x80 := fun b hb => by simpa using (List.all_eq_true.1 ha) b hb
    rw [decodeAll_ascii hb] at h
    have hrs := mapRunes_some_getD f s rs h
    have hr : ∀ b ∈ rs, b < 0x80 := by
      intro b hb'
      rw [hrs] at hb'
      obtain ⟨a, ha', rfl⟩ := List.mem_map.1 hb'
      obtain ⟨b', hb1, hb2⟩ := hf a (hb a ha')
      rw [hb2]; exact hb1
    rw [encodeAll_ascii hr, hrs]
  · rw [h]

/-- **`caseMap`, the only failure**: some code point of `s` is outside the modelled tables -/
theorem caseMap_none (f : Nat → Option Nat) (hf : ∀ b, b < 0x80 → ∃ b', b' < 0x80 ∧ f b = some b') (s : Bytes)
    (h : mapRunes f (decodeAll s) = none) :
    caseMap f s = .unmodelled "case mapping outside the modelled alphabets" := by
  unfold caseMap
  split
  · rename_i ha
    have hb : ∀ b ∈ s, b < 0x80 := fun b hb => by simpa using (List.all_eq_true.1 ha) b hb
    rw [decodeAll_ascii hb, mapRunes_total f s (fun c hc => by
      obtain ⟨b', _, hb2⟩ := hf c (hb c hc); exact ⟨b', hb2⟩)] at h
    cases h
  · rw [h]

/-- a successful `caseMap` comes from a successful `mapRunes` on the code points -/
theorem caseMap_ok (f : Nat → Option Nat) (hf : ∀ b, b < 0x80 → ∃ b', b' < 0x80 ∧ f b = some b') {s : Bytes} {v : Val}
    (h : caseMap f s = .ok v) : ∃ rs, mapRunes f (decodeAll s) = some rs ∧ v = .str (encodeAll rs) := by
  cases hm : mapRunes f (decodeAll s) with
  | none => rw [caseMap_none f hf s hm] at h; cases h
  | some rs => rw [caseMap_some f hf s hm] at h; injection h with h; exact ⟨rs, rfl, h.symm⟩

/-- `lowerRune` is defined on ASCII and stays in ASCII -/
theorem lowerRune_ascii' (b : Nat) (h : b < 0x80) : ∃ b', b' < 0x80 ∧ lowerRune b = some b' := by
  unfold lowerRune; rw [if_pos h]; exact ⟨_, by split <;> omega, rfl⟩
/-- `upperRune` is defined on ASCII and stays in ASCII -/
theorem upperRune_ascii' (b : Nat) (h : b < 0x80) : ∃ b', b' < 0x80 ∧ upperRune b = some b' := by
  unfold upperRune; rw [if_pos h]; exact ⟨_, by split <;> omega, rfl⟩

/-- what the tables do to a code point: nothing, or a move inside ASCII, or a move inside U+0080–U+07FF (the two-byte
    range) — in particular: never to a surrogate, never beyond U+10FFFF, never across an encoded-length boundary -/
theorem lowerRune_band {r r' : Nat} (h : lowerRune r = some r') :
    r' = r ∨ (r < 0x80 ∧ r' < 0x80) ∨ (0x80 ≤ r ∧ r < 0x800 ∧ 0x80 ≤ r' ∧ r' < 0x800) := by
  unfold lowerRune at h
  by_cases c1 : r < 0x80
  · rw [if_pos c1] at h; injection h with h
    by_cases c : 0x41 ≤ r ∧ r ≤ 0x5A
    · rw [if_pos c] at h; omega
    · rw [if_neg c] at h; omega
  rw [if_neg c1] at h
  by_cases c2 : 0xC0 ≤ r ∧ r ≤ 0xDE ∧ r ≠ 0xD7
  · rw [if_pos c2] at h; injection h with h; omega
  rw [if_neg c2] at h
  by_cases c3 : 0xE0 ≤ r ∧ r ≤ 0xFF
  · rw [if_pos c3] at h; injection h with h; omega
  rw [if_neg c3] at h
  by_cases c4 : r = 0xB5
  · rw [if_pos c4] at h; injection h with h; omega
  rw [if_neg c4] at h
  by_cases c5 : 0x391 ≤ r ∧ r ≤ 0x3A9 ∧ r ≠ 0x3A2
  · rw [if_pos c5] at h; injection h with h; omega
  rw [if_neg c5] at h
  by_cases c6 : 0x3B1 ≤ r ∧ r ≤ 0x3C9
  · rw [if_pos c6] at h; injection h with h; omega
  rw [if_neg c6] at h
  by_cases c7 : 0x410 ≤ r ∧ r ≤ 0x42F
  · rw [if_pos c7] at h; injection h with h; omega
  rw [if_neg c7] at h
  by_cases c8 : 0x400 ≤ r ∧ r ≤ 0x40F
  · rw [if_pos c8] at h; injection h with h; omega
  rw [if_neg c8] at h
  by_cases c9 : 0x430 ≤ r ∧ r ≤ 0x45F
  · rw [if_pos c9] at h; injection h with h; omega
  rw [if_neg c9] at h
  by_cases c12 : caseless r = true
  · rw [if_pos c12] at h; injection h with h; omega
  rw [if_neg c12] at h
  cases h

/-- the same for `upperRune` (ÿ ↦ Ÿ U+0178 and µ ↦ Μ U+039C stay in the two-byte range) -/
theorem upperRune_band {r r' : Nat} (h : upperRune r = some r') :
    r' = r ∨ (r < 0x80 ∧ r' < 0x80) ∨ (0x80 ≤ r ∧ r < 0x800 ∧ 0x80 ≤ r' ∧ r' < 0x800) := by
  unfold upperRune at h
  by_cases c1 : r < 0x80
  · rw [if_pos c1] at h; injection h with h
    by_cases c : 0x61 ≤ r ∧ r ≤ 0x7A
    · rw [if_pos c] at h; omega
    · rw [if_neg c] at h; omega
  rw [if_neg c1] at h
  by_cases c2 : 0xE0 ≤ r ∧ r ≤ 0xFE ∧ r ≠ 0xF7
  · rw [if_pos c2] at h; injection h with h; omega
  rw [if_neg c2] at h
  by_cases c3 : r = 0xFF
  · rw [if_pos c3] at h; injection h with h; omega
  rw [if_neg c3] at h
  by_cases c4 : 0xC0 ≤ r ∧ r ≤ 0xDE
  · rw [if_pos c4] at h; injection h with h; omega
  rw [if_neg c4] at h
  by_cases c5 : r = 0xB5
  · rw [if_pos c5] at h; injection h with h; omega
  rw [if_neg c5] at h
  by_cases c6 : 0x3B1 ≤ r ∧ r ≤ 0x3C9 ∧ r ≠ 0x3C2
  · rw [if_pos c6] at h; injection h with h; omega
  rw [if_neg c6] at h
  by_cases c7 : r = 0x3C2
  · rw [if_pos c7] at h; injection h with h; omega
  rw [if_neg c7] at h
  by_cases c8 : 0x391 ≤ r ∧ r ≤ 0x3A9 ∧ r ≠ 0x3A2
  · rw [if_pos c8] at h; injection h with h; omega
  rw [if_neg c8] at h
  by_cases c9 : 0x430 ≤ r ∧ r ≤ 0x44F
  · rw [if_pos c9] at h; injection h with h; omega
  rw [if_neg c9] at h
  by_cases c10 : 0x450 ≤ r ∧ r ≤ 0x45F
  · rw [if_pos c10] at h; injection h with h; omega
  rw [if_neg c10] at h
  by_cases c11 : 0x400 ≤ r ∧ r ≤ 0x42F
  · rw [if_pos c11] at h; injection h with h; omega
  rw [if_neg c11] at h
  by_cases c12 : caseless r = true
  · rw [if_pos c12] at h; injection h with h; omega
  rw [if_neg c12] at h
  cases h

/-- ÿ ↦ Ÿ (U+00FF ↦ U+0178) and µ ↦ Μ (U+00B5 ↦ U+039C) stay two-byte; U+FFFD is caseless -/
example : upperRune 0xFF = some 0x178 ∧ upperRune 0xB5 = some 0x39C ∧ lowerRune 0xFFFD = some 0xFFFD ∧
    upperRune 0xFFFD = some 0xFFFD := by decide
example : 0x178 = 0xFF ∨ (0xFF < 0x80 ∧ 0x178 < 0x80) ∨ (0x80 ≤ 0xFF ∧ 0xFF < 0x800 ∧ 0x80 ≤ 0x178 ∧ 0x178 < 0x800) :=
  upperRune_band (r := 0xFF) (by decide)
/-- the mappings of full Unicode that DO change the encoded length are outside the model (the model answers
    `unmodelled`, it does not guess): İ U+0130 ↦ i, K U+212A ↦ k for `lower`; ı U+0131 ↦ I, ſ U+017F ↦ S for `upper` -/
example : lowerRune 0x130 = none ∧ lowerRune 0x212A = none ∧ upperRune 0x131 = none ∧ upperRune 0x17F = none := by
  decide

/-- **the tables map scalar values to scalar values** (every entry; a code point is replaced by ONE code point) -/
theorem lowerRune_scalar {r r' : Nat} (hr : isScalar r = true) (h : lowerRune r = some r') : isScalar r' = true := by
  rcases lowerRune_band h with rfl | h | h
  · exact hr
  all_goals (rw [isScalar_iff]; omega)
/-- the same for `upperRune` -/
theorem upperRune_scalar {r r' : Nat} (hr : isScalar r = true) (h : upperRune r = some r') : isScalar r' = true := by
  rcases upperRune_band h with rfl | h | h
  · exact hr
  all_goals (rw [isScalar_iff]; omega)

example : isScalar 0x178 = true := upperRune_scalar (r := 0xFF) (by decide) (by decide)

/-- a scalar-preserving table maps a list of scalar values to a list of scalar values -/
theorem mapRunes_scalars (f : Nat → Option Nat) (hf : ∀ r r', isScalar r = true → f r = some r' → isScalar r' = true)
    {cs rs : List Nat} (hcs : Scalars cs) (h : mapRunes f cs = some rs) : Scalars rs := by
  intro x hx
  obtain ⟨i, hi, rfl⟩ := List.mem_iff_getElem.1 hx
  have := mapRunes_index f cs rs h i
  rw [List.getElem?_eq_getElem hi] at this
  cases hc : cs[i]? with
  | none => rw [hc] at this; cases this
  | some c =>
    rw [hc] at this
    exact hf c _ (hcs c (List.mem_of_getElem? hc)) this.symm

/-- **`lower` keeps positions**: whenever `lower(s)` answers (i.e. is modelled), for EVERY byte string `s`, the code
    points of the result are the images under `lowerRune` of the code points of `s`, in order — where the code points
    of an invalid `s` are those Go's `for range` sees, one U+FFFD per invalid byte -/
theorem lower_positions {s out : Bytes} (h : lower (.str s) = .ok (.str out)) :
    mapRunes lowerRune (decodeAll s) = some (decodeAll out) := by
  obtain ⟨rs, hm, hv⟩ := caseMap_ok lowerRune lowerRune_ascii' (s := s) h
  injection hv with hv; subst hv
  rw [decodeAll_encodeAll rs (mapRunes_scalars lowerRune (fun _ _ => lowerRune_scalar) (decodeAll_scalars s) hm)]
  exact hm

/-- **`upper` keeps positions** -/
theorem upper_positions {s out : Bytes} (h : upper (.str s) = .ok (.str out)) :
    mapRunes upperRune (decodeAll s) = some (decodeAll out) := by
  obtain ⟨rs, hm, hv⟩ := caseMap_ok upperRune upperRune_ascii' (s := s) h
  injection hv with hv; subst hv
  rw [decodeAll_encodeAll rs (mapRunes_scalars upperRune (fun _ _ => upperRune_scalar) (decodeAll_scalars s) hm)]
  exact hm

/-- the `i`-th code point of `lower(s)` is `lowerRune` of the `i`-th code point of `s` -/
theorem lower_index {s out : Bytes} (h : lower (.str s) = .ok (.str out)) (i : Nat) :
    (decodeAll out)[i]? = (decodeAll s)[i]?.bind lowerRune := mapRunes_index lowerRune _ _ (lower_positions h) i
/-- the `i`-th code point of `upper(s)` is `upperRune` of the `i`-th code point of `s` -/
theorem upper_index {s out : Bytes} (h : upper (.str s) = .ok (.str out)) (i : Nat) :
    (decodeAll out)[i]? = (decodeAll s)[i]?.bind upperRune := mapRunes_index upperRune _ _ (upper_positions h) i

/-- **`length(lower(s)) = length(s)`** in code points, for every `s` on which `lower` answers -/
theorem lower_length {s out : Bytes} (h : lower (.str s) = .ok (.str out)) : runeCount out = runeCount s :=
  mapRunes_length lowerRune (lower_positions h)
/-- **`length(upper(s)) = length(s)`** -/
theorem upper_length {s out : Bytes} (h : upper (.str s) = .ok (.str out)) : runeCount out = runeCount s :=
  mapRunes_length upperRune (upper_positions h)

/-- `lower` answers exactly when every code point of `s` is in the table; otherwise it is `unmodelled` (never an error,
    never a wrong string) -/
theorem lower_total (s : Bytes) : (∃ out, lower (.str s) = .ok (.str out)) ∨
    lower (.str s) = .unmodelled "case mapping outside the modelled alphabets" := by
  cases hm : mapRunes lowerRune (decodeAll s) with
  | none => exact .inr (caseMap_none lowerRune lowerRune_ascii' s hm)
  | some rs => exact .inl ⟨_, caseMap_some lowerRune lowerRune_ascii' s hm⟩
/-- the same for `upper` -/
theorem upper_total (s : Bytes) : (∃ out, upper (.str s) = .ok (.str out)) ∨
    upper (.str s) = .unmodelled "case mapping outside the modelled alphabets" := by
  cases hm : mapRunes upperRune (decodeAll s) with
  | none => exact .inr (caseMap_none upperRune upperRune_ascii' s hm)
  | some rs => exact .inl ⟨_, caseMap_some upperRune upperRune_ascii' s hm⟩

/-- upper("ÿµé") = "ŸΜÉ": 3 code points before and after (and 6 bytes before and after) -/
example : upper (.str [0xC3, 0xBF, 0xC2, 0xB5, 0xC3, 0xA9]) = .ok (.str [0xC5, 0xB8, 0xCE, 0x9C, 0xC3, 0x89]) := rfl
example : runeCount [0xC5, 0xB8, 0xCE, 0x9C, 0xC3, 0x89] = runeCount [0xC3, 0xBF, 0xC2, 0xB5, 0xC3, 0xA9] :=
  upper_length (s := [0xC3, 0xBF, 0xC2, 0xB5, 0xC3, 0xA9]) rfl
example : (decodeAll [0xC5, 0xB8, 0xCE, 0x9C, 0xC3, 0x89])[1]? = (decodeAll [0xC3, 0xBF, 0xC2, 0xB5, 0xC3, 0xA9])[1]?.bind upperRune :=
  upper_index (s := [0xC3, 0xBF, 0xC2, 0xB5, 0xC3, 0xA9]) rfl 1
/-- INVALID input: lower("H\xC3É\xFF") = "h�é�": 4 code points before and after, although the BYTE length grows from
    5 to 10 (each invalid byte becomes the three bytes of U+FFFD) -/
example : lower (.str [0x48, 0xC3, 0xC3, 0x89, 0xFF]) = .ok (.str [0x68, 0xEF, 0xBF, 0xBD, 0xC3, 0xA9, 0xEF, 0xBF, 0xBD]) := rfl
example : runeCount [0x68, 0xEF, 0xBF, 0xBD, 0xC3, 0xA9, 0xEF, 0xBF, 0xBD] = runeCount [0x48, 0xC3, 0xC3, 0x89, 0xFF] :=
  lower_length (s := [0x48, 0xC3, 0xC3, 0x89, 0xFF]) rfl
example : runeCount [0x48, 0xC3, 0xC3, 0x89, 0xFF] = 4 := by decide
/-- "ı" (U+0131, C4 B1) is outside the model: `upper` answers `unmodelled` -/
example : upper (.str [0xC4, 0xB1]) = .unmodelled "case mapping outside the modelled alphabets" := rfl

/-! ### the byte length: unchanged on valid input, can grow on invalid input -/

/-- the encoded length of a rune: 1, 2, 3 or 4 bytes by range (3 for a non-scalar, written as U+FFFD) -/
theorem encodeRune_length_eq (r : Nat) : (encodeRune r).length =
    if r < 0x80 then 1 else if r < 0x800 then 2 else if r < 0x10000 then 3 else if r ≤ 0x10FFFF then 4 else 3 := by
  unfold encodeRune
  by_cases h1 : r < 0x80
  · rw [if_pos h1, if_pos h1]; rfl
  · rw [if_neg h1, if_neg h1]
    by_cases h2 : r < 0x800
    · rw [if_pos h2, if_pos h2]; rfl
    · rw [if_neg h2, if_neg h2]
      by_cases hs : isScalar r = true
      · rw [if_neg (by simpa using hs)]
        have := (isScalar_iff r).1 hs
        by_cases h3 : r < 0x10000
        · rw [if_pos h3, if_pos h3]; rfl
        · rw [if_neg h3, if_neg h3, if_pos (by omega)]; rfl
      · rw [if_pos (by simpa using hs)]
        have : ¬ (r < 0xD800 ∨ (0xDFFF < r ∧ r ≤ 0x10FFFF)) := fun h => hs ((isScalar_iff r).2 h)
        by_cases h3 : r < 0x10000
        · rw [if_pos h3]; rfl
        · rw [if_neg h3, if_neg (by omega)]; rfl

example : (encodeRune 0x178).length = 2 := by rw [encodeRune_length_eq]; decide

/-- a move within ASCII or within U+0080–U+07FF keeps the encoded length -/
theorem band_encode_length {r r' : Nat}
    (h : r' = r ∨ (r < 0x80 ∧ r' < 0x80) ∨ (0x80 ≤ r ∧ r < 0x800 ∧ 0x80 ≤ r' ∧ r' < 0x800)) :
    (encodeRune r').length = (encodeRune r).length := by
  rcases h with rfl | h | h
  · rfl
  · rw [encodeRune_length_eq, encodeRune_length_eq, if_pos h.1, if_pos h.2]
  · rw [encodeRune_length_eq, encodeRune_length_eq, if_neg (show ¬ r' < 0x80 by omega), if_pos h.2.2.2,
      if_neg (show ¬ r < 0x80 by omega), if_pos h.2.1]

/-- a table that keeps the encoded length of each code point keeps the byte length of the string -/
theorem mapRunes_encode_length (f : Nat → Option Nat)
    (hf : ∀ r r', f r = some r' → (encodeRune r').length = (encodeRune r).length) :
    ∀ {cs rs : List Nat}, mapRunes f cs = some rs → (encodeAll rs).length = (encodeAll cs).length
  | [], rs, h => by simp only [mapRunes] at h; injection h with h; subst h; rfl
  | c :: cs, rs, h => by
    simp only [mapRunes] at h
    split at h
    · cases h
    · rename_i r' hr
      cases hm : mapRunes f cs with
      | none => rw [hm] at h; cases h
      | some rs' =>
        rw [hm] at h
        simp only [Option.map_some] at h
        injection h with h; subst h
        rw [encodeAll_cons, encodeAll_cons, List.length_append, List.length_append, hf c r' hr,
          mapRunes_encode_length f hf hm]

/-- on VALID input `lower` keeps even the byte length: every table entry stays within its encoded-length class -/
theorem lower_byte_length_valid {s out : Bytes} (hs : validUTF8 s = true) (h : lower (.str s) = .ok (.str out)) :
    out.length = s.length := by
  obtain ⟨rs, hm, hv⟩ := caseMap_ok lowerRune lowerRune_ascii' (s := s) h
  injection hv with hv; subst hv
  rw [mapRunes_encode_length lowerRune (fun _ _ hr => band_encode_length (lowerRune_band hr)) hm]
  exact congrArg List.length (validUTF8_decode s hs).2.symm
/-- the same for `upper` -/
theorem upper_byte_length_valid {s out : Bytes} (hs : validUTF8 s = true) (h : upper (.str s) = .ok (.str out)) :
    out.length = s.length := by
  obtain ⟨rs, hm, hv⟩ := caseMap_ok upperRune upperRune_ascii' (s := s) h
  injection hv with hv; subst hv
  rw [mapRunes_encode_length upperRune (fun _ _ hr => band_encode_length (upperRune_band hr)) hm]
  exact congrArg List.length (validUTF8_decode s hs).2.symm

example : ([0xC5, 0xB8, 0xCE, 0x9C] : Bytes).length = ([0xC3, 0xBF, 0xC2, 0xB5] : Bytes).length :=
  upper_byte_length_valid (s := [0xC3, 0xBF, 0xC2, 0xB5]) (by decide) rfl
/-- (validity is needed: the invalid "\xFF" has 1 byte, lower("\xFF") = "�" has 3) -/
example : lower (.str [0xFF]) = .ok (.str [0xEF, 0xBF, 0xBD]) := rfl

/-! ### on expression text -/

/-- evaluation of `f(g(@))` for one-argument builtins -/
theorem evaluate_call_call (f g : Fn) (d : Val) :
    evaluate (.call f [.call g [.current]]) d = (applyFn g [d] >>= fun v => applyFn f [v]) := by
  simp only [evaluate, ieval, ievalList, Res.ok_bind, Res.pure_eq]
  cases applyFn g [d] <;> rfl

/-- `lower(@)` on text is the builtin applied to the document -/
theorem lower_text_any (d : Val) : search (Ex.bs "lower(@)") d = lower d := by
  rw [(C17B.text (t := tFn "lower" [tCur]) (by decide) (by decide)).2 d]; rfl
/-- `upper(@)` on text is the builtin applied to the document -/
theorem upper_text_any (d : Val) : search (Ex.bs "upper(@)") d = upper d := by
  rw [(C17B.text (t := tFn "upper" [tCur]) (by decide) (by decide)).2 d]; rfl
/-- `length(@)` on text is the builtin applied to the document -/
theorem length_text_any (d : Val) : search (Ex.bs "length(@)") d = length d := by
  rw [(C17B.text (t := tFn "length" [tCur]) (by decide) (by decide)).2 d]; rfl
/-- `length(lower(@))` on text: `lower`, then `length` of its result -/
theorem length_lower_text_any (d : Val) : search (Ex.bs "length(lower(@))") d = (lower d >>= length) := by
  rw [(C17B.text (t := tFn "length" [tFn "lower" [tCur]]) (by decide) (by decide)).2 d]
  exact evaluate_call_call .length .lower d
/-- `length(upper(@))` on text: `upper`, then `length` of its result -/
theorem length_upper_text_any (d : Val) : search (Ex.bs "length(upper(@))") d = (upper d >>= length) := by
  rw [(C17B.text (t := tFn "length" [tFn "upper" [tCur]]) (by decide) (by decide)).2 d]
  exact evaluate_call_call .length .upper d

/-- **`length(lower(@)) = length(@)` on text**, for every string document (valid UTF-8 or not) on which `lower(@)`
    answers at all -/
theorem length_lower_text (s : Bytes) {v : Val} (h : search (Ex.bs "lower(@)") (.str s) = .ok v) :
    search (Ex.bs "length(lower(@))") (.str s) = search (Ex.bs "length(@)") (.str s) := by
  rw [lower_text_any] at h
  obtain ⟨out, rfl⟩ := lower_str_shape s v h
  rw [length_lower_text_any, length_text_any, h]
  show Res.ok (Val.num (.int .i64 (runeCount out))) = Res.ok (Val.num (.int .i64 (runeCount s)))
  rw [lower_length h]

/-- **`length(upper(@)) = length(@)` on text** -/
theorem length_upper_text (s : Bytes) {v : Val} (h : search (Ex.bs "upper(@)") (.str s) = .ok v) :
    search (Ex.bs "length(upper(@))") (.str s) = search (Ex.bs "length(@)") (.str s) := by
  rw [upper_text_any] at h
  obtain ⟨out, rfl⟩ := upper_str_shape s v h
  rw [length_upper_text_any, length_text_any, h]
  show Res.ok (Val.num (.int .i64 (runeCount out))) = Res.ok (Val.num (.int .i64 (runeCount s)))
  rw [upper_length h]

/-- the only other outcome on a string is `unmodelled` (then `length(lower(@))` is `unmodelled` too) -/
theorem length_lower_text_unmodelled (s : Bytes) (h : ∀ v, search (Ex.bs "lower(@)") (.str s) ≠ .ok v) :
    search (Ex.bs "length(lower(@))") (.str s) = .unmodelled "case mapping outside the modelled alphabets" := by
  rw [length_lower_text_any]
  rcases lower_total s with ⟨out, ho⟩ | hu
  · exact absurd ((lower_text_any _).trans ho) (h _)
  · rw [hu]; rfl

/-- length(upper("ÿµé")) = length("ÿµé") = 3; length(lower("H\xC3É\xFF")) = 4 -/
example : search (Ex.bs "length(upper(@))") (.str [0xC3, 0xBF, 0xC2, 0xB5, 0xC3, 0xA9])
    = search (Ex.bs "length(@)") (.str [0xC3, 0xBF, 0xC2, 0xB5, 0xC3, 0xA9]) :=
  length_upper_text _ (v := .str [0xC5, 0xB8, 0xCE, 0x9C, 0xC3, 0x89]) ((upper_text_any _).trans rfl)
example : search (Ex.bs "length(@)") (.str [0xC3, 0xBF, 0xC2, 0xB5, 0xC3, 0xA9]) = .ok (.num (.int .i64 3)) :=
  (length_text_any _).trans rfl
example : search (Ex.bs "length(lower(@))") (.str [0x48, 0xC3, 0xC3, 0x89, 0xFF])
    = search (Ex.bs "length(@)") (.str [0x48, 0xC3, 0xC3, 0x89, 0xFF]) :=
  length_lower_text _ (v := .str [0x68, 0xEF, 0xBF, 0xBD, 0xC3, 0xA9, 0xEF, 0xBF, 0xBD]) ((lower_text_any _).trans rfl)
example : search (Ex.bs "length(lower(@))") (.str [0xC4, 0xB0])
    = .unmodelled "case mapping outside the modelled alphabets" :=
  length_lower_text_unmodelled _ (fun v h => by rw [lower_text_any] at h; cases h)

/-! ## C / D. `split`: one specification for every subject, separator and count

  The existing `C11C.split_leftmost` / `split_count_leftmost` need a non-empty subject and a non-empty separator.
  The remaining cases are NOT leftmost splits:
    * count `0`: no cut — the one piece is the subject (even the empty subject: `[""]`);
    * empty subject (count ≠ 0): NO piece at all (`[]`; Go's `strings.Split("", sep)` would give `[""]`, and
      `LeftmostSplit` too — the evaluator returns early);
    * empty separator: one piece per CODE POINT; with a count `k`, `k` single code points and the remainder whole. -/

open Jmes.C11C.Split

/-- the pieces of a split on the empty separator: every code point on its own; with at most `k` cuts the first `k`
    code points on their own and the rest in one piece -/
def cpSplitRunes (cs : List Nat) : Option Nat → List (List Nat)
  | none => cs.map ([·])
  | some k => if k + 1 ≥ cs.length then cs.map ([·]) else (cs.take k).map ([·]) ++ [cs.drop k]

/-- one-element pieces concatenate to the list -/
theorem flatten_map_singleton (cs : List Nat) : (cs.map ([·])).flatten = cs := by
  induction cs with
  | nil => rfl
  | cons c cs ih => simp only [List.map_cons, List.flatten_cons, ih, List.singleton_append]

/-- the pieces are consecutive and cover the subject -/
theorem cpSplitRunes_flatten (cs : List Nat) (n : Option Nat) : (cpSplitRunes cs n).flatten = cs := by
  cases n with
  | none => exact flatten_map_singleton cs
  | some k =>
    simp only [cpSplitRunes]
    split
    · exact flatten_map_singleton cs
    · rw [List.flatten_append, flatten_map_singleton, List.flatten_singleton, List.take_append_drop]

/-- their number: one per code point, but at most `k + 1` -/
theorem cpSplitRunes_length (cs : List Nat) (n : Option Nat) :
    (cpSplitRunes cs n).length = match n with | none => cs.length | some k => min (k + 1) cs.length := by
  cases n with
  | none => simp only [cpSplitRunes, List.length_map]
  | some k =>
    simp only [cpSplitRunes]
    split
    · rw [List.length_map]; omega
    · rw [List.length_append, List.length_map, List.length_take, List.length_singleton]; omega

/-- every piece except the last one is exactly ONE code point -/
theorem cpSplitRunes_single (cs : List Nat) (n : Option Nat) : ∀ p ∈ (cpSplitRunes cs n).dropLast, p.length = 1 := by
  have hall : ∀ l : List Nat, ∀ p ∈ l.map ([·]), p.length = 1 := by
    intro l p hp; obtain ⟨c, _, rfl⟩ := List.mem_map.1 hp; rfl
  intro p hp
  cases n with
  | none => exact hall cs p (List.dropLast_subset _ hp)
  | some k =>
    simp only [cpSplitRunes] at hp
    split at hp
    · exact hall cs p (List.dropLast_subset _ hp)
    · rw [List.dropLast_concat] at hp; exact hall _ p hp

/-- "héllo": 5 pieces; with 2 cuts "h", "é", "llo" -/
example : cpSplitRunes [0x68, 0xE9, 0x6C, 0x6C, 0x6F] none = [[0x68], [0xE9], [0x6C], [0x6C], [0x6F]] := by decide
example : cpSplitRunes [0x68, 0xE9, 0x6C, 0x6C, 0x6F] (some 2) = [[0x68], [0xE9], [0x6C, 0x6C, 0x6F]] := by decide
example : (cpSplitRunes [0x68, 0xE9, 0x6C, 0x6C, 0x6F] (some 2)).length = 3 := by
  rw [cpSplitRunes_length]; decide
example : (cpSplitRunes [0x68, 0xE9, 0x6C, 0x6C, 0x6F] (some 2)).flatten = [0x68, 0xE9, 0x6C, 0x6C, 0x6F] :=
  cpSplitRunes_flatten _ _

/-- the encoding of a one-code-point piece is the encoding of the code point -/
theorem map_encodeAll_singletons (cs : List Nat) : (cs.map ([·])).map encodeAll = cs.map encodeRune := by
  rw [List.map_map]; congr 1; funext c; exact encodeAll_singleton c

/-- the encoded pieces, unlimited: one `encodeRune` per code point -/
theorem cpSplitRunes_encode_none (cs : List Nat) : (cpSplitRunes cs none).map encodeAll = cs.map encodeRune :=
  map_encodeAll_singletons cs

/-- the encoded pieces with a limit, in the form `C11B.split_count_empty_sep_codepoints_any` uses -/
theorem cpSplitRunes_encode_some (cs : List Nat) (k : Nat) : (cpSplitRunes cs (some k)).map encodeAll =
    if k + 1 ≥ cs.length then cs.map encodeRune else (cs.take k).map encodeRune ++ [encodeAll (cs.drop k)] := by
  simp only [cpSplitRunes]
  split
  · exact map_encodeAll_singletons cs
  · rw [List.map_append, map_encodeAll_singletons]; rfl

/-- **the specification of `split`**, for every separator `ps`, limit `n` (`none`: unlimited), subject `cs` -/
def SplitSpec (ps : List Nat) (n : Option Nat) (cs : List Nat) (pieces : List (List Nat)) : Prop :=
  if n = some 0 then pieces = [cs]
  else if cs = [] then pieces = []
  else if ps = [] then pieces = cpSplitRunes cs n
  else LeftmostSplit ps n cs pieces

/-- the pieces the specification determines -/
def cpSplit (ps : List Nat) (n : Option Nat) (cs : List Nat) : List (List Nat) :=
  if n = some 0 then [cs] else if cs = [] then [] else if ps = [] then cpSplitRunes cs n else splitOn cs ps n

/-- the specification is satisfied by exactly one list of pieces -/
theorem splitSpec_iff (ps : List Nat) (n : Option Nat) (cs : List Nat) (pieces : List (List Nat)) :
    SplitSpec ps n cs pieces ↔ pieces = cpSplit ps n cs := by
  unfold SplitSpec cpSplit
  by_cases h0 : n = some 0
  · rw [if_pos h0, if_pos h0]
  · rw [if_neg h0, if_neg h0]
    by_cases hc : cs = []
    · rw [if_pos hc, if_pos hc]
    · rw [if_neg hc, if_neg hc]
      by_cases hp : ps = []
      · rw [if_pos hp, if_pos hp]
      · rw [if_neg hp, if_neg hp]; exact leftmostSplit_iff ps cs n pieces hp

/-- existence and uniqueness of the specified pieces -/
theorem splitSpec_exists_unique (ps : List Nat) (n : Option Nat) (cs : List Nat) :
    ∃ pieces, SplitSpec ps n cs pieces ∧ ∀ q, SplitSpec ps n cs q → q = pieces :=
  ⟨cpSplit ps n cs, (splitSpec_iff ps n cs _).2 rfl, fun q hq => (splitSpec_iff ps n cs q).1 hq⟩

/-- whatever the case, the pieces are consecutive parts of the subject separated by the separator: joining them with
    the separator gives the subject back — except for the empty subject with a non-zero limit, which has no piece
    (and joins to the empty subject as well) -/
theorem cpSplit_join (ps : List Nat) (n : Option Nat) (cs : List Nat) : joinStrs ps (cpSplit ps n cs) = cs := by
  unfold cpSplit
  by_cases h0 : n = some 0
  · rw [if_pos h0]; rfl
  · rw [if_neg h0]
    by_cases hc : cs = []
    · rw [if_pos hc, hc]; rfl
    · rw [if_neg hc]
      by_cases hp : ps = []
      · rw [if_pos hp, hp]
        have : ∀ l : List (List Nat), joinStrs [] l = l.flatten := by
          intro l
          induction l with
          | nil => rfl
          | cons a l ih =>
            cases l with
            | nil => simp [joinStrs]
            | cons b l => rw [joinStrs_cons_cons, ih]; simp
        rw [this, cpSplitRunes_flatten]
      · rw [if_neg hp]; exact splitOn_join_limit cs ps n

example : SplitSpec [0xE9, 0xE9] none [0xE9, 0xE9, 0xE9] [[], [0xE9]] := (splitSpec_iff _ _ _ _).2 (by decide)
example : SplitSpec [] none [0x68, 0xE9] [[0x68], [0xE9]] := (splitSpec_iff _ _ _ _).2 (by decide)
example : SplitSpec [0xE9] (some 3) [] [] := (splitSpec_iff _ _ _ _).2 (by decide)
example : SplitSpec [0xE9] (some 0) [] [[]] := (splitSpec_iff _ _ _ _).2 (by decide)
/-- (the empty subject is a special case of the evaluator, not of the leftmost split, which has one empty piece) -/
example : LeftmostSplit [0xE9] none [] [[]] := (leftmostSplit_iff _ _ _ _ (by decide)).2 (by decide)
example : joinStrs [0xE9, 0xE9] (cpSplit [0xE9, 0xE9] none [0xE9, 0xE9, 0xE9]) = [0xE9, 0xE9, 0xE9] := cpSplit_join _ _ _

/-- `split(s, '')` for EVERY valid subject, the empty one included: one string per code point -/
theorem split_empty_sep_any (cs : List Nat) (h : Scalars cs) :
    split (.str (encodeAll cs)) (.str []) = .ok (strsToArr (cs.map encodeRune)) := by
  by_cases hne : cs = []
  · subst hne; rfl
  · rw [C11.split_empty_sep_codepoints cs h hne, strsToArr, List.map_map]; rfl

example : split (.str [0x68, 0xC3, 0xA9, 0xF0, 0x9F, 0x98, 0x80]) (.str [])
    = .ok (.arr .plain [.str [0x68], .str [0xC3, 0xA9], .str [0xF0, 0x9F, 0x98, 0x80]]) :=
  split_empty_sep_any [0x68, 0xE9, 0x1F600] (by unfold Scalars; decide)

/-- **`split(s, sep)` for ALL valid subjects and separators** (either may be empty): the result is the array of the
    encodings of the unique pieces the specification `SplitSpec` determines — nothing (empty subject), one piece per
    code point (empty separator), or the leftmost-first split in code points -/
theorem split_spec (cs ps : List Nat) (hcs : Scalars cs) (hps : Scalars ps) (pieces : List (List Nat))
    (h : SplitSpec ps none cs pieces) :
    split (.str (encodeAll cs)) (.str (encodeAll ps)) = .ok (strsToArr (pieces.map encodeAll)) := by
  rw [(splitSpec_iff ps none cs pieces).1 h]
  unfold cpSplit
  rw [if_neg (by simp)]
  by_cases hc : cs = []
  · subst hc; rfl
  · rw [if_neg hc]
    by_cases hp : ps = []
    · subst hp; rw [if_pos rfl, cpSplitRunes_encode_none]; exact split_empty_sep_any cs hcs
    · rw [if_neg hp]; exact split_sep_codepoints cs ps hcs hps hc hp

/-- existence and uniqueness in one statement -/
theorem split_spec_unique (cs ps : List Nat) (hcs : Scalars cs) (hps : Scalars ps) :
    ∃ pieces, SplitSpec ps none cs pieces ∧ (∀ q, SplitSpec ps none cs q → q = pieces) ∧
      split (.str (encodeAll cs)) (.str (encodeAll ps)) = .ok (strsToArr (pieces.map encodeAll)) := by
  obtain ⟨pieces, h1, h2⟩ := splitSpec_exists_unique ps none cs
  exact ⟨pieces, h1, h2, split_spec cs ps hcs hps pieces h1⟩

/-- **`split(s, sep, n)` for ALL valid subjects and separators and every count `n ≥ 0`** (in any numeric
    representation accepted as an integer) -/
theorem split_count_spec (cs ps : List Nat) (hcs : Scalars cs) (hps : Scalars ps) {v : Val} {n : Int}
    (hv : intArg v = .ok n) (hn : 0 ≤ n) (pieces : List (List Nat)) (h : SplitSpec ps (some n.toNat) cs pieces) :
    splitCount (.str (encodeAll cs)) (.str (encodeAll ps)) v = .ok (strsToArr (pieces.map encodeAll)) := by
  rw [(splitSpec_iff ps _ cs pieces).1 h]
  unfold cpSplit
  by_cases h0 : n = 0
  · subst h0
    rw [if_pos (show some (Int.toNat 0) = some 0 from rfl), Jmes.C11B.splitCount_intArg _ _ hv]; rfl
  · have hpos : 0 < n := by omega
    rw [if_neg (by simp; omega)]
    by_cases hc : cs = []
    · subst hc
      rw [if_pos rfl, Jmes.C11B.splitCount_intArg _ _ hv, splitCount_str, if_neg (by omega), if_neg h0]; rfl
    · rw [if_neg hc]
      by_cases hp : ps = []
      · subst hp
        rw [if_pos rfl, cpSplitRunes_encode_some]
        exact Jmes.C11B.split_count_empty_sep_codepoints_any cs hcs hc hv hpos
      · rw [if_neg hp]
        exact Jmes.C11B.split_count_sep_codepoints_any cs ps hcs hps hc hp hv hpos

/-- a negative count is `invalid-value`, whatever the strings -/
theorem split_count_negative (s p : Bytes) {v : Val} {n : Int} (hv : intArg v = .ok n) (hn : n < 0) :
    splitCount (.str s) (.str p) v = errValue := by
  rw [Jmes.C11B.splitCount_intArg _ _ hv, splitCount_str, if_pos hn]

/-- split("", "é") = [] (not [""]);  split("hé", "") = ["h", "é"];  split("ééé", "éé") = ["", "é"] -/
example : split (.str (encodeAll [])) (.str (encodeAll [0xE9])) = .ok (.arr .plain []) :=
  split_spec [] [0xE9] Scalars.nil (by unfold Scalars; decide) [] ((splitSpec_iff _ _ _ _).2 (by decide))
example : split (.str (encodeAll [0x68, 0xE9])) (.str (encodeAll [])) = .ok (.arr .plain [.str [0x68], .str [0xC3, 0xA9]]) :=
  split_spec [0x68, 0xE9] [] (by unfold Scalars; decide) Scalars.nil [[0x68], [0xE9]] ((splitSpec_iff _ _ _ _).2 (by decide))
example : split (.str (encodeAll [0xE9, 0xE9, 0xE9])) (.str (encodeAll [0xE9, 0xE9]))
    = .ok (.arr .plain [.str [], .str [0xC3, 0xA9]]) :=
  split_spec [0xE9, 0xE9, 0xE9] [0xE9, 0xE9] (by unfold Scalars; decide) (by unfold Scalars; decide) [[], [0xE9]]
    ((splitSpec_iff _ _ _ _).2 (by decide))
/-- split("", "é", `0`) = [""]: with count 0 even the empty subject is one piece;  split("", "é", `1`) = [];
    split("héé", "", `1`) = ["h", "éé"];  split("hé", "", -1) is an error -/
example : splitCount (.str (encodeAll [])) (.str (encodeAll [0xE9])) (.num (.jnum [0x30])) = .ok (.arr .plain [.str []]) :=
  split_count_spec [] [0xE9] Scalars.nil (by unfold Scalars; decide) (Jmes.C11B.intArg_jnum (t := [0x30]) (i := 0) (by decide))
    (by decide) [[]] ((splitSpec_iff _ _ _ _).2 (by decide))
example : splitCount (.str (encodeAll [])) (.str (encodeAll [0xE9])) (.num (.jnum [0x31])) = .ok (.arr .plain []) :=
  split_count_spec [] [0xE9] Scalars.nil (by unfold Scalars; decide) (Jmes.C11B.intArg_jnum (t := [0x31]) (i := 1) (by decide))
    (by decide) [] ((splitSpec_iff _ _ _ _).2 (by decide))
example : splitCount (.str (encodeAll [0x68, 0xE9, 0xE9])) (.str (encodeAll [])) (.num (.jnum [0x31]))
    = .ok (.arr .plain [.str [0x68], .str [0xC3, 0xA9, 0xC3, 0xA9]]) :=
  split_count_spec [0x68, 0xE9, 0xE9] [] (by unfold Scalars; decide) Scalars.nil
    (Jmes.C11B.intArg_jnum (t := [0x31]) (i := 1) (by decide)) (by decide) [[0x68], [0xE9, 0xE9]]
    ((splitSpec_iff _ _ _ _).2 (by decide))
example : splitCount (.str [0x68, 0xC3, 0xA9]) (.str []) (.num (.int .i64 (-1))) = errValue :=
  split_count_negative _ _ (n := -1) rfl (by decide)

/-! ### the empty separator on expression text -/

/-- `split(@, '')` on text is the builtin applied to the document and the empty string -/
theorem split_empty_text_any (d : Val) : search (Ex.bs "split(@, '')") d = split d (.str []) := by
  rw [(C17B.text (t := tFn "split" [tCur, tRaw "''"]) (by decide) (by decide)).2 d]; rfl

/-- **`split(@, '')` on text**: one string per code point of the (valid) document string, none for the empty string -/
theorem split_empty_text (cs : List Nat) (h : Scalars cs) :
    search (Ex.bs "split(@, '')") (.str (encodeAll cs)) = .ok (strsToArr (cs.map encodeRune)) :=
  (split_empty_text_any _).trans (split_empty_sep_any cs h)

/-- "hé😀" (7 bytes) ↦ ["h", "é", "😀"] -/
example : search (Ex.bs "split(@, '')") (.str [0x68, 0xC3, 0xA9, 0xF0, 0x9F, 0x98, 0x80])
    = .ok (.arr .plain [.str [0x68], .str [0xC3, 0xA9], .str [0xF0, 0x9F, 0x98, 0x80]]) :=
  split_empty_text [0x68, 0xE9, 0x1F600] (by unfold Scalars; decide)

/-- the node of `split(E, '', <literal count>)` with the count given as any literal value `v` that is an integer
    `n ≥ 0`: the pieces are `cpSplitRunes` with at most `n` cuts (and the whole subject for `n = 0`) -/
theorem split_empty_count_node (cs : List Nat) (h : Scalars cs) {v : Val} {n : Int} (hv : intArg v = .ok n)
    (hn : 0 ≤ n) :
    evaluate (.call .splitCount [.current, .lit (.str []), .lit v]) (.str (encodeAll cs))
      = .ok (strsToArr ((cpSplit [] (some n.toNat) cs).map encodeAll)) :=
  split_count_spec cs [] h Scalars.nil hv hn _ ((splitSpec_iff _ _ _ _).2 rfl)

/-- ``split(@, '', `0`)`` on text is the three-argument builtin with the JSON number `0` -/
theorem split_empty_count_text_any0 (d : Val) :
    search (Ex.bs "split(@, '', `0`)") d = splitCount d (.str []) (.num (.jnum [0x30])) := by
  rw [(C17B.text (t := tFn "split" [tCur, tRaw "''", tJson "`0`"]) (by decide) (by decide)).2 d]; rfl
/-- ``split(@, '', `1`)`` on text is the three-argument builtin with the JSON number `1` -/
theorem split_empty_count_text_any1 (d : Val) :
    search (Ex.bs "split(@, '', `1`)") d = splitCount d (.str []) (.num (.jnum [0x31])) := by
  rw [(C17B.text (t := tFn "split" [tCur, tRaw "''", tJson "`1`"]) (by decide) (by decide)).2 d]; rfl
/-- ``split(@, '', `2`)`` on text is the three-argument builtin with the JSON number `2` -/
theorem split_empty_count_text_any2 (d : Val) :
    search (Ex.bs "split(@, '', `2`)") d = splitCount d (.str []) (.num (.jnum [0x32])) := by
  rw [(C17B.text (t := tFn "split" [tCur, tRaw "''", tJson "`2`"]) (by decide) (by decide)).2 d]; rfl

/-- **``split(@, '', `0`)`` on text**: no cut, the subject is the one piece -/
theorem split_empty_count_text0 (cs : List Nat) (h : Scalars cs) :
    search (Ex.bs "split(@, '', `0`)") (.str (encodeAll cs)) = .ok (strsToArr [encodeAll cs]) :=
  (split_empty_count_text_any0 _).trans
    (split_count_spec cs [] h Scalars.nil (Jmes.C11B.intArg_jnum (t := [0x30]) (i := 0) (by decide)) (by decide) [cs]
      ((splitSpec_iff _ _ _ _).2 rfl))

/-- **``split(@, '', `1`)`` on text**: the first CODE POINT and the rest (nothing for the empty string, one piece
    for a single code point) -/
theorem split_empty_count_text1 (cs : List Nat) (h : Scalars cs) :
    search (Ex.bs "split(@, '', `1`)") (.str (encodeAll cs))
      = .ok (strsToArr ((if cs = [] then [] else cpSplitRunes cs (some 1)).map encodeAll)) :=
  (split_empty_count_text_any1 _).trans
    (split_count_spec cs [] h Scalars.nil (Jmes.C11B.intArg_jnum (t := [0x31]) (i := 1) (by decide)) (by decide) _
      ((splitSpec_iff _ _ _ _).2 rfl))

/-- **``split(@, '', `2`)`` on text**: the first two code points, each on its own, and the rest -/
theorem split_empty_count_text2 (cs : List Nat) (h : Scalars cs) :
    search (Ex.bs "split(@, '', `2`)") (.str (encodeAll cs))
      = .ok (strsToArr ((if cs = [] then [] else cpSplitRunes cs (some 2)).map encodeAll)) :=
  (split_empty_count_text_any2 _).trans
    (split_count_spec cs [] h Scalars.nil (Jmes.C11B.intArg_jnum (t := [0x32]) (i := 2) (by decide)) (by decide) _
      ((splitSpec_iff _ _ _ _).2 rfl))

/-- "é😀héllo" with 0, 1, 2 cuts -/
example : search (Ex.bs "split(@, '', `0`)") (.str [0xC3, 0xA9, 0xF0, 0x9F, 0x98, 0x80, 0x68])
    = .ok (.arr .plain [.str [0xC3, 0xA9, 0xF0, 0x9F, 0x98, 0x80, 0x68]]) :=
  split_empty_count_text0 [0xE9, 0x1F600, 0x68] (by unfold Scalars; decide)
example : search (Ex.bs "split(@, '', `1`)") (.str [0xC3, 0xA9, 0xF0, 0x9F, 0x98, 0x80, 0x68])
    = .ok (.arr .plain [.str [0xC3, 0xA9], .str [0xF0, 0x9F, 0x98, 0x80, 0x68]]) :=
  split_empty_count_text1 [0xE9, 0x1F600, 0x68] (by unfold Scalars; decide)
example : search (Ex.bs "split(@, '', `2`)") (.str [0xC3, 0xA9, 0xF0, 0x9F, 0x98, 0x80, 0x68])
    = .ok (.arr .plain [.str [0xC3, 0xA9], .str [0xF0, 0x9F, 0x98, 0x80], .str [0x68]]) :=
  split_empty_count_text2 [0xE9, 0x1F600, 0x68] (by unfold Scalars; decide)
example : evaluate (.call .splitCount [.current, .lit (.str []), .lit (.num (.int .i64 1))]) (.str (encodeAll [0xE9, 0x1F600, 0x68]))
    = .ok (.arr .plain [.str [0xC3, 0xA9], .str [0xF0, 0x9F, 0x98, 0x80, 0x68]]) :=
  split_empty_count_node [0xE9, 0x1F600, 0x68] (by unfold Scalars; decide) (n := 1) rfl (by decide)

/-! ## E. `trim` on subjects that are NOT valid UTF-8

  Go's `strings.TrimLeftFunc` / `TrimLeft` walk the subject with `utf8.DecodeRuneInString`, `TrimRightFunc` /
  `TrimRight` with `utf8.DecodeLastRuneInString`: an invalid byte is ONE step of width 1 whose rune is U+FFFD. So the
  subject is cut at step boundaries only, what is kept are the ORIGINAL bytes (nothing is re-encoded), and an invalid
  byte is trimmed exactly when U+FFFD passes the predicate: never by the default cutset (white space), and for a
  literal cutset exactly when the cutset contains U+FFFD (written as the character, or as any invalid byte). -/

/-- the forward decoding steps of a byte string: the rune of each step and the bytes it consumed -/
def runeStepsAux : Nat → Bytes → List (Nat × Bytes)
  | 0, _ => []
  | _, [] => []
  | fuel + 1, b :: bs =>
    ((decodeRune (b :: bs)).1, (b :: bs).take (decodeRune (b :: bs)).2)
      :: runeStepsAux fuel ((b :: bs).drop (decodeRune (b :: bs)).2)
/-- the forward decoding steps of `s` (fuel = length) -/
def runeSteps (s : Bytes) : List (Nat × Bytes) := runeStepsAux s.length s

/-- the backward decoding steps (`DecodeLastRuneInString`), last step first -/
def lastStepsAux : Nat → Bytes → List (Nat × Bytes)
  | 0, _ => []
  | _, [] => []
  | fuel + 1, b :: bs =>
    ((decodeLastRune (b :: bs)).1, (b :: bs).drop ((b :: bs).length - (decodeLastRune (b :: bs)).2))
      :: lastStepsAux fuel ((b :: bs).take ((b :: bs).length - (decodeLastRune (b :: bs)).2))
/-- the backward decoding steps of `s` (fuel = length) -/
def lastSteps (s : Bytes) : List (Nat × Bytes) := lastStepsAux s.length s

/-- "a", the invalid byte FF, "é", a truncated "é" (C3 alone) -/
example : runeSteps [0x61, 0xFF, 0xC3, 0xA9, 0xC3] = [(0x61, [0x61]), (0xFFFD, [0xFF]), (0xE9, [0xC3, 0xA9]), (0xFFFD, [0xC3])] := by
  decide
example : lastSteps [0x61, 0xFF, 0xC3, 0xA9, 0xC3] = [(0xFFFD, [0xC3]), (0xE9, [0xC3, 0xA9]), (0xFFFD, [0xFF]), (0x61, [0x61])] := by
  decide
/-- a stray continuation byte after "é" is its own (invalid) step when read from the end, too -/
example : lastSteps [0xC3, 0xA9, 0xA9] = [(0xFFFD, [0xA9]), (0xE9, [0xC3, 0xA9])] := by decide

/-- unfolding of the forward steps on a non-empty string -/
theorem runeStepsAux_succ (fuel : Nat) (s : Bytes) (h : s ≠ []) :
    runeStepsAux (fuel + 1) s = ((decodeRune s).1, s.take (decodeRune s).2) :: runeStepsAux fuel (s.drop (decodeRune s).2) := by
  cases s with
  | nil => exact absurd rfl h
  | cons b bs => rfl
/-- the empty string has no step -/
theorem runeStepsAux_nil (fuel : Nat) : runeStepsAux fuel [] = [] := by cases fuel <;> rfl
/-- unfolding of the backward steps on a non-empty string -/
theorem lastStepsAux_succ (fuel : Nat) (s : Bytes) (h : s ≠ []) :
    lastStepsAux (fuel + 1) s = ((decodeLastRune s).1, s.drop (s.length - (decodeLastRune s).2))
      :: lastStepsAux fuel (s.take (s.length - (decodeLastRune s).2)) := by
  cases s with
  | nil => exact absurd rfl h
  | cons b bs => rfl
/-- the empty string has no step -/
theorem lastStepsAux_nil (fuel : Nat) : lastStepsAux fuel [] = [] := by cases fuel <;> rfl

/-- a forward step consumes at least one byte -/
theorem drop_step_length (s : Bytes) (h : s ≠ []) {f : Nat} (hf : s.length ≤ f + 1) :
    (s.drop (decodeRune s).2).length ≤ f := by
  have := C09.decodeRune_pos s h
  rw [List.length_drop]; omega
/-- a backward step consumes at least one byte -/
theorem take_step_length (s : Bytes) (h : s ≠ []) {f : Nat} (hf : s.length ≤ f + 1) :
    (s.take (s.length - (decodeLastRune s).2)).length ≤ f := by
  have := C09.decodeLastRune_pos s h
  rw [List.length_take]; omega

/-- the forward steps tile the string -/
theorem runeStepsAux_flatten : ∀ (f : Nat) (s : Bytes), s.length ≤ f → ((runeStepsAux f s).map (·.2)).flatten = s
  | 0, s, h => by
    have : s = [] := List.length_eq_zero_iff.1 (by omega)
    subst this; rfl
  | f + 1, [], _ => rfl
  | f + 1, b :: bs, h => by
    rw [runeStepsAux_succ f _ (List.cons_ne_nil _ _), List.map_cons, List.flatten_cons,
      runeStepsAux_flatten f _ (drop_step_length _ (List.cons_ne_nil _ _) h), List.take_append_drop]

/-- the backward steps tile the string (read in reverse order) -/
theorem lastStepsAux_flatten : ∀ (f : Nat) (s : Bytes), s.length ≤ f →
    ((lastStepsAux f s).map (·.2)).reverse.flatten = s
  | 0, s, h => by
    have : s = [] := List.length_eq_zero_iff.1 (by omega)
    subst this; rfl
  | f + 1, [], _ => rfl
  | f + 1, b :: bs, h => by
    rw [lastStepsAux_succ f _ (List.cons_ne_nil _ _), List.map_cons, List.reverse_cons, List.flatten_append,
      lastStepsAux_flatten f _ (take_step_length _ (List.cons_ne_nil _ _) h), List.flatten_singleton,
      List.take_append_drop]

/-- the forward steps tile the string (fuel = length) -/
theorem runeSteps_flatten (s : Bytes) : ((runeSteps s).map (·.2)).flatten = s := runeStepsAux_flatten _ s (Nat.le_refl _)
theorem lastSteps_flatten (s : Bytes) : ((lastSteps s).map (·.2)).reverse.flatten = s :=
  lastStepsAux_flatten _ s (Nat.le_refl _)

/-- the runes of the forward steps are `decodeAll s` (what `length`, `lower`, the cutset … see) -/
theorem runeStepsAux_fst : ∀ (f : Nat) (s : Bytes), (runeStepsAux f s).map (·.1) = decodeAllAux f s
  | 0, _ => rfl
  | _ + 1, [] => rfl
  | f + 1, b :: bs => by
    rw [runeStepsAux_succ f _ (List.cons_ne_nil _ _), decodeAllAux_succ f _ (List.cons_ne_nil _ _), List.map_cons,
      runeStepsAux_fst f]
/-- the runes of `runeSteps s` are `decodeAll s` -/
theorem runeSteps_fst (s : Bytes) : (runeSteps s).map (·.1) = decodeAll s := runeStepsAux_fst _ s

/-- the byte pieces of the forward steps are `runePieces s` (what `split(s, '')` returns) -/
theorem runeStepsAux_snd : ∀ (f : Nat) (s : Bytes), (runeStepsAux f s).map (·.2) = runePiecesAux f s
  | 0, _ => rfl
  | _ + 1, [] => rfl
  | f + 1, b :: bs => by
    rw [runeStepsAux_succ f _ (List.cons_ne_nil _ _), runePiecesAux_succ f _ (List.cons_ne_nil _ _), List.map_cons,
      runeStepsAux_snd f]
/-- the byte pieces of `runeSteps s` are `runePieces s` -/
theorem runeSteps_snd (s : Bytes) : (runeSteps s).map (·.2) = runePieces s := runeStepsAux_snd _ s

example : (runeSteps [0x61, 0xFF, 0xC3, 0xA9]).map (·.1) = decodeAll [0x61, 0xFF, 0xC3, 0xA9] := runeSteps_fst _
example : ((runeSteps [0x61, 0xFF, 0xC3, 0xA9]).map (·.2)).flatten = [0x61, 0xFF, 0xC3, 0xA9] := runeSteps_flatten _
example : ((lastSteps [0x61, 0xFF, 0xC3, 0xA9]).map (·.2)).reverse.flatten = [0x61, 0xFF, 0xC3, 0xA9] := lastSteps_flatten _

/-- `trimLeftBy` with enough fuel, in terms of the forward steps -/
theorem trimLeftBy_steps (p : Nat → Bool) : ∀ (f : Nat) (s : Bytes), s.length ≤ f →
    trimLeftBy p f s = (((runeStepsAux f s).dropWhile (fun x => p x.1)).map (·.2)).flatten
  | 0, s, h => by
    have : s = [] := List.length_eq_zero_iff.1 (by omega)
    subst this; rfl
  | f + 1, [], _ => rfl
  | f + 1, b :: bs, h => by
    have hne : b :: bs ≠ [] := List.cons_ne_nil _ _
    rw [trimLeftBy_succ p f _ hne, runeStepsAux_succ f _ hne, List.dropWhile_cons]
    by_cases hp : p (decodeRune (b :: bs)).1 = true
    · rw [if_pos hp, if_pos hp]; exact trimLeftBy_steps p f _ (drop_step_length _ hne h)
    · rw [if_neg hp, if_neg hp, List.map_cons, List.flatten_cons,
        runeStepsAux_flatten f _ (drop_step_length _ hne h), List.take_append_drop]

/-- `trimRightBy` with enough fuel, in terms of the backward steps -/
theorem trimRightBy_steps (p : Nat → Bool) : ∀ (f : Nat) (s : Bytes), s.length ≤ f →
    trimRightBy p f s = (((lastStepsAux f s).dropWhile (fun x => p x.1)).map (·.2)).reverse.flatten
  | 0, s, h => by
    have : s = [] := List.length_eq_zero_iff.1 (by omega)
    subst this; rfl
  | f + 1, [], _ => rfl
  | f + 1, b :: bs, h => by
    have hne : b :: bs ≠ [] := List.cons_ne_nil _ _
    rw [trimRightBy_succ p f _ hne, lastStepsAux_succ f _ hne, List.dropWhile_cons]
    by_cases hp : p (decodeLastRune (b :: bs)).1 = true
    · rw [if_pos hp, if_pos hp]; exact trimRightBy_steps p f _ (take_step_length _ hne h)
    · rw [if_neg hp, if_neg hp, List.map_cons, List.reverse_cons, List.flatten_append,
        lastStepsAux_flatten f _ (take_step_length _ hne h), List.flatten_singleton, List.take_append_drop]

/-- **`trim_left` on ARBITRARY bytes**: the leading decoding steps whose rune satisfies the predicate are dropped —
    an invalid byte is a step with rune U+FFFD — and the ORIGINAL bytes of all other steps are kept -/
theorem trimLeftF_steps (p : Nat → Bool) (s : Bytes) :
    trimLeftF p s = (((runeSteps s).dropWhile (fun x => p x.1)).map (·.2)).flatten :=
  trimLeftBy_steps p _ s (Nat.le_refl _)

/-- **`trim_right` on ARBITRARY bytes**: the same from the end, with the steps of `DecodeLastRuneInString` -/
theorem trimRightF_steps (p : Nat → Bool) (s : Bytes) :
    trimRightF p s = (((lastSteps s).dropWhile (fun x => p x.1)).map (·.2)).reverse.flatten :=
  trimRightBy_steps p _ s (Nat.le_refl _)

/-- NBSP, the invalid FF, "é", the invalid C3, U+3000: the default cutset removes NBSP and U+3000 and stops at the
    invalid bytes, which stay as they are -/
example : trimLeftF isSpaceRune [0xC2, 0xA0, 0xFF, 0xC3, 0xA9] = [0xFF, 0xC3, 0xA9] := by
  rw [trimLeftF_steps]; decide
example : trimRightF isSpaceRune [0xC3, 0xA9, 0xC3, 0xE3, 0x80, 0x80] = [0xC3, 0xA9, 0xC3] := by
  rw [trimRightF_steps]; decide

/-! ### one step at a time (fuel independence) -/

/-- the result of `trimLeftBy` does not depend on the fuel once it covers the length -/
theorem trimLeftBy_fuel (p : Nat → Bool) : ∀ (f g : Nat) (s : Bytes), s.length ≤ f → s.length ≤ g →
    trimLeftBy p f s = trimLeftBy p g s
  | f, g, [], _, _ => by rw [trimLeftBy_nil, trimLeftBy_nil]
  | 0, _, b :: bs, h, _ => by simp at h
  | _ + 1, 0, b :: bs, _, h => by simp at h
  | f + 1, g + 1, b :: bs, hf, hg => by
    have hne : b :: bs ≠ [] := List.cons_ne_nil _ _
    rw [trimLeftBy_succ p f _ hne, trimLeftBy_succ p g _ hne,
      trimLeftBy_fuel p f g _ (drop_step_length _ hne hf) (drop_step_length _ hne hg)]

/-- the result of `trimRightBy` does not depend on the fuel once it covers the length -/
theorem trimRightBy_fuel (p : Nat → Bool) : ∀ (f g : Nat) (s : Bytes), s.length ≤ f → s.length ≤ g →
    trimRightBy p f s = trimRightBy p g s
  | f, g, [], _, _ => by rw [trimRightBy_nil, trimRightBy_nil]
  | 0, _, b :: bs, h, _ => by simp at h
  | _ + 1, 0, b :: bs, _, h => by simp at h
  | f + 1, g + 1, b :: bs, hf, hg => by
    have hne : b :: bs ≠ [] := List.cons_ne_nil _ _
    rw [trimRightBy_succ p f _ hne, trimRightBy_succ p g _ hne,
      trimRightBy_fuel p f g _ (take_step_length _ hne hf) (take_step_length _ hne hg)]

/-- `trim_left`, one step: look at the first rune; drop its bytes and go on, or stop -/
theorem trimLeftF_step (p : Nat → Bool) (s : Bytes) (h : s ≠ []) :
    trimLeftF p s = if p (decodeRune s).1 then trimLeftF p (s.drop (decodeRune s).2) else s := by
  unfold trimLeftF
  obtain ⟨n, hn⟩ : ∃ n, s.length = n + 1 := ⟨s.length - 1, by have := C09.length_pos_of_ne_nil h; omega⟩
  rw [hn, trimLeftBy_succ p n s h]
  by_cases hp : p (decodeRune s).1 = true
  · rw [if_pos hp, if_pos hp]
    exact trimLeftBy_fuel p _ _ _ (drop_step_length s h (by omega)) (Nat.le_refl _)
  · rw [if_neg hp, if_neg hp]

/-- `trim_right`, one step -/
theorem trimRightF_step (p : Nat → Bool) (s : Bytes) (h : s ≠ []) :
    trimRightF p s
      = if p (decodeLastRune s).1 then trimRightF p (s.take (s.length - (decodeLastRune s).2)) else s := by
  unfold trimRightF
  obtain ⟨n, hn⟩ : ∃ n, s.length = n + 1 := ⟨s.length - 1, by have := C09.length_pos_of_ne_nil h; omega⟩
  conv => lhs; rw [hn]
  rw [trimRightBy_succ p n s h]
  by_cases hp : p (decodeLastRune s).1 = true
  · rw [if_pos hp, if_pos hp]
    exact trimRightBy_fuel p _ _ _ (take_step_length s h (by omega)) (Nat.le_refl _)
  · rw [if_neg hp, if_neg hp]

/-- what is kept is a SUFFIX of the original bytes … -/
theorem trimLeftBy_suffix (p : Nat → Bool) : ∀ (f : Nat) (s : Bytes), ∃ k, trimLeftBy p f s = s.drop k
  | 0, s => ⟨0, rfl⟩
  | _ + 1, [] => ⟨0, rfl⟩
  | f + 1, b :: bs => by
    rw [trimLeftBy_succ p f _ (List.cons_ne_nil _ _)]
    by_cases hp : p (decodeRune (b :: bs)).1 = true
    · rw [if_pos hp]
      obtain ⟨k, hk⟩ := trimLeftBy_suffix p f ((b :: bs).drop (decodeRune (b :: bs)).2)
      exact ⟨(decodeRune (b :: bs)).2 + k, by rw [hk, List.drop_drop]⟩
    · rw [if_neg hp]; exact ⟨0, rfl⟩
/-- `trim_left` keeps a suffix of the original bytes -/
theorem trimLeftF_suffix (p : Nat → Bool) (s : Bytes) : ∃ k, trimLeftF p s = s.drop k := trimLeftBy_suffix p _ s

/-- … resp. a PREFIX: no byte is ever altered or re-encoded by `trim` (unlike `lower`, `reverse`) -/
theorem trimRightBy_prefix (p : Nat → Bool) : ∀ (f : Nat) (s : Bytes), ∃ k, trimRightBy p f s = s.take k
  | 0, s => ⟨s.length, (List.take_length).symm⟩
  | _ + 1, [] => ⟨0, rfl⟩
  | f + 1, b :: bs => by
    rw [trimRightBy_succ p f _ (List.cons_ne_nil _ _)]
    by_cases hp : p (decodeLastRune (b :: bs)).1 = true
    · rw [if_pos hp]
      obtain ⟨k, hk⟩ := trimRightBy_prefix p f ((b :: bs).take ((b :: bs).length - (decodeLastRune (b :: bs)).2))
      exact ⟨min k ((b :: bs).length - (decodeLastRune (b :: bs)).2), by rw [hk, List.take_take]⟩
    · rw [if_neg hp]; exact ⟨(b :: bs).length, (List.take_length).symm⟩
/-- `trim_right` keeps a prefix of the original bytes -/
theorem trimRightF_prefix (p : Nat → Bool) (s : Bytes) : ∃ k, trimRightF p s = s.take k := trimRightBy_prefix p _ s

example : ∃ k, trimLeftF isSpaceRune [0xC2, 0xA0, 0xFF, 0xC3] = [0xC2, 0xA0, 0xFF, 0xC3].drop k := trimLeftF_suffix _ _
example : ∃ k, trimRightF isSpaceRune [0xFF, 0xC3, 0xC2, 0xA0] = [0xFF, 0xC3, 0xC2, 0xA0].take k := trimRightF_prefix _ _

/-! ### an invalid byte at the left end -/

/-- **an invalid first byte is kept unless U+FFFD satisfies the predicate**, and then exactly that one byte goes -/
theorem trimLeftF_invalid_head (p : Nat → Bool) (s : Bytes) (h : decodeRune s = (RuneError, 1)) :
    trimLeftF p s = if p RuneError then trimLeftF p (s.drop 1) else s := by
  have hne : s ≠ [] := by intro e; rw [e] at h; cases h
  rw [trimLeftF_step p s hne, h]

/-- a valid prefix `encodeAll cs` followed by ANY bytes `t`: the code points of the prefix are examined one by one;
    the tail is reached only if all of them go -/
theorem trimLeftF_encodeAll_append (p : Nat → Bool) : ∀ (cs : List Nat), Scalars cs → ∀ t : Bytes,
    trimLeftF p (encodeAll cs ++ t) = if cs.all p then trimLeftF p t else encodeAll (cs.dropWhile p) ++ t
  | [], _, t => rfl
  | c :: cs, h, t => by
    have hne : encodeAll (c :: cs) ++ t ≠ [] := by
      intro e; exact encodeAll_cons_ne_nil c cs (List.append_eq_nil_iff.1 e).1
    rw [trimLeftF_step p _ hne]
    have hd : decodeRune (encodeAll (c :: cs) ++ t) = (c, (encodeRune c).length) := by
      rw [encodeAll_cons, List.append_assoc]; exact decodeRune_encodeRune c h.head _
    rw [hd]
    simp only [List.all_cons, List.dropWhile_cons]
    by_cases hp : p c = true
    · rw [if_pos hp, if_pos hp, hp, Bool.true_and, encodeAll_cons, List.append_assoc, List.drop_left]
      exact trimLeftF_encodeAll_append p cs h.tail t
    · rw [if_neg hp, if_neg hp]
      rw [Bool.not_eq_true] at hp
      rw [hp, Bool.false_and, if_neg (by simp)]

/-- U+FFFD is not white space: **the default cutset never removes an invalid byte** (left end) -/
theorem trimSpaceLeft_invalid_head (s : Bytes) (h : decodeRune s = (RuneError, 1)) :
    trimSpaceLeft (.str s) = .ok (.str s) := by
  show Res.ok (Val.str (trimLeftF isSpaceRune s)) = _
  rw [trimLeftF_invalid_head _ s h]; rfl

/-- "is U+FFFD in the cutset?": it is when the cutset text contains the character U+FFFD (EF BF BD) or ANY invalid
    byte (which reads as U+FFFD) -/
theorem inCutset_runeError (cut : Bytes) : inCutset cut RuneError = true ↔ RuneError ∈ decodeAll cut := by
  unfold inCutset; exact List.contains_iff_mem

/-- **`trim_left(s, cut)` with an invalid first byte**, non-empty cutset: kept when U+FFFD is not in the cutset,
    trimmed (that single byte) when it is -/
theorem trimLeft_invalid_head (s cut : Bytes) (hc : cut ≠ []) (h : decodeRune s = (RuneError, 1)) :
    trimLeft (.str s) (.str cut)
      = if inCutset cut RuneError then trimLeft (.str (s.drop 1)) (.str cut) else .ok (.str s) := by
  have he : cut.isEmpty = false := by cases cut with | nil => exact absurd rfl hc | cons _ _ => rfl
  show (if cut.isEmpty then _ else _) = _
  rw [he]
  show Res.ok (Val.str (trimLeftF (inCutset cut) s)) = _
  rw [trimLeftF_invalid_head _ s h]
  by_cases hp : inCutset cut RuneError = true
  · rw [if_pos hp, if_pos hp]
    show _ = (if cut.isEmpty then _ else _)
    rw [he]; rfl
  · rw [if_neg hp, if_neg hp]

/-- `trim_left("\xFFé", " é")`: the cutset " é" does not contain U+FFFD: the subject is untouched -/
example : trimLeft (.str [0xFF, 0xC3, 0xA9]) (.str [0x20, 0xC3, 0xA9]) = .ok (.str [0xFF, 0xC3, 0xA9]) :=
  (trimLeft_invalid_head _ _ (by decide) (by decide)).trans rfl
/-- with the cutset "�" (EF BF BD) the invalid bytes FF and C3 go, one at a time, then the real "�", then it stops
    at "é" -/
example : trimLeft (.str [0xFF, 0xC3, 0xEF, 0xBF, 0xBD, 0xC3, 0xA9]) (.str [0xEF, 0xBF, 0xBD]) = .ok (.str [0xC3, 0xA9]) := by
  rw [trimLeft_invalid_head _ _ (by decide) (by decide), if_pos (by decide)]; rfl
/-- an invalid byte IN THE CUTSET stands for U+FFFD too: cutset "\xFE" trims the (different) invalid byte FF and "�" -/
example : trimLeft (.str [0xFF, 0xEF, 0xBF, 0xBD, 0x61]) (.str [0xFE]) = .ok (.str [0x61]) := rfl
example : inCutset [0xFE] RuneError = true := (inCutset_runeError _).2 (by decide)
/-- NBSP then an invalid byte then a space: the default cutset removes NBSP only -/
example : trimSpaceLeft (.str [0xC2, 0xA0, 0xFF, 0x20]) = .ok (.str [0xFF, 0x20]) := by
  show Res.ok (Val.str (trimLeftF isSpaceRune (encodeAll [0xA0] ++ [0xFF, 0x20]))) = _
  rw [trimLeftF_encodeAll_append _ _ (by unfold Scalars; decide), if_pos (by decide),
    trimLeftF_invalid_head _ _ (by decide)]; rfl

/-! ### an invalid byte at the right end -/

/-- a single byte ≥ 0x80 is an invalid step -/
theorem decodeRune_single (b : Nat) (hb : 0x80 ≤ b) : decodeRune [b] = (RuneError, 1) := by
  simp only [decodeRune]
  rw [if_neg (by omega)]
  split
  · rfl
  · split
    · rfl
    · split <;> rfl

/-- a decoding step that consumes the whole of a string of two or more bytes ends on a continuation byte -/
theorem decodeRune_exact_last_cont (t : Bytes) (h2 : 2 ≤ t.length) (hsz : (decodeRune t).2 = t.length) :
    isCont (t.getD (t.length - 1) 0) = true := by
  have hne : t ≠ [] := by intro h; rw [h] at h2; simp at h2
  obtain ⟨hsc, ht, _⟩ := decodeRune_valid t hne (fun h => by omega)
  rw [hsz, List.drop_length, List.append_nil] at ht
  obtain ⟨b0, tl, he, _, hall⟩ := encodeRune_shape _ hsc
  rw [he] at ht
  subst ht
  cases tl with
  | nil => simp at h2
  | cons x xs =>
    apply hall
    simp only [List.length_cons, Nat.add_sub_cancel, List.getD_eq_getElem?_getD, List.getElem?_cons_succ]
    cases hx : (x :: xs)[xs.length]? with
    | none => simp at hx
    | some y => exact List.mem_of_getElem? hx

/-- **a string that ends with a byte ≥ 0x80 that is not a continuation byte** (C0–FF: a lead byte with nothing after
    it, or a byte that never occurs in UTF-8) **has an invalid last step**, whatever comes before -/
theorem decodeLastRune_bad_end (pre : Bytes) (b : Nat) (hb : 0x80 ≤ b) (hnc : isCont b = false) :
    decodeLastRune (pre ++ [b]) = (RuneError, 1) := by
  generalize hs : pre ++ [b] = s
  have hlen : s.length = pre.length + 1 := by rw [← hs]; simp
  have hlast : s.getD (s.length - 1) 0 = b := by
    rw [← hs]; simp
  unfold decodeLastRune
  have h0 : s.length ≠ 0 := by omega
  simp only [h0, if_false, hlast]
  rw [if_neg (by omega)]
  generalize hst : (if 2 ≤ s.length ∧ runeStart (s.getD (s.length - 2) 0) = true then s.length - 2
        else if 3 ≤ s.length ∧ runeStart (s.getD (s.length - 3) 0) = true then s.length - 3
        else if 4 ≤ s.length ∧ runeStart (s.getD (s.length - 4) 0) = true then s.length - 4
        else if 5 ≤ s.length then s.length - 5 else 0) = start
  have hlt : start < s.length := by
    rw [← hst]; repeat' split
    all_goals omega
  by_cases he : start + (decodeRune (s.drop start)).2 = s.length
  · rw [if_neg (fun h => h he)]
    have htl : (s.drop start).length = s.length - start := List.length_drop
    by_cases h2 : 2 ≤ (s.drop start).length
    · exfalso
      have hc := decodeRune_exact_last_cont (s.drop start) h2 (by omega)
      rw [getD_drop, htl, show start + (s.length - start - 1) = s.length - 1 by omega, hlast, hnc] at hc
      cases hc
    · have hst' : start = pre.length := by omega
      have hd : s.drop start = [b] := by rw [← hs, hst', List.drop_left]
      rw [hd, decodeRune_single b hb]
  · rw [if_pos he]

example : decodeLastRune ([0x61, 0xC3, 0xA9] ++ [0xC3]) = (RuneError, 1) := decodeLastRune_bad_end _ _ (by decide) (by decide)

/-- an invalid last step: kept unless U+FFFD satisfies the predicate, and then exactly the last byte goes -/
theorem trimRightF_invalid_last (p : Nat → Bool) (s : Bytes) (hne : s ≠ []) (h : decodeLastRune s = (RuneError, 1)) :
    trimRightF p s = if p RuneError then trimRightF p (s.take (s.length - 1)) else s := by
  rw [trimRightF_step p s hne, h]

/-- **`trim_right` on `pre ++ [b]`, `b` a non-continuation byte ≥ 0x80** (e.g. a truncated character): the byte is
    kept unless U+FFFD satisfies the predicate; if it does, that byte goes and trimming goes on with `pre` -/
theorem trimRightF_bad_end (p : Nat → Bool) (pre : Bytes) (b : Nat) (hb : 0x80 ≤ b) (hnc : isCont b = false) :
    trimRightF p (pre ++ [b]) = if p RuneError then trimRightF p pre else pre ++ [b] := by
  rw [trimRightF_invalid_last p _ (by simp) (decodeLastRune_bad_end pre b hb hnc)]
  simp

/-- a valid last character: the symmetric step -/
theorem trimRightF_snoc_scalar (p : Nat → Bool) (pre : Bytes) (c : Nat) (hc : isScalar c = true) :
    trimRightF p (pre ++ encodeRune c) = if p c then trimRightF p pre else pre ++ encodeRune c := by
  have hne : pre ++ encodeRune c ≠ [] := by
    intro e; exact encodeRune_ne_nil c (List.append_eq_nil_iff.1 e).2
  rw [trimRightF_step p _ hne, decodeLastRune_append pre c hc]
  simp

/-- the last step of a non-empty string, in general: it is invalid (U+FFFD, one byte) unless the string ends with the
    complete encoding of a scalar value -/
theorem decodeLastRune_cases (s : Bytes) (hne : s ≠ []) :
    decodeLastRune s = (RuneError, 1) ∨ ∃ pre c, isScalar c = true ∧ s = pre ++ encodeRune c := by
  have hpos := C09.length_pos_of_ne_nil hne
  by_cases hl : s.getD (s.length - 1) 0 < 0x80
  · right
    refine ⟨s.take (s.length - 1), s.getD (s.length - 1) 0, by rw [isScalar_iff]; omega, ?_⟩
    have he : encodeRune (s.getD (s.length - 1) 0) = [s.getD (s.length - 1) 0] := by
      unfold encodeRune; rw [if_pos hl]
    rw [he]
    conv => lhs; rw [← List.take_append_drop (s.length - 1) s]
    congr 1
    have hd : (s.drop (s.length - 1)).length = 1 := by rw [List.length_drop]; omega
    match hm : s.drop (s.length - 1), hd with
    | [x], _ =>
      have := getD_drop s (s.length - 1) 0 0
      rw [hm] at this
      simp only [List.getD_cons_zero, Nat.add_zero] at this
      rw [this]
  · unfold decodeLastRune
    have h0 : s.length ≠ 0 := by omega
    simp only [h0, if_false]
    rw [if_neg hl]
    generalize hst : (if 2 ≤ s.length ∧ runeStart (s.getD (s.length - 2) 0) = true then s.length - 2
          else if 3 ≤ s.length ∧ runeStart (s.getD (s.length - 3) 0) = true then s.length - 3
          else if 4 ≤ s.length ∧ runeStart (s.getD (s.length - 4) 0) = true then s.length - 4
          else if 5 ≤ s.length then s.length - 5 else 0) = start
    have hlt : start < s.length := by
      rw [← hst]; repeat' split
      all_goals omega
    by_cases he : start + (decodeRune (s.drop start)).2 = s.length
    · rw [if_neg (fun h => h he)]
      have htl : (s.drop start).length = s.length - start := List.length_drop
      by_cases herr : (decodeRune (s.drop start)).1 = RuneError ∧ (decodeRune (s.drop start)).2 = 1
      · left; rw [herr.1, herr.2]
      · right
        have htne : s.drop start ≠ [] := by
          intro e; rw [e] at htl; simp at htl; omega
        obtain ⟨hsc, ht, _⟩ := decodeRune_valid (s.drop start) htne herr
        rw [show (decodeRune (s.drop start)).2 = (s.drop start).length by omega, List.drop_length,
          List.append_nil] at ht
        exact ⟨s.take start, _, hsc, by rw [← ht, List.take_append_drop]⟩
    · left; rw [if_pos he]

/-- **the last step is invalid exactly when the string does not end with a complete encoding** (for a string that
    does, `Utf8.decodeLastRune_append` gives the step: that code point, its full width) -/
theorem decodeLastRune_invalid_iff (s : Bytes) (hne : s ≠ []) :
    decodeLastRune s = (RuneError, 1) ↔ ∀ pre c, isScalar c = true → s ≠ pre ++ encodeRune c := by
  constructor
  · intro h pre c hc e
    rw [e, decodeLastRune_append pre c hc] at h
    injection h with h1 h2
    subst h1
    revert h2; decide
  · intro h
    rcases decodeLastRune_cases s hne with h' | ⟨pre, c, hc, e⟩
    · exact h'
    · exact absurd e (h pre c hc)

example : decodeLastRune [0xC3, 0xA9, 0xA9] = (RuneError, 1) := by decide
example : ∀ pre c, isScalar c = true → ([0xC3, 0xA9, 0xA9] : Bytes) ≠ pre ++ encodeRune c :=
  (decodeLastRune_invalid_iff _ (by decide)).1 (by decide)

/-- **`trim_right` on ARBITRARY bytes, one step, in general**: either the string ends with the complete encoding of a
    scalar value `c` — then `c` is tested and all its bytes go together — or it does not — then the last BYTE alone is
    a step, tested as U+FFFD -/
theorem trimRightF_general (p : Nat → Bool) (s : Bytes) (hne : s ≠ []) :
    (∃ pre c, isScalar c = true ∧ s = pre ++ encodeRune c ∧
        trimRightF p s = if p c then trimRightF p pre else s) ∨
    ((∀ pre c, isScalar c = true → s ≠ pre ++ encodeRune c) ∧
        trimRightF p s = if p RuneError then trimRightF p (s.take (s.length - 1)) else s) := by
  rcases decodeLastRune_cases s hne with h | ⟨pre, c, hc, e⟩
  · exact .inr ⟨(decodeLastRune_invalid_iff s hne).1 h, trimRightF_invalid_last p s hne h⟩
  · refine .inl ⟨pre, c, hc, e, ?_⟩
    rw [e]; exact trimRightF_snoc_scalar p pre c hc

/-- "aé" + stray A9, cutset "�": not a complete encoding at the end, so the last byte alone is tested (as U+FFFD) -/
example : trimRightF (inCutset [0xEF, 0xBF, 0xBD]) [0x61, 0xC3, 0xA9, 0xA9]
    = trimRightF (inCutset [0xEF, 0xBF, 0xBD]) [0x61, 0xC3, 0xA9] := by
  rw [trimRightF_invalid_last _ _ (by decide) (by decide), if_pos (by decide)]; rfl

/-- ANY bytes `t` followed by a valid suffix `encodeAll cs`: the code points of the suffix are examined from the end -/
theorem trimRightF_append_encodeAll (p : Nat → Bool) (t : Bytes) : ∀ (rs : List Nat), Scalars rs →
    trimRightF p (t ++ encodeAll rs.reverse)
      = if rs.all p then trimRightF p t else t ++ encodeAll (rs.dropWhile p).reverse
  | [], _ => by simp [encodeAll_nil]
  | c :: rs, h => by
    rw [encodeAll_reverse_cons, ← List.append_assoc, trimRightF_snoc_scalar p _ c h.head]
    simp only [List.all_cons, List.dropWhile_cons]
    by_cases hp : p c = true
    · rw [if_pos hp, if_pos hp, hp, Bool.true_and]
      exact trimRightF_append_encodeAll p t rs h.tail
    · rw [if_neg hp, if_neg hp]
      rw [Bool.not_eq_true] at hp
      rw [hp, Bool.false_and, if_neg (by simp), encodeAll_reverse_cons, List.append_assoc]

/-- **the default cutset never removes a trailing non-continuation byte ≥ 0x80** -/
theorem trimSpaceRight_bad_end (pre : Bytes) (b : Nat) (hb : 0x80 ≤ b) (hnc : isCont b = false) :
    trimSpaceRight (.str (pre ++ [b])) = .ok (.str (pre ++ [b])) := by
  show Res.ok (Val.str (trimRightF isSpaceRune (pre ++ [b]))) = _
  rw [trimRightF_bad_end _ pre b hb hnc]; rfl

/-- **`trim_right(s, cut)`, `s = pre ++ [b]` ending in a non-continuation byte ≥ 0x80**, non-empty cutset -/
theorem trimRight_bad_end (pre cut : Bytes) (b : Nat) (hc : cut ≠ []) (hb : 0x80 ≤ b) (hnc : isCont b = false) :
    trimRight (.str (pre ++ [b])) (.str cut)
      = if inCutset cut RuneError then trimRight (.str pre) (.str cut) else .ok (.str (pre ++ [b])) := by
  have he : cut.isEmpty = false := by cases cut with | nil => exact absurd rfl hc | cons _ _ => rfl
  show (if cut.isEmpty then _ else _) = _
  rw [he]
  show Res.ok (Val.str (trimRightF (inCutset cut) (pre ++ [b]))) = _
  rw [trimRightF_bad_end _ pre b hb hnc]
  by_cases hp : inCutset cut RuneError = true
  · rw [if_pos hp, if_pos hp]
    show _ = (if cut.isEmpty then _ else _)
    rw [he]; rfl
  · rw [if_neg hp, if_neg hp]

/-- "é " + truncated "é" (C3): `trim_right(s)` keeps everything (the space is not at the end: the C3 is) -/
example : trimSpaceRight (.str ([0xC3, 0xA9, 0x20] ++ [0xC3])) = .ok (.str [0xC3, 0xA9, 0x20, 0xC3]) :=
  trimSpaceRight_bad_end _ _ (by decide) (by decide)
/-- `trim_right("é\xC3", "é")`: U+FFFD is not in the cutset, nothing goes — not even the "é" before the bad byte -/
example : trimRight (.str ([0xC3, 0xA9] ++ [0xC3])) (.str [0xC3, 0xA9]) = .ok (.str [0xC3, 0xA9, 0xC3]) :=
  (trimRight_bad_end _ _ _ (by decide) (by decide) (by decide)).trans rfl
/-- `trim_right("aé\xC3", "é�")`: U+FFFD is in the cutset: the bad byte goes, then "é", and "a" stops it -/
example : trimRight (.str ([0x61, 0xC3, 0xA9] ++ [0xC3])) (.str [0xC3, 0xA9, 0xEF, 0xBF, 0xBD]) = .ok (.str [0x61]) := by
  rw [trimRight_bad_end _ _ _ (by decide) (by decide) (by decide), if_pos (by decide)]; rfl
/-- a trailing stray CONTINUATION byte (not covered by `trimRightF_bad_end`) behaves the same way on examples: after
    "é" the extra A9 is an invalid step of its own; "é" is never cut in two -/
example : trimRightF (inCutset [0xEF, 0xBF, 0xBD]) [0x61, 0xC3, 0xA9, 0xA9] = [0x61, 0xC3, 0xA9] := by decide
example : trimRightF isSpaceRune [0x61, 0xC3, 0xA9, 0xA9] = [0x61, 0xC3, 0xA9, 0xA9] := by decide
/-- A0 alone is a stray continuation byte, NOT the no-break space (which is C2 A0): it is not trimmed -/
example : trimRightF isSpaceRune [0x61, 0xA0] = [0x61, 0xA0] ∧ trimLeftF isSpaceRune [0xA0, 0x61] = [0xA0, 0x61] := by
  decide
/-- valid suffix after arbitrary bytes: "\xFF" + "é" + NBSP + U+3000 ↦ "\xFFé" -/
example : trimRightF isSpaceRune ([0xFF] ++ encodeAll [0xE9, 0xA0, 0x3000]) = [0xFF, 0xC3, 0xA9] := by
  have := trimRightF_append_encodeAll isSpaceRune [0xFF] [0x3000, 0xA0, 0xE9] (by unfold Scalars; decide)
  exact this.trans (by decide)

end Jmes.C11E.Trim
