/-
  Helper lemmas for Jmes/Properties/C05B.lean (property C05, second round):

  * `Dec.Representable c e`: the value `c·10^e` is representable (some coefficient `≤ MAXSIG` at an exponent in `[EMIN, EMAX]`
    denotes it) and `reduce_fits`: `reduce` returns every representable value exactly — including coefficients that
    are long only because of trailing zeros, exponents below `EMIN` that trailing zeros lift, and exponents above
    `EMAX` that the coefficient has room to absorb (`scaleUp`).
  * `Dec.Denotes d n C E`: `d` is a finite decimal of sign `n` and value `C·10^E` in whatever representation.
  * the exact results of `+ - * / // %` and of comparison in terms of `Denotes` (representation independent).
-/
import Jmes.Proofs.DecExact
namespace Jmes
namespace Dec

/-! ### `scaleUp`: an exponent above `EMAX` is absorbed by the coefficient when there is room -/

theorem scaleUp_spec : ∀ (fuel j c : Nat) (e : Int), c ≠ 0 → e = EMAX + (j : Int) → c * 10 ^ j ≤ MAXSIG → j ≤ fuel →
    scaleUp fuel c e = (c * 10 ^ j, EMAX)
  | 0, j, c, e, _, he, _, hj => by
    have : j = 0 := by omega
    subst this
    simp [scaleUp, he]
  | fuel + 1, 0, c, e, _, he, _, _ => by
    unfold scaleUp
    have : ¬ (e > EMAX) := by omega
    simp [he]
  | fuel + 1, j + 1, c, e, hc, he, hfit, hj => by
    unfold scaleUp
    have h1 : e > EMAX := by omega
    have h2 : c * 10 ≤ MAXSIG := by
      have hp : 0 < 10 ^ j := Nat.pow_pos (by decide)
      have : c * 10 ≤ c * 10 * 10 ^ j := Nat.le_mul_of_pos_right _ hp
      rw [Nat.pow_succ', ← Nat.mul_assoc] at hfit
      omega
    simp only [h1, h2, hc, ne_eq, not_false_eq_true, and_self, if_true]
    rw [scaleUp_spec fuel j (c * 10) (e - 1) (by omega) (by omega)
      (by rw [Nat.mul_assoc, ← Nat.pow_succ']; exact hfit) (by omega)]
    rw [Nat.mul_assoc, ← Nat.pow_succ']

/-- a coefficient with room for `J` more digits at the exponent `EMAX + J` is returned exactly -/
theorem reduce_hi (neg : Bool) (c J : Nat) (e : Int) (hc0 : c ≠ 0) (hfit : c * 10 ^ J ≤ MAXSIG) (he : e = EMAX + (J : Int)) :
    reduce neg c e false = normalize (.fin neg c e) := by
  have hp : 0 < 10 ^ J := Nat.pow_pos (by decide)
  have hc : c ≤ MAXSIG := Nat.le_trans (Nat.le_mul_of_pos_right _ hp) hfit
  have hJ : J < 35 := pow10_le_MAXSIG (Nat.le_trans (Nat.le_mul_of_pos_left _ (Nat.pos_of_ne_zero hc0)) hfit)
  have hemin : EMIN ≤ e := by rw [he]; have : EMIN ≤ EMAX := by decide
                              omega
  unfold reduce
  simp only [hc0, false_and, if_false]
  rw [dropHigh_id _ _ _ _ _ hc]
  simp only []
  rw [dropLow_id _ _ _ _ _ hemin]
  simp only []
  have h1 : ¬ (e < EMIN) := by omega
  simp only [h1, if_false]
  rw [scaleUp_spec 40 J c e hc0 he hfit (by omega)]
  simp only []
  rw [roundEven_id]
  simp only []
  have h2 : ¬ (EMAX > EMAX) := by decide
  simp only [h2, if_false]
  rw [normalize_shift, he]

/-! ### representable values -/

/-- the value `c·10^e` is representable: `c·10^i = c0·10^j` for a coefficient `c0 ≤ MAXSIG` whose exponent
    `e − i + j` lies in `[EMIN, EMAX]` -/
def Representable (c : Nat) (e : Int) : Prop :=
  ∃ c0 i j : Nat, c * 10 ^ i = c0 * 10 ^ j ∧ c0 ≤ MAXSIG ∧ EMIN ≤ e - (i : Int) + (j : Int) ∧ e - (i : Int) + (j : Int) ≤ EMAX

theorem fits_of_le {c : Nat} {e : Int} (hc : c ≤ MAXSIG) (hlo : EMIN ≤ e) (hhi : e ≤ EMAX) : Representable c e :=
  ⟨c, 0, 0, rfl, hc, by simpa using hlo, by simpa using hhi⟩

theorem fits_34 {c : Nat} {e : Int} (hc : c < 10 ^ 34) (hlo : EMIN ≤ e) (hhi : e ≤ EMAX) : Representable c e :=
  fits_of_le (lt_pow34_le_MAXSIG hc) hlo hhi

theorem fits_zero (e : Int) : Representable 0 e := by
  refine ⟨0, (e - EMAX).toNat, (EMIN - e).toNat, by simp, by decide, ?_, ?_⟩
  · have : EMIN ≤ EMAX := by decide
    omega
  · have : EMIN ≤ EMAX := by decide
    omega


theorem pow_cancel {c c0 i j : Nat} (h : c * 10 ^ i = c0 * 10 ^ j) (hij : i ≤ j) : c = c0 * 10 ^ (j - i) := by
  have : j = (j - i) + i := by omega
  rw [this, Nat.pow_add, ← Nat.mul_assoc] at h
  exact Nat.eq_of_mul_eq_mul_right (Nat.pow_pos (by decide)) h

/-- **`reduce` returns every representable value exactly** -/
theorem reduce_fits (neg : Bool) (c : Nat) (e : Int) (h : Representable c e) :
    reduce neg c e false = normalize (.fin neg c e) := by
  by_cases hc0 : c = 0
  · subst hc0; simp [reduce, normalize_zero]
  obtain ⟨c0, i, j, heq, hc, hlo, hhi⟩ := h
  by_cases hij : i ≤ j
  · have hcc := pow_cancel heq hij
    have hc00 : c0 ≠ 0 := by intro h0; subst h0; simp at hcc; exact hc0 hcc
    rw [hcc, reduce_zeros neg c0 (j - i) e hc00 hc (by omega) (by omega), normalize_shift]
  · have hcc := pow_cancel heq.symm (by omega : j ≤ i)
    have hp : 0 < 10 ^ (i - j) := Nat.pow_pos (by decide)
    have hle : c ≤ c0 := by rw [hcc]; exact Nat.le_mul_of_pos_right _ hp
    by_cases hE : e ≤ EMAX
    · exact reduce_exact neg c e (by omega) (by omega) hE
    · have hJ : (e - EMAX).toNat ≤ i - j := by omega
      refine reduce_hi neg c (e - EMAX).toNat e hc0 ?_ (by omega)
      have : c * 10 ^ (e - EMAX).toNat ≤ c * 10 ^ (i - j) :=
        Nat.mul_le_mul_left _ (Nat.pow_le_pow_right (by decide) hJ)
      omega

/-- representability only depends on the value: trailing zeros may be moved into the exponent -/
theorem fits_shift (c t : Nat) (e : Int) : Representable (c * 10 ^ t) e ↔ Representable c (e + (t : Int)) := by
  constructor
  · rintro ⟨c0, i, j, heq, hc, hlo, hhi⟩
    refine ⟨c0, i + t, j, ?_, hc, by omega, by omega⟩
    rw [← heq, Nat.pow_add, Nat.mul_assoc, Nat.mul_comm (10 ^ i)]
  · rintro ⟨c0, i, j, heq, hc, hlo, hhi⟩
    refine ⟨c0, i, j + t, ?_, hc, by omega, by omega⟩
    rw [Nat.pow_add, ← Nat.mul_assoc, ← heq, Nat.mul_right_comm]

theorem fits_of_mul_pow {c c' k : Nat} {e e' : Int} (hc : c = c' * 10 ^ k) (he : e' = e + (k : Int)) :
    Representable c e ↔ Representable c' e' := by
  rw [hc, he]; exact fits_shift c' k e

-- 7·10^50 at exponent -50, and 1 at exponent EMAX + 33 (= 10^33 at EMAX), are representable
example : Representable (7 * 10 ^ 50) (-50) := ⟨7, 0, 50, rfl, by decide, by decide, by decide⟩
example : Representable 1 (EMAX + 33) := ⟨10 ^ 33, 33, 0, by simp, by decide, by decide, by decide⟩
example : reduce false 1 (EMAX + 33) = .fin false 1 (EMAX + 33) := by decide



/-- a coefficient without trailing zero that exceeds `MAXSIG` is not representable at any exponent -/
theorem not_fits_of_long {c : Nat} (h10 : c % 10 ≠ 0) (hc : MAXSIG < c) (e : Int) : ¬ Representable c e := by
  rintro ⟨c0, i, j, heq, hc0, _, _⟩
  by_cases hij : j ≤ i
  · have := pow_cancel heq.symm hij
    have hp : 0 < 10 ^ (i - j) := Nat.pow_pos (by decide)
    have : c ≤ c0 := by rw [this]; exact Nat.le_mul_of_pos_right _ hp
    omega
  · have hcc := pow_cancel heq (by omega : i ≤ j)
    have : j - i = (j - i - 1) + 1 := by omega
    rw [this, Nat.pow_succ, ← Nat.mul_assoc] at hcc
    omega

/-! ### finite in, finite (or ±Inf caught by `checkD`) out -/

theorem normalize_fin (n : Bool) (c : Nat) (e : Int) : ∃ c' e', normalize (.fin n c e) = .fin n c' e' := by
  by_cases hc : c = 0
  · subst hc; exact ⟨0, 0, normalize_zero n e⟩
  · obtain ⟨c', k, h, _, _⟩ := normalize_spec n c e hc
    exact ⟨c', _, h⟩

/-- `reduce` never produces a NaN: a finite decimal or an infinity -/
theorem reduce_fin_or_inf (neg : Bool) (c : Nat) (e : Int) (st : Bool) :
    reduce neg c e st = .inf neg ∨ ∃ c' e', reduce neg c e st = .fin neg c' e' := by
  unfold reduce
  simp only []
  repeat' split
  all_goals first | exact Or.inr ⟨0, 0, rfl⟩ | exact Or.inl rfl | exact Or.inr (normalize_fin _ _ _)

theorem ceil_fin (n : Bool) (c : Nat) (e : Int) : ∃ c' e', Dec.ceil (.fin n c e) = .fin n c' e' := by
  simp only [Dec.ceil]
  by_cases hc : c = 0
  · simp only [hc, if_true]; exact ⟨_, _, rfl⟩
  · simp only [hc, if_false]
    by_cases he : e ≥ 0
    · simp only [he, if_true]; exact normalize_fin _ _ _
    · simp only [he, if_false]
      split
      · exact normalize_fin _ _ _
      · split <;> exact normalize_fin _ _ _

theorem floor_fin (n : Bool) (c : Nat) (e : Int) : ∃ c' e', Dec.floor (.fin n c e) = .fin n c' e' := by
  simp only [Dec.floor]
  by_cases hc : c = 0
  · simp only [hc, if_true]; exact ⟨_, _, rfl⟩
  · simp only [hc, if_false]
    by_cases he : e ≥ 0
    · simp only [he, if_true]; exact normalize_fin _ _ _
    · simp only [he, if_false]
      split
      · exact normalize_fin _ _ _
      · split <;> exact normalize_fin _ _ _


/-- a successful number scan yields a finite decimal (an overflowing text is a range error, never an `.ok` infinity) -/
theorem parseFinish_ok_fin {s : PState} {neg : Bool} {r : Dec} (h : parseFinish s neg = .ok r) :
    ∃ c e, r = .fin neg c e := by
  unfold parseFinish at h
  by_cases h1 : (!s.caneof) = true
  · simp [h1] at h
  · simp only [h1] at h
    by_cases h2 : s.c = 0
    · simp only [h2, if_true] at h; cases h; exact ⟨0, 0, rfl⟩
    · simp only [h2, if_false] at h
      by_cases h3 : s.maxexp = true
      · simp only [h3, if_true] at h
        by_cases h4 : s.eneg = true
        · simp only [h4, if_true] at h; cases h; exact ⟨0, 0, rfl⟩
        · simp [h4] at h
      · simp only [h3] at h
        generalize (if s.eneg = true then -(s.exp : Int) else (s.exp : Int)) - s.nfrac = E at h
        by_cases h5 : E > EMAX + 39
        · simp [h5] at h
        · simp only [h5, if_false] at h
          by_cases h6 : E < EMIN - 39
          · simp only [h6, if_true] at h; cases h; exact ⟨0, 0, rfl⟩
          · simp only [h6, if_false] at h
            rcases reduce_fin_or_inf neg s.c E s.sticky with hr | ⟨c', e', hr⟩
            · rw [hr] at h; cases h
            · rw [hr] at h; cases h; exact ⟨c', e', rfl⟩

theorem parseNumber_ok_fin {d : Bytes} {neg sep : Bool} {r : Dec} (h : parseNumber d neg sep = .ok r) :
    ∃ c e, r = .fin neg c e := by
  rw [parseNumber_eq] at h
  split at h
  · cases h
  · exact parseFinish_ok_fin h

theorem unmarshalJSON_fin {s : Bytes} {d : Dec} (h : Dec.unmarshalJSON s = some d) : ∃ n c e, d = .fin n c e := by
  unfold Dec.unmarshalJSON at h
  split at h
  · cases h; exact ⟨_, _, _, rfl⟩
  · split at h
    · cases h; exact ⟨_, _, _, rfl⟩
    · simp only [] at h
      split at h
      · next r hr =>
        cases h
        obtain ⟨c, e, rfl⟩ := parseNumber_ok_fin hr
        exact ⟨_, c, e, rfl⟩
      · cases h

/-! ### `Denotes`: a finite decimal of a given sign and value, in any representation -/

/-- `d` is a finite decimal with sign `n` and value `C·10^E`: `d = fin n c e` with `c·10^e = C·10^E` (the
    representation of `d` has at most the trailing zeros of `C`; a zero may sit at any exponent) -/
def Denotes (d : Dec) (n : Bool) (C : Nat) (E : Int) : Prop :=
  ∃ c : Nat, ∃ e : Int, d = .fin n c e ∧ ((c = 0 ∧ C = 0) ∨ ∃ k : Nat, e = E + (k : Int) ∧ C = c * 10 ^ k)

theorem denotes_fin (n : Bool) (c : Nat) (e : Int) : Denotes (.fin n c e) n c e :=
  ⟨c, e, rfl, Or.inr ⟨0, by simp, by simp⟩⟩

theorem denotes_normalize (n : Bool) (C : Nat) (E : Int) : Denotes (normalize (.fin n C E)) n C E := by
  by_cases hC : C = 0
  · subst hC; rw [normalize_zero]; exact ⟨0, 0, rfl, Or.inl ⟨rfl, rfl⟩⟩
  · obtain ⟨c', k, h1, h2, _⟩ := normalize_spec n C E hC
    exact ⟨c', E + k, h1, Or.inr ⟨k, rfl, h2⟩⟩

theorem denotes_ofInt (i : Int) : Denotes (Dec.ofInt i) (decide (i < 0)) i.natAbs 0 := by
  unfold Dec.ofInt
  by_cases h : i = 0
  · subst h; exact ⟨0, 0, by simp, Or.inl ⟨rfl, rfl⟩⟩
  · simp only [h, if_false]; exact denotes_normalize _ _ _

theorem sval_zero (n : Bool) (e m : Int) : sval n 0 e m = 0 := by simp [sval]

theorem pow_split {a b c : Nat} (h : a = b + c) : 10 ^ a = 10 ^ b * 10 ^ c := by rw [h, Nat.pow_add]

/-- what `Denotes` gives about the actual representation -/
theorem Denotes.unpack {d : Dec} {n : Bool} {C : Nat} {E : Int} (h : Denotes d n C E) :
    ∃ c : Nat, ∃ e : Int, d = .fin n c e ∧ (c = 0 ↔ C = 0) ∧ (c = 0 ∨ ∃ k : Nat, e = E + (k : Int) ∧ C = c * 10 ^ k) ∧
      ∀ m, m ≤ E → sval n c e m = sval n C E m := by
  obtain ⟨c, e, hd, h | ⟨k, he, hC⟩⟩ := h
  · obtain ⟨rfl, rfl⟩ := h
    exact ⟨0, e, hd, by simp, Or.inl rfl, fun m _ => by simp [sval_zero]⟩
  · refine ⟨c, e, hd, ?_, Or.inr ⟨k, he, hC⟩, fun m hm => ?_⟩
    · have hp : 0 < 10 ^ k := Nat.pow_pos (by decide)
      constructor
      · intro h; subst h; simpa using hC
      · intro h; rw [h] at hC
        rcases Nat.mul_eq_zero.mp hC.symm with h | h
        · exact h
        · omega
    · unfold sval pow10
      rw [hC, he, Nat.mul_assoc, ← Nat.pow_add]
      have : (E + (k : Int) - m).toNat = k + (E - m).toNat := by omega
      rw [this]

theorem sval_scale (n : Bool) (c : Nat) (e m m' : Int) (h : c = 0 ∨ m ≤ e) (h1 : m' ≤ m) :
    sval n c e m' = sval n c e m * ((10 ^ (m - m').toNat : Nat) : Int) := by
  rcases h with h | h
  · subst h; simp [sval_zero]
  · exact sval_shift n c e m m' h1 h

theorem sval_sign (n : Bool) (c : Nat) (e m : Int) (hc : c ≠ 0) : decide (sval n c e m < 0) = n := by
  have hp : 0 < c * 10 ^ (e - m).toNat := Nat.mul_pos (Nat.pos_of_ne_zero hc) (Nat.pow_pos (by decide))
  unfold sval pow10
  generalize c * 10 ^ (e - m).toNat = p at hp
  cases n <;> simp <;> omega

/-! ### `+` and `-` at any common exponent -/

/-- `Rep m r S`: `r` is the canonical decimal of the integer `S` in units of `10^m` (a zero of either sign if `S = 0`).
    The exact sum, when representable, is what `Dec.add` returns. -/
theorem add_at (n1 n2 : Bool) (c1 c2 : Nat) (e1 e2 m : Int) (h1 : c1 = 0 ∨ m ≤ e1) (h2 : c2 = 0 ∨ m ≤ e2)
    (S : Int) (hS : S = sval n1 c1 e1 m + sval n2 c2 e2 m) (hfit : Representable S.natAbs m) :
    Rep m (Dec.add (.fin n1 c1 e1) (.fin n2 c2 e2)) S := by
  show Rep m (addFin n1 c1 e1 n2 c2 e2) S
  by_cases hc1 : c1 = 0
  · subst hc1
    rw [sval_zero, Int.zero_add] at hS
    by_cases hc2 : c2 = 0
    · subst hc2
      rw [sval_zero] at hS
      exact Or.inl ⟨hS, n1 && n2, by simp [addFin]⟩
    · have hm : m ≤ e2 := by rcases h2 with h | h; exact absurd h hc2; exact h
      refine Or.inr ⟨by rw [hS]; exact fun h0 => hc2 ((sval_eq_zero_iff n2 c2 e2 m).mp h0), ?_⟩
      rw [hS, normalize_sval n2 c2 e2 m hm hc2]
      simp [addFin, hc2]
  · have hm1 : m ≤ e1 := by rcases h1 with h | h; exact absurd h hc1; exact h
    by_cases hc2 : c2 = 0
    · subst hc2
      rw [sval_zero, Int.add_zero] at hS
      refine Or.inr ⟨by rw [hS]; exact fun h0 => hc1 ((sval_eq_zero_iff n1 c1 e1 m).mp h0), ?_⟩
      rw [hS, normalize_sval n1 c1 e1 m hm1 hc1]
      simp [addFin, hc1]
    · have hm2 : m ≤ e2 := by rcases h2 with h | h; exact absurd h hc2; exact h
      have hem : m ≤ min e1 e2 := by omega
      have hs1 := sval_shift n1 c1 e1 (min e1 e2) m hem (by omega)
      have hs2 := sval_shift n2 c2 e2 (min e1 e2) m hem (by omega)
      generalize hT : ((10 ^ (min e1 e2 - m).toNat : Nat) : Int) = T at hs1 hs2
      have hTpos : 0 < T := by rw [← hT]; exact Int.natCast_pos.mpr (Nat.pow_pos (by decide))
      generalize hs' : sval n1 c1 e1 (min e1 e2) + sval n2 c2 e2 (min e1 e2) = s'
      have hS' : S = s' * T := by rw [hS, hs1, hs2, ← hs', Int.add_mul]
      have habs : S.natAbs = s'.natAbs * (10 ^ (min e1 e2 - m).toNat) := by
        rw [hS', Int.natAbs_mul, ← hT]; simp
      unfold addFin
      simp only [hc1, hc2, if_false]
      have := hs'
      unfold sval at this
      rw [this]
      by_cases h0 : s' = 0
      · left
        subst h0
        exact ⟨by rw [hS']; simp, false, by simp⟩
      · right
        simp only [h0, if_false]
        have hne : S ≠ 0 := by
          rw [hS']; intro h
          rcases Int.mul_eq_zero.mp h with h | h <;> omega
        refine ⟨hne, ?_⟩
        have hfit' : Representable s'.natAbs (min e1 e2) :=
          (fits_of_mul_pow habs (by omega)).mp hfit
        rw [reduce_fits _ _ _ hfit', habs, normalize_shift]
        have hsgn : decide (S < 0) = decide (s' < 0) := by
          rw [hS']
          by_cases hneg : s' < 0
          · have : s' * T < 0 := Int.mul_neg_of_neg_of_pos hneg hTpos
            simp [hneg, this]
          · have : 0 ≤ s' * T := Int.mul_nonneg (by omega) (by omega)
            simp [hneg]; omega
        rw [hsgn]
        have : m + ((min e1 e2 - m).toNat : Int) = min e1 e2 := by omega
        rw [this]

theorem sub_at (n1 n2 : Bool) (c1 c2 : Nat) (e1 e2 m : Int) (h1 : c1 = 0 ∨ m ≤ e1) (h2 : c2 = 0 ∨ m ≤ e2)
    (S : Int) (hS : S = sval n1 c1 e1 m - sval n2 c2 e2 m) (hfit : Representable S.natAbs m) :
    Rep m (Dec.sub (.fin n1 c1 e1) (.fin n2 c2 e2)) S := by
  by_cases h00 : c1 = 0 ∧ c2 = 0
  · obtain ⟨rfl, rfl⟩ := h00
    simp only [sval_zero, Int.sub_self] at hS
    exact Or.inl ⟨hS, n1 && !n2, by simp [Dec.sub]⟩
  · have : Dec.sub (.fin n1 c1 e1) (.fin n2 c2 e2) = Dec.add (.fin n1 c1 e1) (.fin (!n2) c2 e2) := by
      simp [Dec.sub, Dec.add, h00]
    rw [this]
    exact add_at n1 (!n2) c1 c2 e1 e2 m h1 h2 S (by rw [hS, sval_neg]; omega) hfit


/-! ### the operators in terms of `Denotes` -/

theorem add_den {d1 d2 : Dec} {n1 n2 : Bool} {C1 C2 : Nat} {E1 E2 : Int} (h1 : Denotes d1 n1 C1 E1)
    (h2 : Denotes d2 n2 C2 E2) (m : Int) (hm1 : m ≤ E1) (hm2 : m ≤ E2) (S : Int)
    (hS : S = sval n1 C1 E1 m + sval n2 C2 E2 m) (hfit : Representable S.natAbs m) : Rep m (Dec.add d1 d2) S := by
  obtain ⟨c1, e1, rfl, _, hk1, hv1⟩ := h1.unpack
  obtain ⟨c2, e2, rfl, _, hk2, hv2⟩ := h2.unpack
  refine add_at n1 n2 c1 c2 e1 e2 m ?_ ?_ S (by rw [hS, hv1 m hm1, hv2 m hm2]) hfit
  · rcases hk1 with h | ⟨k, he, _⟩
    · exact Or.inl h
    · exact Or.inr (by omega)
  · rcases hk2 with h | ⟨k, he, _⟩
    · exact Or.inl h
    · exact Or.inr (by omega)

theorem sub_den {d1 d2 : Dec} {n1 n2 : Bool} {C1 C2 : Nat} {E1 E2 : Int} (h1 : Denotes d1 n1 C1 E1)
    (h2 : Denotes d2 n2 C2 E2) (m : Int) (hm1 : m ≤ E1) (hm2 : m ≤ E2) (S : Int)
    (hS : S = sval n1 C1 E1 m - sval n2 C2 E2 m) (hfit : Representable S.natAbs m) : Rep m (Dec.sub d1 d2) S := by
  obtain ⟨c1, e1, rfl, _, hk1, hv1⟩ := h1.unpack
  obtain ⟨c2, e2, rfl, _, hk2, hv2⟩ := h2.unpack
  refine sub_at n1 n2 c1 c2 e1 e2 m ?_ ?_ S (by rw [hS, hv1 m hm1, hv2 m hm2]) hfit
  · rcases hk1 with h | ⟨k, he, _⟩
    · exact Or.inl h
    · exact Or.inr (by omega)
  · rcases hk2 with h | ⟨k, he, _⟩
    · exact Or.inl h
    · exact Or.inr (by omega)

/-- the exact product, when representable -/
theorem mul_den {d1 d2 : Dec} {n1 n2 : Bool} {C1 C2 : Nat} {E1 E2 : Int} (h1 : Denotes d1 n1 C1 E1)
    (h2 : Denotes d2 n2 C2 E2) (hfit : Representable (C1 * C2) (E1 + E2)) :
    Dec.mul d1 d2 = normalize (.fin (n1 != n2) (C1 * C2) (E1 + E2)) := by
  obtain ⟨c1, e1, rfl, hz1, hk1, _⟩ := h1.unpack
  obtain ⟨c2, e2, rfl, hz2, hk2, _⟩ := h2.unpack
  by_cases h0 : c1 = 0 ∨ c2 = 0
  · have : C1 * C2 = 0 := by
      rcases h0 with h | h
      · rw [hz1.mp h]; simp
      · rw [hz2.mp h]; simp
    rw [this, normalize_zero]
    simp [Dec.mul, h0]
  · have hc1 : c1 ≠ 0 := fun h => h0 (Or.inl h)
    have hc2 : c2 ≠ 0 := fun h => h0 (Or.inr h)
    obtain ⟨k1, he1, hC1⟩ := hk1.resolve_left hc1
    obtain ⟨k2, he2, hC2⟩ := hk2.resolve_left hc2
    have hCC : C1 * C2 = c1 * c2 * 10 ^ (k1 + k2) := by
      rw [hC1, hC2, Nat.pow_add]
      simp only [Nat.mul_assoc, Nat.mul_left_comm]
    have hfit' : Representable (c1 * c2) (e1 + e2) :=
      (fits_of_mul_pow hCC (by rw [he1, he2]; simp only [Int.natCast_add]; omega)).mp hfit
    simp only [Dec.mul, h0, if_false]
    rw [reduce_fits _ _ _ hfit', hCC, normalize_shift]
    congr 2
    rw [he1, he2]; simp only [Int.natCast_add]; omega

theorem pow_lt_of_lt {a b : Nat} (h : 10 ^ a < 10 ^ b) : a < b := by
  apply Nat.lt_of_not_le
  intro hba
  have := Nat.pow_le_pow_right (show 0 < 10 by decide) hba
  omega

/-- the exact quotient `Q·10^T` (given by `C1·10^a = Q·C2·10^b`, `T = E1 − E2 − a + b`), when `Q ≤ MAXSIG` and `T` is
    in range, is what `Dec.quo` returns -/
theorem quo_core (n1 n2 : Bool) (c1 c2 : Nat) (e1 e2 : Int) (h1 : c1 ≠ 0) (h2 : c2 ≠ 0) (Q a b : Nat)
    (hq : c1 * 10 ^ a = Q * c2 * 10 ^ b) (hQ : Q ≤ MAXSIG)
    (hlo : EMIN ≤ e1 - e2 - (a : Int) + (b : Int)) (hhi : e1 - e2 - (a : Int) + (b : Int) ≤ EMAX) :
    Dec.quo (.fin n1 c1 e1) (.fin n2 c2 e2) = normalize (.fin (n1 != n2) Q (e1 - e2 - (a : Int) + (b : Int))) := by
  have hQ0 : Q ≠ 0 := by
    intro h; subst h
    simp only [Nat.zero_mul] at hq
    have : 0 < 10 ^ a := Nat.pow_pos (by decide)
    rcases Nat.mul_eq_zero.mp hq with h | h <;> omega
  -- a < 35 + ndigits c2 + b
  have hlt : a < 35 + ndigits c2 + b := by
    apply pow_lt_of_lt
    have hpa : 10 ^ a ≤ c1 * 10 ^ a := Nat.le_mul_of_pos_left _ (Nat.pos_of_ne_zero h1)
    have hQ35 : Q < 10 ^ 35 := by
      have : MAXSIG < 10 ^ 35 := by decide
      omega
    have hc2 := lt_pow_ndigits c2
    have hb : 0 < 10 ^ b := Nat.pow_pos (by decide)
    have : Q * c2 < 10 ^ 35 * 10 ^ ndigits c2 := Nat.mul_lt_mul'' hQ35 hc2
    have : Q * c2 * 10 ^ b < 10 ^ 35 * 10 ^ ndigits c2 * 10 ^ b := Nat.mul_lt_mul_of_pos_right this hb
    rw [← Nat.pow_add, ← Nat.pow_add] at this
    omega
  have hK : a ≤ b + (40 + ndigits c2) := by omega
  have hq' : c1 * 10 ^ (40 + ndigits c2) = Q * 10 ^ (b + (40 + ndigits c2) - a) * c2 := by
    have hpa : 0 < 10 ^ a := Nat.pow_pos (by decide)
    apply Nat.eq_of_mul_eq_mul_right hpa
    have e1' : c1 * 10 ^ (40 + ndigits c2) * 10 ^ a = c1 * 10 ^ a * 10 ^ (40 + ndigits c2) := Nat.mul_right_comm ..
    rw [e1', hq]
    have : b + (40 + ndigits c2) = (b + (40 + ndigits c2) - a) + a := by omega
    calc Q * c2 * 10 ^ b * 10 ^ (40 + ndigits c2) = Q * c2 * 10 ^ (b + (40 + ndigits c2)) := by
          rw [Nat.mul_assoc, ← Nat.pow_add]
      _ = Q * c2 * (10 ^ (b + (40 + ndigits c2) - a) * 10 ^ a) := by rw [← Nat.pow_add, ← this]
      _ = Q * 10 ^ (b + (40 + ndigits c2) - a) * c2 * 10 ^ a := by
          simp only [Nat.mul_assoc, Nat.mul_left_comm, Nat.mul_comm]
  simp only [Dec.quo, h1, h2, if_false, quoFin, pow10]
  rw [hq', Nat.mul_div_cancel _ (Nat.pos_of_ne_zero h2), Nat.mul_mod_left]
  simp only [bne_self_eq_false]
  rw [reduce_zeros _ Q _ _ hQ0 hQ (by omega) (by omega)]
  congr 2
  omega

theorem quo_den {d1 d2 : Dec} {n1 n2 : Bool} {C1 C2 : Nat} {E1 E2 : Int} (h1 : Denotes d1 n1 C1 E1)
    (h2 : Denotes d2 n2 C2 E2) (hC1 : C1 ≠ 0) (hC2 : C2 ≠ 0) (Q a b : Nat)
    (hq : C1 * 10 ^ a = Q * C2 * 10 ^ b) (hQ : Q ≤ MAXSIG)
    (hlo : EMIN ≤ E1 - E2 - (a : Int) + (b : Int)) (hhi : E1 - E2 - (a : Int) + (b : Int) ≤ EMAX) :
    Dec.quo d1 d2 = normalize (.fin (n1 != n2) Q (E1 - E2 - (a : Int) + (b : Int))) := by
  obtain ⟨c1, e1, rfl, hz1, hk1, _⟩ := h1.unpack
  obtain ⟨c2, e2, rfl, hz2, hk2, _⟩ := h2.unpack
  have hc1 : c1 ≠ 0 := fun h => hC1 (hz1.mp h)
  have hc2 : c2 ≠ 0 := fun h => hC2 (hz2.mp h)
  obtain ⟨k1, he1, hCC1⟩ := hk1.resolve_left hc1
  obtain ⟨k2, he2, hCC2⟩ := hk2.resolve_left hc2
  have hq' : c1 * 10 ^ (k1 + a) = Q * c2 * 10 ^ (k2 + b) := by
    rw [hCC1, hCC2] at hq
    rw [Nat.pow_add, ← Nat.mul_assoc, hq, Nat.pow_add]
    simp only [Nat.mul_assoc]
  have := quo_core n1 n2 c1 c2 e1 e2 hc1 hc2 Q (k1 + a) (k2 + b) hq' hQ
    (by rw [he1, he2]; simp only [Int.natCast_add]; omega) (by rw [he1, he2]; simp only [Int.natCast_add]; omega)
  rw [this]
  congr 2
  rw [he1, he2]; simp only [Int.natCast_add]; omega

theorem quo_den_zero {d1 d2 : Dec} {n1 n2 : Bool} {C2 : Nat} {E1 E2 : Int} (h1 : Denotes d1 n1 0 E1)
    (h2 : Denotes d2 n2 C2 E2) (hC2 : C2 ≠ 0) : Dec.quo d1 d2 = .fin (n1 != n2) 0 0 := by
  obtain ⟨c1, e1, rfl, hz1, _, _⟩ := h1.unpack
  obtain ⟨c2, e2, rfl, hz2, _, _⟩ := h2.unpack
  have hc1 : c1 = 0 := hz1.mpr rfl
  have hc2 : c2 ≠ 0 := fun h => hC2 (hz2.mp h)
  simp [Dec.quo, hc1, hc2]


/-! ### `//` and `%` -/

/-- the aligned coefficients of the two operands at the exponent `m` -/
def aligned (C : Nat) (E m : Int) : Nat := C * 10 ^ (E - m).toNat

/-- `//` and `%`: with `A`, `B` the coefficients aligned at `m = min E1 E2`, the quotient is the integer `A / B` (sign
    `n1 ≠ n2`) and the remainder `(A % B)·10^m` (sign of the dividend), whenever each is representable -/
theorem quoRem_den {d1 d2 : Dec} {n1 n2 : Bool} {C1 C2 : Nat} {E1 E2 : Int} (h1 : Denotes d1 n1 C1 E1)
    (h2 : Denotes d2 n2 C2 E2) (hC2 : C2 ≠ 0) :
    (Representable (aligned C1 E1 (min E1 E2) / aligned C2 E2 (min E1 E2)) 0 →
      (Dec.quoRem d1 d2).1 = normalize (.fin (n1 != n2) (aligned C1 E1 (min E1 E2) / aligned C2 E2 (min E1 E2)) 0)) ∧
    (Representable (aligned C1 E1 (min E1 E2) % aligned C2 E2 (min E1 E2)) (min E1 E2) →
      (Dec.quoRem d1 d2).2 =
        normalize (.fin n1 (aligned C1 E1 (min E1 E2) % aligned C2 E2 (min E1 E2)) (min E1 E2))) := by
  obtain ⟨c1, e1, rfl, hz1, hk1, _⟩ := h1.unpack
  obtain ⟨c2, e2, rfl, hz2, hk2, _⟩ := h2.unpack
  have hc2 : c2 ≠ 0 := fun h => hC2 (hz2.mp h)
  by_cases hc1 : c1 = 0
  · have hC1 : C1 = 0 := hz1.mp hc1
    subst hc1; subst hC1
    simp [Dec.quoRem, hc2, aligned, normalize_zero]
  · obtain ⟨k1, he1, hCC1⟩ := hk1.resolve_left hc1
    obtain ⟨k2, he2, hCC2⟩ := hk2.resolve_left hc2
    -- d = min e1 e2 - min E1 E2 ≥ 0
    have hd : min E1 E2 ≤ min e1 e2 := by omega
    have hA : aligned C1 E1 (min E1 E2) = c1 * 10 ^ (e1 - min e1 e2).toNat * 10 ^ (min e1 e2 - min E1 E2).toNat := by
      unfold aligned
      rw [hCC1, Nat.mul_assoc, Nat.mul_assoc, ← Nat.pow_add, ← Nat.pow_add]
      congr 2; omega
    have hB : aligned C2 E2 (min E1 E2) = c2 * 10 ^ (e2 - min e1 e2).toNat * 10 ^ (min e1 e2 - min E1 E2).toNat := by
      unfold aligned
      rw [hCC2, Nat.mul_assoc, Nat.mul_assoc, ← Nat.pow_add, ← Nat.pow_add]
      congr 2; omega
    have hp : 0 < 10 ^ (min e1 e2 - min E1 E2).toNat := Nat.pow_pos (by decide)
    rw [hA, hB, Nat.mul_div_mul_right _ _ hp, Nat.mul_mod_mul_right]
    simp only [Dec.quoRem, hc1, hc2, if_false, pow10]
    constructor
    · intro hf
      rw [reduce_fits _ _ _ hf]
    · intro hf
      have hf' := (fits_shift _ _ _).mp hf
      have : min E1 E2 + ((min e1 e2 - min E1 E2).toNat : Int) = min e1 e2 := by omega
      rw [this] at hf'
      rw [reduce_fits _ _ _ hf', normalize_shift, this]

/-! ### comparison -/

theorem cmpFin_at (n1 : Bool) (c1 : Nat) (e1 : Int) (n2 : Bool) (c2 : Nat) (e2 m : Int) (h1 : c1 = 0 ∨ m ≤ e1)
    (h2 : c2 = 0 ∨ m ≤ e2) :
    cmpFin n1 c1 e1 n2 c2 e2 =
      (if sval n1 c1 e1 m < sval n2 c2 e2 m then -1 else if sval n1 c1 e1 m = sval n2 c2 e2 m then 0 else 1) := by
  have hm' : min m (min e1 e2) ≤ m := by omega
  rw [cmpFin_eq n1 c1 e1 n2 c2 e2 (min m (min e1 e2)) (by omega) (by omega)]
  show (if sval n1 c1 e1 _ < sval n2 c2 e2 _ then _ else if sval n1 c1 e1 _ = sval n2 c2 e2 _ then _ else _) = _
  rw [sval_scale n1 c1 e1 m _ h1 hm', sval_scale n2 c2 e2 m _ h2 hm']
  generalize hT : ((10 ^ (m - min m (min e1 e2)).toNat : Nat) : Int) = T
  have hTpos : 0 < T := by rw [← hT]; exact Int.natCast_pos.mpr (Nat.pow_pos (by decide))
  generalize sval n1 c1 e1 m = a
  generalize sval n2 c2 e2 m = b
  have hlt : a * T < b * T ↔ a < b := Int.mul_lt_mul_right hTpos
  have heq : a * T = b * T ↔ a = b := Int.mul_eq_mul_right_iff (by omega)
  simp only [hlt, heq]

/-- `Dec.cmp` is the three-way comparison of the exact values, in any representation -/
theorem cmp_den {d1 d2 : Dec} {n1 n2 : Bool} {C1 C2 : Nat} {E1 E2 : Int} (h1 : Denotes d1 n1 C1 E1)
    (h2 : Denotes d2 n2 C2 E2) (m : Int) (hm1 : m ≤ E1) (hm2 : m ≤ E2) :
    Dec.cmp d1 d2 =
      some (if sval n1 C1 E1 m < sval n2 C2 E2 m then -1 else if sval n1 C1 E1 m = sval n2 C2 E2 m then 0 else 1) := by
  obtain ⟨c1, e1, rfl, _, hk1, hv1⟩ := h1.unpack
  obtain ⟨c2, e2, rfl, _, hk2, hv2⟩ := h2.unpack
  show some (cmpFin n1 c1 e1 n2 c2 e2) = _
  rw [cmpFin_at n1 c1 e1 n2 c2 e2 m, hv1 m hm1, hv2 m hm2]
  · rcases hk1 with h | ⟨k, he, _⟩
    · exact Or.inl h
    · exact Or.inr (by omega)
  · rcases hk2 with h | ⟨k, he, _⟩
    · exact Or.inl h
    · exact Or.inr (by omega)


/-! ### `sum`: exact as long as every partial sum is representable -/

theorem rep_denotes {m : Int} {acc : Dec} {P : Int} (h : Rep m acc P) : ∃ b, Denotes acc b P.natAbs m ∧ sval b P.natAbs m m = P := by
  rcases h with ⟨rfl, b, rfl⟩ | ⟨hP, rfl⟩
  · exact ⟨b, ⟨0, 0, rfl, Or.inl ⟨rfl, rfl⟩⟩, by simp [sval_zero]⟩
  · refine ⟨decide (P < 0), denotes_normalize _ _ _, ?_⟩
    unfold sval pow10
    by_cases hneg : P < 0 <;> simp [hneg] <;> omega

/-- one step of the fold: adding `(-1)^n·c·10^e` to an exact accumulator is exact when the new partial sum is
    representable (no other condition: neither on the magnitudes nor on the exponent range of the operands) -/
theorem rep_step_fits (m : Int) {acc : Dec} {P : Int} (h : Rep m acc P) (n : Bool) (c : Nat) (e : Int) (he : m ≤ e)
    (hfit : Representable (P + sval n c e m).natAbs m) : Rep m (Dec.add acc (.fin n c e)) (P + sval n c e m) := by
  obtain ⟨b, hd, hv⟩ := rep_denotes h
  exact add_den hd (denotes_fin n c e) m (Int.le_refl m) he _ (by rw [hv]) hfit

/-- every partial sum `P + t₁ + … + tᵢ` (in units of `10^m`) is representable -/
def PrefixFits (m : Int) : Int → List (Bool × Nat × Int) → Prop
  | _, [] => True
  | P, t :: ts => Representable (P + sval t.1 t.2.1 t.2.2 m).natAbs m ∧ PrefixFits m (P + sval t.1 t.2.1 t.2.2 m) ts

theorem fold_rep_fits (m : Int) : ∀ (ts : List (Bool × Nat × Int)) (acc : Dec) (P : Int), Rep m acc P →
    (∀ t ∈ ts, m ≤ t.2.2) → PrefixFits m P ts →
    Rep m (ts.foldl (fun a t => Dec.add a (.fin t.1 t.2.1 t.2.2)) acc) (P + exactSum m ts)
  | [], acc, P, h, _, _ => by simpa [exactSum] using h
  | t :: ts, acc, P, h, he, hfit => by
    simp only [List.foldl_cons, exactSum]
    have hstep := rep_step_fits m h t.1 t.2.1 t.2.2 (he t (List.mem_cons_self ..)) hfit.1
    have := fold_rep_fits m ts _ _ hstep (fun t' ht' => he t' (List.mem_cons_of_mem _ ht')) hfit.2
    rw [Int.add_assoc] at this
    exact this

/-- the old sufficient condition (magnitudes add up to at most `MAXSIG`) implies the new one -/
theorem prefixFits_of_magSum (m : Int) (hm : EMIN ≤ m) (hm' : m ≤ EMAX) : ∀ (ts : List (Bool × Nat × Int)) (P : Int),
    P.natAbs + magSum m ts ≤ MAXSIG → PrefixFits m P ts
  | [], _, _ => trivial
  | t :: ts, P, h => by
    simp only [magSum] at h
    have hle : (P + sval t.1 t.2.1 t.2.2 m).natAbs ≤ P.natAbs + t.2.1 * 10 ^ (t.2.2 - m).toNat := by
      have := Int.natAbs_add_le P (sval t.1 t.2.1 t.2.2 m)
      rw [sval_natAbs_le] at this
      exact this
    exact ⟨fits_of_le (by omega) hm hm', prefixFits_of_magSum m hm hm' ts _ (by omega)⟩

end Dec

/-- **`sum` is exact whenever every partial sum (in array order) is representable.** -/
theorem numSum_exact_prefix (m : Int) (t : ATag) (xs : List Val) (ts : List (Bool × Nat × Int))
    (hx : xs.map toDecimal = ts.map (fun t => some (Dec.fin t.1 t.2.1 t.2.2)))
    (he : ∀ t ∈ ts, m ≤ t.2.2) (hfit : Dec.PrefixFits m 0 ts) (hok : enumSumOk t xs = true) :
    ∃ r, sumDec xs Dec.zero = some r ∧ numSum (.arr t xs) = .ok (.num (.dec r)) ∧ Dec.Rep m r (Dec.exactSum m ts) := by
  have hrep := Dec.fold_rep_fits m ts Dec.zero 0 (Or.inl ⟨rfl, false, rfl⟩) he hfit
  rw [Int.zero_add] at hrep
  refine ⟨_, sumDec_eq_fold xs ts _ hx, ?_, hrep⟩
  simp only [numSum, sumDec_eq_fold xs ts _ hx, hok, if_true]
  rcases hrep with ⟨_, b, hb⟩ | ⟨hne, hb⟩
  · rw [hb]; rfl
  · obtain ⟨c', k, hn, _, _⟩ := Dec.normalize_spec (decide (Dec.exactSum m ts < 0)) (Dec.exactSum m ts).natAbs m (by omega)
    rw [hb, hn]; rfl

/-! ### `max` / `min` return one of the elements' decimals -/

theorem maxDec_mem : ∀ (ds : List Dec) (m : Dec), maxDec m ds ∈ m :: ds
  | [], m => by simp [maxDec]
  | d :: ds, m => by
    unfold maxDec
    split
    · exact List.mem_cons_of_mem _ (maxDec_mem ds d)
    · have := maxDec_mem ds m
      rcases List.mem_cons.mp this with h | h
      · rw [h]; exact List.mem_cons_self ..
      · exact List.mem_cons_of_mem _ (List.mem_cons_of_mem _ h)

theorem minDec_mem : ∀ (ds : List Dec) (m : Dec), minDec m ds ∈ m :: ds
  | [], m => by simp [minDec]
  | d :: ds, m => by
    unfold minDec
    split
    · exact List.mem_cons_of_mem _ (minDec_mem ds d)
    · have := minDec_mem ds m
      rcases List.mem_cons.mp this with h | h
      · rw [h]; exact List.mem_cons_self ..
      · exact List.mem_cons_of_mem _ (List.mem_cons_of_mem _ h)

theorem allDecimals_mem : ∀ (xs : List Val) (ds : List Dec), allDecimals xs = some ds →
    ∀ d ∈ ds, ∃ x ∈ xs, toDecimal x = some d
  | [], ds, h, d, hd => by simp [allDecimals] at h; subst h; cases hd
  | x :: xs, ds, h, d, hd => by
    simp only [allDecimals] at h
    split at h
    · cases h
    · next dx hdx =>
      simp only [Option.map_eq_some_iff] at h
      obtain ⟨ds', hds', rfl⟩ := h
      rcases List.mem_cons.mp hd with rfl | hd'
      · exact ⟨x, List.mem_cons_self .., hdx⟩
      · obtain ⟨y, hy, hyd⟩ := allDecimals_mem xs ds' hds' d hd'
        exact ⟨y, List.mem_cons_of_mem _ hy, hyd⟩

end Jmes
