/-
  C09, third wave — `split`, `split` with a count, `replace`, `replace` with a count (string.go:744-975) and the pieces
  of Go's `strings` package they call (`strings.Index`, `strings.Count`, `strings.Replace`), in the tick-writer monad
  of `Jmes/Proofs/C09CTick.lean`: ONE definition gives the result (proved equal to the model function of
  `Jmes/Model/String.lean`) and the cost (bounded linearly in the subject and the result, for EVERY count).

  Units.  One tick = one iteration of a Go loop; for the substring search one tick = one CANDIDATE OFFSET examined by
  the naive search the model uses (`indexOfAux`): a candidate costs at most `|p|` byte comparisons there, and Go's real
  `strings.Index` is O(|s| + |p|) — the unit is "candidate offsets".  `allocT n` = `make([]any, n)` / `b.Grow(n)`,
  `writeT b x` = `b.WriteString(x)` (`|x|` ticks).
-/
import Jmes.Proofs.C09CTick
set_option linter.unusedSimpArgs false
set_option linter.unusedVariables false
namespace Jmes.C09C
open Jmes

/-- the state a loop was left with, whichever way it was left -/
def splitCtlSt {σ : Type} : Ctl σ → σ
  | .next s => s
  | .brk s => s

/-! ## A. `strings.Index` -/

/-- the body of the naive search: the candidate offset `st.1` (the string from there on is `st.2`) matches, or the
    search moves on by one byte -/
def stringsIndexBody (p : Bytes) (st : Nat × Bytes) : T (Ctl (Nat × Bytes)) :=
  pure (if p.isPrefixOf st.2 then .brk st else .next (st.1 + 1, st.2.tail))

/-- the loop of the naive `strings.Index(s, p)`: `for i := 0; i <= len(s); i++ { if HasPrefix(s[i:], p) { return i } }`
    — the model's `indexOfAux`; ONE TICK PER CANDIDATE OFFSET `i` (a candidate costs `≤ |p|` byte comparisons in the
    naive search; Go's real `strings.Index` is O(|s| + |p|)) -/
def stringsIndexLoopT (p : Bytes) (off : Nat) (s : Bytes) : T (Ctl (Nat × Bytes)) :=
  forBrkT (stringsIndexBody p) (s.length + 1) (off, s)

/-- `strings.Index(s, p)`; `none` is Go's `-1`.  (Named `stringsIndexT`: `indexT` is the array-index operation of
    `C09CTickArr.lean`.) -/
def stringsIndexT (s p : Bytes) : T (Option Nat) := do
  match ← stringsIndexLoopT p 0 s with
  | .brk st => pure (some st.1)
  | .next _ => pure none

/-- what `stringsIndexT` reads off the loop state -/
def stringsIndexAnswer : Ctl (Nat × Bytes) → Option Nat
  | .brk st => some st.1
  | .next _ => none

/-- the naive search loop started at offset `off`: its answer is the model's `indexOfAux off s p`, its cost the number of candidates up to and including the match (all `|s| + 1` when there is none) -/
theorem stringsIndexLoopT_spec (p : Bytes) : ∀ (s : Bytes) (off : Nat),
    stringsIndexAnswer (stringsIndexLoopT p off s).1 = indexOfAux off s p ∧
    (stringsIndexLoopT p off s).2 = (match indexOfAux off s p with
      | some k => k - off + 1
      | none => s.length + 1) := by
  intro s
  induction s with
  | nil =>
    intro off
    unfold stringsIndexLoopT
    rw [forBrkT_succ_fst, forBrkT_succ_snd, Utf8.indexOfAux_eq]
    cases h : p.isPrefixOf ([] : Bytes) <;> simp [stringsIndexBody, h, stringsIndexAnswer, forBrkT]
  | cons a t ih =>
    intro off
    have ih' := ih (off + 1)
    unfold stringsIndexLoopT at ih' ⊢
    rw [List.length_cons, forBrkT_succ_fst, forBrkT_succ_snd, Utf8.indexOfAux_eq]
    cases h : p.isPrefixOf (a :: t)
    · simp only [stringsIndexBody, h, pure_fst, pure_snd, Bool.false_eq_true, if_false, List.tail_cons]
      refine ⟨ih'.1, ?_⟩
      rw [ih'.2]
      cases h2 : indexOfAux (off + 1) t p with
      | none => simp only [List.length_cons]; omega
      | some k =>
        have := Utf8.indexOfAux_spec t p (off + 1) k h2
        simp only; omega
    · simp [stringsIndexBody, h, stringsIndexAnswer]

/-- (1) the instrumented search returns the model's `indexOf` -/
theorem stringsIndexT_fst (s p : Bytes) : (stringsIndexT s p).1 = indexOf s p := by
  have := (stringsIndexLoopT_spec p s 0).1
  unfold stringsIndexT indexOf
  rw [← this, bind_fst]
  cases (stringsIndexLoopT p 0 s).1 <;> rfl

/-- (2) exact cost: a match at byte offset `j` is found after `j + 1` candidates, a failing search examines all
    `|s| + 1` candidate offsets -/
theorem stringsIndexT_snd (s p : Bytes) : (stringsIndexT s p).2 = (match indexOf s p with
    | some j => j + 1
    | none => s.length + 1) := by
  have := (stringsIndexLoopT_spec p s 0).2
  unfold stringsIndexT indexOf
  rw [bind_snd, this]
  have e : ∀ c : Ctl (Nat × Bytes), (match c with
      | .brk st => (pure (some st.1) : T (Option Nat))
      | .next _ => pure none).2 = 0 := by intro c; cases c <;> rfl
  rw [e]
  cases indexOfAux 0 s p <;> simp

/-- the cost when the search succeeds: the offset found plus one -/
theorem stringsIndexT_snd_some (s p : Bytes) (j : Nat) (h : indexOf s p = some j) : (stringsIndexT s p).2 = j + 1 := by
  rw [stringsIndexT_snd, h]

/-- the cost when the search fails: every candidate offset -/
theorem stringsIndexT_snd_none (s p : Bytes) (h : indexOf s p = none) : (stringsIndexT s p).2 = s.length + 1 := by
  rw [stringsIndexT_snd, h]

/-- never more than `|s| + 1` candidates -/
theorem stringsIndexT_snd_le (s p : Bytes) : (stringsIndexT s p).2 ≤ s.length + 1 := by
  rw [stringsIndexT_snd]
  cases h : indexOf s p with
  | none => simp
  | some j => have := Utf8.indexOf_le s p j h; simp only; omega

example : stringsIndexT [0x61, 0x62, 0x63, 0x62] [0x62] = ⟨some 1, 2⟩ := by decide
example : stringsIndexT [0x61, 0x62, 0x63] [0x7A] = ⟨none, 4⟩ := by decide

/-! ## The Go loops as pure recursions, and the model's single pass

  `splitGo k s p` is what the loop string.go:869 / :963 computes in `k` iterations, `countGo f s p` what the loop of
  `strings.Count` computes (with `f` a bound on its iterations).  The model's `splitAux` walks the string once, byte
  by byte, with an accumulator; the lemmas below relate one step of the Go loops (`indexOf`, `take`, `drop`) to it. -/

/-- string.go:869-881: `k` iterations of `j := Index(s, p); if j < 0 { break }; r[i] = s[:j]; s = s[j+len(p):]`,
    then `r[i] = s` -/
def splitGo : Nat → Bytes → Bytes → List Bytes
  | 0, s, _ => [s]
  | k + 1, s, p => match indexOf s p with
    | none => [s]
    | some j => s.take j :: splitGo k (s.drop (j + p.length)) p

/-- `strings.Count(s, p)`, `p` non-empty: the number of iterations of its loop that find a match (`f` bounds the
    iterations) -/
def countGo : Nat → Bytes → Bytes → Nat
  | 0, _, _ => 0
  | f + 1, s, p => match indexOf s p with
    | none => 0
    | some j => 1 + countGo f (s.drop (j + p.length)) p

/-- the Go split loop returns one more piece than the Count loop counts (same recursion) -/
theorem splitGo_length : ∀ (f : Nat) (s p : Bytes), (splitGo f s p).length = countGo f s p + 1 := by
  intro f
  induction f with
  | zero => intro s p; rfl
  | succ f ih =>
    intro s p
    simp only [splitGo, countGo]
    cases indexOf s p with
    | none => rfl
    | some j => simp only [List.length_cons, ih]; omega

/-- no cut left: the model returns the accumulator followed by the whole rest -/
theorem splitAux_zero' (fuel : Nat) (s p cur : Bytes) : splitAux fuel s p (some 0) cur = [cur ++ s] := by
  cases fuel <;> simp [splitAux]

/-- the fuel of `splitAux` is irrelevant once it exceeds the length of the string (non-empty separator) -/
theorem splitAux_fuel' (p : Bytes) (hp : p ≠ []) : ∀ (f1 f2 : Nat) (s : Bytes) (n : Option Nat) (cur : Bytes),
    s.length < f1 → s.length < f2 → splitAux f1 s p n cur = splitAux f2 s p n cur := by
  intro f1
  induction f1 with
  | zero => intro f2 s n cur h; omega
  | succ f1 ih =>
    intro f2 s n cur h1 h2
    cases f2 with
    | zero => omega
    | succ f2 =>
      cases s with
      | nil => simp only [splitAux]
      | cons b t =>
        simp only [splitAux]
        split
        · rfl
        · split
          · rename_i hpre
            have h3 := C09.isPrefixOf_length_le hpre
            have h4 := C09.length_pos_of_ne_nil hp
            rw [ih f2 _ _ _ (by rw [List.length_drop]; omega) (by rw [List.length_drop]; omega)]
          · simp only [List.length_cons] at h1 h2
            rw [ih f2 _ _ _ (by omega) (by omega)]

/-- ONE STEP of the Go loop against the model: with cuts left, `splitAux` (accumulator `cur`) yields `cur ++ s` when
    `strings.Index` finds nothing, and otherwise cuts at the offset `j` it finds: the piece is `cur ++ s[:j]`, the
    pass goes on from `s[j+len(p):]` with one cut less -/
theorem splitAux_index (p : Bytes) (hp : p ≠ []) (n : Option Nat) (hn : n ≠ some 0) :
    ∀ (fuel : Nat) (s cur : Bytes), s.length < fuel →
    splitAux fuel s p n cur = (match indexOfAux 0 s p with
      | none => [cur ++ s]
      | some j => (cur ++ s.take j) :: splitAux fuel (s.drop (j + p.length)) p (n.map (· - 1)) []) := by
  intro fuel
  induction fuel with
  | zero => intro s cur h; omega
  | succ fuel ih =>
    intro s cur h
    cases s with
    | nil =>
      have e : p.isPrefixOf ([] : Bytes) = false := by cases p with
        | nil => exact absurd rfl hp
        | cons _ _ => rfl
      rw [Utf8.indexOfAux_eq, e]
      simp [splitAux, hn]
    | cons b t =>
      rw [Utf8.indexOfAux_eq]
      cases hpre : p.isPrefixOf (b :: t)
      · simp only [splitAux, hn, hpre, Bool.false_eq_true, if_false]
        simp only [List.length_cons] at h
        rw [ih t (cur ++ [b]) (by omega), Utf8.indexOfAux_shift t p (0 + 1)]
        cases hi : indexOfAux 0 t p with
        | none => simp
        | some j =>
          simp only [Option.map_some, Nat.zero_add]
          have e1 : (b :: t).take (1 + j) = b :: t.take j := by rw [Nat.add_comm]; rfl
          have e2 : (b :: t).drop (1 + j + p.length) = t.drop (j + p.length) := by
            have : 1 + j + p.length = (j + p.length) + 1 := by omega
            rw [this]; rfl
          rw [e1, e2]
          congr 1
          · simp
          · exact splitAux_fuel' p hp fuel (fuel + 1) (t.drop (j + p.length)) _ _
              (by rw [List.length_drop]; omega) (by rw [List.length_drop]; omega)
      · have e : splitAux (fuel + 1) (b :: t) p n cur
            = cur :: splitAux fuel ((b :: t).drop p.length) p (n.map (· - 1)) [] := by
          simp only [splitAux, hn, hpre, if_true, if_false]
        have h3 := C09.isPrefixOf_length_le hpre
        have h4 := C09.length_pos_of_ne_nil hp
        rw [e, splitAux_fuel' p hp fuel (fuel + 1) ((b :: t).drop p.length) _ _
          (by rw [List.length_drop]; omega) (by rw [List.length_drop]; omega)]
        simp

/-- a limit that is at least the number of separators present changes nothing -/
theorem splitAux_none_of_le (p : Bytes) : ∀ (fuel : Nat) (s : Bytes) (k : Nat) (cur : Bytes),
    Cost.splitTicks fuel s p none ≤ k → splitAux fuel s p (some k) cur = splitAux fuel s p none cur := by
  intro fuel
  induction fuel with
  | zero => intro s k cur h; rfl
  | succ fuel ih =>
    intro s k cur h
    cases s with
    | nil =>
      simp only [splitAux]
      split <;> simp
    | cons b t =>
      have e' : ¬ ((none : Option Nat) = some 0) := by simp
      simp only [Cost.splitTicks, e', if_false, Option.map_none] at h
      simp only [splitAux, e', if_false, Option.map_none]
      cases hpre : p.isPrefixOf (b :: t)
      · simp only [hpre, Bool.false_eq_true, if_false] at h ⊢
        have := ih t k (cur ++ [b]) h
        split
        · rename_i hk
          injection hk with hk; subst hk
          rw [← this, splitAux_zero']; simp
        · exact this
      · simp only [hpre, if_true] at h ⊢
        have hk : ¬ (some k = some 0) := by simp; omega
        simp only [hk, if_false, Option.map_some]
        rw [ih _ (k - 1) [] (by omega)]

/-- the Go loop run `k` times computes the model's `splitOn` with at most `k` cuts -/
theorem splitGo_eq (p : Bytes) (hp : p ≠ []) : ∀ (k fuel : Nat) (s : Bytes), s.length < fuel →
    splitGo k s p = splitAux fuel s p (some k) [] := by
  intro k
  induction k with
  | zero => intro fuel s h; rw [splitAux_zero']; rfl
  | succ k ih =>
    intro fuel s h
    rw [splitAux_index p hp (some (k + 1)) (by simp) fuel s [] h]
    simp only [splitGo, indexOf]
    cases indexOfAux 0 s p with
    | none => rfl
    | some j =>
      simp only [Option.map_some, Nat.add_sub_cancel, List.nil_append]
      rw [ih fuel _ (by rw [List.length_drop]; omega)]

/-- the same with the model's own fuel `|s| + 1` -/
theorem splitGo_eq_splitOn (s p : Bytes) (hp : p ≠ []) (k : Nat) : splitGo k s p = splitOn s p (some k) :=
  splitGo_eq p hp k _ s (Nat.lt_succ_self _)

/-- `strings.Count` counts the separators the model's pass consumes -/
theorem countGo_eq (s p : Bytes) (hp : p ≠ []) : countGo (s.length + 1) s p = Cost.occurrences s p := by
  have h1 := splitGo_length (s.length + 1) s p
  rw [splitGo_eq_splitOn s p hp, C09.splitOn_length] at h1
  have := C09.occurrences_le s p hp
  omega

/-- a count clamped by the occurrences present gives the same pieces as the count itself — the clamp string.go:956 is invisible in the result -/
theorem splitOn_clamp (s p : Bytes) (k : Nat) :
    splitOn s p (some (min k (Cost.occurrences s p))) = splitOn s p (some k) := by
  by_cases h : k ≤ Cost.occurrences s p
  · rw [Nat.min_eq_left h]
  · rw [Nat.min_eq_right (by omega)]
    unfold splitOn Cost.occurrences at *
    rw [splitAux_none_of_le p _ s _ [] (Nat.le_refl _), splitAux_none_of_le p _ s k [] (by omega)]

/-- exactly `occurrences` cuts are all the cuts: the unlimited split -/
theorem splitOn_occurrences (s p : Bytes) : splitOn s p (some (Cost.occurrences s p)) = splitOn s p none := by
  unfold splitOn Cost.occurrences; exact splitAux_none_of_le p _ s _ [] (Nat.le_refl _)

example : splitGo 5 [1, 2, 1, 2, 1] [2] = [[1], [1], [1]] := by decide
example : countGo 6 [1, 2, 1, 2, 1] [2] = 2 := by decide

/-- a match found by `strings.Index` lies inside the string -/
theorem indexOf_add_le (s p : Bytes) (j : Nat) (h : indexOf s p = some j) : j + p.length ≤ s.length := by
  obtain ⟨i, hk, hi, hpi, _⟩ := Utf8.indexOfAux_spec s p 0 j h
  have := hpi.length_le
  rw [List.length_drop] at this
  omega

/-! ## A (continued). `strings.Count` -/

/-- the body of the loop of `strings.Count`: `i := Index(s, substr); if i == -1 { return n }; n++;
    s = s[i+len(substr):]`; the state is `(n, s)` -/
def countBody (p : Bytes) (st : Nat × Bytes) : T (Ctl (Nat × Bytes)) := do
  match ← stringsIndexT st.2 p with
  | none => pure (.brk st)
  | some i => pure (.next (st.1 + 1, st.2.drop (i + p.length)))

/-- strings.Count (generic loop): `n := 0; for { i := Index(s, substr); if i == -1 { return n }; n++;
    s = s[i+len(substr):] }` — a `for { }` loop: the counter bound `f` (`len(s) + 1` in `countT`) is never the reason
    it ends (`countLoopT_brk`) -/
def countLoopT (p : Bytes) (f : Nat) (n : Nat) (s : Bytes) : T (Ctl (Nat × Bytes)) :=
  forBrkT (countBody p) f (n, s)

/-- `strings.Count(s, p)` for a non-empty `p` (Go 1.23 strings.go:41-58).  Go answers a ONE-byte `p` by a single
    pass `bytealg.CountString` (`|s|` byte comparisons); the generic loop mirrored here is used for it as well, its
    bound `2·(|s| + 1)` covers that pass. -/
def countT (s p : Bytes) : T Nat := do
  let r ← countLoopT p (s.length + 1) 0 s
  pure (splitCtlSt r).1

/-- the body of the Count loop, computed: result and cost by what `strings.Index` finds -/
theorem countBody_eq (p : Bytes) (n : Nat) (s : Bytes) : countBody p (n, s) =
    ⟨(match indexOf s p with
      | none => .brk (n, s)
      | some i => .next (n + 1, s.drop (i + p.length))),
     (match indexOf s p with
      | none => s.length + 1
      | some j => j + 1)⟩ := by
  apply T.ext
  · simp only [countBody, bind_fst, stringsIndexT_fst, mk_fst]
    cases indexOf s p <;> rfl
  · simp only [countBody, bind_snd, stringsIndexT_fst, stringsIndexT_snd, mk_snd]
    cases indexOf s p <;> rfl

/-- the counter the Count loop is left with: `n` plus the matches found (`countGo`) -/
theorem countLoopT_fst (p : Bytes) : ∀ (f n : Nat) (s : Bytes),
    (splitCtlSt (countLoopT p f n s).1).1 = n + countGo f s p := by
  intro f
  induction f with
  | zero => intro n s; rfl
  | succ f ih =>
    intro n s
    unfold countLoopT at ih ⊢
    rw [forBrkT_succ_fst, countBody_eq, mk_fst]
    simp only [countGo]
    cases indexOf s p with
    | none => rfl
    | some j => simp only; rw [ih]; omega

/-- the loop of `strings.Count` ends by its `return`, never by the counter bound -/
theorem countLoopT_brk (p : Bytes) (hp : p ≠ []) : ∀ (f n : Nat) (s : Bytes), s.length < f →
    ∃ st, (countLoopT p f n s).1 = .brk st := by
  intro f
  induction f with
  | zero => intro n s h; omega
  | succ f ih =>
    intro n s h
    unfold countLoopT at ih ⊢
    rw [forBrkT_succ_fst, countBody_eq, mk_fst]
    cases hi : indexOf s p with
    | none => exact ⟨_, rfl⟩
    | some j =>
      have := indexOf_add_le s p j hi
      have := C09.length_pos_of_ne_nil hp
      exact ih _ _ (by rw [List.length_drop]; omega)

/-- amortised cost of `strings.Count`: every `Index` call scans up to its match only, then `s` advances past it -/
theorem countLoopT_snd_le (p : Bytes) (hp : p ≠ []) : ∀ (f n : Nat) (s : Bytes),
    (countLoopT p f n s).2 ≤ 2 * s.length + 2 := by
  intro f
  induction f with
  | zero => intro n s; simp [countLoopT, forBrkT]
  | succ f ih =>
    intro n s
    unfold countLoopT at ih ⊢
    rw [forBrkT_succ_snd, countBody_eq, mk_fst, mk_snd]
    cases hi : indexOf s p with
    | none => simp only; omega
    | some j =>
      have h1 := indexOf_add_le s p j hi
      have h2 := C09.length_pos_of_ne_nil hp
      have h3 := ih (n + 1) (s.drop (j + p.length))
      rw [List.length_drop] at h3
      simp only; omega

/-- (1) `strings.Count` returns the number of separators the model's pass consumes -/
theorem countT_fst (s p : Bytes) (hp : p ≠ []) : (countT s p).1 = Cost.occurrences s p := by
  simp only [countT, bind_fst, pure_fst, countLoopT_fst, countGo_eq s p hp]; omega

/-- … which is one less than the number of pieces of the unlimited split -/
theorem countT_fst_pieces (s p : Bytes) (hp : p ≠ []) : (countT s p).1 + 1 = (splitOn s p none).length := by
  rw [countT_fst s p hp, C09.splitOn_length_none]

/-- (2) at most `2·(|s| + 1)` candidate offsets and iterations -/
theorem countT_snd_le (s p : Bytes) (hp : p ≠ []) : (countT s p).2 ≤ 2 * (s.length + 1) := by
  simp only [countT, bind_snd, pure_snd]
  have := countLoopT_snd_le p hp (s.length + 1) 0 s
  omega

example : countT [1, 2, 1, 2, 1] [2] = ⟨2, 9⟩ := by decide

/-! ## B. `split` / `split` with a count, NON-EMPTY separator -/

/-- the body of string.go:869 / :963: `j := strings.Index(s, p); if j < 0 { break }; r[i] = s[:j];
    s = s[j+len(p):]; i++`; the state is `(s, r[:i])` (the index `i` is the length of the second component) -/
def splitBody (p : Bytes) (st : Bytes × List Bytes) : T (Ctl (Bytes × List Bytes)) := do
  match ← stringsIndexT st.1 p with
  | none => pure (.brk st)
  | some j => pure (.next (st.1.drop (j + p.length), st.2 ++ [st.1.take j]))

/-- string.go:869 (split) and string.go:963 (splitCount) `for i < n { j := strings.Index(s, p); if j < 0 { break }; … }`
    (`i` starts at 0: `n` iterations, or fewer by `break`) -/
def splitLoopT (p : Bytes) (n : Nat) (s : Bytes) (r : List Bytes) : T (Ctl (Bytes × List Bytes)) :=
  forBrkT (splitBody p) n (s, r)

/-- string.go:865-881 (`count = none`) and string.go:956-975 (`count = some n`), the non-empty separator: the pieces.
    THE CLAMP `if c := strings.Count(s, p); n > c { n = c }` (string.go:956) makes `make([]any, n+1)` independent of
    the count argument. -/
def splitSepT (s p : Bytes) (count : Option Nat) : T (List Bytes) := do
  let c ← countT s p                                      -- string.go:865 / :956 `strings.Count(s, p)`
  let n := match count with
    | none => c                                           -- string.go:865 `n := strings.Count(s, p)`
    | some n => if n > c then c else n                    -- string.go:956 `if c := …; n > c { n = c }`
  allocT (n + 1)                                          -- string.go:866 / :960 `r := make([]any, n+1)`
  let st ← splitLoopT p n s []                            -- string.go:869 / :963
  pure ((splitCtlSt st).2 ++ [(splitCtlSt st).1])         -- string.go:880 / :974 `r[i] = s; return r[:i+1]`

/-- the body of the split loop, computed: result and cost by what `strings.Index` finds -/
theorem splitBody_eq (p : Bytes) (s : Bytes) (r : List Bytes) : splitBody p (s, r) =
    ⟨(match indexOf s p with
      | none => .brk (s, r)
      | some j => .next (s.drop (j + p.length), r ++ [s.take j])),
     (match indexOf s p with
      | none => s.length + 1
      | some j => j + 1)⟩ := by
  apply T.ext
  · simp only [splitBody, bind_fst, stringsIndexT_fst, mk_fst]
    cases indexOf s p <;> rfl
  · simp only [splitBody, bind_snd, stringsIndexT_fst, stringsIndexT_snd, mk_snd]
    cases indexOf s p <;> rfl

/-- the pieces after the loop and `r[i] = s`: those collected before, then what the pure recursion `splitGo` yields -/
theorem splitLoopT_fst (p : Bytes) : ∀ (n : Nat) (s : Bytes) (r : List Bytes),
    (splitCtlSt (splitLoopT p n s r).1).2 ++ [(splitCtlSt (splitLoopT p n s r).1).1] = r ++ splitGo n s p := by
  intro n
  induction n with
  | zero => intro s r; rfl
  | succ n ih =>
    intro s r
    unfold splitLoopT at ih ⊢
    rw [forBrkT_succ_fst, splitBody_eq, mk_fst]
    simp only [splitGo]
    cases indexOf s p with
    | none => rfl
    | some j => simp only; rw [ih]; simp

/-- the loop string.go:869 / :963 costs at most `2·(|s| + 1)` WHATEVER its trip count `n`: a successful `Index` scans
    `j + 1` candidates and `s` then shrinks by more than `j`; a failing one leaves the loop -/
theorem splitLoopT_snd_le (p : Bytes) (hp : p ≠ []) : ∀ (n : Nat) (s : Bytes) (r : List Bytes),
    (splitLoopT p n s r).2 ≤ 2 * s.length + 2 := by
  intro n
  induction n with
  | zero => intro s r; simp [splitLoopT, forBrkT]
  | succ n ih =>
    intro s r
    unfold splitLoopT at ih ⊢
    rw [forBrkT_succ_snd, splitBody_eq, mk_fst, mk_snd]
    cases hi : indexOf s p with
    | none => simp only; omega
    | some j =>
      have h1 := indexOf_add_le s p j hi
      have h2 := C09.length_pos_of_ne_nil hp
      have h3 := ih (s.drop (j + p.length)) (r ++ [s.take j])
      rw [List.length_drop] at h3
      simp only; omega

/-- the clamped trip count of `splitSepT` -/
def splitSepN (s p : Bytes) (count : Option Nat) : Nat :=
  match count with
  | none => Cost.occurrences s p
  | some n => if n > Cost.occurrences s p then Cost.occurrences s p else n

/-- the clamped trip count is at most the length of the string -/
theorem splitSepN_le (s p : Bytes) (hp : p ≠ []) (count : Option Nat) : splitSepN s p count ≤ s.length := by
  have := C09.occurrences_le s p hp
  unfold splitSepN
  cases count with
  | none => exact this
  | some n => simp only; split <;> omega

/-- (1) the pieces are the model's `splitOn s p count`, for no count and for every count -/
theorem splitSepT_fst (s p : Bytes) (hp : p ≠ []) (count : Option Nat) :
    (splitSepT s p count).1 = splitOn s p count := by
  simp only [splitSepT, bind_fst, pure_fst, countT_fst s p hp]
  rw [splitLoopT_fst, List.nil_append, splitGo_eq_splitOn s p hp]
  cases count with
  | none => exact splitOn_occurrences s p
  | some n =>
    simp only
    have := splitOn_clamp s p n
    split
    · rw [Nat.min_eq_right (by omega)] at this; exact this
    · rfl

/-- the cost, spelled out -/
theorem splitSepT_snd (s p : Bytes) (hp : p ≠ []) (count : Option Nat) :
    (splitSepT s p count).2 = (countT s p).2 + (splitSepN s p count + 1
      + (splitLoopT p (splitSepN s p count) s []).2) := by
  simp only [splitSepT, bind_snd, bind_fst, pure_snd, allocT_snd, countT_fst s p hp, splitSepN]
  cases count <;> simp

/-- the allocation `make([]any, n+1)` is exactly the number of pieces returned -/
theorem splitSepN_pieces (s p : Bytes) (hp : p ≠ []) (count : Option Nat) :
    splitSepN s p count + 1 = (splitSepT s p count).1.length := by
  rw [splitSepT_fst s p hp]
  cases count with
  | none => rw [C09.splitOn_length_none]; rfl
  | some n => rw [C09.splitOn_length]; simp only [splitSepN]; split <;> omega

/-- (2) ticks `≤ 4·(|s| + 1) + pieces`, for no count and for EVERY count (`2^62`, `2^63 - 1`, …): `Count` and the
    loop are `≤ 2·(|s|+1)` each, and `make` allocates exactly the pieces returned — thanks to the clamp -/
theorem splitSepT_snd_le (s p : Bytes) (hp : p ≠ []) : ∀ count : Option Nat,
    (splitSepT s p count).2 ≤ 4 * (s.length + 1) + (splitSepT s p count).1.length := by
  intro count
  rw [splitSepT_snd s p hp, ← splitSepN_pieces s p hp]
  have h1 := countT_snd_le s p hp
  have h2 := splitLoopT_snd_le p hp (splitSepN s p count) s []
  omega

/-- … hence `≤ 5·(|s| + 1)` -/
theorem splitSepT_snd_le' (s p : Bytes) (hp : p ≠ []) : ∀ count : Option Nat,
    (splitSepT s p count).2 ≤ 5 * (s.length + 1) := by
  intro count
  have h1 := splitSepT_snd_le s p hp count
  rw [← splitSepN_pieces s p hp] at h1
  have h2 := splitSepN_le s p hp count
  omega

example : splitSepT [1, 2, 1, 2, 1] [2] none = ⟨[[1], [1], [1]], 9 + 3 + 6⟩ := by decide
example : (splitSepT [1, 2, 1, 2, 1] [2] (some (2 ^ 63 - 1))).2 ≤ 30 := splitSepT_snd_le' _ _ (by decide) _

/-! ### what the theorems say when the clamp is deleted

  `splitSepNoClampT` is string.go:956-975 WITHOUT `if c := strings.Count(s, p); n > c { n = c }`.  It returns the same
  pieces (the loop leaves by `break` when the separators are exhausted, and `r[:i+1]` cuts the slice back), so no test
  on results can tell the two apart — but it allocates `count + 1` cells. -/

/-- string.go:956-975 without the clamp -/
def splitSepNoClampT (s p : Bytes) (n : Nat) : T (List Bytes) := do
  allocT (n + 1)
  let st ← splitLoopT p n s []
  pure ((splitCtlSt st).2 ++ [(splitCtlSt st).1])

/-- the mutant returns the same pieces … -/
theorem splitSepNoClampT_fst (s p : Bytes) (hp : p ≠ []) (n : Nat) :
    (splitSepNoClampT s p n).1 = splitOn s p (some n) := by
  simp only [splitSepNoClampT, bind_fst, pure_fst]
  rw [splitLoopT_fst, List.nil_append, splitGo_eq_splitOn s p hp]

/-- … at a cost of at least the magnitude of the count: no bound in the size of the string exists for it.
    (The witness here is the EMPTY subject, which Go answers at string.go:933 before the mutated line.  With the
    subject "a" and counts `n ≥ 1`, which do reach string.go:956: `C09E.splitSepNoClampT_unbounded_reachable`.  The
    other clamp of `splitCount`, string.go:938, whose deletion CHANGES the result: `C09E.split_empty_clamp_matters`.) -/
theorem splitSepNoClampT_unbounded (p : Bytes) :
    ¬ ∃ c : Nat, ∀ (n : Nat) (s : Bytes), (splitSepNoClampT s p n).2 ≤ c * (s.length + 1) := by
  intro ⟨c, h⟩
  have := h (c + 1) []
  simp only [splitSepNoClampT, bind_snd, allocT_snd] at this
  simp at this
  omega

example : (splitSepNoClampT [1, 2, 1] [2] (2 ^ 62)).1 = (splitSepT [1, 2, 1] [2] (some (2 ^ 62))).1 ∧
    (splitSepNoClampT [1, 2, 1] [2] (2 ^ 62)).2 ≥ 2 ^ 62 ∧ (splitSepT [1, 2, 1] [2] (some (2 ^ 62))).2 ≤ 20 := by
  refine ⟨?_, ?_, splitSepT_snd_le' _ _ (by decide) _⟩
  · rw [splitSepNoClampT_fst _ _ (by decide), splitSepT_fst _ _ (by decide)]
  · simp only [splitSepNoClampT, bind_snd, allocT_snd]; omega

/-! ## C. `split` / `split` with a count, EMPTY separator -/

/-- the body of string.go:854 / :945: `_, l := utf8.DecodeRuneInString(s); r[i] = s[:l]; s = s[l:]; i++`;
    the state is `(s, r[:i])` -/
def splitRunesBody (st : Bytes × List Bytes) : T (Bytes × List Bytes) :=
  pure (st.1.drop (decodeRune st.1).2, st.2 ++ [st.1.take (decodeRune st.1).2])

/-- string.go:854 (split) and string.go:945 (splitCount) `for i < n { _, l := utf8.DecodeRuneInString(s); … }`:
    NO guard in Go, none here — `n` iterations exactly, and `n` has been clamped by the number of code points -/
def splitRunesLoopT (n : Nat) (s : Bytes) (r : List Bytes) : T (Bytes × List Bytes) :=
  forT (fun _ => true) splitRunesBody n (s, r)

/-- string.go:849-863 (`count = none`) and string.go:937-954 (`count = some n`), the empty separator: the pieces.
    The clamp `if c := utf8.RuneCountInString(s) - 1; n > c { n = c }` (string.go:938) bounds BOTH `make` and the
    unguarded loop. -/
def splitEmptyT (s : Bytes) (count : Option Nat) : T (List Bytes) := do
  let l ← runeCountT s                                    -- string.go:850 / :938 `utf8.RuneCountInString(s)`
  let c := l - 1
  let n := match count with
    | none => c                                           -- string.go:850 `n := utf8.RuneCountInString(s) - 1`
    | some n => if n > c then c else n                    -- string.go:938 `if c := …; n > c { n = c }`
  allocT (n + 1)                                          -- string.go:851 / :942 `r := make([]any, n+1)`
  let st ← splitRunesLoopT n s []                         -- string.go:854 / :945
  pure (st.2 ++ [st.1])                                   -- string.go:861 / :952 `r[i] = s; return r[:i+1]`

/-- the unguarded loop costs exactly its trip count -/
theorem splitRunesLoopT_snd : ∀ (n : Nat) (s : Bytes) (r : List Bytes), (splitRunesLoopT n s r).2 = n := by
  intro n
  induction n with
  | zero => intro s r; rfl
  | succ n ih =>
    intro s r
    unfold splitRunesLoopT at ih ⊢
    rw [forT_succ_snd _ _ _ _ rfl]
    simp only [splitRunesBody, pure_fst, pure_snd, ih]; omega

/-- `n ≤ runeCount s` iterations cut off the first `n` of the model's `runePieces` and leave the rest joined -/
theorem splitRunesLoopT_fst : ∀ (n fuel : Nat) (s : Bytes) (r : List Bytes), s.length ≤ fuel → n ≤ runeCount s →
    (splitRunesLoopT n s r).1
      = (((runePiecesAux fuel s).drop n).foldr (· ++ ·) [], r ++ (runePiecesAux fuel s).take n) := by
  intro n
  induction n with
  | zero =>
    intro fuel s r h _
    simp only [splitRunesLoopT, forT_zero, pure_fst, List.drop_zero, List.take_zero, List.append_nil]
    rw [C09.runePiecesAux_join fuel s h]
  | succ n ih =>
    intro fuel s r h hn
    have hne : s ≠ [] := by intro c; subst c; rw [C09.runeCount_nil] at hn; omega
    have hp := C09.decodeRune_pos s hne
    have hl := C09.length_pos_of_ne_nil hne
    cases fuel with
    | zero => omega
    | succ fuel =>
      rw [C09.runeCount_step s hne] at hn
      unfold splitRunesLoopT at ih ⊢
      rw [forT_succ_fst _ _ _ _ rfl]
      simp only [splitRunesBody, pure_fst]
      rw [ih fuel _ _ (by rw [List.length_drop]; omega) (by omega), Utf8.runePiecesAux_succ _ _ hne]
      simp

/-- the code point pieces of `s` concatenate to `s` -/
theorem runePieces_join (s : Bytes) : (runePieces s).foldr (· ++ ·) [] = s :=
  C09.runePiecesAux_join _ s (Nat.le_refl _)

/-- `n ≤ runeCount s - 1` single code points followed by the rest is the model's `splitRunes s (some n)` -/
theorem splitRunes_go (s : Bytes) (hne : s ≠ []) (n : Nat) (hn : n ≤ runeCount s - 1) :
    (runePieces s).take n ++ [((runePieces s).drop n).foldr (· ++ ·) []] = splitRunes s (some n) := by
  unfold splitRunes
  simp only
  have hl := C09.runePieces_length s
  have hp := C09.runeCount_pos s hne
  split
  · rename_i h
    have e : n + 1 = (runePieces s).length := by omega
    have h1 : ((runePieces s).drop n).length = 1 := by rw [List.length_drop]; omega
    match h2 : (runePieces s).drop n, h1 with
    | [x], _ =>
      simp only [List.foldr_cons, List.foldr_nil, List.append_nil]
      rw [← h2, List.take_append_drop]
  · rfl

/-- a count clamped by `runeCount s - 1` gives the same pieces as the count itself — the clamp string.go:938 is invisible in the result -/
theorem splitRunes_clamp (s : Bytes) (hne : s ≠ []) (k : Nat) :
    splitRunes s (some (if k > runeCount s - 1 then runeCount s - 1 else k)) = splitRunes s (some k) := by
  split
  · rename_i h
    have hl := C09.runePieces_length s
    unfold splitRunes
    simp only
    rw [if_pos (by omega), if_pos (by omega)]
  · rfl

/-- `runeCount s - 1` cuts are all the cuts: the unlimited split into code points -/
theorem splitRunes_none (s : Bytes) (hne : s ≠ []) : splitRunes s (some (runeCount s - 1)) = splitRunes s none := by
  have hl := C09.runePieces_length s
  unfold splitRunes
  simp only
  rw [if_pos (by omega)]

/-- the clamped trip count of `splitEmptyT` -/
def splitEmptyN (s : Bytes) (count : Option Nat) : Nat :=
  match count with
  | none => runeCount s - 1
  | some n => if n > runeCount s - 1 then runeCount s - 1 else n

/-- the clamped trip count is at most `runeCount s - 1` -/
theorem splitEmptyN_le (s : Bytes) (count : Option Nat) : splitEmptyN s count ≤ runeCount s - 1 := by
  unfold splitEmptyN
  cases count with
  | none => exact Nat.le_refl _
  | some n => simp only; split <;> omega

/-- (1) the pieces are the model's `splitRunes s count` (on a non-empty string: the empty one is answered before,
    string.go:845 / :933) -/
theorem splitEmptyT_fst (s : Bytes) (hne : s ≠ []) (count : Option Nat) :
    (splitEmptyT s count).1 = splitRunes s count := by
  have e : (splitEmptyT s count).1 = (splitRunesLoopT (splitEmptyN s count) s []).1.2
      ++ [(splitRunesLoopT (splitEmptyN s count) s []).1.1] := by
    simp only [splitEmptyT, bind_fst, pure_fst, runeCountT_fst, splitEmptyN]
  have hn := splitEmptyN_le s count
  rw [e, splitRunesLoopT_fst _ s.length s [] (Nat.le_refl _) (by omega)]
  simp only [List.nil_append]
  have := splitRunes_go s hne _ hn
  unfold runePieces at this
  rw [this]
  cases count with
  | none => exact splitRunes_none s hne
  | some k => exact splitRunes_clamp s hne k

/-- the cost, exactly: `RuneCountInString`, `make`, the loop -/
theorem splitEmptyT_snd (s : Bytes) (count : Option Nat) :
    (splitEmptyT s count).2 = runeCount s + (splitEmptyN s count + 1 + splitEmptyN s count) := by
  simp only [splitEmptyT, bind_snd, bind_fst, pure_snd, runeCountT_fst, runeCountT_snd, allocT_snd,
    splitRunesLoopT_snd, splitEmptyN]
  cases count <;> simp

/-- (2) ticks `≤ 3·(|s| + 1)`, for no count and for EVERY count: it is the clamp that bounds `make` and the loop -/
theorem splitEmptyT_snd_le (s : Bytes) : ∀ count : Option Nat, (splitEmptyT s count).2 ≤ 3 * (s.length + 1) := by
  intro count
  rw [splitEmptyT_snd]
  have := splitEmptyN_le s count
  have := C09.runeCount_le_length _ s (Nat.le_refl _)
  omega

/-- in pieces: `make` allocates exactly the pieces returned -/
theorem splitEmptyT_snd_pieces (s : Bytes) (hne : s ≠ []) (count : Option Nat) :
    (splitEmptyT s count).2 = runeCount s + (2 * (splitEmptyT s count).1.length - 1) := by
  rw [splitEmptyT_snd, splitEmptyT_fst s hne]
  have hp := C09.runeCount_pos s hne
  cases count with
  | none => rw [C09.splitRunes_length_none]; simp only [splitEmptyN]; omega
  | some k => rw [C09.splitRunes_length]; simp only [splitEmptyN]; split <;> omega

example : splitEmptyT [0x68, 0xC3, 0xA9, 0x6C] (some (2 ^ 63 - 1)) = ⟨[[0x68], [0xC3, 0xA9], [0x6C]], 3 + 3 + 2⟩ := by
  apply T.ext
  · rw [splitEmptyT_fst _ (by decide)]; decide
  · rw [splitEmptyT_snd]; decide
example : splitEmptyT [0x68, 0xC3, 0xA9, 0x6C] (some 1) = ⟨[[0x68], [0xC3, 0xA9, 0x6C]], 3 + 2 + 1⟩ := by decide

/-! ## D. the builtins `split(value, sep)` and `split(value, sep, count)` -/

/-- `split(value, sep)`, all of string.go:828-882.  The type checks (string.go:829-843) are straight-line code and are
    taken from the model as they are. -/
def splitT (value sep : Val) : T (Res Val) :=
  match value, sep with
  | .str s, .str p =>
    if s.isEmpty then pure (.ok (.arr .plain []))                                     -- string.go:845
    else if p.isEmpty then do let r ← splitEmptyT s none; pure (.ok (strsToArr r))    -- string.go:849-863
    else do let r ← splitSepT s p none; pure (.ok (strsToArr r))                      -- string.go:865-881
  | _, _ => pure (split value sep)

/-- `split(value, sep, count)`, all of string.go:884-976.  The type checks and `toInt` (string.go:885-921) are
    straight-line code and are taken from the model as they are (`intArg`). -/
def splitCountT (value sep count : Val) : T (Res Val) :=
  match value, sep, intArg count with
  | .str s, .str p, .ok n =>
    if n < 0 then pure errValue                                                       -- string.go:923
    else if n = 0 then pure (.ok (.arr .plain [.str s]))                              -- string.go:929
    else if s.isEmpty then pure (.ok (.arr .plain []))                                -- string.go:933
    else if p.isEmpty then do                                                         -- string.go:937-954
      let r ← splitEmptyT s (some n.toNat); pure (.ok (strsToArr r))
    else do let r ← splitSepT s p (some n.toNat); pure (.ok (strsToArr r))            -- string.go:956-975
  | _, _, _ => pure (splitCount value sep count)

/-- `isEmpty` false means not `[]` -/
theorem splitIsEmpty_false {s : Bytes} (h : ¬ s.isEmpty = true) : s ≠ [] := by
  intro c; subst c; exact h rfl

/-- (1) the instrumented `split` returns exactly the model's `split`, for ALL argument values -/
theorem splitT_fst (value sep : Val) : (splitT value sep).1 = split value sep := by
  unfold splitT
  split
  · rename_i s p
    simp only [split, strArg, C09.ok_bind, C09.pure_ok]
    by_cases hs : s.isEmpty = true
    · simp [hs]
    · by_cases hp : p.isEmpty = true
      · simp only [hs, hp, if_true, if_false, Bool.false_eq_true, bind_fst, pure_fst,
          splitEmptyT_fst s (splitIsEmpty_false hs)]
      · simp only [hs, hp, if_false, Bool.false_eq_true, bind_fst, pure_fst,
          splitSepT_fst s p (splitIsEmpty_false hp)]
  · rfl

/-- (1) the instrumented `split` with a count returns exactly the model's `splitCount`, for ALL argument values -/
theorem splitCountT_fst (value sep count : Val) : (splitCountT value sep count).1 = splitCount value sep count := by
  unfold splitCountT
  split
  · rename_i s p n hn
    simp only [splitCount, strArg, hn, C09.ok_bind, C09.pure_ok]
    by_cases h1 : n < 0
    · simp [h1]
    · by_cases h2 : n = 0
      · simp [h2]
      · by_cases hs : s.isEmpty = true
        · simp [h1, h2, hs]
        · by_cases hp : p.isEmpty = true
          · simp only [h1, h2, hs, hp, if_true, if_false, Bool.false_eq_true, bind_fst, pure_fst,
              splitEmptyT_fst s (splitIsEmpty_false hs)]
          · simp only [h1, h2, hs, hp, if_false, Bool.false_eq_true, bind_fst, pure_fst,
              splitSepT_fst s p (splitIsEmpty_false hp)]
  · rfl

/-- (2) `split(s, p)` on strings: at most `5·(|s| + 1)` ticks (candidate offsets, iterations, cells) -/
theorem splitT_snd_le (s p : Bytes) : (splitT (.str s) (.str p)).2 ≤ 5 * (s.length + 1) := by
  simp only [splitT]
  by_cases hs : s.isEmpty = true
  · simp [hs]
  · by_cases hp : p.isEmpty = true
    · simp only [hs, hp, if_true, if_false, Bool.false_eq_true, bind_snd, pure_snd]
      have := splitEmptyT_snd_le s none; omega
    · simp only [hs, hp, if_false, Bool.false_eq_true, bind_snd, pure_snd]
      have := splitSepT_snd_le' s p (splitIsEmpty_false hp) none; omega

/-- (2) `split(s, p, count)` on strings, ∀ count : Val — any number, `2^62`, `2^63 - 1`, a float, a non-number:
    at most `5·(|s| + 1)` ticks.  The count does not appear in the bound. -/
theorem splitCountT_snd_le (s p : Bytes) : ∀ count : Val,
    (splitCountT (.str s) (.str p) count).2 ≤ 5 * (s.length + 1) := by
  intro count
  unfold splitCountT
  split
  · rename_i s' p' n hv hp' hn
    injection hv with hv; injection hp' with hp'; subst hv; subst hp'
    by_cases h1 : n < 0
    · simp [h1]
    · by_cases h2 : n = 0
      · simp [h2]
      · by_cases hs : s.isEmpty = true
        · simp [h1, h2, hs]
        · by_cases hp : p.isEmpty = true
          · simp only [h1, h2, hs, hp, if_true, if_false, Bool.false_eq_true, bind_snd, pure_snd]
            have := splitEmptyT_snd_le s (some n.toNat); omega
          · simp only [h1, h2, hs, hp, if_false, Bool.false_eq_true, bind_snd, pure_snd]
            have := splitSepT_snd_le' s p (splitIsEmpty_false hp) (some n.toNat); omega
  · simp

/-- the same for an integer count, spelled out: ∀ count : Int -/
theorem splitCountT_snd_le_int (s p : Bytes) : ∀ count : Int,
    (splitCountT (.str s) (.str p) (.num (.int .i64 count))).2 ≤ 5 * (s.length + 1) :=
  fun count => splitCountT_snd_le s p _

/-- in pieces: `split(s, p, count)` costs at most `4·(|s| + 1) + pieces` when it answers an array, ∀ count : Val -/
theorem splitCountT_snd_le_pieces (s p : Bytes) (count : Val) (t : ATag) (xs : List Val)
    (h : splitCount (.str s) (.str p) count = .ok (.arr t xs)) :
    (splitCountT (.str s) (.str p) count).2 ≤ 4 * (s.length + 1) + xs.length := by
  rw [← splitCountT_fst] at h
  revert h
  unfold splitCountT
  split
  · rename_i s' p' n hv hp' hn
    injection hv with hv; injection hp' with hp'; subst hv; subst hp'
    by_cases h1 : n < 0
    · simp [h1]
    · by_cases h2 : n = 0
      · simp [h2]
      · by_cases hs : s.isEmpty = true
        · simp [h1, h2, hs]
        · by_cases hp : p.isEmpty = true
          · simp only [h1, h2, hs, hp, if_true, if_false, Bool.false_eq_true, bind_snd, bind_fst, pure_snd, pure_fst]
            intro h
            have := splitEmptyT_snd_le s (some n.toNat); omega
          · simp only [h1, h2, hs, hp, if_false, Bool.false_eq_true, bind_snd, bind_fst, pure_snd, pure_fst]
            intro h
            have h3 := splitSepT_snd_le s p (splitIsEmpty_false hp) (some n.toNat)
            simp only [strsToArr] at h
            injection h with h; injection h with _ h
            rw [← h, List.length_map]; omega
  · simp

example : (splitT (.str [1, 2, 1, 2, 1]) (.str [2])).1 = .ok (.arr .plain [.str [1], .str [1], .str [1]]) := by
  rw [splitT_fst]; rfl
example : (splitCountT (.str [1, 2, 1, 2, 1]) (.str [2]) (.num (.int .i64 (2 ^ 63 - 1)))).1
    = .ok (.arr .plain [.str [1], .str [1], .str [1]]) := by
  rw [splitCountT_fst]; rfl
example : (splitCountT (.str [1, 2, 1, 2, 1]) (.str [2]) (.num (.int .i64 (2 ^ 62)))).2 ≤ 30 :=
  splitCountT_snd_le _ _ _
example : (splitCountT (.str [1, 2, 1, 2, 1]) (.str []) (.num (.int .i64 (2 ^ 63 - 1)))).2 ≤ 30 :=
  splitCountT_snd_le _ _ _
example : (splitCountT (.str [1, 2, 1]) (.str [2]) (.num (.int .i64 (-(2 ^ 63))))) = ⟨errValue, 0⟩ := by
  apply T.ext
  · rw [splitCountT_fst]; rfl
  · rfl
example : (splitCountT .null (.str [2]) (.num (.int .i64 1))).1 = errType := by rw [splitCountT_fst]; rfl

end Jmes.C09C
