/-
  C03D — inventory of the Go sites that can panic by themselves, and the checked mirror that covers each.

  The table `sites` below was produced mechanically from /repo (HEAD f7f3dd0) by a go/ast + go/types walk over all
  non-test files of the module (program text at the end of this file): every
    * `index`   — index expression `x[i]` on a string, slice or array (map indexing cannot panic and is left out),
    * `slice`   — slice expression `x[a:b]`,
    * `make`    — `make` of a slice with a non-constant length,        `makemap` — `make` of a map with a size hint,
    * `makecap` — `make([]T, n, cap)` of a slice with a CONSTANT length and a non-constant capacity (all seven are
                  `make([]any, 0, len(x))`),
    * `assert`  — single-value type assertion `x.(T)` (comma-ok forms and type switches cannot panic and are left out),
    * `intdiv`  — integer `/` or `%` with a non-constant divisor,
    * `grow`    — `strings.Builder.Grow(n)` (panics on a negative count; all four go through `grow?`).
  The last field (`Cover`) names the checked mirror (a definition of `Jmes/Proofs/C03D*.lean`, namespace `Jmes.C03D`)
  through which the site goes, or one of the tags
    * `arity` — `node.Arguments[k]`: in range because the parser builds every call node with the argument count of its
                 builtin; proved in `Jmes/Properties/C08B.lean` (`compile_arityOK`, `call_never_default`), restated in
                 `Jmes/Properties/C03D.lean` (`applyFnC`: the wrong-arity arm is a PANIC there);
    * `lib`   — callback invoked by package `sort` with indices below `Len()`;
    * `na`    — cannot panic for a reason visible at the site (the size hint / the capacity is a `len(…)`);
    * `out`   — not reachable from `Compile` / `Search` / `Expression.Search`.
  `Jmes/Properties/C03D.lean` states, per mirror, the theorem "the checked mirror equals the model function".
-/
namespace Jmes.C03D.Sites

/-- how a site is accounted for -/
inductive Cover where
  | mirror (name : String)   -- goes through this checked mirror
  | arity (why : String)
  | lib (why : String)
  | na (why : String)
  | out (why : String)
  deriving Repr, DecidableEq

structure Site where
  file : String
  line : Nat
  func : String
  kind : String
  text : String
  cover : Cover
  deriving Repr, DecidableEq

def sites : List Site := [
  ⟨"internal/evaluator/array.go", 26, "(*evaluator).arrayMaxBy", "index", "a[0]", .mirror "ArrGo.arrayMaxByC"⟩,
  ⟨"internal/evaluator/array.go", 34, "(*evaluator).arrayMaxBy", "slice", "a[1:]", .mirror "ArrGo.arrayMaxByC"⟩,
  ⟨"internal/evaluator/array.go", 54, "(*evaluator).arrayMaxBy", "index", "a[index]", .mirror "ArrGo.arrayMaxByC"⟩,
  ⟨"internal/evaluator/array.go", 65, "(*evaluator).arrayMaxBy", "slice", "a[1:]", .mirror "ArrGo.arrayMaxByC"⟩,
  ⟨"internal/evaluator/array.go", 85, "(*evaluator).arrayMaxBy", "index", "a[index]", .mirror "ArrGo.arrayMaxByC"⟩,
  ⟨"internal/evaluator/array.go", 101, "(*evaluator).arrayMinBy", "index", "a[0]", .mirror "ArrGo.arrayMinByC"⟩,
  ⟨"internal/evaluator/array.go", 109, "(*evaluator).arrayMinBy", "slice", "a[1:]", .mirror "ArrGo.arrayMinByC"⟩,
  ⟨"internal/evaluator/array.go", 129, "(*evaluator).arrayMinBy", "index", "a[index]", .mirror "ArrGo.arrayMinByC"⟩,
  ⟨"internal/evaluator/array.go", 140, "(*evaluator).arrayMinBy", "slice", "a[1:]", .mirror "ArrGo.arrayMinByC"⟩,
  ⟨"internal/evaluator/array.go", 160, "(*evaluator).arrayMinBy", "index", "a[index]", .mirror "ArrGo.arrayMinByC"⟩,
  ⟨"internal/evaluator/array.go", 169, "(*evaluator).filter", "makecap", "make([]any, 0, len(a))", .na "make([]T, 0, len(x)): length 0, capacity = length of an existing slice (never negative, within the allocation limit of the element type since x exists)"⟩,
  ⟨"internal/evaluator/array.go", 190, "(*evaluator).filterAndProjectArray", "makecap", "make([]any, 0, len(a))", .na "make([]T, 0, len(x)): length 0, capacity = length of an existing slice (never negative, within the allocation limit of the element type since x exists)"⟩,
  ⟨"internal/evaluator/array.go", 220, "(*evaluator).flattenAndProjectArray", "makecap", "make([]any, 0, len(a))", .na "make([]T, 0, len(x)): length 0, capacity = length of an existing slice (never negative, within the allocation limit of the element type since x exists)"⟩,
  ⟨"internal/evaluator/array.go", 264, "(*evaluator).mapArray", "make", "make([]any, len(a))", .mirror "ArrGo.mapArrayC"⟩,
  ⟨"internal/evaluator/array.go", 271, "(*evaluator).mapArray", "index", "r[i]", .mirror "ArrGo.mapArrayC"⟩,
  ⟨"internal/evaluator/array.go", 283, "(*evaluator).projectArray", "makecap", "make([]any, 0, len(a))", .na "make([]T, 0, len(x)): length 0, capacity = length of an existing slice (never negative, within the allocation limit of the element type since x exists)"⟩,
  ⟨"internal/evaluator/array.go", 310, "(sortByNumber).Less", "index", "s.by[i]", .lib "sort.Stable callback (indices chosen by package sort within Len() = len(items) = len(by): ArrGo.keysOf_length)"⟩,
  ⟨"internal/evaluator/array.go", 310, "(sortByNumber).Less", "index", "s.by[j]", .lib "sort.Stable callback (indices chosen by package sort within Len() = len(items) = len(by): ArrGo.keysOf_length)"⟩,
  ⟨"internal/evaluator/array.go", 314, "(sortByNumber).Swap", "index", "s.items[i]", .lib "sort.Stable callback (indices chosen by package sort within Len() = len(items) = len(by): ArrGo.keysOf_length)"⟩,
  ⟨"internal/evaluator/array.go", 314, "(sortByNumber).Swap", "index", "s.items[j]", .lib "sort.Stable callback (indices chosen by package sort within Len() = len(items) = len(by): ArrGo.keysOf_length)"⟩,
  ⟨"internal/evaluator/array.go", 314, "(sortByNumber).Swap", "index", "s.items[j]", .lib "sort.Stable callback (indices chosen by package sort within Len() = len(items) = len(by): ArrGo.keysOf_length)"⟩,
  ⟨"internal/evaluator/array.go", 314, "(sortByNumber).Swap", "index", "s.items[i]", .lib "sort.Stable callback (indices chosen by package sort within Len() = len(items) = len(by): ArrGo.keysOf_length)"⟩,
  ⟨"internal/evaluator/array.go", 315, "(sortByNumber).Swap", "index", "s.by[i]", .lib "sort.Stable callback (indices chosen by package sort within Len() = len(items) = len(by): ArrGo.keysOf_length)"⟩,
  ⟨"internal/evaluator/array.go", 315, "(sortByNumber).Swap", "index", "s.by[j]", .lib "sort.Stable callback (indices chosen by package sort within Len() = len(items) = len(by): ArrGo.keysOf_length)"⟩,
  ⟨"internal/evaluator/array.go", 315, "(sortByNumber).Swap", "index", "s.by[j]", .lib "sort.Stable callback (indices chosen by package sort within Len() = len(items) = len(by): ArrGo.keysOf_length)"⟩,
  ⟨"internal/evaluator/array.go", 315, "(sortByNumber).Swap", "index", "s.by[i]", .lib "sort.Stable callback (indices chosen by package sort within Len() = len(items) = len(by): ArrGo.keysOf_length)"⟩,
  ⟨"internal/evaluator/array.go", 328, "(sortByString).Less", "index", "s.by[i]", .lib "sort.Stable callback (indices chosen by package sort within Len() = len(items) = len(by): ArrGo.keysOf_length)"⟩,
  ⟨"internal/evaluator/array.go", 328, "(sortByString).Less", "index", "s.by[j]", .lib "sort.Stable callback (indices chosen by package sort within Len() = len(items) = len(by): ArrGo.keysOf_length)"⟩,
  ⟨"internal/evaluator/array.go", 332, "(sortByString).Swap", "index", "s.items[i]", .lib "sort.Stable callback (indices chosen by package sort within Len() = len(items) = len(by): ArrGo.keysOf_length)"⟩,
  ⟨"internal/evaluator/array.go", 332, "(sortByString).Swap", "index", "s.items[j]", .lib "sort.Stable callback (indices chosen by package sort within Len() = len(items) = len(by): ArrGo.keysOf_length)"⟩,
  ⟨"internal/evaluator/array.go", 332, "(sortByString).Swap", "index", "s.items[j]", .lib "sort.Stable callback (indices chosen by package sort within Len() = len(items) = len(by): ArrGo.keysOf_length)"⟩,
  ⟨"internal/evaluator/array.go", 332, "(sortByString).Swap", "index", "s.items[i]", .lib "sort.Stable callback (indices chosen by package sort within Len() = len(items) = len(by): ArrGo.keysOf_length)"⟩,
  ⟨"internal/evaluator/array.go", 333, "(sortByString).Swap", "index", "s.by[i]", .lib "sort.Stable callback (indices chosen by package sort within Len() = len(items) = len(by): ArrGo.keysOf_length)"⟩,
  ⟨"internal/evaluator/array.go", 333, "(sortByString).Swap", "index", "s.by[j]", .lib "sort.Stable callback (indices chosen by package sort within Len() = len(items) = len(by): ArrGo.keysOf_length)"⟩,
  ⟨"internal/evaluator/array.go", 333, "(sortByString).Swap", "index", "s.by[j]", .lib "sort.Stable callback (indices chosen by package sort within Len() = len(items) = len(by): ArrGo.keysOf_length)"⟩,
  ⟨"internal/evaluator/array.go", 333, "(sortByString).Swap", "index", "s.by[i]", .lib "sort.Stable callback (indices chosen by package sort within Len() = len(items) = len(by): ArrGo.keysOf_length)"⟩,
  ⟨"internal/evaluator/array.go", 349, "(*evaluator).sortArrayBy", "index", "a[0]", .mirror "ArrGo.sortArrayByC"⟩,
  ⟨"internal/evaluator/array.go", 355, "(*evaluator).sortArrayBy", "make", "make([]string, len(a))", .mirror "ArrGo.sortArrayByC"⟩,
  ⟨"internal/evaluator/array.go", 356, "(*evaluator).sortArrayBy", "index", "by[0]", .mirror "ArrGo.sortArrayByC"⟩,
  ⟨"internal/evaluator/array.go", 358, "(*evaluator).sortArrayBy", "slice", "a[1:]", .mirror "ArrGo.sortArrayByC"⟩,
  ⟨"internal/evaluator/array.go", 372, "(*evaluator).sortArrayBy", "index", "by[i+1]", .mirror "ArrGo.sortArrayByC"⟩,
  ⟨"internal/evaluator/array.go", 392, "(*evaluator).sortArrayBy", "make", "make([]decimal128.Decimal, len(a))", .mirror "ArrGo.sortArrayByC"⟩,
  ⟨"internal/evaluator/array.go", 393, "(*evaluator).sortArrayBy", "index", "by[0]", .mirror "ArrGo.sortArrayByC"⟩,
  ⟨"internal/evaluator/array.go", 395, "(*evaluator).sortArrayBy", "slice", "a[1:]", .mirror "ArrGo.sortArrayByC"⟩,
  ⟨"internal/evaluator/array.go", 409, "(*evaluator).sortArrayBy", "index", "by[i+1]", .mirror "ArrGo.sortArrayByC"⟩,
  ⟨"internal/evaluator/array.go", 434, "arrayMax", "index", "a[0]", .mirror "ArrGo.arrayMaxC"⟩,
  ⟨"internal/evaluator/array.go", 435, "arrayMax", "slice", "a[1:]", .mirror "ArrGo.arrayMaxC"⟩,
  ⟨"internal/evaluator/array.go", 452, "arrayMax", "index", "a[0]", .mirror "ArrGo.arrayMaxC"⟩,
  ⟨"internal/evaluator/array.go", 455, "arrayMax", "index", "a[0]", .mirror "ArrGo.arrayMaxC"⟩,
  ⟨"internal/evaluator/array.go", 460, "arrayMax", "slice", "a[1:]", .mirror "ArrGo.arrayMaxC"⟩,
  ⟨"internal/evaluator/array.go", 490, "arrayMin", "index", "a[0]", .mirror "ArrGo.arrayMinC"⟩,
  ⟨"internal/evaluator/array.go", 491, "arrayMin", "slice", "a[1:]", .mirror "ArrGo.arrayMinC"⟩,
  ⟨"internal/evaluator/array.go", 508, "arrayMin", "index", "a[0]", .mirror "ArrGo.arrayMinC"⟩,
  ⟨"internal/evaluator/array.go", 511, "arrayMin", "index", "a[0]", .mirror "ArrGo.arrayMinC"⟩,
  ⟨"internal/evaluator/array.go", 516, "arrayMin", "slice", "a[1:]", .mirror "ArrGo.arrayMinC"⟩,
  ⟨"internal/evaluator/array.go", 539, "flatten", "makecap", "make([]any, 0, len(a))", .mirror "ArrGo.flattenC"⟩,
  ⟨"internal/evaluator/array.go", 579, "index", "index", "a[i]", .mirror "SliceGo.indexG"⟩,
  ⟨"internal/evaluator/array.go", 601, "pruneArray", "slice", "a[:i]", .mirror "ArrGo.pruneArrayC"⟩,
  ⟨"internal/evaluator/array.go", 630, "sortArray", "index", "a[0]", .mirror "ArrGo.sortArrayC"⟩,
  ⟨"internal/evaluator/array.go", 631, "sortArray", "slice", "a[1:]", .mirror "ArrGo.sortArrayC"⟩,
  ⟨"internal/evaluator/compare.go", 72, "equal", "index", "y[i]", .mirror "ObjGo.equalArrG"⟩,
  ⟨"internal/evaluator/evaluator.go", 84, "(*evaluator).evaluate", "index", "node.Arguments[0]", .arity "C08B.call_never_default + C08B.compile_arityOK"⟩,
  ⟨"internal/evaluator/evaluator.go", 89, "(*evaluator).evaluate", "index", "node.Arguments[1]", .arity "C08B.call_never_default + C08B.compile_arityOK"⟩,
  ⟨"internal/evaluator/evaluator.go", 98, "(*evaluator).evaluate", "makemap", "make(map[string]any, len(node.Variables))", .na "size hint len(x) >= 0 of a map"⟩,
  ⟨"internal/evaluator/evaluator.go", 122, "(*evaluator).evaluate", "index", "node.Arguments[0]", .arity "C08B.call_never_default + C08B.compile_arityOK"⟩,
  ⟨"internal/evaluator/evaluator.go", 127, "(*evaluator).evaluate", "index", "node.Arguments[1]", .arity "C08B.call_never_default + C08B.compile_arityOK"⟩,
  ⟨"internal/evaluator/evaluator.go", 166, "(*evaluator).evaluate", "index", "node.Arguments[0]", .arity "C08B.call_never_default + C08B.compile_arityOK"⟩,
  ⟨"internal/evaluator/evaluator.go", 171, "(*evaluator).evaluate", "index", "node.Arguments[1]", .arity "C08B.call_never_default + C08B.compile_arityOK"⟩,
  ⟨"internal/evaluator/evaluator.go", 178, "(*evaluator).evaluate", "index", "node.Arguments[0]", .arity "C08B.call_never_default + C08B.compile_arityOK"⟩,
  ⟨"internal/evaluator/evaluator.go", 183, "(*evaluator).evaluate", "index", "node.Arguments[1]", .arity "C08B.call_never_default + C08B.compile_arityOK"⟩,
  ⟨"internal/evaluator/evaluator.go", 188, "(*evaluator).evaluate", "index", "node.Arguments[2]", .arity "C08B.call_never_default + C08B.compile_arityOK"⟩,
  ⟨"internal/evaluator/evaluator.go", 193, "(*evaluator).evaluate", "index", "node.Arguments[3]", .arity "C08B.call_never_default + C08B.compile_arityOK"⟩,
  ⟨"internal/evaluator/evaluator.go", 200, "(*evaluator).evaluate", "index", "node.Arguments[0]", .arity "C08B.call_never_default + C08B.compile_arityOK"⟩,
  ⟨"internal/evaluator/evaluator.go", 205, "(*evaluator).evaluate", "index", "node.Arguments[1]", .arity "C08B.call_never_default + C08B.compile_arityOK"⟩,
  ⟨"internal/evaluator/evaluator.go", 210, "(*evaluator).evaluate", "index", "node.Arguments[2]", .arity "C08B.call_never_default + C08B.compile_arityOK"⟩,
  ⟨"internal/evaluator/evaluator.go", 217, "(*evaluator).evaluate", "index", "node.Arguments[0]", .arity "C08B.call_never_default + C08B.compile_arityOK"⟩,
  ⟨"internal/evaluator/evaluator.go", 222, "(*evaluator).evaluate", "index", "node.Arguments[1]", .arity "C08B.call_never_default + C08B.compile_arityOK"⟩,
  ⟨"internal/evaluator/evaluator.go", 229, "(*evaluator).evaluate", "index", "node.Arguments[0]", .arity "C08B.call_never_default + C08B.compile_arityOK"⟩,
  ⟨"internal/evaluator/evaluator.go", 234, "(*evaluator).evaluate", "index", "node.Arguments[1]", .arity "C08B.call_never_default + C08B.compile_arityOK"⟩,
  ⟨"internal/evaluator/evaluator.go", 239, "(*evaluator).evaluate", "index", "node.Arguments[2]", .arity "C08B.call_never_default + C08B.compile_arityOK"⟩,
  ⟨"internal/evaluator/evaluator.go", 244, "(*evaluator).evaluate", "index", "node.Arguments[3]", .arity "C08B.call_never_default + C08B.compile_arityOK"⟩,
  ⟨"internal/evaluator/evaluator.go", 251, "(*evaluator).evaluate", "index", "node.Arguments[0]", .arity "C08B.call_never_default + C08B.compile_arityOK"⟩,
  ⟨"internal/evaluator/evaluator.go", 256, "(*evaluator).evaluate", "index", "node.Arguments[1]", .arity "C08B.call_never_default + C08B.compile_arityOK"⟩,
  ⟨"internal/evaluator/evaluator.go", 261, "(*evaluator).evaluate", "index", "node.Arguments[2]", .arity "C08B.call_never_default + C08B.compile_arityOK"⟩,
  ⟨"internal/evaluator/evaluator.go", 324, "(*evaluator).evaluate", "index", "node.Arguments[0]", .arity "C08B.call_never_default + C08B.compile_arityOK"⟩,
  ⟨"internal/evaluator/evaluator.go", 329, "(*evaluator).evaluate", "index", "node.Arguments[1]", .arity "C08B.call_never_default + C08B.compile_arityOK"⟩,
  ⟨"internal/evaluator/evaluator.go", 359, "(*evaluator).evaluate", "index", "node.Arguments[0]", .arity "C08B.call_never_default + C08B.compile_arityOK"⟩,
  ⟨"internal/evaluator/evaluator.go", 364, "(*evaluator).evaluate", "index", "node.Arguments[1]", .arity "C08B.call_never_default + C08B.compile_arityOK"⟩,
  ⟨"internal/evaluator/evaluator.go", 416, "(*evaluator).evaluate", "index", "node.Arguments[1]", .arity "C08B.call_never_default + C08B.compile_arityOK"⟩,
  ⟨"internal/evaluator/evaluator.go", 421, "(*evaluator).evaluate", "index", "node.Arguments[0]", .arity "C08B.call_never_default + C08B.compile_arityOK"⟩,
  ⟨"internal/evaluator/evaluator.go", 430, "(*evaluator).evaluate", "index", "node.Arguments[0]", .arity "C08B.call_never_default + C08B.compile_arityOK"⟩,
  ⟨"internal/evaluator/evaluator.go", 435, "(*evaluator).evaluate", "index", "node.Arguments[1]", .arity "C08B.call_never_default + C08B.compile_arityOK"⟩,
  ⟨"internal/evaluator/evaluator.go", 466, "(*evaluator).evaluate", "index", "node.Arguments[0]", .arity "C08B.call_never_default + C08B.compile_arityOK"⟩,
  ⟨"internal/evaluator/evaluator.go", 471, "(*evaluator).evaluate", "index", "node.Arguments[1]", .arity "C08B.call_never_default + C08B.compile_arityOK"⟩,
  ⟨"internal/evaluator/evaluator.go", 575, "(*evaluator).evaluate", "index", "node.Arguments[0]", .arity "C08B.call_never_default + C08B.compile_arityOK"⟩,
  ⟨"internal/evaluator/evaluator.go", 580, "(*evaluator).evaluate", "index", "node.Arguments[1]", .arity "C08B.call_never_default + C08B.compile_arityOK"⟩,
  ⟨"internal/evaluator/evaluator.go", 585, "(*evaluator).evaluate", "index", "node.Arguments[2]", .arity "C08B.call_never_default + C08B.compile_arityOK"⟩,
  ⟨"internal/evaluator/evaluator.go", 592, "(*evaluator).evaluate", "index", "node.Arguments[0]", .arity "C08B.call_never_default + C08B.compile_arityOK"⟩,
  ⟨"internal/evaluator/evaluator.go", 597, "(*evaluator).evaluate", "index", "node.Arguments[1]", .arity "C08B.call_never_default + C08B.compile_arityOK"⟩,
  ⟨"internal/evaluator/evaluator.go", 602, "(*evaluator).evaluate", "index", "node.Arguments[2]", .arity "C08B.call_never_default + C08B.compile_arityOK"⟩,
  ⟨"internal/evaluator/evaluator.go", 609, "(*evaluator).evaluate", "index", "node.Arguments[0]", .arity "C08B.call_never_default + C08B.compile_arityOK"⟩,
  ⟨"internal/evaluator/evaluator.go", 614, "(*evaluator).evaluate", "index", "node.Arguments[1]", .arity "C08B.call_never_default + C08B.compile_arityOK"⟩,
  ⟨"internal/evaluator/evaluator.go", 621, "(*evaluator).evaluate", "index", "node.Arguments[0]", .arity "C08B.call_never_default + C08B.compile_arityOK"⟩,
  ⟨"internal/evaluator/evaluator.go", 626, "(*evaluator).evaluate", "index", "node.Arguments[1]", .arity "C08B.call_never_default + C08B.compile_arityOK"⟩,
  ⟨"internal/evaluator/evaluator.go", 671, "(*evaluator).evaluate", "index", "node.Arguments[0]", .arity "C08B.call_never_default + C08B.compile_arityOK"⟩,
  ⟨"internal/evaluator/evaluator.go", 676, "(*evaluator).evaluate", "index", "node.Arguments[1]", .arity "C08B.call_never_default + C08B.compile_arityOK"⟩,
  ⟨"internal/evaluator/evaluator.go", 681, "(*evaluator).evaluate", "index", "node.Arguments[2]", .arity "C08B.call_never_default + C08B.compile_arityOK"⟩,
  ⟨"internal/evaluator/evaluator.go", 688, "(*evaluator).evaluate", "index", "node.Arguments[0]", .arity "C08B.call_never_default + C08B.compile_arityOK"⟩,
  ⟨"internal/evaluator/evaluator.go", 693, "(*evaluator).evaluate", "index", "node.Arguments[1]", .arity "C08B.call_never_default + C08B.compile_arityOK"⟩,
  ⟨"internal/evaluator/evaluator.go", 698, "(*evaluator).evaluate", "index", "node.Arguments[2]", .arity "C08B.call_never_default + C08B.compile_arityOK"⟩,
  ⟨"internal/evaluator/evaluator.go", 703, "(*evaluator).evaluate", "index", "node.Arguments[3]", .arity "C08B.call_never_default + C08B.compile_arityOK"⟩,
  ⟨"internal/evaluator/evaluator.go", 728, "(*evaluator).evaluate", "make", "make([]any, len(node.Fields))", .mirror "ObjGo.fillC"⟩,
  ⟨"internal/evaluator/evaluator.go", 735, "(*evaluator).evaluate", "index", "results[i]", .mirror "ObjGo.fillC"⟩,
  ⟨"internal/evaluator/evaluator.go", 744, "(*evaluator).evaluate", "make", "make([]any, len(node.Fields))", .mirror "ObjGo.fillC"⟩,
  ⟨"internal/evaluator/evaluator.go", 751, "(*evaluator).evaluate", "index", "results[i]", .mirror "ObjGo.fillC"⟩,
  ⟨"internal/evaluator/evaluator.go", 788, "(*evaluator).evaluate", "makemap", "make(map[string]any, len(node.Fields))", .na "size hint len(x) >= 0 of a map"⟩,
  ⟨"internal/evaluator/evaluator.go", 804, "(*evaluator).evaluate", "makemap", "make(map[string]any, len(node.Fields))", .na "size hint len(x) >= 0 of a map"⟩,
  ⟨"internal/evaluator/evaluator.go", 870, "(*evaluator).evaluate", "index", "node.Arguments[0]", .arity "C08B.call_never_default + C08B.compile_arityOK"⟩,
  ⟨"internal/evaluator/evaluator.go", 875, "(*evaluator).evaluate", "index", "node.Arguments[1]", .arity "C08B.call_never_default + C08B.compile_arityOK"⟩,
  ⟨"internal/evaluator/evaluator.go", 877, "(*evaluator).evaluate", "index", "node.Arguments[0]", .arity "C08B.call_never_default + C08B.compile_arityOK"⟩,
  ⟨"internal/evaluator/evaluator.go", 882, "(*evaluator).evaluate", "index", "node.Arguments[1]", .arity "C08B.call_never_default + C08B.compile_arityOK"⟩,
  ⟨"internal/evaluator/evaluator.go", 889, "(*evaluator).evaluate", "index", "node.Arguments[0]", .arity "C08B.call_never_default + C08B.compile_arityOK"⟩,
  ⟨"internal/evaluator/evaluator.go", 894, "(*evaluator).evaluate", "index", "node.Arguments[1]", .arity "C08B.call_never_default + C08B.compile_arityOK"⟩,
  ⟨"internal/evaluator/evaluator.go", 899, "(*evaluator).evaluate", "index", "node.Arguments[2]", .arity "C08B.call_never_default + C08B.compile_arityOK"⟩,
  ⟨"internal/evaluator/evaluator.go", 906, "(*evaluator).evaluate", "index", "node.Arguments[0]", .arity "C08B.call_never_default + C08B.compile_arityOK"⟩,
  ⟨"internal/evaluator/evaluator.go", 911, "(*evaluator).evaluate", "index", "node.Arguments[1]", .arity "C08B.call_never_default + C08B.compile_arityOK"⟩,
  ⟨"internal/evaluator/evaluator.go", 960, "(*evaluator).evaluate", "index", "node.Arguments[0]", .arity "C08B.call_never_default + C08B.compile_arityOK"⟩,
  ⟨"internal/evaluator/evaluator.go", 965, "(*evaluator).evaluate", "index", "node.Arguments[1]", .arity "C08B.call_never_default + C08B.compile_arityOK"⟩,
  ⟨"internal/evaluator/evaluator.go", 972, "(*evaluator).evaluate", "index", "node.Arguments[0]", .arity "C08B.call_never_default + C08B.compile_arityOK"⟩,
  ⟨"internal/evaluator/evaluator.go", 977, "(*evaluator).evaluate", "index", "node.Arguments[1]", .arity "C08B.call_never_default + C08B.compile_arityOK"⟩,
  ⟨"internal/evaluator/evaluator.go", 984, "(*evaluator).evaluate", "index", "node.Arguments[0]", .arity "C08B.call_never_default + C08B.compile_arityOK"⟩,
  ⟨"internal/evaluator/evaluator.go", 989, "(*evaluator).evaluate", "index", "node.Arguments[1]", .arity "C08B.call_never_default + C08B.compile_arityOK"⟩,
  ⟨"internal/evaluator/evaluator.go", 1048, "(*evaluator).evaluate", "make", "make([][]any, len(node.Arguments))", .mirror "ArrGo.zipC"⟩,
  ⟨"internal/evaluator/evaluator.go", 1067, "(*evaluator).evaluate", "index", "values[i]", .mirror "ArrGo.zipC"⟩,
  ⟨"internal/evaluator/evaluator.go", 1070, "(*evaluator).evaluate", "make", "make([]any, count)", .mirror "ArrGo.zipC"⟩,
  ⟨"internal/evaluator/evaluator.go", 1072, "(*evaluator).evaluate", "make", "make([]any, len(values))", .mirror "ArrGo.zipC"⟩,
  ⟨"internal/evaluator/evaluator.go", 1074, "(*evaluator).evaluate", "index", "result[j]", .mirror "ArrGo.zipC"⟩,
  ⟨"internal/evaluator/evaluator.go", 1074, "(*evaluator).evaluate", "index", "value[i]", .mirror "ArrGo.zipC"⟩,
  ⟨"internal/evaluator/evaluator.go", 1077, "(*evaluator).evaluate", "index", "results[i]", .mirror "ArrGo.zipC"⟩,
  ⟨"internal/evaluator/functions.go", 15, "isJSONNumber", "index", "s[i]", .mirror "ArrGo.isJSONNumberC"⟩,
  ⟨"internal/evaluator/functions.go", 23, "isJSONNumber", "index", "s[i]", .mirror "ArrGo.isJSONNumberC"⟩,
  ⟨"internal/evaluator/functions.go", 25, "isJSONNumber", "index", "s[i]", .mirror "ArrGo.isJSONNumberC"⟩,
  ⟨"internal/evaluator/functions.go", 25, "isJSONNumber", "index", "s[i]", .mirror "ArrGo.isJSONNumberC"⟩,
  ⟨"internal/evaluator/functions.go", 26, "isJSONNumber", "index", "s[i]", .mirror "ArrGo.isJSONNumberC"⟩,
  ⟨"internal/evaluator/functions.go", 26, "isJSONNumber", "index", "s[i]", .mirror "ArrGo.isJSONNumberC"⟩,
  ⟨"internal/evaluator/functions.go", 33, "isJSONNumber", "index", "s[i]", .mirror "ArrGo.isJSONNumberC"⟩,
  ⟨"internal/evaluator/functions.go", 36, "isJSONNumber", "index", "s[i]", .mirror "ArrGo.isJSONNumberC"⟩,
  ⟨"internal/evaluator/functions.go", 36, "isJSONNumber", "index", "s[i]", .mirror "ArrGo.isJSONNumberC"⟩,
  ⟨"internal/evaluator/functions.go", 45, "isJSONNumber", "index", "s[i]", .mirror "ArrGo.isJSONNumberC"⟩,
  ⟨"internal/evaluator/functions.go", 45, "isJSONNumber", "index", "s[i]", .mirror "ArrGo.isJSONNumberC"⟩,
  ⟨"internal/evaluator/functions.go", 47, "isJSONNumber", "index", "s[i]", .mirror "ArrGo.isJSONNumberC"⟩,
  ⟨"internal/evaluator/functions.go", 47, "isJSONNumber", "index", "s[i]", .mirror "ArrGo.isJSONNumberC"⟩,
  ⟨"internal/evaluator/functions.go", 52, "isJSONNumber", "index", "s[i]", .mirror "ArrGo.isJSONNumberC"⟩,
  ⟨"internal/evaluator/functions.go", 52, "isJSONNumber", "index", "s[i]", .mirror "ArrGo.isJSONNumberC"⟩,
  ⟨"internal/evaluator/functions.go", 94, "reverse", "grow", "b.Grow(len(s))", .mirror "ArrGo.reverseC"⟩,
  ⟨"internal/evaluator/functions.go", 99, "reverse", "slice", "s[:len(s)-sz]", .mirror "ArrGo.reverseC"⟩,
  ⟨"internal/evaluator/functions.go", 107, "reverse", "make", "make([]any, l)", .mirror "ArrGo.reverseC"⟩,
  ⟨"internal/evaluator/functions.go", 109, "reverse", "index", "r[j]", .mirror "ArrGo.reverseC"⟩,
  ⟨"internal/evaluator/functions.go", 109, "reverse", "index", "a[i]", .mirror "ArrGo.reverseC"⟩,
  ⟨"internal/evaluator/object.go", 22, "(*evaluator).groupBy", "makemap", "make(map[string]any, len(a))", .na "size hint len(x) >= 0 of a map"⟩,
  ⟨"internal/evaluator/object.go", 40, "(*evaluator).groupBy", "assert", "r[s].([]any)", .mirror "ArrGo.groupByC"⟩,
  ⟨"internal/evaluator/object.go", 53, "(*evaluator).projectObject", "makecap", "make([]any, 0, len(m))", .na "make([]T, 0, len(x)): length 0, capacity = number of entries of an existing map[string]any (never negative; every entry already occupies more memory than one element of T = any, so within the allocation limit since x exists)"⟩,
  ⟨"internal/evaluator/object.go", 88, "fromItems", "makemap", "make(map[string]any, len(a))", .na "size hint len(x) >= 0 of a map"⟩,
  ⟨"internal/evaluator/object.go", 104, "fromItems", "index", "ia[0]", .mirror "ObjGo.fromItemsLoopG"⟩,
  ⟨"internal/evaluator/object.go", 107, "fromItems", "index", "ia[0]", .mirror "ObjGo.fromItemsLoopG"⟩,
  ⟨"internal/evaluator/object.go", 111, "fromItems", "index", "ia[1]", .mirror "ObjGo.fromItemsLoopG"⟩,
  ⟨"internal/evaluator/object.go", 126, "items", "make", "make([]any, len(m))", .mirror "ObjGo.itemsC"⟩,
  ⟨"internal/evaluator/object.go", 129, "items", "index", "r[i]", .mirror "ObjGo.itemsC"⟩,
  ⟨"internal/evaluator/object.go", 145, "keys", "make", "make([]any, len(m))", .mirror "ObjGo.keysC"⟩,
  ⟨"internal/evaluator/object.go", 148, "keys", "index", "r[i]", .mirror "ObjGo.keysC"⟩,
  ⟨"internal/evaluator/object.go", 161, "objectValues", "makecap", "make([]any, 0, len(m))", .na "make([]T, 0, len(x)): length 0, capacity = number of entries of an existing map[string]any (never negative; every entry already occupies more memory than one element of T = any, so within the allocation limit since x exists)"⟩,
  ⟨"internal/evaluator/object.go", 182, "values", "make", "make([]any, len(m))", .mirror "ObjGo.valuesC"⟩,
  ⟨"internal/evaluator/object.go", 185, "values", "index", "r[i]", .mirror "ObjGo.valuesC"⟩,
  ⟨"internal/evaluator/slice.go", 50, "slice", "slice", "a[start:stop]", .mirror "SliceGo.sliceC"⟩,
  ⟨"internal/evaluator/slice.go", 78, "slice", "slice", "s[sz:]", .mirror "SliceGo.sliceC"⟩,
  ⟨"internal/evaluator/slice.go", 83, "slice", "slice", "s[idx:]", .mirror "SliceGo.sliceC"⟩,
  ⟨"internal/evaluator/slice.go", 87, "slice", "slice", "s[:idx]", .mirror "SliceGo.sliceC"⟩,
  ⟨"internal/evaluator/slice.go", 124, "sliceStep", "intdiv", "c / step", .mirror "SliceGo.sliceStepC"⟩,
  ⟨"internal/evaluator/slice.go", 125, "sliceStep", "intdiv", "c % step", .mirror "SliceGo.sliceStepC"⟩,
  ⟨"internal/evaluator/slice.go", 155, "sliceStep", "intdiv", "c / s", .mirror "SliceGo.sliceStepC"⟩,
  ⟨"internal/evaluator/slice.go", 156, "sliceStep", "intdiv", "c % s", .mirror "SliceGo.sliceStepC"⟩,
  ⟨"internal/evaluator/slice.go", 161, "sliceStep", "make", "make([]any, n)", .mirror "SliceGo.sliceStepC"⟩,
  ⟨"internal/evaluator/slice.go", 163, "sliceStep", "index", "r[i]", .mirror "SliceGo.sliceStepC"⟩,
  ⟨"internal/evaluator/slice.go", 163, "sliceStep", "index", "a[j]", .mirror "SliceGo.sliceStepC"⟩,
  ⟨"internal/evaluator/slice.go", 199, "sliceStep", "intdiv", "c / step", .mirror "SliceGo.sliceStepC"⟩,
  ⟨"internal/evaluator/slice.go", 200, "sliceStep", "intdiv", "c % step", .mirror "SliceGo.sliceStepC"⟩,
  ⟨"internal/evaluator/slice.go", 230, "sliceStep", "intdiv", "c / s", .mirror "SliceGo.sliceStepC"⟩,
  ⟨"internal/evaluator/slice.go", 231, "sliceStep", "intdiv", "c % s", .mirror "SliceGo.sliceStepC"⟩,
  ⟨"internal/evaluator/slice.go", 237, "sliceStep", "grow", "b.Grow(n)", .mirror "SliceGo.sliceStepC"⟩,
  ⟨"internal/evaluator/slice.go", 242, "sliceStep", "slice", "s[sz:]", .mirror "SliceGo.sliceStepC"⟩,
  ⟨"internal/evaluator/slice.go", 247, "sliceStep", "slice", "s[sz:]", .mirror "SliceGo.sliceStepC"⟩,
  ⟨"internal/evaluator/slice.go", 252, "sliceStep", "slice", "s[sz:]", .mirror "SliceGo.sliceStepC"⟩,
  ⟨"internal/evaluator/slice.go", 258, "sliceStep", "slice", "s[:len(s)-sz]", .mirror "SliceGo.sliceStepC"⟩,
  ⟨"internal/evaluator/slice.go", 263, "sliceStep", "slice", "s[:len(s)-sz]", .mirror "SliceGo.sliceStepC"⟩,
  ⟨"internal/evaluator/slice.go", 268, "sliceStep", "slice", "s[:len(s)-sz]", .mirror "SliceGo.sliceStepC"⟩,
  ⟨"internal/evaluator/string.go", 56, "findFirst", "slice", "s[:r]", .mirror "StrGo.findC"⟩,
  ⟨"internal/evaluator/string.go", 135, "findFirstBetween", "slice", "s[n:]", .mirror "StrGo.findBetweenG"⟩,
  ⟨"internal/evaluator/string.go", 153, "findFirstBetween", "slice", "s[n:]", .mirror "StrGo.findBetweenG"⟩,
  ⟨"internal/evaluator/string.go", 168, "findFirstBetween", "slice", "s[i:j]", .mirror "StrGo.findBetweenG"⟩,
  ⟨"internal/evaluator/string.go", 173, "findFirstBetween", "slice", "s[:r+i]", .mirror "StrGo.findBetweenG"⟩,
  ⟨"internal/evaluator/string.go", 223, "findFirstFrom", "slice", "s[n:]", .mirror "StrGo.findFromC"⟩,
  ⟨"internal/evaluator/string.go", 234, "findFirstFrom", "slice", "s[i:]", .mirror "StrGo.findFromC"⟩,
  ⟨"internal/evaluator/string.go", 239, "findFirstFrom", "slice", "s[:r+i]", .mirror "StrGo.findFromC"⟩,
  ⟨"internal/evaluator/string.go", 269, "findLast", "slice", "s[:r]", .mirror "StrGo.findC"⟩,
  ⟨"internal/evaluator/string.go", 348, "findLastBetween", "slice", "s[n:]", .mirror "StrGo.findBetweenG"⟩,
  ⟨"internal/evaluator/string.go", 366, "findLastBetween", "slice", "s[n:]", .mirror "StrGo.findBetweenG"⟩,
  ⟨"internal/evaluator/string.go", 381, "findLastBetween", "slice", "s[i:j]", .mirror "StrGo.findBetweenG"⟩,
  ⟨"internal/evaluator/string.go", 386, "findLastBetween", "slice", "s[:r+i]", .mirror "StrGo.findBetweenG"⟩,
  ⟨"internal/evaluator/string.go", 436, "findLastFrom", "slice", "s[n:]", .mirror "StrGo.findFromC"⟩,
  ⟨"internal/evaluator/string.go", 447, "findLastFrom", "slice", "s[i:]", .mirror "StrGo.findFromC"⟩,
  ⟨"internal/evaluator/string.go", 452, "findLastFrom", "slice", "s[:r+i]", .mirror "StrGo.findFromC"⟩,
  ⟨"internal/evaluator/string.go", 477, "join", "index", "a[0]", .mirror "ArrGo.joinC"⟩,
  ⟨"internal/evaluator/string.go", 480, "join", "index", "a[0]", .mirror "ArrGo.joinC"⟩,
  ⟨"internal/evaluator/string.go", 488, "join", "slice", "a[1:]", .mirror "ArrGo.joinC"⟩,
  ⟨"internal/evaluator/string.go", 851, "split", "make", "make([]any, n+1)", .mirror "StrGo.splitG"⟩,
  ⟨"internal/evaluator/string.go", 856, "split", "index", "r[i]", .mirror "StrGo.splitG"⟩,
  ⟨"internal/evaluator/string.go", 856, "split", "slice", "s[:l]", .mirror "StrGo.splitG"⟩,
  ⟨"internal/evaluator/string.go", 857, "split", "slice", "s[l:]", .mirror "StrGo.splitG"⟩,
  ⟨"internal/evaluator/string.go", 861, "split", "index", "r[i]", .mirror "StrGo.splitG"⟩,
  ⟨"internal/evaluator/string.go", 862, "split", "slice", "r[:i+1]", .mirror "StrGo.splitG"⟩,
  ⟨"internal/evaluator/string.go", 866, "split", "make", "make([]any, n+1)", .mirror "StrGo.splitG"⟩,
  ⟨"internal/evaluator/string.go", 875, "split", "index", "r[i]", .mirror "StrGo.splitG"⟩,
  ⟨"internal/evaluator/string.go", 875, "split", "slice", "s[:j]", .mirror "StrGo.splitG"⟩,
  ⟨"internal/evaluator/string.go", 876, "split", "slice", "s[j+len(p):]", .mirror "StrGo.splitG"⟩,
  ⟨"internal/evaluator/string.go", 880, "split", "index", "r[i]", .mirror "StrGo.splitG"⟩,
  ⟨"internal/evaluator/string.go", 881, "split", "slice", "r[:i+1]", .mirror "StrGo.splitG"⟩,
  ⟨"internal/evaluator/string.go", 942, "splitCount", "make", "make([]any, n+1)", .mirror "StrGo.splitCountG"⟩,
  ⟨"internal/evaluator/string.go", 947, "splitCount", "index", "r[i]", .mirror "StrGo.splitCountG"⟩,
  ⟨"internal/evaluator/string.go", 947, "splitCount", "slice", "s[:l]", .mirror "StrGo.splitCountG"⟩,
  ⟨"internal/evaluator/string.go", 948, "splitCount", "slice", "s[l:]", .mirror "StrGo.splitCountG"⟩,
  ⟨"internal/evaluator/string.go", 952, "splitCount", "index", "r[i]", .mirror "StrGo.splitCountG"⟩,
  ⟨"internal/evaluator/string.go", 953, "splitCount", "slice", "r[:i+1]", .mirror "StrGo.splitCountG"⟩,
  ⟨"internal/evaluator/string.go", 960, "splitCount", "make", "make([]any, n+1)", .mirror "StrGo.splitCountG"⟩,
  ⟨"internal/evaluator/string.go", 969, "splitCount", "index", "r[i]", .mirror "StrGo.splitCountG"⟩,
  ⟨"internal/evaluator/string.go", 969, "splitCount", "slice", "s[:j]", .mirror "StrGo.splitCountG"⟩,
  ⟨"internal/evaluator/string.go", 970, "splitCount", "slice", "s[j+len(p):]", .mirror "StrGo.splitCountG"⟩,
  ⟨"internal/evaluator/string.go", 974, "splitCount", "index", "r[i]", .mirror "StrGo.splitCountG"⟩,
  ⟨"internal/evaluator/string.go", 975, "splitCount", "slice", "r[:i+1]", .mirror "StrGo.splitCountG"⟩,
  ⟨"internal/lexer/lexer.go", 60, "(*Lexer).Next", "slice", "l.expression[start:l.position]", .mirror "LexGo.NextC"⟩,
  ⟨"internal/lexer/lexer.go", 70, "(*Lexer).Next", "slice", "l.expression[start:l.position]", .mirror "LexGo.NextC"⟩,
  ⟨"internal/lexer/lexer.go", 79, "(*Lexer).Next", "slice", "l.expression[start:l.position]", .mirror "LexGo.NextC"⟩,
  ⟨"internal/lexer/lexer.go", 89, "(*Lexer).Next", "slice", "l.expression[start:l.position]", .mirror "LexGo.NextC"⟩,
  ⟨"internal/lexer/lexer.go", 97, "(*Lexer).Next", "slice", "l.expression[start:l.position]", .mirror "LexGo.NextC"⟩,
  ⟨"internal/lexer/lexer.go", 105, "(*Lexer).Next", "slice", "l.expression[start:l.position]", .mirror "LexGo.NextC"⟩,
  ⟨"internal/lexer/lexer.go", 113, "(*Lexer).Next", "slice", "l.expression[start:l.position]", .mirror "LexGo.NextC"⟩,
  ⟨"internal/lexer/lexer.go", 121, "(*Lexer).Next", "slice", "l.expression[start:l.position]", .mirror "LexGo.NextC"⟩,
  ⟨"internal/lexer/lexer.go", 134, "(*Lexer).Next", "slice", "l.expression[start:l.position]", .mirror "LexGo.NextC"⟩,
  ⟨"internal/lexer/lexer.go", 144, "(*Lexer).Next", "slice", "l.expression[start:l.position]", .mirror "LexGo.NextC"⟩,
  ⟨"internal/lexer/lexer.go", 153, "(*Lexer).Next", "slice", "l.expression[start:l.position]", .mirror "LexGo.NextC"⟩,
  ⟨"internal/lexer/lexer.go", 163, "(*Lexer).Next", "slice", "l.expression[start:l.position]", .mirror "LexGo.NextC"⟩,
  ⟨"internal/lexer/lexer.go", 172, "(*Lexer).Next", "slice", "l.expression[start:l.position]", .mirror "LexGo.NextC"⟩,
  ⟨"internal/lexer/lexer.go", 180, "(*Lexer).Next", "slice", "l.expression[start:l.position]", .mirror "LexGo.NextC"⟩,
  ⟨"internal/lexer/lexer.go", 190, "(*Lexer).Next", "slice", "l.expression[start:l.position]", .mirror "LexGo.NextC"⟩,
  ⟨"internal/lexer/lexer.go", 199, "(*Lexer).Next", "slice", "l.expression[start:l.position]", .mirror "LexGo.NextC"⟩,
  ⟨"internal/lexer/lexer.go", 209, "(*Lexer).Next", "slice", "l.expression[start:l.position]", .mirror "LexGo.NextC"⟩,
  ⟨"internal/lexer/lexer.go", 218, "(*Lexer).Next", "slice", "l.expression[start:l.position]", .mirror "LexGo.NextC"⟩,
  ⟨"internal/lexer/lexer.go", 228, "(*Lexer).Next", "slice", "l.expression[start:l.position]", .mirror "LexGo.NextC"⟩,
  ⟨"internal/lexer/lexer.go", 237, "(*Lexer).Next", "slice", "l.expression[start:l.position]", .mirror "LexGo.NextC"⟩,
  ⟨"internal/lexer/lexer.go", 245, "(*Lexer).Next", "slice", "l.expression[start:l.position]", .mirror "LexGo.NextC"⟩,
  ⟨"internal/lexer/lexer.go", 258, "(*Lexer).Next", "slice", "l.expression[start:l.position]", .mirror "LexGo.NextC"⟩,
  ⟨"internal/lexer/lexer.go", 268, "(*Lexer).Next", "slice", "l.expression[start:l.position]", .mirror "LexGo.NextC"⟩,
  ⟨"internal/lexer/lexer.go", 278, "(*Lexer).Next", "slice", "l.expression[start:l.position]", .mirror "LexGo.NextC"⟩,
  ⟨"internal/lexer/lexer.go", 289, "(*Lexer).Next", "slice", "l.expression[start:l.position]", .mirror "LexGo.NextC"⟩,
  ⟨"internal/lexer/lexer.go", 297, "(*Lexer).Next", "slice", "l.expression[start:l.position]", .mirror "LexGo.NextC"⟩,
  ⟨"internal/lexer/lexer.go", 307, "(*Lexer).Next", "slice", "l.expression[start:l.position]", .mirror "LexGo.NextC"⟩,
  ⟨"internal/lexer/lexer.go", 317, "(*Lexer).Next", "slice", "l.expression[start:l.position]", .mirror "LexGo.NextC"⟩,
  ⟨"internal/lexer/lexer.go", 326, "(*Lexer).Next", "slice", "l.expression[start:l.position]", .mirror "LexGo.NextC"⟩,
  ⟨"internal/lexer/lexer.go", 334, "(*Lexer).Next", "slice", "l.expression[start:l.position]", .mirror "LexGo.NextC"⟩,
  ⟨"internal/lexer/lexer.go", 342, "(*Lexer).Next", "slice", "l.expression[start:l.position]", .mirror "LexGo.NextC"⟩,
  ⟨"internal/lexer/lexer.go", 350, "(*Lexer).Next", "slice", "l.expression[start:l.position]", .mirror "LexGo.NextC"⟩,
  ⟨"internal/lexer/lexer.go", 358, "(*Lexer).Next", "slice", "l.expression[start:l.position]", .mirror "LexGo.NextC"⟩,
  ⟨"internal/lexer/lexer.go", 370, "(*Lexer).Next", "slice", "l.expression[start:l.position]", .mirror "LexGo.NextC"⟩,
  ⟨"internal/lexer/lexer.go", 379, "(*Lexer).Next", "slice", "l.expression[start:l.position]", .mirror "LexGo.NextC"⟩,
  ⟨"internal/lexer/lexer.go", 397, "(*Lexer).decodeRune", "slice", "l.expression[pos:]", .mirror "LexGo.decodeRuneC"⟩,
  ⟨"internal/lexer/lexer.go", 422, "(*Lexer).jsonLiteral", "slice", "l.expression[start:next]", .mirror "LexGo.scanDelimC"⟩,
  ⟨"internal/lexer/lexer.go", 450, "(*Lexer).numberLiteral", "slice", "l.expression[start:next]", .mirror "LexGo.numberLiteralC"⟩,
  ⟨"internal/lexer/lexer.go", 470, "(*Lexer).quotedIdentifier", "slice", "l.expression[start:next]", .mirror "LexGo.scanDelimC"⟩,
  ⟨"internal/lexer/lexer.go", 500, "(*Lexer).stringLiteral", "slice", "l.expression[start:next]", .mirror "LexGo.scanDelimC"⟩,
  ⟨"internal/lexer/lexer.go", 526, "(*Lexer).unquotedIdentifier", "slice", "l.expression[start:next]", .mirror "LexGo.unquotedIdentifierC"⟩,
  ⟨"internal/lexer/lexer.go", 536, "(*Lexer).unquotedIdentifier", "slice", "l.expression[start:next]", .mirror "LexGo.unquotedIdentifierC"⟩,
  ⟨"internal/lexer/lexer.go", 549, "(*Lexer).variable", "slice", "l.expression[start:next]", .mirror "LexGo.variableC"⟩,
  ⟨"internal/lexer/lexer.go", 567, "(*Lexer).variable", "slice", "l.expression[start:next]", .mirror "LexGo.variableC"⟩,
  ⟨"internal/parser/node.go", 113, "(*ContainsNode).Walk", "index", "n.Arguments[0]", .out "Walk is reached only from parser.WriteTo (debug printer), not from Compile/Search; arity as above"⟩,
  ⟨"internal/parser/node.go", 114, "(*ContainsNode).Walk", "index", "n.Arguments[1]", .out "Walk is reached only from parser.WriteTo (debug printer), not from Compile/Search; arity as above"⟩,
  ⟨"internal/parser/node.go", 163, "(*EndsWithNode).Walk", "index", "n.Arguments[0]", .out "Walk is reached only from parser.WriteTo (debug printer), not from Compile/Search; arity as above"⟩,
  ⟨"internal/parser/node.go", 164, "(*EndsWithNode).Walk", "index", "n.Arguments[1]", .out "Walk is reached only from parser.WriteTo (debug printer), not from Compile/Search; arity as above"⟩,
  ⟨"internal/parser/node.go", 254, "(*FindFirstNode).Walk", "index", "n.Arguments[0]", .out "Walk is reached only from parser.WriteTo (debug printer), not from Compile/Search; arity as above"⟩,
  ⟨"internal/parser/node.go", 255, "(*FindFirstNode).Walk", "index", "n.Arguments[1]", .out "Walk is reached only from parser.WriteTo (debug printer), not from Compile/Search; arity as above"⟩,
  ⟨"internal/parser/node.go", 267, "(*FindFirstBetweenNode).Walk", "index", "n.Arguments[0]", .out "Walk is reached only from parser.WriteTo (debug printer), not from Compile/Search; arity as above"⟩,
  ⟨"internal/parser/node.go", 268, "(*FindFirstBetweenNode).Walk", "index", "n.Arguments[1]", .out "Walk is reached only from parser.WriteTo (debug printer), not from Compile/Search; arity as above"⟩,
  ⟨"internal/parser/node.go", 269, "(*FindFirstBetweenNode).Walk", "index", "n.Arguments[2]", .out "Walk is reached only from parser.WriteTo (debug printer), not from Compile/Search; arity as above"⟩,
  ⟨"internal/parser/node.go", 270, "(*FindFirstBetweenNode).Walk", "index", "n.Arguments[3]", .out "Walk is reached only from parser.WriteTo (debug printer), not from Compile/Search; arity as above"⟩,
  ⟨"internal/parser/node.go", 282, "(*FindFirstFromNode).Walk", "index", "n.Arguments[0]", .out "Walk is reached only from parser.WriteTo (debug printer), not from Compile/Search; arity as above"⟩,
  ⟨"internal/parser/node.go", 283, "(*FindFirstFromNode).Walk", "index", "n.Arguments[1]", .out "Walk is reached only from parser.WriteTo (debug printer), not from Compile/Search; arity as above"⟩,
  ⟨"internal/parser/node.go", 284, "(*FindFirstFromNode).Walk", "index", "n.Arguments[2]", .out "Walk is reached only from parser.WriteTo (debug printer), not from Compile/Search; arity as above"⟩,
  ⟨"internal/parser/node.go", 296, "(*FindLastNode).Walk", "index", "n.Arguments[0]", .out "Walk is reached only from parser.WriteTo (debug printer), not from Compile/Search; arity as above"⟩,
  ⟨"internal/parser/node.go", 297, "(*FindLastNode).Walk", "index", "n.Arguments[1]", .out "Walk is reached only from parser.WriteTo (debug printer), not from Compile/Search; arity as above"⟩,
  ⟨"internal/parser/node.go", 309, "(*FindLastBetweenNode).Walk", "index", "n.Arguments[0]", .out "Walk is reached only from parser.WriteTo (debug printer), not from Compile/Search; arity as above"⟩,
  ⟨"internal/parser/node.go", 310, "(*FindLastBetweenNode).Walk", "index", "n.Arguments[1]", .out "Walk is reached only from parser.WriteTo (debug printer), not from Compile/Search; arity as above"⟩,
  ⟨"internal/parser/node.go", 311, "(*FindLastBetweenNode).Walk", "index", "n.Arguments[2]", .out "Walk is reached only from parser.WriteTo (debug printer), not from Compile/Search; arity as above"⟩,
  ⟨"internal/parser/node.go", 312, "(*FindLastBetweenNode).Walk", "index", "n.Arguments[3]", .out "Walk is reached only from parser.WriteTo (debug printer), not from Compile/Search; arity as above"⟩,
  ⟨"internal/parser/node.go", 324, "(*FindLastFromNode).Walk", "index", "n.Arguments[0]", .out "Walk is reached only from parser.WriteTo (debug printer), not from Compile/Search; arity as above"⟩,
  ⟨"internal/parser/node.go", 325, "(*FindLastFromNode).Walk", "index", "n.Arguments[1]", .out "Walk is reached only from parser.WriteTo (debug printer), not from Compile/Search; arity as above"⟩,
  ⟨"internal/parser/node.go", 326, "(*FindLastFromNode).Walk", "index", "n.Arguments[2]", .out "Walk is reached only from parser.WriteTo (debug printer), not from Compile/Search; arity as above"⟩,
  ⟨"internal/parser/node.go", 434, "(*GroupByNode).Walk", "index", "n.Arguments[0]", .out "Walk is reached only from parser.WriteTo (debug printer), not from Compile/Search; arity as above"⟩,
  ⟨"internal/parser/node.go", 435, "(*GroupByNode).Walk", "index", "n.Arguments[1]", .out "Walk is reached only from parser.WriteTo (debug printer), not from Compile/Search; arity as above"⟩,
  ⟨"internal/parser/node.go", 494, "(*JoinNode).Walk", "index", "n.Arguments[0]", .out "Walk is reached only from parser.WriteTo (debug printer), not from Compile/Search; arity as above"⟩,
  ⟨"internal/parser/node.go", 495, "(*JoinNode).Walk", "index", "n.Arguments[1]", .out "Walk is reached only from parser.WriteTo (debug printer), not from Compile/Search; arity as above"⟩,
  ⟨"internal/parser/node.go", 571, "(*MapNode).Walk", "index", "n.Arguments[0]", .out "Walk is reached only from parser.WriteTo (debug printer), not from Compile/Search; arity as above"⟩,
  ⟨"internal/parser/node.go", 572, "(*MapNode).Walk", "index", "n.Arguments[1]", .out "Walk is reached only from parser.WriteTo (debug printer), not from Compile/Search; arity as above"⟩,
  ⟨"internal/parser/node.go", 596, "(*MaxByNode).Walk", "index", "n.Arguments[0]", .out "Walk is reached only from parser.WriteTo (debug printer), not from Compile/Search; arity as above"⟩,
  ⟨"internal/parser/node.go", 597, "(*MaxByNode).Walk", "index", "n.Arguments[1]", .out "Walk is reached only from parser.WriteTo (debug printer), not from Compile/Search; arity as above"⟩,
  ⟨"internal/parser/node.go", 635, "(*MinByNode).Walk", "index", "n.Arguments[0]", .out "Walk is reached only from parser.WriteTo (debug printer), not from Compile/Search; arity as above"⟩,
  ⟨"internal/parser/node.go", 636, "(*MinByNode).Walk", "index", "n.Arguments[1]", .out "Walk is reached only from parser.WriteTo (debug printer), not from Compile/Search; arity as above"⟩,
  ⟨"internal/parser/node.go", 782, "(*PadLeftNode).Walk", "index", "n.Arguments[0]", .out "Walk is reached only from parser.WriteTo (debug printer), not from Compile/Search; arity as above"⟩,
  ⟨"internal/parser/node.go", 783, "(*PadLeftNode).Walk", "index", "n.Arguments[1]", .out "Walk is reached only from parser.WriteTo (debug printer), not from Compile/Search; arity as above"⟩,
  ⟨"internal/parser/node.go", 784, "(*PadLeftNode).Walk", "index", "n.Arguments[2]", .out "Walk is reached only from parser.WriteTo (debug printer), not from Compile/Search; arity as above"⟩,
  ⟨"internal/parser/node.go", 796, "(*PadRightNode).Walk", "index", "n.Arguments[0]", .out "Walk is reached only from parser.WriteTo (debug printer), not from Compile/Search; arity as above"⟩,
  ⟨"internal/parser/node.go", 797, "(*PadRightNode).Walk", "index", "n.Arguments[1]", .out "Walk is reached only from parser.WriteTo (debug printer), not from Compile/Search; arity as above"⟩,
  ⟨"internal/parser/node.go", 798, "(*PadRightNode).Walk", "index", "n.Arguments[2]", .out "Walk is reached only from parser.WriteTo (debug printer), not from Compile/Search; arity as above"⟩,
  ⟨"internal/parser/node.go", 810, "(*PadSpaceLeftNode).Walk", "index", "n.Arguments[0]", .out "Walk is reached only from parser.WriteTo (debug printer), not from Compile/Search; arity as above"⟩,
  ⟨"internal/parser/node.go", 811, "(*PadSpaceLeftNode).Walk", "index", "n.Arguments[1]", .out "Walk is reached only from parser.WriteTo (debug printer), not from Compile/Search; arity as above"⟩,
  ⟨"internal/parser/node.go", 823, "(*PadSpaceRightNode).Walk", "index", "n.Arguments[0]", .out "Walk is reached only from parser.WriteTo (debug printer), not from Compile/Search; arity as above"⟩,
  ⟨"internal/parser/node.go", 824, "(*PadSpaceRightNode).Walk", "index", "n.Arguments[1]", .out "Walk is reached only from parser.WriteTo (debug printer), not from Compile/Search; arity as above"⟩,
  ⟨"internal/parser/node.go", 920, "(*ReplaceNode).Walk", "index", "n.Arguments[0]", .out "Walk is reached only from parser.WriteTo (debug printer), not from Compile/Search; arity as above"⟩,
  ⟨"internal/parser/node.go", 921, "(*ReplaceNode).Walk", "index", "n.Arguments[1]", .out "Walk is reached only from parser.WriteTo (debug printer), not from Compile/Search; arity as above"⟩,
  ⟨"internal/parser/node.go", 922, "(*ReplaceNode).Walk", "index", "n.Arguments[2]", .out "Walk is reached only from parser.WriteTo (debug printer), not from Compile/Search; arity as above"⟩,
  ⟨"internal/parser/node.go", 934, "(*ReplaceCountNode).Walk", "index", "n.Arguments[0]", .out "Walk is reached only from parser.WriteTo (debug printer), not from Compile/Search; arity as above"⟩,
  ⟨"internal/parser/node.go", 935, "(*ReplaceCountNode).Walk", "index", "n.Arguments[1]", .out "Walk is reached only from parser.WriteTo (debug printer), not from Compile/Search; arity as above"⟩,
  ⟨"internal/parser/node.go", 936, "(*ReplaceCountNode).Walk", "index", "n.Arguments[2]", .out "Walk is reached only from parser.WriteTo (debug printer), not from Compile/Search; arity as above"⟩,
  ⟨"internal/parser/node.go", 937, "(*ReplaceCountNode).Walk", "index", "n.Arguments[3]", .out "Walk is reached only from parser.WriteTo (debug printer), not from Compile/Search; arity as above"⟩,
  ⟨"internal/parser/node.go", 1151, "(*SortByNode).Walk", "index", "n.Arguments[0]", .out "Walk is reached only from parser.WriteTo (debug printer), not from Compile/Search; arity as above"⟩,
  ⟨"internal/parser/node.go", 1152, "(*SortByNode).Walk", "index", "n.Arguments[1]", .out "Walk is reached only from parser.WriteTo (debug printer), not from Compile/Search; arity as above"⟩,
  ⟨"internal/parser/node.go", 1164, "(*SplitNode).Walk", "index", "n.Arguments[0]", .out "Walk is reached only from parser.WriteTo (debug printer), not from Compile/Search; arity as above"⟩,
  ⟨"internal/parser/node.go", 1165, "(*SplitNode).Walk", "index", "n.Arguments[1]", .out "Walk is reached only from parser.WriteTo (debug printer), not from Compile/Search; arity as above"⟩,
  ⟨"internal/parser/node.go", 1177, "(*SplitCountNode).Walk", "index", "n.Arguments[0]", .out "Walk is reached only from parser.WriteTo (debug printer), not from Compile/Search; arity as above"⟩,
  ⟨"internal/parser/node.go", 1178, "(*SplitCountNode).Walk", "index", "n.Arguments[1]", .out "Walk is reached only from parser.WriteTo (debug printer), not from Compile/Search; arity as above"⟩,
  ⟨"internal/parser/node.go", 1179, "(*SplitCountNode).Walk", "index", "n.Arguments[2]", .out "Walk is reached only from parser.WriteTo (debug printer), not from Compile/Search; arity as above"⟩,
  ⟨"internal/parser/node.go", 1191, "(*StartsWithNode).Walk", "index", "n.Arguments[0]", .out "Walk is reached only from parser.WriteTo (debug printer), not from Compile/Search; arity as above"⟩,
  ⟨"internal/parser/node.go", 1192, "(*StartsWithNode).Walk", "index", "n.Arguments[1]", .out "Walk is reached only from parser.WriteTo (debug printer), not from Compile/Search; arity as above"⟩,
  ⟨"internal/parser/node.go", 1274, "(*TrimNode).Walk", "index", "n.Arguments[0]", .out "Walk is reached only from parser.WriteTo (debug printer), not from Compile/Search; arity as above"⟩,
  ⟨"internal/parser/node.go", 1275, "(*TrimNode).Walk", "index", "n.Arguments[1]", .out "Walk is reached only from parser.WriteTo (debug printer), not from Compile/Search; arity as above"⟩,
  ⟨"internal/parser/node.go", 1287, "(*TrimLeftNode).Walk", "index", "n.Arguments[0]", .out "Walk is reached only from parser.WriteTo (debug printer), not from Compile/Search; arity as above"⟩,
  ⟨"internal/parser/node.go", 1288, "(*TrimLeftNode).Walk", "index", "n.Arguments[1]", .out "Walk is reached only from parser.WriteTo (debug printer), not from Compile/Search; arity as above"⟩,
  ⟨"internal/parser/node.go", 1300, "(*TrimRightNode).Walk", "index", "n.Arguments[0]", .out "Walk is reached only from parser.WriteTo (debug printer), not from Compile/Search; arity as above"⟩,
  ⟨"internal/parser/node.go", 1301, "(*TrimRightNode).Walk", "index", "n.Arguments[1]", .out "Walk is reached only from parser.WriteTo (debug printer), not from Compile/Search; arity as above"⟩,
  ⟨"internal/parser/parser.go", 2112, "parseJSONLiteral", "slice", "s[1 : len(s)-1]", .mirror "LitGo.parseJSONLiteralG"⟩,
  ⟨"internal/parser/parser.go", 2117, "parseJSONLiteral", "index", "v[0]", .mirror "LitGo.parseJSONLiteralG"⟩,
  ⟨"internal/parser/parser.go", 2188, "parseQuotedIdentifier", "slice", "s[1 : len(s)-1]", .mirror "LitGo.parseQuotedIdentifierG"⟩,
  ⟨"internal/parser/parser.go", 2190, "parseQuotedIdentifier", "index", "v[j]", .mirror "LitGo.parseQuotedIdentifierG"⟩,
  ⟨"internal/parser/parser.go", 2201, "parseQuotedIdentifier", "grow", "b.Grow(len(v))", .mirror "LitGo.parseQuotedIdentifierC"⟩,
  ⟨"internal/parser/parser.go", 2202, "parseQuotedIdentifier", "slice", "v[:i]", .mirror "LitGo.parseQuotedIdentifierG"⟩,
  ⟨"internal/parser/parser.go", 2204, "parseQuotedIdentifier", "slice", "v[i+1:]", .mirror "LitGo.parseQuotedIdentifierG"⟩,
  ⟨"internal/parser/parser.go", 2206, "parseQuotedIdentifier", "index", "v[0]", .mirror "LitGo.parseQuotedIdentifierG"⟩,
  ⟨"internal/parser/parser.go", 2209, "parseQuotedIdentifier", "slice", "v[1:]", .mirror "LitGo.parseQuotedIdentifierG"⟩,
  ⟨"internal/parser/parser.go", 2212, "parseQuotedIdentifier", "slice", "v[1:]", .mirror "LitGo.parseQuotedIdentifierG"⟩,
  ⟨"internal/parser/parser.go", 2215, "parseQuotedIdentifier", "slice", "v[1:]", .mirror "LitGo.parseQuotedIdentifierG"⟩,
  ⟨"internal/parser/parser.go", 2218, "parseQuotedIdentifier", "slice", "v[1:]", .mirror "LitGo.parseQuotedIdentifierG"⟩,
  ⟨"internal/parser/parser.go", 2221, "parseQuotedIdentifier", "slice", "v[1:]", .mirror "LitGo.parseQuotedIdentifierG"⟩,
  ⟨"internal/parser/parser.go", 2224, "parseQuotedIdentifier", "slice", "v[1:]", .mirror "LitGo.parseQuotedIdentifierG"⟩,
  ⟨"internal/parser/parser.go", 2227, "parseQuotedIdentifier", "slice", "v[1:]", .mirror "LitGo.parseQuotedIdentifierG"⟩,
  ⟨"internal/parser/parser.go", 2230, "parseQuotedIdentifier", "slice", "v[1:]", .mirror "LitGo.parseQuotedIdentifierG"⟩,
  ⟨"internal/parser/parser.go", 2237, "parseQuotedIdentifier", "slice", "v[1:5]", .mirror "LitGo.parseQuotedIdentifierG"⟩,
  ⟨"internal/parser/parser.go", 2249, "parseQuotedIdentifier", "slice", "v[5:]", .mirror "LitGo.parseQuotedIdentifierG"⟩,
  ⟨"internal/parser/parser.go", 2256, "parseQuotedIdentifier", "index", "v[0]", .mirror "LitGo.parseQuotedIdentifierG"⟩,
  ⟨"internal/parser/parser.go", 2256, "parseQuotedIdentifier", "index", "v[1]", .mirror "LitGo.parseQuotedIdentifierG"⟩,
  ⟨"internal/parser/parser.go", 2261, "parseQuotedIdentifier", "slice", "v[2:6]", .mirror "LitGo.parseQuotedIdentifierG"⟩,
  ⟨"internal/parser/parser.go", 2278, "parseQuotedIdentifier", "slice", "v[6:]", .mirror "LitGo.parseQuotedIdentifierG"⟩,
  ⟨"internal/parser/parser.go", 2293, "parseQuotedIdentifier", "slice", "v[:i]", .mirror "LitGo.parseQuotedIdentifierG"⟩,
  ⟨"internal/parser/parser.go", 2294, "parseQuotedIdentifier", "slice", "v[i+1:]", .mirror "LitGo.parseQuotedIdentifierG"⟩,
  ⟨"internal/parser/parser.go", 2299, "parseStringLiteral", "slice", "s[1 : len(s)-1]", .mirror "LitGo.parseStringLiteralG"⟩,
  ⟨"internal/parser/parser.go", 2308, "parseStringLiteral", "grow", "b.Grow(len(v))", .mirror "LitGo.parseStringLiteralC"⟩,
  ⟨"internal/parser/parser.go", 2309, "parseStringLiteral", "slice", "v[:i]", .mirror "LitGo.parseStringLiteralG"⟩,
  ⟨"internal/parser/parser.go", 2311, "parseStringLiteral", "slice", "v[i+1:]", .mirror "LitGo.parseStringLiteralG"⟩,
  ⟨"internal/parser/parser.go", 2313, "parseStringLiteral", "index", "v[0]", .mirror "LitGo.parseStringLiteralG"⟩,
  ⟨"internal/parser/parser.go", 2320, "parseStringLiteral", "index", "v[0]", .mirror "LitGo.parseStringLiteralG"⟩,
  ⟨"internal/parser/parser.go", 2323, "parseStringLiteral", "slice", "v[1:]", .mirror "LitGo.parseStringLiteralG"⟩,
  ⟨"internal/parser/parser.go", 2333, "parseStringLiteral", "slice", "v[:i]", .mirror "LitGo.parseStringLiteralG"⟩,
  ⟨"internal/parser/parser.go", 2334, "parseStringLiteral", "slice", "v[i+1:]", .mirror "LitGo.parseStringLiteralG"⟩
]

def Cover.isMirror : Cover → Bool | .mirror _ => true | _ => false
def Cover.isArity : Cover → Bool | .arity _ => true | _ => false
def Cover.isLib : Cover → Bool | .lib _ => true | _ => false
def Cover.isNa : Cover → Bool | .na _ => true | _ => false
def Cover.isOut : Cover → Bool | .out _ => true | _ => false
def mirrored : List Site := sites.filter (·.cover.isMirror)

/-- the inventory: 379 sites, of which 220 go through a checked mirror, 64 are `node.Arguments[k]` in the evaluator
    (arity), 20 are `sort.Stable` callbacks, 11 cannot panic by inspection (5 map size hints `len(x)`, 6 capacities
    `make([]any, 0, len(x))`), 64 are outside the entry points (`Walk`) -/
theorem count_sites : sites.length = 379 := by decide +kernel
theorem count_mirrored : mirrored.length = 220 := by decide +kernel
theorem count_arity : (sites.filter (·.cover.isArity)).length = 64 := by decide +kernel
theorem count_lib : (sites.filter (·.cover.isLib)).length = 20 := by decide +kernel
theorem count_na : (sites.filter (·.cover.isNa)).length = 11 := by decide +kernel
theorem count_out : (sites.filter (·.cover.isOut)).length = 64 := by decide +kernel

/-- the sites of one Go function -/
def ofFunc (file func : String) : List Site := sites.filter (fun s => s.file = file ∧ s.func = func)
example : (ofFunc "internal/evaluator/string.go" "findFirstBetween").map (·.text) = ["s[n:]", "s[n:]", "s[i:j]", "s[:r+i]"] := by decide +kernel
/-- the sites of one kind -/
def ofKind (kind : String) : List Site := sites.filter (fun s => s.kind = kind)
/-- the four `Grow` calls, each through a mirror with `grow?` -/
example : (ofKind "grow").map (fun s => (s.file, s.line, s.cover)) =
    [("internal/evaluator/functions.go", 94, .mirror "ArrGo.reverseC"),
     ("internal/evaluator/slice.go", 237, .mirror "SliceGo.sliceStepC"),
     ("internal/parser/parser.go", 2201, .mirror "LitGo.parseQuotedIdentifierC"),
     ("internal/parser/parser.go", 2308, .mirror "LitGo.parseStringLiteralC")] := by decide +kernel
/-- the seven `make([]any, 0, len(x))`: five in array.go (the one of `flatten` mirrored), two in object.go -/
example : (ofKind "makecap").map (fun s => (s.file, s.line, s.func, s.cover.isMirror)) =
    [("internal/evaluator/array.go", 169, "(*evaluator).filter", false),
     ("internal/evaluator/array.go", 190, "(*evaluator).filterAndProjectArray", false),
     ("internal/evaluator/array.go", 220, "(*evaluator).flattenAndProjectArray", false),
     ("internal/evaluator/array.go", 283, "(*evaluator).projectArray", false),
     ("internal/evaluator/array.go", 539, "flatten", true),
     ("internal/evaluator/object.go", 53, "(*evaluator).projectObject", false),
     ("internal/evaluator/object.go", 161, "objectValues", false)] := by decide +kernel
example : (ofKind "makecap").all (fun s => s.text = "make([]any, 0, len(a))" ∨ s.text = "make([]any, 0, len(m))") = true := by
  decide +kernel

end Jmes.C03D.Sites

/- The generator (run in a scratch module with `replace github.com/woodsbury/jmespath => /repo`, `cp /repo/go.sum .`,
   golang.org/x/tools v0.29.0, `GOFLAGS=-mod=mod GOPROXY=off go run .`; prints one TAB-separated line per site:
   file:line, function, kind, text; the sort is stable, so sites of one line are in `ast.Inspect` order):

package main

import (
	"bytes"
	"fmt"
	"go/ast"
	"go/printer"
	"go/token"
	"go/types"
	"path/filepath"
	"sort"
	"strings"

	"golang.org/x/tools/go/packages"
)

type site struct {
	file string
	line int
	fn   string
	kind string
	text string
}

func main() {
	cfg := &packages.Config{Mode: packages.NeedName | packages.NeedFiles | packages.NeedSyntax | packages.NeedTypes | packages.NeedTypesInfo | packages.NeedImports | packages.NeedDeps, Dir: "/repo"}
	pkgs, err := packages.Load(cfg, "./...")
	if err != nil {
		panic(err)
	}
	var out []site
	for _, p := range pkgs {
		for _, f := range p.Syntax {
			fname := p.Fset.Position(f.Pos()).Filename
			if strings.HasSuffix(fname, "_test.go") {
				continue
			}
			rel, _ := filepath.Rel("/repo", fname)
			for _, d := range f.Decls {
				fd, ok := d.(*ast.FuncDecl)
				if !ok || fd.Body == nil {
					continue
				}
				name := fd.Name.Name
				if fd.Recv != nil && len(fd.Recv.List) > 0 {
					name = "(" + txt(p.Fset, fd.Recv.List[0].Type) + ")." + name
				}
				okAssert := map[ast.Expr]bool{}
				ast.Inspect(fd.Body, func(n ast.Node) bool {
					switch x := n.(type) {
					case *ast.AssignStmt:
						if len(x.Lhs) == 2 && len(x.Rhs) == 1 {
							okAssert[x.Rhs[0]] = true
						}
					case *ast.ValueSpec:
						if len(x.Names) == 2 && len(x.Values) == 1 {
							okAssert[x.Values[0]] = true
						}
					case *ast.TypeSwitchStmt:
						ast.Inspect(x.Assign, func(m ast.Node) bool {
							if ta, ok := m.(*ast.TypeAssertExpr); ok {
								okAssert[ta] = true
							}
							return true
						})
					}
					return true
				})
				ast.Inspect(fd.Body, func(n ast.Node) bool {
					pos := func(nn ast.Node) int { return p.Fset.Position(nn.Pos()).Line }
					switch x := n.(type) {
					case *ast.IndexExpr:
						t := p.TypesInfo.TypeOf(x.X)
						if t == nil {
							return true
						}
						switch t.Underlying().(type) {
						case *types.Map:
							return true
						case *types.Signature:
							return true
						}
						if _, isTV := p.TypesInfo.Types[x]; isTV && p.TypesInfo.Types[x].IsType() {
							return true
						}
						out = append(out, site{rel, pos(x), name, "index", txt(p.Fset, x)})
					case *ast.SliceExpr:
						out = append(out, site{rel, pos(x), name, "slice", txt(p.Fset, x)})
					case *ast.TypeAssertExpr:
						if x.Type != nil && !okAssert[x] {
							out = append(out, site{rel, pos(x), name, "assert", txt(p.Fset, x)})
						}
					case *ast.CallExpr:
						if id, ok := x.Fun.(*ast.Ident); ok && id.Name == "make" && len(x.Args) >= 2 {
							if tv, ok := p.TypesInfo.Types[x.Args[1]]; ok && tv.Value != nil {
								// constant length: only a non-constant capacity of a slice can still panic
								if len(x.Args) == 3 {
									if tc, ok := p.TypesInfo.Types[x.Args[2]]; !ok || tc.Value == nil {
										if _, isSlice := p.TypesInfo.TypeOf(x.Args[0]).Underlying().(*types.Slice); isSlice {
											out = append(out, site{rel, pos(x), name, "makecap", txt(p.Fset, x)})
										}
									}
								}
								return true
							}
							if _, isMap := p.TypesInfo.TypeOf(x.Args[0]).Underlying().(*types.Map); isMap {
								out = append(out, site{rel, pos(x), name, "makemap", txt(p.Fset, x)})
								return true
							}
							out = append(out, site{rel, pos(x), name, "make", txt(p.Fset, x)})
						}
						if sel, ok := x.Fun.(*ast.SelectorExpr); ok && sel.Sel.Name == "Grow" {
							out = append(out, site{rel, pos(x), name, "grow", txt(p.Fset, x)})
						}
					case *ast.BinaryExpr:
						if x.Op == token.QUO || x.Op == token.REM {
							t := p.TypesInfo.TypeOf(x)
							if b, ok := t.Underlying().(*types.Basic); ok && b.Info()&types.IsInteger != 0 {
								if tv, ok := p.TypesInfo.Types[x.Y]; ok && tv.Value != nil {
									return true
								}
								out = append(out, site{rel, pos(x), name, "intdiv", txt(p.Fset, x)})
							}
						}
					}
					return true
				})
			}
		}
	}
	sort.SliceStable(out, func(i, j int) bool {
		if out[i].file != out[j].file {
			return out[i].file < out[j].file
		}
		return out[i].line < out[j].line
	})
	for _, s := range out {
		fmt.Printf("%s:%d\t%s\t%s\t%s\n", s.file, s.line, s.fn, s.kind, s.text)
	}
}

func txt(fset *token.FileSet, n ast.Node) string {
	var b bytes.Buffer
	printer.Fprint(&b, fset, n)
	return strings.Join(strings.Fields(b.String()), " ")
}

-/
