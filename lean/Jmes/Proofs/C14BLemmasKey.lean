/-
  Helper lemmas for property C14 (second round): sort keys (`sort_by`, `max_by`, `min_by`), `group_by`, `zip`, the
  unordered combination of multi-select members.
-/
import Jmes.Proofs.C14BLemmasArr
namespace Jmes
namespace C14B
open C14

/-! ## generic lemmas on `L2` -/

theorem l2_all {α β : Type} {R : α → β → Prop} {p : α → Bool} {q : β → Bool} (h : ∀ a b, R a b → p a = q b) :
    ∀ {xs : List α} {ys : List β}, L2 R xs ys → xs.all p = ys.all q
  | [], [], _ => rfl
  | [], _ :: _, h' => by simp [L2] at h'
  | _ :: _, [], h' => by simp [L2] at h'
  | x :: xs, y :: ys, h' => by
    simp only [L2] at h'
    simp only [List.all_cons, h x y h'.1, l2_all h h'.2]

theorem l2_filter_length {α β : Type} {R : α → β → Prop} {p : α → Bool} {q : β → Bool} (h : ∀ a b, R a b → p a = q b) :
    ∀ {xs : List α} {ys : List β}, L2 R xs ys → (xs.filter p).length = (ys.filter q).length
  | [], [], _ => rfl
  | [], _ :: _, h' => by simp [L2] at h'
  | _ :: _, [], h' => by simp [L2] at h'
  | x :: xs, y :: ys, h' => by
    simp only [L2] at h'
    simp only [List.filter_cons, h x y h'.1]
    split <;> simp [l2_filter_length h h'.2]

theorem l2_cons {α β : Type} {R : α → β → Prop} {x : α} {y : β} {xs : List α} {ys : List β} (h : R x y) (hs : L2 R xs ys) :
    L2 R (x :: xs) (y :: ys) := by
  simp only [L2]; exact ⟨h, hs⟩

theorem l2_nil {α β : Type} {R : α → β → Prop} : L2 R ([] : List α) ([] : List β) := by simp [L2]

section
variable {nf : Bool}

/-! ## keys -/

/-- sort keys of equal value -/
def KR : Key → Key → Prop
  | .s a, .s b => a = b
  | .n a, .n b => Dec.cmp a b = some 0
  | _, _ => False

theorem keysFrom_rr {f f' : Val → Res Val} (hf : FR nf f f') (isStr : Bool) : ∀ {xs xs' : List Val}, VRL nf xs xs' →
    RR (L2 KR) (keysFrom f isStr xs) (keysFrom f' isStr xs')
  | [], [], _ => by simp [keysFrom, RR, L2]
  | [], _ :: _, h => by simp [VRL] at h
  | _ :: _, [], h => by simp [VRL] at h
  | x :: xs, x' :: xs', h => by
    simp only [VRL] at h
    simp only [keysFrom]
    refine RR.bind (hf x x' h.1) (fun rv rv' hrv => RR.bind (R := KR) ?_
      (fun k k' hk => RR.bind (keysFrom_rr hf isStr h.2) (fun r r' hr => RR.ok' (l2_cons hk hr))))
    cases isStr
    · simp only [Bool.false_eq_true, if_false]
      rcases toDecimal_equiv (vr_equiv _ _ hrv) with ⟨e1, e2⟩ | ⟨d, d', e1, e2, e3⟩
      · simp only [e1, e2]; exact rr_errType
      · simp only [e1, e2]; exact RR.ok' (by simp only [KR]; exact e3)
    · simp only [if_true]
      cases rv <;> cases rv' <;> simp only [VR] at hrv <;> try exact rr_errType
      subst hrv
      exact RR.ok' (by simp [KR])

theorem keysOf_rr {f f' : Val → Res Val} (hf : FR nf f f') : ∀ {xs xs' : List Val}, VRL nf xs xs' →
    RR (L2 KR) (keysOf f xs) (keysOf f' xs')
  | [], [], _ => by simp [keysOf, RR, L2]
  | [], _ :: _, h => by simp [VRL] at h
  | _ :: _, [], h => by simp [VRL] at h
  | x :: xs, x' :: xs', h => by
    simp only [VRL] at h
    simp only [keysOf]
    refine RR.bind (hf x x' h.1) (fun first first' hfi => ?_)
    have hnum : ∀ (a a' : Val), VR nf a a' → (∀ s, a ≠ .str s) → (∀ s, a' ≠ .str s) →
        RR (L2 KR)
          (match toDecimal a with
            | none => errType
            | some d => do let rest ← keysFrom f false xs; pure (Key.n d :: rest))
          (match toDecimal a' with
            | none => errType
            | some d => do let rest ← keysFrom f' false xs'; pure (Key.n d :: rest)) := by
      intro a a' haa _ _
      rcases toDecimal_equiv (vr_equiv _ _ haa) with ⟨e1, e2⟩ | ⟨d, d', e1, e2, e3⟩
      · simp only [e1, e2]; exact rr_errType
      · simp only [e1, e2]
        exact RR.bind (keysFrom_rr hf false h.2) (fun r r' hr => RR.ok' (l2_cons (by simp only [KR]; exact e3) hr))
    cases first <;> cases first' <;> simp only [VR] at hfi
    · exact hnum .null .null vr_null (by simp) (by simp)
    · next b b' => exact hnum (.bool b) (.bool b') (by simp only [VR]; exact hfi) (by simp) (by simp)
    · subst hfi
      exact RR.bind (keysFrom_rr hf true h.2) (fun r r' hr => RR.ok' (l2_cons (by simp [KR]) hr))
    · next a a' => exact hnum (.num a) (.num a') (by simp only [VR]; exact hfi) (by simp) (by simp)
    · next t a u a' => exact hnum (.arr t a) (.arr u a') (by simp only [VR]; exact hfi) (by simp) (by simp)
    · next a a' => exact hnum (.obj a) (.obj a') (by simp only [VR]; exact hfi) (by simp) (by simp)
    · next a a' => exact hnum (.foreign a) (.foreign a') (by simp only [VR]; exact hfi) (by simp) (by simp)

theorem key_lt_kr {a a' b b' : Key} (ha : KR a a') (hb : KR b b') : Key.lt a b = Key.lt a' b' := by
  cases a <;> cases a' <;> simp only [KR] at ha <;> cases b <;> cases b' <;> simp only [KR] at hb <;>
    simp only [Key.lt]
  · rw [ha, hb]
  · rw [Dec.compare_congr ha hb]

theorem key_gtMax_kr {a a' b b' : Key} (ha : KR a a') (hb : KR b b') : Key.gtMax a b = Key.gtMax a' b' := by
  cases a <;> cases a' <;> simp only [KR] at ha <;> cases b <;> cases b' <;> simp only [KR] at hb <;>
    simp only [Key.gtMax]
  · rw [ha, hb]
  · rw [Dec.greater_congr ha hb]

theorem key_ltMin_kr {a a' b b' : Key} (ha : KR a a') (hb : KR b b') : Key.ltMin a b = Key.ltMin a' b' := by
  cases a <;> cases a' <;> simp only [KR] at ha <;> cases b <;> cases b' <;> simp only [KR] at hb <;>
    simp only [Key.ltMin]
  · rw [ha, hb]
  · rw [Dec.less_congr ha hb]

/-- a key comparator that depends on the values of the keys only -/
def BetterOK (better : Key → Key → Bool) : Prop := ∀ a a' b b', KR a a' → KR b b' → better a b = better a' b'

theorem pickBy_vr {better : Key → Key → Bool} (hb : BetterOK better) :
    ∀ {rest rest' : List Val} {ks ks' : List Key} {best best' : Val} {bk bk' : Key},
      VRL nf rest rest' → L2 KR ks ks' → VR nf best best' → KR bk bk' →
      VR nf (pickBy better best bk (rest.zip ks)) (pickBy better best' bk' (rest'.zip ks'))
  | [], [], _, _, _, _, _, _, _, _, hbest, _ => by simpa [pickBy] using hbest
  | [], _ :: _, _, _, _, _, _, _, h, _, _, _ => by simp [VRL] at h
  | _ :: _, [], _, _, _, _, _, _, h, _, _, _ => by simp [VRL] at h
  | _ :: _, _ :: _, [], [], _, _, _, _, _, _, hbest, _ => by simpa [pickBy] using hbest
  | _ :: _, _ :: _, [], _ :: _, _, _, _, _, _, h, _, _ => by simp [L2] at h
  | _ :: _, _ :: _, _ :: _, [], _, _, _, _, _, h, _, _ => by simp [L2] at h
  | v :: rest, v' :: rest', k :: ks, k' :: ks', best, best', bk, bk', h, hk, hbest, hbk => by
    simp only [VRL] at h
    simp only [L2] at hk
    simp only [List.zip_cons_cons, pickBy, hb k k' bk bk' hk.1 hbk]
    split
    · exact pickBy_vr hb h.2 hk.2 h.1 hk.1
    · exact pickBy_vr hb h.2 hk.2 hbest hbk

theorem uniqueExtremum_kr {better : Key → Key → Bool} (hb : BetterOK better) {ks ks' : List Key} (h : L2 KR ks ks') :
    uniqueExtremum better ks = uniqueExtremum better ks' := by
  unfold uniqueExtremum
  rw [l2_filter_length (R := KR) (fun a b hab => l2_all (R := KR) (fun c d hcd => by rw [hb c d a b hcd hab]) h) h]

theorem keysDistinct_kr : ∀ {ks ks' : List Key}, L2 KR ks ks' → keysDistinct ks = keysDistinct ks'
  | [], [], _ => rfl
  | [], _ :: _, h => by simp [L2] at h
  | _ :: _, [], h => by simp [L2] at h
  | k :: ks, k' :: ks', h => by
    simp only [L2] at h
    simp only [keysDistinct, keysDistinct_kr h.2]
    rw [l2_all (R := KR) (fun a b hab => by rw [key_lt_kr h.1 hab, key_lt_kr hab h.1]) h.2]

theorem arrayPickBy_rr {better : Key → Key → Bool} (hb : BetterOK better) {f f' : Val → Res Val} (hf : FR nf f f')
    {v v' : Val} (h : VR nf v v') : RR (VR nf) (arrayPickBy better f v) (arrayPickBy better f' v') := by
  cases v <;> cases v' <;> simp only [VR] at h <;> try (simp only [arrayPickBy]; exact rr_errType)
  next t xs u ys =>
  obtain ⟨rfl, h⟩ := h
  cases xs with
  | nil => cases ys with
    | nil => simp only [arrayPickBy]; exact RR.ok' vr_null
    | cons _ _ => simp [VRL] at h
  | cons x0 rest => cases ys with
    | nil => simp [VRL] at h
    | cons y0 rest' =>
      simp only [arrayPickBy]
      refine widen1_rr h hf (RR.bind (keysOf_rr hf h) (fun ks ks' hks => ?_))
      cases ks with
      | nil => cases ks' with
        | nil => exact RR.ok' vr_null
        | cons _ _ => simp [L2] at hks
      | cons k0 krest => cases ks' with
        | nil => simp [L2] at hks
        | cons k0' krest' =>
          simp only [enum2_vrl t h, uniqueExtremum_kr hb hks]
          simp only [VRL] at h
          simp only [L2] at hks
          split
          · trivial
          · exact RR.ok' (pickBy_vr hb h.2 hks.2 h.1 hks.1)

theorem arrayMaxBy_rr {f f' : Val → Res Val} (hf : FR nf f f') {v v' : Val} (h : VR nf v v') :
    RR (VR nf) (arrayMaxBy f v) (arrayMaxBy f' v') :=
  arrayPickBy_rr (fun _ _ _ _ ha hb => key_gtMax_kr ha hb) hf h

theorem arrayMinBy_rr {f f' : Val → Res Val} (hf : FR nf f f') {v v' : Val} (h : VR nf v v') :
    RR (VR nf) (arrayMinBy f v) (arrayMinBy f' v') :=
  arrayPickBy_rr (fun _ _ _ _ ha hb => key_ltMin_kr ha hb) hf h

/-! ### `sort_by` -/

/-- an element with its sort key, in the two representations -/
def PKR (nf : Bool) (p q : Val × Key) : Prop := VR nf p.1 q.1 ∧ KR p.2 q.2

theorem zipKeys : ∀ {xs xs' : List Val} {ks ks' : List Key}, VRL nf xs xs' → L2 KR ks ks' →
    ∃ L : List ((Val × Key) × (Val × Key)), L.map Prod.fst = xs.zip ks ∧ L.map Prod.snd = xs'.zip ks' ∧
      ∀ p ∈ L, PKR nf p.1 p.2
  | [], [], _, _, _, _ => ⟨[], by simp, by simp, by simp⟩
  | [], _ :: _, _, _, h, _ => by simp [VRL] at h
  | _ :: _, [], _, _, h, _ => by simp [VRL] at h
  | _ :: _, _ :: _, [], [], _, _ => ⟨[], by simp, by simp, by simp⟩
  | _ :: _, _ :: _, [], _ :: _, _, h => by simp [L2] at h
  | _ :: _, _ :: _, _ :: _, [], _, h => by simp [L2] at h
  | x :: xs, x' :: xs', k :: ks, k' :: ks', h, g => by
    simp only [VRL] at h
    simp only [L2] at g
    obtain ⟨L, l1, l2, l3⟩ := zipKeys h.2 g.2
    refine ⟨((x, k), (x', k')) :: L, by simp [l1], by simp [l2], ?_⟩
    intro p hp
    rcases List.mem_cons.mp hp with rfl | hp
    · exact ⟨h.1, g.1⟩
    · exact l3 p hp

theorem sortByKeys_vrl {xs xs' : List Val} {ks ks' : List Key} (hx : VRL nf xs xs') (hk : L2 KR ks ks') :
    VRL nf (sortByKeys xs ks) (sortByKeys xs' ks') := by
  obtain ⟨L, l1, l2, l3⟩ := zipKeys hx hk
  unfold sortByKeys
  rw [← l1, ← l2]
  have s1 : (L.mergeSort (fun p q => !Key.lt q.1.2 p.1.2)).map Prod.fst =
      (L.map Prod.fst).mergeSort (fun a b => !Key.lt b.2 a.2) :=
    List.map_mergeSort (r := fun p q => !Key.lt q.1.2 p.1.2) (s := fun a b => !Key.lt b.2 a.2) (f := Prod.fst) (l := L)
      (fun _ _ _ _ => rfl)
  have hc : L.mergeSort (fun p q => !Key.lt q.1.2 p.1.2) = L.mergeSort (fun p q => !Key.lt q.2.2 p.2.2) := by
    apply mergeSort_congr
    intro a ha b hb
    simp only [key_lt_kr (l3 b hb).2 (l3 a ha).2]
  have s2 : (L.mergeSort (fun p q => !Key.lt q.1.2 p.1.2)).map Prod.snd =
      (L.map Prod.snd).mergeSort (fun a b => !Key.lt b.2 a.2) := by
    rw [hc]
    exact List.map_mergeSort (r := fun p q => !Key.lt q.2.2 p.2.2) (s := fun a b => !Key.lt b.2 a.2) (f := Prod.snd)
      (l := L) (fun _ _ _ _ => rfl)
  rw [← s1, ← s2]
  generalize hS : L.mergeSort (fun p q => !Key.lt q.1.2 p.1.2) = S
  have hS' : ∀ p ∈ S, PKR nf p.1 p.2 := by
    intro p hp; rw [← hS] at hp; exact l3 p (List.mem_mergeSort.mp hp)
  clear hS s1 s2 hc
  induction S with
  | nil => simp
  | cons p S ih =>
    simp only [List.map_cons]
    exact vrl_cons (hS' p (List.mem_cons_self ..)).1 (ih (fun q hq => hS' q (List.mem_cons_of_mem _ hq)))

theorem sortArrayBy_rr {f f' : Val → Res Val} (hf : FR nf f f') {v v' : Val} (h : VR nf v v') :
    RR (VR nf) (sortArrayBy f v) (sortArrayBy f' v') := by
  cases v <;> cases v' <;> simp only [VR] at h <;> try (simp only [sortArrayBy]; exact rr_errType)
  next t xs u ys =>
  obtain ⟨rfl, h⟩ := h
  simp only [sortArrayBy]
  have he : xs.isEmpty = ys.isEmpty := by
    have := vrl_length h
    cases xs <;> cases ys <;> simp at this <;> rfl
  rw [he]
  split
  · exact RR.ok' (vr_arr h)
  · refine widen1_rr h hf (RR.bind (keysOf_rr hf h) (fun ks ks' hks => ?_))
    simp only [enum2_vrl t h, keysDistinct_kr hks]
    split
    · trivial
    · exact RR.ok' (vr_arr (sortByKeys_vrl h hks))

/-! ## `group_by` -/

/-- groups: the same keys, related members -/
def GR (nf : Bool) (g g' : Bytes × List Val) : Prop := g.1 = g'.1 ∧ VRL nf g.2 g'.2

theorem groupInsert_gr {s : Bytes} {v v' : Val} (hv : VR nf v v') :
    ∀ {gs gs' : List (Bytes × List Val)}, L2 (GR nf) gs gs' → L2 (GR nf) (groupInsert s v gs) (groupInsert s v' gs')
  | [], [], _ => by
    simp only [groupInsert, L2, GR, and_true, true_and]
    exact vrl_cons hv vrl_nil
  | [], _ :: _, h => by simp [L2] at h
  | _ :: _, [], h => by simp [L2] at h
  | (k, g) :: gs, (k', g') :: gs', h => by
    simp only [L2, GR] at h
    obtain ⟨⟨rfl, hg⟩, hr⟩ := h
    simp only [groupInsert]
    split
    · exact l2_cons ⟨rfl, vrl_append hg (vrl_cons hv vrl_nil)⟩ hr
    · split
      · exact l2_cons ⟨rfl, vrl_cons hv vrl_nil⟩ (l2_cons ⟨rfl, hg⟩ hr)
      · exact l2_cons ⟨rfl, hg⟩ (groupInsert_gr hv hr)

theorem groupLoop_rr {f f' : Val → Res Val} (hf : FR nf f f') : ∀ {xs xs' : List Val} {acc acc' : List (Bytes × List Val)},
    VRL nf xs xs' → L2 (GR nf) acc acc' → RR (L2 (GR nf)) (groupLoop f xs acc) (groupLoop f' xs' acc')
  | [], [], _, _, _, ha => by simp only [groupLoop]; exact RR.ok' ha
  | [], _ :: _, _, _, h, _ => by simp [VRL] at h
  | _ :: _, [], _, _, h, _ => by simp [VRL] at h
  | x :: xs, x' :: xs', acc, acc', h, ha => by
    simp only [VRL] at h
    simp only [groupLoop]
    refine RR.bind (hf x x' h.1) (fun rv rv' hrv => ?_)
    cases rv <;> cases rv' <;> simp only [VR] at hrv <;> try exact rr_errType
    subst hrv
    exact groupLoop_rr hf h.2 (groupInsert_gr h.1 ha)

theorem groups_vrf (t : ATag) : ∀ {gs gs' : List (Bytes × List Val)}, L2 (GR nf) gs gs' →
    VRF nf (gs.map (fun kg => (kg.1, Val.arr t kg.2))) (gs'.map (fun kg => (kg.1, Val.arr t kg.2)))
  | [], [], _ => by simp
  | [], _ :: _, h => by simp [L2] at h
  | _ :: _, [], h => by simp [L2] at h
  | (k, g) :: gs, (k', g') :: gs', h => by
    simp only [L2, GR] at h
    simp only [List.map_cons, VRF]
    exact ⟨h.1.1, vr_arr h.1.2, groups_vrf t h.2⟩

theorem groupBy_rr {f f' : Val → Res Val} (hf : FR nf f f') {v v' : Val} (h : VR nf v v') :
    RR (VR nf) (groupBy f v) (groupBy f' v') := by
  cases v <;> cases v' <;> simp only [VR] at h <;> try (simp only [groupBy]; exact rr_errType)
  next t xs u ys =>
  obtain ⟨rfl, h⟩ := h
  simp only [groupBy]
  have he : xs.isEmpty = ys.isEmpty := by
    have := vrl_length h
    cases xs <;> cases ys <;> simp at this <;> rfl
  rw [he]
  split
  · exact RR.ok' vr_null
  · exact widen1_rr h hf (RR.bind (groupLoop_rr hf h l2_nil) (fun gs gs' hgs => RR.ok' (vr_obj (groups_vrf _ hgs))))

/-! ## multi-select hashes -/

theorem combineUnordered_rr {acc acc' : Res (List (Bytes × Val))} {r r' : Res Val} (k : Bytes)
    (h1 : RR (VRF nf) acc acc') (h2 : RR (VR nf) r r') :
    RR (VRF nf) (combineUnordered acc k r) (combineUnordered acc' k r') := by
  cases acc <;> cases acc' <;> simp only [RR] at h1 <;> cases r <;> cases r' <;> simp only [RR] at h2 <;>
    simp only [combineUnordered, RR] <;> first | exact objInsert_vrf h2 h1 | (subst_vars; rfl) | exact h1 | exact h2 | trivial

/-! ## `zip` -/

theorem zipArgs_rr : ∀ {vs vs' : List Val}, VRL nf vs vs' → RR (L2 (VRL nf)) (zipArgs vs) (zipArgs vs')
  | [], [], _ => by simp [zipArgs, RR, L2]
  | [], _ :: _, h => by simp [VRL] at h
  | _ :: _, [], h => by simp [VRL] at h
  | v :: vs, v' :: vs', h => by
    simp only [VRL] at h
    have hv := h.1
    cases v <;> cases v' <;> simp only [VR] at hv <;> try (simp only [zipArgs]; exact rr_errType)
    next t xs u ys =>
    obtain ⟨rfl, hv⟩ := hv
    simp only [zipArgs]
    refine RR.bind (zipArgs_rr h.2) (fun cols cols' hc => ?_)
    rw [enum2_vrl t hv]
    split
    · trivial
    · exact RR.ok' (l2_cons hv hc)

theorem cols_heads : ∀ {cols cols' : List (List Val)}, L2 (VRL nf) cols cols' →
    VRL nf (cols.map (fun c => c.headD .null)) (cols'.map (fun c => c.headD .null))
  | [], [], _ => by simp
  | [], _ :: _, h => by simp [L2] at h
  | _ :: _, [], h => by simp [L2] at h
  | c :: cols, c' :: cols', h => by
    simp only [L2] at h
    simp only [List.map_cons]
    refine vrl_cons ?_ (cols_heads h.2)
    have := h.1
    cases c <;> cases c' <;> simp only [VRL] at this
    · simp
    · simpa using this.1

theorem cols_tails : ∀ {cols cols' : List (List Val)}, L2 (VRL nf) cols cols' →
    L2 (VRL nf) (cols.map List.tail) (cols'.map List.tail)
  | [], [], _ => by simp [L2]
  | [], _ :: _, h => by simp [L2] at h
  | _ :: _, [], h => by simp [L2] at h
  | c :: cols, c' :: cols', h => by
    simp only [L2] at h
    simp only [List.map_cons]
    refine l2_cons ?_ (cols_tails h.2)
    have := h.1
    cases c <;> cases c' <;> simp only [VRL] at this
    · simp
    · simpa using this.2

theorem zipRows_vrl : ∀ (n : Nat) {cols cols' : List (List Val)}, L2 (VRL nf) cols cols' →
    VRL nf (zipRows n cols) (zipRows n cols')
  | 0, _, _, _ => by simp [zipRows]
  | n + 1, _, _, h => by
    simp only [zipRows]
    exact vrl_cons (vr_arr (cols_heads h)) (zipRows_vrl n (cols_tails h))

theorem minLen_cols : ∀ {cs cs' : List (List Val)} (m : Nat), L2 (VRL nf) cs cs' →
    cs.foldl (fun m x => min m x.length) m = cs'.foldl (fun m x => min m x.length) m
  | [], [], _, _ => rfl
  | [], _ :: _, _, h => by simp [L2] at h
  | _ :: _, [], _, h => by simp [L2] at h
  | c :: cs, c' :: cs', m, h => by
    simp only [L2] at h
    simp only [List.foldl_cons, vrl_length h.1]
    exact minLen_cols _ h.2

end
end C14B
end Jmes
