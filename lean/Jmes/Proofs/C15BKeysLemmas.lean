/-
  Helper lemmas for Jmes/Properties/C15B.lean, part 6: `sort_by`, `max_by`, `min_by` on map-ordered arrays.

  The model answers `sort_by` on a map-ordered array only when the keys are pairwise distinct (`keysDistinct`) and
  `max_by`/`min_by` only when exactly one key is extremal (`uniqueExtremum`). These lemmas show that under those
  conditions every run — the elements visited in any order — computes a concretisation of the model's answer.
-/
import Jmes.Proofs.C15BConcLemmas
namespace Jmes
open Invar

/-! ### generic: a pointwise relation is preserved by `mergeSort` and by the `max`/`min` scan -/

theorem All₂.zip_spec {α β} {R : α → β → Prop} : ∀ {l : List α} {l' : List β}, All₂ R l l' →
    (l.zip l').map Prod.fst = l ∧ (l.zip l').map Prod.snd = l' ∧ ∀ z ∈ l.zip l', R z.1 z.2
  | _, _, .nil => ⟨rfl, rfl, fun _ h => by cases h⟩
  | _, _, .cons h t => by
    obtain ⟨h1, h2, h3⟩ := All₂.zip_spec t
    refine ⟨by simp [h1], by simp [h2], ?_⟩
    intro z hz
    simp only [List.zip_cons_cons, List.mem_cons] at hz
    rcases hz with rfl | hz
    · exact h
    · exact h3 z hz

theorem All₂.of_map {α β γ} {R : α → β → Prop} {f : γ → α} {g : γ → β} : ∀ (l : List γ), (∀ z ∈ l, R (f z) (g z)) →
    All₂ R (l.map f) (l.map g)
  | [], _ => .nil
  | z :: l, h => .cons (h z (by simp)) (All₂.of_map l fun w hw => h w (List.mem_cons_of_mem _ hw))

/-- sorting two pointwise related lists with comparators that agree across the relation gives pointwise related
    lists -/
theorem All₂.mergeSort {α β} {R : α → β → Prop} {le : α → α → Bool} {le' : β → β → Bool}
    (hle : ∀ a b a' b', R a a' → R b b' → le a b = le' a' b') {l : List α} {l' : List β} (h : All₂ R l l') :
    All₂ R (l.mergeSort le) (l'.mergeSort le') := by
  obtain ⟨h1, h2, h3⟩ := h.zip_spec
  let leZ : α × β → α × β → Bool := fun z w => le z.1 w.1
  have e1 : ((l.zip l').mergeSort leZ).map Prod.fst = l.mergeSort le := by
    rw [List.map_mergeSort (s := le) (fun a _ b _ => rfl), h1]
  have e2 : ((l.zip l').mergeSort leZ).map Prod.snd = l'.mergeSort le' := by
    rw [List.map_mergeSort (s := le') (fun a ha b hb => hle _ _ _ _ (h3 a ha) (h3 b hb)), h2]
  rw [← e1, ← e2]
  exact All₂.of_map _ fun z hz => h3 z (List.mem_mergeSort.mp hz)

theorem All₂.scan {α β} {R : α → β → Prop} {better : α → α → Bool} {better' : β → β → Bool}
    (hb : ∀ a b a' b', R a a' → R b b' → better a b = better' a' b') :
    ∀ {l : List α} {l' : List β} {m : α} {m' : β}, R m m' → All₂ R l l' → R (scan better m l) (scan better' m' l')
  | _, _, _, _, hm, .nil => hm
  | _, _, m, m', hm, .cons (a := a) (b := b) hab t => by
    simp only [Jmes.scan, hb a m b m' hab hm]
    split
    · exact All₂.scan hb hab t
    · exact All₂.scan hb hm t

/-! ### keys as a traversal collecting (element, key) pairs -/

/-- the key of one element, in string or number mode -/
def keyOfVal (isStr : Bool) (rv : Val) : Res Key :=
  if isStr then (match rv with
    | .str s => .ok (Key.s s)
    | _ => errType)
  else (match toDecimal rv with
    | some d => .ok (Key.n d)
    | none => errType)

def pairH (f : Val → Res Val) (b : Bool) (x : Val) : Res (List (Val × Key)) := do
  let rv ← f x
  let k ← keyOfVal b rv
  pure [(x, k)]

theorem keysFrom_cons (f : Val → Res Val) (b : Bool) (x : Val) (xs : List Val) :
    keysFrom f b (x :: xs) = (do
      let rv ← f x
      let k ← keyOfVal b rv
      let rest ← keysFrom f b xs
      pure (k :: rest)) := by
  simp only [keysFrom, keyOfVal]
  cases f x <;> simp only [Res.ok_bind, Res.err_bind, Res.panic_bind, Res.nondet_bind, Res.unmodelled_bind]
  rename_i rv
  cases b
  · simp only [Bool.false_eq_true, if_false]
    cases toDecimal rv <;> rfl
  · simp only [if_true]
    cases rv <;> rfl

theorem keysFromO_cons (g : Nat → Val → Res Val) (b : Bool) (i : Nat) (x : Val) (xs : List Val) :
    keysFromO g b i (x :: xs) = (do
      let rv ← g i x
      let k ← keyOfVal b rv
      let rest ← keysFromO g b (i + 1) xs
      pure (k :: rest)) := by
  simp only [keysFromO, keyOfVal]
  cases g i x <;> simp only [Res.ok_bind, Res.err_bind, Res.panic_bind, Res.nondet_bind, Res.unmodelled_bind]
  rename_i rv
  cases b
  · simp only [Bool.false_eq_true, if_false]
    cases toDecimal rv <;> rfl
  · simp only [if_true]
    cases rv <;> rfl

/-- a successful key scan is the traversal that pairs every element with its key -/
theorem keysFrom_pairs {f : Val → Res Val} {b : Bool} : ∀ {xs : List Val} {ks : List Key},
    keysFrom f b xs = .ok ks → collect (pairH f b) xs = .ok (xs.zip ks) ∧ ks.length = xs.length
  | [], ks, h => by simp only [keysFrom] at h; cases h; exact ⟨rfl, rfl⟩
  | x :: xs, ks, h => by
    rw [keysFrom_cons] at h
    obtain ⟨rv, h1, h⟩ := bind_eq_ok' h
    obtain ⟨k, h2, h⟩ := bind_eq_ok' h
    obtain ⟨rest, h3, h⟩ := bind_eq_ok' h
    cases h
    obtain ⟨ih1, ih2⟩ := keysFrom_pairs h3
    refine ⟨?_, by simp [ih2]⟩
    simp only [collect, pairH, h1, h2, ih1, Res.ok_bind, Res.pure_eq, List.zip_cons_cons]
    rfl

/-- conversely for the run -/
theorem keysFromO_of_pairs {g : Nat → Val → Res Val} {b : Bool} : ∀ (i : Nat) {xs : List Val} {ps : List (Val × Key)},
    collectO (fun i => pairH (g i) b) i xs = .ok ps →
      keysFromO g b i xs = .ok (ps.map Prod.snd) ∧ ps.map Prod.fst = xs
  | _, [], ps, h => by simp only [collectO] at h; cases h; exact ⟨rfl, rfl⟩
  | i, x :: xs, ps, h => by
    simp only [collectO] at h
    obtain ⟨r, h1, h⟩ := bind_eq_ok' h
    obtain ⟨rest, h2, h⟩ := bind_eq_ok' h
    cases h
    simp only [pairH] at h1
    obtain ⟨rv, h11, h1⟩ := bind_eq_ok' h1
    obtain ⟨k, h12, h1⟩ := bind_eq_ok' h1
    cases h1
    obtain ⟨ih1, ih2⟩ := keysFromO_of_pairs (i + 1) h2
    rw [keysFromO_cons]
    simp only [h11, h12, ih1, Res.ok_bind, Res.pure_eq, List.cons_append, List.nil_append, List.map_cons, ih2]
    exact ⟨trivial, trivial⟩

/-- `keysOf` chooses the mode by the first key and is then `keysFrom` in that mode -/
theorem keysOf_mode {f : Val → Res Val} {x : Val} {xs : List Val} {ks : List Key}
    (h : keysOf f (x :: xs) = .ok ks) : ∃ b, keysFrom f b (x :: xs) = .ok ks := by
  simp only [keysOf] at h
  obtain ⟨first, h1, h⟩ := bind_eq_ok' h
  cases first with
  | str s =>
    simp only at h
    obtain ⟨rest, h2, h⟩ := bind_eq_ok' h
    cases h
    refine ⟨true, ?_⟩
    rw [keysFrom_cons]
    simp only [h1, keyOfVal, h2, Res.ok_bind, if_true]
    rfl
  | null | bool _ | num _ | arr _ _ | obj _ | foreign _ =>
    simp only at h
    cases hd : toDecimal _ with
    | none => rw [hd] at h; cases h
    | some d =>
      rw [hd] at h
      simp only at h
      obtain ⟨rest, h2, h⟩ := bind_eq_ok' h
      cases h
      refine ⟨false, ?_⟩
      rw [keysFrom_cons]
      simp only [h1, keyOfVal, hd, h2, Res.ok_bind, Bool.false_eq_true, if_false]
      rfl

/-- … and a successful `keysFromO` (either mode) is what `keysOfO` computes -/
theorem keysOfO_of_keysFromO {g : Nat → Val → Res Val} {b : Bool} {x : Val} {xs : List Val} {ks : List Key}
    (h : keysFromO g b 0 (x :: xs) = .ok ks) : keysOfO g (x :: xs) = .ok ks := by
  rw [keysFromO_cons] at h
  obtain ⟨rv, h1, h⟩ := bind_eq_ok' h
  obtain ⟨k, h2, h⟩ := bind_eq_ok' h
  obtain ⟨rest, h3, h⟩ := bind_eq_ok' h
  cases h
  simp only [keysOfO, h1, Res.ok_bind]
  cases b
  · simp only [keyOfVal, Bool.false_eq_true, if_false] at h2
    cases hd : toDecimal rv with
    | none => rw [hd] at h2; cases h2
    | some d =>
      rw [hd] at h2
      cases h2
      cases rv with
      | str s => simp [toDecimal] at hd
      | _ => simp only [h3, Res.ok_bind]; rfl
  · simp only [keyOfVal, if_true] at h2
    cases rv with
    | str s => cases h2; simp only [h3, Res.ok_bind]; rfl
    | _ => cases h2

theorem conc_keyOfVal (b : Bool) {rv rv' : Val} (h : Conc rv rv') : keyOfVal b rv' = keyOfVal b rv := by
  simp only [keyOfVal, conc_toDecimal h]
  cases b
  · rfl
  · simp only [if_true]
    cases rv with
    | arr t xs => obtain ⟨t', xs', rfl, _⟩ := conc_arr h; rfl
    | obj kvs => obtain ⟨kvs', rfl, _⟩ := conc_obj h; rfl
    | _ => simp only [Conc] at h; subst h; rfl

/-- an (element, key) pair of the model and of the run -/
abbrev PairR (p p' : Val × Key) : Prop := Conc p.1 p'.1 ∧ p.2 = p'.2

theorem pairH_sim {f : Val → Res Val} {g : Nat → Val → Res Val} (hf : SimFnE f g) (b : Bool) :
    ∀ i x x', Conc x x' → SimG (All₂ PairR) (pairH f b x) (pairH (g i) b x') := by
  intro i x x' hx
  refine SimG.bind (hf i x x' hx) fun rv rv' hrv => ?_
  rw [conc_keyOfVal b hrv]
  exact SimG.bind (C := fun a b => a = b) (fun k hk => ⟨k, hk, rfl⟩) fun k k' e => by
    subst e
    exact SimG.pure (.cons ⟨hx, rfl⟩ .nil)

theorem zip_map_fst_snd {α β} : ∀ (ps : List (α × β)), (ps.map Prod.fst).zip (ps.map Prod.snd) = ps
  | [] => rfl
  | p :: ps => by simp [zip_map_fst_snd ps]

/-- every pair produced by the traversal is (an element, its key) -/
theorem collect_pairH_fst {f : Val → Res Val} {b : Bool} : ∀ {xs : List Val} {ps : List (Val × Key)},
    collect (pairH f b) xs = .ok ps → ps.map Prod.fst = xs
  | [], ps, h => by simp only [collect] at h; cases h; rfl
  | x :: xs, ps, h => by
    simp only [collect] at h
    obtain ⟨r, h1, h⟩ := bind_eq_ok' h
    obtain ⟨rest, h2, h⟩ := bind_eq_ok' h
    cases h
    simp only [pairH] at h1
    obtain ⟨rv, h11, h1⟩ := bind_eq_ok' h1
    obtain ⟨k, h12, h1⟩ := bind_eq_ok' h1
    cases h1
    simp [collect_pairH_fst h2]

/-! ### `sort_by` -/

theorem keysDistinct_iff : ∀ (ks : List Key), keysDistinct ks = true ↔
    ks.Pairwise (fun k k' => Key.lt k k' = true ∨ Key.lt k' k = true)
  | [] => by simp [keysDistinct]
  | k :: rest => by
    simp only [keysDistinct, Bool.and_eq_true, List.all_eq_true, Bool.or_eq_true, List.pairwise_cons,
      keysDistinct_iff rest]

theorem pairwise_zip_snd {α β} {R : β → β → Prop} : ∀ {xs : List α} {ks : List β}, ks.Pairwise R →
    (xs.zip ks).Pairwise (fun a b => R a.2 b.2)
  | [], _, _ => by simp
  | _ :: _, [], _ => by simp
  | x :: xs, k :: ks, h => by
    rw [List.pairwise_cons] at h
    simp only [List.zip_cons_cons, List.pairwise_cons]
    refine ⟨?_, pairwise_zip_snd h.2⟩
    intro p hp
    exact h.1 p.2 (List.of_mem_zip hp).2

/-- with pairwise distinct keys the sorted list of pairs does not depend on the order of the input -/
theorem mergeSort_pairs_perm {P Q : List (Val × Key)} (hp : Q.Perm P) (hh : Key.Homog (P.map Prod.snd))
    (hd : P.Pairwise (fun a b => Key.lt a.2 b.2 = true ∨ Key.lt b.2 a.2 = true)) :
    Q.mergeSort C13.le = P.mergeSort C13.le := by
  -- on the members, `le` is the total preorder `leT`
  have hagree : ∀ a ∈ P, ∀ b ∈ P, C13.le a b = C13.leT a b := by
    intro a ha b hb
    have ha' : a.2 ∈ P.map Prod.snd := List.mem_map.mpr ⟨a, ha, rfl⟩
    have hb' : b.2 ∈ P.map Prod.snd := List.mem_map.mpr ⟨b, hb, rfl⟩
    exact (Key.leT_eq_le (hh.isStr_eq ha' hb')).symm
  have hagreeQ : ∀ a ∈ Q, ∀ b ∈ Q, C13.le a b = C13.leT a b :=
    fun a ha b hb => hagree a (hp.mem_iff.mp ha) b (hp.mem_iff.mp hb)
  have sP : (P.mergeSort C13.le).Pairwise (fun a b => C13.leT a b = true) := by
    rw [mergeSort_congr hagree]
    exact List.pairwise_mergeSort C13.leT_trans C13.leT_total P
  have sQ : (Q.mergeSort C13.le).Pairwise (fun a b => C13.leT a b = true) := by
    rw [mergeSort_congr hagreeQ]
    exact List.pairwise_mergeSort C13.leT_trans C13.leT_total Q
  have hperm : (Q.mergeSort C13.le).Perm (P.mergeSort C13.le) :=
    (List.mergeSort_perm _ _).trans (hp.trans (List.mergeSort_perm _ _).symm)
  apply List.ext_getElem hperm.length_eq
  intro i h1 h2
  have hpw := sorted_perm_pointwise C13.leT_trans C13.leT_total hperm sQ sP i h1 h2
  have ma : (Q.mergeSort C13.le)[i] ∈ P := hp.mem_iff.mp (List.mem_mergeSort.mp (List.getElem_mem h1))
  have mb : (P.mergeSort C13.le)[i] ∈ P := List.mem_mergeSort.mp (List.getElem_mem h2)
  rw [← hagree _ ma _ mb, ← hagree _ mb _ ma] at hpw
  -- equivalent keys of two different members would contradict distinctness
  refine Classical.byContradiction fun hne => ?_
  rcases pair_sublist_or hne ma mb with hs | hs
  · have := (List.pairwise_cons.mp (hd.sublist hs)).1 (P.mergeSort C13.le)[i] (by simp)
    simp only [C13.le, Bool.not_eq_true'] at hpw
    rcases this with h | h
    · rw [h] at hpw; exact Bool.noConfusion hpw.2
    · rw [h] at hpw; exact Bool.noConfusion hpw.1
  · have := (List.pairwise_cons.mp (hd.sublist hs)).1 (Q.mergeSort C13.le)[i] (by simp)
    simp only [C13.le, Bool.not_eq_true'] at hpw
    rcases this with h | h
    · rw [h] at hpw; exact Bool.noConfusion hpw.1
    · rw [h] at hpw; exact Bool.noConfusion hpw.2

theorem widen_eq_ok' {α} {t xs fs extra} {r : Res α} {a : α} (h : widen t xs fs extra r = .ok a) : r = .ok a := by
  cases r with
  | ok b => exact h
  | err cs => simp only [widen] at h; split at h <;> (try split at h) <;> cases h
  | panic w => cases h
  | nondet => cases h
  | unmodelled w => cases h

theorem isEmpty_of_concP {xs xs' : List Val} (h : ConcP xs xs') : xs'.isEmpty = xs.isEmpty :=
  isEmpty_eq_of_length h.length

/-- the traversal of the run's array: pairs related to a permutation of the model's pairs; for an array that is not
    map-ordered (≥ 2 elements) the permutation is the identity -/
theorem pairs_of_run {f : Val → Res Val} {g : Nat → Val → Res Val} (hf : SimFnE f g) {t t' : ATag}
    {xs xs' : List Val} (hv : Conc (.arr t xs) (.arr t' xs')) {b : Bool} {ks : List Key}
    (hk : keysFrom f b xs = .ok ks) :
    ∃ ps2 ps', ps2.Perm (xs.zip ks) ∧ (enum2 t xs = false → ps2 = xs.zip ks) ∧ All₂ PairR ps2 ps' ∧
      collectO (fun i => pairH (g i) b) 0 xs' = .ok ps' := by
  obtain ⟨hc, -⟩ := keysFrom_pairs hk
  cases he : enum2 t xs with
  | false =>
    obtain ⟨t'', xs'', e, _, hl, _⟩ := conc_arr_pos hv he
    cases e
    obtain ⟨ps', e', hd⟩ := collect_simL (pairH_sim hf b) 0 hl _ hc
    exact ⟨xs.zip ks, ps', List.Perm.refl _, fun _ => rfl, hd, e'⟩
  | true =>
    obtain ⟨t'', xs'', e, _, hp, _, _⟩ := conc_arr hv
    cases e
    obtain ⟨ys, hys, hl⟩ := concP_iff.mp hp
    obtain ⟨ps2, e2, p2⟩ := collect_perm hys hc
    obtain ⟨ps', e', hd⟩ := collect_simL (pairH_sim hf b) 0 hl _ e2
    exact ⟨ps2, ps', p2, (fun h => Bool.noConfusion h), hd, e'⟩

theorem sortArrayBy_simE {f : Val → Res Val} {g : Nat → Val → Res Val} (hf : SimFnE f g) {v v' : Val}
    (h : Conc v v') : SimE (sortArrayBy f v) (sortArrayByO g v') := by
  intro r hr
  cases v with
  | arr t xs =>
    obtain ⟨t', xs', rfl, hne, hp, _, _⟩ := conc_arr h
    simp only [sortArrayBy] at hr
    simp only [sortArrayByO, isEmpty_of_concP hp]
    cases hxe : xs.isEmpty with
    | true =>
      rw [hxe] at hr
      simp only [if_true] at hr ⊢
      cases hr
      exact ⟨_, rfl, h⟩
    | false =>
      rw [hxe] at hr
      simp only [Bool.false_eq_true, if_false] at hr ⊢
      have hr := widen_eq_ok' hr
      obtain ⟨ks, hks, hr⟩ := bind_eq_ok' hr
      cases xs with
      | nil => simp at hxe
      | cons x0 rest =>
        obtain ⟨b, hkb⟩ := keysOf_mode hks
        obtain ⟨hlen, hhom⟩ := C13.keysOf_ok hks
        obtain ⟨ps2, ps', p2, hid, hd, e'⟩ := pairs_of_run hf h hkb
        obtain ⟨hkO, hfst⟩ := keysFromO_of_pairs 0 e'
        cases xs' with
        | nil => have := hp.length; simp at this
        | cons x0' rest' =>
          rw [keysOfO_of_keysFromO hkO]
          simp only [Res.ok_bind]
          -- the model's sorted pairs, computed from `ps2`
          have hsorted : ps2.mergeSort C13.le = ((x0 :: rest).zip ks).mergeSort C13.le := by
            cases he : enum2 t (x0 :: rest) with
            | false => rw [hid he]
            | true =>
              rw [he] at hr
              simp only [Bool.true_and] at hr
              split at hr
              · cases hr
              · rename_i hdist
                have hdist' : keysDistinct ks = true := by simpa using hdist
                apply mergeSort_pairs_perm p2
                · rw [List.map_snd_zip (by omega)]; exact hhom
                · exact pairwise_zip_snd ((keysDistinct_iff ks).mp hdist')
          have hres : r = .arr .plain (sortByKeys (x0 :: rest) ks) := by
            split at hr
            · cases hr
            · cases hr; rfl
          subst hres
          refine ⟨_, rfl, conc_plainArr (concL_iff.mpr ?_)⟩
          simp only [sortByKeys]
          rw [← hsorted, ← hfst, zip_map_fst_snd]
          have hs := All₂.mergeSort (le := C13.le) (le' := C13.le)
            (fun a b a' b' ha hb => by simp only [C13.le, ha.2, hb.2]) hd
          exact hs.map fun a b hab => hab.1
  | obj kvs => simp only [sortArrayBy] at hr; cases hr
  | null => simp only [sortArrayBy] at hr; cases hr
  | bool _ => simp only [sortArrayBy] at hr; cases hr
  | str _ => simp only [sortArrayBy] at hr; cases hr
  | num _ => simp only [sortArrayBy] at hr; cases hr
  | foreign _ => simp only [sortArrayBy] at hr; cases hr

/-! ### `max_by` / `min_by` -/

/-- the scan of `max_by`/`min_by` on the list of (element, key) pairs -/
abbrev betterP (better : Key → Key → Bool) (p q : Val × Key) : Bool := better p.2 q.2

/-- with exactly one extremal key the element found does not depend on the order of the input -/
theorem scan_pairs_perm {better : Key → Key → Bool} (irrefl : ∀ a, better a a = false)
    (trans : ∀ a b c, better a b = true → better b c = true → better a c = true)
    {p0 q0 : Val × Key} {pt qt : List (Val × Key)} (hp : (q0 :: qt).Perm (p0 :: pt))
    (hu : uniqueExtremum better ((p0 :: pt).map Prod.snd) = true) :
    scan (betterP better) q0 qt = scan (betterP better) p0 pt := by
  obtain ⟨pre1, post1, e1, m1, -⟩ := scan_spec (betterP better) (fun a => irrefl a.2)
    (fun a b c => trans a.2 b.2 c.2) p0 pt
  obtain ⟨pre2, post2, e2, m2, -⟩ := scan_spec (betterP better) (fun a => irrefl a.2)
    (fun a b c => trans a.2 b.2 c.2) q0 qt
  generalize scan (betterP better) p0 pt = a at *
  generalize scan (betterP better) q0 qt = b at *
  have ha : a ∈ p0 :: pt := by rw [e1]; simp
  have hb : b ∈ p0 :: pt := hp.mem_iff.mp (by rw [e2]; simp)
  have m2' : ∀ p ∈ p0 :: pt, betterP better p b = false := fun p hp' => m2 p (hp.mem_iff.mpr hp')
  refine Classical.byContradiction fun hne => ?_
  let ks := (p0 :: pt).map Prod.snd
  let ext : Key → Bool := fun k => ks.all (fun k' => !better k' k)
  have hext : ∀ c, (∀ p ∈ p0 :: pt, betterP better p c = false) → ext c.2 = true := by
    intro c hc
    simp only [ext, List.all_eq_true, Bool.not_eq_true']
    intro k' hk'
    obtain ⟨p, hp', rfl⟩ := List.mem_map.mp hk'
    exact hc p hp'
  have hlen : (ks.filter ext).length ≤ 1 := by
    have := hu
    simp only [uniqueExtremum, decide_eq_true_eq] at this
    exact this
  have key : ∀ x y : Val × Key, [x, y].Sublist (p0 :: pt) → ext x.2 = true → ext y.2 = true → False := by
    intro x y hs hx hy
    have h1 : [x.2, y.2].Sublist ks := hs.map Prod.snd
    have h2 := h1.filter ext
    simp only [List.filter_cons, hx, hy, if_true, List.filter_nil] at h2
    have := h2.length_le
    simp at this
    omega
  rcases pair_sublist_or (fun e => hne e.symm) ha hb with hs | hs
  · exact key a b hs (hext a m1) (hext b m2')
  · exact key b a hs (hext b m2') (hext a m1)

theorem arrayPickBy_simE {better : Key → Key → Bool} (irrefl : ∀ a, better a a = false)
    (trans : ∀ a b c, better a b = true → better b c = true → better a c = true)
    {f : Val → Res Val} {g : Nat → Val → Res Val} (hf : SimFnE f g) {v v' : Val}
    (h : Conc v v') : SimE (arrayPickBy better f v) (arrayPickByO better g v') := by
  intro r hr
  cases v with
  | arr t xs =>
    obtain ⟨t', xs', rfl, hne, hp, _, _⟩ := conc_arr h
    cases xs with
    | nil =>
      have : xs' = [] := List.eq_nil_of_length_eq_zero (by rw [← hp.length]; rfl)
      subst this
      simp only [arrayPickBy] at hr
      cases hr
      exact ⟨_, rfl, conc_null⟩
    | cons x0 rest =>
      cases xs' with
      | nil => have := hp.length; simp at this
      | cons x0' rest' =>
        simp only [arrayPickBy] at hr
        simp only [arrayPickByO]
        have hr := widen_eq_ok' hr
        obtain ⟨ks, hks, hr⟩ := bind_eq_ok' hr
        obtain ⟨b, hkb⟩ := keysOf_mode hks
        obtain ⟨hlen, -⟩ := C13.keysOf_ok hks
        obtain ⟨ps2, ps', p2, hid, hd, e'⟩ := pairs_of_run hf h hkb
        obtain ⟨hkO, hfst⟩ := keysFromO_of_pairs 0 e'
        rw [keysOfO_of_keysFromO hkO]
        simp only [Res.ok_bind]
        cases ks with
        | nil => simp at hlen
        | cons k0 krest =>
          simp only at hr
          -- shapes of the pair lists
          cases ps' with
          | nil => simp at hfst
          | cons q0' qt' =>
            cases hd with
            | @cons q0 _ qt _ hq0 hqt =>
              simp only [List.map_cons, List.cons.injEq] at hfst
              obtain ⟨hf1, hf2⟩ := hfst
              simp only [List.map_cons]
              have hrun : pickBy better x0' q0'.2 (rest'.zip (qt'.map Prod.snd)) =
                  (scan (betterP better) q0' qt').1 := by
                rw [C13.pickBy_eq_scan, ← hf2, zip_map_fst_snd]
                obtain ⟨a, b⟩ := q0'
                simp only at hf1
                subst hf1
                rfl
              rw [hrun]
              have hmodel : r = (scan (betterP better) (x0, k0) (rest.zip krest)).1 ∧
                  scan (betterP better) q0 qt = scan (betterP better) (x0, k0) (rest.zip krest) := by
                cases he : enum2 t (x0 :: rest) with
                | false =>
                  rw [he] at hr
                  simp only [Bool.false_and, Bool.false_eq_true, if_false] at hr
                  cases hr
                  have := hid he
                  simp only [List.zip_cons_cons, List.cons.injEq] at this
                  rw [this.1, this.2]
                  exact ⟨C13.pickBy_eq_scan better _ _ _, rfl⟩
                | true =>
                  rw [he] at hr
                  simp only [Bool.true_and] at hr
                  split at hr
                  · cases hr
                  · rename_i hu
                    cases hr
                    refine ⟨C13.pickBy_eq_scan better _ _ _, ?_⟩
                    apply scan_pairs_perm irrefl trans (by simpa using p2)
                    have : ((x0, k0) :: rest.zip krest).map Prod.snd = k0 :: krest := by
                      simp only [List.map_cons]
                      rw [List.map_snd_zip (by simp at hlen; omega)]
                    rw [this]
                    simpa using hu
              obtain ⟨hr1, hr2⟩ := hmodel
              subst hr1
              rw [← hr2]
              have := All₂.scan (better := betterP better) (better' := betterP better)
                (fun a b a' b' ha hb => by simp only [betterP, ha.2, hb.2]) hq0 hqt
              exact ⟨_, rfl, this.1⟩
  | obj kvs => simp only [arrayPickBy] at hr; cases hr
  | null => simp only [arrayPickBy] at hr; cases hr
  | bool _ => simp only [arrayPickBy] at hr; cases hr
  | str _ => simp only [arrayPickBy] at hr; cases hr
  | num _ => simp only [arrayPickBy] at hr; cases hr
  | foreign _ => simp only [arrayPickBy] at hr; cases hr

/-! ### `group_by` -/

/-- the (key, element) pair an element contributes to `group_by` -/
def groupH (f : Val → Res Val) (x : Val) : Res (List (Bytes × Val)) := do
  let rv ← f x
  match rv with
  | .str s => pure [(s, x)]
  | _ => errType

def foldGroups (ps : List (Bytes × Val)) (acc : List (Bytes × List Val)) : List (Bytes × List Val) :=
  ps.foldl (fun a p => groupInsert p.1 p.2 a) acc

theorem groupLoop_eq (f : Val → Res Val) : ∀ (xs : List Val) (acc : List (Bytes × List Val)),
    groupLoop f xs acc = (collect (groupH f) xs >>= fun ps => pure (foldGroups ps acc))
  | [], acc => rfl
  | x :: xs, acc => by
    simp only [groupLoop, collect, groupH]
    cases f x <;> simp only [Res.ok_bind, Res.err_bind, Res.panic_bind, Res.nondet_bind, Res.unmodelled_bind]
    rename_i rv
    cases rv with
    | str s =>
      simp only [Res.pure_eq, Res.ok_bind]
      rw [groupLoop_eq f xs]
      cases collect (groupH f) xs <;>
        simp only [Res.ok_bind, Res.err_bind, Res.panic_bind, Res.nondet_bind, Res.unmodelled_bind, Res.pure_eq]
      rfl
    | _ => rfl

theorem groupLoopO_eq (g : Nat → Val → Res Val) : ∀ (i : Nat) (xs : List Val) (acc : List (Bytes × List Val)),
    groupLoopO g i xs acc = (collectO (fun i => groupH (g i)) i xs >>= fun ps => pure (foldGroups ps acc))
  | _, [], acc => rfl
  | i, x :: xs, acc => by
    simp only [groupLoopO, collectO, groupH]
    cases g i x <;> simp only [Res.ok_bind, Res.err_bind, Res.panic_bind, Res.nondet_bind, Res.unmodelled_bind]
    rename_i rv
    cases rv with
    | str s =>
      simp only [Res.pure_eq, Res.ok_bind]
      rw [groupLoopO_eq g (i + 1) xs]
      cases collectO (fun i => groupH (g i)) (i + 1) xs <;>
        simp only [Res.ok_bind, Res.err_bind, Res.panic_bind, Res.nondet_bind, Res.unmodelled_bind, Res.pure_eq]
      rfl
    | _ => rfl

/-- a (key, element) pair of the model and of the run -/
abbrev GroupR (p p' : Bytes × Val) : Prop := p.1 = p'.1 ∧ Conc p.2 p'.2

theorem groupH_sim {f : Val → Res Val} {g : Nat → Val → Res Val} (hf : SimFnE f g) :
    ∀ i x x', Conc x x' → SimG (All₂ GroupR) (groupH f x) (groupH (g i) x') := by
  intro i x x' hx
  refine SimG.bind (hf i x x' hx) fun rv rv' hrv => ?_
  cases rv with
  | str s =>
    simp only [Conc] at hrv; subst hrv
    exact SimG.pure (.cons ⟨rfl, hx⟩ .nil)
  | _ => exact SimG.errType

/-- groups of the model and of the run: same keys, elements concretised in the same order -/
abbrev GroupsL (a a' : List (Bytes × List Val)) : Prop :=
  All₂ (fun kg kg' : Bytes × List Val => kg.1 = kg'.1 ∧ ConcL kg.2 kg'.2) a a'

theorem groupInsert_groupsL {s : Bytes} {v v' : Val} (hv : Conc v v') : ∀ {a a' : List (Bytes × List Val)},
    GroupsL a a' → GroupsL (groupInsert s v a) (groupInsert s v' a')
  | _, _, .nil => .cons ⟨rfl, concL_cons hv concL_nil⟩ .nil
  | _, _, .cons (a := kg) (b := kg') hab t => by
    obtain ⟨k, g⟩ := kg
    obtain ⟨k', g'⟩ := kg'
    obtain ⟨hk, hg⟩ := hab
    simp only at hk hg
    subst hk
    simp only [groupInsert]
    split
    · exact .cons ⟨rfl, concL_append hg (concL_cons hv concL_nil)⟩ t
    · split
      · exact .cons ⟨rfl, concL_cons hv concL_nil⟩ (.cons ⟨rfl, hg⟩ t)
      · exact .cons ⟨rfl, hg⟩ (groupInsert_groupsL hv t)

theorem foldGroups_groupsL : ∀ {ps ps' : List (Bytes × Val)} {a a' : List (Bytes × List Val)},
    All₂ GroupR ps ps' → GroupsL a a' → GroupsL (foldGroups ps a) (foldGroups ps' a')
  | _, _, _, _, .nil, ha => ha
  | _, _, _, _, .cons (a := p) (b := p') hp t, ha => by
    simp only [foldGroups, List.foldl_cons]
    rw [hp.1]
    exact foldGroups_groupsL t (groupInsert_groupsL hp.2 ha)

/-! the groups are a key-sorted list of non-empty lists; permuting the input permutes each group -/

def lookupG (k : Bytes) : List (Bytes × List Val) → List Val
  | [] => []
  | (k', g) :: rest => if k = k' then g else lookupG k rest

def GSorted' (gs : List (Bytes × List Val)) : Prop := gs.Pairwise (fun a b => bytesLt a.1 b.1 = true)

theorem lookupG_nil_of_lt {x : Bytes} : ∀ {l : List (Bytes × List Val)}, (∀ p ∈ l, bytesLt x p.1 = true) →
    lookupG x l = []
  | [], _ => rfl
  | (k, g) :: l, h => by
    have hk : bytesLt x k = true := h (k, g) (by simp)
    have hne : x ≠ k := fun e => by rw [e, bytesLt_irrefl] at hk; cases hk
    simp only [lookupG, hne, if_false]
    exact lookupG_nil_of_lt fun p hp => h p (List.mem_cons_of_mem _ hp)

theorem mem_groupInsert {p : Bytes × List Val} {s : Bytes} {v : Val} : ∀ {l : List (Bytes × List Val)},
    p ∈ groupInsert s v l → p.1 = s ∨ p ∈ l
  | [], h => by simp only [groupInsert, List.mem_singleton] at h; subst h; exact .inl rfl
  | (k, g) :: rest, h => by
    simp only [groupInsert] at h
    split at h
    · rename_i e
      rcases List.mem_cons.mp h with rfl | h
      · exact .inl e.symm
      · exact .inr (List.mem_cons_of_mem _ h)
    · split at h
      · rcases List.mem_cons.mp h with rfl | h
        · exact .inl rfl
        · exact .inr h
      · rcases List.mem_cons.mp h with rfl | h
        · exact .inr (by simp)
        · rcases mem_groupInsert h with h | h
          · exact .inl h
          · exact .inr (List.mem_cons_of_mem _ h)

theorem gsorted_groupInsert (s : Bytes) (v : Val) : ∀ {l : List (Bytes × List Val)}, GSorted' l →
    GSorted' (groupInsert s v l)
  | [], _ => by simp [groupInsert, GSorted']
  | (k, g) :: rest, h => by
    unfold GSorted' at h ⊢
    rw [List.pairwise_cons] at h
    simp only [groupInsert]
    by_cases h1 : s = k
    · subst h1
      simp only [if_true]
      exact List.pairwise_cons.mpr ⟨h.1, h.2⟩
    · simp only [h1, if_false]
      by_cases h2 : bytesLt s k = true
      · simp only [h2, if_true]
        refine List.pairwise_cons.mpr ⟨?_, List.pairwise_cons.mpr h⟩
        intro p hp
        rcases List.mem_cons.mp hp with hp | hp
        · subst hp; exact h2
        · exact bytesLt_trans h2 (h.1 p hp)
      · simp only [h2]
        refine List.pairwise_cons.mpr ⟨?_, gsorted_groupInsert s v h.2⟩
        intro p hp
        rcases mem_groupInsert hp with hp | hp
        · rw [hp]
          rcases bytesLt_total s k with h3 | h3 | h3
          · exact absurd h3 h2
          · exact absurd h3 h1
          · exact h3
        · exact h.1 p hp

theorem lookupG_groupInsert (x s : Bytes) (v : Val) : ∀ {l : List (Bytes × List Val)}, GSorted' l →
    lookupG x (groupInsert s v l) = if x = s then lookupG s l ++ [v] else lookupG x l
  | [], _ => by
    simp only [groupInsert, lookupG]
    split <;> simp
  | (k, g) :: rest, h => by
    unfold GSorted' at h
    rw [List.pairwise_cons] at h
    simp only [groupInsert]
    by_cases h1 : s = k
    · subst h1
      simp only [if_true, lookupG]
      split <;> rfl
    · simp only [h1, if_false]
      by_cases h2 : bytesLt s k = true
      · simp only [h2, if_true, lookupG, h1, if_false]
        rw [lookupG_nil_of_lt (fun p hp => bytesLt_trans h2 (h.1 p hp))]
        by_cases e : x = s
        · simp [e]
        · simp [e]
      · have h2' : bytesLt s k = false := by simpa using h2
        simp only [h2', Bool.false_eq_true, if_false, lookupG, h1]
        rw [lookupG_groupInsert x s v h.2]
        by_cases e : x = s
        · subst e
          simp [h1]
        · simp [e]

theorem lookupG_foldGroups (x : Bytes) : ∀ (ps : List (Bytes × Val)) {acc : List (Bytes × List Val)}, GSorted' acc →
    lookupG x (foldGroups ps acc) = lookupG x acc ++ (ps.filter (fun p => p.1 == x)).map Prod.snd
  | [], _, _ => by simp [foldGroups]
  | p :: ps, acc, h => by
    simp only [foldGroups, List.foldl_cons]
    have := lookupG_foldGroups x ps (gsorted_groupInsert p.1 p.2 h)
    simp only [foldGroups] at this
    rw [this, lookupG_groupInsert x p.1 p.2 h, List.filter_cons]
    by_cases e : x = p.1
    · subst e
      simp
    · have : (p.1 == x) = false := by simpa using fun h => e h.symm
      simp [e, this]

theorem gsorted_foldGroups : ∀ (ps : List (Bytes × Val)) {acc : List (Bytes × List Val)}, GSorted' acc →
    GSorted' (foldGroups ps acc)
  | [], _, h => h
  | p :: ps, _, h => by
    simp only [foldGroups, List.foldl_cons]
    exact gsorted_foldGroups ps (gsorted_groupInsert p.1 p.2 h)

theorem groupInsert_nonempty {s : Bytes} {v : Val} : ∀ {l : List (Bytes × List Val)}, (∀ p ∈ l, p.2 ≠ []) →
    ∀ p ∈ groupInsert s v l, p.2 ≠ []
  | [], _, p, hp => by
    simp only [groupInsert, List.mem_singleton] at hp
    subst hp
    simp
  | (k, g) :: rest, h, p, hp => by
    simp only [groupInsert] at hp
    split at hp
    · rcases List.mem_cons.mp hp with rfl | hp
      · simp
      · exact h p (List.mem_cons_of_mem _ hp)
    · split at hp
      · rcases List.mem_cons.mp hp with rfl | hp
        · simp
        · exact h p hp
      · rcases List.mem_cons.mp hp with rfl | hp
        · exact h _ (by simp)
        · exact groupInsert_nonempty (fun q hq => h q (List.mem_cons_of_mem _ hq)) p hp

theorem foldGroups_nonempty : ∀ (ps : List (Bytes × Val)) {acc : List (Bytes × List Val)}, (∀ p ∈ acc, p.2 ≠ []) →
    ∀ p ∈ foldGroups ps acc, p.2 ≠ []
  | [], _, h => h
  | p :: ps, _, h => by
    simp only [foldGroups, List.foldl_cons]
    exact foldGroups_nonempty ps (groupInsert_nonempty h)

/-- same keys, every group a permutation -/
abbrev GroupsP (a a' : List (Bytes × List Val)) : Prop :=
  All₂ (fun kg kg' : Bytes × List Val => kg.1 = kg'.1 ∧ kg.2.Perm kg'.2) a a'

theorem groupsP_ext : ∀ {l1 l2 : List (Bytes × List Val)}, GSorted' l1 → GSorted' l2 →
    (∀ p ∈ l1, p.2 ≠ []) → (∀ p ∈ l2, p.2 ≠ []) → (∀ x, (lookupG x l1).Perm (lookupG x l2)) → GroupsP l1 l2
  | [], [], _, _, _, _, _ => .nil
  | [], (k, g) :: l2, _, _, _, n2, h => by
    have := h k
    simp only [lookupG, if_true] at this
    exact absurd this.symm.eq_nil (n2 (k, g) (by simp))
  | (k, g) :: l1, [], _, _, n1, _, h => by
    have := h k
    simp only [lookupG, if_true] at this
    exact absurd this.eq_nil (n1 (k, g) (by simp))
  | (k1, g1) :: l1, (k2, g2) :: l2, s1, s2, n1, n2, h => by
    unfold GSorted' at s1 s2
    rw [List.pairwise_cons] at s1 s2
    rcases bytesLt_total k1 k2 with hlt | heq | hgt
    · exfalso
      have := h k1
      have hne : k1 ≠ k2 := fun e => by rw [e, bytesLt_irrefl] at hlt; cases hlt
      simp only [lookupG, if_true, hne, if_false] at this
      rw [lookupG_nil_of_lt (fun p hp => bytesLt_trans hlt (s2.1 p hp))] at this
      exact n1 (k1, g1) (by simp) this.eq_nil
    · subst heq
      have hg := h k1
      simp only [lookupG, if_true] at hg
      refine .cons ⟨rfl, hg⟩ (groupsP_ext s1.2 s2.2 (fun p hp => n1 p (List.mem_cons_of_mem _ hp))
        (fun p hp => n2 p (List.mem_cons_of_mem _ hp)) ?_)
      intro x
      have hx := h x
      simp only [lookupG] at hx
      by_cases e : x = k1
      · subst e
        rw [lookupG_nil_of_lt s1.1, lookupG_nil_of_lt s2.1]
      · simpa [e] using hx
    · exfalso
      have := h k2
      have hne : k2 ≠ k1 := fun e => by rw [e, bytesLt_irrefl] at hgt; cases hgt
      simp only [lookupG, if_true, hne, if_false] at this
      rw [lookupG_nil_of_lt (fun p hp => bytesLt_trans hgt (s1.1 p hp))] at this
      exact n2 (k2, g2) (by simp) this.symm.eq_nil

/-- permuting the (key, element) pairs permutes each group and nothing else -/
theorem foldGroups_perm {ps ps2 : List (Bytes × Val)} (hp : ps2.Perm ps) :
    GroupsP (foldGroups ps2 []) (foldGroups ps []) := by
  have hs : GSorted' ([] : List (Bytes × List Val)) := List.Pairwise.nil
  apply groupsP_ext (gsorted_foldGroups ps2 hs) (gsorted_foldGroups ps hs)
    (foldGroups_nonempty ps2 (by simp)) (foldGroups_nonempty ps (by simp))
  intro x
  rw [lookupG_foldGroups x ps2 hs, lookupG_foldGroups x ps hs]
  exact ((hp.filter _).map _).append_left _

theorem groupBy_simE {f : Val → Res Val} {g : Nat → Val → Res Val} (hf : SimFnE f g) {v v' : Val}
    (h : Conc v v') : SimE (groupBy f v) (groupByO g v') := by
  intro r hr
  cases v with
  | arr t xs =>
    obtain ⟨t', xs', rfl, hne, hp, h1, h2⟩ := conc_arr h
    simp only [groupBy] at hr
    simp only [groupByO, isEmpty_of_concP hp]
    cases hxe : xs.isEmpty with
    | true =>
      rw [hxe] at hr
      simp only [if_true] at hr ⊢
      cases hr
      exact ⟨_, rfl, conc_null⟩
    | false =>
      rw [hxe] at hr
      simp only [Bool.false_eq_true, if_false] at hr ⊢
      have hr := widen_eq_ok' hr
      rw [groupLoop_eq] at hr
      rw [groupLoopO_eq]
      obtain ⟨gs, hgs, hr⟩ := bind_eq_ok' hr
      cases hr
      obtain ⟨ps, hps, hgs⟩ := bind_eq_ok' hgs
      cases hgs
      by_cases ht : t = .enum
      · -- map-ordered input: the run sees a permutation; every group is permuted, and tagged `enum` by the model
        subst ht
        rw [h2 rfl]
        obtain ⟨ys, hys, hl⟩ := concP_iff.mp hp
        obtain ⟨ps2, e2, p2⟩ := collect_perm hys hps
        obtain ⟨ps', e', hd⟩ := collect_simL (groupH_sim hf) 0 hl _ e2
        rw [e']
        refine ⟨_, rfl, conc_objOf (concF_iff.mpr ?_)⟩
        have hL : GroupsL (foldGroups ps2 []) (foldGroups ps' []) := foldGroups_groupsL hd .nil
        have hP : GroupsP (foldGroups ps2 []) (foldGroups ps []) := foldGroups_perm p2
        -- combine: model group ~ middle group, middle group concretised positionally by the run's group
        generalize foldGroups ps2 [] = mid at hL hP
        generalize foldGroups ps [] = mo at hP
        generalize foldGroups ps' [] = ru at hL
        clear e' e2 hd p2 hps
        induction hP generalizing ru with
        | nil => cases hL; exact .nil
        | @cons a b l l' hab _ ih =>
          cases hL with
          | @cons _ c _ lr hac tl =>
            simp only [List.map_cons]
            refine .cons ⟨?_, ?_⟩ (ih _ tl)
            · show b.1 = c.1
              rw [← hab.1, hac.1]
            · show Conc (Val.arr ATag.enum.derived b.2) (Val.arr ATag.plain.derived c.2)
              exact conc_enumArr (concP_iff.mpr ⟨a.2, hab.2, hac.2⟩)
      · have hl := (h1 ht).2
        rw [(h1 ht).1]
        obtain ⟨ps', e', hd⟩ := collect_simL (groupH_sim hf) 0 hl _ hps
        rw [e']
        refine ⟨_, rfl, conc_objOf (concF_iff.mpr ?_)⟩
        have hL : GroupsL (foldGroups ps []) (foldGroups ps' []) := foldGroups_groupsL hd .nil
        have hder : t.derived ≠ .enum := by cases t <;> simp_all [ATag.derived]
        exact hL.map fun a b hab => ⟨hab.1, conc_arr_of_ne hder hab.2⟩
  | obj kvs => simp only [groupBy] at hr; cases hr
  | null => simp only [groupBy] at hr; cases hr
  | bool _ => simp only [groupBy] at hr; cases hr
  | str _ => simp only [groupBy] at hr; cases hr
  | num _ => simp only [groupBy] at hr; cases hr
  | foreign _ => simp only [groupBy] at hr; cases hr

/-! ### `from_items` -/

/-- the member one `[key, value]` item contributes -/
def itemH (x : Val) : Res (List (Bytes × Val)) :=
  match x with
  | .arr t ia =>
    (match ia with
    | [k, v] =>
      if enum2 t ia then .nondet
      else (match k with
        | .str s => pure [(s, v)]
        | _ => errValue)
    | _ => errValue)
  | _ => errType

theorem collectO_const {β} (h : Val → Res (List β)) : ∀ (i : Nat) (xs : List Val),
    collectO (fun _ => h) i xs = collect h xs
  | _, [] => rfl
  | i, x :: xs => by simp only [collectO, collect, collectO_const h (i + 1) xs]

theorem fromItemsLoop_eq : ∀ (xs : List Val) (acc : List (Bytes × Val)),
    fromItemsLoop xs acc = (collect itemH xs >>= fun ps => pure (ps.foldl (fun a p => objInsert p.1 p.2 a) acc))
  | [], acc => rfl
  | x :: xs, acc => by
    cases x with
    | arr t ia =>
      match ia with
      | [] => rfl
      | [_] => rfl
      | _ :: _ :: _ :: _ => rfl
      | [k, v] =>
        simp only [fromItemsLoop, collect, itemH]
        cases enum2 t [k, v]
        · simp only [Bool.false_eq_true, if_false]
          cases k with
          | str s =>
            simp only [Res.pure_eq, Res.ok_bind]
            rw [fromItemsLoop_eq xs]
            cases collect itemH xs <;>
              simp only [Res.ok_bind, Res.err_bind, Res.panic_bind, Res.nondet_bind, Res.unmodelled_bind, Res.pure_eq]
            rfl
          | _ => rfl
        · rfl
    | _ => rfl

theorem itemH_sim : ∀ (_ : Nat) (x x' : Val), Conc x x' →
    SimG (All₂ (fun p p' : Bytes × Val => p.1 = p'.1 ∧ Conc p.2 p'.2)) (itemH x) (itemH x') := by
  intro _ x x' hx
  cases x with
  | arr t ia =>
    obtain ⟨t', ia', rfl, hne, hp, _, _⟩ := conc_arr hx
    match ia, hp, hx with
    | [], _, _ => exact SimG.err
    | [_], _, _ => exact SimG.err
    | _ :: _ :: _ :: _, _, _ => exact SimG.err
    | [k, v], hp, hx =>
      simp only [itemH]
      cases he : enum2 t [k, v] with
      | true => exact SimG.nondet
      | false =>
        obtain ⟨t'', ia'', e, _, hl, _⟩ := conc_arr_pos hx he
        cases e
        obtain ⟨k', v', hk, hv, rfl⟩ := concL_two hl
        simp only [Bool.false_eq_true, if_false, enum2_of_ne _ hne]
        cases k with
        | str s =>
          simp only [Conc] at hk; subst hk
          exact SimG.pure (.cons ⟨rfl, hv⟩ .nil)
        | _ => exact SimG.err
  | _ => exact SimG.err

/-- the keys `from_items` checks for duplicates are the keys of the collected members -/
theorem itemH_keys : ∀ {xs : List Val} {ps : List (Bytes × Val)}, collect itemH xs = .ok ps →
    xs.filterMap pairKey = ps.map Prod.fst
  | [], ps, h => by simp only [collect] at h; cases h; rfl
  | x :: xs, ps, h => by
    simp only [collect] at h
    obtain ⟨r, h1, h⟩ := bind_eq_ok' h
    obtain ⟨rest, h2, h⟩ := bind_eq_ok' h
    cases h
    have ih := itemH_keys h2
    cases x with
    | arr t ia =>
      match ia, h1 with
      | [], h1 => simp [itemH, errValue] at h1
      | [_], h1 => simp [itemH, errValue] at h1
      | _ :: _ :: _ :: _, h1 => simp [itemH, errValue] at h1
      | [k, v], h1 =>
        simp only [itemH] at h1
        split at h1
        · cases h1
        · cases k with
          | str s =>
            simp only [Res.pure_eq, Res.ok.injEq] at h1
            subst h1
            simp [pairKey, ih]
          | _ => simp [errValue] at h1
    | _ => simp [itemH, errType] at h1

theorem hasDupKeys_false_iff : ∀ (ks : List Bytes), hasDupKeys ks = false ↔ ks.Nodup
  | [] => by simp [hasDupKeys]
  | k :: ks => by
    simp only [hasDupKeys, Bool.or_eq_false_iff, List.nodup_cons, hasDupKeys_false_iff ks]
    simp

theorem concF_of_all₂ {ps ps' : List (Bytes × Val)}
    (h : All₂ (fun p p' : Bytes × Val => p.1 = p'.1 ∧ Conc p.2 p'.2) ps ps') : ConcF ps ps' := concF_iff.mpr h

theorem fromItems_simE {a a' : Val} (h : Conc a a') : SimE (fromItems a) (fromItems a') := by
  intro r hr
  cases a with
  | arr t xs =>
    obtain ⟨t', xs', rfl, hne, hp, _, _⟩ := conc_arr h
    simp only [fromItems, fromItemsLoop_eq] at hr ⊢
    cases hc : collect itemH xs with
    | ok ps =>
      rw [hc] at hr
      simp only [Res.ok_bind, Res.pure_eq] at hr
      -- the run's members: positional concretisation of a permutation of the model's
      have key : ∃ ps2 ps', ps2.Perm ps ∧ (enum2 t xs = false → ps2 = ps) ∧ ConcF ps2 ps' ∧
          collect itemH xs' = .ok ps' := by
        cases he : enum2 t xs with
        | false =>
          obtain ⟨t'', xs'', e, _, hl, _⟩ := conc_arr_pos h he
          cases e
          have := collect_simL (h' := fun _ => itemH) itemH_sim 0 hl ps hc
          obtain ⟨ps', e', hd⟩ := this
          refine ⟨ps, ps', List.Perm.refl _, fun _ => rfl, concF_of_all₂ hd, ?_⟩
          rw [← e']
          exact (collectO_const itemH 0 xs').symm
        | true =>
          obtain ⟨ys, hys, hl⟩ := concP_iff.mp hp
          obtain ⟨ps2, e2, p2⟩ := collect_perm hys hc
          obtain ⟨ps', e', hd⟩ := collect_simL (h' := fun _ => itemH) itemH_sim 0 hl ps2 e2
          refine ⟨ps2, ps', p2, fun h => Bool.noConfusion h, concF_of_all₂ hd, ?_⟩
          rw [← e']
          exact (collectO_const itemH 0 xs').symm
      obtain ⟨ps2, ps', p2, hid, hcf, e'⟩ := key
      rw [e']
      simp only [Res.ok_bind, Res.pure_eq, enum2_of_ne _ hne, Bool.false_and, Bool.false_eq_true, if_false]
      split at hr
      · cases hr
      · rename_i hcond
        cases hr
        refine ⟨_, rfl, conc_objOf ?_⟩
        have hfold : ps2.foldl (fun a p => objInsert p.1 p.2 a) [] = ps.foldl (fun a p => objInsert p.1 p.2 a) [] := by
          cases he : enum2 t xs with
          | false => rw [hid he]
          | true =>
            rw [he] at hcond
            simp only [Bool.true_and, Bool.not_eq_true] at hcond
            have hnd : (ps.map Prod.fst).Nodup := by
              rw [← itemH_keys hc]
              exact (hasDupKeys_false_iff _).mp hcond
            rw [foldInsert_perm hnd p2, foldInsert_perm hnd (List.Perm.refl _)]
        rw [← hfold]
        exact concF_foldInsert hcf concF_nil
    | err cs => rw [hc] at hr; simp only [Res.err_bind] at hr; split at hr <;> cases hr
    | panic w => rw [hc] at hr; cases hr
    | nondet => rw [hc] at hr; cases hr
    | unmodelled w => rw [hc] at hr; cases hr
  | obj kvs => simp only [fromItems] at hr; cases hr
  | null => simp only [fromItems] at hr; cases hr
  | bool _ => simp only [fromItems] at hr; cases hr
  | str _ => simp only [fromItems] at hr; cases hr
  | num _ => simp only [fromItems] at hr; cases hr
  | foreign _ => simp only [fromItems] at hr; cases hr

/-! ### the eager builtins, `from_items` included -/

/-- builtins covered by the oracle theorem: all except `sum`, `avg`, `max`, `min` -/
def Fn.coveredM : Fn → Bool
  | .avg | .sum | .max | .min => false
  | _ => true

theorem applyFn_simM (π : Oracle) (f : Fn) (hcov : Fn.coveredM f = true) {args args' : List Val}
    (h : ConcL args args') : SimE (applyFn f args) (applyFnO π f args') := by
  by_cases hf : f = .fromItems
  · subst hf
    match args, h with
    | [], _ => exact SimG.err
    | [a], h =>
      obtain ⟨a', ha, rfl⟩ := concL_one h
      exact fromItems_simE ha
    | _ :: _ :: _, _ => exact SimG.err
  · refine applyFn_simE π f ?_ h
    cases f <;> first | rfl | exact absurd rfl hf | exact Bool.noConfusion hcov

end Jmes
