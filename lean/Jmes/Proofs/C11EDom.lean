/-
  C11 (fourth wave), part 1: renaming by a PARTIAL order-preserving injection.

  `C11C.evaluate_rename` asks for a renaming `f` that is strictly monotone on ALL of `Nat` (`Mono f`), which forces
  `c ≤ f c`.  Here the renaming `g` only has to be strictly monotone on the finite set `D` of code points that occur in
  the expression and the data (`MonoOn D g`), and to send them to scalar values (`ScalarOn D g`); outside `D` it is
  arbitrary.  So `g` may move characters down (Greek → Latin), or some up and some down.

  Proof: factor through a common base alphabet.  Let `S = sortedDom D = [d₀ < d₁ < … < d_{k-1}]`.  The compression
  `dn S : dᵢ ↦ i` sends the inputs to inputs over `{0, …, k-1}`; `up S id : i ↦ dᵢ` and `up S g : i ↦ g dᵢ`, continued by
  `i ↦ 0x110000 + i` beyond `k`, ARE strictly monotone on `Nat`.  `C11C.evaluate_rename` for `up S id` relates the
  compressed run to the original run, for `up S g` to the renamed run.  The values beyond `k` are not scalar, so a string
  that `up S id` can rename has all its code points below `k`: the invariant half of the C11C theorem
  (`evaluate_renamable`) says that the result of the compressed run is such a string, where `g ∘ up S id = up S g`.
  The base alphabet must consist of scalar values: `k ≤ 0xD800` (at most 55296 DISTINCT code points in the inputs).
-/
import Jmes.Proofs.C11EDomA
import Jmes.Properties.C11C
set_option linter.unusedSectionVars false
set_option linter.unusedSimpArgs false
namespace Jmes.C11E.Dom
open Jmes Jmes.Utf8 Jmes.C11 Jmes.C11S Jmes.C11R Jmes.C11V Jmes.Invar Jmes.C11C

/-! ## the vocabulary -/

/-- `g` is strictly monotone ON `D` (a finite partial renaming given as a total function and its domain) -/
def MonoOn (D : List Nat) (g : Nat → Nat) : Prop := ∀ a ∈ D, ∀ b ∈ D, a < b → g a < g b

/-- the code points of `D` are scalar values, and so are their images -/
def ScalarOn (D : List Nat) (g : Nat → Nat) : Prop := ∀ c ∈ D, isScalar c = true ∧ isScalar (g c) = true

/-- marker for "the code point is in `D`": a string can be renamed by `cpIn D` exactly when it is valid UTF-8 and all
    its code points are in `D` (`rnB_cpIn_iff`); so `RnV (cpIn D) v` says that every string and key of the value `v` is
    over `D`, and `RenOK (cpIn D) n` that the expression `n` is over `D` (and avoids the non-equivariant builtins) -/
def cpIn (D : List Nat) (c : Nat) : Nat := if D.contains c then 0 else 0x110000

theorem rnB_cpIn_iff {D : List Nat} {s : Bytes} :
    rnB (cpIn D) s = true ↔ validUTF8 s = true ∧ ∀ c ∈ decodeAll s, c ∈ D := by
  unfold rnB cpIn
  simp only [Bool.and_eq_true, List.all_eq_true]
  constructor
  · rintro ⟨h1, h2⟩
    refine ⟨h1, fun c hc => ?_⟩
    have := h2 c hc
    by_cases hD : D.contains c = true
    · simpa using hD
    · simp only [hD] at this; exact absurd this (by decide)
  · rintro ⟨h1, h2⟩
    refine ⟨h1, fun c hc => ?_⟩
    have : D.contains c = true := by simpa using h2 c hc
    simp only [this]; decide

/-- the elements of `D` below `B`, in increasing order without repetition -/
def sortedBelow (B : Nat) (D : List Nat) : List Nat := (List.range B).filter (fun c => D.contains c)

theorem mem_sortedBelow {B : Nat} {D : List Nat} {c : Nat} : c ∈ sortedBelow B D ↔ c < B ∧ c ∈ D := by
  unfold sortedBelow
  rw [List.mem_filter, List.mem_range, List.contains_iff_mem]

theorem sortedBelow_pairwise (B : Nat) (D : List Nat) : (sortedBelow B D).Pairwise (· < ·) := by
  unfold sortedBelow
  exact List.Pairwise.filter _ List.pairwise_lt_range

theorem le_foldl_max : ∀ (D : List Nat) (m c : Nat), (c ≤ m ∨ c ∈ D) → c ≤ D.foldl max m
  | [], m, c, h => by
    rcases h with h | h
    · exact h
    · cases h
  | d :: D, m, c, h => by
    rw [List.foldl_cons]
    apply le_foldl_max D (max m d) c
    rcases h with h | h
    · exact Or.inl (Nat.le_trans h (Nat.le_max_left _ _))
    · rcases List.mem_cons.1 h with rfl | h
      · exact Or.inl (Nat.le_max_right _ _)
      · exact Or.inr h

/-- the elements of `D`, in increasing order without repetition -/
def sortedDom (D : List Nat) : List Nat := sortedBelow (D.foldl max 0 + 1) D

theorem mem_sortedDom {D : List Nat} {c : Nat} : c ∈ sortedDom D ↔ c ∈ D := by
  unfold sortedDom; rw [mem_sortedBelow]
  constructor
  · exact fun h => h.2
  · exact fun h => ⟨Nat.lt_succ_of_le (le_foldl_max D 0 c (Or.inr h)), h⟩

theorem sortedDom_pairwise (D : List Nat) : (sortedDom D).Pairwise (· < ·) := sortedBelow_pairwise _ D

theorem sortedDom_length_le (D : List Nat) : (sortedDom D).length ≤ D.length := by
  have hn : (sortedDom D).Nodup := (sortedDom_pairwise D).imp (fun h => Nat.ne_of_lt h)
  exact List.Nodup.length_le_of_subset hn (fun c hc => mem_sortedDom.mp hc)

/-- position of a code point in `S` -/
def dn (S : List Nat) (c : Nat) : Nat := S.idxOf c

/-- `i ↦ g (S[i])`, continued strictly monotonically (and by non-scalar values) beyond the end of `S` -/
def up (S : List Nat) (g : Nat → Nat) (i : Nat) : Nat := if h : i < S.length then g S[i] else 0x110000 + i

theorem up_lt {S : List Nat} {g : Nat → Nat} {i : Nat} (h : i < S.length) : up S g i = g S[i] := by
  unfold up; rw [dif_pos h]

theorem up_ge {S : List Nat} {g : Nat → Nat} {i : Nat} (h : ¬ i < S.length) : up S g i = 0x110000 + i := by
  unfold up; rw [dif_neg h]

theorem up_dn {S : List Nat} (g : Nat → Nat) {c : Nat} (h : c ∈ S) : up S g (dn S c) = g c := by
  have hl : S.idxOf c < S.length := List.idxOf_lt_length_of_mem h
  unfold dn
  rw [up_lt hl, List.getElem_idxOf]

theorem dn_lt {S : List Nat} {c : Nat} (h : c ∈ S) : dn S c < S.length := List.idxOf_lt_length_of_mem h

theorem not_scalar_big (i : Nat) : isScalar (0x110000 + i) = false := by
  have : ¬ (isScalar (0x110000 + i) = true) := by
    rw [isScalar_iff]; omega
  simpa using this

theorem isScalar_lt {c : Nat} (h : isScalar c = true) : c < 0x110000 := by
  rw [isScalar_iff] at h; omega

/-- **the enumerations are strictly monotone on all of `Nat`** -/
theorem up_mono {S : List Nat} {g : Nat → Nat} (hS : S.Pairwise (· < ·))
    (hg : ∀ a ∈ S, ∀ b ∈ S, a < b → g a < g b) (hsc : ∀ c ∈ S, g c < 0x110000) : Mono (up S g) := by
  intro a b hab
  by_cases hb : b < S.length
  · have ha : a < S.length := Nat.lt_trans hab hb
    rw [up_lt ha, up_lt hb]
    exact hg _ (List.getElem_mem ha) _ (List.getElem_mem hb) (List.pairwise_iff_getElem.mp hS a b ha hb hab)
  · rw [up_ge hb]
    by_cases ha : a < S.length
    · rw [up_lt ha]
      have := hsc _ (List.getElem_mem ha)
      omega
    · rw [up_ge ha]; omega

/-! ## strings -/

section Strings
variable {D : List Nat} {g : Nat → Nat}

/-- the working form of "`s` is over `D`" -/
theorem over_cases {s : Bytes} (h : rnB (cpIn D) s = true) :
    ∃ cs, Scalars cs ∧ (∀ c ∈ cs, c ∈ D) ∧ s = encodeAll cs := by
  obtain ⟨h1, h2⟩ := rnB_cpIn_iff.mp h
  obtain ⟨hsc, e⟩ := Utf8.validUTF8_decode s h1
  exact ⟨decodeAll s, hsc, h2, e⟩

theorem over_enc {cs : List Nat} (h1 : Scalars cs) (h2 : ∀ c ∈ cs, c ∈ D) : rnB (cpIn D) (encodeAll cs) = true := by
  refine rnB_cpIn_iff.mpr ⟨Utf8.validUTF8_encodeAll cs h1, ?_⟩
  rw [Utf8.decodeAll_encodeAll cs h1]; exact h2

theorem mem_S {c : Nat} (_hs : ScalarOn D g) (h : c ∈ D) : c ∈ sortedDom D :=
  mem_sortedDom.mpr h

theorem dn_scalars (hs : ScalarOn D g) (hk : (sortedDom D).length ≤ 0xD800) {cs : List Nat} (h2 : ∀ c ∈ cs, c ∈ D) :
    Scalars (cs.map (dn (sortedDom D))) := by
  intro x hx
  obtain ⟨c, hc, rfl⟩ := List.mem_map.1 hx
  have := dn_lt (mem_S hs (h2 c hc))
  rw [isScalar_iff]; omega

theorem map_up_dn (hs : ScalarOn D g) (g' : Nat → Nat) {cs : List Nat} (h2 : ∀ c ∈ cs, c ∈ D) :
    (cs.map (dn (sortedDom D))).map (up (sortedDom D) g') = cs.map g' := by
  rw [List.map_map]
  apply List.map_congr_left
  intro c hc
  simp only [Function.comp]
  exact up_dn g' (mem_S hs (h2 c hc))

/-- the compressed string can be renamed by the compression … -/
theorem dn_rn (hs : ScalarOn D g) (hk : (sortedDom D).length ≤ 0xD800) {s : Bytes} (h : rnB (cpIn D) s = true) :
    rnB (dn (sortedDom D)) s = true := by
  obtain ⟨cs, h1, h2, rfl⟩ := over_cases h
  exact rnB_enc h1 (dn_scalars hs hk h2)

/-- … the compressed string can be renamed by an enumeration `up S g'` whose values on `D` are scalar, … -/
theorem up_rn (hs : ScalarOn D g) (hk : (sortedDom D).length ≤ 0xD800) (g' : Nat → Nat)
    (hg' : ∀ c ∈ D, isScalar (g' c) = true) {s : Bytes} (h : rnB (cpIn D) s = true) :
    rnB (up (sortedDom D) g') (renB (dn (sortedDom D)) s) = true := by
  obtain ⟨cs, h1, h2, rfl⟩ := over_cases h
  rw [renB_encodeAll _ cs h1]
  refine rnB_enc (dn_scalars hs hk h2) ?_
  rw [map_up_dn hs g' h2]
  intro x hx
  obtain ⟨c, hc, rfl⟩ := List.mem_map.1 hx
  exact hg' c (h2 c hc)

/-- … and that gives the string renamed by `g'` -/
theorem up_dn_renB (hs : ScalarOn D g) (hk : (sortedDom D).length ≤ 0xD800) (g' : Nat → Nat) {s : Bytes}
    (h : rnB (cpIn D) s = true) :
    renB (up (sortedDom D) g') (renB (dn (sortedDom D)) s) = renB g' s := by
  obtain ⟨cs, h1, h2, rfl⟩ := over_cases h
  rw [renB_encodeAll _ cs h1, renB_encodeAll _ _ (dn_scalars hs hk h2), map_up_dn hs g' h2, renB_encodeAll _ cs h1]

theorem renB_id_valid {φ : Nat → Nat} {s : Bytes} (h : rnB φ s = true) : renB (fun c => c) s = s := by
  obtain ⟨cs, h1, _, rfl, _⟩ := rn_cases h
  rw [renB_encodeAll _ cs h1, List.map_id']

/-- a string that the enumeration of `D` itself can rename has all its code points below `k` … -/
theorem lt_of_up_rn {s0 : Bytes} (h : rnB (up (sortedDom D) (fun c => c)) s0 = true) :
    ∃ cs0, Scalars cs0 ∧ Scalars (cs0.map (up (sortedDom D) (fun c => c))) ∧
      (∀ i ∈ cs0, i < (sortedDom D).length) ∧ s0 = encodeAll cs0 ∧
      renB (up (sortedDom D) (fun c => c)) s0 = encodeAll (cs0.map (up (sortedDom D) (fun c => c))) := by
  obtain ⟨cs0, h1, h2, rfl, e⟩ := rn_cases h
  refine ⟨cs0, h1, h2, fun i hi => ?_, rfl, e⟩
  apply Classical.byContradiction
  intro hlt
  have := h2 _ (List.mem_map.2 ⟨i, hi, rfl⟩)
  rw [up_ge hlt, not_scalar_big] at this
  cases this

/-- … where renaming by `up S id` and then by `g` is renaming by `up S g` -/
theorem g_up_renB (g' : Nat → Nat) {s0 : Bytes} (h : rnB (up (sortedDom D) (fun c => c)) s0 = true) :
    renB g' (renB (up (sortedDom D) (fun c => c)) s0) = renB (up (sortedDom D) g') s0 := by
  obtain ⟨cs0, h1, h3, h2, rfl, e⟩ := lt_of_up_rn h
  rw [e, renB_encodeAll _ _ h3, renB_encodeAll _ cs0 h1, List.map_map]
  congr 1
  apply List.map_congr_left
  intro i hi
  simp only [Function.comp]
  rw [up_lt (h2 i hi), up_lt (h2 i hi)]

/-- the result of the original run is over `D` again -/
theorem up_over {s0 : Bytes} (h : rnB (up (sortedDom D) (fun c => c)) s0 = true) :
    rnB (cpIn D) (renB (up (sortedDom D) (fun c => c)) s0) = true := by
  obtain ⟨cs0, h1, h3, h2, rfl, e⟩ := lt_of_up_rn h
  rw [e]
  refine over_enc h3 ?_
  intro x hx
  obtain ⟨i, hi, rfl⟩ := List.mem_map.1 hx
  rw [up_lt (h2 i hi)]
  exact mem_sortedDom.mp (List.getElem_mem (h2 i hi))

end Strings

/-! ## the theorem -/

section Main
variable {D : List Nat} {g : Nat → Nat}

theorem up_id_mono (hs : ScalarOn D g) : Mono (up (sortedDom D) (fun c => c)) :=
  up_mono (sortedDom_pairwise D) (fun _ _ _ _ h => h)
    (fun c hc => isScalar_lt (hs c (mem_sortedDom.mp hc)).1)

theorem up_g_mono (hm : MonoOn D g) (hs : ScalarOn D g) : Mono (up (sortedDom D) g) :=
  up_mono (sortedDom_pairwise D)
    (fun a ha b hb h => hm a (mem_sortedDom.mp ha) b (mem_sortedDom.mp hb) h)
    (fun c hc => isScalar_lt (hs c (mem_sortedDom.mp hc)).2)

/-- **C11, renaming by a partial order-preserving injection (`Expression.Search`).**  `g` is strictly monotone on the
    set `D` of code points (`MonoOn D g`), `D` and `g D` consist of scalar values (`ScalarOn D g`), `D` has at most
    0xD800 = 55296 distinct elements; the data `d` and the expression `n` are over `D` (`RnV (cpIn D) d`: every string
    and key is valid UTF-8 with code points in `D`; `RenOK (cpIn D) n`: the same for literals, field names and
    multi-select keys, and `n` avoids the non-equivariant builtins).  Then the renamed expression on the renamed data
    gives the renamed outcome.  Outside `D` the function `g` is arbitrary: it may decrease (Greek → Latin), or move some
    characters up and others down. -/
theorem evaluate_rename_on (hm : MonoOn D g) (hs : ScalarOn D g) (hk : (sortedDom D).length ≤ 0xD800)
    {n : INode} {d : Val} (hd : RnV (cpIn D) d = true) (hn : RenOK (cpIn D) n = true) :
    evaluate (renN g n) (renV g d) = mapRes (renV g) (evaluate n d) ∧
    ∀ v, evaluate n d = .ok v → RnV (cpIn D) v = true := by
  -- the compressed inputs
  have hns := strs_of_renOK hn
  have hid : ∀ c ∈ D, isScalar ((fun c => c) c) = true := fun c hc => (hs c hc).1
  have hgs : ∀ c ∈ D, isScalar (g c) = true := fun c hc => (hs c hc).2
  have ok1 : RenOK (up (sortedDom D) (fun c => c)) (renN (dn (sortedDom D)) n) = true :=
    renOK_ren (fun s h => up_rn hs hk _ hid h) n hn
  have ok2 : RenOK (up (sortedDom D) g) (renN (dn (sortedDom D)) n) = true :=
    renOK_ren (fun s h => up_rn hs hk _ hgs h) n hn
  have d1 : RnV (up (sortedDom D) (fun c => c)) (renV (dn (sortedDom D)) d) = true :=
    rnV_ren (fun s h => up_rn hs hk _ hid h) d hd
  have d2 : RnV (up (sortedDom D) g) (renV (dn (sortedDom D)) d) = true :=
    rnV_ren (fun s h => up_rn hs hk _ hgs h) d hd
  have en1 : renN (up (sortedDom D) (fun c => c)) (renN (dn (sortedDom D)) n) = n :=
    (renN_comp (fun s h => up_dn_renB hs hk _ h) n hns).trans (renN_fix (fun s h => renB_id_valid h) n hns)
  have ed1 : renV (up (sortedDom D) (fun c => c)) (renV (dn (sortedDom D)) d) = d :=
    (renV_comp (fun s h => up_dn_renB hs hk _ h) d hd).trans (renV_fix (fun s h => renB_id_valid h) d hd)
  have en2 : renN (up (sortedDom D) g) (renN (dn (sortedDom D)) n) = renN g n :=
    renN_comp (fun s h => up_dn_renB hs hk _ h) n hns
  have ed2 : renV (up (sortedDom D) g) (renV (dn (sortedDom D)) d) = renV g d :=
    renV_comp (fun s h => up_dn_renB hs hk _ h) d hd
  have E1 := C11C.evaluate_rename (up_id_mono hs) d1 ok1
  have E2 := C11C.evaluate_rename (up_g_mono hm hs) d2 ok2
  have I1 := fun v => C11C.evaluate_renamable (v := v) (up_id_mono hs) d1 ok1
  rw [en1, ed1] at E1
  rw [en2, ed2] at E2
  rw [E2, E1]
  cases hr : evaluate (renN (dn (sortedDom D)) n) (renV (dn (sortedDom D)) d) with
  | ok v0 =>
    have hv0 := I1 v0 hr
    refine ⟨?_, ?_⟩
    · simp only [mapRes]
      rw [renV_comp (fun s h => g_up_renB g h) v0 hv0]
    · intro v hv
      simp only [mapRes] at hv
      cases hv
      exact rnV_ren (fun s h => up_over h) v0 hv0
  | err c => exact ⟨rfl, fun v hv => by simp only [mapRes] at hv; cases hv⟩
  | panic w => exact ⟨rfl, fun v hv => by simp only [mapRes] at hv; cases hv⟩
  | nondet => exact ⟨rfl, fun v hv => by simp only [mapRes] at hv; cases hv⟩
  | unmodelled w => exact ⟨rfl, fun v hv => by simp only [mapRes] at hv; cases hv⟩

end Main

end Jmes.C11E.Dom
