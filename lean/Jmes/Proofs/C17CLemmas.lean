/-
  Helper lemmas for `Properties/C17C.lean` (third wave of C17).

    Part 1  value level: a projection's output holds no null; the loop of a projection depends on its right-hand side
            only on the elements it visits; `sem_comp'` — the fused loop over "f1 then f2" against the loop over f1
            piped into `[*]` over ANY f2' that coincides with f2 on non-null values (f2 null-strict).
    Part 2  `AgreeS`: `Agree` without panics.
    Part 3  `Follower`: everything the grammar allows to continue a right-hand side (`.R`, `[n]`, `[*]σ`, `.*σ`,
            `[?c]σ`, `[a:b:c]σ`, `.[e,…]`, `.{k: e,…}`, `.[*]`), uniformly: the extended right-hand side `F.ext ρ`,
            its printing, its well-formedness, its node and what it computes (`F.fn`).
-/
import Jmes.Properties.C17B
import Jmes.Proofs.NoPanic
namespace Jmes.C17C
open Jmes Jmes.Parser Jmes.Pratt Jmes.Grammar Jmes.C17 Jmes.C17B
set_option linter.unusedSimpArgs false

/-! ## Part 1: value level -/

/-- the loop of a projection drops the null results -/
theorem mapPrune_nonnull (f : Val → Res Val) : ∀ {xs ys : List Val}, mapPrune f xs = .ok ys → ∀ y ∈ ys, y.isNull = false
  | [], ys, h => by
    simp only [mapPrune, Res.ok.injEq] at h; subst h; intro y hy; cases hy
  | x :: xs, ys, h => by
    simp only [mapPrune, Res.pure_eq] at h
    cases h1 : f x with
    | ok p =>
      rw [h1] at h
      simp only [Res.ok_bind] at h
      cases h2 : mapPrune f xs with
      | ok rest =>
        rw [h2] at h
        simp only [Res.ok_bind, Res.ok.injEq] at h
        have ih := mapPrune_nonnull f h2
        cases hp : p.isNull
        · rw [hp] at h; simp only [Bool.false_eq_true, if_false] at h; subst h
          intro y hy
          rcases List.mem_cons.mp hy with rfl | hy
          · exact hp
          · exact ih y hy
        · rw [hp] at h; simp only [if_true] at h; subst h; exact ih
      | _ => rw [h2] at h; cases h
    | _ => rw [h1] at h; cases h

example : mapPrune (fun v => Res.ok (field [97] v)) [.obj [([97], .bool true)], .null] = .ok [.bool true] := rfl

/-- … and so does the loop of a filter projection -/
theorem filterMapPrune_nonnull (c f : Val → Res Val) :
    ∀ {xs ys : List Val}, filterMapPrune c f xs = .ok ys → ∀ y ∈ ys, y.isNull = false
  | [], ys, h => by
    simp only [filterMapPrune, Res.ok.injEq] at h; subst h; intro y hy; cases hy
  | x :: xs, ys, h => by
    simp only [filterMapPrune, Res.pure_eq] at h
    cases hc : c x with
    | ok b =>
      rw [hc] at h
      simp only [Res.ok_bind] at h
      cases hb : isTrue b
      · rw [hb] at h; simp only [Bool.false_eq_true, if_false] at h
        exact filterMapPrune_nonnull c f h
      · rw [hb] at h; simp only [if_true] at h
        cases h1 : f x with
        | ok p =>
          rw [h1] at h
          simp only [Res.ok_bind] at h
          cases h2 : filterMapPrune c f xs with
          | ok rest =>
            rw [h2] at h
            simp only [Res.ok_bind, Res.ok.injEq] at h
            have ih := filterMapPrune_nonnull c f h2
            cases hp : p.isNull
            · rw [hp] at h; simp only [Bool.false_eq_true, if_false] at h; subst h
              intro y hy
              rcases List.mem_cons.mp hy with rfl | hy
              · exact hp
              · exact ih y hy
            · rw [hp] at h; simp only [if_true] at h; subst h; exact ih
          | _ => rw [h2] at h; cases h
        | _ => rw [h1] at h; cases h
    | _ => rw [hc] at h; cases h

example : filterMapPrune (fun v => Res.ok v) (fun v => Res.ok (field [97] v)) [.obj [([97], .null)], .bool true]
    = .ok [] := rfl

/-- the loop consults its function on the elements only -/
theorem mapPrune_congr {f g : Val → Res Val} : ∀ {xs : List Val}, (∀ x ∈ xs, f x = g x) → mapPrune f xs = mapPrune g xs
  | [], _ => rfl
  | x :: xs, h => by
    simp only [mapPrune, h x List.mem_cons_self,
      mapPrune_congr (xs := xs) (fun y hy => h y (List.mem_cons_of_mem _ hy))]

theorem any_congr_mem {α} {p q : α → Bool} : ∀ {l : List α}, (∀ x ∈ l, p x = q x) → l.any p = l.any q
  | [], _ => rfl
  | x :: l, h => by
    simp only [List.any_cons, h x List.mem_cons_self, any_congr_mem (l := l) (fun y hy => h y (List.mem_cons_of_mem _ hy))]

theorem flatMap_congr_mem {α β} {p q : α → List β} : ∀ {l : List α}, (∀ x ∈ l, p x = q x) → l.flatMap p = l.flatMap q
  | [], _ => rfl
  | x :: l, h => by
    simp only [List.flatMap_cons, h x List.mem_cons_self,
      flatMap_congr_mem (l := l) (fun y hy => h y (List.mem_cons_of_mem _ hy))]

theorem any1_congr {f g : Val → Res Val} {xs : List Val} (h : ∀ x ∈ xs, f x = g x) (F : (Val → Res Val) → Val → Bool)
    (hF : ∀ x, f x = g x → F f x = F g x) :
    xs.any (fun x => [f].any (fun f => F f x)) = xs.any (fun x => [g].any (fun f => F f x)) :=
  any_congr_mem fun x hx => by simp only [List.any_cons, List.any_nil, Bool.or_false, hF x (h x hx)]

theorem flatMap1_congr {β} {f g : Val → Res Val} {xs : List Val} (h : ∀ x ∈ xs, f x = g x)
    (F : (Val → Res Val) → Val → List β) (hF : ∀ x, f x = g x → F f x = F g x) :
    xs.flatMap (fun x => [f].flatMap (fun f => F f x)) = xs.flatMap (fun x => [g].flatMap (fun f => F f x)) :=
  flatMap_congr_mem fun x hx => by simp only [List.flatMap_cons, List.flatMap_nil, List.append_nil, hF x (h x hx)]

/-- the error widening of a map-ordered loop consults its function on the elements only -/
theorem widen_congr1 {α} {f g : Val → Res Val} (t : ATag) {xs : List Val} (h : ∀ x ∈ xs, f x = g x) (extra : List Cat)
    (r : Res α) : widen t xs [f] extra r = widen t xs [g] extra r := by
  cases r with
  | err cs =>
    simp only [widen]
    rw [any1_congr h _ (fun x hx => by simp only [hx]), flatMap1_congr h _ (fun x hx => by simp only [hx])]
  | _ => rfl

example : widen .enum [.null, .null] [fun _ => Res.err [Cat.invalidType]] [] (Res.err [Cat.syntax] : Res Val)
    = .err [Cat.syntax, Cat.invalidType] := rfl

/-- projecting consults the right-hand side on the elements only -/
theorem projectArray_congr {f g : Val → Res Val} {v : Val} (h : ∀ t xs, v = .arr t xs → ∀ x ∈ xs, f x = g x) :
    projectArray f v = projectArray g v := by
  cases v with
  | arr t xs =>
    have h' := h t xs rfl
    simp only [projectArray, mapPrune_congr h', widen_congr1 t h']
  | _ => rfl

/-- an array without null elements, or not an array at all -/
def NullFree (b : Val) : Prop := ∀ t ys, b = .arr t ys → ∀ y ∈ ys, y.isNull = false

example : NullFree (.arr .plain [.bool true]) := by
  intro t ys h y hy
  cases h
  simp only [List.mem_singleton] at hy
  subst hy; rfl
example : ¬ NullFree (.arr .plain [.null]) := fun h => by
  have := h _ _ rfl .null (List.mem_singleton.mpr rfl)
  cases this

theorem nullFree_of_not_arr {b : Val} (h : ∀ t ys, b ≠ .arr t ys) : NullFree b := fun t ys hb => absurd hb (h t ys)

theorem widen_ok_inv {α} {t : ATag} {xs : List Val} {fs : List (Val → Res Val)} {extra : List Cat} {r : Res α} {a : α}
    (h : widen t xs fs extra r = .ok a) : r = .ok a := by
  cases r with
  | ok b => exact h
  | err cs => simp only [widen] at h; split at h <;> (try split at h) <;> cases h
  | _ => cases h

/-- **the value of a projection holds no null** (all five openers; for a slice unless it is a string) -/
theorem sem_nullFree (o : Opener) (root : Val) (env : Env) (f : Val → Res Val) {v b : Val}
    (h : o.sem root env f v = .ok b) (hs : o.noStr v) : NullFree b := by
  have hpa : ∀ {v b : Val}, projectArray f v = .ok b → NullFree b := by
    intro v b h
    cases v with
    | arr t xs =>
      simp only [projectArray, Res.pure_eq] at h
      obtain ⟨r, hr, hb⟩ := C17.bind_eq_ok (widen_ok_inv h)
      simp only [Res.ok.injEq] at hb; subst hb
      intro t' ys he y hy
      cases he
      exact mapPrune_nonnull f hr y hy
    | _ =>
      simp only [projectArray, Res.ok.injEq] at h; subst h
      exact nullFree_of_not_arr (fun _ _ he => by cases he)
  cases o with
  | star => exact hpa h
  | ostar =>
    cases v with
    | obj kvs =>
      simp only [Opener.sem, projectObject, Res.pure_eq] at h
      obtain ⟨r, hr, hb⟩ := C17.bind_eq_ok (widen_ok_inv h)
      simp only [Res.ok.injEq] at hb; subst hb
      intro t' ys he y hy
      cases he
      exact mapPrune_nonnull f hr y hy
    | _ =>
      simp only [Opener.sem, projectObject, Res.ok.injEq] at h; subst h
      exact nullFree_of_not_arr (fun _ _ he => by cases he)
  | flat =>
    cases v with
    | arr t xs =>
      simp only [Opener.sem, flattenAndProjectArray, Res.pure_eq] at h
      obtain ⟨r, hr, hb⟩ := C17.bind_eq_ok (widen_ok_inv h)
      simp only [Res.ok.injEq] at hb; subst hb
      intro t' ys he y hy
      cases he
      exact mapPrune_nonnull f hr y hy
    | _ =>
      simp only [Opener.sem, flattenAndProjectArray, Res.ok.injEq] at h; subst h
      exact nullFree_of_not_arr (fun _ _ he => by cases he)
  | filt c =>
    cases v with
    | arr t xs =>
      simp only [Opener.sem, filterAndProjectArray, Res.pure_eq] at h
      obtain ⟨r, hr, hb⟩ := C17.bind_eq_ok (widen_ok_inv h)
      simp only [Res.ok.injEq] at hb; subst hb
      intro t' ys he y hy
      cases he
      exact filterMapPrune_nonnull _ f hr y hy
    | _ =>
      simp only [Opener.sem, filterAndProjectArray, Res.ok.injEq] at h; subst h
      exact nullFree_of_not_arr (fun _ _ he => by cases he)
  | slice a b' c =>
    simp only [Opener.sem] at h
    obtain ⟨s, hsv, hb⟩ := C17.bind_eq_ok h
    cases s with
    | str s' => exact absurd hsv (hs s')
    | arr t xs => exact hpa hb
    | null => exact hpa hb
    | bool _ => exact hpa hb
    | num _ => exact hpa hb
    | obj _ => exact hpa hb
    | foreign _ => exact hpa hb

example : NullFree (.arr .plain [.bool true]) :=
  sem_nullFree .star .null [] (fun v => .ok (field [97] v)) (v := .arr .plain [.obj [([97], .bool true)], .null]) rfl
    trivial

/-- **`sem_comp'`**, all five openers: the fused loop over "f1 then f2" agrees with the loop over f1 piped into `[*]`
    over any `f2'` that coincides with `f2` on the non-null values, when `f2` maps null to null.  (`f2'` itself need
    not: the piped `[*]` never sees a null.) -/
theorem sem_comp' (o : Opener) (root : Val) (env : Env) (f1 f2 f2' : Val → Res Val) (h0 : f2 .null = Res.ok .null)
    (hag : ∀ y, y.isNull = false → f2' y = f2 y) (v : Val) (hs : o.noStr v) :
    Agree (o.sem root env (fun x => f1 x >>= f2) v) (o.sem root env f1 v >>= projectArray f2') := by
  have h := sem_comp o root env f1 f2 h0 v hs
  cases hb : o.sem root env f1 v with
  | ok b =>
    rw [hb] at h
    simp only [Res.ok_bind] at h ⊢
    have hnf := sem_nullFree o root env f1 hb hs
    rw [projectArray_congr (f := f2') (g := f2) (fun t xs he x hx => hag x (hnf t xs he x hx))]
    exact h
  | _ => rw [hb] at h; exact h

/-- `[*].a.[b]` on `[{"a": null}, {"a": {"b": 1}}]`: fused, the one-member select (null-strict after a left operand)
    yields null on the first element; piped, `.[b]` without left operand is NOT null-strict but never sees the null -/
example :
    Opener.star.sem .null [] (fun x => (Res.ok (field [97] x) : Res Val) >>= fun y =>
        ieval .null (.selectArraySingle .current (.field [98])) y [])
      (.arr .plain [.obj [([97], .null)], .obj [([97], .obj [([98], .bool true)])]]) = .ok (.arr .plain [.arr .plain [.bool true]]) ∧
    (Opener.star.sem .null [] (fun x => Res.ok (field [97] x))
      (.arr .plain [.obj [([97], .null)], .obj [([97], .obj [([98], .bool true)])]]) >>=
      projectArray (fun y => ieval .null (.selectArraySingleCurrent (.field [98])) y []))
      = .ok (.arr .plain [.arr .plain [.bool true]]) := ⟨rfl, rfl⟩

/-! ## Part 2: `AgreeS` — agreement without panics -/

/-- two outcomes agree **strongly**: the same value, or both fail — and neither is a panic, and an error outcome names
    at least one category (`Safe`).  So a panic on one side never "agrees" with an error on the other. -/
def AgreeS {α} (x y : Res α) : Prop := Agree x y ∧ Safe x ∧ Safe y

/-- a failure the model accounts for: an error (with its categories), an outcome that depends on Go's map order, or
    an operation the model declines -/
def Failed {α} (r : Res α) : Prop := (∃ cs, cs ≠ [] ∧ r = .err cs) ∨ r = .nondet ∨ ∃ w, r = .unmodelled w

theorem failed_of_safe {α} {r : Res α} (hs : Safe r) (hk : isOk r = false) : Failed r := by
  cases r with
  | ok a => cases hk
  | err cs => exact Or.inl ⟨cs, hs, rfl⟩
  | panic w => exact hs.elim
  | nondet => exact Or.inr (Or.inl rfl)
  | unmodelled w => exact Or.inr (Or.inr ⟨w, rfl⟩)

/-- what `AgreeS` says, spelt out: the same value, or a modelled failure on both sides -/
theorem AgreeS.cases {α} {x y : Res α} (h : AgreeS x y) : (∃ b, x = .ok b ∧ y = .ok b) ∨ (Failed x ∧ Failed y) := by
  obtain ⟨ha, hx, hy⟩ := h
  rcases ha with hb | ⟨h1, h2⟩
  · exact Or.inl hb
  · exact Or.inr ⟨failed_of_safe hx h1, failed_of_safe hy h2⟩

/-- when the model settles both outcomes (a value or an error — no dependence on map order, nothing declined) they
    are the same value or both errors -/
theorem AgreeS.settled {α} {x y : Res α} (h : AgreeS x y)
    (hx : (∃ a, x = .ok a) ∨ ∃ cs, x = .err cs) (hy : (∃ a, y = .ok a) ∨ ∃ cs, y = .err cs) :
    (∃ b, x = .ok b ∧ y = .ok b) ∨ (∃ c1 c2, c1 ≠ [] ∧ c2 ≠ [] ∧ x = .err c1 ∧ y = .err c2) := by
  rcases h.cases with hb | ⟨f1, f2⟩
  · exact Or.inl hb
  · right
    rcases hx with ⟨a, rfl⟩ | ⟨c1, rfl⟩
    · rcases f1 with ⟨_, _, h⟩ | h | ⟨_, h⟩ <;> cases h
    · rcases hy with ⟨a, rfl⟩ | ⟨c2, rfl⟩
      · rcases f2 with ⟨_, _, h⟩ | h | ⟨_, h⟩ <;> cases h
      · refine ⟨c1, c2, ?_, ?_, rfl, rfl⟩
        · exact h.2.1
        · exact h.2.2

theorem AgreeS.refl_of_safe {α} {x : Res α} (h : Safe x) : AgreeS x x := ⟨Agree.refl x, h, h⟩

/-- a panic agrees (weakly) with an error, but not strongly -/
example : Agree (Res.panic "p" : Res Val) (Res.err [Cat.syntax]) ∧ ¬ AgreeS (Res.panic "p" : Res Val) (Res.err [Cat.syntax]) :=
  ⟨Or.inr ⟨rfl, rfl⟩, fun h => h.2.1⟩
example : AgreeS (Res.err [Cat.invalidType] : Res Val) (Res.err [Cat.undefinedVariable]) :=
  ⟨Or.inr ⟨rfl, rfl⟩, by simp [Sat], by simp [Sat]⟩

/-- every evaluation is `Safe` -/
theorem search_safe {e : Bytes} {n : INode} (h : Parser.parse e = .ok n) (d : Val) : Safe (search e d) := by
  rw [C17B.search_of_parse h]; exact evaluate_sat n d

/-- **searches that agree, agree strongly**: the evaluator never panics and never reports an empty error -/
theorem agreeS_search {e1 e2 : Bytes} {n1 n2 : INode} (h1 : Parser.parse e1 = .ok n1) (h2 : Parser.parse e2 = .ok n2)
    {d : Val} (h : Agree (search e1 d) (search e2 d)) : AgreeS (search e1 d) (search e2 d) :=
  ⟨h, search_safe h1 d, search_safe h2 d⟩

/-- … and so do node evaluations -/
theorem agreeS_ieval {root : Val} {n1 n2 : INode} {c1 c2 : Val} {env1 env2 : Env}
    (h : Agree (ieval root n1 c1 env1) (ieval root n2 c2 env2)) : AgreeS (ieval root n1 c1 env1) (ieval root n2 c2 env2) :=
  ⟨h, ieval_sat root n1 c1 env1, ieval_sat root n2 c2 env2⟩

example : AgreeS (ieval .null (.field [97]) .null []) (ieval .null (.field [98]) .null []) :=
  agreeS_ieval (Or.inl ⟨.null, rfl, rfl⟩)


/-! ## Part 3: what may continue a right-hand side -/

/-- the explicit current node `@`, as a tree (a left operand that is not the implicit one) -/
def atCur : PTree := .atom ⟨.current, [0x40]⟩
theorem erase_atCur : erase atCur = .current := rfl
theorem atCur_not_icur : atCur.isIcur = false := rfl

/-- **everything the grammar allows after a right-hand side `ρ`** that binds tighter than the projection and so is
    absorbed by it: `.R`, `[n]`, a nested projection `[*]σ`, `.*σ`, `[?c]σ`, `[a:b:c]σ` (with its own optional
    right-hand side `σ`), `.[e, …]`, `.{k: e, …}`, `.[*]`.  (`[]` is not one of them: it closes the projection.) -/
inductive Follower where
  | sel (R : PTree)
  | index (n : Token)
  | proj (o : Opener) (σ : PTree)
  | dotList (es : List PTree)
  | dotHash (kvs : List (Token × PTree))
  | dotStarList

/-- no right-hand side (`icur`), or a right-hand side -/
def RhsOpt (σ : PTree) : Prop := σ.isIcur = true ∨ Rhs σ

namespace Follower

/-- the follower applied to the left operand `ρ` -/
def ext : Follower → PTree → PTree
  | .sel R, ρ => .dotId ρ R
  | .index n, ρ => .index ρ n
  | .proj o σ, ρ => o.mk ρ σ
  | .dotList es, ρ => .dotList ρ es
  | .dotHash kvs, ρ => .dotHash ρ kvs
  | .dotStarList, ρ => .dotStarList ρ

/-- its binding power -/
def lvl : Follower → Nat
  | .sel _ => lvlDot
  | .index _ => lvlBracket
  | .proj o _ => o.lvl
  | .dotList _ => lvlDot
  | .dotHash _ => lvlDot
  | .dotStarList => lvlDot

/-- the side conditions on the follower's own parts -/
def ok : Follower → Prop
  | .sel R => Sel R
  | .index n => isIntTok n = true
  | .proj o σ => lvlProj < o.lvl ∧ o.ok ∧ RhsOpt σ
  | .dotList es => es ≠ [] ∧ wpL es = true
  | .dotHash kvs => kvs ≠ [] ∧ wpKVs keyOK kvs = true
  | .dotStarList => True

/-- its tokens: the printing of the follower on the implicit current node, in right-hand-side position -/
def toks (F : Follower) : List Token := flat true (F.ext .icur)

/-- what the follower computes from the value of its left operand: its node on the explicit current node -/
def fn (F : Follower) (root : Val) (env : Env) (y : Val) : Res Val := ieval root (erase (F.ext atCur)) y env

/-- the follower maps null to null.  True of every follower but `.R` (`nullOK_of_not_sel`), where it is a condition
    on `R`. -/
def NullOK (F : Follower) (root : Val) (env : Env) : Prop := F.fn root env .null = .ok .null

end Follower

theorem Opener.flat_mk_icur (o : Opener) (σ : PTree) : flat true (o.mk .icur σ) = o.toks ++ flat true σ := by
  cases o <;> simp only [Opener.mk, Grammar.flat, Opener.toks, PTree.isIcur, if_true, List.nil_append, List.cons_append,
    List.append_assoc, Grammar.flatten]

namespace Follower

/-- the printing (in either position): the left operand, then the follower -/
theorem flat_ext (F : Follower) (b : Bool) {ρ : PTree} (hi : ρ.isIcur = false) : flat b (F.ext ρ) = flat b ρ ++ F.toks := by
  cases F with
  | proj o σ =>
    show flat b (o.mk ρ σ) = flat b ρ ++ flat true (o.mk .icur σ)
    rw [Opener.flat_mk o b hi, Opener.flat_mk_icur, List.append_assoc]
  | _ => simp only [ext, toks, Grammar.flat, List.nil_append, List.append_assoc, List.cons_append]

theorem ext_not_icur (F : Follower) (ρ : PTree) : (F.ext ρ).isIcur = false := by
  cases F with
  | proj o σ => exact Opener.mk_not_icur o ρ σ
  | _ => rfl

/-- the left level of the extended tree -/
theorem llevel_ext (F : Follower) {ρ : PTree} (hi : ρ.isIcur = false) : llevel (F.ext ρ) = min F.lvl (llevel ρ) := by
  cases F with
  | proj o σ => exact Opener.llevel_mk o hi σ
  | _ => simp only [ext, llevel, GrammarF0.lmin_of_ne hi, lvl]

theorem llevel_ext0 (F : Follower) : llevel (F.ext .icur) = top := by
  cases F with
  | proj o σ => cases o <;> rfl
  | _ => rfl

theorem lvl_gt (F : Follower) (h : F.ok) : lvlProj < F.lvl := by
  cases F with
  | proj o σ => exact h.1
  | _ => simp only [lvl]; decide

private theorem isEmpty_false {α} {l : List α} (h : l ≠ []) : l.isEmpty = false := by
  cases l with
  | nil => exact absurd rfl h
  | cons _ _ => rfl

/-- `ρF` is well formed (in either position) when `ρ` is and nothing open at the right edge of `ρ` binds looser
    than `F` -/
theorem wp_ext (F : Follower) {b : Bool} {ρ : PTree} (hw : Grammar.wp b ρ = true) (hr : F.lvl ≤ rlevel ρ) (hF : F.ok) :
    Grammar.wp b (F.ext ρ) = true := by
  have hi := C17B.not_icur hw
  cases F with
  | sel R =>
    have hR : Sel R := hF
    have h1 : Grammar.wp false R = true := hR.wp
    simp only [ext, Grammar.wp, hi, Bool.false_eq_true, if_false, hw, h1, hR.ident, Bool.and_true, Bool.true_and,
      decide_eq_true_eq, Bool.and_eq_true]
    exact ⟨hr, hR.lvl⟩
  | index n =>
    simp only [ext, Grammar.wp, hi, Bool.false_eq_true, if_false, hw, Bool.true_and, Bool.and_eq_true, decide_eq_true_eq]
    exact ⟨hr, hF⟩
  | proj o σ =>
    rcases hF.2.2 with hσ | hσ
    · rw [GrammarF0.isIcur_eq hσ]; exact Opener.wp_mk0 hw hr hF.2.1
    · exact Opener.wp_mk hw hr hF.2.1 hσ
  | dotList es =>
    simp only [ext, Grammar.wp, hi, Bool.false_eq_true, if_false, hw, Bool.true_and, isEmpty_false hF.1, hF.2,
      Bool.not_false, Bool.and_true, decide_eq_true_eq]
    exact hr
  | dotHash kvs =>
    simp only [ext, Grammar.wp, hi, Bool.false_eq_true, if_false, hw, Bool.true_and, isEmpty_false hF.1, hF.2,
      Bool.not_false, Bool.and_true, decide_eq_true_eq]
    exact hr
  | dotStarList =>
    simp only [ext, Grammar.wp, hi, Bool.false_eq_true, if_false, hw, Bool.true_and, decide_eq_true_eq]
    exact hr

/-- **`ρF` is a right-hand side** when `ρ` is one and nothing open at the right edge of `ρ` binds looser than `F` -/
theorem rhs_ext (F : Follower) {ρ : PTree} (hρ : Rhs ρ) (hr : F.lvl ≤ rlevel ρ) (hF : F.ok) : Rhs (F.ext ρ) := by
  refine ⟨wp_ext F hρ.wp hr hF, ?_⟩
  rw [llevel_ext F hρ.not_icur]
  exact Nat.lt_min.2 ⟨lvl_gt F hF, hρ.lvl⟩

/-- **`F` alone is a right-hand side** (as in `… | [*]F`) -/
theorem rhs_ext0 (F : Follower) (hF : F.ok) : Rhs (F.ext .icur) := by
  refine ⟨?_, ?_⟩
  · cases F with
    | sel R => exact (rhs_dot1 hF).wp
    | index n => simp only [ext, Grammar.wp, icur_isIcur, if_true, Bool.true_and]; exact hF
    | proj o σ =>
      obtain ⟨hl, ho, hσ⟩ := hF
      have hσ' : (σ.isIcur || (Grammar.wp true σ && decide (lvlProj < llevel σ))) = true := by
        rcases hσ with h | h
        · simp only [h, Bool.true_or]
        · simp only [h.wp, h.lvl, decide_true, Bool.and_self, Bool.or_true]
      cases o with
      | star => simp only [ext, Opener.mk, Grammar.wp, icur_isIcur, if_true, hσ', Bool.and_self]
      | ostar => simp only [ext, Opener.mk, Grammar.wp, icur_isIcur, if_true, hσ', Bool.and_self]
      | flat => exact absurd hl (by decide)
      | filt c =>
        have hc : Grammar.wp false c = true := ho
        simp only [ext, Opener.mk, Grammar.wp, icur_isIcur, if_true, hσ', hc, Bool.and_self]
      | slice a b c =>
        have hc : sliceOK a b c = true := ho
        simp only [ext, Opener.mk, Grammar.wp, icur_isIcur, if_true, hσ', hc, Bool.and_self]
    | dotList es =>
      simp only [ext, Grammar.wp, icur_isIcur, if_true, isEmpty_false hF.1, hF.2, Bool.not_false, Bool.and_self]
    | dotHash kvs =>
      simp only [ext, Grammar.wp, icur_isIcur, if_true, isEmpty_false hF.1, hF.2, Bool.not_false, Bool.and_self]
    | dotStarList => simp only [ext, Grammar.wp, icur_isIcur, if_true]
  · rw [llevel_ext0]; decide

/-! ### where the follower attaches

  A follower binds to the tightest operand at the right edge of `ρ`: in `.bar[0]` the index belongs to `bar` (the
  tree is `.(bar[0])`, `lvlBracket > lvlDot`), in `.bar.baz`, `.bar.*`, `.bar[?c]`, `[1][0]`, `.[a, b][0]` it applies
  to the whole of `ρ`.  `F.app ρ` is the tree either way; it prints as `ρ` followed by `F`.  (If `ρ` ends in an open
  projection — `rlevel ρ = lvlProj` — the follower belongs to that inner projection's right-hand side, and the
  statement to make is about the inner projection.) -/

/-- `F` can follow `ρ`: at the top of `ρ`, or — tighter than the dot — on the last selector of `ρ = l.r` -/
def Fits (F : Follower) (ρ : PTree) : Prop :=
  F.lvl ≤ rlevel ρ ∨ ∃ l r, ρ = .dotId l r ∧ ¬ F.lvl ≤ rlevel ρ ∧ F.lvl ≤ rlevel r

/-- the tree of `ρ` followed by `F` -/
def app (F : Follower) : PTree → PTree
  | .dotId l r => if F.lvl ≤ rlevel (.dotId l r) then F.ext (.dotId l r) else .dotId l (F.ext r)
  | t => F.ext t

theorem app_top (F : Follower) {ρ : PTree} (h : F.lvl ≤ rlevel ρ) : F.app ρ = F.ext ρ := by
  cases ρ <;> simp only [app, h, if_true]

theorem app_inner (F : Follower) {l r : PTree} (h : ¬ F.lvl ≤ rlevel (.dotId l r)) :
    F.app (.dotId l r) = .dotId l (F.ext r) := by
  simp only [app, h, if_false]

theorem startsWithIdent_ext (F : Follower) {r : PTree} (h : startsWithIdent r = true) :
    startsWithIdent (F.ext r) = true := by
  have hi : r.isIcur = false := by
    cases r <;> first | rfl | (simp only [startsWithIdent, Grammar.flat, List.head?_nil] at h; cases h)
  unfold startsWithIdent at h ⊢
  rw [flat_ext F false hi]
  cases hf : flat false r with
  | nil => rw [hf] at h; simp only [List.head?_nil] at h; cases h
  | cons t ts => rw [hf] at h; simpa only [List.cons_append, List.head?_cons] using h

/-- **`ρ` followed by `F` is a right-hand side**, wherever `F` attaches -/
theorem rhs_app (F : Follower) {ρ : PTree} (hρ : Rhs ρ) (hfit : F.Fits ρ) (hF : F.ok) : Rhs (F.app ρ) := by
  rcases hfit with h | ⟨l, r, rfl, hn, hr⟩
  · rw [app_top F h]; exact rhs_ext F hρ h hF
  · rw [app_inner F hn]
    have hw := hρ.wp
    have hlv := hρ.lvl
    have hgt : lvlDot < F.lvl := by
      rw [rlevel_dot] at hn
      rcases Nat.lt_or_ge lvlDot F.lvl with h | h
      · exact h
      · exact absurd (Nat.le_min.2 ⟨h, hr⟩) hn
    simp only [Grammar.wp, Bool.and_eq_true, decide_eq_true_eq] at hw
    obtain ⟨⟨⟨hl, hwr⟩, hlr⟩, hid⟩ := hw
    have hir := C17B.not_icur hwr
    refine ⟨?_, ?_⟩
    · simp only [Grammar.wp, Bool.and_eq_true, decide_eq_true_eq]
      refine ⟨⟨⟨hl, wp_ext F hwr hr hF⟩, ?_⟩, startsWithIdent_ext F hid⟩
      rw [llevel_ext F hir]
      exact Nat.lt_min.2 ⟨hgt, hlr⟩
    · exact hlv

/-- the printing: `ρ`, then the follower — wherever it attaches -/
theorem flat_app (F : Follower) {ρ : PTree} (hρ : Rhs ρ) (hfit : F.Fits ρ) : flat true (F.app ρ) = flat true ρ ++ F.toks := by
  rcases hfit with h | ⟨l, r, rfl, hn, hr⟩
  · rw [app_top F h, flat_ext F true hρ.not_icur]
  · rw [app_inner F hn]
    have hw := hρ.wp
    simp only [Grammar.wp, Bool.and_eq_true, decide_eq_true_eq] at hw
    have hir := C17B.not_icur hw.1.1.2
    simp only [Grammar.flat, flat_ext F false hir, List.append_assoc, List.cons_append]

theorem app_not_icur (F : Follower) (ρ : PTree) : (F.app ρ).isIcur = false := by
  cases ρ <;> simp only [app] <;> first | exact ext_not_icur F _ | (split <;> first | exact ext_not_icur F _ | rfl)

end Follower

/-! ### what the extended right-hand side computes -/

/-- a multi-select list after a left operand, whatever the number of members: the general node -/
theorem ieval_listNode_some (root : Val) (c : INode) (fs : List INode) (v : Val) (env : Env) :
    ieval root (listNode (some c) fs) v env = ieval root (.selectArray c fs) v env := by
  match fs with
  | [] => rfl
  | [f] => exact single_select root c f v env
  | _ :: _ :: _ => rfl

/-- … and without a left operand, on a non-null current node -/
theorem ieval_listNode_none (root : Val) (fs : List INode) {y : Val} (hy : y.isNull = false) (env : Env) :
    ieval root (listNode none fs) y env = ieval root (.selectArrayCurrent fs) y env := by
  match fs with
  | [] => rfl
  | [f] => exact single_select_current root f y env hy
  | _ :: _ :: _ => rfl

theorem assocOf_single (k : Bytes) (f : INode) : assocOf [(k, f)] = [(k, f)] := rfl

theorem ieval_hashNode_some (root : Val) (c : INode) (ps : List (Bytes × INode)) (v : Val) (env : Env) :
    ieval root (hashNode (some c) ps) v env = ieval root (.selectObject c (assocOf ps)) v env := by
  match ps with
  | [] => rfl
  | [(k, f)] => rw [assocOf_single]; exact single_select_object root c k f v env
  | _ :: _ :: _ => rfl

theorem ieval_hashNode_none (root : Val) (ps : List (Bytes × INode)) {y : Val} (hy : y.isNull = false) (env : Env) :
    ieval root (hashNode none ps) y env = ieval root (.selectObjectCurrent (assocOf ps)) y env := by
  match ps with
  | [] => rfl
  | [(k, f)] => rw [assocOf_single]; exact single_select_object_current root k f y env hy
  | _ :: _ :: _ => rfl

/-- a slice of the implicit current node is the slice of `@` -/
theorem ieval_proj_slice_none (root : Val) (a b c : Option Int) (r : INode) (y : Val) (env : Env) :
    ieval root (.projectArray (sliceNode none a b c) r) y env =
      ieval root (.projectArray (sliceNode (some .current) a b c) r) y env := by
  simp only [sliceNode]
  split <;> simp only [ieval, INode.isSlice, Res.ok_bind]

/-- **a leading projection is the projection of `@`**: `[*]σ`, `*σ` / `.*σ`, `[]σ`, `[?c]σ`, `[a:b:c]σ` without a left
    operand evaluate as `@[*]σ`, … do, on every current value -/
theorem Opener.ieval_mk_icur (o : Opener) (σ : PTree) (root y : Val) (env : Env) :
    ieval root (erase (o.mk .icur σ)) y env = ieval root (erase (o.mk atCur σ)) y env := by
  cases hσ : σ.isIcur
  · rw [Opener.erase_mk o atCur_not_icur hσ, erase_atCur,
      Opener.ieval_node o root (show INode.current.isSlice = false from rfl)]
    cases o with
    | star =>
      simp only [Opener.mk, erase, GrammarF0.optNode_icur, GrammarF0.optNode_of_ne hσ, starNode, ieval,
        Res.ok_bind, Opener.sem]
    | ostar =>
      simp only [Opener.mk, erase, GrammarF0.optNode_icur, GrammarF0.optNode_of_ne hσ, ostarNode, ieval,
        Res.ok_bind, Opener.sem]
    | flat =>
      simp only [Opener.mk, erase, GrammarF0.optNode_icur, GrammarF0.optNode_of_ne hσ, flatNode, ieval,
        Res.ok_bind, Opener.sem]
    | filt c =>
      simp only [Opener.mk, erase, GrammarF0.optNode_icur, GrammarF0.optNode_of_ne hσ, filtNode, ieval,
        Res.ok_bind, Opener.sem]
    | slice a b c =>
      rw [← Opener.ieval_node (.slice a b c) root (show INode.current.isSlice = false from rfl)]
      simp only [Opener.mk, erase, GrammarF0.optNode_icur, GrammarF0.optNode_of_ne hσ, Option.getD_some,
        Opener.node, Opener.sliceOf]
      exact ieval_proj_slice_none root _ _ _ _ y env
  · rw [GrammarF0.isIcur_eq hσ, Opener.erase_mk0 o atCur_not_icur, erase_atCur]
    cases o with
    | star => simp only [Opener.mk, erase, GrammarF0.optNode_icur, starNode, Opener.node0, ieval, Res.ok_bind]; rfl
    | ostar => simp only [Opener.mk, erase, GrammarF0.optNode_icur, ostarNode, Opener.node0, ieval, Res.ok_bind]; rfl
    | flat => simp only [Opener.mk, erase, GrammarF0.optNode_icur, flatNode, Opener.node0, ieval, Res.ok_bind]; rfl
    | filt c => simp only [Opener.mk, erase, GrammarF0.optNode_icur, filtNode, Opener.node0, ieval, Res.ok_bind]
    | slice a b c =>
      simp only [Opener.mk, erase, GrammarF0.optNode_icur, Option.getD_none, Opener.node0, Opener.sliceOf]
      exact ieval_proj_slice_none root _ _ _ _ y env

example : ieval .null (erase (Opener.star.mk .icur (.dotId .icur (Grammar.Ex.idt "a")))) (.arr .plain [.obj [([97], .bool true)]]) []
    = .ok (.arr .plain [.bool true]) := rfl

namespace Follower

/-- **the node of `ρF` computes `ρ`, then `F`**: for every follower, `ρF` on `v` is `F.fn` applied to the value of `ρ`
    on `v` (`ρ` any tree that is not the implicit current node) -/
theorem ieval_ext (F : Follower) {ρ : PTree} (hi : ρ.isIcur = false) (root v : Val) (env : Env) :
    ieval root (erase (F.ext ρ)) v env = (ieval root (erase ρ) v env >>= F.fn root env) := by
  have e : ∀ (x : Res Val), (x >>= F.fn root env) = (x >>= fun y => ieval root (erase (F.ext atCur)) y env) := fun _ => rfl
  rw [e]
  cases F with
  | sel R =>
    simp only [ext, erase_dot hi, erase_dot atCur_not_icur, erase_atCur, ieval, Res.ok_bind]
  | index n =>
    simp only [ext, erase, GrammarF0.optNode_of_ne hi, GrammarF0.optNode_of_ne atCur_not_icur, indexNode, ieval,
      Res.ok_bind]
    rfl
  | proj o σ =>
    cases hσ : σ.isIcur
    · simp only [ext, Opener.erase_mk o hi hσ, Opener.erase_mk o atCur_not_icur hσ, erase_atCur,
        Opener.ieval_node o root (erase_not_slice ρ), Opener.ieval_node o root (show INode.current.isSlice = false from rfl),
        ieval, Res.ok_bind]
    · rw [GrammarF0.isIcur_eq hσ]
      simp only [ext, Opener.erase_mk0 o hi, Opener.erase_mk0 o atCur_not_icur, erase_atCur, Opener.ieval_node0, ieval,
        Res.ok_bind]
  | dotList es =>
    simp only [ext, erase, GrammarF0.optNode_of_ne hi, GrammarF0.optNode_of_ne atCur_not_icur, ieval_listNode_some]
    simp only [ieval, Res.ok_bind]
    rfl
  | dotHash kvs =>
    simp only [ext, erase, GrammarF0.optNode_of_ne hi, GrammarF0.optNode_of_ne atCur_not_icur, ieval_hashNode_some]
    simp only [ieval, Res.ok_bind]
    rfl
  | dotStarList =>
    simp only [ext, erase, GrammarF0.optNode_of_ne hi, GrammarF0.optNode_of_ne atCur_not_icur, ieval_listNode_some]
    simp only [ieval, Res.ok_bind]
    rfl

/-- **`F` alone (after `[*]`) computes `F.fn` on every non-null value** — on null too, except for the one-member
    multi-selects `.[e]`, `.{k: e}`, `.[*]`, whose node without a left operand has no null check -/
theorem ieval_ext0 (F : Follower) (root : Val) (env : Env) {y : Val} (hy : y.isNull = false) :
    ieval root (erase (F.ext .icur)) y env = F.fn root env y := by
  show _ = ieval root (erase (F.ext atCur)) y env
  cases F with
  | sel R => simp only [ext, erase_dot atCur_not_icur, erase_atCur, ieval, Res.ok_bind]; rfl
  | index n =>
    simp only [ext, erase, GrammarF0.optNode_icur, GrammarF0.optNode_of_ne atCur_not_icur, indexNode]
    split <;> simp only [ieval, Res.ok_bind]
    · rename_i h
      have : ((((intOf n).getD 0).toNat : Nat) : Int) = (intOf n).getD 0 := Int.toNat_of_nonneg h.1
      rw [this]
      rfl
    · rfl
  | proj o σ => exact Opener.ieval_mk_icur o σ root y env
  | dotList es =>
    simp only [ext, erase, GrammarF0.optNode_icur, GrammarF0.optNode_of_ne atCur_not_icur, ieval_listNode_some,
      ieval_listNode_none root _ hy]
    simp only [ieval, Res.ok_bind]
    rfl
  | dotHash kvs =>
    simp only [ext, erase, GrammarF0.optNode_icur, GrammarF0.optNode_of_ne atCur_not_icur, ieval_hashNode_some,
      ieval_hashNode_none root _ hy]
    simp only [ieval, Res.ok_bind]
    rfl
  | dotStarList =>
    simp only [ext, erase, GrammarF0.optNode_icur, GrammarF0.optNode_of_ne atCur_not_icur, ieval_listNode_some,
      ieval_listNode_none root _ hy]
    simp only [ieval, Res.ok_bind]
    rfl

/-- **`ρ` followed by `F` computes `ρ`, then `F`** — wherever `F` attaches -/
theorem ieval_app (F : Follower) {ρ : PTree} (hρ : Rhs ρ) (hfit : F.Fits ρ) (root v : Val) (env : Env) :
    ieval root (erase (F.app ρ)) v env = (ieval root (erase ρ) v env >>= F.fn root env) := by
  rcases hfit with h | ⟨l, r, rfl, hn, hr⟩
  · rw [app_top F h]; exact ieval_ext F hρ.not_icur root v env
  · rw [app_inner F hn]
    have hw := hρ.wp
    simp only [Grammar.wp, Bool.and_eq_true, decide_eq_true_eq] at hw
    have hir := C17B.not_icur hw.1.1.2
    cases hl : l.isIcur
    · rw [erase_dot hl, erase_dot hl]
      simp only [ieval, Res.bind_assoc]
      exact Res.bind_congr fun a => ieval_ext F hir root a env
    · rw [GrammarF0.isIcur_eq hl]
      exact ieval_ext F hir root v env

/-! ### `F.fn`, spelt out -/

theorem fn_sel (R : PTree) (root : Val) (env : Env) (y : Val) : (sel R).fn root env y = ieval root (erase R) y env := by
  simp only [fn, ext, erase_dot atCur_not_icur, erase_atCur, ieval, Res.ok_bind]

theorem fn_index (n : Token) (root : Val) (env : Env) (y : Val) :
    (index n).fn root env y = Jmes.index y ((intOf n).getD 0) := by
  simp only [fn, ext, erase, GrammarF0.optNode_of_ne atCur_not_icur, indexNode, ieval, Res.ok_bind]
  rfl

theorem fn_proj (o : Opener) {σ : PTree} (hσ : σ.isIcur = false) (root : Val) (env : Env) (y : Val) :
    (proj o σ).fn root env y = o.sem root env (fun v => ieval root (erase σ) v env) y := by
  show ieval root (erase (o.mk atCur σ)) y env = _
  rw [Opener.erase_mk o atCur_not_icur hσ, erase_atCur, Opener.ieval_node o root (show INode.current.isSlice = false from rfl)]
  simp only [ieval, Res.ok_bind]

theorem fn_proj0 (o : Opener) (root : Val) (env : Env) (y : Val) : (proj o .icur).fn root env y = o.sem0 root env y := by
  show ieval root (erase (o.mk atCur .icur)) y env = _
  rw [Opener.erase_mk0 o atCur_not_icur, erase_atCur, Opener.ieval_node0]
  simp only [ieval, Res.ok_bind]

theorem fn_dotList (es : List PTree) (root : Val) (env : Env) (y : Val) :
    (dotList es).fn root env y =
      if y.isNull then .ok .null else (ievalList root (eraseL es) y env >>= fun vs => .ok (.arr .plain vs)) := by
  simp only [fn, ext, erase, GrammarF0.optNode_of_ne atCur_not_icur, ieval_listNode_some]
  simp only [ieval, Res.ok_bind, Res.pure_eq]
  rfl

theorem fn_dotHash (kvs : List (Token × PTree)) (root : Val) (env : Env) (y : Val) :
    (dotHash kvs).fn root env y =
      if y.isNull then .ok .null
      else (ievalFields root (assocOf (eraseKVs keyOf kvs)) y env >>= fun ms => .ok (.obj ms)) := by
  simp only [fn, ext, erase, GrammarF0.optNode_of_ne atCur_not_icur, ieval_hashNode_some]
  simp only [ieval, Res.ok_bind, Res.pure_eq]
  rfl

theorem fn_dotStarList (root : Val) (env : Env) (y : Val) :
    dotStarList.fn root env y = if y.isNull then .ok .null else .ok (.arr .plain [objectValues y]) := by
  simp only [fn, ext, erase, GrammarF0.optNode_of_ne atCur_not_icur, ieval_listNode_some]
  simp only [ieval, ievalList, Res.ok_bind, Res.pure_eq]
  rfl

theorem sliceVal_null (a b : Option Token) (c : Option (Option Token)) : sliceVal a b c .null = .ok .null := by
  simp only [sliceVal]; split <;> rfl

/-- **every follower but `.R` maps null to null** -/
theorem nullOK_of_not_sel (F : Follower) (h : ∀ R, F ≠ .sel R) (root : Val) (env : Env) : F.NullOK root env := by
  unfold NullOK
  cases F with
  | sel R => exact absurd rfl (h R)
  | index n => rw [fn_index]; rfl
  | proj o σ =>
    cases hσ : σ.isIcur
    · rw [fn_proj o hσ]
      cases o with
      | slice a b c => simp only [Opener.sem, sliceVal_null, Res.ok_bind]; rfl
      | _ => rfl
    · rw [GrammarF0.isIcur_eq hσ, fn_proj0]
      cases o with
      | slice a b c => simp only [Opener.sem0, sliceVal_null, Res.ok_bind]; rfl
      | filt c => rfl
      | _ => rfl
  | dotList es => rw [fn_dotList]; rfl
  | dotHash kvs => rw [fn_dotHash]; rfl
  | dotStarList => rw [fn_dotStarList]; rfl

/-- for `.R` it is the condition on `R` of the existing theorems -/
theorem nullOK_sel (R : PTree) (root : Val) (env : Env) :
    (sel R).NullOK root env ↔ ieval root (erase R) .null env = .ok .null := by
  unfold NullOK; rw [fn_sel]

end Follower

section Examples
open Grammar.Ex
/-- `[0]`, `[*].c`, `.[a, b]` as followers of `.bar`: printing, and `.bar[0]` etc. are right-hand sides -/
example : (Follower.index (int "0")).toks = [tLBracket, int "0", tRBracket] := rfl
example : (Follower.proj .star (.dotId .icur (idt "c"))).toks = [tArrayStar, tDot, ⟨.unquotedIdentifier, bs "c"⟩] := rfl
example : (Follower.dotList [idt "a", idt "b"]).toks =
    [tDot, tLBracket, ⟨.unquotedIdentifier, bs "a"⟩, tComma, ⟨.unquotedIdentifier, bs "b"⟩, tRBracket] := rfl
/-- `.bar[0]`: the index attaches to `bar`; `.bar.*`: the wildcard applies to the whole of `.bar` -/
example : (Follower.index (int "0")).app (.dotId .icur (idt "bar")) = .dotId .icur (.index (idt "bar") (int "0")) :=
  Follower.app_inner _ (by decide)
example : (Follower.proj .ostar .icur).app (.dotId .icur (idt "bar")) = .ostar (.dotId .icur (idt "bar")) .icur :=
  Follower.app_top _ (by decide)
example : Rhs ((Follower.index (int "0")).app (.dotId .icur (idt "bar"))) :=
  Follower.rhs_app _ (rhs_dot1 ⟨by decide, by decide, by decide⟩) (Or.inr ⟨_, _, rfl, by decide, by decide⟩)
    (by show isIntTok _ = true; decide)
example : (Follower.index (int "1")).fn .null [] (.arr .plain [.bool true, .bool false]) = .ok (.bool false) := by
  rw [Follower.fn_index]; rfl
example : (Follower.dotList [idt "a"]).fn .null [] .null = .ok .null :=
  Follower.nullOK_of_not_sel _ (fun _ h => by cases h) _ _
end Examples

end Jmes.C17C
