/-
  Helper for property C14, fourth round: dyadic floats `±v·2^-s` — the definitions shared by the float-side lemmas
  (`C14EFloat.lean`), the decimal-side lemmas (`C14EDec.lean`) and the operator lemmas (`C14EOp.lean`).

  A grade `⟨h, s⟩` stands for "a multiple of `2^-s` of magnitude at most `2^h`", i.e. `±v·2^-s` with `v ≤ 2^(h+s)`:
  `h` bits before the binary point, `s` bits after it.  Per operator: `+`/`-`: `⟨max h + 1, max s⟩`;
  `*`: `⟨h₁ + h₂, s₁ + s₂⟩`.  The budget `Gr.OK`: `h + s ≤ 52` (exact in binary64) and `2^h·10^s < 10^34` (the same
  value, `v·5^s·10^-s`, is exact in decimal128).
-/
import Jmes.Properties.C14C
namespace Jmes
namespace C14E
open C14 C14B C14C

/-- a grade: magnitude at most `2^h`, a multiple of `2^-s` -/
structure Gr where
  h : Nat
  s : Nat
  deriving DecidableEq, Repr

/-- componentwise order -/
def Gr.le (a b : Gr) : Prop := a.h ≤ b.h ∧ a.s ≤ b.s

instance (a b : Gr) : Decidable (Gr.le a b) := by unfold Gr.le; exact inferInstance

def Gr.join (a b : Gr) : Gr := ⟨max a.h b.h, max a.s b.s⟩

/-- the budget: the value is exact in binary64 (`v ≤ 2^52`) and in decimal128 (`v·5^s < 10^34`) -/
def Gr.OK (g : Gr) : Prop := g.h + g.s ≤ 52 ∧ 2 ^ g.h * 10 ^ g.s < 10 ^ 34

instance (g : Gr) : Decidable g.OK := by unfold Gr.OK; exact inferInstance

/-- grade of a sum or difference -/
def gAdd (a b : Gr) : Gr := ⟨max a.h b.h + 1, max a.s b.s⟩
/-- grade of a product -/
def gMul (a b : Gr) : Gr := ⟨a.h + b.h, a.s + b.s⟩

/-- the float is `±v·2^-s` with `v ≤ 2^(h+s)` (either sign of zero) -/
def DyF (g : Gr) (f : F64) : Prop :=
  ∃ (n : Bool) (v : Nat), v ≤ 2 ^ (g.h + g.s) ∧ f = F64.mk n v (-(g.s : Int))

/-- the canonical decimal of value `z·2^-s = z·5^s·10^-s` -/
def dyc (z : Int) (s : Nat) : Dec := .fin (decide (z < 0)) (z.natAbs * 5 ^ s) (-(s : Int))

/-- the decimal has the value `z·2^-s` -/
def IsDy (d : Dec) (z : Int) (s : Nat) : Prop := Dec.cmp d (dyc z s) = some 0

-- 0.375 = 3·2^-3 as a float of grade ⟨0, 3⟩ and as the decimal 375·10^-3
example : DyF ⟨0, 3⟩ (.fin false 3 (-3)) ∧ IsDy (.fin false 3750 (-4)) 3 3 ∧ Gr.OK ⟨0, 3⟩ :=
  ⟨⟨false, 3, by decide, by decide⟩, by unfold IsDy; decide, by decide⟩

end C14E
end Jmes
