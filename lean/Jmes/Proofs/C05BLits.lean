/-
  Property C05 (second half): every literal of a successfully parsed JMESPath expression is float-free.

  * `nfB` is a Bool-valued version of `Val.NoFloat` (`nfB_iff`);
  * `parse_nfLits`: the Hoare-style (`ParserLits.Post`) fuel induction over the thirteen mutually recursive parser
    functions of `Jmes/Proofs/ParserLits.lean`, re-done for the predicate `nfB` (literal nodes are built only from
    `parseJSONLiteral`, which is float-free by `parseJSONLiteral_noFloat`, and from raw string literals);
  * `all_litOk_litsNF`: the Bool predicate `n.all (INode.litOk nfB)` gives the Prop `n.LitsNF` of `NoFloat.lean`;
  * `parse_litsNF`, `compile_litsNF`, `search_noFloat`: the conclusions.
-/
import Jmes.Proofs.ParserLits
import Jmes.Proofs.NoFloat
namespace Jmes
namespace C05BLits
open Parser ParserLits

/-! ### a Bool-valued float-freeness -/

/-- the number is not a binary float -/
def nfNum : Num → Bool
  | .f64 _ => false
  | .f32 _ => false
  | _ => true

mutual
/-- no `float64` / `float32` anywhere in the value (Bool version of `Val.NoFloat`) -/
def nfB : Val → Bool
  | .null => true
  | .bool _ => true
  | .str _ => true
  | .num n => nfNum n
  | .arr _ xs => nfBL xs
  | .obj kvs => nfBF kvs
  | .foreign _ => true
def nfBL : List Val → Bool
  | [] => true
  | x :: xs => nfB x && nfBL xs
def nfBF : List (Bytes × Val) → Bool
  | [] => true
  | (_, x) :: kvs => nfB x && nfBF kvs
end

/-- `nfNum` decides `Num.NoFloat` -/
theorem nfNum_iff (n : Num) : nfNum n = true ↔ n.NoFloat := by
  cases n <;> simp [nfNum, Num.NoFloat]

example : nfNum (.jnum [0x31]) = true := rfl
example : nfNum (.f64 default) = false := rfl

mutual
/-- `nfB` decides `Val.NoFloat` -/
theorem nfB_iff : (v : Val) → (nfB v = true ↔ v.NoFloat)
  | .null => by simp [nfB, Val.NoFloat]
  | .bool _ => by simp [nfB, Val.NoFloat]
  | .str _ => by simp [nfB, Val.NoFloat]
  | .foreign _ => by simp [nfB, Val.NoFloat]
  | .num n => by simp only [nfB, Val.NoFloat]; exact nfNum_iff n
  | .arr _ xs => by simp only [nfB, Val.NoFloat]; exact nfBL_iff xs
  | .obj kvs => by simp only [nfB, Val.NoFloat]; exact nfBF_iff kvs
/-- `nfBL` decides `Val.NoFloatL` -/
theorem nfBL_iff : (xs : List Val) → (nfBL xs = true ↔ Val.NoFloatL xs)
  | [] => by simp [nfBL, Val.NoFloatL]
  | x :: xs => by
    simp only [nfBL, Val.NoFloatL, Bool.and_eq_true]
    exact and_congr (nfB_iff x) (nfBL_iff xs)
/-- `nfBF` decides `Val.NoFloatF` -/
theorem nfBF_iff : (kvs : List (Bytes × Val)) → (nfBF kvs = true ↔ Val.NoFloatF kvs)
  | [] => by simp [nfBF, Val.NoFloatF]
  | (_, x) :: kvs => by
    simp only [nfBF, Val.NoFloatF, Bool.and_eq_true]
    exact and_congr (nfB_iff x) (nfBF_iff kvs)
end

example : nfB (.arr .plain [.num (.jnum [0x31]), .null]) = true := by decide
example : nfB (.arr .plain [.num (.f64 default)]) = false := by decide
example : Val.NoFloat (.arr .plain [.num (.jnum [0x31]), .null]) := (nfB_iff _).mp (by decide)
example : ¬ Val.NoFloat (.obj [([0x61], .num (.f32 default))]) := fun h => by
  have := (nfB_iff _).mpr h
  revert this; decide
example : nfBL [.null, .bool true] = true ↔ Val.NoFloatL [.null, .bool true] := nfBL_iff _
example : nfBF [([0x61], .null)] = true ↔ Val.NoFloatF [([0x61], .null)] := nfBF_iff _

/-! ### the parser builds literal nodes from float-free values only -/

abbrev NL (n : INode) : Prop := n.all (INode.litOk nfB) = true
abbrev NLL (ns : List INode) : Prop := INode.allL (INode.litOk nfB) ns = true
abbrev NLF (fs : List (Bytes × INode)) : Prop := INode.allF (INode.litOk nfB) fs = true
abbrev NLO (o : Option INode) : Prop := ∀ n, o = some n → NL n

/-- `indexP` returns a node whose literals are float-free if those of the given child are -/
theorem nindexP_ok (child : Option INode) (h : NLO child) : Post (fun p => NL p.1) (indexP child) := by
  cases child with
  | none =>
    simp only [indexP]
    repeat (first
      | exact Post.fail
      | exact Post.fail_bind
      | (refine Post.bind (Post.any _) fun _ _ => ?_)
      | (refine Post.ite (fun _ => ?_) (fun _ => ?_))
      | exact Post.pure rfl)
  | some c =>
    have hc : NL c := h c rfl
    simp only [indexP]
    repeat (first
      | exact Post.fail
      | exact Post.fail_bind
      | (refine Post.bind (Post.any _) fun _ _ => ?_)
      | (refine Post.ite (fun _ => ?_) (fun _ => ?_))
      | (refine Post.pure ?_; show INode.all _ _ = true; simp only [INode.all, Bool.and_eq_true]; exact ⟨rfl, hc⟩))

example : Post (fun p => NL p.1) (indexP none) := nindexP_ok none (fun _ h => by cases h)

/-- appending a good node to a good list -/
theorem NLL_snoc {acc : List INode} {a : INode} (h : NLL acc) (ha : NL a) : NLL (acc ++ [a]) := by
  induction acc with
  | nil => simp only [NLL, List.nil_append, INode.allL, Bool.and_eq_true]; exact ⟨ha, trivial⟩
  | cons x xs ih =>
    simp only [NLL, INode.allL, Bool.and_eq_true, List.cons_append] at h ⊢
    exact ⟨h.1, ih h.2⟩

example : NLL ([.current] ++ [.lit .null]) := NLL_snoc (by decide) (by decide)

/-- inserting a good node into a good association list -/
theorem NLF_assocInsert {k : Bytes} {v : INode} (hv : NL v) : ∀ {fs : List (Bytes × INode)}, NLF fs →
    NLF (assocInsert k v fs)
  | [], _ => by simp only [NLF, assocInsert, INode.allF, Bool.and_eq_true]; exact ⟨hv, trivial⟩
  | (k', v') :: rest, h => by
    simp only [NLF, INode.allF, Bool.and_eq_true] at h
    simp only [assocInsert]
    split
    · simp only [NLF, INode.allF, Bool.and_eq_true]; exact ⟨hv, h.2⟩
    · split
      · simp only [NLF, INode.allF, Bool.and_eq_true]; exact ⟨hv, h.1, h.2⟩
      · simp only [NLF, INode.allF, Bool.and_eq_true]; exact ⟨h.1, NLF_assocInsert hv h.2⟩

example : NLF (assocInsert [0x61] (.lit .null) []) := NLF_assocInsert (by decide) (by decide)

/-- the node constructor of a built-in function preserves "all literals float-free" -/
def NSpecOK : ArgSpec → Prop
  | .fixed _ _ mk => ∀ args, NLL args → NL (mk args)
  | .varArg mk => ∀ args, NLL args → NL (mk args)
  | .expArg mk => ∀ a b, NL a → NL b → NL (mk a b)
  | .mapArg mk => ∀ a b, NL a → NL b → NL (mk a b)

theorem NL_call (f : Fn) {args : List INode} (h : NLL args) : NL (.call f args) := by
  simp only [NL, INode.all, Bool.and_eq_true]; exact ⟨rfl, h⟩

example : NL (.call .abs [.lit (.num (.jnum [0x31]))]) := NL_call _ (by decide)

theorem nbuiltin_ok : ∀ e ∈ builtinTable, NSpecOK e.2 := by
  simp only [builtinTable, List.forall_mem_cons]
  repeat' apply And.intro
  all_goals first
    | (intro args h; exact NL_call _ h)
    | (intro args h; show NL (if _ then _ else _); split <;> exact NL_call _ h)
    | (intro args h; show NL (match _ with | 2 => _ | 3 => _ | _ => _); split <;> exact NL_call _ h)
    | (intro args h; simp only [NL, INode.all, Bool.and_eq_true]; exact ⟨rfl, h⟩)
    | (intro a b ha hb; simp only [NL, INode.all, Bool.and_eq_true]; exact ⟨⟨rfl, ha⟩, hb⟩)
    | (intro a b ha hb; simp only [NL, INode.all, Bool.and_eq_true]; exact ⟨⟨rfl, hb⟩, ha⟩)
    | (intro x hx; cases hx)

theorem nlookupBuiltin_ok {name : Bytes} {spec : ArgSpec} (h : lookupBuiltin name = some spec) : NSpecOK spec := by
  simp only [lookupBuiltin, Option.map_eq_some_iff] at h
  obtain ⟨e, he, rfl⟩ := h
  exact nbuiltin_ok e (List.mem_of_find?_eq_some he)

/-- the thirteen statements proved simultaneously by induction on the fuel -/
structure NIH (fuel : Nat) : Prop where
  expression : ∀ prec, Post NL (expression fuel prec)
  exprLoop : ∀ node prec, NL node → Post NL (exprLoop fuel node prec)
  filterP : Post NL (filterP fuel)
  fnArgs : ∀ mn mx acc, NLL acc → Post NLL (fnArgs fuel mn mx acc)
  fnVarArgs : ∀ acc, NLL acc → Post NLL (fnVarArgs fuel acc)
  function : Post NL (function fuel)
  letP : ∀ vars, NLF vars → Post NL (letP fuel vars)
  primaryExpression : Post NL (primaryExpression fuel)
  projection : ∀ prec, Post NLO (projection fuel prec)
  selectArray : ∀ child, NLO child → Post NL (selectArray fuel child)
  selectArrayLoop : ∀ child fields, NLO child → NLL fields → Post NL (selectArrayLoop fuel child fields)
  selectObject : ∀ child, NLO child → Post NL (selectObject fuel child)
  selectObjectLoop : ∀ child fields, NLO child → NLF fields → Post NL (selectObjectLoop fuel child fields)

theorem NLO_none : NLO none := fun _ h => by cases h
theorem NLO_some {n : INode} (h : NL n) : NLO (some n) := fun _ e => by cases e; exact h

example : NLO (some (.lit .null)) := NLO_some (by decide)

theorem nall_getD {o : Option INode} (h : ∀ n, o = some n → INode.all (INode.litOk nfB) n = true) :
    INode.all (INode.litOk nfB) (o.getD .current) = true := by
  cases o with
  | none => rfl
  | some n => exact h n rfl

theorem nallF_assocInsert {k : Bytes} {v : INode} {fs : List (Bytes × INode)}
    (hv : v.all (INode.litOk nfB) = true) (h : INode.allF (INode.litOk nfB) fs = true) :
    INode.allF (INode.litOk nfB) (assocInsert k v fs) = true :=
  NLF_assocInsert hv h

/-- a literal node with a float-free value is good -/
theorem NL_lit {v : Val} (h : v.NoFloat) : NL (.lit v) := by
  simp only [NL, INode.all, INode.litOk]; exact (nfB_iff v).mpr h

example : NL (.lit (.num (.jnum [0x31]))) := NL_lit (by simp)

/-- a raw string literal is good -/
theorem NL_str (s : Bytes) : NL (.lit (.str s)) := NL_lit (by simp)

example : NL (.lit (.str [0x61])) := NL_str _

@[simp] theorem nfB_str (s : Bytes) : nfB (.str s) = true := by simp [nfB]

/-- close a `NL`/`NLL`/`NLF`/`NLO` goal from the hypotheses in scope -/
macro "c05_close" : tactic => `(tactic| first
  | assumption
  | exact NLO_none
  | exact NLO_some (by assumption)
  | exact NL_str _
  | rfl
  | (simp_all [NL, NLL, NLF, NLO, INode.all, INode.allL, INode.allF, INode.litOk, nall_getD, allL_snoc, nallF_assocInsert, nfB_str]; done)
  | (split <;> simp_all [NL, NLL, NLF, NLO, INode.all, INode.allL, INode.allF, INode.litOk, nall_getD, allL_snoc, nallF_assocInsert, nfB_str]; done))

theorem nfixed_ok {name : Bytes} {mn mx : Nat} {mk : List INode → INode}
    (h : lookupBuiltin name = some (.fixed mn mx mk)) {args : List INode} (ha : NLL args) : NL (mk args) :=
  nlookupBuiltin_ok h args ha
theorem nvarArg_ok {name : Bytes} {mk : List INode → INode}
    (h : lookupBuiltin name = some (.varArg mk)) {args : List INode} (ha : NLL args) : NL (mk args) :=
  nlookupBuiltin_ok h args ha
theorem nexpArg_ok {name : Bytes} {mk : INode → INode → INode}
    (h : lookupBuiltin name = some (.expArg mk)) {a b : INode} (ha : NL a) (hb : NL b) : NL (mk a b) :=
  nlookupBuiltin_ok h a b ha hb
theorem nmapArg_ok {name : Bytes} {mk : INode → INode → INode}
    (h : lookupBuiltin name = some (.mapArg mk)) {a b : INode} (ha : NL a) (hb : NL b) : NL (mk a b) :=
  nlookupBuiltin_ok h a b ha hb

macro "c05_auto" ih:ident : tactic => `(tactic| repeat' (first
  | exact Post.fail
  | exact Post.fail_bind
  | (refine Post.bind (NIH.expression $ih _) fun _ _ => ?_)
  | (refine Post.bind (NIH.projection $ih _) fun _ _ => ?_)
  | (refine Post.bind (NIH.filterP $ih) fun _ _ => ?_)
  | (refine Post.bind (NIH.primaryExpression $ih) fun _ _ => ?_)
  | (refine Post.bind (NIH.exprLoop $ih _ _ (by c05_close)) fun _ _ => ?_)
  | (refine Post.bind (NIH.selectObject $ih _ (by c05_close)) fun _ _ => ?_)
  | (refine Post.bind (NIH.selectArray $ih _ (by c05_close)) fun _ _ => ?_)
  | (refine Post.bind (NIH.fnArgs $ih _ _ _ rfl) fun _ _ => ?_)
  | (refine Post.bind (NIH.fnVarArgs $ih _ rfl) fun _ _ => ?_)
  | (refine Post.bind (nindexP_ok _ (by c05_close)) fun _ _ => ?_)
  | exact NIH.expression $ih _
  | exact NIH.function $ih
  | exact NIH.exprLoop $ih _ _ (by c05_close)
  | exact NIH.selectObject $ih _ (by c05_close)
  | exact NIH.selectArray $ih _ (by c05_close)
  | exact NIH.letP $ih _ (by c05_close)
  | exact NIH.letP $ih _ (NLF_assocInsert (by assumption) (by assumption))
  | exact NIH.fnArgs $ih _ _ _ (NLL_snoc (by assumption) (by assumption))
  | exact NIH.fnVarArgs $ih _ (NLL_snoc (by assumption) (by assumption))
  | exact NIH.selectArrayLoop $ih _ _ (by assumption) (by c05_close)
  | exact NIH.selectArrayLoop $ih _ _ (by assumption) (NLL_snoc (by assumption) (by assumption))
  | exact NIH.selectObjectLoop $ih _ _ (by assumption) (by c05_close)
  | exact NIH.selectObjectLoop $ih _ _ (by assumption) (NLF_assocInsert (by assumption) (by assumption))
  | exact Post.pure (NLL_snoc (by assumption) (by assumption))
  | exact Post.pure (NL_lit (parseJSONLiteral_noFloat (by assumption)))
  | exact Post.pure (NL_str _)
  | exact Post.pure (nfixed_ok (by assumption) (by assumption))
  | exact Post.pure (nvarArg_ok (by assumption) (by assumption))
  | exact Post.pure (nexpArg_ok (by assumption) (by assumption) (by assumption))
  | exact Post.pure (nmapArg_ok (by assumption) (by assumption) (by assumption))
  | (refine Post.bind (Post.any _) fun _ _ => ?_)
  | (refine Post.ite (fun _ => ?_) (fun _ => ?_))
  | split
  | (refine Post.pure ?_; c05_close)))

theorem step_expression {fuel : Nat} (ih : NIH fuel) (prec : Nat) : Post NL (expression (fuel+1) prec) := by
  simp only [expression]
  c05_auto ih

theorem step_exprLoop {fuel : Nat} (ih : NIH fuel) (node : INode) (prec : Nat) (hn : NL node) : Post NL (exprLoop (fuel+1) node prec) := by
  simp only [exprLoop]
  c05_auto ih

theorem step_filterP {fuel : Nat} (ih : NIH fuel)  : Post NL (filterP (fuel+1)) := by
  simp only [filterP]
  c05_auto ih

theorem step_fnArgs {fuel : Nat} (ih : NIH fuel) (mn mx : Nat) (acc : List INode) (ha : NLL acc) : Post NLL (fnArgs (fuel+1) mn mx acc) := by
  simp only [fnArgs]
  c05_auto ih

theorem step_fnVarArgs {fuel : Nat} (ih : NIH fuel) (acc : List INode) (ha : NLL acc) : Post NLL (fnVarArgs (fuel+1) acc) := by
  simp only [fnVarArgs]
  c05_auto ih

theorem step_function {fuel : Nat} (ih : NIH fuel)  : Post NL (function (fuel+1)) := by
  simp only [function]
  c05_auto ih

theorem step_letP {fuel : Nat} (ih : NIH fuel) (vars : List (Bytes × INode)) (hv : NLF vars) : Post NL (letP (fuel+1) vars) := by
  simp only [letP]
  c05_auto ih

theorem step_primaryExpression {fuel : Nat} (ih : NIH fuel)  : Post NL (primaryExpression (fuel+1)) := by
  simp only [primaryExpression]
  refine Post.bind (Post.any _) fun _ _ => ?_
  split <;> c05_auto ih

theorem step_projection {fuel : Nat} (ih : NIH fuel) (prec : Nat) : Post NLO (projection (fuel+1) prec) := by
  simp only [projection]
  c05_auto ih

theorem step_selectArray {fuel : Nat} (ih : NIH fuel) (child : Option INode) (hc : NLO child) : Post NL (selectArray (fuel+1) child) := by
  simp only [selectArray]
  c05_auto ih

theorem step_selectArrayLoop {fuel : Nat} (ih : NIH fuel) (child : Option INode) (fields : List INode) (hc : NLO child) (hf : NLL fields) : Post NL (selectArrayLoop (fuel+1) child fields) := by
  simp only [selectArrayLoop]
  c05_auto ih

theorem step_selectObject {fuel : Nat} (ih : NIH fuel) (child : Option INode) (hc : NLO child) : Post NL (selectObject (fuel+1) child) := by
  simp only [selectObject]
  c05_auto ih

theorem step_selectObjectLoop {fuel : Nat} (ih : NIH fuel) (child : Option INode) (fields : List (Bytes × INode)) (hc : NLO child) (hf : NLF fields) : Post NL (selectObjectLoop (fuel+1) child fields) := by
  simp only [selectObjectLoop]
  c05_auto ih

/-- all thirteen parser functions, at every fuel, return nodes whose literals are float-free -/
theorem nih : ∀ fuel, NIH fuel
  | 0 => by
    constructor <;> intros <;>
      simp only [expression, exprLoop, filterP, fnArgs, fnVarArgs, function, letP, primaryExpression, projection,
        selectArray, selectArrayLoop, selectObject, selectObjectLoop] <;> exact Post.fail
  | fuel + 1 =>
    have ih := nih fuel
    ⟨step_expression ih, step_exprLoop ih, step_filterP ih, step_fnArgs ih, step_fnVarArgs ih, step_function ih,
      step_letP ih, step_primaryExpression ih, step_projection ih, step_selectArray ih, step_selectArrayLoop ih,
      step_selectObject ih, step_selectObjectLoop ih⟩

example : Post NL (expression 5 1) := (nih 5).expression 1

/-- every literal node of a successfully parsed expression carries a value on which `nfB` is true -/
theorem parse_nfLits {expr : Bytes} {n : INode} (h : Parser.parse expr = .ok n) :
    n.all (INode.litOk nfB) = true := by
  unfold Parser.parse at h
  simp only [] at h
  split at h
  · cases h
  · next st _ =>
    split at h
    · next n' s' hr =>
      cases h
      have hp : Post NL (do
          let node ← expression (fuelFor (lexAll expr).1.length) 1
          if (← currType) != .end then Parser.fail .unexpectedToken
          return node : PM INode) := by
        refine Post.bind ((nih _).expression _) fun node hn => ?_
        refine Post.bind (Post.any _) fun _ _ => ?_
        refine Post.ite (fun _ => ?_) (fun _ => ?_)
        · exact Post.fail_bind
        · exact Post.pure hn
      exact hp st n s' hr
    · cases h

/-- the expression `` a==`[1]` `` parses to a node with a literal, and that literal is float-free -/
example : (match Parser.parse [0x61, 0x3D, 0x3D, 0x60, 0x5B, 0x31, 0x5D, 0x60] with
    | .ok n => !(n.all (fun m => match m with | .lit _ => false | _ => true))
    | _ => false) = true := by decide +kernel
example : ∀ n, Parser.parse [0x61, 0x3D, 0x3D, 0x60, 0x5B, 0x31, 0x5D, 0x60] = .ok n →
    n.all (INode.litOk nfB) = true := fun _ h => parse_nfLits h

/-! ### from the Bool predicate to `INode.LitsNF` -/

mutual
/-- if `nfB` holds of every literal of the node (Bool traversal `INode.all`), the node satisfies the Prop `LitsNF` -/
theorem all_litOk_litsNF : (n : INode) → n.all (INode.litOk nfB) = true → n.LitsNF
  | .lit v, h => by
    simp only [INode.all, INode.litOk] at h
    simp only [INode.LitsNF]
    exact (nfB_iff v).mp h
  | .current, _ | .root, _ | .field _, _ | .variable _, _ | .flattenCurrent, _ | .indexCurrent _, _
  | .smallIndexCurrent _, _ | .objectValuesCurrent, _ | .pruneArrayCurrent, _ | .sliceCurrent _ _, _
  | .sliceStepCurrent _ _ _, _ => by simp only [INode.LitsNF]
  | .binop _ l r, h | .and l r, h | .or l r, h | .filter l r, h | .filterAndProjectCurrent l r, h
  | .flattenAndProject l r, h | .pipe l r, h | .projectArray l r, h | .projectObject l r, h
  | .selectArraySingle l r, h | .selectObjectSingle l _ r, h
  | .groupBy l r, h | .map l r, h | .maxBy l r, h | .minBy l r, h | .sortBy l r, h => by
    simp only [INode.all, INode.LitsNF, Bool.and_eq_true] at h ⊢
    exact ⟨all_litOk_litsNF l h.1.2, all_litOk_litsNF r h.2⟩
  | .not c, h | .negate c, h | .assertNumber c, h | .filterCurrent c, h | .flatten c, h
  | .flattenAndProjectCurrent c, h | .index c _, h | .objectValues c, h | .projectArrayCurrent c, h
  | .projectObjectCurrent c, h | .pruneArray c, h | .selectArraySingleCurrent c, h
  | .selectObjectSingleCurrent _ c, h | .slice c _ _, h | .sliceStep c _ _ _, h => by
    simp only [INode.all, INode.LitsNF, Bool.and_eq_true] at h ⊢
    exact all_litOk_litsNF c h.2
  | .filterAndProject l f r, h => by
    simp only [INode.all, INode.LitsNF, Bool.and_eq_true] at h ⊢
    exact ⟨all_litOk_litsNF l h.1.1.2, all_litOk_litsNF f h.1.2, all_litOk_litsNF r h.2⟩
  | .call _ args, h | .selectArrayCurrent args, h | .merge args, h | .notNull args, h | .zip args, h => by
    simp only [INode.all, INode.LitsNF, Bool.and_eq_true] at h ⊢
    exact allL_litOk_litsNFL args h.2
  | .selectArray c fs, h => by
    simp only [INode.all, INode.LitsNF, Bool.and_eq_true] at h ⊢
    exact ⟨all_litOk_litsNF c h.1.2, allL_litOk_litsNFL fs h.2⟩
  | .selectObject c fs, h => by
    simp only [INode.all, INode.LitsNF, Bool.and_eq_true] at h ⊢
    exact ⟨all_litOk_litsNF c h.1.2, allF_litOk_litsNFF fs h.2⟩
  | .selectObjectCurrent fs, h => by
    simp only [INode.all, INode.LitsNF, Bool.and_eq_true] at h ⊢
    exact allF_litOk_litsNFF fs h.2
  | .defineVariables vars child, h => by
    simp only [INode.all, INode.LitsNF, Bool.and_eq_true] at h ⊢
    exact ⟨allF_litOk_litsNFF vars h.1.2, all_litOk_litsNF child h.2⟩
/-- the same for a list of nodes -/
theorem allL_litOk_litsNFL : (ns : List INode) → INode.allL (INode.litOk nfB) ns = true → INode.LitsNFL ns
  | [], _ => by simp only [INode.LitsNFL]
  | n :: ns, h => by
    simp only [INode.allL, INode.LitsNFL, Bool.and_eq_true] at h ⊢
    exact ⟨all_litOk_litsNF n h.1, allL_litOk_litsNFL ns h.2⟩
/-- the same for a list of named nodes -/
theorem allF_litOk_litsNFF : (fs : List (Bytes × INode)) → INode.allF (INode.litOk nfB) fs = true → INode.LitsNFF fs
  | [], _ => by simp only [INode.LitsNFF]
  | (_, n) :: rest, h => by
    simp only [INode.allF, INode.LitsNFF, Bool.and_eq_true] at h ⊢
    exact ⟨all_litOk_litsNF n h.1, allF_litOk_litsNFF rest h.2⟩
end

example : INode.LitsNF (.binop .eq (.field [0x61]) (.lit (.arr .plain [.num (.jnum [0x31])]))) :=
  all_litOk_litsNF _ (by decide)
example : INode.LitsNFL [.lit .null, .current] := allL_litOk_litsNFL _ (by decide)
example : INode.LitsNFF [([0x61], .lit .null)] := allF_litOk_litsNFF _ (by decide)
/-- the hypothesis is not vacuous: it is false for a node containing a binary float literal -/
example : INode.all (INode.litOk nfB) (.not (.lit (.num (.f64 default)))) = false := by decide

/-! ### the conclusions -/

/-- **every literal of a successfully parsed expression is float-free**: the parser never puts a `float64` or
    `float32` into a literal node (literals come from JSON text between backticks, whose numbers are kept as text,
    and from raw strings) -/
theorem parse_litsNF {expr : Bytes} {n : INode} (h : Parser.parse expr = .ok n) : n.LitsNF :=
  all_litOk_litsNF n (parse_nfLits h)

example : ∀ n, Parser.parse [0x61, 0x3D, 0x3D, 0x60, 0x5B, 0x31, 0x5D, 0x60] = .ok n → n.LitsNF :=
  fun _ h => parse_litsNF h

/-- the same for `Compile`: every literal of a compiled expression is float-free -/
theorem compile_litsNF {e : Bytes} {n : INode} (h : compile e = .ok n) : n.LitsNF :=
  parse_litsNF (expr := e) h

example : ∀ n, compile [0x61, 0x3D, 0x3D, 0x60, 0x5B, 0x31, 0x5D, 0x60] = .ok n → n.LitsNF :=
  fun _ h => compile_litsNF h
/-- `compile` of `` a==`[1]` `` does succeed -/
example : (match compile [0x61, 0x3D, 0x3D, 0x60, 0x5B, 0x31, 0x5D, 0x60] with
    | .ok _ => true
    | _ => false) = true := by decide +kernel

/-- **`Search` never introduces a binary float**: searching a float-free document with any expression (given as
    text) gives, when it succeeds, a float-free result -/
theorem search_noFloat {e : Bytes} {d w : Val} (hd : d.NoFloat) (h : search e d = .ok w) : w.NoFloat := by
  unfold search at h
  split at h
  · cases h
  · cases h
  · next n hp => exact evaluate_noFloat (parse_litsNF hp) hd h

/-- searching `` a==`[1]` `` in the document `{"a": [1]}` (numbers as decoded from JSON text) -/
example : ∀ w, search [0x61, 0x3D, 0x3D, 0x60, 0x5B, 0x31, 0x5D, 0x60]
    (.obj [([0x61], .arr .plain [.num (.jnum [0x31])])]) = .ok w → w.NoFloat :=
  fun _ h => search_noFloat ((nfB_iff _).mp (by decide)) h
/-- that search does succeed -/
example : (match search [0x61, 0x3D, 0x3D, 0x60, 0x5B, 0x31, 0x5D, 0x60]
    (.obj [([0x61], .arr .plain [.num (.jnum [0x31])])]) with
    | .ok _ => true
    | _ => false) = true := by decide +kernel

end C05BLits
end Jmes
