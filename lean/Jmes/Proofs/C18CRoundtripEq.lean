/-
  Property C18, third part — the re-read value is EQUAL (the evaluator's `==`, `Jmes.equal`) to the result, and the
  assembled round trip  result --json.Marshal--> text --Decode(UseNumber)--> value equal to the result.

  `equal` compares numbers through `toDecimal`, so every number inside the result has to convert to a decimal that
  is not NaN, and its printed text has to convert to a decimal of equal value:
    * Go integers: always (`toDecimal_jnum_intToBytes`);
    * decimals: always for decimals inside the format (`C18CRD.dec_rereads`);
    * `json.Number`s: exactly when `decimal128.Parse` accepts the text (`Num.Valued`); it does NOT accept every valid
      JSON number: `1e99999` is out of range, and then even `x == x` is false (`equal_self_false_range`).
-/
import Jmes.Proofs.C18CRoundtrip
import Jmes.Proofs.C18CRoundtripDec
import Jmes.Proofs.C18BLits
namespace Jmes.C18CR
open Jmes Jmes.Utf8 Jmes.C16C Jmes.Lexical Jmes.JsonGrammar

/-! ## numbers -/

/-- the number and the `json.Number` read back from its printed text denote the same value -/
def NumOK (n : Num) : Prop := Num.SameValue n (rereadNum n)

/-- a `json.Number` that `decimal128.Parse` accepts is re-read as itself -/
theorem numOK_jnum {t : Bytes} (h : Num.Valued (.jnum t)) : NumOK (.jnum t) := by
  have hne : t.isEmpty = false := by
    cases t with
    | nil =>
      obtain ⟨d, h1, _⟩ := h
      simp [toDecimal, Dec.parse] at h1
    | cons a t => rfl
  unfold NumOK
  simp only [rereadNum, hne, Bool.false_eq_true, if_false]
  exact Num.SameValue.refl h

/-- `2.5e3` -/
example : NumOK (.jnum [0x32, 0x2E, 0x35, 0x65, 0x33]) :=
  numOK_jnum ⟨Dec.fin false 25 2, by decide, by decide⟩

/-- a Go integer and its printed text -/
theorem numOK_int (k : IntKind) (v : Int) (hv : v.natAbs ≤ Dec.MAXSIG) : NumOK (.int k v) := by
  obtain ⟨d, h1, h2⟩ := toDecimal_jnum_intToBytes v hv
  exact ⟨Dec.ofInt v, d, rfl, h1, h2⟩

example : NumOK (.int .i64 (-42)) := numOK_int _ _ (by decide)

/-- every Go integer kind is small enough -/
theorem numOK_int_inRange {k : IntKind} {v : Int} (h : k.InRange v) : NumOK (.int k v) :=
  numOK_int k v (by have := h.natAbs_lt; have := Dec.two64_le_MAXSIG; omega)

example : NumOK (.int .u64 (2 ^ 64 - 1)) := numOK_int_inRange (by simp [IntKind.InRange])

/-- a decimal whose printed text parses back to an equal decimal -/
theorem numOK_dec {d : Dec} (h : C18CRD.DecRereads d) : NumOK (.dec d) := by
  obtain ⟨b, d', h1, h2, h3⟩ := h
  refine ⟨d, d', rfl, ?_, h3⟩
  simp only [rereadNum, h1, toDecimal, h2]

example : NumOK (.dec (.fin false 25 (-1))) := numOK_dec (C18CRD.dec_rereads _ _ _ (by decide) (by decide) (by decide))

/-- the decimal is (up to trailing zeros of the coefficient) inside the decimal128 format: coefficient at most
    `MAXSIG`, exponent between `EMIN` and `EMAX`.  Every finite decimal the library produces is (`Dec.reduce` ends
    with `normalize (.fin neg c4 e4)`, `c4 ≤ MAXSIG`, `EMIN ≤ e4 ≤ EMAX`). -/
def DecInFormat (d : Dec) : Prop :=
  d.isSpecial = false ∧ ∃ neg c e, Dec.normalize d = Dec.normalize (.fin neg c e) ∧ c ≤ Dec.MAXSIG ∧ Dec.EMIN ≤ e ∧
    e ≤ Dec.EMAX

/-- a decimal written with coefficient and exponent inside the format is `DecInFormat` -/
theorem decInFormat_fin (neg : Bool) (c : Nat) (e : Int) (hc : c ≤ Dec.MAXSIG) (hlo : Dec.EMIN ≤ e) (hhi : e ≤ Dec.EMAX) :
    DecInFormat (.fin neg c e) := ⟨rfl, neg, c, e, rfl, hc, hlo, hhi⟩

/-- `1e6144`, kept normalised as `1 · 10^6144`, is in the format (`10^33 · 10^6111`) -/
example : DecInFormat (.fin false 1 6144) :=
  ⟨rfl, false, 10 ^ 33, 6111, by
    rw [Dec.normalize_of false (10 ^ 33) 1 33 6111 (by decide) (by simp), Dec.normalize_of false 1 1 0 6144 (by decide) (by simp)]
    rfl, by decide, by decide, by decide⟩

/-- a decimal inside the format prints and parses back to an equal decimal -/
theorem numOK_dec_inFormat {d : Dec} (h : DecInFormat d) : NumOK (.dec d) := by
  obtain ⟨hs, neg, c, e, hn, hc, hlo, hhi⟩ := h
  exact numOK_dec (C18CRD.dec_rereads_of_normalize hn hs hc hlo hhi)

example : NumOK (.dec (.fin true 1234 (-9))) := numOK_dec_inFormat (decInFormat_fin _ _ _ (by decide) (by decide) (by decide))

/-- a number as the evaluator holds it and that converts to a decimal: `json.Number` accepted by `decimal128.Parse`,
    decimal inside the format, integer within its Go kind -/
def GoodNum : Num → Prop
  | .jnum t => Num.Valued (.jnum t)
  | .dec d => DecInFormat d
  | .int k v => k.InRange v
  | .f64 _ => False
  | .f32 _ => False

/-- `GoodNum` numbers re-read to the same value -/
theorem numOK_of_good {n : Num} (h : GoodNum n) : NumOK n := by
  cases n with
  | jnum t => exact numOK_jnum h
  | dec d => exact numOK_dec_inFormat h
  | int k v => exact numOK_int_inRange h
  | f64 f => exact absurd h id
  | f32 f => exact absurd h id

example : NumOK (.int .i8 5) := numOK_of_good (n := .int .i8 5) (by simp [GoodNum, IntKind.InRange])

mutual
/-- every number inside the value satisfies `P` -/
def NumsAll (P : Num → Prop) : Val → Prop
  | .num n => P n
  | .arr _ xs => NumsAllL P xs
  | .obj kvs => NumsAllF P kvs
  | _ => True
/-- `NumsAll` for every element -/
def NumsAllL (P : Num → Prop) : List Val → Prop
  | [] => True
  | x :: xs => NumsAll P x ∧ NumsAllL P xs
/-- `NumsAll` for every member value -/
def NumsAllF (P : Num → Prop) : List (Bytes × Val) → Prop
  | [] => True
  | (_, x) :: kvs => NumsAll P x ∧ NumsAllF P kvs
end

mutual
/-- `NumsAll` is monotone in the predicate -/
theorem numsAll_mono {P Q : Num → Prop} (h : ∀ n, P n → Q n) : ∀ r : Val, NumsAll P r → NumsAll Q r
  | .null, _ => trivial
  | .bool _, _ => trivial
  | .str _, _ => trivial
  | .num n, hr => by simp only [NumsAll] at hr ⊢; exact h n hr
  | .arr _ xs, hr => by simp only [NumsAll] at hr ⊢; exact numsAllL_mono h xs hr
  | .obj kvs, hr => by simp only [NumsAll] at hr ⊢; exact numsAllF_mono h kvs hr
  | .foreign _, _ => trivial
/-- … for elements -/
theorem numsAllL_mono {P Q : Num → Prop} (h : ∀ n, P n → Q n) : ∀ xs : List Val, NumsAllL P xs → NumsAllL Q xs
  | [], _ => trivial
  | x :: xs, hr => by simp only [NumsAllL] at hr ⊢; exact ⟨numsAll_mono h x hr.1, numsAllL_mono h xs hr.2⟩
/-- … for member values -/
theorem numsAllF_mono {P Q : Num → Prop} (h : ∀ n, P n → Q n) : ∀ kvs : List (Bytes × Val),
    NumsAllF P kvs → NumsAllF Q kvs
  | [], _ => trivial
  | (_, x) :: kvs, hr => by simp only [NumsAllF] at hr ⊢; exact ⟨numsAll_mono h x hr.1, numsAllF_mono h kvs hr.2⟩
end

example : NumsAll NumOK (.arr .plain [.num (.int .i64 1), .str []]) :=
  numsAll_mono (fun _ => numOK_of_good) _ (by simp [NumsAll, NumsAllL, GoodNum, IntKind.InRange])

/-! ## `equal r (reread r)` -/

/-- a member of the object gives the re-read member of the re-read object -/
theorem mem_rereadF {k : Bytes} {x : Val} {kvs : List (Bytes × Val)} (h : (k, x) ∈ kvs) : (k, reread x) ∈ rereadF kvs := by
  rw [rereadF_eq_map]
  exact List.mem_map.2 ⟨(k, x), h, rfl⟩

/-- re-reading keeps the number of members -/
theorem rereadF_length (kvs : List (Bytes × Val)) : (rereadF kvs).length = kvs.length := by
  rw [rereadF_eq_map, List.length_map]

mutual
/-- **the re-read value is equal to the result** (the evaluator's `==`), when every number inside re-reads to a
    number of the same value -/
theorem equal_reread : ∀ r : Val, WF r → NumsAll NumOK r → equal r (reread r) = true
  | .null, _, _ => by simp [equal, reread, Val.isNull]
  | .bool b, _, _ => by simp [equal, reread]
  | .str s, _, _ => by simp [equal, reread]
  | .num n, _, hn => by
    simp only [NumsAll] at hn
    obtain ⟨da, db, h1, h2, h3⟩ := hn
    simp only [equal, reread, h1, h2, Dec.equal, h3]
    rfl
  | .arr .plain xs, hw, hn => by
    simp only [NumsAll] at hn
    simp only [equal, reread]
    exact equalL_reread xs (by simpa [WF] using hw) hn
  | .arr .nil _, hw, _ => by simp [WF] at hw
  | .arr .enum _, hw, _ => by simp [WF] at hw
  | .obj kvs, hw, hn => by
    simp only [NumsAll] at hn
    have hw' : WFF kvs := by simpa [WF] using hw
    simp only [equal, reread, rereadF_length, beq_self_eq_true, Bool.true_and]
    refine equalF_reread kvs hw' hn (rereadF kvs) ?_
    intro k x hm
    exact objLookup_of_mem_nodup (C20B.keySorted_nodup (keySorted_rereadF kvs hw')) (mem_rereadF hm)
  | .foreign _, hw, _ => by simp [WF] at hw
/-- element-wise -/
theorem equalL_reread : ∀ xs : List Val, WFL xs → NumsAllL NumOK xs → equalL xs (rereadL xs) = true
  | [], _, _ => by simp [equalL, rereadL]
  | x :: xs, hw, hn => by
    simp only [WFL] at hw
    simp only [NumsAllL] at hn
    simp only [equalL, rereadL, Bool.and_eq_true]
    exact ⟨equal_reread x hw.1 hn.1, equalL_reread xs hw.2 hn.2⟩
/-- member-wise: every member of (a tail of) the object is found, equal, in the re-read object -/
theorem equalF_reread : ∀ kvs : List (Bytes × Val), WFF kvs → NumsAllF NumOK kvs → ∀ all : List (Bytes × Val),
    (∀ k x, (k, x) ∈ kvs → objLookup k all = some (reread x)) → equalF kvs all = true
  | [], _, _, _, _ => by simp [equalF]
  | (k, x) :: kvs, hw, hn, all, hl => by
    simp only [WFF] at hw
    simp only [NumsAllF] at hn
    simp only [equalF, hl k x (List.mem_cons_self ..), Bool.and_eq_true]
    exact ⟨equal_reread x hw.2.1 hn.1,
      equalF_reread kvs hw.2.2.2 hn.2 all (fun k' x' hm => hl k' x' (List.mem_cons_of_mem _ hm))⟩
end

example : equal (.arr .plain [.num (.int .i64 1), .str [0x61]]) (reread (.arr .plain [.num (.int .i64 1), .str [0x61]])) = true :=
  equal_reread _ (by simp [WF, WFL, WFNum]; decide) (by simp [NumsAll, NumsAllL]; exact numOK_int _ _ (by decide))

/-- the same with the sufficient condition on the numbers (`GoodNum`) -/
theorem equal_reread_good {r : Val} (hw : WF r) (hn : NumsAll GoodNum r) : equal r (reread r) = true :=
  equal_reread r hw (numsAll_mono (fun _ => numOK_of_good) r hn)

/-- **`equal_reread_partial`** (the form asked for: the re-read fact of every decimal as a hypothesis; it is in fact
    discharged by `C18CRD.dec_rereads` for decimals in the format, see `equal_reread_good`) -/
theorem equal_reread_partial {r : Val} (hw : WF r)
    (hn : NumsAll (fun n => match n with
      | .jnum t => Num.Valued (.jnum t)
      | .dec d => C18CRD.DecRereads d
      | .int _ v => v.natAbs ≤ Dec.MAXSIG
      | _ => False) r) : equal r (reread r) = true := by
  refine equal_reread r hw (numsAll_mono ?_ r hn)
  intro n h
  cases n with
  | jnum t => exact numOK_jnum h
  | dec d => exact numOK_dec h
  | int k v => exact numOK_int k v h
  | f64 f => exact absurd h id
  | f32 f => exact absurd h id

example : equal (.num (.dec (.fin false 15 29))) (reread (.num (.dec (.fin false 15 29)))) = true :=
  equal_reread_good (by simp [WF, WFNum, Dec.isSpecial])
    (by simp only [NumsAll, GoodNum]; exact decInFormat_fin _ _ _ (by decide) (by decide) (by decide))

/-! ## the assembled round trip -/

mutual
/-- a well-formed result is `Val.Fin` -/
theorem fin_of_wf : ∀ r : Val, WF r → r.Fin = true
  | .null, _ => rfl
  | .bool _, _ => rfl
  | .str _, _ => rfl
  | .num (.jnum t), h => by simpa [WF, WFNum, Val.Fin, Num.Fin] using h
  | .num (.dec d), h => by simpa [WF, WFNum, Val.Fin, Num.Fin] using h
  | .num (.int _ _), _ => rfl
  | .num (.f64 _), h => by simp [WF, WFNum] at h
  | .num (.f32 _), h => by simp [WF, WFNum] at h
  | .arr .plain xs, h => by simp only [Val.Fin]; exact finL_of_wf xs (by simpa [WF] using h)
  | .arr .nil _, h => by simp [WF] at h
  | .arr .enum _, h => by simp [WF] at h
  | .obj kvs, h => by simp only [Val.Fin]; exact finF_of_wf kvs (by simpa [WF] using h)
  | .foreign _, h => by simp [WF] at h
/-- … its elements -/
theorem finL_of_wf : ∀ xs : List Val, WFL xs → Val.FinL xs = true
  | [], _ => rfl
  | x :: xs, h => by
    simp only [WFL] at h
    simp only [Val.FinL, Bool.and_eq_true]
    exact ⟨fin_of_wf x h.1, finL_of_wf xs h.2⟩
/-- … its member values -/
theorem finF_of_wf : ∀ kvs : List (Bytes × Val), WFF kvs → Val.FinF kvs = true
  | [], _ => rfl
  | (_, x) :: kvs, h => by
    simp only [WFF] at h
    simp only [Val.FinF, Bool.and_eq_true]
    exact ⟨fin_of_wf x h.2.1, finF_of_wf kvs h.2.2.2⟩
end

/-- a well-formed result marshals -/
theorem encode_wf {r : Val} (hw : WF r) : ∃ b, Json.encode r = .ok b := encode_fin_total r (fin_of_wf r hw)

example : ∃ b, Json.encode (.arr .plain [.num (.int .i64 1)]) = .ok b := encode_wf (by simp [WF, WFL, WFNum])

/-- **Round trip, parametrised by the decoder's soundness theorem** (`C16C.decode_den`) -/
theorem roundtrip_of_sound
    (sound : ∀ (n : Nat) (t : Bytes) (v : Val), Den n t v → n ≤ Json.maxDepth → Json.decode t = some v)
    {r : Val} (hw : WF r) (hd : C16B.dp r ≤ Json.maxDepth) :
    ∃ b, Json.encode r = .ok b ∧ Json.decode b = some (reread r) := by
  obtain ⟨b, hb⟩ := encode_wf hw
  exact ⟨b, hb, sound _ _ _ (den_encode r hw b hb) hd⟩

/-- **Round trip**: a well-formed result nested at most 10000 deep marshals, and Go's decoder (with `UseNumber`)
    reads the text back as `reread r` -/
theorem roundtrip {r : Val} (hw : WF r) (hd : C16B.dp r ≤ Json.maxDepth) :
    ∃ b, Json.encode r = .ok b ∧ Json.decode b = some (reread r) :=
  roundtrip_of_sound (fun _ _ _ h hn => decode_den h hn) hw hd

/-- `{"a": [1, "<"]}` with the Go integer 1 -/
example : ∃ b, Json.encode (.obj [([0x61], .arr .plain [.num (.int .i64 1), .str [0x3C]])]) = .ok b ∧
    Json.decode b = some (.obj [([0x61], .arr .plain [.num (.jnum [0x31]), .str [0x3C]])]) := by
  have := roundtrip (r := .obj [([0x61], .arr .plain [.num (.int .i64 1), .str [0x3C]])])
    (by simp [WF, WFF, WFL, WFNum]; decide) (by decide)
  simp only [reread, rereadF, rereadL, rereadNum] at this
  have e : Json.intToBytes 1 = [0x31] := by decide
  rw [e] at this
  exact this

/-- **C18, "serialises with encoding/json and is itself acceptable as input"**: the result marshals, the text decodes,
    and the decoded value is equal (`==`) to the result -/
theorem roundtrip_equal {r : Val} (hw : WF r) (hn : NumsAll GoodNum r) (hd : C16B.dp r ≤ Json.maxDepth) :
    ∃ b r', Json.encode r = .ok b ∧ Json.decode b = some r' ∧ equal r r' = true := by
  obtain ⟨b, h1, h2⟩ := roundtrip hw hd
  exact ⟨b, reread r, h1, h2, equal_reread_good hw hn⟩

/-- the same from the invariants the evaluator is known to preserve (`Plain`, `NoEnum`: C18; `Fin`: C18B; `Valid`:
    C11B), plus the representation invariant of Go maps (`Sorted`) -/
theorem roundtrip_equal_of_parts {r : Val} (hp : r.Plain = true) (he : r.NoEnum = true) (hf : r.Fin = true)
    (hv : r.Valid = true) (hs : Sorted r) (hn : NumsAll GoodNum r) (hd : C16B.dp r ≤ Json.maxDepth) :
    ∃ b r', Json.encode r = .ok b ∧ Json.decode b = some r' ∧ equal r r' = true :=
  roundtrip_equal (wf_of_parts r hp he hf hv hs) hn hd

example : ∃ b r', Json.encode (.arr .plain [.num (.dec (.fin false 25 (-1))), .str [0xC3, 0xA9]]) = .ok b ∧
    Json.decode b = some r' ∧ equal (.arr .plain [.num (.dec (.fin false 25 (-1))), .str [0xC3, 0xA9]]) r' = true :=
  roundtrip_equal_of_parts (by decide) (by decide) (by decide) (by decide) (by simp [Sorted, SortedL])
    (by simp only [NumsAll, NumsAllL, GoodNum, and_true]; exact decInFormat_fin _ _ _ (by decide) (by decide) (by decide))
    (by decide)

/-! ## the proviso on `json.Number`s is needed -/

/-- `1e99999` -/
def bigNum : Bytes := [0x31, 0x65, 0x39, 0x39, 0x39, 0x39, 0x39]

/-- **Counterexample to "re-read value equals the result" without the proviso**: `r = json.Number("1e99999")` is a
    plain, finite (`Fin`: a valid JSON number text), enum-free value with only valid strings; it marshals to its own
    text, the text decodes to `r` itself — and yet `r == r` is FALSE in the evaluator, because `decimal128.Parse`
    reports a range error and `toDecimal` then says "not a number". -/
theorem equal_self_false_range :
    (Val.num (.jnum bigNum)).Plain = true ∧ (Val.num (.jnum bigNum)).Fin = true ∧ (Val.num (.jnum bigNum)).NoEnum = true ∧
    (Val.num (.jnum bigNum)).Valid = true ∧ WF (.num (.jnum bigNum)) ∧
    Json.encode (.num (.jnum bigNum)) = .ok bigNum ∧ Json.decode bigNum = some (.num (.jnum bigNum)) ∧
    equal (.num (.jnum bigNum)) (.num (.jnum bigNum)) = false := by
  have hv : Json.isValidNumber bigNum = true := by decide
  refine ⟨by decide, by decide, by decide, by decide, hv, ?_, ?_, by decide⟩
  · simp only [Json.encode]
    rw [if_neg (by decide), if_pos hv]
  · exact decode_den (Den.num 0 bigNum ((isValidNumber_iff _).1 hv)) (by decide)

example : toDecimal (.num (.jnum bigNum)) = none := by decide
example : ¬ Num.Valued (.jnum bigNum) := by
  rintro ⟨d, h, _⟩
  have : toDecimal (.num (.jnum bigNum)) = none := by decide
  rw [this] at h; cases h

end Jmes.C18CR
