/-
  Helpers for Jmes/Properties/C15C.lean, part 9: `sum` / `avg` over a map-ordered array. Under the model's side
  condition `sumOrderFree` every partial sum, in every order, is EXACT, and an exact `Dec.add` returns the canonical
  representative of the exact value; hence the sum is the same `Dec` in every order.
-/
import Jmes.Proofs.DecExact
import Jmes.Proofs.C15CErrLemmas
import Jmes.Proofs.C15CMaxLemmas
set_option linter.unusedVariables false
namespace Jmes.C15C
open Jmes Jmes.Dec Invar

/-- the canonical representative of the value `S · 10^lo` -/
def canon (lo : Int) (S : Int) : Dec :=
  if S = 0 then .fin false 0 0 else Dec.normalize (.fin (decide (S < 0)) S.natAbs lo)

theorem sv_zero (n : Bool) (e m : Int) : sv n 0 e m = 0 := by simp [sv]

theorem sv_self (n : Bool) (c : Nat) (e : Int) : sv n c e e = (if n then -1 else 1) * (c : Int) := by
  simp [sv, pow10]

theorem sv_natAbs (n : Bool) (c : Nat) (e m : Int) : (sv n c e m).natAbs = c * pow10 (e - m).toNat := by
  unfold sv
  cases n <;> simp [Int.natAbs_mul, Int.natAbs_natCast]

theorem sv_neg_iff (n : Bool) (c : Nat) (e m : Int) (hc : c ≠ 0) : sv n c e m < 0 ↔ n = true := by
  unfold sv
  have hp : 0 < ((c * pow10 (e - m).toNat : Nat) : Int) := by
    have : 0 < c * pow10 (e - m).toNat := Nat.mul_pos (Nat.pos_of_ne_zero hc) (Nat.pow_pos (by decide))
    exact Int.natCast_pos.mpr this
  cases n
  · simp only [Bool.false_eq_true, if_false, Int.one_mul, iff_false]; omega
  · simp only [if_true, iff_true]; omega

/-- a non-zero finite decimal is the canonical representative of its own value -/
theorem canon_sv (lo : Int) (n : Bool) (c : Nat) (e : Int) (hc : c ≠ 0) (he : lo ≤ e) :
    canon lo (sv n c e lo) = Dec.normalize (.fin n c e) := by
  have hne : sv n c e lo ≠ 0 := by
    intro h
    have := sv_natAbs n c e lo
    rw [h] at this
    have hp : 0 < c * pow10 (e - lo).toNat := Nat.mul_pos (Nat.pos_of_ne_zero hc) (Nat.pow_pos (by decide))
    simp at this
    omega
  have hs : decide (sv n c e lo < 0) = n := by
    cases n
    · exact decide_eq_false (by rw [sv_neg_iff _ _ _ _ hc]; simp)
    · exact decide_eq_true ((sv_neg_iff _ _ _ _ hc).mpr rfl)
  simp only [canon, hne, if_false, hs, sv_natAbs, pow10]
  rw [normalize_shift]
  congr 2
  omega

theorem canon_natAbs_rescale (lo : Int) (s : Int) (j : Nat) (hs : s ≠ 0) :
    canon lo (s * ((pow10 j : Nat) : Int)) = Dec.normalize (.fin (decide (s < 0)) s.natAbs (lo + j)) := by
  have hp : 0 < ((pow10 j : Nat) : Int) := pow10_pos j
  have hne : s * ((pow10 j : Nat) : Int) ≠ 0 := Int.mul_ne_zero hs (by omega)
  have hsign : decide (s * ((pow10 j : Nat) : Int) < 0) = decide (s < 0) := by
    by_cases h : s < 0
    · rw [decide_eq_true h, decide_eq_true (Int.mul_neg_of_neg_of_pos h hp)]
    · have : 0 ≤ s * ((pow10 j : Nat) : Int) := Int.mul_nonneg (by omega) (by omega)
      rw [decide_eq_false h, decide_eq_false (by omega)]
  unfold canon
  rw [if_neg hne, hsign, Int.natAbs_mul, Int.natAbs_natCast]
  unfold pow10
  rw [normalize_shift]

theorem addFin_sv (n1 : Bool) (c1 : Nat) (e1 : Int) (n2 : Bool) (c2 : Nat) (e2 : Int) (h1 : c1 ≠ 0) (h2 : c2 ≠ 0) :
    addFin n1 c1 e1 n2 c2 e2 =
      (if sv n1 c1 e1 (min e1 e2) + sv n2 c2 e2 (min e1 e2) = 0 then Dec.fin false 0 0
       else reduce (decide (sv n1 c1 e1 (min e1 e2) + sv n2 c2 e2 (min e1 e2) < 0))
         (sv n1 c1 e1 (min e1 e2) + sv n2 c2 e2 (min e1 e2)).natAbs (min e1 e2)) := by
  simp only [addFin, h1, h2, if_false, sv]
  rfl

/-- **an exact addition returns the canonical representative of the exact sum** -/
theorem add_canon (lo A : Int) (n : Bool) (c : Nat) (e : Int) (hlo : EMIN ≤ lo)
    (he : c ≠ 0 → lo ≤ e ∧ e ≤ EMAX) (hb : (A + sv n c e lo).natAbs < 10 ^ 34) :
    Dec.add (canon lo A) (.fin n c e) = canon lo (A + sv n c e lo) := by
  by_cases hA : A = 0
  · subst hA
    simp only [canon, if_true, Dec.add, addFin, Int.zero_add]
    by_cases hc : c = 0
    · subst hc
      simp [sv_zero]
    · simp only [hc, if_false]
      have := canon_sv lo n c e hc (he hc).1
      simp only [canon] at this
      exact this.symm
  · by_cases hc : c = 0
    · subst hc
      rw [sv_zero, Int.add_zero]
      simp only [canon, hA, if_false]
      obtain ⟨c', k, h1, h2, h3⟩ := normalize_spec (decide (A < 0)) A.natAbs lo (by omega)
      rw [h1]
      have hc' : c' ≠ 0 := by intro h; rw [h] at h3; simp at h3
      simp only [Dec.add, addFin, hc', if_false, if_true]
      rw [← h1, normalize_idem]
    · obtain ⟨hle, hhi⟩ := he hc
      have hcan : canon lo A = Dec.normalize (.fin (decide (A < 0)) A.natAbs lo) := by simp [canon, hA]
      obtain ⟨c', k, h1, h2, h3⟩ := normalize_spec (decide (A < 0)) A.natAbs lo (by omega)
      have hc' : c' ≠ 0 := by intro h; rw [h] at h3; simp at h3
      -- `A` as a signed coefficient
      have hAsv : sv (decide (A < 0)) c' (lo + k) lo = A := by
        unfold sv pow10
        have : (lo + (k : Int) - lo).toNat = k := by omega
        rw [this, ← h2]
        by_cases h : A < 0
        · simp only [decide_eq_true h, if_true]; omega
        · simp only [decide_eq_false h, Bool.false_eq_true, if_false]; omega
      rw [hcan, h1]
      simp only [Dec.add]
      rw [addFin_sv _ _ _ _ _ _ hc' hc]
      -- the common exponent
      have hem1 : lo ≤ min (lo + (k : Int)) e := by omega
      have ra := sv_rescale (decide (A < 0)) c' (lo + k) (min (lo + (k : Int)) e) lo hem1 (Int.min_le_left _ _)
      have rb := sv_rescale n c e (min (lo + (k : Int)) e) lo hem1 (Int.min_le_right _ _)
      rw [hAsv] at ra
      have hsum : A + sv n c e lo =
          (sv (decide (A < 0)) c' (lo + k) (min (lo + (k : Int)) e) + sv n c e (min (lo + (k : Int)) e)) *
            ((pow10 (min (lo + (k : Int)) e - lo).toNat : Nat) : Int) := by
        rw [Int.add_mul, ← ra, ← rb]
      generalize hs : sv (decide (A < 0)) c' (lo + k) (min (lo + (k : Int)) e) + sv n c e (min (lo + (k : Int)) e) = s
        at hsum
      by_cases hs0 : s = 0
      · rw [if_pos hs0, hsum, hs0, Int.zero_mul]
        simp [canon]
      · rw [if_neg hs0, hsum]
        have hP := pow10_pos (min (lo + (k : Int)) e - lo).toNat
        have hbound : s.natAbs < 10 ^ 34 := by
          rw [hsum, Int.natAbs_mul, Int.natAbs_natCast] at hb
          have : 1 ≤ pow10 (min (lo + (k : Int)) e - lo).toNat := Nat.pow_pos (by decide)
          calc s.natAbs = s.natAbs * 1 := (Nat.mul_one _).symm
            _ ≤ s.natAbs * pow10 (min (lo + (k : Int)) e - lo).toNat := Nat.mul_le_mul_left _ this
            _ < 10 ^ 34 := hb
        rw [reduce_exact_34 _ _ _ hbound (by omega) (by omega), canon_natAbs_rescale lo s _ hs0]
        congr 2
        omega

/-- `3.5 = 1 + 2.5` at scale `10^-1`: `canon (-1) 10 = 1`, adding `25·10^-1` gives `canon (-1) 35 = 35·10^-1` -/
example : Dec.add (canon (-1) 10) (.fin false 25 (-1)) = canon (-1) 35 :=
  add_canon (-1) 10 false 25 (-1) (by decide) (fun _ => by decide) (by decide)
example : canon (-1) 10 = .fin false 1 0 := by decide
example : canon (-1) 35 = .fin false 35 (-1) := by decide

/-! ### folding `Dec.add` over finite decimals whose partial sums are exact -/

/-- the value of a finite decimal at scale `lo` (0 for zero, whatever its exponent) -/
def valAt (lo : Int) : Dec → Int
  | .fin n c e => sv n c e lo
  | _ => 0

/-- finite, and a non-zero value has its exponent between `lo` and `EMAX` -/
def FinOK (lo : Int) : Dec → Prop
  | .fin _ c e => c ≠ 0 → lo ≤ e ∧ e ≤ EMAX
  | _ => False

def sumV (lo : Int) : List Dec → Int
  | [] => 0
  | d :: ds => valAt lo d + sumV lo ds

def absSum (lo : Int) : List Dec → Nat
  | [] => 0
  | d :: ds => (valAt lo d).natAbs + absSum lo ds

theorem sumV_perm (lo : Int) {l l' : List Dec} (h : l'.Perm l) : sumV lo l' = sumV lo l := by
  induction h with
  | nil => rfl
  | cons x _ ih => simp only [sumV, ih]
  | swap x y l => simp only [sumV]; omega
  | trans _ _ ih1 ih2 => rw [ih1, ih2]

theorem absSum_perm (lo : Int) {l l' : List Dec} (h : l'.Perm l) : absSum lo l' = absSum lo l := by
  induction h with
  | nil => rfl
  | cons x _ ih => simp only [absSum, ih]
  | swap x y l => simp only [absSum]; omega
  | trans _ _ ih1 ih2 => rw [ih1, ih2]

/-- **the fold of exact additions is the canonical representative of the exact sum** -/
theorem foldl_add_canon (lo : Int) (hlo : EMIN ≤ lo) : ∀ (ds : List Dec) (A : Int), (∀ d ∈ ds, FinOK lo d) →
    A.natAbs + absSum lo ds < 10 ^ 34 → ds.foldl Dec.add (canon lo A) = canon lo (A + sumV lo ds)
  | [], A, _, _ => by simp [sumV]
  | d :: ds, A, hf, hb => by
    have hd := hf d (by simp)
    cases d with
    | nan => exact hd.elim
    | inf n => exact hd.elim
    | fin n c e =>
      simp only [List.foldl_cons, absSum, valAt, sumV] at hb ⊢
      have hstep : (A + sv n c e lo).natAbs < 10 ^ 34 := by
        have := Int.natAbs_add_le A (sv n c e lo)
        omega
      rw [add_canon lo A n c e hlo hd hstep]
      rw [foldl_add_canon lo hlo ds (A + sv n c e lo) (fun x hx => hf x (List.mem_cons_of_mem _ hx))
        (by have := Int.natAbs_add_le A (sv n c e lo); omega)]
      rw [Int.add_assoc]

theorem canon_zero (lo : Int) : canon lo 0 = Dec.zero := by simp [canon, Dec.zero]

/-- so the sum does not depend on the order -/
theorem foldl_add_perm (lo : Int) (hlo : EMIN ≤ lo) {ds ds' : List Dec} (hp : ds'.Perm ds)
    (hf : ∀ d ∈ ds, FinOK lo d) (hb : absSum lo ds < 10 ^ 34) :
    ds'.foldl Dec.add Dec.zero = ds.foldl Dec.add Dec.zero ∧
      ds.foldl Dec.add Dec.zero = canon lo (sumV lo ds) := by
  rw [← canon_zero lo]
  have h1 := foldl_add_canon lo hlo ds 0 hf (by simpa using hb)
  have h2 := foldl_add_canon lo hlo ds' 0 (fun d hd => hf d (hp.mem_iff.mp hd))
    (by rw [absSum_perm lo hp]; simpa using hb)
  rw [h1, h2, sumV_perm lo hp]
  exact ⟨rfl, by simp⟩

theorem canon_finite (lo : Int) (S : Int) : (canon lo S).isInf = false ∧ (canon lo S).isNaN = false := by
  unfold canon
  split
  · exact ⟨rfl, rfl⟩
  · rename_i h
    obtain ⟨c', k, h1, _, _⟩ := normalize_spec (decide (S < 0)) S.natAbs lo (by omega)
    rw [h1]
    exact ⟨rfl, rfl⟩

/-! ### what the model's side condition `sumOrderFree` provides -/

/-- the non-zero finite members, as (coefficient, exponent) -/
def finsOf (ds : List Dec) : List (Nat × Int) :=
  ds.filterMap (fun d => match d with | .fin _ c e => if c = 0 then none else some (c, e) | _ => none)

theorem sumOrderFree_eq (ds : List Dec) : sumOrderFree ds =
    (if (finsOf ds).length != ds.length - (ds.filter Dec.isZero).length then false
     else match finsOf ds with
      | [] => true
      | (c0, e0) :: rest =>
        decide (rest.foldl (fun m (p : Nat × Int) => max m (Dec.ndigits p.1 + p.2)) (Dec.ndigits c0 + e0) -
          rest.foldl (fun m (p : Nat × Int) => min m p.2) e0 + Dec.ndigits ds.length ≤ 34 ∧
          rest.foldl (fun m (p : Nat × Int) => min m p.2) e0 ≥ Dec.EMIN ∧
          rest.foldl (fun m (p : Nat × Int) => max m (Dec.ndigits p.1 + p.2)) (Dec.ndigits c0 + e0) ≤ 6000)) := rfl

theorem count_split : ∀ (ds : List Dec),
    (finsOf ds).length + (ds.filter Dec.isZero).length + (ds.filter Dec.isSpecial).length = ds.length
  | [] => rfl
  | d :: ds => by
    have ih := count_split ds
    cases d with
    | nan => simp only [finsOf, List.filterMap_cons, List.filter_cons, Dec.isZero, Dec.isSpecial] at ih ⊢; simp; omega
    | inf n => simp only [finsOf, List.filterMap_cons, List.filter_cons, Dec.isZero, Dec.isSpecial] at ih ⊢; simp; omega
    | fin n c e =>
      by_cases hc : c = 0
      · subst hc
        simp only [finsOf, List.filterMap_cons, List.filter_cons, Dec.isZero, Dec.isSpecial] at ih ⊢
        simp; omega
      · have hz : Dec.isZero (.fin n c e) = false := by
          cases c with
          | zero => exact absurd rfl hc
          | succ k => rfl
        simp only [finsOf, List.filterMap_cons, List.filter_cons, hz, Dec.isSpecial, hc, if_false] at ih ⊢
        simp; omega

theorem foldl_min_le (rest : List (Nat × Int)) : ∀ (e0 : Int),
    rest.foldl (fun m (p : Nat × Int) => min m p.2) e0 ≤ e0 ∧
    ∀ p ∈ rest, rest.foldl (fun m (p : Nat × Int) => min m p.2) e0 ≤ p.2 := by
  induction rest with
  | nil => intro e0; exact ⟨Int.le_refl _, fun p hp => by cases hp⟩
  | cons q rest ih =>
    intro e0
    obtain ⟨h1, h2⟩ := ih (min e0 q.2)
    simp only [List.foldl_cons]
    refine ⟨by omega, fun p hp => ?_⟩
    rcases List.mem_cons.mp hp with rfl | hp
    · omega
    · exact h2 p hp

theorem le_foldl_max (rest : List (Nat × Int)) : ∀ (h0 : Int),
    h0 ≤ rest.foldl (fun m (p : Nat × Int) => max m (Dec.ndigits p.1 + p.2)) h0 ∧
    ∀ p ∈ rest, (Dec.ndigits p.1 : Int) + p.2 ≤ rest.foldl (fun m (p : Nat × Int) => max m (Dec.ndigits p.1 + p.2)) h0 := by
  induction rest with
  | nil => intro h0; exact ⟨Int.le_refl _, fun p hp => by cases hp⟩
  | cons q rest ih =>
    intro h0
    obtain ⟨h1, h2⟩ := ih (max h0 (Dec.ndigits q.1 + q.2))
    simp only [List.foldl_cons]
    refine ⟨by omega, fun p hp => ?_⟩
    rcases List.mem_cons.mp hp with rfl | hp
    · omega
    · exact h2 p hp

theorem mem_finsOf {ds : List Dec} {n : Bool} {c : Nat} {e : Int} (hd : Dec.fin n c e ∈ ds) (hc : c ≠ 0) :
    (c, e) ∈ finsOf ds := by
  simp only [finsOf, List.mem_filterMap]
  exact ⟨_, hd, by simp [hc]⟩

theorem absSum_le (lo : Int) (B : Nat) : ∀ (ds : List Dec), (∀ d ∈ ds, (valAt lo d).natAbs ≤ B) →
    absSum lo ds ≤ ds.length * B
  | [], _ => by simp [absSum]
  | d :: ds, h => by
    have h1 := h d (by simp)
    have h2 := absSum_le lo B ds (fun x hx => h x (List.mem_cons_of_mem _ hx))
    simp only [absSum, List.length_cons, Nat.add_mul, Nat.one_mul]
    omega

/-- **`sumOrderFree` makes every partial sum, in every order, exact** -/
theorem sumOrderFree_spec {ds : List Dec} (h : sumOrderFree ds = true) :
    ∃ lo, EMIN ≤ lo ∧ (∀ d ∈ ds, FinOK lo d) ∧ absSum lo ds < 10 ^ 34 := by
  rw [sumOrderFree_eq] at h
  split at h
  · cases h
  rename_i hlen
  simp only [bne_iff_ne, ne_eq, Decidable.not_not] at hlen
  -- no NaN, no infinity
  have hfin : ∀ d ∈ ds, Dec.isSpecial d = false := by
    have hc := count_split ds
    have hz : (ds.filter Dec.isZero).length ≤ ds.length := List.length_filter_le _ _
    have h0 : (ds.filter Dec.isSpecial).length = 0 := by omega
    intro d hd
    cases hs : Dec.isSpecial d
    · rfl
    · have hm : d ∈ ds.filter Dec.isSpecial := List.mem_filter.mpr ⟨hd, hs⟩
      rw [List.eq_nil_of_length_eq_zero h0] at hm
      cases hm
  cases hfs : finsOf ds with
  | nil =>
    -- every member is a zero
    refine ⟨0, by decide, fun d hd => ?_, ?_⟩
    · cases d with
      | nan => have := hfin _ hd; cases this
      | inf n => have := hfin _ hd; cases this
      | fin n c e =>
        intro hc
        have := mem_finsOf hd hc
        rw [hfs] at this; cases this
    · have : absSum 0 ds ≤ ds.length * 0 := absSum_le 0 0 ds fun d hd => by
        cases d with
        | nan => simp [valAt]
        | inf n => simp [valAt]
        | fin n c e =>
          by_cases hc : c = 0
          · subst hc; simp [valAt, sv_zero]
          · have := mem_finsOf hd hc
            rw [hfs] at this; cases this
      have h34 : 0 < 10 ^ 34 := by decide
      omega
  | cons p rest =>
    obtain ⟨c0, e0⟩ := p
    rw [hfs] at h
    simp only [decide_eq_true_eq] at h
    obtain ⟨hA, hB, hC⟩ := h
    obtain ⟨hmin0, hmin⟩ := foldl_min_le rest e0
    obtain ⟨hmax0, hmax⟩ := le_foldl_max rest (Dec.ndigits c0 + e0)
    generalize hlo : rest.foldl (fun m (p : Nat × Int) => min m p.2) e0 = lo at hA hB hmin0 hmin
    generalize hhi : rest.foldl (fun m (p : Nat × Int) => max m (Dec.ndigits p.1 + p.2)) (Dec.ndigits c0 + e0) = hi
      at hA hC hmax0 hmax
    have hmem : ∀ q ∈ finsOf ds, lo ≤ q.2 ∧ (Dec.ndigits q.1 : Int) + q.2 ≤ hi := by
      intro q hq
      rw [hfs] at hq
      rcases List.mem_cons.mp hq with rfl | hq
      · exact ⟨hmin0, hmax0⟩
      · exact ⟨hmin q hq, hmax q hq⟩
    have hlohi : lo ≤ hi := by
      have := hmem (c0, e0) (by rw [hfs]; simp)
      simp only at this
      omega
    refine ⟨lo, hB, fun d hd => ?_, ?_⟩
    · cases d with
      | nan => have := hfin _ hd; cases this
      | inf n => have := hfin _ hd; cases this
      | fin n c e =>
        intro hc
        have := hmem (c, e) (mem_finsOf hd hc)
        simp only at this
        have hE : (6000 : Int) ≤ EMAX := by decide
        constructor <;> omega
    · -- each value is below 10^(hi-lo), and there are fewer than 10^(ndigits length) of them
      have hB1 : ∀ d ∈ ds, (valAt lo d).natAbs ≤ 10 ^ (hi - lo).toNat := by
        intro d hd
        cases d with
        | nan => simp [valAt]
        | inf n => simp [valAt]
        | fin n c e =>
          by_cases hc : c = 0
          · subst hc; simp [valAt, sv_zero]
          · have := hmem (c, e) (mem_finsOf hd hc)
            simp only at this
            simp only [valAt, sv_natAbs, pow10]
            have h1 : c < 10 ^ Dec.ndigits c := lt_pow_ndigits c
            have h2 : Dec.ndigits c + (e - lo).toNat ≤ (hi - lo).toNat := by omega
            calc c * 10 ^ (e - lo).toNat ≤ 10 ^ Dec.ndigits c * 10 ^ (e - lo).toNat :=
                  Nat.mul_le_mul_right _ (Nat.le_of_lt h1)
              _ = 10 ^ (Dec.ndigits c + (e - lo).toNat) := (Nat.pow_add _ _ _).symm
              _ ≤ 10 ^ (hi - lo).toNat := Nat.pow_le_pow_right (by decide) h2
      have hsum := absSum_le lo _ ds hB1
      have hlen' : ds.length < 10 ^ Dec.ndigits ds.length := lt_pow_ndigits _
      have hexp : Dec.ndigits ds.length + (hi - lo).toNat ≤ 34 := by omega
      calc absSum lo ds ≤ ds.length * 10 ^ (hi - lo).toNat := hsum
        _ < 10 ^ Dec.ndigits ds.length * 10 ^ (hi - lo).toNat :=
            Nat.mul_lt_mul_of_pos_right hlen' (Nat.pow_pos (by decide))
        _ = 10 ^ (Dec.ndigits ds.length + (hi - lo).toNat) := (Nat.pow_add _ _ _).symm
        _ ≤ 10 ^ 34 := Nat.pow_le_pow_right (by decide) hexp

/-- `[1, 2.5, 0]` satisfies the side condition; `[1, NaN]` and `[1e6000, 1]` do not -/
example : sumOrderFree [.fin false 1 0, .fin false 25 (-1), .fin false 0 7] = true := by decide
example : sumOrderFree [.fin false 1 0, .nan] = false := by decide
example : sumOrderFree [.fin false 1 6000, .fin false 1 0] = false := by decide
example : ∃ lo, EMIN ≤ lo ∧ (∀ d ∈ [Dec.fin false 1 0, .fin false 25 (-1)], FinOK lo d) ∧
    absSum lo [Dec.fin false 1 0, .fin false 25 (-1)] < 10 ^ 34 := sumOrderFree_spec (by decide)

/-! ### `sum` / `avg` -/

theorem sumDec_eq : ∀ (xs : List Val) (acc : Dec),
    sumDec xs acc = (allDecimals xs).map (fun ds => ds.foldl Dec.add acc)
  | [], acc => rfl
  | x :: xs, acc => by
    simp only [sumDec, allDecimals]
    cases hd : toDecimal x with
    | none => rfl
    | some d =>
      simp only [sumDec_eq xs (acc.add d)]
      cases allDecimals xs <;> rfl

theorem filterMap_toDecimal : ∀ {xs : List Val} {ds : List Dec}, allDecimals xs = some ds →
    xs.filterMap toDecimal = ds
  | [], ds, h => by simp only [allDecimals] at h; cases h; rfl
  | x :: xs, ds, h => by
    simp only [allDecimals] at h
    cases hd : toDecimal x with
    | none => rw [hd] at h; cases h
    | some d =>
      rw [hd] at h
      cases hr : allDecimals xs with
      | none => rw [hr] at h; cases h
      | some ds' =>
        rw [hr] at h; cases h
        simp only [List.filterMap_cons, hd, filterMap_toDecimal hr]

theorem enumSumOk_of_ne {t : ATag} (xs : List Val) (h : t ≠ .enum) : enumSumOk t xs = true := by
  cases t <;> first | rfl | exact absurd rfl h

/-- the sum of the run's array is the sum of the model's, whenever the model answers -/
theorem sumDec_run {t t' : ATag} {xs xs' : List Val} (h : Conc (.arr t xs) (.arr t' xs'))
    (hok : ∀ ds, allDecimals xs = some ds → enumSumOk t xs = true) :
    sumDec xs' Dec.zero = sumDec xs Dec.zero := by
  obtain ⟨t'', xs'', e, hne, hp, _, _⟩ := conc_arr h
  cases e
  rw [sumDec_eq, sumDec_eq]
  cases hd : allDecimals xs with
  | none =>
    obtain ⟨x, hx, h1⟩ := (allDecimals_none_iff _).mp hd
    obtain ⟨x', hx', cx⟩ := concP_mem_left hp x hx
    rw [(allDecimals_none_iff _).mpr ⟨x', hx', by rw [conc_toDecimal cx, h1]⟩]
  | some ds =>
    have hflat := flat_of_dec hd
    cases he : enum2 t xs with
    | false =>
      obtain ⟨t'', xs'', e2, _, hl, _⟩ := conc_arr_pos h he
      cases e2
      rw [concL_flat_eq hl hflat, hd]
    | true =>
      have hperm := concP_flat hp hflat
      obtain ⟨ds', hd', hpds⟩ := decimals_perm hd hperm
      rw [hd']
      simp only [Option.map_some]
      -- the model's side condition
      have hsof : sumOrderFree ds = true := by
        have hok := hok ds hd
        simp only [enum2, Bool.and_eq_true, beq_iff_eq, decide_eq_true_eq] at he
        obtain ⟨rfl, hlen⟩ := he
        simp only [enumSumOk, Bool.or_eq_true, decide_eq_true_eq] at hok
        rcases hok with h1 | h1
        · omega
        · rwa [filterMap_toDecimal hd] at h1
      obtain ⟨lo, hlo, hf, hb⟩ := sumOrderFree_spec hsof
      rw [(foldl_add_perm lo hlo hpds hf hb).1]

theorem numSum_run {a a' : Val} (h : Conc a a') (hnd : numSum a ≠ .nondet) : numSum a' = numSum a := by
  cases a with
  | arr t xs =>
    obtain ⟨t', xs', rfl, hne, _⟩ := conc_arr h
    have hok : ∀ ds, allDecimals xs = some ds → enumSumOk t xs = true := by
      intro ds hd
      cases hk : enumSumOk t xs
      · exfalso
        apply hnd
        simp only [numSum, sumDec_eq, hd, Option.map_some, hk]
        rfl
      · rfl
    have hrun := sumDec_run h hok
    simp only [numSum, hrun, enumSumOk_of_ne xs' hne]
    cases hs : sumDec xs Dec.zero with
    | none => rfl
    | some r =>
      rw [sumDec_eq] at hs
      cases hd : allDecimals xs with
      | none => rw [hd] at hs; cases hs
      | some ds => simp only [hok ds hd]
  | obj kvs => obtain ⟨kvs', rfl, _⟩ := conc_obj h; rfl
  | null | bool _ | num _ | foreign _ | str _ => simp only [Conc] at h; subst h; rfl

theorem numAvg_run {a a' : Val} (h : Conc a a') (hnd : numAvg a ≠ .nondet) : numAvg a' = numAvg a := by
  cases a with
  | arr t xs =>
    obtain ⟨t', xs', rfl, hne, hp, _, _⟩ := conc_arr h
    by_cases hxe : xs.isEmpty = true
    · have : xs'.isEmpty = true := by rw [isEmpty_eq_of_length hp.length]; exact hxe
      simp only [numAvg, hxe, this, if_true]
    · have hxe' : xs.isEmpty = false := by simpa using hxe
      have hxe2 : xs'.isEmpty = false := by rw [isEmpty_eq_of_length hp.length]; exact hxe'
      have hok : ∀ ds, allDecimals xs = some ds → enumSumOk t xs = true := by
        intro ds hd
        cases hk : enumSumOk t xs
        · exfalso
          apply hnd
          simp only [numAvg, hxe', Bool.false_eq_true, if_false, sumDec_eq, hd, Option.map_some, hk]
        · rfl
      have hrun := sumDec_run h hok
      simp only [numAvg, hxe', hxe2, Bool.false_eq_true, if_false, hrun, enumSumOk_of_ne xs' hne, ← hp.length]
      cases hs : sumDec xs Dec.zero with
      | none => rfl
      | some r =>
        rw [sumDec_eq] at hs
        cases hd : allDecimals xs with
        | none => rw [hd] at hs; cases hs
        | some ds => simp only [hok ds hd]
  | obj kvs => obtain ⟨kvs', rfl, _⟩ := conc_obj h; rfl
  | null | bool _ | num _ | foreign _ | str _ => simp only [Conc] at h; subst h; rfl

/-- **`sum`**: whenever the model answers, every run computes exactly the same outcome -/
theorem numSum_simE {a a' : Val} (h : Conc a a') : SimE (numSum a) (numSum a') := by
  intro v hv
  have hnd : numSum a ≠ .nondet := by rw [hv]; intro e; cases e
  refine ⟨v, by rw [numSum_run h hnd, hv], ?_⟩
  exact conc_of_sat (r := numSum a') (numSum_sat (s := true) (conc_good _ _ h)) v (by rw [numSum_run h hnd, hv])

theorem numSum_errH {a a' : Val} (h : Conc a a') : ErrH (numSum a) (numSum a') := by
  intro cs hc
  have hnd : numSum a ≠ .nondet := by rw [hc]; intro e; cases e
  exact ErrH.of_sub (.of_eq (numSum_run h hnd)) (goodR_single (numSum_sat (s := true) (conc_good _ _ h))) cs hc

theorem numAvg_simE {a a' : Val} (h : Conc a a') : SimE (numAvg a) (numAvg a') := by
  intro v hv
  have hnd : numAvg a ≠ .nondet := by rw [hv]; intro e; cases e
  refine ⟨v, by rw [numAvg_run h hnd, hv], ?_⟩
  exact conc_of_sat (r := numAvg a') (numAvg_sat (s := true) (conc_good _ _ h)) v (by rw [numAvg_run h hnd, hv])

theorem numAvg_errH {a a' : Val} (h : Conc a a') : ErrH (numAvg a) (numAvg a') := by
  intro cs hc
  have hnd : numAvg a ≠ .nondet := by rw [hc]; intro e; cases e
  exact ErrH.of_sub (.of_eq (numAvg_run h hnd)) (goodR_single (numAvg_sat (s := true) (conc_good _ _ h))) cs hc

end Jmes.C15C
