/-
  C02 (nested calls), part 1: "a well-formed left context does not hide an error".

  The completeness proof of the parser (`GrammarF0` / `GrammarF2`) is stated for successful continuations only.  This
  file redoes it for a *failing* continuation:

  * `loop_split_res`, `operand_lower_res` — the Pratt loop lemma for an arbitrary result (success or any error other than
    fuel exhaustion) of the continuation;
  * `Hard E`, `Fails E b p toks`, `LoopFails E p toks` — "reading the tokens `toks` (as an expression / as the
    right-hand side of a projection / by the operator loop) at power `p` ends in the error `E`, whatever follows";
  * `ReachE E b t` / `completeE` — the error version of `GrammarF0.Reach` / `GrammarF2.complete`: when the operator loop
    started after the well-formed tree `t` fails with `E`, so does reading the tokens of `t` and what follows;
  * `fails_after` — its token-level form: a failing loop after a well-formed left operand is a failing expression.

  The closure lemmas (one for each way a sub-expression can sit in a larger one) are in `C02CArity2.lean`, the packaging
  (`Bad`, `bad_fails`, `nested_arity`) in `C02CArity3.lean`.
-/
import Jmes.Properties.C02B
namespace Jmes.C02CArity
open Jmes Jmes.Parser Jmes.Pratt Jmes.Grammar Jmes.GrammarF0
set_option linter.unusedSimpArgs false

/-! ## Results other than fuel exhaustion survive more fuel -/

/-- a result other than `error fuel` is unchanged by a refinement -/
theorem Le.res {α} {x y : PM α} (h : Le x y) {s : PState} {R : Except PErr (α × PState)} (hx : x s = R)
    (hR : R ≠ .error .fuel) : y s = R := by
  rw [h.h s (by rw [hx]; exact hR), hx]

/-- an error other than `fuel` is never `error fuel` -/
theorem err_ne_fuel {α} {E : PErr} (hE : E ≠ .fuel) : (Except.error E : Except PErr α) ≠ .error .fuel := by
  intro h; cases h; exact hE rfl

/-! ## Loop splitting for an arbitrary result -/

/-- `Pratt.Rel` with an arbitrary final result `R` instead of a success -/
structure RelR (R : Except PErr (INode × PState)) (C : INode → PState → Prop) (x y : PM INode) : Prop where
  h : ∀ s a s2, x s = .ok (a, s2) → C a s2 → y s = R

/-- a computation that fails at once never reaches the continuation -/
theorem RelR.fail {R C e} {y : PM INode} : RelR R C (fail e) y := ⟨fun _ _ _ h => by cases h⟩

/-- the two computations start with the same step (the second with more fuel) and are related afterwards -/
theorem RelR.bind {α R C} {x y : PM α} {f f' : α → PM INode} (h1 : Le x y) (h2 : ∀ r, RelR R C (f r) (f' r)) :
    RelR R C (x >>= f) (y >>= f') := by
  constructor
  intro s a s2 hx hC
  rw [bind_run] at hx
  cases hxs : x s with
  | error e => rw [hxs] at hx; cases hx
  | ok r =>
    obtain ⟨r, s'⟩ := r
    rw [hxs] at hx
    rw [bind_ok (h1.ok hxs)]
    exact (h2 r).h s' a s2 hx hC

/-- the same test in both computations -/
theorem RelR.ite {R C} {c : Prop} [Decidable c] {a a' b b' : PM INode} (h1 : RelR R C a a') (h2 : RelR R C b b') :
    RelR R C (if c then a else b) (if c then a' else b') := by
  split <;> assumption

/-- walks two copies of the loop body that differ in the fuel and in the power of the final loop call -/
macro "relr_tac" hm:ident ih:ident : tactic => `(tactic|
  repeat (first
    | exact RelR.fail
    | exact $ih _
    | exact Le.refl _
    | exact Mono.expr $hm _
    | exact Mono.loop $hm _ _
    | exact Mono.filt $hm
    | exact Mono.proj $hm _
    | exact Mono.sarr $hm _
    | exact Mono.sobj $hm _
    | apply RelR.bind
    | apply RelR.ite
    | intro _
    | split))

/-- **The Pratt loop lemma, for any result.**  If the loop at power `q` takes `n0` to `a` and stops in state `s2`, the
    loop at a lower power `p ≤ q` does the same work and then carries on from `a` in `s2` — whatever the outcome `R` of
    that continuation is (a success, or any error but fuel exhaustion). -/
theorem loop_split_rel_res {p q g : Nat} (hpq : p ≤ q) {R : Except PErr (INode × PState)} (hR : R ≠ .error .fuel) :
    ∀ f n0, RelR R (fun a s2 => exprLoop g a p s2 = R) (exprLoop f n0 q) (exprLoop (f + g) n0 p)
  | 0, n0 => by rw [exprLoop.eq_1]; exact RelR.fail
  | f + 1, n0 => by
    have ih := loop_split_rel_res (g := g) hpq hR f
    have hm : Mono f (f + g) := mono_le (by omega)
    constructor
    intro s a s2 hx hC
    rw [exprLoop.eq_2, bind_ok (currType_run s)] at hx
    by_cases h : precedence s.curr.type ≤ q
    · simp only [h, if_true] at hx
      cases hx
      exact Le.res ((mono_le (by omega)).loop _ _) hC hR
    · have h' : ¬ precedence s.curr.type ≤ p := by omega
      by_cases hnot : s.curr.type = .not
      · simp only [h, if_false] at hx
        rw [hnot] at hx
        simp only [binOpOf] at hx
        cases hx
        exact Le.res ((mono_le (by omega)).loop _ _) hC hR
      · rw [Nat.add_right_comm, exprLoop.eq_2, bind_ok (currType_run s)]
        simp only [h, h', if_false] at hx ⊢
        generalize s.curr.type = t at *
        refine (?_ : RelR R (fun a s2 => exprLoop g a p s2 = R) _ _).h s a s2 hx hC
        clear hx hC
        cases t <;> first
          | exact absurd rfl hnot
          | exact absurd (Nat.zero_le _) h
          | (simp only [binOpOf]; relr_tac hm ih)

/-- the loop lemma as an equation between two runs -/
theorem loop_split_res {p q f g : Nat} {n0 a : INode} {s1 s2 : PState} {R : Except PErr (INode × PState)}
    (hpq : p ≤ q) (hR : R ≠ .error .fuel)
    (h1 : exprLoop f n0 q s1 = .ok (a, s2)) (h2 : exprLoop g a p s2 = R) :
    exprLoop (f + g) n0 p s1 = R :=
  (loop_split_rel_res hpq hR f n0).h s1 a s2 h1 h2

/-- an expression read at power `q`, read again at a lower power `p`: the loop at power `p` carries on where the first
    reading stopped, with whatever result -/
theorem operand_lower_res {fA q p g : Nat} {s s2 : PState} {a : INode} {R : Except PErr (INode × PState)}
    (hA : expression fA q s = .ok (a, s2)) (hpq : p ≤ q) (hR : R ≠ .error .fuel)
    (hk : exprLoop g a p s2 = R) :
    expression (fA + g) p s = R := by
  cases fA with
  | zero => rw [expression.eq_1] at hA; cases hA
  | succ f =>
    rw [expression_succ_run] at hA
    cases hp : primaryExpression f s with
    | error e => rw [hp] at hA; cases hA
    | ok r =>
      obtain ⟨n0, s1⟩ := r
      rw [hp] at hA
      rw [Nat.add_right_comm, expression_of_prim (primaryExpression_mono (by omega) hp)]
      exact loop_split_res hpq hR hA hk

/-! ## Failing, whatever follows -/

/-- the errors that the lemmas below propagate: not the model's fuel artefact, and not the syntax error (a few
    lemmas tell the two apart by the first token: `[` followed by a number is an index, `name(` followed by `)` is a call
    without arguments) -/
def Hard (E : PErr) : Prop := E ≠ .fuel ∧ E ≠ .unexpectedToken

/-- the arity error is a hard error -/
theorem hard_arity : Hard .invalidFunctionCall := ⟨by decide, by decide⟩

/-- reading the tokens `ts` at power `prec` — as an expression (`b = false`) or as the right-hand side of a projection
    (`b = true`) — ends in the error `E` -/
def GoalE (E : PErr) (b : Bool) (f prec : Nat) (ts : List Token) : Prop :=
  match b with
  | false => expression f prec (stOf ts) = .error E
  | true => projection f prec (stOf ts) = .error E

/-- more fuel does not change a failure other than fuel exhaustion -/
theorem GoalE.mono {E b f g prec ts} (h : GoalE E b f prec ts) (hE : E ≠ .fuel) (hfg : f ≤ g) :
    GoalE E b g prec ts := by
  cases b
  · exact C02B.Le.err ((mono_le hfg).expr _) h hE
  · exact C02B.Le.err ((mono_le hfg).proj _) h hE

/-- **`Fails E b p toks`**: the tokens `toks`, read at power `p` in primary position (`b = false`, by `expression`) or in
    right-hand-side position (`b = true`, by `projection`), make the parser fail with `E` — with enough fuel, and
    whatever tokens follow (the parser fails before it looks at them) -/
def Fails (E : PErr) (b : Bool) (p : Nat) (toks : List Token) : Prop :=
  Hard E ∧ ∀ rest, ∃ F, GoalE E b F p (toks ++ rest)

/-- **`LoopFails E p toks`**: the operator loop at power `p`, with any left operand in hand and the tokens `toks`
    ahead, fails with `E` -/
def LoopFails (E : PErr) (p : Nat) (toks : List Token) : Prop :=
  Hard E ∧ ∀ n rest, ∃ F, exprLoop F n p (stOf (toks ++ rest)) = .error E

/-- what follows the failure is arbitrary -/
theorem Fails.append {E b p toks} (h : Fails E b p toks) (more : List Token) : Fails E b p (toks ++ more) :=
  ⟨h.1, fun rest => by rw [List.append_assoc]; exact h.2 (more ++ rest)⟩

/-- what follows a failing loop is arbitrary -/
theorem LoopFails.append {E p toks} (h : LoopFails E p toks) (more : List Token) : LoopFails E p (toks ++ more) :=
  ⟨h.1, fun n rest => by rw [List.append_assoc]; exact h.2 n (more ++ rest)⟩

/-- unfolding `Fails` in primary position -/
theorem Fails.expr {E p toks} (h : Fails E false p toks) (rest : List Token) :
    ∃ F, expression F p (stOf (toks ++ rest)) = .error E := h.2 rest

/-- unfolding `Fails` in right-hand-side position -/
theorem Fails.proj {E p toks} (h : Fails E true p toks) (rest : List Token) :
    ∃ F, projection F p (stOf (toks ++ rest)) = .error E := h.2 rest

/-! ## The error version of `Reach` -/

/-- the error version of `GrammarF0.Reach`: when the operator loop started with `erase t` in hand fails with `E`, so
    does reading the tokens of `t` and what follows -/
def ReachE (E : PErr) (b : Bool) (t : PTree) : Prop :=
  ∀ prec, prec < llevel t → (b = true → prec ≤ lvlDot) → ∀ rest, Follow (rlevel t) rest → ∀ g,
    exprLoop g (erase t) prec (stOf rest) = .error E → ∃ f, GoalE E b f prec (flat b t ++ rest)

/-- no token binds tighter than `[` -/
theorem prec_le_13 (t : TokenType) : precedence t ≤ 13 := by cases t <;> decide

/-- a tree that is as tight as an atom seen from the left (primary forms, and the forms whose left operand is the
    implicit current node, in primary position): read it at the highest power, then split the loop -/
theorem reachE_of_top {E : PErr} (hE : E ≠ .fuel) {t : PTree} (h : Reach false t) (htop : llevel t = top) :
    ReachE E false t := by
  intro prec hp _ rest hr g hk
  obtain ⟨f, hf⟩ := h.operand (p := 13) (by rw [htop]; decide) (rest := rest)
    ⟨Nat.le_min.2 ⟨prec_le_13 _, hr.1⟩, hr.2⟩
  refine ⟨f + g, ?_⟩
  show expression _ _ _ = _
  rw [htop] at hp
  exact operand_lower_res hf (by simp only [top] at hp; omega) (err_ne_fuel hE) hk

/-- one step of the operator loop: with the node of `l` in hand, the tokens `toks` turn it into the node of `t` -/
def Step (l t : PTree) (toks : List Token) : Prop :=
  ∀ prec, prec < llevel t → ∀ rest, Follow (rlevel t) rest → ∃ F0, ∀ F, F0 ≤ F →
    exprLoop (F + 1) (erase l) prec (stOf (toks ++ rest)) = exprLoop F (erase t) prec (stOf rest)

/-- a form with a left operand `l`: one step of the operator loop (the error version of `reach_of_step`) -/
theorem reachE_of_step {E : PErr} (hE : E ≠ .fuel) {b : Bool} {l t : PTree} {toks : List Token} (hl : ReachE E b l)
    (hflat : flat b t = flat b l ++ toks) (hll : llevel t ≤ llevel l)
    (hfol : ∀ rest, Follow (rlevel l) (toks ++ rest)) (hstep : Step l t toks) :
    ReachE E b t := by
  intro prec hp hb rest hr g hk
  obtain ⟨F0, hF⟩ := hstep prec hp rest hr
  have h1 := hF (max F0 g) (Nat.le_max_left _ _)
  rw [C02B.Le.err ((mono_le (Nat.le_max_right F0 g)).loop _ _) hk hE] at h1
  obtain ⟨f, hf⟩ := hl prec (Nat.lt_of_lt_of_le hp hll) hb (toks ++ rest) (hfol rest) _ h1
  exact ⟨f, by rw [hflat, List.append_assoc]; exact hf⟩

/-! ## The first selector of a right-hand side, followed by a failing loop -/

/-- `.[*]` as first selector, then a failing loop -/
theorem proj_dotStarList_err {E : PErr} {F p : Nat} {ts : List Token}
    (hk : exprLoop F (.selectArraySingleCurrent .objectValuesCurrent) p (stOf ts) = .error E) :
    projection (F + 1) p (stOf (tDot :: tArrayStar :: ts)) = .error E := by
  rw [projection.eq_2]
  pm_eval [hk]

/-- `.{…}` as first selector, then a failing loop -/
theorem proj_dotHash_err {E : PErr} {F p : Nat} {ts1 ts2 : List Token} {m : INode}
    (hm : selectObject F none (stOf ts1) = .ok (m, stOf ts2)) (hk : exprLoop F m p (stOf ts2) = .error E) :
    projection (F + 1) p (stOf (tDot :: tLBrace :: ts1)) = .error E := by
  rw [projection.eq_2]
  pm_eval [hm, hk]

/-- `.[…]` as first selector, then a failing loop -/
theorem proj_dotList_err {E : PErr} {F p : Nat} {ts1 ts2 : List Token} {m : INode}
    (hm : selectArray F none (stOf ts1) = .ok (m, stOf ts2)) (hk : exprLoop F m p (stOf ts2) = .error E) :
    projection (F + 1) p (stOf (tDot :: tLBracket :: ts1)) = .error E := by
  rw [projection.eq_2]
  pm_eval [hm, hk]

/-- `.name…` as first selector: the failure of the expression that starts at the name -/
theorem proj_dotId_err {E : PErr} {F p : Nat} {t : Token}
    (ht : t.type = .unquotedIdentifier ∨ t.type = .quotedIdentifier)
    {ts : List Token} (hk : expression F p (stOf (t :: ts)) = .error E) :
    projection (F + 1) p (stOf (tDot :: t :: ts)) = .error E := by
  rw [projection.eq_2]
  rcases ht with ht | ht <;> pm_eval [ht, hk]

/-- `[*]…` / `[?…]…` as first selector (read by `primaryExpression`), then a failing loop -/
theorem proj_prim_err {E : PErr} {F p : Nat} {ts ts2 : List Token}
    (ht : (stOf ts).curr.type = .arrayWildcard ∨ (stOf ts).curr.type = .filter) {m : INode}
    (hm : primaryExpression F (stOf ts) = .ok (m, stOf ts2)) (hk : exprLoop F m p (stOf ts2) = .error E) :
    projection (F + 1) p (stOf ts) = .error E := by
  rw [projection.eq_2]
  rcases ht with ht | ht <;> pm_eval [ht, hm, hk]

/-- `.*…` as first selector, then a failing loop -/
theorem proj_ostar_err {E : PErr} {F p : Nat} {ts1 ts2 : List Token} {o : Option INode}
    (hr : projection F projectionPrecedence (stOf ts1) = .ok (o, stOf ts2))
    (hk : exprLoop F (ostarNode none o) p (stOf ts2) = .error E) :
    projection (F + 1) p (stOf (tDotStar :: ts1)) = .error E := by
  rw [projection.eq_2]
  pm_eval [hr]
  cases o <;> pm_eval [ostarNode, hk] <;> simp only [ostarNode] at hk <;> pm_eval [hk]

/-- `[n]` as first selector, then a failing loop -/
theorem proj_index_err {E : PErr} {F p : Nat} {nt : Token} {i : Int} (hn : nt.type = .integerLiteral)
    (hi : parseInt64 nt.value = some i) {rest : List Token}
    (hk : exprLoop F (indexNode none i) p (stOf rest) = .error E) :
    projection (F + 1) p (stOf (tLBracket :: nt :: tRBracket :: rest)) = .error E := by
  rw [projection.eq_2]
  pm_eval []
  rw [indexP_index none hn hi rest]
  pm_eval [hk]

/-- `[a:b:c]…` as first selector, then a failing loop -/
theorem proj_slice_err {E : PErr} {F p : Nat} {a b : Option Token} {c : Option (Option Token)}
    (h : sliceOK a b c = true) {ts1 ts2 : List Token} {o : Option INode}
    (hr : projection F projectionPrecedence (stOf ts1) = .ok (o, stOf ts2))
    (hk : exprLoop F (.projectArray (sliceNode none (a.bind intOf) (b.bind intOf) (c.bind fun s => s.bind intOf))
        (o.getD .current)) p (stOf ts2) = .error E) :
    projection (F + 1) p (stOf (tLBracket :: (sliceToks a b c ++ tRBracket :: ts1))) = .error E := by
  rw [projection.eq_2]
  pm_eval []
  rw [indexP_slice none h ts1]
  pm_eval [hr, hk]

/-- more fuel for a failing loop -/
theorem loop_err_mono {E : PErr} (hE : E ≠ .fuel) {f g : Nat} {n p s} (hfg : f ≤ g)
    (h : exprLoop f n p s = .error E) : exprLoop g n p s = .error E :=
  C02B.Le.err ((mono_le hfg).loop _ _) h hE

/-- more fuel for a failing expression -/
theorem expr_err_mono {E : PErr} (hE : E ≠ .fuel) {f g : Nat} {p s} (hfg : f ≤ g)
    (h : expression f p s = .error E) : expression g p s = .error E :=
  C02B.Le.err ((mono_le hfg).expr _) h hE

/-- more fuel for a failing right-hand side -/
theorem proj_err_mono {E : PErr} (hE : E ≠ .fuel) {f g : Nat} {p s} (hfg : f ≤ g)
    (h : projection f p s = .error E) : projection g p s = .error E :=
  C02B.Le.err ((mono_le hfg).proj _) h hE

/-! ## Every form of the grammar -/

/-- the statement proved by induction on the tree -/
def QE (E : PErr) (t : PTree) : Prop := ∀ b, wp b t = true → ReachE E b t

open Jmes.GrammarF2 (complete left_cases rhs_run filter_run mem_wpL mem_wpKVs ne_nil_of_isEmpty follow_of
  startsWithIdent_cons)

section forms
variable {E : PErr} (hE : E ≠ .fuel)
include hE

/-- a form that `wp` only admits in primary position and that is as tight as an atom -/
theorem qE_of_top {t : PTree} (h0 : wp true t = false) (htop : llevel t = top) : QE E t := by
  intro b hw
  cases b
  · exact reachE_of_top hE (complete t false hw) htop
  · rw [h0] at hw; cases hw

/-- `l op r`: one loop step after `l` -/
theorem reachE_bin {op : Token} {l r : PTree} (hl : QE E l) : QE E (.bin op l r) := by
  intro b h
  simp only [wp] at h
  split at h
  · cases h
  rename_i lvl hlvl
  simp only [Bool.and_eq_true, Bool.not_eq_true', decide_eq_true_eq] at h
  obtain ⟨⟨⟨⟨hi, hwl⟩, hle⟩, hwr⟩, hlt⟩ := h
  have hprec := binLevel_precedence hlvl
  refine reachE_of_step hE (toks := op :: flat false r) (hl b hwl)
    (by simp only [flat, List.append_assoc, List.cons_append, List.nil_append]) ?_ ?_ ?_
  · simp only [llevel, hlvl, Option.getD_some, lmin_of_ne hi]; exact Nat.min_le_right _ _
  · intro rest
    exact ⟨by show precedence op.type ≤ _; rw [hprec]; exact hle, (mkBin_prec (binLevel_mkBin hlvl)).2.2⟩
  · intro prec hp rest hfr
    simp only [llevel, rlevel, hlvl, Option.getD_some, lmin_of_ne hi] at hp hfr
    obtain ⟨f, hf⟩ := (complete r false hwr).operand (p := lvl) hlt (rest := rest) hfr
    refine ⟨f, fun F hF => ?_⟩
    rw [List.cons_append, loop_bin hlvl (by omega) (expression_mono hF hf)]
    simp only [erase]

/-- `l.r`: one loop step after `l`; `.r` as first selector of a right-hand side continues as `r` does -/
theorem reachE_dotId {l r : PTree} (hl : QE E l) (hr : QE E r) : QE E (.dotId l r) := by
  intro b h
  simp only [wp, Bool.and_eq_true, decide_eq_true_eq] at h
  obtain ⟨⟨⟨hleft, hwr⟩, hlt⟩, hs⟩ := h
  obtain ⟨t, ts, hflat, ht⟩ := startsWithIdent_cons hs
  rcases left_cases hleft with ⟨rfl, hb⟩ | ⟨hi, hwl, hle⟩
  · subst hb
    intro prec _ hp' rest hfr g hk
    simp only [erase, optNode_icur, subNode, rlevel] at hk hfr
    have := hp' rfl
    obtain ⟨f, hf⟩ := hr false hwr prec (by omega) (fun h => by cases h) rest
      (hfr.mono (Nat.min_le_right _ _)) g hk
    refine ⟨f + 1, ?_⟩
    show projection _ _ _ = _
    simp only [flat, List.nil_append, List.cons_append]
    change expression f prec (stOf (flat false r ++ rest)) = _ at hf
    rw [hflat] at hf ⊢
    simp only [List.cons_append] at hf ⊢
    exact proj_dotId_err ht hf
  · refine reachE_of_step hE (toks := tDot :: flat false r) (hl b hwl)
      (by simp only [flat, List.append_assoc, List.cons_append, List.nil_append]) ?_ ?_ ?_
    · simp only [llevel, lmin_of_ne hi]; exact Nat.min_le_right _ _
    · intro rest; exact follow_of hle
    · intro prec hp rest hfr
      simp only [llevel, rlevel, lmin_of_ne hi] at hp hfr
      obtain ⟨f, hf⟩ := (complete r false hwr).operand (p := lvlDot) hlt (rest := rest) hfr
      refine ⟨f, fun F hF => ?_⟩
      have hf' := expression_mono hF hf
      rw [hflat] at hf' ⊢
      simp only [List.cons_append] at hf' ⊢
      rw [loop_dotId (by omega) ht hf']
      simp only [erase, optNode_of_ne hi, subNode]

/-- `l.[…]` -/
theorem reachE_dotList {l : PTree} {es : List PTree} (hl : QE E l) : QE E (.dotList l es) := by
  intro b h
  simp only [wp, Bool.and_eq_true] at h
  obtain ⟨⟨hleft, hne⟩, hw⟩ := h
  have hne := ne_nil_of_isEmpty hne
  have hwe := mem_wpL hw
  have hRe : ∀ e ∈ es, Reach false e := fun e he => complete e false (hwe e he)
  rcases left_cases hleft with ⟨rfl, hb⟩ | ⟨hi, hwl, hle⟩
  · subst hb
    intro prec _ _ rest _ g hk
    obtain ⟨f, hf⟩ := sarr_complete none rest es hne hRe hwe
    refine ⟨max f g + 1, ?_⟩
    show projection _ _ _ = _
    simp only [flat, List.nil_append, List.cons_append, List.append_assoc, List.singleton_append]
    refine proj_dotList_err (((mono_le (Nat.le_max_left f g)).sarr _).ok hf)
      (loop_err_mono hE (Nat.le_max_right f g) ?_)
    simpa only [erase, optNode_icur] using hk
  · refine reachE_of_step hE (toks := tDot :: tLBracket :: flatSep es ++ [tRBracket]) (hl b hwl)
      (by simp only [flat, List.append_assoc, List.cons_append, List.nil_append]) ?_ ?_ ?_
    · simp only [llevel, lmin_of_ne hi]; exact Nat.min_le_right _ _
    · intro rest; exact follow_of hle
    · intro prec hp rest _
      simp only [llevel, lmin_of_ne hi] at hp
      obtain ⟨f, hf⟩ := sarr_complete (some (erase l)) rest es hne hRe hwe
      refine ⟨f, fun F hF => ?_⟩
      simp only [List.cons_append, List.append_assoc, List.singleton_append, List.nil_append]
      rw [loop_dotList (by omega) (((mono_le hF).sarr _).ok hf)]
      simp only [erase, optNode_of_ne hi]

/-- `l.{…}` -/
theorem reachE_dotHash {l : PTree} {kvs : List (Token × PTree)} (hl : QE E l) : QE E (.dotHash l kvs) := by
  intro b h
  simp only [wp, Bool.and_eq_true] at h
  obtain ⟨⟨hleft, hne⟩, hw⟩ := h
  have hne := ne_nil_of_isEmpty hne
  have hwe := mem_wpKVs hw
  have hRe : ∀ kv ∈ kvs, Reach false kv.2 := fun e he => complete e.2 false (hwe e he).2
  rcases left_cases hleft with ⟨rfl, hb⟩ | ⟨hi, hwl, hle⟩
  · subst hb
    intro prec _ _ rest _ g hk
    obtain ⟨f, hf⟩ := sobj_complete none rest kvs hne hRe hwe
    refine ⟨max f g + 1, ?_⟩
    show projection _ _ _ = _
    simp only [flat, List.nil_append, List.cons_append, List.append_assoc, List.singleton_append]
    refine proj_dotHash_err (((mono_le (Nat.le_max_left f g)).sobj _).ok hf)
      (loop_err_mono hE (Nat.le_max_right f g) ?_)
    simpa only [erase, optNode_icur] using hk
  · refine reachE_of_step hE (toks := tDot :: tLBrace :: flatKVs tColon kvs ++ [tRBrace]) (hl b hwl)
      (by simp only [flat, List.append_assoc, List.cons_append, List.nil_append]) ?_ ?_ ?_
    · simp only [llevel, lmin_of_ne hi]; exact Nat.min_le_right _ _
    · intro rest; exact follow_of hle
    · intro prec hp rest _
      simp only [llevel, lmin_of_ne hi] at hp
      obtain ⟨f, hf⟩ := sobj_complete (some (erase l)) rest kvs hne hRe hwe
      refine ⟨f, fun F hF => ?_⟩
      simp only [List.cons_append, List.append_assoc, List.singleton_append, List.nil_append]
      rw [loop_dotHash (by omega) (((mono_le hF).sobj _).ok hf)]
      simp only [erase, optNode_of_ne hi]

/-- `l.[*]` -/
theorem reachE_dotStarList {l : PTree} (hl : QE E l) : QE E (.dotStarList l) := by
  intro b h
  simp only [wp] at h
  rcases left_cases h with ⟨rfl, hb⟩ | ⟨hi, hwl, hle⟩
  · subst hb
    intro prec _ _ rest _ g hk
    refine ⟨g + 1, ?_⟩
    show projection _ _ _ = _
    simp only [flat, List.nil_append, List.cons_append]
    exact proj_dotStarList_err (by simpa only [erase, optNode_icur, listNode] using hk)
  · refine reachE_of_step hE (toks := [tDot, tArrayStar]) (hl b hwl)
      (by simp only [flat, List.append_assoc, List.cons_append, List.nil_append]) ?_ ?_ ?_
    · simp only [llevel, lmin_of_ne hi]; exact Nat.min_le_right _ _
    · intro rest; exact follow_of hle
    · intro prec hp rest _
      simp only [llevel, lmin_of_ne hi] at hp
      refine ⟨0, fun F _ => ?_⟩
      simp only [List.cons_append, List.nil_append]
      rw [loop_dotStarList (by omega)]
      simp only [erase, optNode_of_ne hi, listNode]

/-- `l[n]` -/
theorem reachE_index {l : PTree} {nt : Token} (hl : QE E l) : QE E (.index l nt) := by
  intro b h
  have h0 := h
  simp only [wp, Bool.and_eq_true, isIntTok_iff] at h
  obtain ⟨hleft, hn, i, hi'⟩ := h
  have hio : (intOf nt).getD 0 = i := by simp [intOf, hi']
  rcases left_cases hleft with ⟨rfl, _⟩ | ⟨hi, hwl, hle⟩
  · cases b
    · exact reachE_of_top hE (complete _ false h0) rfl
    · intro prec _ _ rest _ g hk
      refine ⟨g + 1, ?_⟩
      show projection _ _ _ = _
      simp only [flat, List.nil_append, List.cons_append]
      exact proj_index_err hn hi' (by simpa only [erase, optNode_icur, hio] using hk)
  · refine reachE_of_step hE (toks := [tLBracket, nt, tRBracket]) (hl b hwl)
      (by simp only [flat, List.append_assoc, List.cons_append, List.nil_append]) ?_ ?_ ?_
    · simp only [llevel, lmin_of_ne hi]; exact Nat.min_le_right _ _
    · intro rest; exact follow_of hle
    · intro prec hp rest _
      simp only [llevel, lmin_of_ne hi] at hp
      refine ⟨0, fun F _ => ?_⟩
      simp only [List.cons_append, List.nil_append]
      rw [loop_index (by omega) hn hi']
      simp only [erase, optNode_of_ne hi, indexNode, hio]

/-- `l[*] rhs` -/
theorem reachE_star {l rhs : PTree} (hl : QE E l) : QE E (.star l rhs) := by
  intro b h
  have h0 := h
  have hr := complete rhs
  simp only [wp, Bool.and_eq_true] at h
  obtain ⟨hleft, hrhs⟩ := h
  rcases left_cases hleft with ⟨rfl, _⟩ | ⟨hi, hwl, hle⟩
  · cases b
    · exact reachE_of_top hE (complete _ false h0) rfl
    · intro prec _ _ rest hfr g hk
      obtain ⟨f, hf⟩ := rhs_run hr hrhs hfr
      have hprim : primaryExpression (f + 1) (stOf (tArrayStar :: flat true rhs ++ rest)) =
          .ok (erase (.star .icur rhs), stOf rest) := by
        simp only [erase, optNode_icur, List.cons_append]; exact prim_star0 hf
      refine ⟨max (f + 1) g + 1, ?_⟩
      show projection _ _ _ = _
      simp only [flat, List.nil_append]
      exact proj_prim_err (Or.inl rfl) (primaryExpression_mono (Nat.le_max_left (f + 1) g) hprim)
        (loop_err_mono hE (Nat.le_max_right (f + 1) g) hk)
  · refine reachE_of_step hE (toks := tArrayStar :: flat true rhs) (hl b hwl)
      (by simp only [flat, List.append_assoc, List.cons_append, List.nil_append]) ?_ ?_ ?_
    · simp only [llevel, lmin_of_ne hi]; exact Nat.min_le_right _ _
    · intro rest; exact follow_of hle
    · intro prec hp rest hfr
      simp only [llevel, lmin_of_ne hi] at hp
      obtain ⟨f, hf⟩ := rhs_run hr hrhs hfr
      refine ⟨f, fun F hF => ?_⟩
      rw [List.cons_append, loop_star (by omega) (projection_mono hF hf)]
      simp only [erase, optNode_of_ne hi]

/-- `l.* rhs` -/
theorem reachE_ostar {l rhs : PTree} (hl : QE E l) : QE E (.ostar l rhs) := by
  intro b h
  have h0 := h
  have hr := complete rhs
  simp only [wp, Bool.and_eq_true] at h
  obtain ⟨hleft, hrhs⟩ := h
  rcases left_cases hleft with ⟨rfl, _⟩ | ⟨hi, hwl, hle⟩
  · cases b
    · exact reachE_of_top hE (complete _ false h0) rfl
    · intro prec _ _ rest hfr g hk
      obtain ⟨f, hf⟩ := rhs_run hr hrhs hfr
      refine ⟨max f g + 1, ?_⟩
      show projection _ _ _ = _
      simp only [flat, PTree.isIcur, if_true, List.singleton_append, List.cons_append]
      refine proj_ostar_err (projection_mono (Nat.le_max_left f g) hf) (loop_err_mono hE (Nat.le_max_right f g) ?_)
      simpa only [erase, optNode_icur] using hk
  · refine reachE_of_step hE (toks := tDotStar :: flat true rhs) (hl b hwl)
      (by simp only [flat, hi, Bool.false_eq_true, if_false, List.append_assoc, List.singleton_append]) ?_ ?_ ?_
    · simp only [llevel, lmin_of_ne hi]; exact Nat.min_le_right _ _
    · intro rest; exact follow_of hle
    · intro prec hp rest hfr
      simp only [llevel, lmin_of_ne hi] at hp
      obtain ⟨f, hf⟩ := rhs_run hr hrhs hfr
      refine ⟨f, fun F hF => ?_⟩
      rw [List.cons_append, loop_ostar (by omega) (projection_mono hF hf)]
      simp only [erase, optNode_of_ne hi]

/-- `l[] rhs` -/
theorem reachE_flat {l rhs : PTree} (hl : QE E l) : QE E (.flat l rhs) := by
  intro b h
  have h0 := h
  have hr := complete rhs
  simp only [wp, Bool.and_eq_true] at h
  obtain ⟨hleft, hrhs⟩ := h
  rcases left_cases hleft with ⟨rfl, hb⟩ | ⟨hi, hwl, hle⟩
  · cases b
    · exact reachE_of_top hE (complete _ false h0) rfl
    · cases hb
  · refine reachE_of_step hE (toks := tFlatten :: flat true rhs) (hl b hwl)
      (by simp only [flat, List.append_assoc, List.cons_append, List.nil_append]) ?_ ?_ ?_
    · simp only [llevel, lmin_of_ne hi]; exact Nat.min_le_right _ _
    · intro rest; exact follow_of hle
    · intro prec hp rest hfr
      simp only [llevel, lmin_of_ne hi] at hp
      obtain ⟨f, hf⟩ := rhs_run hr hrhs hfr
      refine ⟨f, fun F hF => ?_⟩
      rw [List.cons_append, loop_flat (by omega) (projection_mono hF hf)]
      simp only [erase, optNode_of_ne hi]

/-- `l[? c ] rhs` -/
theorem reachE_filt {l c rhs : PTree} (hl : QE E l) : QE E (.filt l c rhs) := by
  intro b h
  have h0 := h
  have hr := complete rhs
  have hc := complete c
  simp only [wp, Bool.and_eq_true] at h
  obtain ⟨⟨hleft, hwc⟩, hrhs⟩ := h
  rcases left_cases hleft with ⟨rfl, _⟩ | ⟨hi, hwl, hle⟩
  · cases b
    · exact reachE_of_top hE (complete _ false h0) rfl
    · intro prec _ _ rest hfr g hk
      obtain ⟨f, hf⟩ := rhs_run hr hrhs hfr
      obtain ⟨g', hg⟩ := filter_run hc hwc (flat true rhs ++ rest)
      have hprim : primaryExpression (max f g' + 1)
          (stOf (tFilter :: (flat false c ++ tRBracket :: (flat true rhs ++ rest)))) =
          .ok (erase (.filt .icur c rhs), stOf rest) := by
        simp only [erase, optNode_icur]
        exact prim_filt0 (((mono_le (Nat.le_max_right f g')).filt).ok hg)
          (projection_mono (Nat.le_max_left f g') hf)
      refine ⟨max (max f g' + 1) g + 1, ?_⟩
      show projection _ _ _ = _
      simp only [flat, List.nil_append, List.cons_append, List.append_assoc]
      exact proj_prim_err (Or.inr rfl) (primaryExpression_mono (Nat.le_max_left _ g) hprim)
        (loop_err_mono hE (Nat.le_max_right _ g) hk)
  · refine reachE_of_step hE (toks := tFilter :: flat false c ++ tRBracket :: flat true rhs) (hl b hwl)
      (by simp only [flat, List.append_assoc, List.cons_append, List.nil_append]) ?_ ?_ ?_
    · simp only [llevel, lmin_of_ne hi]; exact Nat.min_le_right _ _
    · intro rest; exact follow_of hle
    · intro prec hp rest hfr
      simp only [llevel, lmin_of_ne hi] at hp
      obtain ⟨f, hf⟩ := rhs_run hr hrhs hfr
      obtain ⟨g, hg⟩ := filter_run hc hwc (flat true rhs ++ rest)
      refine ⟨max f g, fun F hF => ?_⟩
      simp only [List.cons_append, List.append_assoc]
      rw [loop_filt (by omega) (((mono_le (Nat.le_trans (Nat.le_max_right f g) hF)).filt).ok hg)
        (projection_mono (Nat.le_trans (Nat.le_max_left f g) hF) hf)]
      simp only [erase, optNode_of_ne hi]

/-- `l[a:b:c] rhs` -/
theorem reachE_slice {l rhs : PTree} {a bb : Option Token} {c : Option (Option Token)} (hl : QE E l) :
    QE E (.slice l a bb c rhs) := by
  intro b h
  have h0 := h
  have hr := complete rhs
  simp only [wp, Bool.and_eq_true] at h
  obtain ⟨⟨hleft, hok⟩, hrhs⟩ := h
  rcases left_cases hleft with ⟨rfl, _⟩ | ⟨hi, hwl, hle⟩
  · cases b
    · exact reachE_of_top hE (complete _ false h0) rfl
    · intro prec _ _ rest hfr g hk
      obtain ⟨f, hf⟩ := rhs_run hr hrhs hfr
      refine ⟨max f g + 1, ?_⟩
      show projection _ _ _ = _
      simp only [flat, List.nil_append, List.cons_append, List.append_assoc]
      refine proj_slice_err hok (projection_mono (Nat.le_max_left f g) hf)
        (loop_err_mono hE (Nat.le_max_right f g) ?_)
      simpa only [erase, optNode_icur] using hk
  · refine reachE_of_step hE (toks := tLBracket :: sliceToks a bb c ++ tRBracket :: flat true rhs) (hl b hwl)
      (by simp only [flat, List.append_assoc, List.cons_append, List.nil_append]) ?_ ?_ ?_
    · simp only [llevel, lmin_of_ne hi]; exact Nat.min_le_right _ _
    · intro rest; exact follow_of hle
    · intro prec hp rest hfr
      simp only [llevel, lmin_of_ne hi] at hp
      obtain ⟨f, hf⟩ := rhs_run hr hrhs hfr
      refine ⟨f, fun F hF => ?_⟩
      simp only [List.cons_append, List.append_assoc]
      rw [loop_slice (by omega) hok (projection_mono hF hf)]
      simp only [erase, optNode_of_ne hi]

/-- **the error version of completeness**: for every well-formed tree, in either position, a failure of the operator
    loop that follows the tree is a failure of the reading of the tree and what follows -/
theorem completeE : ∀ t, QE E t := by
  apply PTree.ind
  · exact fun b h => by simp [wp] at h
  · exact fun t => qE_of_top hE (by simp [wp]) rfl
  · exact fun t _ => qE_of_top hE (by simp [wp]) rfl
  · exact fun t _ => qE_of_top hE (by simp [wp]) rfl
  · exact fun tok t _ => qE_of_top hE (by simp [wp]) rfl
  · exact fun t _ => qE_of_top hE (by simp [wp]) rfl
  · exact fun op l r hl _ => reachE_bin hE hl
  · exact fun l r hl hr => reachE_dotId hE hl hr
  · exact fun l es hl _ => reachE_dotList hE hl
  · exact fun l kvs hl _ => reachE_dotHash hE hl
  · exact fun l hl => reachE_dotStarList hE hl
  · exact fun l n hl => reachE_index hE hl
  · exact fun name args _ => qE_of_top hE (by simp [wp]) rfl
  · exact fun t _ => fun b h => by simp [wp] at h
  · exact fun bs body _ _ => qE_of_top hE (by simp [wp]) rfl
  · exact fun es _ => qE_of_top hE (by simp [wp]) rfl
  · exact fun kvs _ => qE_of_top hE (by simp [wp]) rfl
  · exact fun l rhs hl _ => reachE_star hE hl
  · exact fun l rhs hl _ => reachE_ostar hE hl
  · exact fun l rhs hl _ => reachE_flat hE hl
  · exact fun l c rhs hl _ _ => reachE_filt hE hl
  · exact fun l a b c rhs hl _ => reachE_slice hE hl

end forms

/-- **A well-formed left operand does not hide the error.**  `l` is well formed in position `b` and can be read at
    power `p`; whatever comes after the tokens `T` leaves `l` intact (`Follow (rlevel l)`); the operator loop at power
    `p` fails on `T` with `E`: then reading `l` followed by `T` fails with `E`. -/
theorem fails_after {E : PErr} {b : Bool} {l : PTree} {p : Nat} {T : List Token} (hw : wp b l = true)
    (hp : p < llevel l) (hb : b = true → p ≤ lvlDot) (hfol : ∀ rest, Follow (rlevel l) (T ++ rest))
    (h : LoopFails E p T) : Fails E b p (flat b l ++ T) := by
  refine ⟨h.1, fun rest => ?_⟩
  obtain ⟨g, hg⟩ := h.2 (erase l) rest
  obtain ⟨f, hf⟩ := completeE h.1.1 l b hw p hp hb (T ++ rest) (hfol rest) g hg
  exact ⟨f, by rw [List.append_assoc]; exact hf⟩

/-! ## Small concrete checks -/
section Checks
/-- the identifier `a` -/
private def ia : Token := ⟨.unquotedIdentifier, [0x61]⟩
/-- the identifier `b` -/
private def ib : Token := ⟨.unquotedIdentifier, [0x62]⟩
/-- the identifier `abs` -/
private def iabs : Token := ⟨.unquotedIdentifier, [0x61, 0x62, 0x73]⟩
/-- `+` -/
private def plus : Token := ⟨.add, [0x2B]⟩

/-- the loop at power 1 with `+ abs()` ahead fails with the arity error, whatever the left operand -/
private theorem loop_plus_abs0 (n : INode) (rest : List Token) :
    exprLoop 4 n 1 (stOf ([plus, iabs, tLParen, tRParen] ++ rest)) = .error .invalidFunctionCall := by
  show exprLoop 4 n 1 (stOf (plus :: iabs :: tLParen :: tRParen :: rest)) = _
  rw [exprLoop_bin (s := stOf (plus :: iabs :: tLParen :: tRParen :: rest)) (mk := .binop .add) rfl
    (by show 1 < 6; decide), bind_ok (advance_stOf _ _)]
  have h : expression 3 (precedence (stOf (plus :: iabs :: tLParen :: tRParen :: rest)).curr.type)
      (stOf (iabs :: tLParen :: tRParen :: rest)) = .error .invalidFunctionCall := by
    rw [expression_succ_run, prim_function rfl, C02B.function_no_args (spec := .fixed 1 1 (callN .abs)) rfl]
  rw [bind_err h]

/-- `loop_split_res` with a failing continuation: the loop at power 6 stops before `+`, the loop at power 1 goes on
    and fails -/
example : exprLoop (1 + 4) (.field [0x61]) 1 (stOf [plus, iabs, tLParen, tRParen]) = .error .invalidFunctionCall :=
  loop_split_res (q := 6) (a := .field [0x61]) (s2 := stOf [plus, iabs, tLParen, tRParen]) (by decide)
    (err_ne_fuel (by decide)) (exprLoop_stop (by decide)) (loop_plus_abs0 _ [])

/-- `fails_after`: `a.b` (a well-formed left operand) followed by `+ abs()` -/
example : Fails .invalidFunctionCall false 1
    (flat false (.dotId (.atom ia) (.atom ib)) ++ [plus, iabs, tLParen, tRParen]) :=
  fails_after (l := .dotId (.atom ia) (.atom ib)) (by decide) (by decide) (fun h => by cases h)
    (fun _ => ⟨by show 6 ≤ 11; decide, by show TokenType.add ≠ .openParen; decide⟩)
    ⟨hard_arity, fun n rest => ⟨4, loop_plus_abs0 n rest⟩⟩
end Checks

end Jmes.C02CArity
