/-
  C03, third pass — where the model declines (`Res.unmodelled why`), on JSON input.

  For a `Val.Fin` document (what `encoding/json` decodes: every number a valid `json.Number`, a finite decimal or a Go
  integer; no binary float, no foreign value) the evaluator can answer `unmodelled` for exactly two reasons
  (`Reason`): a case mapping outside the alphabets the model transliterates (`lower` / `upper`), and a padding wider
  than the model materialises (`pad_left` / `pad_right`, more than 100000 characters).  The other three sources in the
  model — `json.Marshal` of a binary float, of a foreign Go value, and `strconv.ParseFloat` on a hexadecimal literal held
  in a `json.Number` — need a value that is not `Fin`, and the evaluator never makes one out of `Fin` values
  (`ieval_fin`, C18B).

  Predicate:  U r := ∀ w, r = .unmodelled w → Reason w.
  The value-level functions are walked by one tactic (`u_auto`, as `sat_auto` in `Proofs/NoPanic.lean`); the evaluator
  is handled on the reference semantics `seval` and transferred with `ieval_desugar`.
-/
import Jmes.Properties.C18B
import Jmes.Proofs.NoPanic
import Jmes.Proofs.Fuel
namespace Jmes.C03CU
open Jmes

/-- the reasons for which the model declines on JSON input -/
inductive Reason : String → Prop
  | caseMapping : Reason "case mapping outside the modelled alphabets"
  | padWidth : Reason "padding wider than the model materialises"

/-- an `unmodelled` outcome carries one of the enumerated reasons -/
def U {α} (r : Res α) : Prop :=
  match r with
  | .unmodelled w => Reason w
  | _ => True

theorem U_iff {α} (r : Res α) : U r ↔ ∀ w, r = .unmodelled w → Reason w := by
  cases r <;> simp [U]

section basic
variable {α β : Type}

theorem U.ok (a : α) : U (Res.ok a) := trivial
theorem U.pure (a : α) : U (pure a : Res α) := trivial
theorem U.err (cs : List Cat) : U (Res.err cs : Res α) := trivial
theorem U.nondet : U (Res.nondet : Res α) := trivial
theorem U.panic (w : String) : U (Res.panic w : Res α) := trivial
theorem U.errType : U (errType : Res α) := trivial
theorem U.errValue : U (errValue : Res α) := trivial
theorem U.errNaN : U (errNaN : Res α) := trivial
theorem U.unm {w : String} (h : Reason w) : U (Res.unmodelled w : Res α) := h
theorem U.of_ne {r : Res α} (h : ∀ w, r ≠ .unmodelled w) : U r := (U_iff r).2 (fun w hw => absurd hw (h w))

/-- the continuation may use that the first step answered `.ok a` -/
theorem U.bind_of {x : Res α} {f : α → Res β} (hx : U x) (hf : ∀ a, x = .ok a → U (f a)) : U (x >>= f) := by
  cases x with
  | ok a => exact hf a rfl
  | err cs => exact U.err cs
  | panic w => exact U.panic w
  | nondet => exact U.nondet
  | unmodelled w => exact hx

theorem U.bind {x : Res α} {f : α → Res β} (hx : U x) (hf : ∀ a, U (f a)) : U (x >>= f) :=
  U.bind_of hx (fun a _ => hf a)
theorem U.bind' {x : Res α} {f : α → Res β} (hx : U x) (hf : ∀ a, U (f a)) : U (Res.bind x f) := U.bind hx hf

end basic

/-- one step of the walk through a `do`-block -/
macro "u_step" : tactic => `(tactic| first
  | assumption
  | exact U.ok _
  | exact U.pure _
  | exact U.nondet
  | exact U.err _
  | exact U.panic _
  | exact U.errType
  | exact U.errValue
  | exact U.errNaN
  | (apply U.bind)
  | (apply U.bind')
  | (intro _)
  | split
  | (dsimp only))

syntax "u_auto" (" [" term,* "]")? : tactic
macro_rules
  | `(tactic| u_auto) => `(tactic| repeat' u_step)
  | `(tactic| u_auto [$ts,*]) => `(tactic| repeat' (first $[| (apply $ts <;> assumption)]* | u_step))

/-! ## value-level functions -/

theorem strArg_u (v : Val) : U (strArg v) := by unfold strArg; u_auto
/-- an integer argument taken from a `Fin` value: the hexadecimal-literal case of `strconv.ParseFloat` is excluded -/
theorem intArg_u {v : Val} (h : v.Fin = true) : U (intArg v) := U.of_ne (C18B.intArg_fin h)
theorem checkF_u (r : F64) : U (checkF r) := by unfold checkF; u_auto
theorem checkD_u (r : Dec) : U (checkD r) := by unfold checkD; u_auto

theorem arith_u (fop : F64 → F64 → F64) (dop : Dec → Dec → Dec) (x y : Val) : U (arith fop dop x y) := by
  unfold arith; u_auto [checkF_u, checkD_u]
theorem numAbs_u (v : Val) : U (numAbs v) := by unfold numAbs; u_auto
theorem numCeil_u (v : Val) : U (numCeil v) := by unfold numCeil; u_auto
theorem numFloor_u (v : Val) : U (numFloor v) := by unfold numFloor; u_auto
theorem numSum_u (v : Val) : U (numSum v) := by unfold numSum; u_auto [checkD_u]
theorem numAvg_u (v : Val) : U (numAvg v) := by unfold numAvg; u_auto [checkD_u]

theorem equalR_u (x y : Val) : U (equalR x y) := by unfold equalR; u_auto
theorem contains_u (x y : Val) : U (contains x y) := by unfold contains; u_auto

theorem applyBinOp_u (op : BinOp) (l r : Val) : U (applyBinOp op l r) := by
  cases op <;> simp only [applyBinOp, add, subtract, multiply, divide, integerDivide, modulo]
  all_goals u_auto [arith_u, equalR_u]

theorem widen_u {α} (t : ATag) (xs : List Val) (fs : List (Val → Res Val)) (extra : List Cat) {r : Res α}
    (h : U r) : U (widen t xs fs extra r) := by
  cases r with
  | err cs => simp only [widen]; u_auto
  | ok a => exact h
  | panic w => exact h
  | nondet => exact h
  | unmodelled w => exact h

theorem index_u (v : Val) (i : Int) : U (index v i) := by unfold index; u_auto
theorem slice_u (v : Val) (a b : Int) : U (slice v a b) := by unfold slice; u_auto
theorem sliceStep_u (v : Val) (a b s : Int) : U (sliceStep v a b s) := by unfold sliceStep; u_auto

theorem arrayMax_u (v : Val) : U (arrayMax v) := by unfold arrayMax; u_auto
theorem arrayMin_u (v : Val) : U (arrayMin v) := by unfold arrayMin; u_auto
theorem sortArray_u (v : Val) : U (sortArray v) := by unfold sortArray; u_auto
theorem values_u (v : Val) : U (values v) := by unfold values; u_auto
theorem keys_u (v : Val) : U (keys v) := by unfold keys; u_auto
theorem items_u (v : Val) : U (items v) := by unfold items; u_auto

theorem fromItemsLoop_u : ∀ xs acc, U (fromItemsLoop xs acc)
  | [], acc => U.ok _
  | x :: rest, acc => by
    have ih := fromItemsLoop_u rest
    cases x <;> simp only [fromItemsLoop] <;> u_auto [ih]

theorem fromItems_u (v : Val) : U (fromItems v) := by
  unfold fromItems
  split
  · rename_i t xs
    have h := fromItemsLoop_u xs []
    generalize fromItemsLoop xs [] = r at h
    cases r with
    | ok kvs => simp only []; u_auto
    | err cs => simp only []; u_auto
    | panic w => exact U.panic _
    | nondet => exact U.nondet
    | unmodelled w => exact h
  · exact U.errType

/-- the first of the two reasons -/
theorem caseMap_u (f : Nat → Option Nat) (s : Bytes) : U (caseMap f s) := by
  unfold caseMap
  split
  · exact U.ok _
  · split
    · exact U.ok _
    · exact U.unm .caseMapping

/-- the second -/
theorem padWith_u (l : Bool) (s : Bytes) (w : Int) (p : Bytes) (o : Val) : U (padWith l s w p o) := by
  unfold padWith
  split
  · exact U.errValue
  · split
    · exact U.errValue
    · dsimp only
      split
      · exact U.ok _
      · split
        · exact U.unm .padWidth
        · exact U.ok _

theorem startsWith_u (a b : Val) : U (startsWith a b) := by unfold startsWith; u_auto [strArg_u]
theorem endsWith_u (a b : Val) : U (endsWith a b) := by unfold endsWith; u_auto [strArg_u]
theorem findFirst_u (a b : Val) : U (findFirst a b) := by unfold findFirst; u_auto [strArg_u]
theorem findLast_u (a b : Val) : U (findLast a b) := by unfold findLast; u_auto [strArg_u]
theorem findFrom_u (l : Bool) (a b : Val) {c : Val} (hc : c.Fin = true) : U (findFrom l a b c) := by
  unfold findFrom; u_auto [strArg_u, intArg_u]
theorem findBetween_u (l : Bool) (a b : Val) {c d : Val} (hc : c.Fin = true) (hd : d.Fin = true) :
    U (findBetween l a b c d) := by
  unfold findBetween; u_auto [strArg_u, intArg_u]
  all_goals first
    | exact absurd ‹toInt c = ToInt.unmodelled› (C18B.toInt_fin_ne_unmodelled hc)
    | exact absurd ‹toInt d = ToInt.unmodelled› (C18B.toInt_fin_ne_unmodelled hd)
theorem join_u (a b : Val) : U (join a b) := by unfold join; u_auto
theorem padLeft_u (a : Val) {b : Val} (c : Val) (hb : b.Fin = true) : U (padLeft a b c) := by
  unfold padLeft; u_auto [strArg_u, intArg_u, padWith_u]
theorem padRight_u (a : Val) {b : Val} (c : Val) (hb : b.Fin = true) : U (padRight a b c) := by
  unfold padRight; u_auto [strArg_u, intArg_u, padWith_u]
theorem padSpaceLeft_u (a : Val) {b : Val} (hb : b.Fin = true) : U (padSpaceLeft a b) := by
  unfold padSpaceLeft; u_auto [strArg_u, intArg_u, padWith_u]
theorem padSpaceRight_u (a : Val) {b : Val} (hb : b.Fin = true) : U (padSpaceRight a b) := by
  unfold padSpaceRight; u_auto [strArg_u, intArg_u, padWith_u]
theorem replace_u (a b c : Val) : U (replace a b c) := by unfold replace; u_auto [strArg_u]
theorem replaceCount_u (a b c : Val) {d : Val} (hd : d.Fin = true) : U (replaceCount a b c d) := by
  unfold replaceCount; u_auto [strArg_u, intArg_u]
theorem split_u (a b : Val) : U (split a b) := by unfold split; u_auto [strArg_u]
theorem splitCount_u (a b : Val) {c : Val} (hc : c.Fin = true) : U (splitCount a b c) := by
  unfold splitCount; u_auto [strArg_u, intArg_u]
theorem trim_u (a b : Val) : U (trim a b) := by unfold trim; u_auto [strArg_u]
theorem trimLeft_u (a b : Val) : U (trimLeft a b) := by unfold trimLeft; u_auto [strArg_u]
theorem trimRight_u (a b : Val) : U (trimRight a b) := by unfold trimRight; u_auto [strArg_u]
theorem trimSpace_u (a : Val) : U (trimSpace a) := by unfold trimSpace; u_auto [strArg_u]
theorem trimSpaceLeft_u (a : Val) : U (trimSpaceLeft a) := by unfold trimSpaceLeft; u_auto [strArg_u]
theorem trimSpaceRight_u (a : Val) : U (trimSpaceRight a) := by unfold trimSpaceRight; u_auto [strArg_u]

theorem length_u (v : Val) : U (length v) := by unfold length; u_auto
theorem lower_u (v : Val) : U (lower v) := by unfold lower; u_auto [caseMap_u]
theorem upper_u (v : Val) : U (upper v) := by unfold upper; u_auto [caseMap_u]
theorem reverse_u (v : Val) : U (reverse v) := by unfold reverse; u_auto
theorem typeName_u (v : Val) : U (typeName v) := by unfold typeName; u_auto

/-- `to_string` of a `Fin` value: `json.Marshal` is modelled on it (no float, no foreign value) -/
theorem toStringV_u {v : Val} (h : v.Fin = true) : U (toStringV v) := by
  obtain ⟨b, hb⟩ := encode_fin_total v h
  unfold toStringV
  split
  · exact U.ok _
  · split
    · exact U.nondet
    · rw [hb]; exact U.ok _

/-- every eager builtin on `Fin` arguments -/
theorem applyFn_u (f : Fn) {args : List Val} (ha : ∀ a ∈ args, Val.Fin a = true) : U (applyFn f args) := by
  unfold applyFn
  split
  all_goals first
    | exact U.ok _ | exact U.err _
    | apply numAbs_u | apply numAvg_u | apply numCeil_u | apply contains_u | apply endsWith_u
    | apply findFirst_u | apply findLast_u
    | apply numFloor_u | apply fromItems_u | apply items_u | apply join_u | apply keys_u
    | apply length_u | apply lower_u | apply arrayMax_u | apply arrayMin_u
    | apply replace_u | apply reverse_u | apply sortArray_u
    | apply split_u | apply startsWith_u | apply numSum_u
    | apply trim_u | apply trimLeft_u | apply trimRight_u
    | apply trimSpace_u | apply trimSpaceLeft_u | apply trimSpaceRight_u
    | apply typeName_u | apply upper_u | apply values_u
    | (apply toStringV_u; exact ha _ (by simp))
    | (apply findBetween_u <;> exact ha _ (by simp))
    | (apply findFrom_u; exact ha _ (by simp))
    | (apply padLeft_u; exact ha _ (by simp))
    | (apply padRight_u; exact ha _ (by simp))
    | (apply padSpaceLeft_u; exact ha _ (by simp))
    | (apply padSpaceRight_u; exact ha _ (by simp))
    | (apply replaceCount_u; exact ha _ (by simp))
    | (apply splitCount_u; exact ha _ (by simp))

theorem combineUnordered_u {acc : Res (List (Bytes × Val))} {r : Res Val} (k : Bytes)
    (ha : U acc) (hr : U r) : U (combineUnordered acc k r) := by
  cases acc <;> cases r <;> simp only [combineUnordered] <;>
    first | exact ha | exact hr | exact U.ok _ | exact U.err _ | exact U.nondet | exact U.panic _

theorem zipArgs_u : ∀ vs, U (zipArgs vs)
  | [] => U.ok _
  | v :: rest => by
    have ih := zipArgs_u rest
    cases v <;> simp only [zipArgs] <;> u_auto

/-! ## the higher-order functions: `f` is applied to elements of a `Fin` array -/

/-- `f` answers `unmodelled` on a `Fin` value for an enumerated reason only -/
def UFun (f : Val → Res Val) : Prop := ∀ x, Val.Fin x = true → U (f x)

section hof
variable {f c : Val → Res Val}

private theorem tl {xs : List Val} {x : Val} (h : ∀ y ∈ x :: xs, Val.Fin y = true) : ∀ y ∈ xs, Val.Fin y = true :=
  fun y hy => h y (List.mem_cons_of_mem _ hy)
private theorem hd {xs : List Val} {x : Val} (h : ∀ y ∈ x :: xs, Val.Fin y = true) : Val.Fin x = true :=
  h x List.mem_cons_self

theorem mapPrune_u (hf : UFun f) : ∀ xs, (∀ x ∈ xs, Val.Fin x = true) → U (mapPrune f xs)
  | [], _ => U.ok _
  | x :: xs, h => by
    have ih := mapPrune_u hf xs (tl h); have hx := hf x (hd h)
    simp only [mapPrune]; u_auto

theorem mapAll_u (hf : UFun f) : ∀ xs, (∀ x ∈ xs, Val.Fin x = true) → U (mapAll f xs)
  | [], _ => U.ok _
  | x :: xs, h => by
    have ih := mapAll_u hf xs (tl h); have hx := hf x (hd h)
    simp only [mapAll]; u_auto

theorem filterLoop_u (hf : UFun f) : ∀ xs, (∀ x ∈ xs, Val.Fin x = true) → U (filterLoop f xs)
  | [], _ => U.ok _
  | x :: xs, h => by
    have ih := filterLoop_u hf xs (tl h); have hx := hf x (hd h)
    simp only [filterLoop]; u_auto

theorem filterMapPrune_u (hc : UFun c) (hf : UFun f) : ∀ xs, (∀ x ∈ xs, Val.Fin x = true) → U (filterMapPrune c f xs)
  | [], _ => U.ok _
  | x :: xs, h => by
    have ih := filterMapPrune_u hc hf xs (tl h); have hx := hf x (hd h); have hcx := hc x (hd h)
    simp only [filterMapPrune]; u_auto

theorem keysFrom_u (hf : UFun f) (isStr : Bool) : ∀ xs, (∀ x ∈ xs, Val.Fin x = true) → U (keysFrom f isStr xs)
  | [], _ => U.ok _
  | x :: xs, h => by
    have ih := keysFrom_u hf isStr xs (tl h); have hx := hf x (hd h)
    simp only [keysFrom]; u_auto

theorem keysOf_u (hf : UFun f) : ∀ xs, (∀ x ∈ xs, Val.Fin x = true) → U (keysOf f xs)
  | [], _ => U.ok _
  | x :: xs, h => by
    have h1 := keysFrom_u hf true xs (tl h); have h2 := keysFrom_u hf false xs (tl h); have hx := hf x (hd h)
    simp only [keysOf]; u_auto

theorem groupLoop_u (hf : UFun f) : ∀ xs acc, (∀ x ∈ xs, Val.Fin x = true) → U (groupLoop f xs acc)
  | [], acc, _ => U.ok _
  | x :: xs, acc, h => by
    have ih := fun acc => groupLoop_u hf xs acc (tl h); have hx := hf x (hd h)
    simp only [groupLoop]; u_auto [ih]

theorem projectArray_u (hf : UFun f) {v : Val} (hv : v.Fin = true) : U (projectArray f v) := by
  unfold projectArray
  split
  · exact widen_u _ _ _ _ (U.bind (mapPrune_u hf _ (Val.fin_arr.mp hv)) (fun _ => U.pure _))
  · exact U.ok _

theorem filterArray_u (hf : UFun f) {v : Val} (hv : v.Fin = true) : U (filterArray f v) := by
  unfold filterArray
  split
  · exact widen_u _ _ _ _ (U.bind (filterLoop_u hf _ (Val.fin_arr.mp hv)) (fun _ => U.pure _))
  · exact U.ok _

theorem filterAndProjectArray_u (hc : UFun c) (hf : UFun f) {v : Val} (hv : v.Fin = true) :
    U (filterAndProjectArray c f v) := by
  unfold filterAndProjectArray
  split
  · exact widen_u _ _ _ _ (U.bind (filterMapPrune_u hc hf _ (Val.fin_arr.mp hv)) (fun _ => U.pure _))
  · exact U.ok _

theorem flattenAndProjectArray_u (hf : UFun f) {v : Val} (hv : v.Fin = true) : U (flattenAndProjectArray f v) := by
  unfold flattenAndProjectArray
  split
  · exact widen_u _ _ _ _
      (U.bind (mapPrune_u hf _ (C18BL.flattenForProject_fin (Val.fin_arr.mp hv))) (fun _ => U.pure _))
  · exact U.ok _

theorem mapArray_u (hf : UFun f) {v : Val} (hv : v.Fin = true) : U (mapArray f v) := by
  unfold mapArray
  split
  · exact widen_u _ _ _ _ (U.bind (mapAll_u hf _ (Val.fin_arr.mp hv)) (fun _ => U.pure _))
  · exact U.errType

theorem projectObject_u (hf : UFun f) {v : Val} (hv : v.Fin = true) : U (projectObject f v) := by
  unfold projectObject
  split
  · exact widen_u _ _ _ _ (U.bind (mapPrune_u hf _ (C18BL.obj_values_fin hv)) (fun _ => U.pure _))
  · exact U.ok _

theorem arrayPickBy_u (better : Key → Key → Bool) (hf : UFun f) {v : Val} (hv : v.Fin = true) :
    U (arrayPickBy better f v) := by
  unfold arrayPickBy
  split
  · split
    · exact U.ok _
    · refine widen_u _ _ _ _ (U.bind (keysOf_u hf _ (Val.fin_arr.mp hv)) (fun ks => ?_))
      u_auto
  · exact U.errType

theorem sortArrayBy_u (hf : UFun f) {v : Val} (hv : v.Fin = true) : U (sortArrayBy f v) := by
  unfold sortArrayBy
  split
  · split
    · exact U.ok _
    · refine widen_u _ _ _ _ (U.bind (keysOf_u hf _ (Val.fin_arr.mp hv)) (fun ks => ?_))
      u_auto
  · exact U.errType

theorem groupBy_u (hf : UFun f) {v : Val} (hv : v.Fin = true) : U (groupBy f v) := by
  unfold groupBy
  split
  · split
    · exact U.ok _
    · exact widen_u _ _ _ _ (U.bind (groupLoop_u hf _ _ (Val.fin_arr.mp hv)) (fun _ => U.pure _))
  · exact U.errType

end hof

/-! ## the evaluator, on the reference semantics -/

open C18BL in
mutual
theorem seval_u (root : Val) (hr : Val.Fin root = true) : (t : Tree) → (cur : Val) → (env : Env) → TLits t →
    Val.Fin cur = true → EnvFinP env → U (seval root t cur env)
  | .lit v, cur, env, hl, hc, he => by simp only [seval]; exact U.ok _
  | .current, cur, env, hl, hc, he => by simp only [seval]; exact U.ok _
  | .root, cur, env, hl, hc, he => by simp only [seval]; exact U.ok _
  | .field k, cur, env, hl, hc, he => by simp only [seval]; exact U.ok _
  | .var x, cur, env, hl, hc, he => by simp only [seval]; u_auto
  | .index i, cur, env, hl, hc, he => by simp only [seval]; exact index_u _ _
  | .slice a b, cur, env, hl, hc, he => by simp only [seval]; exact slice_u _ _ _
  | .sliceStep a b s, cur, env, hl, hc, he => by simp only [seval]; exact sliceStep_u _ _ _ _
  | .sub l r, cur, env, hl, hc, he => by
    simp only [TLits] at hl
    simp only [seval]
    exact U.bind_of (seval_u root hr l cur env hl.1 hc he)
      (fun a ha => seval_u root hr r a env hl.2 (seval_fin root hr l cur env hl.1 hc he a ha) he)
  | .binop op l r, cur, env, hl, hc, he => by
    simp only [TLits] at hl
    simp only [seval]
    exact U.bind (seval_u root hr l cur env hl.1 hc he)
      (fun a => U.bind (seval_u root hr r cur env hl.2 hc he) (fun b => applyBinOp_u op a b))
  | .and l r, cur, env, hl, hc, he => by
    simp only [TLits] at hl
    simp only [seval]
    refine U.bind (seval_u root hr l cur env hl.1 hc he) (fun a => ?_)
    split
    · exact U.pure _
    · exact seval_u root hr r cur env hl.2 hc he
  | .or l r, cur, env, hl, hc, he => by
    simp only [TLits] at hl
    simp only [seval]
    refine U.bind (seval_u root hr l cur env hl.1 hc he) (fun a => ?_)
    split
    · exact U.pure _
    · exact seval_u root hr r cur env hl.2 hc he
  | .not c, cur, env, hl, hc, he => by
    simp only [TLits] at hl
    simp only [seval]
    exact U.bind (seval_u root hr c cur env hl hc he) (fun _ => U.pure _)
  | .neg c, cur, env, hl, hc, he => by
    simp only [TLits] at hl
    simp only [seval]
    exact U.bind (seval_u root hr c cur env hl hc he) (fun _ => U.pure _)
  | .pos c, cur, env, hl, hc, he => by
    simp only [TLits] at hl
    simp only [seval]
    exact U.bind (seval_u root hr c cur env hl hc he) (fun _ => U.pure _)
  | .call f args, cur, env, hl, hc, he => by
    simp only [TLits] at hl
    simp only [seval]
    exact U.bind_of (sevalList_u root hr args cur env hl hc he)
      (fun vs hvs => applyFn_u f (sevalList_fin root hr args cur env hl hc he vs hvs))
  | .prune l, cur, env, hl, hc, he => by
    simp only [TLits] at hl
    simp only [seval]
    exact U.bind (seval_u root hr l cur env hl hc he) (fun _ => U.pure _)
  | .proj l r, cur, env, hl, hc, he => by
    simp only [TLits] at hl
    simp only [seval]
    exact U.bind_of (seval_u root hr l cur env hl.1 hc he) (fun a ha =>
      projectArray_u (fun x hx => seval_u root hr r x env hl.2 hx he) (seval_fin root hr l cur env hl.1 hc he a ha))
  | .sliceProj l r, cur, env, hl, hc, he => by
    simp only [TLits] at hl
    simp only [seval]
    refine U.bind_of (seval_u root hr l cur env hl.1 hc he) (fun a ha => ?_)
    have hna := seval_fin root hr l cur env hl.1 hc he a ha
    split
    · exact seval_u root hr r _ env hl.2 hna he
    · exact projectArray_u (fun x hx => seval_u root hr r x env hl.2 hx he) hna
  | .flatProj l r, cur, env, hl, hc, he => by
    simp only [TLits] at hl
    simp only [seval]
    exact U.bind_of (seval_u root hr l cur env hl.1 hc he) (fun a ha =>
      flattenAndProjectArray_u (fun x hx => seval_u root hr r x env hl.2 hx he)
        (seval_fin root hr l cur env hl.1 hc he a ha))
  | .filterProj l c r, cur, env, hl, hc, he => by
    simp only [TLits] at hl
    simp only [seval]
    exact U.bind_of (seval_u root hr l cur env hl.1 hc he) (fun a ha =>
      filterAndProjectArray_u (fun x hx => seval_u root hr c x env hl.2.1 hx he)
        (fun x hx => seval_u root hr r x env hl.2.2 hx he) (seval_fin root hr l cur env hl.1 hc he a ha))
  | .valueProj l r, cur, env, hl, hc, he => by
    simp only [TLits] at hl
    simp only [seval]
    exact U.bind_of (seval_u root hr l cur env hl.1 hc he) (fun a ha =>
      projectObject_u (fun x hx => seval_u root hr r x env hl.2 hx he) (seval_fin root hr l cur env hl.1 hc he a ha))
  | .multiList chk es, cur, env, hl, hc, he => by
    simp only [TLits] at hl
    simp only [seval]
    split
    · exact U.ok _
    · exact U.bind (sevalList_u root hr es cur env hl hc he) (fun _ => U.pure _)
  | .multiHash chk kvs, cur, env, hl, hc, he => by
    simp only [TLits] at hl
    simp only [seval]
    split
    · exact U.ok _
    · exact U.bind (sevalFields_u root hr kvs cur env hl hc he) (fun _ => U.pure _)
  | .letIn bs body, cur, env, hl, hc, he => by
    simp only [TLits] at hl
    simp only [seval]
    refine U.bind_of (sevalFields_u root hr bs cur env hl.1 hc he) (fun vs hvs => ?_)
    have hvs' := sevalFields_fin root hr bs cur env hl.1 hc he vs hvs
    refine seval_u root hr body cur (vs ++ env) hl.2 hc ?_
    intro k x hm
    rcases List.mem_append.mp hm with hm | hm
    · exact hvs' k x hm
    · exact he k x hm
  | .groupBy a e, cur, env, hl, hc, he => by
    simp only [TLits] at hl
    simp only [seval]
    exact U.bind_of (seval_u root hr a cur env hl.1 hc he) (fun v hv =>
      groupBy_u (fun x hx => seval_u root hr e x env hl.2 hx he) (seval_fin root hr a cur env hl.1 hc he v hv))
  | .map e a, cur, env, hl, hc, he => by
    simp only [TLits] at hl
    simp only [seval]
    exact U.bind_of (seval_u root hr a cur env hl.2 hc he) (fun v hv =>
      mapArray_u (fun x hx => seval_u root hr e x env hl.1 hx he) (seval_fin root hr a cur env hl.2 hc he v hv))
  | .maxBy a e, cur, env, hl, hc, he => by
    simp only [TLits] at hl
    simp only [seval]
    exact U.bind_of (seval_u root hr a cur env hl.1 hc he) (fun v hv =>
      arrayPickBy_u _ (fun x hx => seval_u root hr e x env hl.2 hx he) (seval_fin root hr a cur env hl.1 hc he v hv))
  | .minBy a e, cur, env, hl, hc, he => by
    simp only [TLits] at hl
    simp only [seval]
    exact U.bind_of (seval_u root hr a cur env hl.1 hc he) (fun v hv =>
      arrayPickBy_u _ (fun x hx => seval_u root hr e x env hl.2 hx he) (seval_fin root hr a cur env hl.1 hc he v hv))
  | .sortBy a e, cur, env, hl, hc, he => by
    simp only [TLits] at hl
    simp only [seval]
    exact U.bind_of (seval_u root hr a cur env hl.1 hc he) (fun v hv =>
      sortArrayBy_u (fun x hx => seval_u root hr e x env hl.2 hx he) (seval_fin root hr a cur env hl.1 hc he v hv))
  | .merge args, cur, env, hl, hc, he => by
    simp only [TLits] at hl
    simp only [seval]
    exact U.bind (sevalMerge_u root hr args cur env [] hl hc he) (fun _ => U.pure _)
  | .notNull args, cur, env, hl, hc, he => by
    simp only [TLits] at hl
    simp only [seval]
    exact sevalNotNull_u root hr args cur env hl hc he
  | .zip args, cur, env, hl, hc, he => by
    simp only [TLits] at hl
    simp only [seval]
    refine U.bind (sevalZip_u root hr args cur env hl hc he) (fun vs => U.bind (zipArgs_u vs) (fun cols => ?_))
    split <;> exact U.pure _
theorem sevalList_u (root : Val) (hr : Val.Fin root = true) : (ts : List Tree) → (cur : Val) → (env : Env) →
    TLitsL ts → Val.Fin cur = true → EnvFinP env → U (sevalList root ts cur env)
  | [], cur, env, hl, hc, he => by simp only [sevalList]; exact U.ok _
  | t :: ts, cur, env, hl, hc, he => by
    simp only [TLitsL] at hl
    simp only [sevalList]
    exact U.bind (seval_u root hr t cur env hl.1 hc he)
      (fun _ => U.bind (sevalList_u root hr ts cur env hl.2 hc he) (fun _ => U.pure _))
theorem sevalFields_u (root : Val) (hr : Val.Fin root = true) : (fs : List (Bytes × Tree)) → (cur : Val) → (env : Env) →
    TLitsF fs → Val.Fin cur = true → EnvFinP env → U (sevalFields root fs cur env)
  | [], cur, env, hl, hc, he => by simp only [sevalFields]; exact U.ok _
  | (k, t) :: rest, cur, env, hl, hc, he => by
    simp only [TLitsF] at hl
    simp only [sevalFields]
    exact combineUnordered_u k (sevalFields_u root hr rest cur env hl.2 hc he) (seval_u root hr t cur env hl.1 hc he)
theorem sevalMerge_u (root : Val) (hr : Val.Fin root = true) : (ts : List Tree) → (cur : Val) → (env : Env) →
    (acc : List (Bytes × Val)) → TLitsL ts → Val.Fin cur = true → EnvFinP env → U (sevalMerge root ts cur env acc)
  | [], cur, env, acc, hl, hc, he => by simp only [sevalMerge]; exact U.ok _
  | t :: ts, cur, env, acc, hl, hc, he => by
    simp only [TLitsL] at hl
    simp only [sevalMerge]
    refine U.bind (seval_u root hr t cur env hl.1 hc he) (fun v => ?_)
    split
    · exact sevalMerge_u root hr ts cur env _ hl.2 hc he
    · exact U.errType
theorem sevalNotNull_u (root : Val) (hr : Val.Fin root = true) : (ts : List Tree) → (cur : Val) → (env : Env) →
    TLitsL ts → Val.Fin cur = true → EnvFinP env → U (sevalNotNull root ts cur env)
  | [], cur, env, hl, hc, he => by simp only [sevalNotNull]; exact U.ok _
  | t :: ts, cur, env, hl, hc, he => by
    simp only [TLitsL] at hl
    simp only [sevalNotNull]
    refine U.bind (seval_u root hr t cur env hl.1 hc he) (fun v => ?_)
    split
    · exact sevalNotNull_u root hr ts cur env hl.2 hc he
    · exact U.pure _
theorem sevalZip_u (root : Val) (hr : Val.Fin root = true) : (ts : List Tree) → (cur : Val) → (env : Env) →
    TLitsL ts → Val.Fin cur = true → EnvFinP env → U (sevalZip root ts cur env)
  | [], cur, env, hl, hc, he => by simp only [sevalZip]; exact U.ok _
  | t :: ts, cur, env, hl, hc, he => by
    simp only [TLitsL] at hl
    simp only [sevalZip]
    refine U.bind (seval_u root hr t cur env hl.1 hc he) (fun v => ?_)
    split
    · exact U.bind (sevalZip_u root hr ts cur env hl.2 hc he) (fun _ => U.pure _)
    · exact U.errType
end

/-- **the evaluator on `Fin` inputs declines for the enumerated reasons only** -/
theorem ieval_u {root : Val} (hr : root.Fin = true) {n : INode} (hl : n.FinLits = true) {cur : Val}
    (hc : cur.Fin = true) {env : Env} (he : Env.Fin env = true) : U (ieval root n cur env) := by
  rw [ieval_desugar]
  exact seval_u root hr (desugar n) cur env (C18BL.desugar_tlits n hl) hc (C18BL.envFinP_of he)

theorem evaluate_u {n : INode} (hl : n.FinLits = true) {d : Val} (hd : d.Fin = true) : U (evaluate n d) :=
  ieval_u hd hl hd (by decide)

end Jmes.C03CU
