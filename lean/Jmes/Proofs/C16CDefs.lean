/-
  Property C16, third part — definitions: what a JSON text DENOTES, as a relation between byte strings and values
  that does not mention Go's decoder (`Json.decode`, `Json.parseValue`, …).

  * `StrDen s w`  — the string body `w` (the bytes between the double quotes) denotes the string `s`: any mix of raw
    runes, two-character escapes, `\uXXXX` escapes (either case), surrogate pairs; a surrogate escape that is not
    completed to a pair denotes U+FFFD.
  * `Den n t v`   — the JSON value text `t` (no white space around it) denotes `v`, with at most `n` containers
    open at any point (`n` is an upper bound: `Den.mono`).
      literals; numbers keep their spelling (`.num (.jnum t)`); strings through `StrDen`; arrays element by element;
      objects denote the LAST-WINS map of their members (`LastWins`): the member list sorted by key, a duplicated key
      keeping the value written last.  White space (space, tab, LF, CR) is arbitrary and independent in every gap.
  * `Denotes n t v` — the same with white space before and after.
-/
import Jmes.Properties.C16B
import Jmes.Proofs.C15BLemmas
namespace Jmes.C16C
open Jmes Jmes.Utf8 Jmes.Literals Jmes.C16 Jmes.C16BL Jmes.Lexical

/-! ## strings -/

/-- `w` does not begin with a `\uXXXX` escape of a LOW surrogate (U+DC00 … U+DFFF) -/
def NoLowEsc (w : Bytes) : Prop :=
  ∀ a b c d lo rest, w = 0x5C :: 0x75 :: a :: b :: c :: d :: rest → Json.hex4 [a, b, c, d] = some (lo, []) →
    ¬ (0xDC00 ≤ lo ∧ lo < 0xE000)

/-- `StrDen s w`: the bytes `w`, written between double quotes, denote the string `s`.  The first five rules are
    those of `C16B.QEsc`; the sixth reads a surrogate escape that does not start a (high, low) pair as U+FFFD. -/
inductive StrDen : Bytes → Bytes → Prop
  | nil : StrDen [] []
  | raw (c : Nat) {s w : Bytes} : isScalar c = true → 0x20 ≤ c → c ≠ 0x22 → c ≠ 0x5C → StrDen s w →
      StrDen (encodeRune c ++ s) (encodeRune c ++ w)
  | short (e b : Nat) {s w : Bytes} : (e, b) ∈ shortEsc → StrDen s w → StrDen (b :: s) (0x5C :: e :: w)
  | uni (a b c d r : Nat) {s w : Bytes} : Json.hex4 [a, b, c, d] = some (r, []) → Json.isSurrogate r = false →
      StrDen s w → StrDen (encodeRune r ++ s) (0x5C :: 0x75 :: a :: b :: c :: d :: w)
  | pair (a b c d a' b' c' d' hi lo : Nat) {s w : Bytes} :
      Json.hex4 [a, b, c, d] = some (hi, []) → Json.hex4 [a', b', c', d'] = some (lo, []) →
      0xD800 ≤ hi → hi < 0xDC00 → 0xDC00 ≤ lo → lo < 0xE000 → StrDen s w →
      StrDen (encodeRune (0x10000 + (hi - 0xD800) * 1024 + (lo - 0xDC00)) ++ s)
        (0x5C :: 0x75 :: a :: b :: c :: d :: 0x5C :: 0x75 :: a' :: b' :: c' :: d' :: w)
  | lone (a b c d r : Nat) {s w : Bytes} : Json.hex4 [a, b, c, d] = some (r, []) → Json.isSurrogate r = true →
      (r < 0xDC00 → NoLowEsc w) → StrDen s w →
      StrDen ([0xEF, 0xBF, 0xBD] ++ s) (0x5C :: 0x75 :: a :: b :: c :: d :: w)

/-- every `QEsc` writing is a `StrDen` writing of the same string -/
theorem StrDen.of_qesc {s w : Bytes} (h : C16B.QEsc s w) : StrDen s w := by
  induction h with
  | nil => exact .nil
  | raw c h1 h2 h3 h4 _ ih => exact .raw c h1 h2 h3 h4 ih
  | short e b he _ ih => exact .short e b he ih
  | uni a b c d r hx hs _ ih => exact .uni a b c d r hx hs ih
  | pair a b c d a' b' c' d' hi lo h1 h2 g1 g2 g3 g4 _ ih => exact .pair a b c d a' b' c' d' hi lo h1 h2 g1 g2 g3 g4 ih

/-! ## objects: the last-wins map of a member list -/

/-- the value of the LAST member named `k` in the member list (text order) -/
def lastVal (k : Bytes) : List (Bytes × Val) → Option Val
  | [] => none
  | (k', v) :: rest =>
    match lastVal k rest with
    | some x => some x
    | none => if k = k' then some v else none

/-- `obj` is the last-wins map of the member list `ms`: strictly sorted by key (Go's `<` on strings, i.e. bytewise),
    and looking a key up gives the value of the last member of `ms` with that key -/
def LastWins (ms obj : List (Bytes × Val)) : Prop :=
  KeySorted obj ∧ ∀ k, objLookup k obj = lastVal k ms

/-! ## values -/

mutual
/-- `Den n t v`: the JSON value text `t` denotes `v`, nesting at most `n` containers -/
inductive Den : Nat → Bytes → Val → Prop
  | null (n : Nat) : Den n [0x6E, 0x75, 0x6C, 0x6C] .null
  | tru (n : Nat) : Den n [0x74, 0x72, 0x75, 0x65] (.bool true)
  | fals (n : Nat) : Den n [0x66, 0x61, 0x6C, 0x73, 0x65] (.bool false)
  | num (n : Nat) (t : Bytes) : JNumber t → Den n t (.num (.jnum t))
  | str (n : Nat) (s w : Bytes) : StrDen s w → Den n (0x22 :: (w ++ [0x22])) (.str s)
  | arrE (n : Nat) (w : Bytes) : Ws w → Den (n + 1) (0x5B :: (w ++ [0x5D])) (.arr .plain [])
  | arr (n : Nat) (es : Bytes) (xs : List Val) : DenElems n es xs → Den (n + 1) (0x5B :: es) (.arr .plain xs)
  | objE (n : Nat) (w : Bytes) : Ws w → Den (n + 1) (0x7B :: (w ++ [0x7D])) (.obj [])
  | obj (n : Nat) (p : Bytes) (ms kvs : List (Bytes × Val)) : DenMembers n p ms → LastWins ms kvs →
      Den (n + 1) (0x7B :: p) (.obj kvs)
/-- the elements of an array, up to and including the closing bracket -/
inductive DenElems : Nat → Bytes → List Val → Prop
  | last (n : Nat) (w1 t w2 : Bytes) (v : Val) : Ws w1 → Den n t v → Ws w2 →
      DenElems n (w1 ++ t ++ w2 ++ [0x5D]) [v]
  | cons (n : Nat) (w1 t w2 rest : Bytes) (v : Val) (vs : List Val) : Ws w1 → Den n t v → Ws w2 →
      DenElems n rest vs → DenElems n (w1 ++ t ++ w2 ++ 0x2C :: rest) (v :: vs)
/-- the members of an object in text order (duplicates kept), up to and including the closing brace -/
inductive DenMembers : Nat → Bytes → List (Bytes × Val) → Prop
  | last (n : Nat) (w1 kw w2 w3 t w4 k : Bytes) (v : Val) : Ws w1 → StrDen k kw → Ws w2 → Ws w3 → Den n t v → Ws w4 →
      DenMembers n (w1 ++ 0x22 :: (kw ++ 0x22 :: (w2 ++ 0x3A :: (w3 ++ t ++ w4 ++ [0x7D])))) [(k, v)]
  | cons (n : Nat) (w1 kw w2 w3 t w4 rest k : Bytes) (v : Val) (ms : List (Bytes × Val)) :
      Ws w1 → StrDen k kw → Ws w2 → Ws w3 → Den n t v → Ws w4 → DenMembers n rest ms →
      DenMembers n (w1 ++ 0x22 :: (kw ++ 0x22 :: (w2 ++ 0x3A :: (w3 ++ t ++ w4 ++ 0x2C :: rest)))) ((k, v) :: ms)
end

/-- `Denotes n t v`: the JSON text `t` — a value with any white space before and after — denotes `v`, nesting at most
    `n` containers -/
def Denotes (n : Nat) (t : Bytes) (v : Val) : Prop :=
  ∃ w1 u w2, t = w1 ++ u ++ w2 ∧ Ws w1 ∧ Den n u v ∧ Ws w2

end Jmes.C16C
