/-
  C01 (third wave) — lemmas relating the combinators of the independent semantics (`Proofs/C01CSem.lean`) to the helpers
  of the evaluator model.  Everything is in the namespace `Jmes.C01C`.
-/
import Jmes.Proofs.C01CSem
import Jmes.Proofs.Refine
import Jmes.Properties.C12B
import Jmes.Properties.C09
import Jmes.Proofs.GrammarF2
set_option linter.unusedSimpArgs false
namespace Jmes.C01C
open Jmes Jmes.Grammar Jmes.Spec

/-! ## `inOrder` -/

theorem inOrder_nil {α} : inOrder ([] : List (Res α)) = .ok [] := rfl

theorem inOrder_cons {α} (r : Res α) (rs : List (Res α)) :
    inOrder (r :: rs) = (r >>= fun a => inOrder rs >>= fun as => Res.ok (a :: as)) := by
  cases r with
  | ok a =>
    have h1 : isOk (Res.ok a) = true := rfl
    have h2 : val? (Res.ok a) = some a := rfl
    simp only [inOrder, List.find?_cons, h1, Bool.not_true, Res.ok_bind, List.filterMap_cons, h2]
    cases rs.find? (fun r => !isOk r) with
    | none => rfl
    | some r => cases r <;> rfl
  | _ => rfl

theorem ievalList_eq (root : Val) (cur : Val) (env : Env) : ∀ ns : List INode,
    ievalList root ns cur env = inOrder (ns.map fun n => ieval root n cur env)
  | [] => by simp only [ievalList, List.map_nil, inOrder_nil]
  | n :: ns => by
    simp only [ievalList, List.map_cons, inOrder_cons, ievalList_eq root cur env ns, Res.pure_eq]

theorem mapPrune_eq (f : Val → Res Val) : ∀ xs : List Val,
    mapPrune f xs = (inOrder (xs.map f) >>= fun vs => Res.ok (dropNulls vs))
  | [] => rfl
  | x :: xs => by
    simp only [mapPrune, List.map_cons, inOrder_cons, mapPrune_eq f xs, Res.bind_assoc, Res.pure_eq, Res.ok_bind]
    apply Res.bind_congr; intro p
    apply Res.bind_congr; intro vs
    simp only [dropNulls, List.filter_cons]
    cases p.isNull <;> rfl

theorem isTrue_eq_truthy (v : Val) : isTrue v = truthy v := by
  cases v with
  | num n => cases n <;> rfl
  | _ => rfl

theorem filterMapPrune_eq (c f : Val → Res Val) : ∀ xs : List Val,
    filterMapPrune c f xs =
      (inOrder (xs.map fun x => c x >>= fun b => if truthy b then (f x >>= fun p => Res.ok (some p)) else Res.ok none)
        >>= fun os => Res.ok (dropNulls (os.filterMap id)))
  | [] => rfl
  | x :: xs => by
    simp only [filterMapPrune, List.map_cons, inOrder_cons, filterMapPrune_eq c f xs, Res.bind_assoc, Res.pure_eq,
      isTrue_eq_truthy]
    apply Res.bind_congr; intro b
    cases truthy b
    · simp only [Bool.false_eq_true, if_false, Res.ok_bind, List.filterMap_cons, id]
    · simp only [if_true, Res.bind_assoc, Res.ok_bind]
      apply Res.bind_congr; intro p
      apply Res.bind_congr; intro os
      simp only [List.filterMap_cons, id, dropNulls, List.filter_cons]
      cases p.isNull <;> rfl

/-! ## `widen` is `overOrders` -/

theorem enum2_eq (t : ATag) (xs : List Val) : enum2 t xs = unordered t xs.length := by
  simp only [enum2, unordered, ge_iff_le]

theorem derived_eq (t : ATag) : t.derived = elemTag t := by cases t <;> rfl

theorem unsettled_eq (r : Res Val) :
    Jmes.widen.match_1 (fun _ => Bool) r (fun _ => false) (fun _ => false) (fun _ => true) = !settled r := by
  cases r <;> rfl

theorem errs_eq (r : Res Val) : Jmes.widen.match_4 (fun _ => List Cat) r (fun c => c) (fun _ => []) = errCats r := by
  cases r <;> rfl

theorem any_fs (fs : List (Val → Res Val)) (x : Val) :
    (fs.any fun f => !settled (f x)) = !((fs.map (· x)).all settled) := by
  induction fs with
  | nil => rfl
  | cons f fs ih => simp only [List.any_cons, List.map_cons, List.all_cons, Bool.not_and, ih]

theorem flatMap_fs (fs : List (Val → Res Val)) (x : Val) :
    (fs.flatMap fun f => errCats (f x)) = (fs.map (· x)).flatMap errCats := by
  induction fs with
  | nil => rfl
  | cons f fs ih => simp only [List.flatMap_cons, List.map_cons, ih]

theorem any_xs_fs (fs : List (Val → Res Val)) : ∀ xs : List Val,
    (xs.any fun x => fs.any fun f => !settled (f x)) = !((xs.flatMap fun x => fs.map (· x)).all settled)
  | [] => rfl
  | x :: xs => by
    rw [List.any_cons, any_xs_fs fs xs, any_fs, List.flatMap_cons, List.all_append, Bool.not_and]

theorem flatMap_xs_fs (fs : List (Val → Res Val)) : ∀ xs : List Val,
    (xs.flatMap fun x => fs.flatMap fun f => errCats (f x)) = (xs.flatMap fun x => fs.map (· x)).flatMap errCats
  | [] => rfl
  | x :: xs => by
    rw [List.flatMap_cons, flatMap_xs_fs fs xs, flatMap_fs, List.flatMap_cons, List.flatMap_append]

theorem widen_eq {α} (t : ATag) (xs : List Val) (fs : List (Val → Res Val)) (r : Res α) :
    widen t xs fs [] r = overOrders (unordered t xs.length) (xs.flatMap fun x => fs.map (· x)) r := by
  cases r with
  | err cs =>
    simp only [widen, overOrders, enum2_eq, List.append_nil, unsettled_eq, errs_eq, any_xs_fs, flatMap_xs_fs]
    cases unordered t xs.length
    · rfl
    · simp only [if_true]
      cases ((xs.flatMap fun x => fs.map (· x)).all settled) <;> rfl
  | _ => rfl

theorem flatMap_single {α β} (f : α → β) (xs : List α) : (xs.flatMap fun x => [f x]) = xs.map f := by
  induction xs with
  | nil => rfl
  | cons x xs ih => simp only [List.flatMap_cons, List.map_cons, ih, List.singleton_append]

theorem projectArray_arr (f : Val → Res Val) (t : ATag) (xs : List Val) :
    projectArray f (.arr t xs) = project t xs f := by
  simp only [projectArray, project, widen_eq, mapPrune_eq, Res.bind_assoc, Res.pure_eq, Res.ok_bind, derived_eq,
    List.map_cons, List.map_nil, flatMap_single]

theorem projectObject_obj (f : Val → Res Val) (kvs : List (Bytes × Val)) :
    projectObject f (.obj kvs) = project .enum (kvs.map Prod.snd) f := by
  simp only [projectObject, project, widen_eq, mapPrune_eq, Res.bind_assoc, Res.pure_eq, Res.ok_bind,
    List.map_cons, List.map_nil, flatMap_single, elemTag]

theorem filterAndProjectArray_arr (c f : Val → Res Val) (t : ATag) (xs : List Val) :
    filterAndProjectArray c f (.arr t xs) = filterProject t xs c f := by
  simp only [filterAndProjectArray, filterProject, widen_eq, filterMapPrune_eq, Res.bind_assoc, Res.pure_eq, Res.ok_bind,
    derived_eq, List.map_cons, List.map_nil]

theorem flattenForProject_eq : ∀ xs : List Val, flattenForProject xs = flatOnce xs
  | [] => rfl
  | x :: xs => by
    have ih := flattenForProject_eq xs
    simp only [flatOnce] at ih ⊢
    cases x <;> simp only [flattenForProject, List.flatMap_cons, ih, List.singleton_append]

theorem flattenTag_eq (t : ATag) (xs : List Val) :
    flattenTag t xs = if flatUnordered t xs then ATag.enum else ATag.plain := by
  simp only [flattenTag, flatUnordered, enum2_eq]
  congr 4

theorem flattenAndProjectArray_arr (f : Val → Res Val) (t : ATag) (xs : List Val) :
    flattenAndProjectArray f (.arr t xs) = flatProject t xs f := by
  simp only [flattenAndProjectArray, flatProject, widen_eq, mapPrune_eq, Res.bind_assoc, Res.pure_eq, Res.ok_bind,
    List.map_cons, List.map_nil, flatMap_single, flattenForProject_eq, flattenTag_eq]
  congr 1
  simp only [unordered, List.length_append, List.length_cons, List.length_nil]
  cases flatUnordered t xs <;> simp

/-! ## Selectors -/

theorem objLookup_eq (k : Bytes) : ∀ kvs : List (Bytes × Val), objLookup k kvs = lookup k kvs
  | [] => rfl
  | (k', v) :: rest => by
    simp only [objLookup, lookup, List.find?_cons]
    by_cases h : k = k'
    · subst h; simp only [if_true, beq_self_eq_true, Option.map_some]
    · have : (k' == k) = false := by simpa using fun e => h e.symm
      simp only [h, if_false, this]
      exact objLookup_eq k rest

theorem field_eq (k : Bytes) (v : Val) : field k v = fieldOf k v := by
  cases v <;> simp only [field, fieldOf, objLookup_eq]

theorem index_eq (v : Val) (i : Int) : index v i = indexOf v i := by
  cases v <;> simp only [index, indexOf, enum2_eq, ge_iff_le]

theorem cmpOp_eq (f : Dec → Dec → Bool) (a b : Val) : cmpOp f a b = orderOp f a b := by
  simp only [cmpOp, orderOp]
  cases toDecimal a <;> cases toDecimal b <;> rfl

theorem pruneArray_arr (t : ATag) (xs : List Val) :
    Res.ok (pruneArray (.arr t xs)) =
      if xs.any Val.isNull then project t xs Res.ok else Res.ok (.arr t xs) := by
  have h : ∀ ys : List Val, inOrder (ys.map Res.ok) = Res.ok ys := by
    intro ys
    induction ys with
    | nil => rfl
    | cons y ys ih => simp only [List.map_cons, inOrder_cons, ih, Res.ok_bind]
  simp only [pruneArray, project, h, Res.ok_bind, overOrders, derived_eq, dropNulls]
  cases xs.any Val.isNull <;> rfl

/-! ## Slices -/

theorem isEmpty_eq_nil {α} (l : List α) : (l.isEmpty = true) ↔ l = [] := List.isEmpty_iff

theorem slice_eq (v : Val) (a b : Option Int) : slice v (C12.encStart 1 a) (C12.encStop 1 b) = sliceOf v a b 1 := by
  cases v with
  | arr t xs =>
    simp only [sliceOf]
    by_cases hM : (xs.length : Int) ≤ MaxInt
    · simp only [hM, if_true]
      by_cases hw : pyWalk xs.length a b 1 = []
      · simp only [hw, List.isEmpty_nil, if_true]
        exact C12.empty_walk_slice t xs a b hM hw
      · have hw' : (pyWalk xs.length a b 1).isEmpty = false := by
          cases h : pyWalk xs.length a b 1 with
          | nil => exact absurd h hw
          | cons _ _ => rfl
        simp only [hw', Bool.false_eq_true, if_false, ← enum2_eq]
        cases ht : enum2 t xs
        · simp only [Bool.false_eq_true, if_false]
          exact C12B.slice_array_spec_anyTag t xs a b hM ht
        · simp only [if_true]
          exact C12B.slice_enum_nondet t xs a b hM ht hw
    · simp only [hM, if_false, modelSlice, if_true]
  | str s => simp only [sliceOf, modelSlice, if_true]
  | _ => rfl

theorem sliceStep_eq (v : Val) (a b : Option Int) (step : Int) (h0 : step ≠ 0) (h1 : step ≠ 1) (hmin : MinInt ≤ step) :
    sliceStep v (C12.encStart step a) (C12.encStop step b) step = sliceOf v a b step := by
  cases v with
  | arr t xs =>
    simp only [sliceOf]
    by_cases hM : (xs.length : Int) ≤ MaxInt
    · simp only [hM, if_true]
      by_cases hw : pyWalk xs.length a b step = []
      · simp only [hw, List.isEmpty_nil, if_true]
        exact C12.empty_walk_sliceStep t xs a b step hM h0 hmin hw
      · have hw' : (pyWalk xs.length a b step).isEmpty = false := by
          cases h : pyWalk xs.length a b step with
          | nil => exact absurd h hw
          | cons _ _ => rfl
        simp only [hw', Bool.false_eq_true, if_false, ← enum2_eq]
        cases ht : enum2 t xs
        · simp only [Bool.false_eq_true, if_false]
          exact C12B.sliceStep_array_spec_anyTag t xs a b step hM h0 hmin ht
        · simp only [if_true]
          exact C12B.sliceStep_enum_nondet t xs a b step hM h0 hmin ht hw
    · simp only [hM, if_false, modelSlice, h1]
  | str s => simp only [sliceOf, modelSlice, h1, if_false]
  | _ => rfl

theorem encStart_eq (step : Int) (h0 : step ≠ 0) (a : Option Int) :
    a.getD (if step < 0 then Grammar.maxInt else 0) = C12.encStart step a := by
  cases a with
  | some v => rfl
  | none =>
    simp only [Option.getD_none, C12.encStart, Grammar.maxInt, MaxInt]
    split <;> split <;> first | rfl | omega

theorem encStop_eq (step : Int) (h0 : step ≠ 0) (b : Option Int) :
    b.getD (if step < 0 then Grammar.minInt else Grammar.maxInt) = C12.encStop step b := by
  cases b with
  | some v => rfl
  | none =>
    simp only [Option.getD_none, C12.encStop, Grammar.maxInt, MaxInt, Grammar.minInt, MinInt]
    split <;> split <;> first | rfl | omega

/-- the value of the left operand of a postfix form: the current node when there is none -/
def childVal (root : Val) (child : Option INode) (cur : Val) (env : Env) : Res Val :=
  match child with
  | none => .ok cur
  | some l => ieval root l cur env

theorem sliceNode_eval (root : Val) (env : Env) (child : Option INode) (cur : Val) (a b c : Option Int)
    (h0 : c.getD 1 ≠ 0) (hmin : MinInt ≤ c.getD 1) :
    ieval root (sliceNode child a b c) cur env = (childVal root child cur env >>= fun v => sliceOf v a b (c.getD 1)) := by
  simp only [sliceNode, encStart_eq _ h0, encStop_eq _ h0]
  by_cases h1 : c.getD 1 = 1
  · simp only [h1, if_true]
    cases child <;> simp only [ieval, childVal, Res.ok_bind, slice_eq]
  · simp only [h1, if_false]
    cases child <;> simp only [ieval, childVal, Res.ok_bind, sliceStep_eq _ _ _ _ h0 h1 hmin]

theorem sliceNode_isSlice (child : Option INode) (a b c : Option Int) : (sliceNode child a b c).isSlice = true := by
  simp only [sliceNode]
  split <;> cases child <;> rfl

/-! ## Members evaluated in map order -/

theorem mem_dedup (c : Cat) : ∀ l : List Cat, c ∈ Cat.dedup l ↔ c ∈ l
  | [] => Iff.rfl
  | d :: l => by
    simp only [Cat.dedup]
    cases h : l.contains d
    · simp only [Bool.false_eq_true, if_false, List.mem_cons, mem_dedup c l]
    · simp only [if_true, mem_dedup c l, List.mem_cons]
      constructor
      · exact Or.inr
      · rintro (rfl | h')
        · exact List.contains_iff_mem.mp h
        · exact h'

theorem contains_dedup_append (c : Cat) (a b : List Cat) : (Cat.dedup a ++ b).contains c = (a ++ b).contains c := by
  rw [Bool.eq_iff_iff]
  simp only [List.contains_iff_mem, List.mem_append, mem_dedup]

theorem dedup_dedup_append : ∀ a b : List Cat, Cat.dedup (Cat.dedup a ++ b) = Cat.dedup (a ++ b)
  | [], _ => rfl
  | c :: a, b => by
    have ih := dedup_dedup_append a b
    cases h : a.contains c
    · simp only [Cat.dedup, h, Bool.false_eq_true, if_false, List.cons_append, contains_dedup_append, ih]
    · have h' : (a ++ b).contains c = true := by
        rw [List.contains_iff_mem] at h ⊢
        exact List.mem_append_left _ h
      simp only [Cat.dedup, h, if_true, List.cons_append, h', ih]

theorem objectOf_cons (k : Bytes) (v : Val) (kvs : List (Bytes × Val)) :
    objectOf ((k, v) :: kvs) = objInsert k v (objectOf kvs) := rfl

theorem anyOrder_nil : anyOrder [] = Res.ok [] := rfl

section
variable {α : Type} (a : α) (c : List Cat) (w : String)
theorem isPanic_ok : isPanic (Res.ok a) = false := rfl
theorem isPanic_err : isPanic (Res.err c : Res α) = false := rfl
theorem isPanic_panic : isPanic (Res.panic w : Res α) = true := rfl
theorem isPanic_nondet : isPanic (Res.nondet : Res α) = false := rfl
theorem isPanic_unmodelled : isPanic (Res.unmodelled w : Res α) = false := rfl
theorem isUnmodelled_ok : isUnmodelled (Res.ok a) = false := rfl
theorem isUnmodelled_err : isUnmodelled (Res.err c : Res α) = false := rfl
theorem isUnmodelled_panic : isUnmodelled (Res.panic w : Res α) = false := rfl
theorem isUnmodelled_nondet : isUnmodelled (Res.nondet : Res α) = false := rfl
theorem isUnmodelled_unmodelled : isUnmodelled (Res.unmodelled w : Res α) = true := rfl
theorem isNondet_ok : isNondet (Res.ok a) = false := rfl
theorem isNondet_err : isNondet (Res.err c : Res α) = false := rfl
theorem isNondet_panic : isNondet (Res.panic w : Res α) = false := rfl
theorem isNondet_nondet : isNondet (Res.nondet : Res α) = true := rfl
theorem isNondet_unmodelled : isNondet (Res.unmodelled w : Res α) = false := rfl
theorem errCats?_ok : errCats? (Res.ok a) = none := rfl
theorem errCats?_err : errCats? (Res.err c : Res α) = some c := rfl
theorem errCats?_panic : errCats? (Res.panic w : Res α) = none := rfl
theorem errCats?_nondet : errCats? (Res.nondet : Res α) = none := rfl
theorem errCats?_unmodelled : errCats? (Res.unmodelled w : Res α) = none := rfl
theorem val?_ok : val? (Res.ok a) = some a := rfl
theorem val?_err : val? (Res.err c : Res α) = none := rfl
theorem val?_panic : val? (Res.panic w : Res α) = none := rfl
theorem val?_nondet : val? (Res.nondet : Res α) = none := rfl
theorem val?_unmodelled : val? (Res.unmodelled w : Res α) = none := rfl
end

theorem anyOrder_cons (k : Bytes) (r : Res Val) (ms : List (Bytes × Res Val)) :
    anyOrder ((k, r) :: ms) = combineUnordered (anyOrder ms) k r := by
  simp only [anyOrder, List.reverse_cons, List.map_append, List.map_cons, List.map_nil, List.find?_append,
    List.any_append, List.filterMap_append, List.filterMap_cons]
  generalize hP : List.find? isPanic (ms.reverse.map Prod.snd) = P
  generalize hU : List.find? isUnmodelled (ms.reverse.map Prod.snd) = U
  generalize hN : (ms.reverse.map Prod.snd).any isNondet = N
  generalize hE : (ms.reverse.map Prod.snd).filterMap errCats? = E
  generalize hV : objectOf (ms.filterMap fun m => (val? m.2).map fun v => (m.1, v)) = V
  cases P with
  | some p =>
    have hp := List.find?_some hP
    cases p <;> first | cases hp | skip
    cases r <;> rfl
  | none =>
    cases U with
    | some u =>
      have hu := List.find?_some hU
      cases u <;> first | cases hu | skip
      cases r <;> rfl
    | none =>
      cases r <;> cases N <;> rcases E with _ | ⟨c1, _ | ⟨c2, cs⟩⟩ <;>
        simp only [List.find?_cons, List.find?_nil, Option.or_none, Option.or_some, Option.none_or, Option.getD_none, Option.getD_some, List.any_cons,
          List.any_nil, Bool.or_false, Bool.or_true, Bool.false_eq_true, if_false, if_true, List.filterMap_nil,
          List.append_nil, List.cons_append, List.nil_append, Option.map_some, Option.map_none, objectOf_cons, hV,
          combineUnordered, failAs,
          isPanic_ok, isPanic_err, isPanic_panic, isPanic_nondet, isPanic_unmodelled,
          isUnmodelled_ok, isUnmodelled_err, isUnmodelled_panic, isUnmodelled_nondet, isUnmodelled_unmodelled,
          isNondet_ok, isNondet_err, isNondet_panic, isNondet_nondet, isNondet_unmodelled,
          errCats?_ok, errCats?_err, errCats?_panic, errCats?_nondet, errCats?_unmodelled,
          val?_ok, val?_err, val?_panic, val?_nondet, val?_unmodelled,
          dedup_dedup_append, List.flatten_cons, List.flatten_append, List.flatten_nil, List.append_assoc]

theorem ievalFields_eq (root : Val) (cur : Val) (env : Env) : ∀ fs : List (Bytes × INode),
    ievalFields root fs cur env = anyOrder (fs.map fun kn => (kn.1, ieval root kn.2 cur env))
  | [] => rfl
  | (k, n) :: rest => by
    simp only [ievalFields, List.map_cons, anyOrder_cons, ievalFields_eq root cur env rest]

theorem assocInsert_map {α} (g : INode → α) (k : Bytes) (n : INode) : ∀ l : List (Bytes × INode),
    (Parser.assocInsert k n l).map (fun kn => (kn.1, g kn.2)) = insertLast k (g n) (l.map fun kn => (kn.1, g kn.2))
  | [] => rfl
  | (k', n') :: rest => by
    simp only [Parser.assocInsert, List.map_cons, insertLast]
    split
    · rfl
    · split
      · rfl
      · simp only [List.map_cons, assocInsert_map g k n rest]

theorem assocOf_map {α} (g : INode → α) (ps : List (Bytes × INode)) :
    (assocOf ps).map (fun kn => (kn.1, g kn.2)) = byKey (ps.map fun kn => (kn.1, g kn.2)) := by
  have h : ∀ (ps acc : List (Bytes × INode)),
      (ps.foldl (fun acc p => Parser.assocInsert p.1 p.2 acc) acc).map (fun kn => (kn.1, g kn.2)) =
        (ps.map fun kn => (kn.1, g kn.2)).foldl (fun acc m => insertLast m.1 m.2 acc) (acc.map fun kn => (kn.1, g kn.2)) := by
    intro ps
    induction ps with
    | nil => intro acc; rfl
    | cons p ps ih => intro acc; simp only [List.foldl_cons, List.map_cons, ih, assocInsert_map]
  exact h ps []

/-! ## Function calls -/

/-- the node a builtin's constructor builds has a shape that depends on the number of arguments only -/
def CallShape (mk : List INode → INode) : Prop :=
  ∀ ns ps : List INode, ns.length = ps.length →
    (∃ f, mk ns = .call f ns ∧ mk ps = .call f ps) ∨ (mk ns = .merge ns ∧ mk ps = .merge ps) ∨
    (mk ns = .notNull ns ∧ mk ps = .notNull ps) ∨ (mk ns = .zip ns ∧ mk ps = .zip ps)

def SpecShape : Parser.ArgSpec → Prop
  | .fixed _ _ mk => CallShape mk
  | .varArg mk => CallShape mk
  | .expArg mk => mk = INode.sortBy ∨ mk = INode.maxBy ∨ mk = INode.minBy ∨ mk = INode.groupBy
  | .mapArg mk => mk = INode.map

theorem builtin_shape : ∀ e ∈ Parser.builtinTable, SpecShape e.2 := by
  simp only [Parser.builtinTable, List.forall_mem_cons]
  repeat' apply And.intro
  all_goals first
    | exact fun ns ps _ => Or.inl ⟨_, rfl, rfl⟩
    | exact fun ns ps _ => Or.inr (Or.inl ⟨rfl, rfl⟩)
    | exact fun ns ps _ => Or.inr (Or.inr (Or.inl ⟨rfl, rfl⟩))
    | exact fun ns ps _ => Or.inr (Or.inr (Or.inr ⟨rfl, rfl⟩))
    | exact Or.inl rfl
    | exact Or.inr (Or.inl rfl)
    | exact Or.inr (Or.inr (Or.inl rfl))
    | exact Or.inr (Or.inr (Or.inr rfl))
    | exact (rfl : _ = INode.map)
    | (intro ns ps h; show _ ∨ _; simp only [h]; split <;> exact Or.inl ⟨_, rfl, rfl⟩)
    | (intro x hx; cases hx)

theorem lookupBuiltin_shape {name : Bytes} {spec : Parser.ArgSpec} (h : Parser.lookupBuiltin name = some spec) :
    SpecShape spec := by
  simp only [Parser.lookupBuiltin, Option.map_eq_some_iff] at h
  obtain ⟨e, he, rfl⟩ := h
  exact builtin_shape e (List.mem_of_find?_eq_some he)

theorem ievalMerge_eq (root cur : Val) (env : Env) : ∀ (ns : List INode) (acc : List (Bytes × Val)),
    ievalMerge root ns cur env acc =
      (inOrder (ns.map fun n => ieval root n cur env >>= fun v => match v with
          | .obj kvs => Res.ok kvs
          | _ => errType)
        >>= fun os => Res.ok (os.foldl (fun acc kvs => kvs.foldl (fun a kv => objInsert kv.1 kv.2 a) acc) acc))
  | [], acc => rfl
  | n :: ns, acc => by
    simp only [ievalMerge, List.map_cons, inOrder_cons, Res.bind_assoc]
    apply Res.bind_congr; intro v
    cases v <;> first
      | rfl
      | simp only [ievalMerge_eq root cur env ns, Res.ok_bind, Res.bind_assoc, List.foldl_cons]

theorem ievalNotNull_eq (root cur : Val) (env : Env) : ∀ ns : List INode,
    ievalNotNull root ns cur env = notNullSem (ns.map fun n => ieval root n cur env)
  | [] => rfl
  | n :: ns => by
    simp only [ievalNotNull, List.map_cons, notNullSem, List.find?_cons]
    have ih := ievalNotNull_eq root cur env ns
    simp only [notNullSem] at ih
    cases h : ieval root n cur env with
    | ok v =>
      simp only [Res.ok_bind, Res.pure_eq]
      cases v <;> first | exact ih | rfl
    | _ => rfl

theorem ievalZip_eq (root cur : Val) (env : Env) : ∀ ns : List INode,
    ievalZip root ns cur env =
      inOrder (ns.map fun n => ieval root n cur env >>= fun v => match v with
          | .arr _ _ => Res.ok v
          | _ => errType)
  | [] => rfl
  | n :: ns => by
    simp only [ievalZip, List.map_cons, inOrder_cons, Res.bind_assoc]
    apply Res.bind_congr; intro v
    cases v <;> first
      | rfl
      | simp only [ievalZip_eq root cur env ns, Res.ok_bind, Res.pure_eq]

/-- the argument nodes `ns` mean the functions `fs` -/
def FnsAgree (root : Val) (env : Env) (ns : List INode) (fs : List (Val → Res Val)) : Prop :=
  ns.map (fun n x => ieval root n x env) = fs

theorem FnsAgree.at {root : Val} {env : Env} {ns : List INode} {fs : List (Val → Res Val)} (h : FnsAgree root env ns fs)
    (cur : Val) : (ns.map fun n => ieval root n cur env) = fs.map (· cur) := by
  rw [← h, List.map_map]; rfl

theorem callNode_eval (root cur : Val) (env : Env) {name : Bytes} {spec : Parser.ArgSpec}
    (hl : Parser.lookupBuiltin name = some spec) (args : List PTree) (ns : List INode) (fs : List (Val → Res Val))
    (hlen : args.length = ns.length) (hok : argsOK spec args = true) (h : FnsAgree root env ns fs) :
    ieval root (callNode spec ns) cur env = callSem spec fs cur := by
  have hsh := lookupBuiltin_shape hl
  have hfl : fs.length = ns.length := by rw [← h, List.length_map]
  have shape : ∀ mk, CallShape mk → ieval root (mk ns) cur env =
      (match mk (fs.map fun _ => INode.current) with
       | .call f _ => inOrder (fs.map (· cur)) >>= applyFn f
       | .merge _ => mergeSem (fs.map (· cur))
       | .notNull _ => notNullSem (fs.map (· cur))
       | .zip _ => zipSem (fs.map (· cur))
       | _ => Res.ok cur) := by
    intro mk hmk
    rcases hmk ns (fs.map fun _ => INode.current) (by rw [List.length_map, hfl]) with
      ⟨f, h1, h2⟩ | ⟨h1, h2⟩ | ⟨h1, h2⟩ | ⟨h1, h2⟩
    · rw [h1, h2]; simp only [ieval, ievalList_eq, h.at]
    · rw [h1, h2]; simp only [ieval, ievalMerge_eq, mergeSem, Res.pure_eq, Res.bind_assoc, Res.ok_bind, ← h.at, List.map_map]
      rfl
    · rw [h1, h2]; simp only [ieval, ievalNotNull_eq, h.at]
    · rw [h1, h2]; simp only [ieval, ievalZip_eq, zipSem, Res.pure_eq, Res.bind_assoc, ← h.at, List.map_map]
      rfl
  cases spec with
  | fixed mn mx mk => simp only [callNode, callSem]; exact shape mk hsh
  | varArg mk => simp only [callNode, callSem]; exact shape mk hsh
  | expArg mk =>
    clear shape hfl
    match args, ns, hlen, hok, h with
    | [_, _], [na, ne], _, _, h =>
      simp only [FnsAgree, List.map_cons, List.map_nil] at h
      subst h
      rcases hsh with rfl | rfl | rfl | rfl <;> simp only [callNode, callSem, ieval]
    | [], _, _, hok, _ => simp [argsOK] at hok
    | [_], _, _, hok, _ => simp [argsOK] at hok
    | _ :: _ :: _ :: _, _, _, hok, _ => simp [argsOK] at hok
  | mapArg mk =>
    clear shape hfl
    match args, ns, hlen, hok, h with
    | [_, _], [ne, na], _, _, h =>
      simp only [FnsAgree, List.map_cons, List.map_nil] at h
      subst h
      cases (hsh : mk = INode.map)
      simp only [callNode, callSem, ieval]
    | [], _, _, hok, _ => simp [argsOK] at hok
    | [_], _, _, hok, _ => simp [argsOK] at hok
    | _ :: _ :: _ :: _, _, _, hok, _ => simp [argsOK] at hok

end Jmes.C01C
