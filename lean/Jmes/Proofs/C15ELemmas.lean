/-
  Helper lemmas for Jmes/Properties/C15E.lean (fourth wave, property C15).

  A SYNTACTIC classification `kind : INode → Kd` of expressions whose object enumerations reach only
  order-insensitive consumers, and the three-part relation `Tri` between the model's outcome and the outcome of one
  run (`ievalO π`): the model is never `.nondet`, a value of the model has the shape announced by the kind and every
  run returns a concretisation of it, an error set of the model contains the single category every run reports.
-/
import Jmes.Proofs.C15CErrMain
import Jmes.Proofs.C15CMaxLemmas
set_option linter.unusedVariables false
namespace Jmes.C15E
open Jmes Invar Jmes.C15C

/-! ## kinds -/

/-- what a sub-expression evaluates to (on inputs without map-ordered arrays):
    * `p` — a value without any map-ordered array, the same in every run;
    * `k` — the array of an object's keys (strings), tagged map-ordered: `keys(e)`;
    * `e` — a value without map-ordered arrays, or ONE map-ordered array whose elements contain none;
    * `s` — a value without map-ordered arrays, or the EMPTY array tagged map-ordered (`sort(keys(e))` on `{}`);
    * `bad` — not classified. -/
inductive Kd where
  | bad | keys | enum | sorted | plain
  deriving DecidableEq, Repr, Inhabited

/-- may be handed to an order-insensitive consumer -/
def Kd.isSrc : Kd → Bool
  | .bad => false
  | _ => true

/-- one top-level map-ordered array over plain elements, or a plain value -/
def Top (a : Val) : Prop := a.Good true = true ∨ ∃ xs, a = .arr .enum xs ∧ Val.GoodL true xs = true

/-- the shape of a value of the given kind -/
def Shape : Kd → Val → Prop
  | .bad, _ => False
  | .plain, a => a.Good true = true
  | .enum, a => Top a
  | .keys, a => ∃ ss : List Bytes, a = .arr .enum (ss.map Val.str)
  | .sorted, a => a.Good true = true ∨ a = .arr .enum []

theorem goodL_strs (ss : List Bytes) : Val.GoodL true (ss.map Val.str) = true :=
  goodL_iff.mpr fun y hy => by
    obtain ⟨b, _, rfl⟩ := List.mem_map.mp hy
    rfl

theorem Shape.top : ∀ {k : Kd} {a : Val}, Shape k a → Top a
  | .bad, _, h => h.elim
  | .plain, _, h => .inl h
  | .enum, _, h => h
  | .keys, _, ⟨ss, e⟩ => .inr ⟨_, e, goodL_strs ss⟩
  | .sorted, _, h => by
    rcases h with h | h
    · exact .inl h
    · exact .inr ⟨[], h, rfl⟩

theorem Top.conc {a : Val} (h : Top a) : Conc a a ∨ ∃ xs, a = .arr .enum xs ∧ Val.GoodL true xs = true := by
  rcases h with h | h
  · exact .inl (conc_refl a h)
  · exact .inr h

/-! ## the relation between the model's outcome and a run's outcome -/

/-- model outcome `r` against run outcome `r'`: `r` is definite with values of shape `S`; a value of `r` is
    concretised by `r'`; an error set of `r` contains the single category of `r'` -/
def Tri (S : Val → Prop) (r r' : Res Val) : Prop := Res.Def S r ∧ SimE r r' ∧ ErrH r r'

/-- the relation of kind `k` (nothing is claimed for `bad`) -/
def KRel (k : Kd) (r r' : Res Val) : Prop := k ≠ .bad → Tri (Shape k) r r'

theorem Tri.of_simR {r r' : Res Val} (h : SimR r r') : Tri (Shape .plain) r r' := by
  cases r with
  | ok a =>
    obtain ⟨e, hg⟩ := h
    exact ⟨hg, by rw [e]; exact SimG.ok (conc_refl a hg), ErrH.ok⟩
  | err cs =>
    obtain ⟨c, hc, e⟩ := h
    refine ⟨trivial, SimG.err, ?_⟩
    intro cs' e'; cases e'; exact ⟨c, hc, e⟩
  | nondet => exact h.elim
  | panic w => exact ⟨trivial, SimG.of_not_ok (by intro a e; cases e), ErrH.of_not_err (by intro a e; cases e)⟩
  | unmodelled w => exact ⟨trivial, SimG.of_not_ok (by intro a e; cases e), ErrH.of_not_err (by intro a e; cases e)⟩

theorem Tri.to_simR {r r' : Res Val} (h : Tri (Shape .plain) r r') : SimR r r' := by
  obtain ⟨hd, hs, he⟩ := h
  cases r with
  | ok a =>
    obtain ⟨b, e, hc⟩ := hs a rfl
    have hg : a.Good true = true := hd
    rw [conc_eq_of_good a b hc hg] at e
    exact ⟨e, hg⟩
  | err cs => exact he cs rfl
  | nondet => exact hd
  | panic w => trivial
  | unmodelled w => trivial

theorem Tri.mono {S S' : Val → Prop} {r r' : Res Val} (h : Tri S r r') (hs : ∀ a, S a → S' a) : Tri S' r r' :=
  ⟨Def.mono h.1 hs, h.2.1, h.2.2⟩

theorem KRel.bad {r r' : Res Val} : KRel .bad r r' := fun h => absurd rfl h
theorem KRel.of_tri {k : Kd} {r r' : Res Val} (h : Tri (Shape k) r r') : KRel k r r' := fun _ => h
theorem KRel.of_simR {r r' : Res Val} (h : SimR r r') : KRel .plain r r' := fun _ => Tri.of_simR h
theorem KRel.simR {r r' : Res Val} (h : KRel .plain r r') : SimR r r' := (h (by decide)).to_simR
theorem KRel.tri {k : Kd} {r r' : Res Val} (h : KRel k r r') (hk : k ≠ .bad) : Tri (Shape k) r r' := h hk

/-- first a definite step with identical values on both sides, then a step of shape `S` -/
theorem Tri.bindP {α} {P : α → Prop} {S : Val → Prop} {r r' : Res α} {f f' : α → Res Val} (h : SimS P r r')
    (hf : ∀ a, P a → Tri S (f a) (f' a)) : Tri S (r >>= f) (r' >>= f') := by
  cases r with
  | ok a =>
    obtain ⟨rfl, ha⟩ := h
    exact hf a ha
  | err cs =>
    obtain ⟨c, hc, rfl⟩ := h
    refine ⟨trivial, SimG.err, ?_⟩
    intro cs' e'; cases e'; exact ⟨c, hc, rfl⟩
  | nondet => exact h.elim
  | panic w => exact ⟨trivial, SimG.of_not_ok (by intro a e; cases e), ErrH.of_not_err (by intro a e; cases e)⟩
  | unmodelled w => exact ⟨trivial, SimG.of_not_ok (by intro a e; cases e), ErrH.of_not_err (by intro a e; cases e)⟩

/-- a step of shape `S`, then a step of shape `S'` on every concretisation -/
theorem Tri.bind {S S' : Val → Prop} {r r' : Res Val} {f f' : Val → Res Val} (h : Tri S r r')
    (hf : ∀ a a', S a → Conc a a' → Tri S' (f a) (f' a')) : Tri S' (r >>= f) (r' >>= f') := by
  obtain ⟨hd, hs, he⟩ := h
  cases r with
  | ok a =>
    obtain ⟨b, rfl, hc⟩ := hs a rfl
    exact hf a b hd hc
  | err cs =>
    obtain ⟨c, hc, rfl⟩ := he cs rfl
    refine ⟨trivial, SimG.err, ?_⟩
    intro cs' e'; cases e'; exact ⟨c, hc, rfl⟩
  | nondet => exact hd.elim
  | panic w => exact ⟨trivial, SimG.of_not_ok (by intro a e; cases e), ErrH.of_not_err (by intro a e; cases e)⟩
  | unmodelled w => exact ⟨trivial, SimG.of_not_ok (by intro a e; cases e), ErrH.of_not_err (by intro a e; cases e)⟩

theorem Tri.ok {S : Val → Prop} {a a' : Val} (hs : S a) (hc : Conc a a') : Tri S (.ok a) (.ok a') :=
  ⟨hs, SimG.ok hc, ErrH.ok⟩
theorem Tri.pure {S : Val → Prop} {a a' : Val} (hs : S a) (hc : Conc a a') : Tri S (Pure.pure a) (Pure.pure a') :=
  Tri.ok hs hc
theorem Tri.errType {S : Val → Prop} : Tri S (Jmes.errType : Res Val) Jmes.errType :=
  ⟨trivial, SimG.err, ErrH.errType⟩

/-- what `Tri` says, spelled out -/
theorem Tri.iff {S : Val → Prop} {r r' : Res Val} : Tri S r r' ↔
    r ≠ .nondet ∧ (∀ a, r = .ok a → S a ∧ ∃ a', r' = .ok a' ∧ Conc a a') ∧
      (∀ cs, r = .err cs → ∃ c ∈ cs, r' = .err [c]) := by
  constructor
  · rintro ⟨hd, hs, he⟩
    have hd' := Def.iff.mp hd
    exact ⟨hd'.1, fun a e => ⟨hd'.2 a e, hs a e⟩, he⟩
  · rintro ⟨h1, h2, h3⟩
    exact ⟨Def.iff.mpr ⟨h1, fun a e => (h2 a e).1⟩, fun a e => (h2 a e).2, h3⟩

/-! ## the classification -/

def pOnly : Kd → Kd
  | .plain => .plain
  | _ => .bad

def pp : Kd → Kd → Kd
  | .plain, .plain => .plain
  | _, _ => .bad

def ppp : Kd → Kd → Kd → Kd
  | .plain, .plain, .plain => .plain
  | _, _, _ => .bad

/-- `l | r`, `let … in r`: a plain left-hand side, then whatever the right-hand side is -/
def seqK : Kd → Kd → Kd
  | .plain, k => k
  | _, _ => .bad

def allP (ks : List Kd) : Bool := ks.all (fun k => k == .plain)

/-- a projection / filter / `map` over a source of kind `s` with a body of kind `b`; `okb`: the body always
    succeeds on plain elements -/
def projK (s b : Kd) (okb : Bool) : Kd :=
  match s with
  | .plain => pOnly b
  | .bad => .bad
  | _ => if okb then .enum else .bad

/-- an order-insensitive reading of a source: a plain result -/
def consK (s : Kd) : Kd := if s.isSrc then .plain else .bad

/-- the result of an element-wise rearrangement of a source (`reverse`, `to_array`, pruning) -/
def keepK : Kd → Kd
  | .keys => .enum
  | k => k

def one (ks : List Kd) (F : Kd → Kd) : Kd :=
  match ks with
  | [s] => F s
  | _ => .bad

def two (ks : List Kd) (F : Kd → Kd → Kd) : Kd :=
  match ks with
  | [a, b] => F a b
  | _ => .bad

def ifPlain (k r : Kd) : Kd := match k with | .plain => r | _ => .bad
def ifKeys (k r : Kd) : Kd := match k with | .keys => r | _ => .bad
def ifSorted (k r : Kd) : Kd := match k with | .sorted => r | _ => .bad
/-- an index into a plain value, or into the result of `sort(keys(e))` -/
def idxK : Kd → Kd
  | .plain => .plain
  | .sorted => .plain
  | _ => .bad

/-- the builtins that read a map-ordered source (or produce one) -/
def callSpecial (f : Fn) (ks : List Kd) : Kd :=
  match f with
  | .keys => one ks fun s => ifPlain s .keys
  | .values => one ks fun s => ifPlain s .enum
  | .items => one ks fun s => ifPlain s .enum
  | .length => one ks consK
  | .type => one ks consK
  | .contains => two ks fun s y => ifPlain y (consK s)
  | .sort => one ks fun s => ifKeys s .sorted
  | .max => one ks fun s => ifKeys s .plain
  | .min => one ks fun s => ifKeys s .plain
  | .reverse => one ks keepK
  | .toArray => one ks keepK
  | .join => two ks fun a b => ifPlain a (ifSorted b .plain)
  | _ => .bad

/-- kind of a builtin call from the kinds of its arguments -/
def callKd (f : Fn) (ks : List Kd) : Kd :=
  if !Fn.enumerates f && allP ks then .plain else callSpecial f ks

/-- an order-insensitive consumer applied to the current node: `f(@)`, ``f(@, `literal`)``, `!@` -/
inductive CurCons where
  | call1 (f : Fn)
  | call2 (f : Fn) (v : Val)
  | notCur
  | none

def curCons : INode → CurCons
  | .call f [.current] => .call1 f
  | .call f [.current, .lit v] => if v.Good true then .call2 f v else .none
  | .not .current => .notCur
  | _ => .none

/-- `src | consumer-of-@` for a map-ordered source of kind `s` -/
def pipeSrc (s : Kd) : CurCons → Kd
  | .call1 f => callSpecial f [s]
  | .call2 f _ => callSpecial f [s, .plain]
  | .notCur => consK s
  | .none => .bad

/-- `l | r`: a plain left-hand side, then whatever the right-hand side is; or a map-ordered left-hand side piped
    into an order-insensitive consumer of `@` (`keys(@) | sort(@)`, `* | length(@)`, ``values(@) | contains(@, `1`)``) -/
def pipeK (kl kr : Kd) (cc : CurCons) : Kd :=
  match kl with
  | .plain => kr
  | .bad => .bad
  | s => pipeSrc s cc

/-- the node always succeeds when its sub-nodes do (on inputs without map-ordered arrays) -/
def okHead : INode → Bool
  | .lit _ | .current | .root | .field _ => true
  | .binop op _ _ => (match op with | .eq | .ne | .lt | .le | .gt | .ge => true | _ => false)
  | .and _ _ | .or _ _ | .not _ | .negate _ | .assertNumber _ => true
  | .flatten _ | .flattenCurrent | .pruneArray _ | .pruneArrayCurrent => true
  | .index _ _ | .indexCurrent _ | .smallIndexCurrent _ => true
  | .pipe _ _ => true
  | .selectArray _ _ | .selectArrayCurrent _ | .selectArraySingle _ _ | .selectArraySingleCurrent _ => true
  | .selectObject _ _ | .selectObjectCurrent _ | .selectObjectSingle _ _ _ | .selectObjectSingleCurrent _ _ => true
  | .projectArrayCurrent _ | .filterCurrent _ => true
  | .call f args => (f == .toArray || f == .toNumber) && args.length == 1
  | _ => false

/-- a body that always succeeds: only always-succeeding heads, no object enumeration, plain literals, distinct keys -/
def isOkBody (n : INode) : Bool := n.all nodeOkS && n.all okHead

mutual
/-- the classification -/
def kind : INode → Kd
  | .lit v => if v.Good true then .plain else .bad
  | .current => .plain
  | .root => .plain
  | .field _ => .plain
  | .variable _ => .plain
  | .binop _ l r => pp (kind l) (kind r)
  | .and l r => pp (kind l) (kind r)
  | .or l r => pp (kind l) (kind r)
  | .not c => consK (kind c)
  | .negate c => pOnly (kind c)
  | .assertNumber c => pOnly (kind c)
  | .call f args => callKd f (kindL args)
  | .defineVariables vars child =>
    if decide ((vars.map Prod.fst).Nodup) && allP (kindF vars) then kind child else .bad
  | .filter c f => projK (kind c) (kind f) (isOkBody f)
  | .filterCurrent f => pOnly (kind f)
  | .filterAndProject l f r => projK (kind l) (pp (kind f) (kind r)) (isOkBody f && isOkBody r)
  | .filterAndProjectCurrent f c => pp (kind f) (kind c)
  | .flatten c => keepK (kind c)
  | .flattenCurrent => .plain
  | .flattenAndProject l r => pp (kind l) (kind r)
  | .flattenAndProjectCurrent c => pOnly (kind c)
  | .index c _ => idxK (kind c)
  | .indexCurrent _ => .plain
  | .smallIndexCurrent _ => .plain
  | .objectValues c => ifPlain (kind c) .enum
  | .objectValuesCurrent => .enum
  | .pipe l r => pipeK (kind l) (kind r) (curCons r)
  | .projectArray l r => projK (kind l) (kind r) (isOkBody r)
  | .projectArrayCurrent c => pOnly (kind c)
  | .projectObject l r => ifPlain (kind l) (if isOkBody r then .enum else .bad)
  | .projectObjectCurrent c => if isOkBody c then .enum else .bad
  | .pruneArray c => keepK (kind c)
  | .pruneArrayCurrent => .plain
  | .selectArray c fs => if allP (kindL fs) then pOnly (kind c) else .bad
  | .selectArrayCurrent fs => if allP (kindL fs) then .plain else .bad
  | .selectArraySingle c f => pp (kind c) (kind f)
  | .selectArraySingleCurrent f => pOnly (kind f)
  | .selectObject c fs =>
    if decide ((fs.map Prod.fst).Nodup) && allP (kindF fs) then pOnly (kind c) else .bad
  | .selectObjectCurrent fs => if decide ((fs.map Prod.fst).Nodup) && allP (kindF fs) then .plain else .bad
  | .selectObjectSingle c _ f => pp (kind c) (kind f)
  | .selectObjectSingleCurrent _ f => pOnly (kind f)
  | .slice c _ _ => pOnly (kind c)
  | .sliceCurrent _ _ => .plain
  | .sliceStep c _ _ _ => pOnly (kind c)
  | .sliceStepCurrent _ _ _ => .plain
  | .groupBy a e => pp (kind a) (kind e)
  | .map e a => projK (kind a) (kind e) (isOkBody e)
  | .maxBy a e => pp (kind a) (kind e)
  | .minBy a e => pp (kind a) (kind e)
  | .sortBy a e => pp (kind a) (kind e)
  | .merge args => if allP (kindL args) then .plain else .bad
  | .notNull args => if allP (kindL args) then .plain else .bad
  | .zip args => if allP (kindL args) then .plain else .bad
def kindL : List INode → List Kd
  | [] => []
  | n :: ns => kind n :: kindL ns
def kindF : List (Bytes × INode) → List Kd
  | [] => []
  | (_, n) :: rest => kind n :: kindF rest
end

/-! ## value-level lemmas -/

theorem concP_perm_of_good {xs xs' : List Val} (h : ConcP xs xs') (hg : Val.GoodL true xs = true) : xs'.Perm xs := by
  obtain ⟨ys', hl, hp⟩ := h
  rw [concL_eq_of_good xs ys' hl hg] at hp
  exact hp

theorem concP_of_perm {xs xs' : List Val} (hp : xs'.Perm xs) (hg : Val.GoodL true xs = true) : ConcP xs xs' :=
  ⟨xs, concL_refl xs hg, hp⟩

/-- what a concretisation of a value of top shape looks like -/
theorem top_conc_cases {a a' : Val} (ht : Top a) (hc : Conc a a') :
    (a.Good true = true ∧ a' = a) ∨
      ∃ xs xs', a = .arr .enum xs ∧ a' = .arr .plain xs' ∧ Val.GoodL true xs = true ∧ xs'.Perm xs := by
  rcases ht with hg | ⟨xs, rfl, hg⟩
  · exact .inl ⟨hg, conc_eq_of_good a a' hc hg⟩
  · obtain ⟨t', xs', rfl, _, hp, _, h2⟩ := conc_arr hc
    rw [h2 rfl]
    exact .inr ⟨xs, xs', rfl, rfl, hg, concP_perm_of_good hp hg⟩

theorem conc_enum_of_perm {xs xs' : List Val} (hp : xs'.Perm xs) (hg : Val.GoodL true xs = true) :
    Conc (.arr .enum xs) (.arr .plain xs') := conc_enumArr (concP_of_perm hp hg)

theorem top_enumArr {xs : List Val} (hg : Val.GoodL true xs = true) : Top (.arr .enum xs) := .inr ⟨xs, rfl, hg⟩

/-! ### loops whose body always succeeds -/

/-- the body, as seen by the model (`f`) and by every element position of a run (`g`), always succeeds with the same
    plain value on plain elements -/
def TotalFn (f : Val → Res Val) (g : Nat → Val → Res Val) : Prop :=
  ∀ (i : Nat) (x : Val), x.Good true = true → ∃ a, f x = .ok a ∧ g i x = .ok a ∧ a.Good true = true

def valOf (f : Val → Res Val) (x : Val) : Val := match f x with | .ok p => p | _ => .null
def pruneOf (f : Val → Res Val) (x : Val) : List Val := if (valOf f x).isNull then [] else [valOf f x]

theorem TotalFn.f_eq {f g} (h : TotalFn f g) {x : Val} (hx : x.Good true = true) : f x = .ok (valOf f x) := by
  obtain ⟨a, e, _, _⟩ := h 0 x hx
  simp only [valOf, e]
theorem TotalFn.g_eq {f g} (h : TotalFn f g) (i : Nat) {x : Val} (hx : x.Good true = true) :
    g i x = .ok (valOf f x) := by
  obtain ⟨a, e, e', _⟩ := h i x hx
  simp only [valOf, e, e']
theorem TotalFn.good {f g} (h : TotalFn f g) {x : Val} (hx : x.Good true = true) : (valOf f x).Good true = true := by
  obtain ⟨a, e, _, hg⟩ := h 0 x hx
  simp only [valOf, e]; exact hg

theorem mapPrune_total {f g} (h : TotalFn f g) : ∀ {xs : List Val}, Val.GoodL true xs = true →
    mapPrune f xs = .ok (xs.flatMap (pruneOf f))
  | [], _ => rfl
  | x :: xs, hg => by
    have ⟨hx, hr⟩ := goodL_cons.mp hg
    simp only [Res.ok_bind, Res.pure_eq, mapPrune, h.f_eq hx, mapPrune_total h hr, List.flatMap_cons, pruneOf]
    cases (valOf f x).isNull <;> rfl

theorem mapPruneO_total {f g} (h : TotalFn f g) : ∀ (i : Nat) {xs : List Val}, Val.GoodL true xs = true →
    mapPruneO g i xs = .ok (xs.flatMap (pruneOf f))
  | _, [], _ => rfl
  | i, x :: xs, hg => by
    have ⟨hx, hr⟩ := goodL_cons.mp hg
    simp only [Res.ok_bind, Res.pure_eq, mapPruneO, h.g_eq i hx, mapPruneO_total h (i + 1) hr, List.flatMap_cons, pruneOf]
    cases (valOf f x).isNull <;> rfl

theorem goodL_flatMap_pruneOf {f g} (h : TotalFn f g) {xs : List Val} (hg : Val.GoodL true xs = true) :
    Val.GoodL true (xs.flatMap (pruneOf f)) = true := by
  refine goodL_iff.mpr fun y hy => ?_
  obtain ⟨x, hx, hy⟩ := List.mem_flatMap.mp hy
  unfold pruneOf at hy
  split at hy
  · cases hy
  · rw [List.mem_singleton.mp hy]
    exact h.good (goodL_iff.mp hg x hx)

theorem mapAll_total {f g} (h : TotalFn f g) : ∀ {xs : List Val}, Val.GoodL true xs = true →
    mapAll f xs = .ok (xs.map (valOf f))
  | [], _ => rfl
  | x :: xs, hg => by
    have ⟨hx, hr⟩ := goodL_cons.mp hg
    simp only [Res.ok_bind, Res.pure_eq, mapAll, h.f_eq hx, mapAll_total h hr, List.map_cons]

theorem mapAllO_total {f g} (h : TotalFn f g) : ∀ (i : Nat) {xs : List Val}, Val.GoodL true xs = true →
    mapAllO g i xs = .ok (xs.map (valOf f))
  | _, [], _ => rfl
  | i, x :: xs, hg => by
    have ⟨hx, hr⟩ := goodL_cons.mp hg
    simp only [Res.ok_bind, Res.pure_eq, mapAllO, h.g_eq i hx, mapAllO_total h (i + 1) hr, List.map_cons]

theorem goodL_map_valOf {f g} (h : TotalFn f g) {xs : List Val} (hg : Val.GoodL true xs = true) :
    Val.GoodL true (xs.map (valOf f)) = true := by
  refine goodL_iff.mpr fun y hy => ?_
  obtain ⟨x, hx, rfl⟩ := List.mem_map.mp hy
  exact h.good (goodL_iff.mp hg x hx)

def keepOf (c : Val → Res Val) (x : Val) : Bool := isTrue (valOf c x) && !x.isNull

theorem filterLoop_total {c g} (h : TotalFn c g) : ∀ {xs : List Val}, Val.GoodL true xs = true →
    filterLoop c xs = .ok (xs.filter (keepOf c))
  | [], _ => rfl
  | x :: xs, hg => by
    have ⟨hx, hr⟩ := goodL_cons.mp hg
    have hk : (isTrue (valOf c x) && !x.isNull) = keepOf c x := rfl
    simp only [Res.ok_bind, Res.pure_eq, filterLoop, h.f_eq hx, filterLoop_total h hr, List.filter_cons, hk]

theorem filterLoopO_total {c g} (h : TotalFn c g) : ∀ (i : Nat) {xs : List Val}, Val.GoodL true xs = true →
    filterLoopO g i xs = .ok (xs.filter (keepOf c))
  | _, [], _ => rfl
  | i, x :: xs, hg => by
    have ⟨hx, hr⟩ := goodL_cons.mp hg
    have hk : (isTrue (valOf c x) && !x.isNull) = keepOf c x := rfl
    simp only [Res.ok_bind, Res.pure_eq, filterLoopO, h.g_eq i hx, filterLoopO_total h (i + 1) hr, List.filter_cons, hk]

def fmOf (c f : Val → Res Val) (x : Val) : List Val := if isTrue (valOf c x) then pruneOf f x else []

theorem filterMapPrune_total {c f gc gf} (hc : TotalFn c gc) (hf : TotalFn f gf) :
    ∀ {xs : List Val}, Val.GoodL true xs = true → filterMapPrune c f xs = .ok (xs.flatMap (fmOf c f))
  | [], _ => rfl
  | x :: xs, hg => by
    have ⟨hx, hr⟩ := goodL_cons.mp hg
    simp only [Res.ok_bind, Res.pure_eq, filterMapPrune, hc.f_eq hx, hf.f_eq hx, filterMapPrune_total hc hf hr, List.flatMap_cons, fmOf,
      pruneOf]
    cases isTrue (valOf c x) <;> cases (valOf f x).isNull <;> rfl

theorem filterMapPruneO_total {c f gc gf} (hc : TotalFn c gc) (hf : TotalFn f gf) :
    ∀ (i : Nat) {xs : List Val}, Val.GoodL true xs = true →
      filterMapPruneO gc gf i xs = .ok (xs.flatMap (fmOf c f))
  | _, [], _ => rfl
  | i, x :: xs, hg => by
    have ⟨hx, hr⟩ := goodL_cons.mp hg
    simp only [Res.ok_bind, Res.pure_eq, filterMapPruneO, hc.g_eq i hx, hf.g_eq i hx, filterMapPruneO_total hc hf (i + 1) hr,
      List.flatMap_cons, fmOf, pruneOf]
    cases isTrue (valOf c x) <;> cases (valOf f x).isNull <;> rfl

theorem goodL_flatMap_fmOf {c f : Val → Res Val} {gf : Nat → Val → Res Val} (hf : TotalFn f gf) {xs : List Val} (hg : Val.GoodL true xs = true) :
    Val.GoodL true (xs.flatMap (fmOf c f)) = true := by
  refine goodL_iff.mpr fun y hy => ?_
  obtain ⟨x, hx, hy⟩ := List.mem_flatMap.mp hy
  unfold fmOf pruneOf at hy
  split at hy
  · split at hy
    · cases hy
    · rw [List.mem_singleton.mp hy]
      exact hf.good (goodL_iff.mp hg x hx)
  · cases hy

theorem goodL_of_perm {xs xs' : List Val} (hp : xs'.Perm xs) (hg : Val.GoodL true xs = true) :
    Val.GoodL true xs' = true := goodL_sub hg fun y hy => hp.mem_iff.mp hy

theorem widen_ok {α} {t : ATag} {xs : List Val} {fs : List (Val → Res Val)} {extra : List Cat} (a : α) :
    widen t xs fs extra (.ok a) = .ok a := rfl

theorem TotalFn.simFn {f g} (h : TotalFn f g) : SimFn f g := by
  intro i v hv
  obtain ⟨a, e, e', hg⟩ := h i v hv
  rw [e, e']
  exact SimS.ok hg

theorem shape_enum_of_plain {a : Val} (h : Shape .plain a) : Shape .enum a := .inl h

/-! ### projections over a source of top shape, with a body that always succeeds -/

theorem projectArray_tri {f g} (ht : TotalFn f g) {a a' : Val} (hs : Top a) (hc : Conc a a') :
    Tri (Shape .enum) (projectArray f a) (projectArrayO g a') := by
  rcases top_conc_cases hs hc with ⟨hg, rfl⟩ | ⟨xs, xs', rfl, rfl, hg, hp⟩
  · exact (Tri.of_simR (projectArray_simS ht.simFn hg)).mono fun _ => shape_enum_of_plain
  · simp only [projectArray, projectArrayO, mapPrune_total ht hg, mapPruneO_total ht 0 (goodL_of_perm hp hg),
      Res.ok_bind, Res.pure_eq, widen_ok, ATag.derived]
    exact Tri.ok (top_enumArr (goodL_flatMap_pruneOf ht hg))
      (conc_enum_of_perm (hp.flatMap_right _) (goodL_flatMap_pruneOf ht hg))

theorem filterArray_tri {c g} (ht : TotalFn c g) {a a' : Val} (hs : Top a) (hc : Conc a a') :
    Tri (Shape .enum) (filterArray c a) (filterArrayO g a') := by
  rcases top_conc_cases hs hc with ⟨hg, rfl⟩ | ⟨xs, xs', rfl, rfl, hg, hp⟩
  · exact (Tri.of_simR (filterArray_simS ht.simFn hg)).mono fun _ => shape_enum_of_plain
  · simp only [filterArray, filterArrayO, filterLoop_total ht hg, filterLoopO_total ht 0 (goodL_of_perm hp hg),
      Res.ok_bind, Res.pure_eq, widen_ok, ATag.derived]
    exact Tri.ok (top_enumArr (goodL_filter _ hg)) (conc_enum_of_perm (hp.filter _) (goodL_filter _ hg))

theorem filterAndProjectArray_tri {c f gc gf} (hc' : TotalFn c gc) (hf : TotalFn f gf) {a a' : Val} (hs : Top a)
    (hc : Conc a a') : Tri (Shape .enum) (filterAndProjectArray c f a) (filterAndProjectArrayO gc gf a') := by
  rcases top_conc_cases hs hc with ⟨hg, rfl⟩ | ⟨xs, xs', rfl, rfl, hg, hp⟩
  · exact (Tri.of_simR (filterAndProjectArray_simS hc'.simFn hf.simFn hg)).mono fun _ => shape_enum_of_plain
  · simp only [filterAndProjectArray, filterAndProjectArrayO, filterMapPrune_total hc' hf hg,
      filterMapPruneO_total hc' hf 0 (goodL_of_perm hp hg), Res.ok_bind, Res.pure_eq, widen_ok, ATag.derived]
    exact Tri.ok (top_enumArr (goodL_flatMap_fmOf hf hg))
      (conc_enum_of_perm (hp.flatMap_right _) (goodL_flatMap_fmOf hf hg))

theorem mapArray_tri {f g} (ht : TotalFn f g) {a a' : Val} (hs : Top a) (hc : Conc a a') :
    Tri (Shape .enum) (mapArray f a) (mapArrayO g a') := by
  rcases top_conc_cases hs hc with ⟨hg, rfl⟩ | ⟨xs, xs', rfl, rfl, hg, hp⟩
  · exact (Tri.of_simR (mapArray_simS ht.simFn hg)).mono fun _ => shape_enum_of_plain
  · simp only [mapArray, mapArrayO, mapAll_total ht hg, mapAllO_total ht 0 (goodL_of_perm hp hg),
      Res.ok_bind, Res.pure_eq, widen_ok, ATag.derived]
    exact Tri.ok (top_enumArr (goodL_map_valOf ht hg)) (conc_enum_of_perm (hp.map _) (goodL_map_valOf ht hg))

theorem projectObject_tri (π : Oracle) {f g} (ht : TotalFn f g) {a : Val} (hg : a.Good true = true) :
    Tri (Shape .enum) (projectObject f a) (projectObjectO π g a) := by
  cases a with
  | obj kvs =>
    have hv : Val.GoodL true (kvs.map Prod.snd) = true := goodL_values (good_obj.mp hg)
    have hp : ((π.members kvs).map Prod.snd).Perm (kvs.map Prod.snd) := (π.members_perm kvs).map _
    simp only [projectObject, projectObjectO, mapPrune_total ht hv, mapPruneO_total ht 0 (goodL_of_perm hp hv),
      Res.ok_bind, Res.pure_eq, widen_ok]
    exact Tri.ok (top_enumArr (goodL_flatMap_pruneOf ht hv))
      (conc_enum_of_perm (hp.flatMap_right _) (goodL_flatMap_pruneOf ht hv))
  | _ => exact Tri.ok (.inl rfl) conc_null

theorem objectValues_tri (π : Oracle) {a : Val} (hg : a.Good true = true) :
    Shape .enum (objectValues a) ∧ Conc (objectValues a) (objectValuesO π a) := by
  refine ⟨?_, conc_objectValues π (conc_refl a hg)⟩
  cases a with
  | obj kvs => exact top_enumArr (goodL_filter _ (goodL_values (good_obj.mp hg)))
  | _ => exact .inl rfl

/-! ### builtins on shaped arguments -/

/-- for every builtin covered by the oracle lemmas, definiteness of the model's outcome is all that is left to show -/
theorem tri_applyFn (π : Oracle) (f : Fn) (hcov : Fn.coveredM f = true) {args args' : List Val}
    (hc : ConcL args args') {S : Val → Prop} (hd : Res.Def S (applyFn f args)) :
    Tri S (applyFn f args) (applyFnO π f args') :=
  ⟨hd, applyFn_simM π f hcov hc, applyFn_errH π f hcov hc⟩

theorem concL1 {a a' : Val} (h : Conc a a') : ConcL [a] [a'] := concL_cons h concL_nil
theorem concL2 {a a' b b' : Val} (h : Conc a a') (h' : Conc b b') : ConcL [a, b] [a', b'] :=
  concL_cons h (concL_cons h' concL_nil)

theorem keys_def {a : Val} (hg : a.Good true = true) : Res.Def (Shape .keys) (applyFn .keys [a]) := by
  cases a with
  | obj kvs => exact ⟨kvs.map Prod.fst, by simp [List.map_map, Function.comp_def]⟩
  | _ => exact Def.errType

theorem values_def {a : Val} (hg : a.Good true = true) : Res.Def (Shape .enum) (applyFn .values [a]) := by
  cases a with
  | obj kvs => exact top_enumArr (goodL_values (good_obj.mp hg))
  | _ => exact Def.errType

theorem items_def {a : Val} (hg : a.Good true = true) : Res.Def (Shape .enum) (applyFn .items [a]) := by
  cases a with
  | obj kvs =>
    refine top_enumArr (goodL_iff.mpr fun y hy => ?_)
    obtain ⟨kv, hkv, rfl⟩ := List.mem_map.mp hy
    exact good_plainArr (goodL_cons.mpr ⟨rfl, goodL_cons.mpr ⟨goodF_iff.mp (good_obj.mp hg) kv hkv, rfl⟩⟩)
  | _ => exact Def.errType

theorem length_def (a : Val) : Res.Def (Shape .plain) (applyFn .length [a]) :=
  Def.of_sat (length_sat (s := true) a)

theorem type_def (a : Val) : Res.Def (Shape .plain) (applyFn .type [a]) :=
  Def.of_sat (typeName_sat (s := true) a)

theorem contains_def {a y : Val} (ha : Top a) (hy : y.Good true = true) :
    Res.Def (Shape .plain) (applyFn .contains [a, y]) := by
  rcases ha with hg | ⟨xs, rfl, hg⟩
  · exact Def.of_sat (contains_sat hg hy)
  · show Res.Def (Shape .plain) (contains (.arr .enum xs) y)
    simp only [contains, hasEnum2L_good xs hg, hasEnum2_good y hy, Bool.or_self, Bool.false_eq_true, if_false]
    exact good_bool

theorem sort_def {a : Val} (ha : Shape .keys a) : Res.Def (Shape .sorted) (applyFn .sort [a]) := by
  obtain ⟨ss, rfl⟩ := ha
  show Res.Def (Shape .sorted) (sortArray (.arr .enum (ss.map Val.str)))
  cases ss with
  | nil => exact .inr rfl
  | cons s ss =>
    rw [(C13.sortArray_strings_spec (t := .enum) (ss := s :: ss) (by simp)).1]
    exact .inl (good_plainArr (goodL_strs _))

theorem reverse_def : ∀ {k : Kd} {a : Val}, Shape k a → Res.Def (Shape (keepK k)) (applyFn .reverse [a])
  | .bad, _, h => h.elim
  | .plain, a, h => Def.of_sat (reverse_sat (s := true) h)
  | .keys, _, ⟨ss, e⟩ => by subst e; exact top_enumArr (goodL_sub (goodL_strs ss) fun y hy => List.mem_reverse.mp hy)
  | .enum, a, h => by
    rcases h with hg | ⟨xs, rfl, hg⟩
    · exact Def.mono (Def.of_sat (reverse_sat (s := true) hg)) fun _ h => .inl h
    · exact top_enumArr (goodL_sub hg fun y hy => List.mem_reverse.mp hy)
  | .sorted, a, h => by
    rcases h with hg | rfl
    · exact Def.mono (Def.of_sat (reverse_sat (s := true) hg)) fun _ h => .inl h
    · exact .inr rfl

theorem toArray_shape : ∀ {k : Kd} {a : Val}, Shape k a → Shape (keepK k) (toArray a)
  | .bad, _, h => h.elim
  | .plain, a, h => toArray_good (s := true) h
  | .keys, _, ⟨ss, e⟩ => by subst e; exact top_enumArr (goodL_strs ss)
  | .enum, a, h => by
    rcases h with hg | ⟨xs, rfl, hg⟩
    · exact .inl (toArray_good hg)
    · exact top_enumArr hg
  | .sorted, a, h => by
    rcases h with hg | rfl
    · exact .inl (toArray_good hg)
    · exact .inr rfl

theorem pruneArray_shape : ∀ {k : Kd} {a : Val}, Shape k a → Shape (keepK k) (pruneArray a)
  | .bad, _, h => h.elim
  | .plain, a, h => pruneArray_good (s := true) h
  | .keys, _, ⟨ss, e⟩ => by
    subst e
    simp only [pruneArray]
    split
    · exact top_enumArr (goodL_filter _ (goodL_strs ss))
    · exact top_enumArr (goodL_strs ss)
  | .enum, a, h => by
    rcases h with hg | ⟨xs, rfl, hg⟩
    · exact .inl (pruneArray_good hg)
    · simp only [pruneArray]
      split
      · exact top_enumArr (goodL_filter _ hg)
      · exact top_enumArr hg
  | .sorted, a, h => by
    rcases h with hg | rfl
    · exact .inl (pruneArray_good hg)
    · exact .inr rfl

theorem flatten_shape : ∀ {k : Kd} {a : Val}, Shape k a → Shape (keepK k) (flatten a)
  | .bad, _, h => h.elim
  | .plain, a, h => flatten_good (s := true) h
  | .keys, _, ⟨ss, e⟩ => by
    subst e
    simp only [flatten]
    rcases flattenTag_cases .enum (ss.map Val.str) with h | h <;> rw [h]
    · exact top_enumArr (goodL_flattenElems (goodL_strs ss))
    · exact .inl (good_plainArr (goodL_flattenElems (goodL_strs ss)))
  | .enum, a, h => by
    rcases h with hg | ⟨xs, rfl, hg⟩
    · exact .inl (flatten_good hg)
    · simp only [flatten]
      rcases flattenTag_cases .enum xs with h | h <;> rw [h]
      · exact top_enumArr (goodL_flattenElems hg)
      · exact .inl (good_plainArr (goodL_flattenElems hg))
  | .sorted, a, h => by
    rcases h with hg | rfl
    · exact .inl (flatten_good hg)
    · exact .inl rfl

theorem join_def {sep a : Val} (ha : Shape .sorted a) : Res.Def (Shape .plain) (applyFn .join [sep, a]) := by
  rcases ha with hg | rfl
  · exact Def.of_sat (join_sat hg)
  · show Res.Def (Shape .plain) (join sep (.arr .enum []))
    cases sep <;> first | exact Def.errType | exact good_str

theorem index_tri_sorted {a a' : Val} (ha : Shape .sorted a) (hc : Conc a a') (i : Int) :
    Tri (Shape .plain) (index a i) (index a' i) := by
  refine ⟨?_, index_simE hc i, ErrH.of_not_err (index_noErr a i)⟩
  rcases ha with hg | rfl
  · exact Def.of_sat (index_sat i hg)
  · simp only [index]
    rw [if_pos]
    · exact good_null
    · simp only [List.length_nil]
      split <;> omega

theorem conc_of_valEq_flat {r r' : Val} (h : ValEq r r') (hn : ∀ n, r ≠ .num n) : Conc r r' := by
  rcases h with h | ⟨d, d', e, _, _⟩
  · exact h
  · exact absurd e (hn _)

theorem arrayMax_tri_keys {a a' : Val} (ha : Shape .keys a) (hc : Conc a a') :
    Tri (Shape .plain) (arrayMax a) (arrayMax a') := by
  obtain ⟨ss, rfl⟩ := ha
  have hd : ∃ r, arrayMax (.arr .enum (ss.map Val.str)) = .ok r ∧ r.Good true = true ∧ ∀ n, r ≠ .num n := by
    cases ss with
    | nil => exact ⟨.null, rfl, rfl, by intro n e; cases e⟩
    | cons s ss =>
      refine ⟨.str (maxStr s ss), ?_, rfl, by intro n e; cases e⟩
      simp only [arrayMax, List.map_cons, C13.allStrings_map]
  obtain ⟨r, hr, hg, hn⟩ := hd
  refine ⟨by rw [hr]; exact hg, ?_, arrayMax_errH hc⟩
  intro r0 hr0
  obtain ⟨r', hr', hv⟩ := arrayMax_valEq hc hr0
  rw [hr] at hr0; cases hr0
  exact ⟨r', hr', conc_of_valEq_flat hv hn⟩

theorem arrayMin_tri_keys {a a' : Val} (ha : Shape .keys a) (hc : Conc a a') :
    Tri (Shape .plain) (arrayMin a) (arrayMin a') := by
  obtain ⟨ss, rfl⟩ := ha
  have hd : ∃ r, arrayMin (.arr .enum (ss.map Val.str)) = .ok r ∧ r.Good true = true ∧ ∀ n, r ≠ .num n := by
    cases ss with
    | nil => exact ⟨.null, rfl, rfl, by intro n e; cases e⟩
    | cons s ss =>
      refine ⟨.str (minStr s ss), ?_, rfl, by intro n e; cases e⟩
      simp only [arrayMin, List.map_cons, C13.allStrings_map]
  obtain ⟨r, hr, hg, hn⟩ := hd
  refine ⟨by rw [hr]; exact hg, ?_, arrayMin_errH hc⟩
  intro r0 hr0
  obtain ⟨r', hr', hv⟩ := arrayMin_valEq hc hr0
  rw [hr] at hr0; cases hr0
  exact ⟨r', hr', conc_of_valEq_flat hv hn⟩

/-! ### plumbing for calls of arity one and two -/

theorem ieval_call1 (root : Val) (f : Fn) (c : INode) (cur : Val) (env : Env) :
    ieval root (.call f [c]) cur env = (ieval root c cur env >>= fun v => applyFn f [v]) := by
  simp only [ieval, ievalList]
  cases ieval root c cur env <;> rfl

theorem ievalO_call1 (π : Oracle) (root : Val) (f : Fn) (c : INode) (cur : Val) (env : Env) :
    ievalO π root (.call f [c]) cur env =
      (ievalO ((π.sub 0).sub 0) root c cur env >>= fun v => applyFnO (π.sub 1) f [v]) := by
  simp only [ievalO, ievalListO]
  cases ievalO ((π.sub 0).sub 0) root c cur env <;> rfl

theorem ieval_call2 (root : Val) (f : Fn) (c y : INode) (cur : Val) (env : Env) :
    ieval root (.call f [c, y]) cur env =
      (ieval root c cur env >>= fun a => ieval root y cur env >>= fun b => applyFn f [a, b]) := by
  simp only [ieval, ievalList]
  cases ieval root c cur env <;> try rfl
  cases ieval root y cur env <;> rfl

theorem ievalO_call2 (π : Oracle) (root : Val) (f : Fn) (c y : INode) (cur : Val) (env : Env) :
    ievalO π root (.call f [c, y]) cur env =
      (ievalO ((π.sub 0).sub 0) root c cur env >>= fun a =>
        ievalO (((π.sub 0).sub 1).sub 0) root y cur env >>= fun b => applyFnO (π.sub 1) f [a, b]) := by
  simp only [ievalO, ievalListO]
  cases ievalO ((π.sub 0).sub 0) root c cur env <;> try rfl
  cases ievalO (((π.sub 0).sub 1).sub 0) root y cur env <;> rfl

theorem kindL_one {args : List INode} {k : Kd} (h : kindL args = [k]) : ∃ c, args = [c] ∧ kind c = k := by
  match args, h with
  | [c], h =>
    simp only [kindL, List.cons.injEq, and_true] at h
    exact ⟨c, rfl, h⟩
  | [], h => simp [kindL] at h
  | _ :: _ :: _, h => simp [kindL] at h

theorem kindL_two {args : List INode} {k1 k2 : Kd} (h : kindL args = [k1, k2]) :
    ∃ c y, args = [c, y] ∧ kind c = k1 ∧ kind y = k2 := by
  match args, h with
  | [c, y], h =>
    simp only [kindL, List.cons.injEq, and_true] at h
    exact ⟨c, y, rfl, h.1, h.2⟩
  | [], h => simp [kindL] at h
  | [_], h => simp [kindL] at h
  | _ :: _ :: _ :: _, h => simp [kindL] at h

/-! ### bodies that always succeed -/

theorem index_ok_of_good {v : Val} (i : Int) (h : v.Good true = true) : ∃ a, index v i = .ok a := by
  cases v with
  | arr t xs =>
    have ⟨ht, _⟩ := good_arr.mp h
    simp only [index, enum2_of_tagOk xs ht, Bool.false_eq_true, if_false]
    split <;> split <;> exact ⟨_, rfl⟩
  | _ => exact ⟨_, rfl⟩

theorem good_of_ok {root : Val} (hroot : root.Good true = true) {n : INode} {cur : Val} {env : Env}
    (h : n.all nodeOkS = true) (hc : cur.Good true = true) (hv : Val.GoodF true env = true) {a : Val}
    (e : ieval root n cur env = .ok a) : a.Good true = true := by
  have := ieval_simS hroot n cur env h hc hv Oracle.keyOrder
  rw [e] at this
  exact this.2

theorem TotalFn.self {f : Val → Res Val} (h : ∀ x, x.Good true = true → ∃ a, f x = .ok a ∧ a.Good true = true) :
    TotalFn f (fun _ => f) := fun _ x hx => by
  obtain ⟨a, e, hg⟩ := h x hx
  exact ⟨a, e, e, hg⟩

mutual
theorem ieval_total {root : Val} (hroot : root.Good true = true) :
    ∀ (n : INode) (cur : Val) (env : Env), n.all nodeOkS = true → n.all okHead = true → cur.Good true = true →
      Val.GoodF true env = true → ∃ a, ieval root n cur env = .ok a
  | .lit v, _, _, _, _, _, _ => ⟨v, rfl⟩
  | .current, cur, _, _, _, _, _ => ⟨cur, rfl⟩
  | .root, _, _, _, _, _, _ => ⟨root, rfl⟩
  | .field k, cur, _, _, _, _, _ => ⟨field k cur, rfl⟩
  | .variable _, _, _, _, h2, _, _ => by simp [INode.all, okHead] at h2
  | .binop op l r, cur, env, h1, h2, hc, hv => by
    simp only [INode.all, Bool.and_eq_true] at h1 h2
    obtain ⟨a, ea⟩ := ieval_total hroot l cur env h1.1.2 h2.1.2 hc hv
    obtain ⟨b, eb⟩ := ieval_total hroot r cur env h1.2 h2.2 hc hv
    have ha := good_of_ok hroot h1.1.2 hc hv ea
    have hb := good_of_ok hroot h1.2 hc hv eb
    simp only [ieval, ea, eb, Res.ok_bind]
    have ho := h2.1.1
    cases op <;> first
      | (simp [okHead] at ho; done)
      | exact ⟨_, rfl⟩
      | (simp only [applyBinOp, equalR, hasEnum2_good a ha, hasEnum2_good b hb, Bool.or_self, Bool.false_eq_true,
          if_false, Res.ok_bind]; exact ⟨_, rfl⟩)
  | .and l r, cur, env, h1, h2, hc, hv => by
    simp only [INode.all, Bool.and_eq_true] at h1 h2
    obtain ⟨a, ea⟩ := ieval_total hroot l cur env h1.1.2 h2.1.2 hc hv
    simp only [ieval, ea, Res.ok_bind]
    split
    · exact ⟨_, rfl⟩
    · exact ieval_total hroot r cur env h1.2 h2.2 hc hv
  | .or l r, cur, env, h1, h2, hc, hv => by
    simp only [INode.all, Bool.and_eq_true] at h1 h2
    obtain ⟨a, ea⟩ := ieval_total hroot l cur env h1.1.2 h2.1.2 hc hv
    simp only [ieval, ea, Res.ok_bind]
    split
    · exact ⟨_, rfl⟩
    · exact ieval_total hroot r cur env h1.2 h2.2 hc hv
  | .not c, cur, env, h1, h2, hc, hv => by
    simp only [INode.all, Bool.and_eq_true] at h1 h2
    obtain ⟨a, ea⟩ := ieval_total hroot c cur env h1.2 h2.2 hc hv
    simp only [ieval, ea, Res.ok_bind]
    exact ⟨_, rfl⟩
  | .negate c, cur, env, h1, h2, hc, hv => by
    simp only [INode.all, Bool.and_eq_true] at h1 h2
    obtain ⟨a, ea⟩ := ieval_total hroot c cur env h1.2 h2.2 hc hv
    simp only [ieval, ea, Res.ok_bind]
    exact ⟨_, rfl⟩
  | .assertNumber c, cur, env, h1, h2, hc, hv => by
    simp only [INode.all, Bool.and_eq_true] at h1 h2
    obtain ⟨a, ea⟩ := ieval_total hroot c cur env h1.2 h2.2 hc hv
    simp only [ieval, ea, Res.ok_bind]
    exact ⟨_, rfl⟩
  | .call f args, cur, env, h1, h2, hc, hv => by
    simp only [INode.all, Bool.and_eq_true] at h1 h2
    have ho := h2.1
    simp only [okHead, Bool.and_eq_true, Bool.or_eq_true, beq_iff_eq] at ho
    match args, ho.2, h1, h2 with
    | [c], _, h1, h2 =>
      simp only [INode.allL, Bool.and_eq_true] at h1 h2
      obtain ⟨a, ea⟩ := ieval_total hroot c cur env h1.2.1 h2.2.1 hc hv
      rw [ieval_call1, ea, Res.ok_bind]
      rcases ho.1 with rfl | rfl <;> exact ⟨_, rfl⟩
  | .defineVariables _ _, _, _, _, h2, _, _ => by simp [INode.all, okHead] at h2
  | .filter _ _, _, _, _, h2, _, _ => by simp [INode.all, okHead] at h2
  | .filterCurrent f, cur, env, h1, h2, hc, hv => by
    simp only [INode.all, Bool.and_eq_true] at h1 h2
    have ht : TotalFn (fun v => ieval root f v env) (fun _ v => ieval root f v env) :=
      TotalFn.self fun x hx => by
        obtain ⟨a, ea⟩ := ieval_total hroot f x env h1.2 h2.2 hx hv
        exact ⟨a, ea, good_of_ok hroot h1.2 hx hv ea⟩
    simp only [ieval]
    cases cur with
    | arr t xs =>
      have ⟨htg, hx⟩ := good_arr.mp hc
      simp only [filterArray, filterLoop_total ht hx, Res.ok_bind, Res.pure_eq, widen_ok]
      exact ⟨_, rfl⟩
    | _ => exact ⟨_, rfl⟩
  | .filterAndProject _ _ _, _, _, _, h2, _, _ => by simp [INode.all, okHead] at h2
  | .filterAndProjectCurrent _ _, _, _, _, h2, _, _ => by simp [INode.all, okHead] at h2
  | .flatten c, cur, env, h1, h2, hc, hv => by
    simp only [INode.all, Bool.and_eq_true] at h1 h2
    obtain ⟨a, ea⟩ := ieval_total hroot c cur env h1.2 h2.2 hc hv
    simp only [ieval, ea, Res.ok_bind]
    exact ⟨_, rfl⟩
  | .flattenCurrent, cur, _, _, _, _, _ => ⟨flatten cur, rfl⟩
  | .flattenAndProject _ _, _, _, _, h2, _, _ => by simp [INode.all, okHead] at h2
  | .flattenAndProjectCurrent _, _, _, _, h2, _, _ => by simp [INode.all, okHead] at h2
  | .index c i, cur, env, h1, h2, hc, hv => by
    simp only [INode.all, Bool.and_eq_true] at h1 h2
    obtain ⟨a, ea⟩ := ieval_total hroot c cur env h1.2 h2.2 hc hv
    simp only [ieval, ea, Res.ok_bind]
    exact index_ok_of_good i (good_of_ok hroot h1.2 hc hv ea)
  | .indexCurrent i, cur, _, _, _, hc, _ => index_ok_of_good i hc
  | .smallIndexCurrent i, cur, _, _, _, hc, _ => index_ok_of_good _ hc
  | .objectValues _, _, _, _, h2, _, _ => by simp [INode.all, okHead] at h2
  | .objectValuesCurrent, _, _, _, h2, _, _ => by simp [INode.all, okHead] at h2
  | .pipe l r, cur, env, h1, h2, hc, hv => by
    simp only [INode.all, Bool.and_eq_true] at h1 h2
    obtain ⟨a, ea⟩ := ieval_total hroot l cur env h1.1.2 h2.1.2 hc hv
    simp only [ieval, ea, Res.ok_bind]
    exact ieval_total hroot r a env h1.2 h2.2 (good_of_ok hroot h1.1.2 hc hv ea) hv
  | .projectArray _ _, _, _, _, h2, _, _ => by simp [INode.all, okHead] at h2
  | .projectArrayCurrent c, cur, env, h1, h2, hc, hv => by
    simp only [INode.all, Bool.and_eq_true] at h1 h2
    have ht : TotalFn (fun v => ieval root c v env) (fun _ v => ieval root c v env) :=
      TotalFn.self fun x hx => by
        obtain ⟨a, ea⟩ := ieval_total hroot c x env h1.2 h2.2 hx hv
        exact ⟨a, ea, good_of_ok hroot h1.2 hx hv ea⟩
    simp only [ieval]
    cases cur with
    | arr t xs =>
      have ⟨htg, hx⟩ := good_arr.mp hc
      simp only [projectArray, mapPrune_total ht hx, Res.ok_bind, Res.pure_eq, widen_ok]
      exact ⟨_, rfl⟩
    | _ => exact ⟨_, rfl⟩
  | .projectObject _ _, _, _, _, h2, _, _ => by simp [INode.all, okHead] at h2
  | .projectObjectCurrent _, _, _, _, h2, _, _ => by simp [INode.all, okHead] at h2
  | .pruneArray c, cur, env, h1, h2, hc, hv => by
    simp only [INode.all, Bool.and_eq_true] at h1 h2
    obtain ⟨a, ea⟩ := ieval_total hroot c cur env h1.2 h2.2 hc hv
    simp only [ieval, ea, Res.ok_bind]
    exact ⟨_, rfl⟩
  | .pruneArrayCurrent, cur, _, _, _, _, _ => ⟨pruneArray cur, rfl⟩
  | .selectArray c fs, cur, env, h1, h2, hc, hv => by
    simp only [INode.all, Bool.and_eq_true] at h1 h2
    obtain ⟨a, ea⟩ := ieval_total hroot c cur env h1.1.2 h2.1.2 hc hv
    simp only [ieval, ea, Res.ok_bind]
    split
    · exact ⟨_, rfl⟩
    · obtain ⟨vs, evs⟩ := ievalList_total hroot fs a env h1.2 h2.2 (good_of_ok hroot h1.1.2 hc hv ea) hv
      rw [evs]; exact ⟨_, rfl⟩
  | .selectArrayCurrent fs, cur, env, h1, h2, hc, hv => by
    simp only [INode.all, Bool.and_eq_true] at h1 h2
    simp only [ieval]
    split
    · exact ⟨_, rfl⟩
    · obtain ⟨vs, evs⟩ := ievalList_total hroot fs cur env h1.2 h2.2 hc hv
      rw [evs]; exact ⟨_, rfl⟩
  | .selectArraySingle c f, cur, env, h1, h2, hc, hv => by
    simp only [INode.all, Bool.and_eq_true] at h1 h2
    obtain ⟨a, ea⟩ := ieval_total hroot c cur env h1.1.2 h2.1.2 hc hv
    simp only [ieval, ea, Res.ok_bind]
    split
    · exact ⟨_, rfl⟩
    · obtain ⟨v, ev⟩ := ieval_total hroot f a env h1.2 h2.2 (good_of_ok hroot h1.1.2 hc hv ea) hv
      rw [ev]; exact ⟨_, rfl⟩
  | .selectArraySingleCurrent f, cur, env, h1, h2, hc, hv => by
    simp only [INode.all, Bool.and_eq_true] at h1 h2
    obtain ⟨v, ev⟩ := ieval_total hroot f cur env h1.2 h2.2 hc hv
    simp only [ieval, ev, Res.ok_bind]
    exact ⟨_, rfl⟩
  | .selectObject c fs, cur, env, h1, h2, hc, hv => by
    simp only [INode.all, Bool.and_eq_true] at h1 h2
    obtain ⟨a, ea⟩ := ieval_total hroot c cur env h1.1.2 h2.1.2 hc hv
    simp only [ieval, ea, Res.ok_bind]
    split
    · exact ⟨_, rfl⟩
    · obtain ⟨kvs, ek⟩ := ievalFields_total hroot fs a env h1.2 h2.2 (good_of_ok hroot h1.1.2 hc hv ea) hv
      rw [ek]; exact ⟨_, rfl⟩
  | .selectObjectCurrent fs, cur, env, h1, h2, hc, hv => by
    simp only [INode.all, Bool.and_eq_true] at h1 h2
    simp only [ieval]
    split
    · exact ⟨_, rfl⟩
    · obtain ⟨kvs, ek⟩ := ievalFields_total hroot fs cur env h1.2 h2.2 hc hv
      rw [ek]; exact ⟨_, rfl⟩
  | .selectObjectSingle c k f, cur, env, h1, h2, hc, hv => by
    simp only [INode.all, Bool.and_eq_true] at h1 h2
    obtain ⟨a, ea⟩ := ieval_total hroot c cur env h1.1.2 h2.1.2 hc hv
    simp only [ieval, ea, Res.ok_bind]
    split
    · exact ⟨_, rfl⟩
    · obtain ⟨v, ev⟩ := ieval_total hroot f a env h1.2 h2.2 (good_of_ok hroot h1.1.2 hc hv ea) hv
      rw [ev]; exact ⟨_, rfl⟩
  | .selectObjectSingleCurrent k f, cur, env, h1, h2, hc, hv => by
    simp only [INode.all, Bool.and_eq_true] at h1 h2
    obtain ⟨v, ev⟩ := ieval_total hroot f cur env h1.2 h2.2 hc hv
    simp only [ieval, ev, Res.ok_bind]
    exact ⟨_, rfl⟩
  | .slice _ _ _, _, _, _, h2, _, _ => by simp [INode.all, okHead] at h2
  | .sliceCurrent _ _, _, _, _, h2, _, _ => by simp [INode.all, okHead] at h2
  | .sliceStep _ _ _ _, _, _, _, h2, _, _ => by simp [INode.all, okHead] at h2
  | .sliceStepCurrent _ _ _, _, _, _, h2, _, _ => by simp [INode.all, okHead] at h2
  | .groupBy _ _, _, _, _, h2, _, _ => by simp [INode.all, okHead] at h2
  | .map _ _, _, _, _, h2, _, _ => by simp [INode.all, okHead] at h2
  | .maxBy _ _, _, _, _, h2, _, _ => by simp [INode.all, okHead] at h2
  | .minBy _ _, _, _, _, h2, _, _ => by simp [INode.all, okHead] at h2
  | .sortBy _ _, _, _, _, h2, _, _ => by simp [INode.all, okHead] at h2
  | .merge _, _, _, _, h2, _, _ => by simp [INode.all, okHead] at h2
  | .notNull _, _, _, _, h2, _, _ => by simp [INode.all, okHead] at h2
  | .zip _, _, _, _, h2, _, _ => by simp [INode.all, okHead] at h2
theorem ievalList_total {root : Val} (hroot : root.Good true = true) :
    ∀ (ns : List INode) (cur : Val) (env : Env), INode.allL nodeOkS ns = true → INode.allL okHead ns = true →
      cur.Good true = true → Val.GoodF true env = true → ∃ vs, ievalList root ns cur env = .ok vs
  | [], _, _, _, _, _, _ => ⟨[], rfl⟩
  | n :: ns, cur, env, h1, h2, hc, hv => by
    simp only [INode.allL, Bool.and_eq_true] at h1 h2
    obtain ⟨v, ev⟩ := ieval_total hroot n cur env h1.1 h2.1 hc hv
    obtain ⟨vs, evs⟩ := ievalList_total hroot ns cur env h1.2 h2.2 hc hv
    simp only [ievalList, ev, evs, Res.ok_bind]
    exact ⟨_, rfl⟩
theorem ievalFields_total {root : Val} (hroot : root.Good true = true) :
    ∀ (fs : List (Bytes × INode)) (cur : Val) (env : Env), INode.allF nodeOkS fs = true →
      INode.allF okHead fs = true → cur.Good true = true → Val.GoodF true env = true →
      ∃ kvs, ievalFields root fs cur env = .ok kvs
  | [], _, _, _, _, _, _ => ⟨[], rfl⟩
  | (k, n) :: rest, cur, env, h1, h2, hc, hv => by
    simp only [INode.allF, Bool.and_eq_true] at h1 h2
    obtain ⟨v, ev⟩ := ieval_total hroot n cur env h1.1 h2.1 hc hv
    obtain ⟨kvs, ek⟩ := ievalFields_total hroot rest cur env h1.2 h2.2 hc hv
    simp only [ievalFields, ev, ek, combineUnordered]
    exact ⟨_, rfl⟩
end

/-- **a body that always succeeds**: on every plain element the model and every run return the same plain value -/
theorem body_total {root : Val} (hroot : root.Good true = true) {r : INode} (hb : isOkBody r = true) {env : Env}
    (hv : Val.GoodF true env = true) (ρ : Nat → Oracle) :
    TotalFn (fun v => ieval root r v env) (fun i v => ievalO (ρ i) root r v env) := by
  intro i x hx
  simp only [isOkBody, Bool.and_eq_true] at hb
  obtain ⟨a, ea⟩ := ieval_total hroot r x env hb.1 hb.2 hx hv
  have hs := ieval_simS hroot r x env hb.1 hx hv (ρ i)
  rw [ea] at hs
  exact ⟨a, ea, hs.1, hs.2⟩

/-! ## the combinators, inverted -/

theorem pOnly_ne {k : Kd} (h : pOnly k ≠ .bad) : k = .plain ∧ pOnly k = .plain := by
  cases k <;> first | exact ⟨rfl, rfl⟩ | exact absurd rfl h
theorem pp_ne {a b : Kd} (h : pp a b ≠ .bad) : a = .plain ∧ b = .plain ∧ pp a b = .plain := by
  cases a <;> cases b <;> first | exact ⟨rfl, rfl, rfl⟩ | exact absurd rfl h
theorem seqK_ne {a b : Kd} (h : seqK a b ≠ .bad) : a = .plain ∧ seqK a b = b ∧ b ≠ .bad := by
  cases a <;> first | exact ⟨rfl, rfl, h⟩ | exact absurd rfl h
theorem consK_ne {s : Kd} (h : consK s ≠ .bad) : s ≠ .bad ∧ consK s = .plain := by
  cases s <;> first | exact absurd rfl h | exact ⟨by decide, rfl⟩
theorem keepK_ne {k : Kd} (h : keepK k ≠ .bad) : k ≠ .bad := by
  cases k <;> first | exact absurd rfl h | decide
theorem idxK_ne {k : Kd} (h : idxK k ≠ .bad) : (k = .plain ∨ k = .sorted) ∧ idxK k = .plain := by
  cases k <;> first | exact absurd rfl h | exact ⟨.inl rfl, rfl⟩ | exact ⟨.inr rfl, rfl⟩
theorem projK_ne {s b : Kd} {okb : Bool} (h : projK s b okb ≠ .bad) :
    (s = .plain ∧ b = .plain ∧ projK s b okb = .plain) ∨
      (s ≠ .bad ∧ okb = true ∧ projK s b okb = .enum) := by
  cases s <;> first
    | exact absurd rfl h
    | (cases b <;> first | exact .inl ⟨rfl, rfl, rfl⟩ | exact absurd rfl h)
    | (cases okb <;> first | exact absurd rfl h | exact .inr ⟨by decide, rfl, rfl⟩)
theorem one_ne {ks : List Kd} {F : Kd → Kd} (h : one ks F ≠ .bad) : ∃ s, ks = [s] ∧ one ks F = F s := by
  match ks, h with
  | [s], _ => exact ⟨s, rfl, rfl⟩
  | [], h => exact absurd rfl h
  | _ :: _ :: _, h => exact absurd rfl h
theorem two_ne {ks : List Kd} {F : Kd → Kd → Kd} (h : two ks F ≠ .bad) :
    ∃ a b, ks = [a, b] ∧ two ks F = F a b := by
  match ks, h with
  | [a, b], _ => exact ⟨a, b, rfl, rfl⟩
  | [], h => exact absurd rfl h
  | [_], h => exact absurd rfl h
  | _ :: _ :: _ :: _, h => exact absurd rfl h
theorem ifPlain_ne {k r : Kd} (h : ifPlain k r ≠ .bad) : k = .plain ∧ ifPlain k r = r := by
  cases k <;> first | exact ⟨rfl, rfl⟩ | exact absurd rfl h
theorem ifKeys_ne {k r : Kd} (h : ifKeys k r ≠ .bad) : k = .keys ∧ ifKeys k r = r := by
  cases k <;> first | exact ⟨rfl, rfl⟩ | exact absurd rfl h
theorem ifSorted_ne {k r : Kd} (h : ifSorted k r ≠ .bad) : k = .sorted ∧ ifSorted k r = r := by
  cases k <;> first | exact ⟨rfl, rfl⟩ | exact absurd rfl h
theorem ite_ne {c : Bool} {k : Kd} (h : (if c = true then k else Kd.bad) ≠ .bad) :
    c = true ∧ (if c = true then k else Kd.bad) = k := by
  cases c
  · exact absurd rfl h
  · exact ⟨rfl, rfl⟩
theorem allP_cons {k : Kd} {ks : List Kd} : allP (k :: ks) = true ↔ k = .plain ∧ allP ks = true := by
  simp [allP]

theorem KRel.simR_of {k : Kd} {r r' : Res Val} (h : KRel k r r') (hk : k = .plain) : SimR r r' := by
  subst hk; exact h.simR
theorem Tri.of_simR_eq {k : Kd} {r r' : Res Val} (hk : k = .plain) (h : SimR r r') : Tri (Shape k) r r' := by
  subst hk; exact Tri.of_simR h

/-! ## lists of plain sub-expressions -/

/-- the statement of the main theorem for one node -/
def NodeOK (root : Val) (c : INode) : Prop :=
  ∀ (cur : Val) (env : Env), cur.Good true = true → Val.GoodF true env = true → ∀ π : Oracle,
    KRel (kind c) (ieval root c cur env) (ievalO π root c cur env)

theorem list_simS {root cur : Val} {env : Env} (hc : cur.Good true = true) (hv : Val.GoodF true env = true) :
    ∀ (ns : List INode), (∀ c ∈ ns, NodeOK root c) → allP (kindL ns) = true →
      ∀ π : Oracle, SimLR (ievalList root ns cur env) (ievalListO π root ns cur env)
  | [], _, _, _ => SimS.ok goodL_nil
  | n :: ns, H, h, π => by
    simp only [kindL] at h
    obtain ⟨hn, hr⟩ := allP_cons.mp h
    simp only [ievalList, ievalListO]
    exact SimS.bind ((H n (by simp) cur env hc hv _).simR_of hn) fun v hv' =>
      SimS.bind (list_simS hc hv ns (fun c hm => H c (List.mem_cons_of_mem _ hm)) hr _) fun vs hvs =>
        SimS.pure (goodL_cons.mpr ⟨hv', hvs⟩)

theorem members_rel {root cur : Val} {env : Env} (hc : cur.Good true = true) (hv : Val.GoodF true env = true) :
    ∀ (fs : List (Bytes × INode)), (∀ p ∈ fs, NodeOK root p.2) → allP (kindF fs) = true →
      ∀ π : Oracle, All₂ MemberSim (memberOutcomes root fs cur env) (ievalMembersO π root fs cur env)
  | [], _, _, _ => .nil
  | (k, n) :: rest, H, h, π => by
    simp only [kindF] at h
    obtain ⟨hn, hr⟩ := allP_cons.mp h
    simp only [memberOutcomes, List.map_cons, ievalMembersO]
    exact .cons ⟨rfl, (H (k, n) (by simp) cur env hc hv _).simR_of hn⟩
      (members_rel hc hv rest (fun p hm => H p (List.mem_cons_of_mem _ hm)) hr _)

theorem merge_simS {root cur : Val} {env : Env} (hc : cur.Good true = true) (hv : Val.GoodF true env = true) :
    ∀ (ns : List INode) (acc : List (Bytes × Val)), (∀ c ∈ ns, NodeOK root c) → allP (kindL ns) = true →
      Val.GoodF true acc = true → ∀ π : Oracle,
      SimFR (ievalMerge root ns cur env acc) (ievalMergeO π root ns cur env acc)
  | [], acc, _, _, ha, _ => SimS.ok ha
  | n :: ns, acc, H, h, ha, π => by
    simp only [kindL] at h
    obtain ⟨hn, hr⟩ := allP_cons.mp h
    simp only [ievalMerge, ievalMergeO]
    refine SimS.bind ((H n (by simp) cur env hc hv _).simR_of hn) fun v hv' => ?_
    cases v with
    | obj kvs =>
      exact merge_simS hc hv ns _ (fun c hm => H c (List.mem_cons_of_mem _ hm)) hr
        (goodF_foldInsert (good_obj.mp hv') ha) _
    | _ => exact SimS.errType

theorem notNull_simS {root cur : Val} {env : Env} (hc : cur.Good true = true) (hv : Val.GoodF true env = true) :
    ∀ (ns : List INode), (∀ c ∈ ns, NodeOK root c) → allP (kindL ns) = true → ∀ π : Oracle,
      SimR (ievalNotNull root ns cur env) (ievalNotNullO π root ns cur env)
  | [], _, _, _ => SimS.ok good_null
  | n :: ns, H, h, π => by
    simp only [kindL] at h
    obtain ⟨hn, hr⟩ := allP_cons.mp h
    simp only [ievalNotNull, ievalNotNullO]
    refine SimS.bind ((H n (by simp) cur env hc hv _).simR_of hn) fun v hv' => ?_
    cases hnl : v.isNull <;> simp only [if_true, Bool.false_eq_true, if_false]
    · exact SimS.pure hv'
    · exact notNull_simS hc hv ns (fun c hm => H c (List.mem_cons_of_mem _ hm)) hr _

theorem zip_simS {root cur : Val} {env : Env} (hc : cur.Good true = true) (hv : Val.GoodF true env = true) :
    ∀ (ns : List INode), (∀ c ∈ ns, NodeOK root c) → allP (kindL ns) = true → ∀ π : Oracle,
      SimLR (ievalZip root ns cur env) (ievalZipO π root ns cur env)
  | [], _, _, _ => SimS.ok goodL_nil
  | n :: ns, H, h, π => by
    simp only [kindL] at h
    obtain ⟨hn, hr⟩ := allP_cons.mp h
    simp only [ievalZip, ievalZipO]
    refine SimS.bind ((H n (by simp) cur env hc hv _).simR_of hn) fun v hv' => ?_
    cases v with
    | arr t xs =>
      exact SimS.bind (zip_simS hc hv ns (fun c hm => H c (List.mem_cons_of_mem _ hm)) hr _) fun vs hvs =>
        SimS.pure (goodL_cons.mpr ⟨hv', hvs⟩)
    | _ => exact SimS.errType

/-! ## consumers of the current node (`src | f(@)`) -/

theorem pipeK_ne {kl kr : Kd} {cc : CurCons} (h : pipeK kl kr cc ≠ .bad) :
    (kl = .plain ∧ pipeK kl kr cc = kr ∧ kr ≠ .bad) ∨
      (kl ≠ .bad ∧ pipeK kl kr cc = pipeSrc kl cc) := by
  cases kl <;> first
    | exact absurd rfl h
    | exact .inl ⟨rfl, rfl, h⟩
    | exact .inr ⟨by decide, rfl⟩

theorem curCons_call1 {r : INode} {f : Fn} (h : curCons r = .call1 f) : r = .call f [.current] := by
  unfold curCons at h
  split at h
  · cases h; rfl
  · split at h <;> cases h
  · cases h
  · cases h

theorem curCons_call2 {r : INode} {f : Fn} {v : Val} (h : curCons r = .call2 f v) :
    r = .call f [.current, .lit v] ∧ v.Good true = true := by
  unfold curCons at h
  split at h
  · cases h
  · split at h
    · next hg => cases h; exact ⟨rfl, hg⟩
    · cases h
  · cases h
  · cases h

theorem curCons_not {r : INode} (h : curCons r = .notCur) : r = .not .current := by
  unfold curCons at h
  split at h
  · cases h
  · split at h <;> cases h
  · rfl
  · cases h

/-- a builtin of arity one applied to a classified value -/
theorem call1_sound (π : Oracle) {f : Fn} {k : Kd} (hne : callSpecial f [k] ≠ .bad) {r r' : Res Val}
    (h : Tri (Shape k) r r') :
    Tri (Shape (callSpecial f [k])) (r >>= fun v => applyFn f [v]) (r' >>= fun v => applyFnO π f [v]) := by
  have bnd : ∀ {S' : Val → Prop} {g : Fn}, Fn.coveredM g = true → (∀ a, Shape k a → Res.Def S' (applyFn g [a])) →
      Tri S' (r >>= fun v => applyFn g [v]) (r' >>= fun v => applyFnO π g [v]) := fun hcov hd =>
    Tri.bind h fun a a' hs hc => tri_applyFn π _ hcov (concL1 hc) (hd a hs)
  cases f <;> try (exact absurd rfl hne)
  case keys =>
    simp only [callSpecial, one] at hne ⊢
    obtain ⟨hs, e⟩ := ifPlain_ne hne
    subst hs
    exact bnd rfl fun a ha => keys_def ha
  case values =>
    simp only [callSpecial, one] at hne ⊢
    obtain ⟨hs, e⟩ := ifPlain_ne hne
    subst hs
    exact bnd rfl fun a ha => values_def ha
  case items =>
    simp only [callSpecial, one] at hne ⊢
    obtain ⟨hs, e⟩ := ifPlain_ne hne
    subst hs
    exact bnd rfl fun a ha => items_def ha
  case length =>
    simp only [callSpecial, one] at hne ⊢
    rw [(consK_ne hne).2]
    exact bnd rfl fun a _ => length_def a
  case type =>
    simp only [callSpecial, one] at hne ⊢
    rw [(consK_ne hne).2]
    exact bnd rfl fun a _ => type_def a
  case sort =>
    simp only [callSpecial, one] at hne ⊢
    obtain ⟨hs, e⟩ := ifKeys_ne hne
    subst hs
    exact bnd rfl fun a ha => sort_def ha
  case max =>
    simp only [callSpecial, one] at hne ⊢
    obtain ⟨hs, e⟩ := ifKeys_ne hne
    subst hs
    exact Tri.bind h fun a a' ha hca => arrayMax_tri_keys ha hca
  case min =>
    simp only [callSpecial, one] at hne ⊢
    obtain ⟨hs, e⟩ := ifKeys_ne hne
    subst hs
    exact Tri.bind h fun a a' ha hca => arrayMin_tri_keys ha hca
  case reverse =>
    simp only [callSpecial, one] at hne ⊢
    exact bnd rfl fun a ha => reverse_def ha
  case toArray =>
    simp only [callSpecial, one] at hne ⊢
    exact bnd rfl fun a ha => toArray_shape ha

/-- a builtin of arity two applied to a classified value and a plain literal -/
theorem call2c_sound (π : Oracle) {f : Fn} {k : Kd} (hne : callSpecial f [k, .plain] ≠ .bad) {a a' v : Val}
    (hs : Shape k a) (hc : Conc a a') (hv : v.Good true = true) :
    Tri (Shape (callSpecial f [k, .plain])) (applyFn f [a, v]) (applyFnO π f [a', v]) := by
  cases f <;> try (exact absurd rfl hne)
  case contains =>
    simp only [callSpecial, two, ifPlain] at hne ⊢
    rw [(consK_ne hne).2]
    exact tri_applyFn π _ rfl (concL2 hc (conc_refl v hv)) (contains_def hs.top hv)
  case join => cases k <;> exact absurd rfl hne

end Jmes.C15E
