/-
  Helper lemmas for property C16 (literals): the three delimited tokens of the lexer (`scanDelim`, `lexToken`,
  `lexAll`), the three un-escaping routines of the parser (`parseStringLiteral`, `parseQuotedIdentifier`,
  `parseJSONLiteral` with `Json.parseStringBody`), and the run of the parser on a two-token stream.
  Nothing here mentions a particular escaping function: those are specification-side and live in
  `Jmes/Properties/C16.lean`.
-/
import Jmes.Model.Api
import Jmes.Proofs.Utf8
namespace Jmes.Literals
open Jmes Jmes.Utf8


theorem stripDelims_wrap (a z : Nat) (b : Bytes) : stripDelims ([a] ++ b ++ [z]) = b := by
  unfold stripDelims
  simp

/-! ### `splitAtBackslash` -/

theorem split_acc : ∀ (v acc : Bytes),
    splitAtBackslash v acc = (splitAtBackslash v []).map (fun p => (acc ++ p.1, p.2))
  | [], acc => by simp [splitAtBackslash]
  | [_], acc => by simp [splitAtBackslash]
  | b :: c :: t, acc => by
    rw [splitAtBackslash, splitAtBackslash]
    by_cases hb : b = 0x5C
    · simp [hb]
    · simp only [hb, if_false]
      rw [split_acc (c :: t) (acc ++ [b]), split_acc (c :: t) ([] ++ [b])]
      cases splitAtBackslash (c :: t) [] <;> simp

theorem split_bs (c : Nat) (t acc : Bytes) : splitAtBackslash (0x5C :: c :: t) acc = some (acc, c :: t) := by
  simp [splitAtBackslash]

theorem split_bs_last (acc : Bytes) : splitAtBackslash [0x5C] acc = none := by
  simp [splitAtBackslash]

theorem split_plain (b : Nat) (hb : b ≠ 0x5C) (w : Bytes) :
    splitAtBackslash (b :: w) [] = (splitAtBackslash w []).map (fun p => (b :: p.1, p.2)) := by
  cases w with
  | nil => simp [splitAtBackslash]
  | cons c t =>
    rw [splitAtBackslash]
    simp only [hb, if_false]
    rw [split_acc]
    simp

/-! ### raw string literals -/

/-- the body of `parseStringLiteral` after stripping the quotes, as a function of the remaining text and the
    output so far -/
def contR (fuel : Nat) (v acc : Bytes) : Bytes :=
  match splitAtBackslash v [] with
  | none => acc ++ v
  | some (pre, post) => stringLiteralLoop fuel post (acc ++ pre)

theorem parseStringLiteral_eq (s : Bytes) :
    parseStringLiteral s = contR ((stripDelims s).length + 1) (stripDelims s) [] := by
  unfold parseStringLiteral contR
  simp only []
  generalize splitAtBackslash (stripDelims s) [] = o
  cases o <;> simp

theorem contR_nil (fuel : Nat) (acc : Bytes) : contR fuel [] acc = acc := by
  simp [contR, splitAtBackslash]

theorem contR_plain (fuel : Nat) (b : Nat) (hb : b ≠ 0x5C) (w acc : Bytes) :
    contR fuel (b :: w) acc = contR fuel w (acc ++ [b]) := by
  unfold contR
  rw [split_plain b hb]
  cases splitAtBackslash w [] <;> simp

theorem contR_bs_last (fuel : Nat) (acc : Bytes) : contR fuel [0x5C] acc = acc ++ [0x5C] := by
  simp [contR, splitAtBackslash]

/-- what one escape sequence `\c` of a raw string stands for -/
def rawEsc (c : Nat) : Bytes := if c = 0x27 then [0x27] else if c = 0x5C then [0x5C] else [0x5C, c]

theorem contR_esc (fuel : Nat) (c : Nat) (w acc : Bytes) :
    contR (fuel + 1) (0x5C :: c :: w) acc = contR fuel w (acc ++ rawEsc c) := by
  unfold contR
  rw [split_bs]
  simp only [stringLiteralLoop, List.append_nil]
  have : (if c = 0x27 then acc ++ [0x27] else if c = 0x5C then acc ++ [0x5C] else acc ++ [0x5C, c])
      = acc ++ rawEsc c := by
    unfold rawEsc; split
    · rfl
    · split <;> rfl
  rw [this]
  cases splitAtBackslash w [] <;> rfl

/-- reference un-escaping of a raw-string body -/
def unescRaw : Bytes → Bytes
  | [] => []
  | [b] => [b]
  | b :: c :: t => if b = 0x5C then rawEsc c ++ unescRaw t else b :: unescRaw (c :: t)

theorem contR_eq : ∀ (n : Nat) (v : Bytes), v.length ≤ n → ∀ fuel acc, v.length ≤ fuel →
    contR fuel v acc = acc ++ unescRaw v := by
  intro n
  induction n with
  | zero =>
    intro v hv fuel acc _
    have : v = [] := List.eq_nil_of_length_eq_zero (by omega)
    subst this; simp [contR_nil, unescRaw]
  | succ n ih =>
    intro v hv fuel acc hf
    match v, hv, hf with
    | [], _, _ => simp [contR_nil, unescRaw]
    | [b], _, _ =>
      by_cases hb : b = 0x5C
      · subst hb; simp [contR_bs_last, unescRaw]
      · rw [contR_plain _ _ hb, contR_nil]; simp [unescRaw]
    | b :: c :: t, hv, hf =>
      by_cases hb : b = 0x5C
      · subst hb
        simp only [List.length_cons] at hv hf
        match fuel, hf with
        | f + 1, hf =>
          rw [contR_esc, ih t (by omega) f _ (by omega)]
          simp [unescRaw]
      · rw [contR_plain _ _ hb, ih (c :: t) (by simpa using hv) fuel _ (by simp at hf ⊢; omega)]
        simp [unescRaw, hb]

/-- `parseStringLiteral` is the reference un-escaping of the text between the quotes -/
theorem parseStringLiteral_unesc (s : Bytes) : parseStringLiteral s = unescRaw (stripDelims s) := by
  rw [parseStringLiteral_eq, contR_eq _ _ (Nat.le_refl _) _ _ (Nat.le_succ _)]
  simp



/-! ### lexing delimited tokens -/

theorem encodeRune_ascii (c : Nat) (h : c < 0x80) : encodeRune c = [c] := by simp [encodeRune, h]

theorem isScalar_ascii (c : Nat) (h : c < 0x80) : isScalar c = true := (isScalar_iff c).2 (by omega)

theorem lexDecode_enc (c : Nat) (h : isScalar c = true) (rest : Bytes) :
    lexDecode (encodeRune c ++ rest) = .ok (c, (encodeRune c).length) := by
  unfold lexDecode
  rw [decodeRune_encodeRune c h]
  have := encodeRune_length_pos c
  have hne : ¬ (c = RuneError ∧ (encodeRune c).length = 1) := by
    intro ⟨h1, h2⟩; subst h1; revert h2; decide
  have h0 : (encodeRune c).length ≠ 0 := by omega
  simp [h0, hne]

theorem lexDecode_ascii (c : Nat) (h : c < 0x80) (rest : Bytes) : lexDecode (c :: rest) = .ok (c, 1) := by
  have := lexDecode_enc c (isScalar_ascii c h) rest
  rwa [encodeRune_ascii c h] at this

/-- a token body for the delimiter `delim`: a sequence of runes other than the delimiter and the backslash, and
    of escape pairs (a backslash and any rune) -/
inductive Body (delim : Nat) : Bytes → Prop
  | nil : Body delim []
  | plain (c : Nat) (w : Bytes) : isScalar c = true → c ≠ delim → c ≠ 0x5C → Body delim w →
      Body delim (encodeRune c ++ w)
  | esc (c : Nat) (w : Bytes) : isScalar c = true → Body delim w → Body delim (0x5C :: (encodeRune c ++ w))

theorem Body.append {delim : Nat} {a b : Bytes} (ha : Body delim a) (hb : Body delim b) : Body delim (a ++ b) := by
  induction ha with
  | nil => exact hb
  | plain c w h1 h2 h3 _ ih => rw [List.append_assoc]; exact Body.plain c _ h1 h2 h3 ih
  | esc c w h1 _ ih => rw [List.cons_append, List.append_assoc]; exact Body.esc c _ h1 ih

theorem Body.plain1 {delim : Nat} (c : Nat) (hc : c < 0x80) (h2 : c ≠ delim) (h3 : c ≠ 0x5C) {w : Bytes}
    (hw : Body delim w) : Body delim (c :: w) := by
  have := Body.plain c w (isScalar_ascii c hc) h2 h3 hw
  rwa [encodeRune_ascii c hc] at this

theorem Body.esc1 {delim : Nat} (c : Nat) (hc : c < 0x80) {w : Bytes}
    (hw : Body delim w) : Body delim (0x5C :: c :: w) := by
  have := Body.esc c w (isScalar_ascii c hc) hw
  rwa [encodeRune_ascii c hc] at this

theorem scanDelim_body {delim : Nat} (hd : delim < 0x80) (hd2 : delim ≠ 0x5C) {b : Bytes} (hb : Body delim b) :
    ∀ (fuel n : Nat) (rest : Bytes), b.length < fuel →
      scanDelim delim fuel (b ++ delim :: rest) n = .ok (n + b.length + 1) := by
  induction hb with
  | nil =>
    intro fuel n rest hf
    match fuel, hf with
    | f + 1, _ =>
      simp only [List.nil_append, scanDelim, lexDecode_ascii delim hd]
      simp
  | plain c w h1 h2 h3 _ ih =>
    intro fuel n rest hf
    have hp := encodeRune_length_pos c
    simp only [List.length_append] at hf
    match fuel, hf with
    | f + 1, hf =>
      rw [List.append_assoc]
      simp only [scanDelim, lexDecode_enc c h1, h2, h3, if_false, List.drop_left]
      rw [ih f _ rest (by omega)]
      simp only [List.length_append]; congr 1; omega
  | esc c w h1 _ ih =>
    intro fuel n rest hf
    have hp := encodeRune_length_pos c
    simp only [List.length_cons, List.length_append] at hf
    match fuel, hf with
    | f + 1, hf =>
      have e1 : lexDecode (0x5C :: (encodeRune c ++ w) ++ delim :: rest) = .ok (0x5C, 1) :=
        lexDecode_ascii 0x5C (by omega) _
      have hd3 : ¬ (0x5C = delim) := fun h => hd2 h.symm
      have e2 : List.drop 1 (0x5C :: (encodeRune c ++ w) ++ delim :: rest) = encodeRune c ++ (w ++ delim :: rest) := by
        simp
      have e3 : List.drop (1 + (encodeRune c).length) (0x5C :: (encodeRune c ++ w) ++ delim :: rest)
          = w ++ delim :: rest := by
        rw [← List.drop_drop, e2, List.drop_left]
      simp only [scanDelim, e1, hd3, if_false, if_true, e2, lexDecode_enc c h1, e3]
      rw [ih f _ rest (by omega)]
      simp only [List.length_append, List.length_cons]; congr 1; omega


theorem lexToken_raw {b : Bytes} (hb : Body 0x27 b) :
    lexToken (0x27 :: (b ++ [0x27])) = .ok (⟨.stringLiteral, 0x27 :: (b ++ [0x27])⟩, (0x27 :: (b ++ [0x27])).length) := by
  have hs := scanDelim_body (delim := 0x27) (by omega) (by omega) hb ((0x27 :: (b ++ [0x27])).length + 1) 1 []
    (by simp; omega)
  unfold lexToken
  rw [lexDecode_ascii 0x27 (by omega)]
  simp only [List.drop_succ_cons, List.drop_zero, hs]
  simp
  exact ⟨List.take_of_length_le (by simp; omega), by omega⟩

theorem lexToken_quoted {b : Bytes} (hb : Body 0x22 b) :
    lexToken (0x22 :: (b ++ [0x22])) = .ok (⟨.quotedIdentifier, 0x22 :: (b ++ [0x22])⟩, (0x22 :: (b ++ [0x22])).length) := by
  have hs := scanDelim_body (delim := 0x22) (by omega) (by omega) hb ((0x22 :: (b ++ [0x22])).length + 1) 1 []
    (by simp; omega)
  unfold lexToken
  rw [lexDecode_ascii 0x22 (by omega)]
  simp only [List.drop_succ_cons, List.drop_zero, hs]
  simp
  exact ⟨List.take_of_length_le (by simp; omega), by omega⟩

theorem lexToken_json {b : Bytes} (hb : Body 0x60 b) :
    lexToken (0x60 :: (b ++ [0x60])) = .ok (⟨.jsonLiteral, 0x60 :: (b ++ [0x60])⟩, (0x60 :: (b ++ [0x60])).length) := by
  have hs := scanDelim_body (delim := 0x60) (by omega) (by omega) hb ((0x60 :: (b ++ [0x60])).length + 1) 1 []
    (by simp; omega)
  unfold lexToken
  rw [lexDecode_ascii 0x60 (by omega)]
  simp only [List.drop_succ_cons, List.drop_zero, hs]
  simp
  exact ⟨List.take_of_length_le (by simp; omega), by omega⟩


theorem lexAll_single (d : Nat) (w : Bytes) (hd : d < 0x80) (hws : isWsR d = false) (t : Token)
    (h : lexToken (d :: w) = .ok (t, (d :: w).length)) :
    lexAll (d :: w) = ([t, ⟨.end, []⟩], none) := by
  unfold lexAll
  simp only [List.length_cons, lexAllAux, skipWsLex, lexDecode_ascii d hd, hws]
  simp [h, skipWsLex]




/-! ### the parser on a single-token expression -/

open Jmes.Parser

/-- the parser state once the only token has been consumed -/
def stEnd : PState := ⟨⟨.end, []⟩, ⟨.end, []⟩, [], none⟩

theorem prim_string (f : Nat) (v : Bytes) :
    (primaryExpression (f+1)).run ⟨⟨.stringLiteral, v⟩, ⟨.end, []⟩, [], none⟩
    = .ok (.lit (.str (parseStringLiteral v)), stEnd) := by
  rw [primaryExpression]
  rfl

theorem prim_quoted (f : Nat) (v k : Bytes) (h : parseQuotedIdentifier v = some k) :
    (primaryExpression (f+1)).run ⟨⟨.quotedIdentifier, v⟩, ⟨.end, []⟩, [], none⟩
    = .ok (.field k, stEnd) := by
  rw [primaryExpression]
  simp only [bind, StateT.bind, get, getThe, MonadStateOf.get, StateT.get, pure, Except.pure, StateT.run,
    Except.bind, h]
  rfl

theorem prim_json (f : Nat) (v : Bytes) (k : Val) (h : parseJSONLiteral v = some k) :
    (primaryExpression (f+1)).run ⟨⟨.jsonLiteral, v⟩, ⟨.end, []⟩, [], none⟩
    = .ok (.lit k, stEnd) := by
  rw [primaryExpression]
  simp only [bind, StateT.bind, get, getThe, MonadStateOf.get, StateT.get, pure, Except.pure, StateT.run,
    Except.bind, h]
  rfl

theorem loop_end (f : Nat) (n : INode) (p : Nat) :
    (exprLoop (f+1) n p).run stEnd = .ok (n, stEnd) := by
  rw [exprLoop]
  rfl

theorem expr_of_prim (f : Nat) (st : PState) (n : INode) (p : Nat)
    (h : (primaryExpression (f+1)).run st = .ok (n, stEnd)) :
    (expression (f+2) p).run st = .ok (n, stEnd) := by
  rw [expression]
  show (primaryExpression (f+1) >>= fun node => exprLoop (f+1) node p).run _ = _
  rw [StateT.run_bind, h]
  exact loop_end f _ p

theorem top_of_prim (f : Nat) (st : PState) (n : INode)
    (h : (primaryExpression (f+1)).run st = .ok (n, stEnd)) :
    (do let node ← expression (f+2) 1
        if (← currType) != .end then fail .unexpectedToken
        return node : PM INode).run st = .ok (n, stEnd) := by
  rw [StateT.run_bind, expr_of_prim f st n 1 h]
  rfl

/-- an expression that lexes to exactly one token `t` (and `end`) parses to whatever `primaryExpression` makes of
    `t` -/
theorem parse_single (e : Bytes) (t : Token) (n : INode)
    (hl : lexAll e = ([t, ⟨.end, []⟩], none))
    (hp : ∀ f, (primaryExpression (f+1)).run ⟨t, ⟨.end, []⟩, [], none⟩ = .ok (n, stEnd)) :
    Parser.parse e = .ok n := by
  unfold Parser.parse
  rw [hl]
  simp only [List.length_cons, List.length_nil, fuelFor]
  have := top_of_prim 46 _ n (hp 46)
  simp only [] at this
  rw [this]

theorem search_single (e : Bytes) (t : Token) (n : INode) (d : Val)
    (hl : lexAll e = ([t, ⟨.end, []⟩], none))
    (hp : ∀ f, (primaryExpression (f+1)).run ⟨t, ⟨.end, []⟩, [], none⟩ = .ok (n, stEnd)) :
    search e d = evaluate n d := by
  unfold search
  rw [parse_single e t n hl hp]
/-! ### quoted identifiers -/

def contQ (fuel : Nat) (v acc : Bytes) : Option Bytes :=
  match splitAtBackslash v [] with
  | none => some (acc ++ v)
  | some (pre, post) => quotedLoop fuel post (acc ++ pre)

theorem parseQuotedIdentifier_eq (s : Bytes) :
    parseQuotedIdentifier s =
      if (stripDelims s).any (· < 0x20) then none
      else contQ ((stripDelims s).length + 1) (stripDelims s) [] := by
  unfold parseQuotedIdentifier contQ
  simp only []
  generalize splitAtBackslash (stripDelims s) [] = o
  cases o <;> simp

theorem contQ_nil (fuel : Nat) (acc : Bytes) : contQ fuel [] acc = some acc := by
  simp [contQ, splitAtBackslash]

theorem contQ_plain (fuel : Nat) (b : Nat) (hb : b ≠ 0x5C) (w acc : Bytes) :
    contQ fuel (b :: w) acc = contQ fuel w (acc ++ [b]) := by
  unfold contQ
  rw [split_plain b hb]
  cases splitAtBackslash w [] <;> simp

theorem contQ_esc_quote (fuel : Nat) (w acc : Bytes) :
    contQ (fuel + 1) (0x5C :: 0x22 :: w) acc = contQ fuel w (acc ++ [0x22]) := by
  unfold contQ
  rw [split_bs]
  simp only [quotedLoop, List.append_nil, if_true]
  cases splitAtBackslash w [] <;> rfl

theorem contQ_esc_bs (fuel : Nat) (w acc : Bytes) :
    contQ (fuel + 1) (0x5C :: 0x5C :: w) acc = contQ fuel w (acc ++ [0x5C]) := by
  unfold contQ
  rw [split_bs]
  simp [quotedLoop]
  cases splitAtBackslash w [] <;> rfl

theorem contQ_esc_u (fuel : Nat) (v v' acc : Bytes) (r : Nat) (h : Json.hex4 v = some (r, v'))
    (hs : Json.isSurrogate r = false) :
    contQ (fuel + 1) (0x5C :: 0x75 :: v) acc = contQ fuel v' (acc ++ encodeRune r) := by
  unfold contQ
  rw [split_bs]
  simp [quotedLoop, h, hs]
  cases splitAtBackslash v' [] <;> rfl



theorem encodeRune_bytes_ge (c : Nat) (hc : 0x80 ≤ c) : ∀ b ∈ encodeRune c, 0x80 ≤ b := by
  intro b hb
  unfold encodeRune at hb
  have h1 : ¬ c < 0x80 := by omega
  simp only [h1, if_false] at hb
  split at hb
  · simp at hb; omega
  · split at hb
    · simp at hb; omega
    · split at hb
      · simp at hb; omega
      · simp at hb; omega

theorem flatMap_id_of {f : Nat → Bytes} : ∀ (l : Bytes), (∀ b ∈ l, f b = [b]) → l.flatMap f = l
  | [], _ => rfl
  | b :: t, h => by
    rw [List.flatMap_cons, h b (List.mem_cons_self), flatMap_id_of t (fun x hx => h x (List.mem_cons_of_mem _ hx))]
    rfl

/-! ### hex -/

theorem hexVal_hexDigit (n : Nat) (h : n < 16) : Json.hexVal (Json.hexDigit n) = some n := by
  unfold Json.hexDigit Json.hexVal
  by_cases h1 : n < 10
  · simp [h1]; omega
  · have a : ¬ (0x30 ≤ 0x61 + (n - 10) ∧ 0x61 + (n - 10) ≤ 0x39) := by omega
    have b : 0x61 ≤ 0x61 + (n - 10) ∧ 0x61 + (n - 10) ≤ 0x66 := by omega
    simp only [h1, if_false, a, b, and_self, if_true]
    congr 1; omega

theorem hex4_u00 (b : Nat) (h : b < 256) (rest : Bytes) :
    Json.hex4 (0x30 :: 0x30 :: Json.hexDigit (b / 16) :: Json.hexDigit (b % 16) :: rest) = some (b, rest) := by
  have h0 : Json.hexVal 0x30 = some 0 := by decide
  simp only [Json.hex4, h0, hexVal_hexDigit (b / 16) (by omega), hexVal_hexDigit (b % 16) (by omega)]
  congr 2; omega

/-! ### JSON strings -/
open Json in
theorem psb_quote (f : Nat) (t acc : Bytes) : parseStringBody (f + 1) (0x22 :: t) acc = some (acc, t) := by
  simp [parseStringBody]

open Json in
theorem psb_esc_quote (f : Nat) (t acc : Bytes) :
    parseStringBody (f + 1) (0x5C :: 0x22 :: t) acc = parseStringBody f t (acc ++ [0x22]) := by
  simp [parseStringBody]

open Json in
theorem psb_esc_bs (f : Nat) (t acc : Bytes) :
    parseStringBody (f + 1) (0x5C :: 0x5C :: t) acc = parseStringBody f t (acc ++ [0x5C]) := by
  simp [parseStringBody]

open Json in
theorem psb_esc_u (f : Nat) (t t' acc : Bytes) (r : Nat) (h : hex4 t = some (r, t')) (hs : isSurrogate r = false) :
    parseStringBody (f + 1) (0x5C :: 0x75 :: t) acc = parseStringBody f t' (acc ++ encodeRune r) := by
  simp [parseStringBody, h, hs]

open Json in
theorem psb_ascii (f : Nat) (b : Nat) (h1 : 0x20 ≤ b) (h2 : b < 0x80) (h3 : b ≠ 0x22) (h4 : b ≠ 0x5C) (t acc : Bytes) :
    parseStringBody (f + 1) (b :: t) acc = parseStringBody f t (acc ++ [b]) := by
  have : ¬ b < 0x20 := by omega
  simp [parseStringBody, h3, h4, this, h2]

open Json in
theorem psb_rune (f : Nat) (c : Nat) (hc : isScalar c = true) (h1 : 0x80 ≤ c) (t acc : Bytes) :
    parseStringBody (f + 1) (encodeRune c ++ t) acc = parseStringBody f t (acc ++ encodeRune c) := by
  have hd := decodeRune_encodeRune c hc t
  have hge := encodeRune_bytes_ge c h1
  have hne : ¬ (c = RuneError ∧ (encodeRune c).length = 1) := by
    intro ⟨h1, h2⟩; subst h1; revert h2; decide
  match he : encodeRune c, encodeRune_ne_nil c with
  | b :: e, _ =>
    rw [he] at hd hge hne
    have hb : 0x80 ≤ b := hge b (List.mem_cons_self)
    have a1 : ¬ b = 0x22 := by omega
    have a2 : ¬ b < 0x20 := by omega
    have a3 : ¬ b = 0x5C := by omega
    have a4 : ¬ b < 0x80 := by omega
    rw [List.cons_append] at hd ⊢
    simp only [parseStringBody, a1, a2, a3, a4, if_false, hd, hne]
    have e1 : List.drop (b :: e).length (b :: (e ++ t)) = t := by
      rw [← List.cons_append]; exact List.drop_left
    have e2 : List.take (b :: e).length (b :: (e ++ t)) = b :: e := by
      rw [← List.cons_append]; exact List.take_left
    rw [e1, e2]

open Json in
theorem parseValue_string (f d : Nat) (t : Bytes) :
    parseValue (f + 1) d (0x22 :: t) = (parseStringBody (t.length + 1) t []).map (fun p => (Val.str p.1, p.2)) := by
  simp [parseValue, skipWs, isWs]

theorem decode_string (body s : Bytes)
    (h : Json.parseStringBody ((body ++ [0x22]).length + 1) (body ++ [0x22]) [] = some (s, [])) :
    Json.decode (0x22 :: (body ++ [0x22])) = some (.str s) := by
  unfold Json.decode
  simp only [List.length_cons, Nat.mul_add, Nat.mul_one]
  obtain ⟨k, hk⟩ : ∃ k, 2 * (body ++ [34]).length + 2 + 2 = k + 1 := ⟨_, rfl⟩
  rw [hk, parseValue_string, h]
  simp [Json.skipWs]

/-! ### backticks -/

theorem unescapeBackticks_pair (t : Bytes) : unescapeBackticks (0x5C :: 0x60 :: t) = 0x60 :: unescapeBackticks t := by
  simp [unescapeBackticks]

theorem unescapeBackticks_nil : unescapeBackticks [] = [] := by simp [unescapeBackticks]

theorem unescapeBackticks_plain (b : Nat) (t : Bytes) (h : b = 0x5C → ∀ t', t ≠ 0x60 :: t') :
    unescapeBackticks (b :: t) = b :: unescapeBackticks t := by
  rw [unescapeBackticks]
  intro t' hb ht
  exact h hb t' ht


/-! ### JSON numbers -/

open Json in
theorem parseValue_number (f d b : Nat) (t : Bytes) (hb : b = 0x2D ∨ (0x30 ≤ b ∧ b ≤ 0x39)) :
    parseValue (f + 1) d (b :: t) = (parseNumberTok (b :: t)).map (fun p => (Val.num (.jnum p.1), p.2)) := by
  have hws : skipWs (b :: t) = b :: t := by
    have : isWs b = false := by
      simp [isWs]; omega
    simp [skipWs, this]
  rw [parseValue, hws]
  have hd : (b = 0x2D ∨ Dec.isDigit b = true) := by
    rcases hb with h | h
    · left; exact h
    · right; simp [Dec.isDigit]; omega
  split
  case h_1 heq => cases heq
  case h_8 heq =>
    cases heq
    rw [if_pos hd]
  all_goals (rename_i heq; simp at heq; omega)

/-! ### JSON number tokens -/

/-- the alphabet of JSON numbers -/
def NumChar (b : Nat) : Prop := b = 0x2D ∨ b = 0x2B ∨ b = 0x2E ∨ b = 0x65 ∨ b = 0x45 ∨ (0x30 ≤ b ∧ b ≤ 0x39)

theorem takeDigits_spec : ∀ s : Bytes, s = (Json.takeDigits s).1 ++ (Json.takeDigits s).2 ∧
    ∀ b ∈ (Json.takeDigits s).1, NumChar b
  | [] => by simp [Json.takeDigits]
  | b :: t => by
    have ih := takeDigits_spec t
    unfold Json.takeDigits
    by_cases h : Dec.isDigit b = true
    · simp only [h, if_true]
      refine ⟨by simp; exact ih.1, ?_⟩
      intro x hx
      simp at hx
      rcases hx with rfl | hx
      · simp [Dec.isDigit] at h; exact Or.inr (Or.inr (Or.inr (Or.inr (Or.inr h))))
      · exact ih.2 x hx
    · simp [h]

def signPart (s : Bytes) : Bytes × Bytes := match s with | 0x2D :: t => ([0x2D], t) | _ => ([], s)

def intPart (s1 : Bytes) : Option (Bytes × Bytes) := match s1 with
  | 0x30 :: t => some ([0x30], t)
  | b :: _ => if 0x31 ≤ b ∧ b ≤ 0x39 then some (Json.takeDigits s1) else none
  | [] => none

def fracPart (s2 : Bytes) : Option (Bytes × Bytes) := match s2 with
  | 0x2E :: t => let (d, r) := Json.takeDigits t; if d.isEmpty then none else some (0x2E :: d, r)
  | _ => some ([], s2)

def expPart (s3 : Bytes) : Option (Bytes × Bytes) := match s3 with
  | e :: t =>
    if e = 0x65 ∨ e = 0x45 then
      let (sg, t') := match t with
        | 0x2B :: u => ([0x2B], u)
        | 0x2D :: u => ([0x2D], u)
        | _ => ([], t)
      let (d, r) := Json.takeDigits t'
      if d.isEmpty then none else some (e :: sg ++ d, r)
    else some ([], s3)
  | [] => some ([], s3)

theorem parseNumberTok_stages (s : Bytes) :
    Json.parseNumberTok s =
      (match intPart (signPart s).2 with
       | none => none
       | some (ip, s2) =>
         match fracPart s2 with
         | none => none
         | some (fp, s3) =>
           match expPart s3 with
           | none => none
           | some (ep, s4) => some ((signPart s).1 ++ ip ++ fp ++ ep, s4)) := by
  unfold Json.parseNumberTok signPart intPart fracPart expPart
  rfl

theorem signPart_spec (s : Bytes) :
    s = (signPart s).1 ++ (signPart s).2 ∧ ((signPart s).1 = [0x2D] ∨ (signPart s).1 = []) := by
  unfold signPart
  split <;> simp

theorem intPart_spec (s p r : Bytes) (h : intPart s = some (p, r)) :
    s = p ++ r ∧ (∀ b ∈ p, NumChar b) ∧ ∃ b t, p = b :: t ∧ 0x30 ≤ b ∧ b ≤ 0x39 := by
  unfold intPart at h
  split at h
  · simp at h; obtain ⟨rfl, rfl⟩ := h
    refine ⟨by simp, ?_, 0x30, [], rfl, by omega, by omega⟩
    intro b hb; simp at hb; subst hb; simp [NumChar]
  · rename_i b t _
    split at h
    · rename_i hb
      simp at h
      have sp := takeDigits_spec (b :: t)
      rw [h] at sp
      refine ⟨sp.1, sp.2, ?_⟩
      have hd : Dec.isDigit b = true := by simp [Dec.isDigit]; omega
      have : Json.takeDigits (b :: t) = (b :: (Json.takeDigits t).1, (Json.takeDigits t).2) := by
        rw [Json.takeDigits]; simp [hd]
      rw [this] at h
      simp at h
      exact ⟨b, _, h.1.symm, by omega, by omega⟩
    · cases h
  · cases h

theorem fracPart_spec (s p r : Bytes) (h : fracPart s = some (p, r)) :
    s = p ++ r ∧ (∀ b ∈ p, NumChar b) := by
  unfold fracPart at h
  split at h
  · rename_i t
    have sp := takeDigits_spec t
    simp only [] at h
    split at h
    · cases h
    · simp at h; obtain ⟨rfl, rfl⟩ := h
      refine ⟨by simp; exact sp.1, ?_⟩
      intro b hb; simp at hb
      rcases hb with rfl | hb
      · simp [NumChar]
      · exact sp.2 b hb
  · simp at h; obtain ⟨rfl, rfl⟩ := h; simp

theorem expPart_spec (s p r : Bytes) (h : expPart s = some (p, r)) :
    s = p ++ r ∧ (∀ b ∈ p, NumChar b) := by
  unfold expPart at h
  split at h
  · rename_i e t
    split at h
    · rename_i he
      have hE : NumChar e := by rcases he with rfl | rfl <;> simp [NumChar]
      split at h
      rename_i sg t' heq
      have hsg : t = sg ++ t' ∧ ∀ b ∈ sg, NumChar b := by
        split at heq
        · simp at heq; obtain ⟨rfl, rfl⟩ := heq; simp [NumChar]
        · simp at heq; obtain ⟨rfl, rfl⟩ := heq; simp [NumChar]
        · simp at heq; obtain ⟨rfl, rfl⟩ := heq; simp
      have sp := takeDigits_spec t'
      simp only [] at h
      split at h
      · cases h
      · simp at h; obtain ⟨rfl, rfl⟩ := h
        refine ⟨by rw [hsg.1]; simp; exact sp.1, ?_⟩
        intro b hb; simp at hb
        rcases hb with rfl | hb | hb
        · exact hE
        · exact hsg.2 b hb
        · exact sp.2 b hb
    · simp at h; obtain ⟨rfl, rfl⟩ := h; simp
  · simp at h; obtain ⟨rfl, rfl⟩ := h; simp

/-- a number token is a prefix of the input, made of number characters, starting with `-` or a digit -/
theorem parseNumberTok_spec (s n r : Bytes) (h : Json.parseNumberTok s = some (n, r)) :
    s = n ++ r ∧ (∀ b ∈ n, NumChar b) ∧ ∃ b t, s = b :: t ∧ (b = 0x2D ∨ (0x30 ≤ b ∧ b ≤ 0x39)) := by
  rw [parseNumberTok_stages] at h
  have hs := signPart_spec s
  generalize signPart s = sp at h hs
  obtain ⟨sg, s1⟩ := sp
  simp only [] at h hs
  cases hi : intPart s1 with
  | none => rw [hi] at h; cases h
  | some ip =>
    obtain ⟨ip, s2⟩ := ip
    rw [hi] at h; simp only [] at h
    cases hf : fracPart s2 with
    | none => rw [hf] at h; cases h
    | some fp =>
      obtain ⟨fp, s3⟩ := fp
      rw [hf] at h; simp only [] at h
      cases he : expPart s3 with
      | none => rw [he] at h; cases h
      | some ep =>
        obtain ⟨ep, s4⟩ := ep
        rw [he] at h; simp only [Option.some.injEq, Prod.mk.injEq] at h
        obtain ⟨rfl, rfl⟩ := h
        obtain ⟨i1, i2, b, t, rfl, i3⟩ := intPart_spec _ _ _ hi
        obtain ⟨f1, f2⟩ := fracPart_spec _ _ _ hf
        obtain ⟨e1, e2⟩ := expPart_spec _ _ _ he
        refine ⟨by rw [hs.1, i1, f1, e1]; simp, ?_, ?_⟩
        · intro x hx
          simp only [List.mem_append] at hx
          rcases hx with ((hx | hx) | hx) | hx
          · rcases hs.2 with h2 | h2 <;> rw [h2] at hx <;> simp at hx
            subst hx; simp [NumChar]
          · exact i2 x hx
          · exact f2 x hx
          · exact e2 x hx
        · rcases hs.2 with h2 | h2
          · exact ⟨0x2D, s1, by rw [hs.1, h2]; rfl, Or.inl rfl⟩
          · exact ⟨b, t ++ s2, by rw [hs.1, h2, i1]; rfl, Or.inr i3⟩

theorem unescapeBackticks_id : ∀ t : Bytes, (∀ b ∈ t, b ≠ 0x5C) → unescapeBackticks t = t
  | [], _ => unescapeBackticks_nil
  | b :: t, h => by
    rw [unescapeBackticks_plain b t (fun hb => absurd hb (h b (List.mem_cons_self))),
      unescapeBackticks_id t (fun x hx => h x (List.mem_cons_of_mem _ hx))]

theorem NumChar.ne_bs {b : Nat} (h : NumChar b) : b ≠ 0x5C := by
  unfold NumChar at h; omega

/-- Go's decoder with `UseNumber` keeps the spelling of a number -/
theorem decode_number (t : Bytes) (h : Json.isValidNumber t = true) : Json.decode t = some (.num (.jnum t)) := by
  unfold Json.isValidNumber at h
  split at h
  · rename_i n hn
    obtain ⟨h1, _, b, t', rfl, hb⟩ := parseNumberTok_spec _ _ _ hn
    have hn' : n = b :: t' := by simpa using h1.symm
    subst hn'
    unfold Json.decode
    obtain ⟨k, hk⟩ : ∃ k, 2 * (b :: t').length + 2 = k + 1 := ⟨_, rfl⟩
    rw [hk, parseValue_number k 0 b t' hb, hn]
    simp [Json.skipWs]
  · cases h

/-- a valid JSON number between backticks keeps its spelling, at full precision -/
theorem parseJSONLiteral_number (t : Bytes) (h : Json.isValidNumber t = true) :
    parseJSONLiteral ([0x60] ++ t ++ [0x60]) = some (.num (.jnum t)) := by
  have h' := h
  unfold Json.isValidNumber at h'
  split at h'
  · rename_i n hn
    obtain ⟨h1, h2, b, t', rfl, _⟩ := parseNumberTok_spec _ _ _ hn
    have hn' : n = b :: t' := by simpa using h1.symm
    subst hn'
    unfold parseJSONLiteral
    rw [stripDelims_wrap, unescapeBackticks_id _ (fun x hx => (h2 x hx).ne_bs)]
    simp only [List.isEmpty_cons, Bool.false_eq_true, if_false]
    exact decode_number _ h
  · cases h'

/-- `r` does not continue a number: it is empty or starts with a byte outside the number alphabet -/
def Stop (r : Bytes) : Prop := ∀ b t, r = b :: t → ¬ NumChar b

theorem Stop.nil : Stop [] := by intro b t h; cases h

theorem Stop.cons {b : Nat} {t : Bytes} (h : ¬ NumChar b) : Stop (b :: t) := by
  intro b' t' e; cases e; exact h

theorem not_digit_of_stop {b : Nat} {t : Bytes} (h : Stop (b :: t)) : Dec.isDigit b = false := by
  have := h b t rfl
  unfold NumChar at this
  simp [Dec.isDigit]; omega

theorem takeDigits_stop (r : Bytes) (h : Stop r) : Json.takeDigits r = ([], r) := by
  cases r with
  | nil => rfl
  | cons b t => rw [Json.takeDigits]; simp [not_digit_of_stop h]

theorem takeDigits_ext (r : Bytes) (h : Stop r) : ∀ s : Bytes,
    Json.takeDigits (s ++ r) = ((Json.takeDigits s).1, (Json.takeDigits s).2 ++ r)
  | [] => by simp [takeDigits_stop r h, Json.takeDigits]
  | b :: t => by
    rw [List.cons_append, Json.takeDigits, Json.takeDigits]
    by_cases hb : Dec.isDigit b = true
    · simp [hb, takeDigits_ext r h t]
    · simp [hb]

def extR (r : Bytes) (p : Bytes × Bytes) : Bytes × Bytes := (p.1, p.2 ++ r)

theorem signPart_cons (b : Nat) (t : Bytes) :
    signPart (b :: t) = if b = 0x2D then ([0x2D], t) else ([], b :: t) := by
  unfold signPart
  split
  · rename_i heq; cases heq; simp
  · rename_i hne
    by_cases hb : b = 0x2D
    · subst hb; exact absurd rfl (hne t)
    · simp [hb]

theorem signPart_ext (r : Bytes) (h : Stop r) (s : Bytes) : signPart (s ++ r) = extR r (signPart s) := by
  cases s with
  | nil =>
    cases r with
    | nil => rfl
    | cons b t =>
      have : b ≠ 0x2D := by intro e; exact h b t rfl (by simp [NumChar, e])
      simp [this, extR, signPart]
  | cons b t =>
    rw [List.cons_append, signPart_cons, signPart_cons]
    by_cases hb : b = 0x2D <;> simp [hb, extR]

theorem intPart_cons (b : Nat) (t : Bytes) :
    intPart (b :: t) = if b = 0x30 then some ([0x30], t)
      else if 0x31 ≤ b ∧ b ≤ 0x39 then some (Json.takeDigits (b :: t)) else none := by
  unfold intPart
  split
  · rename_i heq; cases heq; simp
  · rename_i b' t' hne heq
    cases heq
    have hb : b ≠ 0x30 := by intro e; subst e; exact hne rfl
    simp [hb]
  · rename_i heq; cases heq

theorem intPart_ext (r : Bytes) (h : Stop r) (s : Bytes) : intPart (s ++ r) = (intPart s).map (extR r) := by
  cases s with
  | nil =>
    cases r with
    | nil => rfl
    | cons b t =>
      have hb := h b t rfl
      unfold NumChar at hb
      have h0 : b ≠ 0x30 := by omega
      have h1 : ¬ (0x31 ≤ b ∧ b ≤ 0x39) := by omega
      simp [h1, intPart]
  | cons b t =>
    rw [List.cons_append, intPart_cons, intPart_cons]
    by_cases hb : b = 0x30
    · simp [hb, extR]
    · by_cases hb2 : 0x31 ≤ b ∧ b ≤ 0x39
      · simp only [hb, hb2, if_false, if_true, and_self, Option.map]
        rw [← List.cons_append, takeDigits_ext r h]; rfl
      · simp [hb, hb2]

theorem fracPart_cons (b : Nat) (t : Bytes) :
    fracPart (b :: t) = if b = 0x2E then
        (if (Json.takeDigits t).1.isEmpty then none else some (0x2E :: (Json.takeDigits t).1, (Json.takeDigits t).2))
      else some ([], b :: t) := by
  unfold fracPart
  split
  · rename_i heq; cases heq; simp
  · rename_i hne
    have hb : b ≠ 0x2E := by intro e; subst e; exact absurd rfl (hne t)
    simp [hb]

theorem fracPart_ext (r : Bytes) (h : Stop r) (s : Bytes) : fracPart (s ++ r) = (fracPart s).map (extR r) := by
  cases s with
  | nil =>
    cases r with
    | nil => rfl
    | cons b t =>
      have hb := h b t rfl
      unfold NumChar at hb
      have h0 : b ≠ 0x2E := by omega
      simp [h0, fracPart, extR]
  | cons b t =>
    rw [List.cons_append, fracPart_cons, fracPart_cons]
    by_cases hb : b = 0x2E
    · simp only [hb, if_true, takeDigits_ext r h t]
      by_cases he : (Json.takeDigits t).1.isEmpty = true <;> simp [he, extR]
    · simp [hb, extR]

/-- optional sign of the exponent -/
def expSign (t : Bytes) : Bytes × Bytes := match t with
  | 0x2B :: u => ([0x2B], u)
  | 0x2D :: u => ([0x2D], u)
  | _ => ([], t)

theorem expSign_cons (b : Nat) (t : Bytes) :
    expSign (b :: t) = if b = 0x2B then ([0x2B], t) else if b = 0x2D then ([0x2D], t) else ([], b :: t) := by
  unfold expSign
  split
  · rename_i heq; cases heq; simp
  · rename_i heq; cases heq; simp
  · rename_i hne1 hne2
    have hb1 : b ≠ 0x2B := by intro e; subst e; exact absurd rfl (hne1 t)
    have hb2 : b ≠ 0x2D := by intro e; subst e; exact absurd rfl (hne2 t)
    simp [hb1, hb2]

theorem expSign_ext (r : Bytes) (h : Stop r) (s : Bytes) : expSign (s ++ r) = extR r (expSign s) := by
  cases s with
  | nil =>
    cases r with
    | nil => rfl
    | cons b t =>
      have hb := h b t rfl
      unfold NumChar at hb
      have h0 : b ≠ 0x2B := by omega
      have h1 : b ≠ 0x2D := by omega
      simp [h0, h1, extR, expSign]
  | cons b t =>
    rw [List.cons_append, expSign_cons, expSign_cons]
    by_cases hb : b = 0x2B
    · simp [hb, extR]
    · by_cases hb2 : b = 0x2D <;> simp [hb, hb2, extR]

theorem expPart_cons (e : Nat) (t : Bytes) :
    expPart (e :: t) = if e = 0x65 ∨ e = 0x45 then
        (if (Json.takeDigits (expSign t).2).1.isEmpty then none
         else some (e :: (expSign t).1 ++ (Json.takeDigits (expSign t).2).1, (Json.takeDigits (expSign t).2).2))
      else some ([], e :: t) := by
  unfold expPart expSign
  rfl

theorem expPart_ext (r : Bytes) (h : Stop r) (s : Bytes) : expPart (s ++ r) = (expPart s).map (extR r) := by
  cases s with
  | nil =>
    cases r with
    | nil => rfl
    | cons b t =>
      have hb := h b t rfl
      unfold NumChar at hb
      have h0 : ¬ (b = 0x65 ∨ b = 0x45) := by omega
      simp [h0, expPart, extR]
  | cons b t =>
    rw [List.cons_append, expPart_cons, expPart_cons]
    by_cases hb : b = 0x65 ∨ b = 0x45
    · simp only [hb, if_true, expSign_ext r h t, extR, takeDigits_ext r h]
      by_cases he : (Json.takeDigits (expSign t).2).1.isEmpty = true <;> simp [he, extR]
    · simp [hb, extR]

/-- a number token followed by something that cannot continue a number is read the same way -/
theorem parseNumberTok_ext (r : Bytes) (h : Stop r) (s : Bytes) :
    Json.parseNumberTok (s ++ r) = (Json.parseNumberTok s).map (extR r) := by
  rw [parseNumberTok_stages, parseNumberTok_stages, signPart_ext r h]
  simp only [extR]
  rw [intPart_ext r h]
  cases intPart (signPart s).2 with
  | none => rfl
  | some ip =>
    obtain ⟨ip, s2⟩ := ip
    simp only [Option.map, extR]
    rw [fracPart_ext r h]
    cases fracPart s2 with
    | none => rfl
    | some fp =>
      obtain ⟨fp, s3⟩ := fp
      simp only [Option.map, extR]
      rw [expPart_ext r h]
      cases expPart s3 with
      | none => rfl
      | some ep =>
        obtain ⟨ep, s4⟩ := ep
        rfl

theorem parseNumberTok_valid_ext (t r : Bytes) (ht : Json.isValidNumber t = true) (h : Stop r) :
    Json.parseNumberTok (t ++ r) = some (t, r) := by
  unfold Json.isValidNumber at ht
  split at ht
  · rename_i n hn
    obtain ⟨h1, _⟩ := parseNumberTok_spec _ _ _ hn
    have : t = n := by simpa using h1
    subst this
    rw [parseNumberTok_ext r h, hn]; rfl
  · cases ht

/-! ### JSON leaves followed by more text; arrays -/

open Json in
theorem parseValue_null (f d : Nat) (rest : Bytes) :
    parseValue (f + 1) d (0x6E :: 0x75 :: 0x6C :: 0x6C :: rest) = some (.null, rest) := by
  simp [parseValue, skipWs, isWs]

open Json in
theorem parseValue_true (f d : Nat) (rest : Bytes) :
    parseValue (f + 1) d (0x74 :: 0x72 :: 0x75 :: 0x65 :: rest) = some (.bool true, rest) := by
  simp [parseValue, skipWs, isWs]

open Json in
theorem parseValue_false (f d : Nat) (rest : Bytes) :
    parseValue (f + 1) d (0x66 :: 0x61 :: 0x6C :: 0x73 :: 0x65 :: rest) = some (.bool false, rest) := by
  simp [parseValue, skipWs, isWs]

theorem parseValue_number_ext (f d : Nat) (t r : Bytes) (ht : Json.isValidNumber t = true) (h : Stop r) :
    Json.parseValue (f + 1) d (t ++ r) = some (.num (.jnum t), r) := by
  have hn := parseNumberTok_valid_ext t r ht h
  have ht' := ht
  unfold Json.isValidNumber at ht'
  split at ht'
  · rename_i n hn0
    obtain ⟨h1, _, b, t', rfl, hb⟩ := parseNumberTok_spec _ _ _ hn0
    rw [List.cons_append] at hn ⊢
    rw [parseValue_number f d b _ hb, hn]; rfl
  · cases ht'

theorem skipWs_cons (b : Nat) (t : Bytes) (h : Json.isWs b = false) : Json.skipWs (b :: t) = b :: t := by
  simp [Json.skipWs, h]

open Json in
theorem parseElems_last (f d : Nat) (s : Bytes) (accv : List Val) (v : Val) (r : Bytes)
    (h : parseValue f d s = some (v, 0x5D :: r)) :
    parseElems (f + 1) d s accv = some (accv ++ [v], r) := by
  rw [parseElems, h]
  simp [skipWs, isWs]

open Json in
theorem parseElems_more (f d : Nat) (s : Bytes) (accv : List Val) (v : Val) (r : Bytes)
    (h : parseValue f d s = some (v, 0x2C :: r)) :
    parseElems (f + 1) d s accv = parseElems f d r (accv ++ [v]) := by
  rw [parseElems, h]
  simp [skipWs, isWs]

open Json in
theorem parseValue_arr (f d b : Nat) (t : Bytes) (hd : d + 1 ≤ maxDepth) (hw : isWs b = false) (hb : b ≠ 0x5D) :
    parseValue (f + 1) d (0x5B :: b :: t) =
      (parseElems f (d + 1) (b :: t) []).map (fun p => (Val.arr .plain p.1, p.2)) := by
  have h1 : skipWs (0x5B :: b :: t) = 0x5B :: b :: t := skipWs_cons _ _ (by decide)
  have h2 : skipWs (b :: t) = b :: t := skipWs_cons _ _ hw
  have h3 : ¬ (d + 1 > maxDepth) := by omega
  rw [parseValue, h1]
  simp only [h3, if_false, h2]
  split
  · rename_i heq; simp at heq; exact absurd heq.1 hb
  · rfl

end Jmes.Literals
