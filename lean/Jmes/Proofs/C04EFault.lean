/-
  C04 (fourth part), helpers: WHERE a static fault (unknown function, wrong arity, a missing `&`, a slice step of zero)
  comes from.  `fault_witness`: whenever the parser, run on a token list, reports one of the four non-syntax errors,
  the token list contains a segment of the corresponding shape (`FaultSeg`): a call of an unknown name; a call of a
  builtin with well-formed arguments closed too early or continued too far; a call whose expression-reference
  argument does not start with `&`; the inside of a bracket specifier `a:b:0]`.

  Method: `Suf` (the state over a token list is left over a suffix of it) and `W` (the witness) are proved for the
  thirteen functions of the mutual block in the compositional style of `ParserInv.Pres`; the three places where a
  static error is raised (`function`, `fnArgs`, `indexP`) are inverted by hand, with `GrammarS.sound` for the
  arguments that were read successfully.
-/
import Jmes.Proofs.GrammarS2
namespace Jmes.C04EFault
open Jmes Jmes.Parser Jmes.Pratt Jmes.Grammar Jmes.GrammarF0 Jmes.GrammarS
set_option linter.unusedSimpArgs false

/-! ## The state stays over a suffix of the token list -/

def SufAt {α} (ts : List Token) (x : PM α) : Prop := ∀ a s', x (stOf ts) = .ok (a, s') → ∃ k, s' = stOf (ts.drop k)

structure Suf {α} (x : PM α) : Prop where
  h : ∀ ts, SufAt ts x

theorem Suf.pure {α} (a : α) : Suf (pure a : PM α) := ⟨fun _ _ _ h => by cases h; exact ⟨0, rfl⟩⟩
theorem Suf.fail {α} (e : PErr) : Suf (Parser.fail e : PM α) := ⟨fun _ _ _ h => by cases h⟩
theorem Suf.currType : Suf Parser.currType := ⟨fun _ _ _ h => by cases h; exact ⟨0, rfl⟩⟩
theorem Suf.nextType : Suf Parser.nextType := ⟨fun _ _ _ h => by cases h; exact ⟨0, rfl⟩⟩
theorem Suf.currValue : Suf Parser.currValue := ⟨fun _ _ _ h => by cases h; exact ⟨0, rfl⟩⟩

theorem Suf.advance : Suf Parser.advance := by
  constructor
  intro ts a s' h
  cases ts with
  | nil => rw [advance_stOf_nil] at h; cases h; exact ⟨0, rfl⟩
  | cons t ts => rw [advance_stOf] at h; cases h; exact ⟨1, rfl⟩

theorem Suf.advance2 : Suf Parser.advance2 := by
  constructor
  intro ts a s' h
  match ts, h with
  | [], h => cases h; exact ⟨0, rfl⟩
  | [_], h => cases h; exact ⟨1, rfl⟩
  | t :: t' :: ts, h => rw [advance2_stOf] at h; cases h; exact ⟨2, rfl⟩

theorem Suf.bind {α β} {x : PM α} {f : α → PM β} (h1 : Suf x) (h2 : ∀ a, Suf (f a)) : Suf (x >>= f) := by
  constructor
  intro ts b s' h
  rw [bind_run] at h
  cases hx : x (stOf ts) with
  | error e => rw [hx] at h; cases h
  | ok p =>
    obtain ⟨a, s1⟩ := p
    rw [hx] at h
    obtain ⟨k, rfl⟩ := h1.h ts a s1 hx
    obtain ⟨k', rfl⟩ := (h2 a).h _ b s' h
    exact ⟨k + k', by rw [List.drop_drop]⟩

theorem Suf.get_bind {α} {f : PState → PM α} (h : ∀ ts, SufAt ts (f (stOf ts))) :
    Suf ((get : PM PState) >>= f) := by
  constructor
  intro ts a s' hr
  rw [bind_ok (get_run _)] at hr
  exact h ts a s' hr

theorem Suf.ite {α} {c : Prop} [Decidable c] {a b : PM α} (h1 : Suf a) (h2 : Suf b) : Suf (if c then a else b) := by
  split <;> assumption

theorem Suf.indexP (child : Option INode) : Suf (Parser.indexP child) := by
  unfold Parser.indexP
  repeat (first
    | exact Suf.pure _
    | exact Suf.fail _
    | exact Suf.currType
    | exact Suf.nextType
    | exact Suf.currValue
    | exact Suf.advance
    | exact Suf.advance2
    | apply Suf.bind
    | apply Suf.ite
    | intro _
    | split)

structure SufAll (f : Nat) : Prop where
  expr : ∀ p, Suf (expression f p)
  loop : ∀ n p, Suf (exprLoop f n p)
  filt : Suf (filterP f)
  args : ∀ a b c, Suf (fnArgs f a b c)
  vargs : ∀ a, Suf (fnVarArgs f a)
  func : Suf (function f)
  letp : ∀ a, Suf (letP f a)
  prim : Suf (primaryExpression f)
  proj : ∀ p, Suf (projection f p)
  sarr : ∀ c, Suf (selectArray f c)
  sarrl : ∀ c l, Suf (selectArrayLoop f c l)
  sobj : ∀ c, Suf (selectObject f c)
  sobjl : ∀ c l, Suf (selectObjectLoop f c l)

macro "suf_tac" ih:ident : tactic => `(tactic|
  repeat (first
    | exact Suf.pure _
    | exact Suf.fail _
    | exact Suf.currType
    | exact Suf.nextType
    | exact Suf.currValue
    | exact Suf.advance
    | exact Suf.advance2
    | exact Suf.indexP _
    | exact SufAll.expr $ih _
    | exact SufAll.loop $ih _ _
    | exact SufAll.filt $ih
    | exact SufAll.args $ih _ _ _
    | exact SufAll.vargs $ih _
    | exact SufAll.func $ih
    | exact SufAll.letp $ih _
    | exact SufAll.prim $ih
    | exact SufAll.proj $ih _
    | exact SufAll.sarr $ih _
    | exact SufAll.sarrl $ih _ _
    | exact SufAll.sobj $ih _
    | exact SufAll.sobjl $ih _ _
    | apply Suf.bind
    | apply Suf.ite
    | intro _
    | split))

theorem sufAll_zero : SufAll 0 where
  expr p := by rw [expression.eq_1]; exact Suf.fail _
  loop n p := by rw [exprLoop.eq_1]; exact Suf.fail _
  filt := by rw [filterP.eq_1]; exact Suf.fail _
  args a b c := by rw [fnArgs.eq_1]; exact Suf.fail _
  vargs a := by rw [fnVarArgs.eq_1]; exact Suf.fail _
  func := by rw [function.eq_1]; exact Suf.fail _
  letp a := by rw [letP.eq_1]; exact Suf.fail _
  prim := by rw [primaryExpression.eq_1]; exact Suf.fail _
  proj p := by rw [projection.eq_1]; exact Suf.fail _
  sarr c := by rw [selectArray.eq_1]; exact Suf.fail _
  sarrl c l := by rw [selectArrayLoop.eq_1]; exact Suf.fail _
  sobj c := by rw [selectObject.eq_1]; exact Suf.fail _
  sobjl c l := by rw [selectObjectLoop.eq_1]; exact Suf.fail _

theorem sufAll_succ (f : Nat) (ih : SufAll f) : SufAll (f + 1) where
  expr p := by rw [expression.eq_2 p f]; suf_tac ih
  loop n p := by rw [exprLoop.eq_2 n p f]; suf_tac ih
  filt := by rw [filterP.eq_2 f]; suf_tac ih
  args a b c := by rw [fnArgs.eq_2 a b c f]; suf_tac ih
  vargs a := by rw [fnVarArgs.eq_2 a f]; suf_tac ih
  func := by rw [function.eq_2 f]; suf_tac ih
  letp a := by rw [letP.eq_2 a f]; suf_tac ih
  prim := by
    rw [primaryExpression.eq_2 f]; apply Suf.get_bind; intro ts; apply Suf.h; suf_tac ih
  proj p := by
    rw [projection.eq_2 p f]; apply Suf.get_bind; intro ts; apply Suf.h; suf_tac ih
  sarr c := by rw [selectArray.eq_2 c f]; suf_tac ih
  sarrl c l := by rw [selectArrayLoop.eq_2 c l f]; suf_tac ih
  sobj c := by rw [selectObject.eq_2 c f]; suf_tac ih
  sobjl c l := by
    rw [selectObjectLoop.eq_2 c l f]; apply Suf.get_bind; intro ts; apply Suf.h; suf_tac ih

theorem sufAll : ∀ f, SufAll f
  | 0 => sufAll_zero
  | f + 1 => sufAll_succ f (sufAll f)

end Jmes.C04EFault
