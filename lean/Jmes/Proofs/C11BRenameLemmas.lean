/-
  C11, last sentence: "renaming characters consistently (e.g. ASCII letters to multi-byte letters in order) in
  expression and data renames the result the same way".

  A renaming is a function `f : Nat → Nat` on code points that is strictly monotone (`Mono f`, hence injective).
  A string with code points `cs` (`Scalars cs`, bytes `encodeAll cs`) is renamed to `encodeAll (cs.map f)`; the only
  other thing we ask, per string involved, is that the renamed code points are again scalar values
  (`Scalars (cs.map f)`), so no global condition about surrogates is needed.  The running instance is
  `shift c = c + 0x350`, which sends the ASCII letters `a..z` (U+0061..) to the Greek letters `α..` (U+03B1..) in
  order and `é` (U+00E9) to `й` (U+0439): "héllo" (6 bytes) becomes "θйμμο" (10 bytes), every 1-byte letter
  becoming a 2-byte letter.

  Every theorem has the shape: the function applied to the renamed inputs gives the renamed result
  (`mapRes (renV f)`), all numeric arguments and numeric results (positions, lengths, widths, counts) UNCHANGED,
  although all byte offsets and byte lengths change.

  `renV` renames strings, recursively through arrays and objects (object keys are renamed too; a strictly
  monotone renaming keeps the keys sorted, `bytesLt_rename`).
-/
import Jmes.Properties.C11
import Jmes.Proofs.C11BStrLemmas
namespace Jmes.C11R
open Jmes Jmes.Utf8 Jmes.C11 Jmes.C11S

/-! ### 0. renamings -/

/-- strictly monotone on code points -/
def Mono (f : Nat → Nat) : Prop := ∀ a b, a < b → f a < f b

theorem Mono.inj {f : Nat → Nat} (h : Mono f) {a b : Nat} (e : f a = f b) : a = b := by
  rcases Nat.lt_trichotomy a b with h1 | h1 | h1
  · have := h a b h1; omega
  · exact h1
  · have := h b a h1; omega

theorem Mono.lt_iff {f : Nat → Nat} (h : Mono f) (a b : Nat) : f a < f b ↔ a < b := by
  constructor
  · intro hl
    rcases Nat.lt_trichotomy a b with h1 | h1 | h1
    · exact h1
    · subst h1; omega
    · have := h b a h1; omega
  · exact h a b

/-- injective on code points (what the search / split / replace / trim lemmas need) -/
def Inj (f : Nat → Nat) : Prop := ∀ a b, f a = f b → a = b

theorem Mono.toInj {f : Nat → Nat} (h : Mono f) : Inj f := fun _ _ e => h.inj e

/-- the running instance: Latin → Greek / Cyrillic, `a ↦ α`, `h ↦ θ`, `é ↦ й` -/
def shift (c : Nat) : Nat := c + 0x350

theorem shift_mono : Mono shift := by intro a b h; unfold shift; omega

/-- an alternative packaging: `f` preserves scalar values globally -/
def ScalarPres (f : Nat → Nat) : Prop := ∀ c, isScalar c = true → isScalar (f c) = true

theorem ScalarPres.map {f : Nat → Nat} (h : ScalarPres f) {cs : List Nat} (hcs : Scalars cs) :
    Scalars (cs.map f) := by
  intro c hc
  obtain ⟨a, ha, rfl⟩ := List.mem_map.1 hc
  exact h a (hcs a ha)

/-- the shift keeps every code point below U+D4B0 a scalar value (so all of Latin, Greek, Cyrillic, CJK …) -/
theorem shift_scalars {cs : List Nat} (h : ∀ c ∈ cs, c < 0xD800 - 0x350) : Scalars (cs.map shift) := by
  intro c hc
  obtain ⟨a, ha, rfl⟩ := List.mem_map.1 hc
  have := h a ha
  rw [isScalar_iff]; unfold shift; omega

/-- "héllo" renamed: "θйμμο", 5 code points, 10 bytes instead of 6 -/
def hello' : List Nat := hello.map shift
example : hello' = [0x3B8, 0x439, 0x3BC, 0x3BC, 0x3BF] := by decide
example : encodeAll hello' = [0xCE, 0xB8, 0xD0, 0xB9, 0xCE, 0xBC, 0xCE, 0xBC, 0xCE, 0xBF] := by decide
example : (encodeAll hello).length = 6 ∧ (encodeAll hello').length = 10 := by decide
theorem hello'_scalars : Scalars (hello.map shift) := by unfold Scalars; decide

/-- renaming of a byte string: decode, rename each code point, encode -/
def renB (f : Nat → Nat) (s : Bytes) : Bytes := encodeAll ((decodeAll s).map f)

theorem renB_encodeAll (f : Nat → Nat) (cs : List Nat) (h : Scalars cs) :
    renB f (encodeAll cs) = encodeAll (cs.map f) := by
  unfold renB; rw [Utf8.decodeAll_encodeAll cs h]

theorem renB_nil (f : Nat → Nat) : renB f [] = [] := rfl

theorem renB_encodeRune (f : Nat → Nat) (c : Nat) (h : isScalar c = true) :
    renB f (encodeRune c) = encodeRune (f c) := by
  have := renB_encodeAll f [c] (Scalars.cons h Scalars.nil)
  rwa [encodeAll_singleton, List.map_cons, List.map_nil, encodeAll_singleton] at this

example : renB shift [0x68, 0xC3, 0xA9, 0x6C, 0x6C, 0x6F] = [0xCE, 0xB8, 0xD0, 0xB9, 0xCE, 0xBC, 0xCE, 0xBC, 0xCE, 0xBF] := by
  decide

mutual
/-- renaming of a value: every string in it (array elements, object keys and values, recursively) is renamed;
    null, booleans, numbers and foreign values are unchanged -/
def renV (f : Nat → Nat) : Val → Val
  | .str s => .str (renB f s)
  | .arr t xs => .arr t (renVL f xs)
  | .obj kvs => .obj (renVF f kvs)
  | .null => .null
  | .bool b => .bool b
  | .num n => .num n
  | .foreign t => .foreign t
def renVL (f : Nat → Nat) : List Val → List Val
  | [] => []
  | x :: xs => renV f x :: renVL f xs
def renVF (f : Nat → Nat) : List (Bytes × Val) → List (Bytes × Val)
  | [] => []
  | (k, x) :: xs => (renB f k, renV f x) :: renVF f xs
end

theorem renVL_eq_map (f : Nat → Nat) : ∀ xs : List Val, renVL f xs = xs.map (renV f)
  | [] => rfl
  | x :: xs => by rw [renVL, List.map_cons, renVL_eq_map f xs]

theorem renVF_eq_map (f : Nat → Nat) :
    ∀ xs : List (Bytes × Val), renVF f xs = xs.map (fun kv => (renB f kv.1, renV f kv.2))
  | [] => rfl
  | (k, x) :: xs => by rw [renVF, List.map_cons, renVF_eq_map f xs]

theorem renV_strs (f : Nat → Nat) (t : ATag) (ss : List Bytes) :
    renV f (.arr t (ss.map Val.str)) = .arr t ((ss.map (renB f)).map Val.str) := by
  rw [renV, renVL_eq_map, List.map_map, List.map_map]
  congr 1

/-- apply a renaming to the value of an `.ok` outcome; every other outcome is unchanged -/
def mapRes (g : Val → Val) : Res Val → Res Val
  | .ok v => .ok (g v)
  | .err c => .err c
  | .panic w => .panic w
  | .nondet => .nondet
  | .unmodelled w => .unmodelled w

@[simp] theorem mapRes_ok (g : Val → Val) (v : Val) : mapRes g (.ok v) = .ok (g v) := rfl

example : renV shift (.arr .plain [.str [0x68], .num (.int .i64 1), .obj [([0xC3, 0xA9], .str [0x6F])]])
    = .arr .plain [.str [0xCE, 0xB8], .num (.int .i64 1), .obj [([0xD0, 0xB9], .str [0xCE, 0xBF])]] := by
  rfl

/-! ### generic list lemmas: searching commutes with an injective renaming -/

theorem beq_map {f : Nat → Nat} (hf : Inj f) (a b : Nat) : (f a == f b) = (a == b) := by
  by_cases h : a = b
  · subst h; rw [beq_self_eq_true, beq_self_eq_true]
  · have : f a ≠ f b := fun e => h (hf a b e)
    rw [beq_false_of_ne this, beq_false_of_ne h]

theorem isPrefixOf_map {f : Nat → Nat} (hf : Inj f) :
    ∀ ps cs : List Nat, (ps.map f).isPrefixOf (cs.map f) = ps.isPrefixOf cs
  | [], _ => by simp
  | _ :: _, [] => rfl
  | p :: ps, c :: cs => by
    rw [List.map_cons, List.map_cons, List.isPrefixOf_cons_cons, List.isPrefixOf_cons_cons, beq_map hf,
      isPrefixOf_map hf ps cs]

theorem map_inj {f : Nat → Nat} (hf : Inj f) : ∀ as bs : List Nat, as.map f = bs.map f → as = bs
  | [], [], _ => rfl
  | [], _ :: _, e => by cases e
  | _ :: _, [], e => by cases e
  | a :: as, b :: bs, e => by
    rw [List.map_cons, List.map_cons] at e
    injection e with e1 e2
    rw [hf a b e1, map_inj hf as bs e2]

theorem list_beq_map {f : Nat → Nat} (hf : Inj f) (as bs : List Nat) : (as.map f == bs.map f) = (as == bs) := by
  by_cases h : as = bs
  · subst h; rw [beq_self_eq_true, beq_self_eq_true]
  · have : as.map f ≠ bs.map f := fun e => h (map_inj hf as bs e)
    rw [beq_false_of_ne this, beq_false_of_ne h]

theorem indexOfAux_map {f : Nat → Nat} (hf : Inj f) (p : List Nat) :
    ∀ (s : List Nat) (off : Nat), indexOfAux off (s.map f) (p.map f) = indexOfAux off s p
  | [], off => by
    rw [indexOfAux_eq, indexOfAux_eq off [], isPrefixOf_map hf]; rfl
  | a :: t, off => by
    rw [indexOfAux_eq, indexOfAux_eq off (a :: t), isPrefixOf_map hf]
    simp only [List.map_cons]
    rw [indexOfAux_map hf p t (off + 1)]

/-- the first occurrence of the renamed pattern in the renamed string is at the same position -/
theorem indexOf_map {f : Nat → Nat} (hf : Inj f) (s p : List Nat) :
    indexOf (s.map f) (p.map f) = indexOf s p := indexOfAux_map hf p s 0

theorem lastIndexOfAux_map {f : Nat → Nat} (hf : Inj f) (p : List Nat) :
    ∀ (s : List Nat) (off : Nat) (best : Option Nat),
      lastIndexOfAux off (s.map f) (p.map f) best = lastIndexOfAux off s p best
  | [], off, best => by
    rw [lastIndexOfAux_eq, lastIndexOfAux_eq off [], isPrefixOf_map hf]; rfl
  | a :: t, off, best => by
    rw [lastIndexOfAux_eq, lastIndexOfAux_eq off (a :: t), isPrefixOf_map hf]
    simp only [List.map_cons]
    rw [lastIndexOfAux_map hf p t (off + 1)]

/-- and so is the last occurrence -/
theorem lastIndexOf_map {f : Nat → Nat} (hf : Inj f) (s p : List Nat) :
    lastIndexOf (s.map f) (p.map f) = lastIndexOf s p := lastIndexOfAux_map hf p s 0 none

example : indexOf hello [0x6C] = some 2 ∧ indexOf hello' [0x3BC] = some 2
    ∧ indexOf (encodeAll hello) [0x6C] = some 3 ∧ indexOf (encodeAll hello') [0xCE, 0xBC] = some 4 := by decide

/-! ### 1. `length`, `reverse`, slices: positional selections commute with the renaming -/

/-- `length` of the renamed string is the same number, although the byte length differs -/
theorem length_rename (f : Nat → Nat) (cs : List Nat) (h : Scalars cs) (h' : Scalars (cs.map f)) :
    length (.str (encodeAll (cs.map f))) = mapRes (renV f) (length (.str (encodeAll cs))) := by
  rw [length_codepoints _ h', length_codepoints _ h, List.length_map, mapRes_ok, renV]

/-- length("θйμμο") = length("héllo") = 5 (10 and 6 bytes) -/
example : length (.str [0xCE, 0xB8, 0xD0, 0xB9, 0xCE, 0xBC, 0xCE, 0xBC, 0xCE, 0xBF]) = .ok (.num (.int .i64 5)) :=
  length_rename shift hello hello_scalars hello'_scalars

/-- `reverse` of the renamed string is the renamed reverse -/
theorem reverse_rename (f : Nat → Nat) (cs : List Nat) (h : Scalars cs) (h' : Scalars (cs.map f)) :
    reverse (.str (encodeAll (cs.map f))) = mapRes (renV f) (reverse (.str (encodeAll cs))) := by
  rw [reverse_codepoints _ h', reverse_codepoints _ h, mapRes_ok, renV, renB_encodeAll f _ h.reverse,
    List.map_reverse]

/-- reverse("θйμμο") = "ομμйθ" = renamed "olléh" -/
example : reverse (.str [0xCE, 0xB8, 0xD0, 0xB9, 0xCE, 0xBC, 0xCE, 0xBC, 0xCE, 0xBF])
    = .ok (.str [0xCE, 0xBF, 0xCE, 0xBC, 0xCE, 0xBC, 0xD0, 0xB9, 0xCE, 0xB8]) :=
  reverse_rename shift hello hello_scalars hello'_scalars

theorem subCodepoints_map (f : Nat → Nat) (cs : List Nat) (start stop : Int) :
    subCodepoints (cs.map f) start stop = (subCodepoints cs start stop).map f := by
  unfold subCodepoints
  rw [List.length_map]
  cases clamp1 (↑cs.length) start stop with
  | none => rfl
  | some ab => simp only [List.map_take, List.map_drop]

/-- a step-1 slice with the same bounds selects the same positions -/
theorem slice_rename (f : Nat → Nat) (cs : List Nat) (h : Scalars cs) (h' : Scalars (cs.map f)) (start stop : Int) :
    slice (.str (encodeAll (cs.map f))) start stop = mapRes (renV f) (slice (.str (encodeAll cs)) start stop) := by
  rw [slice_string_codepoints _ h', slice_string_codepoints _ h, mapRes_ok, renV,
    renB_encodeAll f _ (subCodepoints_scalars cs h start stop), subCodepoints_map]

/-- "θйμμο"[1:3] = "йμ" = renamed "él": bytes 2..6 there, bytes 1..4 here -/
example : slice (.str [0xCE, 0xB8, 0xD0, 0xB9, 0xCE, 0xBC, 0xCE, 0xBC, 0xCE, 0xBF]) 1 3 = .ok (.str [0xD0, 0xB9, 0xCE, 0xBC]) :=
  slice_rename shift hello hello_scalars hello'_scalars 1 3

theorem stepCodepoints_map (f : Nat → Nat) (cs : List Nat) (start stop step : Int) (hs : step ≠ 0)
    (hmin : -2 ^ 63 ≤ step) (hlen : cs.length < 2 ^ 63) :
    stepCodepoints (cs.map f) start stop step = (stepCodepoints cs start stop step).map f := by
  unfold stepCodepoints
  rw [List.length_map]
  cases hc : clampStep (↑cs.length) start stop step with
  | none => rfl
  | some an =>
    obtain ⟨a, n⟩ := an
    simp only [List.map_map]
    apply List.map_congr_left
    intro i hi
    have := stepCodepoints_inRange cs start stop step a n hs hmin hlen hc i (List.mem_range.1 hi)
    simp only [Function.comp]
    rw [List.getD_eq_getElem?_getD, List.getD_eq_getElem?_getD, List.getElem?_map,
      List.getElem?_eq_getElem this.2]
    rfl

/-- a stepped slice (`step` a non-zero Go `int`, string shorter than 2^63) selects the same positions -/
theorem sliceStep_rename (f : Nat → Nat) (cs : List Nat) (h : Scalars cs) (h' : Scalars (cs.map f))
    (start stop step : Int) (hs : step ≠ 0) (hmin : -2 ^ 63 ≤ step) (hlen : cs.length < 2 ^ 63) :
    sliceStep (.str (encodeAll (cs.map f))) start stop step
      = mapRes (renV f) (sliceStep (.str (encodeAll cs)) start stop step) := by
  rw [sliceStep_string_codepoints _ h' start stop step hs hmin (by rw [List.length_map]; exact hlen),
    sliceStep_string_codepoints _ h start stop step hs hmin hlen, mapRes_ok, renV,
    renB_encodeAll f _ (stepCodepoints_scalars cs h start stop step), stepCodepoints_map f cs _ _ _ hs hmin hlen]

/-- "θйμμο"[::-2] = "ομθ" = renamed "olh" -/
example : sliceStep (.str [0xCE, 0xB8, 0xD0, 0xB9, 0xCE, 0xBC, 0xCE, 0xBC, 0xCE, 0xBF]) (2 ^ 63 - 1) (-2 ^ 63) (-2)
    = .ok (.str [0xCE, 0xBF, 0xCE, 0xBC, 0xCE, 0xB8]) :=
  sliceStep_rename shift hello hello_scalars hello'_scalars (2 ^ 63 - 1) (-2 ^ 63) (-2) (by decide) (by decide)
    (by decide)
/-- "θйμμο"[1::3] = "йο" = renamed "éo" -/
example : sliceStep (.str [0xCE, 0xB8, 0xD0, 0xB9, 0xCE, 0xBC, 0xCE, 0xBC, 0xCE, 0xBF]) 1 (2 ^ 63 - 1) 3
    = .ok (.str [0xD0, 0xB9, 0xCE, 0xBF]) :=
  sliceStep_rename shift hello hello_scalars hello'_scalars 1 (2 ^ 63 - 1) 3 (by decide) (by decide) (by decide)

/-! ### 2. `find_first` / `find_last`: the same position (or null) -/

theorem indexOf_nil_pat (s : List Nat) : indexOf s [] = some 0 := by
  rw [indexOf, indexOfAux_eq]; rfl

theorem lastIndexOfAux_nil_pat : ∀ (s : List Nat) (off : Nat) (best : Option Nat),
    lastIndexOfAux off s [] best = some (off + s.length)
  | [], off, best => by rw [lastIndexOfAux_eq]; rfl
  | a :: t, off, best => by
    rw [lastIndexOfAux_eq]
    simp only
    rw [lastIndexOfAux_nil_pat t (off + 1)]
    simp only [List.length_cons]; congr 1; omega

theorem lastIndexOf_nil_pat (s : List Nat) : lastIndexOf s [] = some s.length := by
  rw [lastIndexOf, lastIndexOfAux_nil_pat]; simp

/-- `Utf8.indexOf_encodeAll` also holds for the empty pattern (found at 0) -/
theorem indexOf_encodeAll_any (cs ps : List Nat) (hcs : Scalars cs) (hps : Scalars ps) :
    indexOf (encodeAll cs) (encodeAll ps) = (indexOf cs ps).map (fun k => (encodeAll (cs.take k)).length) := by
  by_cases hne : ps = []
  · subst hne
    rw [encodeAll_nil, indexOf_nil_pat, indexOf_nil_pat]; rfl
  · exact indexOf_encodeAll cs ps hcs hps hne

/-- `Utf8.lastIndexOf_encodeAll` also holds for the empty pattern (found at the end) -/
theorem lastIndexOf_encodeAll_any (cs ps : List Nat) (hcs : Scalars cs) (hps : Scalars ps) :
    lastIndexOf (encodeAll cs) (encodeAll ps) = (lastIndexOf cs ps).map (fun k => (encodeAll (cs.take k)).length) := by
  by_cases hne : ps = []
  · subst hne
    rw [encodeAll_nil, lastIndexOf_nil_pat, lastIndexOf_nil_pat, Option.map_some, List.take_length]
  · exact lastIndexOf_encodeAll cs ps hcs hps hne

theorem findFirst_nil_pat (s : Bytes) : findFirst (.str s) (.str []) = .ok .null := by
  show (if s.isEmpty || true then _ else _) = _
  rw [Bool.or_true]; rfl

theorem findLast_nil_pat (s : Bytes) : findLast (.str s) (.str []) = .ok .null := by
  show (if s.isEmpty || true then _ else _) = _
  rw [Bool.or_true]; rfl

theorem map_ne_nil {f : Nat → Nat} {cs : List Nat} (h : cs ≠ []) : cs.map f ≠ [] := by
  cases cs with
  | nil => exact absurd rfl h
  | cons a t => intro e; cases e

/-- `find_first(s, p)` on the renamed subject and pattern gives the same code point position (or null), for all
    subjects and patterns including the empty ones (which give null) -/
theorem find_first_rename {f : Nat → Nat} (hf : Inj f) (cs ps : List Nat) (hcs : Scalars cs)
    (hcs' : Scalars (cs.map f)) (hps : Scalars ps) (hps' : Scalars (ps.map f)) :
    findFirst (.str (encodeAll (cs.map f))) (.str (encodeAll (ps.map f)))
      = findFirst (.str (encodeAll cs)) (.str (encodeAll ps)) := by
  by_cases hc : cs = []
  · subst hc; rfl
  · by_cases hp : ps = []
    · subst hp; rw [List.map_nil, encodeAll_nil, findFirst_nil_pat, findFirst_nil_pat]
    · rw [find_first_codepoint_index _ _ hcs' hps' (map_ne_nil hc) (map_ne_nil hp),
        find_first_codepoint_index _ _ hcs hps hc hp, indexOf_map hf]

theorem find_last_rename {f : Nat → Nat} (hf : Inj f) (cs ps : List Nat) (hcs : Scalars cs)
    (hcs' : Scalars (cs.map f)) (hps : Scalars ps) (hps' : Scalars (ps.map f)) :
    findLast (.str (encodeAll (cs.map f))) (.str (encodeAll (ps.map f)))
      = findLast (.str (encodeAll cs)) (.str (encodeAll ps)) := by
  by_cases hc : cs = []
  · subst hc; rfl
  · by_cases hp : ps = []
    · subst hp; rw [List.map_nil, encodeAll_nil, findLast_nil_pat, findLast_nil_pat]
    · rw [find_last_codepoint_index _ _ hcs' hps' (map_ne_nil hc) (map_ne_nil hp),
        find_last_codepoint_index _ _ hcs hps hc hp, lastIndexOf_map hf]

/-- find_first("θйμμο", "μ") = find_first("héllo", "l") = 2 (byte offsets 4 and 3);
    find_last = 3 (byte offsets 6 and 4) -/
example : findFirst (.str [0xCE, 0xB8, 0xD0, 0xB9, 0xCE, 0xBC, 0xCE, 0xBC, 0xCE, 0xBF]) (.str [0xCE, 0xBC])
    = .ok (.num (.int .i64 2)) :=
  find_first_rename shift_mono.toInj hello [0x6C] hello_scalars hello'_scalars (by unfold Scalars; decide)
    (by unfold Scalars; decide)
example : findLast (.str [0xCE, 0xB8, 0xD0, 0xB9, 0xCE, 0xBC, 0xCE, 0xBC, 0xCE, 0xBF]) (.str [0xCE, 0xBC])
    = .ok (.num (.int .i64 3)) :=
  find_last_rename shift_mono.toInj hello [0x6C] hello_scalars hello'_scalars (by unfold Scalars; decide)
    (by unfold Scalars; decide)

/-- `C11.find_from_codepoints` without the non-empty-pattern hypothesis (the 3-argument form does not special-case
    the empty pattern: it is found at `start`, resp. at the end) -/
theorem find_from_codepoints_any (last : Bool) (cs ps : List Nat) (hcs : Scalars cs) (hps : Scalars ps) (i : Int) :
    findFrom last (.str (encodeAll cs)) (.str (encodeAll ps)) (.num (.int .i64 i)) =
      match cpFindFrom last cs ps i with
      | none => .ok .null
      | some k => .ok (.num (.int .i64 k)) := by
  rw [findFrom_str, startOffset_encodeAll' cs hcs, cpFindFrom]
  by_cases h1 : i > (cs.length : Int)
  · simp [h1]
  · simp only [h1, if_false, drop_boundary]
    have hlen : i.toNat ≤ cs.length := by omega
    cases last
    · simp only [Bool.false_eq_true, if_false]
      rw [indexOf_encodeAll_any _ ps (hcs.drop _) hps]
      cases hk : indexOf (cs.drop i.toNat) ps with
      | none => rfl
      | some r =>
        have := indexOf_le _ _ _ hk
        rw [List.length_drop] at this
        simp only [Option.map_some]
        rw [runeIndexVal_boundary cs hcs _ _ (by omega)]
    · simp only [if_true]
      rw [lastIndexOf_encodeAll_any _ ps (hcs.drop _) hps]
      cases hk : lastIndexOf (cs.drop i.toNat) ps with
      | none => rfl
      | some r =>
        have := lastIndexOf_le _ _ _ hk
        rw [List.length_drop] at this
        simp only [Option.map_some]
        rw [runeIndexVal_boundary cs hcs _ _ (by omega)]

theorem cpFindFrom_map {f : Nat → Nat} (hf : Inj f) (last : Bool) (cs ps : List Nat) (i : Int) :
    cpFindFrom last (cs.map f) (ps.map f) i = cpFindFrom last cs ps i := by
  unfold cpFindFrom
  rw [List.length_map, ← List.map_drop, indexOf_map hf, lastIndexOf_map hf]

/-- `find_first(s, p, start)` / `find_last(s, p, start)`: same `start`, same answer; empty pattern included -/
theorem find_from_rename {f : Nat → Nat} (hf : Inj f) (last : Bool) (cs ps : List Nat) (hcs : Scalars cs)
    (hcs' : Scalars (cs.map f)) (hps : Scalars ps) (hps' : Scalars (ps.map f)) (i : Int) :
    findFrom last (.str (encodeAll (cs.map f))) (.str (encodeAll (ps.map f))) (.num (.int .i64 i))
      = findFrom last (.str (encodeAll cs)) (.str (encodeAll ps)) (.num (.int .i64 i)) := by
  rw [find_from_codepoints_any last _ _ hcs' hps', find_from_codepoints_any last _ _ hcs hps, cpFindFrom_map hf]

/-- find_first("θйμμο", "μ", 3) = find_first("héllo", "l", 3) = 3: start 3 is byte 6 there, byte 4 here -/
example : findFirstFrom (.str [0xCE, 0xB8, 0xD0, 0xB9, 0xCE, 0xBC, 0xCE, 0xBC, 0xCE, 0xBF]) (.str [0xCE, 0xBC])
    (.num (.int .i64 3)) = .ok (.num (.int .i64 3)) :=
  find_from_rename shift_mono.toInj false hello [0x6C] hello_scalars hello'_scalars (by unfold Scalars; decide)
    (by unfold Scalars; decide) 3
/-- the empty pattern: find_last("θйμμο", "", 1) = find_last("héllo", "", 1) = 5, the number of code points -/
example : findLastFrom (.str [0xCE, 0xB8, 0xD0, 0xB9, 0xCE, 0xBC, 0xCE, 0xBC, 0xCE, 0xBF]) (.str [])
    (.num (.int .i64 1)) = .ok (.num (.int .i64 5)) :=
  find_from_rename shift_mono.toInj true hello [] hello_scalars hello'_scalars Scalars.nil Scalars.nil 1

/-- `C11.find_between_codepoints` without the non-empty-pattern hypothesis -/
theorem find_between_codepoints_any (last : Bool) (cs ps : List Nat) (hcs : Scalars cs) (hps : Scalars ps)
    (i j : Int) :
    findBetween last (.str (encodeAll cs)) (.str (encodeAll ps)) (.num (.int .i64 i)) (.num (.int .i64 j)) =
      match cpFindBetween last cs ps i j with
      | none => .ok .null
      | some k => .ok (.num (.int .i64 k)) := by
  rw [findBetween_str, startOffset_encodeAll' cs hcs, finishOffset_encodeAll' cs hcs j, cpFindBetween]
  by_cases h1 : i > (cs.length : Int)
  · simp [h1]
  · simp only [h1, if_false]
    by_cases h2 : j < 0
    · simp [h2]
    · simp only [h2, if_false]
      have hlen : i.toNat ≤ cs.length := by omega
      generalize hb : min j.toNat cs.length = b
      have hbl : b ≤ cs.length := by omega
      by_cases h3 : i.toNat > b
      · have := take_boundary_len_strict cs i.toNat b h3 hlen
        simp [h3, this]
      · have h3' : i.toNat ≤ b := by omega
        have hm := take_boundary_len_mono cs i.toNat b h3'
        have h4 : ¬ (encodeAll (cs.take i.toNat)).length > (encodeAll (cs.take b)).length := by omega
        simp only [h3, h4, if_false, window_boundary cs _ _ h3']
        have hw : Scalars ((cs.drop i.toNat).take (b - i.toNat)) := (hcs.drop _).take _
        have hwl : ((cs.drop i.toNat).take (b - i.toNat)).length = b - i.toNat := by
          rw [List.length_take, List.length_drop]; omega
        cases last
        · simp only [Bool.false_eq_true, if_false]
          rw [indexOf_encodeAll_any _ ps hw hps]
          cases hk : indexOf ((cs.drop i.toNat).take (b - i.toNat)) ps with
          | none => rfl
          | some r =>
            have := indexOf_le _ _ _ hk
            rw [hwl] at this
            simp only [Option.map_some]
            rw [List.take_take, Nat.min_eq_left this, runeIndexVal_boundary cs hcs _ _ (by omega)]
        · simp only [if_true]
          rw [lastIndexOf_encodeAll_any _ ps hw hps]
          cases hk : lastIndexOf ((cs.drop i.toNat).take (b - i.toNat)) ps with
          | none => rfl
          | some r =>
            have := lastIndexOf_le _ _ _ hk
            rw [hwl] at this
            simp only [Option.map_some]
            rw [List.take_take, Nat.min_eq_left this, runeIndexVal_boundary cs hcs _ _ (by omega)]

theorem cpFindBetween_map {f : Nat → Nat} (hf : Inj f) (last : Bool) (cs ps : List Nat) (i j : Int) :
    cpFindBetween last (cs.map f) (ps.map f) i j = cpFindBetween last cs ps i j := by
  unfold cpFindBetween
  simp only [List.length_map, ← List.map_drop, ← List.map_take, indexOf_map hf, lastIndexOf_map hf]

/-- `find_first(s, p, start, finish)` / `find_last(…)`: same window bounds, same answer -/
theorem find_between_rename {f : Nat → Nat} (hf : Inj f) (last : Bool) (cs ps : List Nat) (hcs : Scalars cs)
    (hcs' : Scalars (cs.map f)) (hps : Scalars ps) (hps' : Scalars (ps.map f)) (i j : Int) :
    findBetween last (.str (encodeAll (cs.map f))) (.str (encodeAll (ps.map f))) (.num (.int .i64 i))
        (.num (.int .i64 j))
      = findBetween last (.str (encodeAll cs)) (.str (encodeAll ps)) (.num (.int .i64 i)) (.num (.int .i64 j)) := by
  rw [find_between_codepoints_any last _ _ hcs' hps', find_between_codepoints_any last _ _ hcs hps,
    cpFindBetween_map hf]

/-- find_first("θйμμο", "ο", 0, 5) = find_first("héllo", "o", 0, 5) = 4; with finish 4 (exclusive) both are null -/
example : findFirstBetween (.str [0xCE, 0xB8, 0xD0, 0xB9, 0xCE, 0xBC, 0xCE, 0xBC, 0xCE, 0xBF]) (.str [0xCE, 0xBF])
    (.num (.int .i64 0)) (.num (.int .i64 5)) = .ok (.num (.int .i64 4)) :=
  find_between_rename shift_mono.toInj false hello [0x6F] hello_scalars hello'_scalars (by unfold Scalars; decide)
    (by unfold Scalars; decide) 0 5
example : findFirstBetween (.str [0xCE, 0xB8, 0xD0, 0xB9, 0xCE, 0xBC, 0xCE, 0xBC, 0xCE, 0xBF]) (.str [0xCE, 0xBF])
    (.num (.int .i64 0)) (.num (.int .i64 4)) = .ok .null :=
  find_between_rename shift_mono.toInj false hello [0x6F] hello_scalars hello'_scalars (by unfold Scalars; decide)
    (by unfold Scalars; decide) 0 4

/-! ### 3. `starts_with`, `ends_with`, `contains`: the same boolean -/

theorem starts_with_rename {f : Nat → Nat} (hf : Inj f) (cs ps : List Nat) (hcs : Scalars cs)
    (hcs' : Scalars (cs.map f)) (hps : Scalars ps) (hps' : Scalars (ps.map f)) :
    startsWith (.str (encodeAll (cs.map f))) (.str (encodeAll (ps.map f)))
      = startsWith (.str (encodeAll cs)) (.str (encodeAll ps)) := by
  show Res.ok (Val.bool (hasPrefix _ _)) = Res.ok (Val.bool (hasPrefix _ _))
  unfold hasPrefix
  rw [isPrefixOf_encodeAll _ _ hps' hcs', isPrefixOf_encodeAll _ _ hps hcs, isPrefixOf_map hf]

/-- starts_with("θйμμο", "θй") = starts_with("héllo", "hé") = true -/
example : startsWith (.str [0xCE, 0xB8, 0xD0, 0xB9, 0xCE, 0xBC, 0xCE, 0xBC, 0xCE, 0xBF]) (.str [0xCE, 0xB8, 0xD0, 0xB9])
    = .ok (.bool true) :=
  starts_with_rename shift_mono.toInj hello [0x68, 0xE9] hello_scalars hello'_scalars (by unfold Scalars; decide)
    (by unfold Scalars; decide)

/-- `strings.HasSuffix` as modelled is the suffix relation, on any lists -/
theorem hasSuffix_iff (s p : List Nat) : hasSuffix s p = true ↔ p <:+ s := by
  unfold hasSuffix
  constructor
  · intro h
    simp only [Bool.and_eq_true, decide_eq_true_eq, beq_iff_eq] at h
    have := List.take_append_drop (s.length - p.length) s
    rw [h.2] at this
    exact ⟨_, this⟩
  · rintro ⟨t, rfl⟩
    simp

/-- a valid string that is a byte suffix of a valid string is a code point suffix: the last code points are decoded
    off both (`decodeLastRune_append`) one at a time -/
theorem suffix_rev : ∀ rp rc : List Nat, Scalars rp → Scalars rc →
    encodeAll rp.reverse <:+ encodeAll rc.reverse → rp <+: rc
  | [], _, _, _, _ => List.nil_prefix
  | p :: rp, [], _, _, h => by
    have := List.suffix_nil.1 h
    exact absurd this (encodeAll_reverse_cons_ne_nil p rp)
  | p :: rp, c :: rc, hp, hc, h => by
    obtain ⟨x, hx⟩ := h
    rw [encodeAll_reverse_cons, encodeAll_reverse_cons, ← List.append_assoc] at hx
    have h1 := decodeLastRune_append (x ++ encodeAll rp.reverse) p hp.head
    have h2 := decodeLastRune_append (encodeAll rc.reverse) c hc.head
    rw [hx, h2] at h1
    have e : c = p := congrArg Prod.fst h1
    subst e
    have ih := suffix_rev rp rc hp.tail hc.tail ⟨x, List.append_cancel_right hx⟩
    exact List.cons_prefix_cons.2 ⟨rfl, ih⟩

theorem suffix_encodeAll_iff (ps cs : List Nat) (hps : Scalars ps) (hcs : Scalars cs) :
    encodeAll ps <:+ encodeAll cs ↔ ps <:+ cs := by
  constructor
  · intro h
    have := suffix_rev ps.reverse cs.reverse hps.reverse hcs.reverse (by rwa [List.reverse_reverse, List.reverse_reverse])
    exact List.reverse_prefix.1 this
  · rintro ⟨t, rfl⟩
    exact ⟨encodeAll t, (encodeAll_append _ _).symm⟩

/-- `ends_with` on the bytes is `ends_with` on the code points -/
theorem hasSuffix_encodeAll (cs ps : List Nat) (hcs : Scalars cs) (hps : Scalars ps) :
    hasSuffix (encodeAll cs) (encodeAll ps) = hasSuffix cs ps := by
  rw [Bool.eq_iff_iff, hasSuffix_iff, hasSuffix_iff]
  exact suffix_encodeAll_iff ps cs hps hcs

theorem hasSuffix_map {f : Nat → Nat} (hf : Inj f) (cs ps : List Nat) :
    hasSuffix (cs.map f) (ps.map f) = hasSuffix cs ps := by
  unfold hasSuffix
  rw [List.length_map, List.length_map, ← List.map_drop, list_beq_map hf]

theorem ends_with_rename {f : Nat → Nat} (hf : Inj f) (cs ps : List Nat) (hcs : Scalars cs)
    (hcs' : Scalars (cs.map f)) (hps : Scalars ps) (hps' : Scalars (ps.map f)) :
    endsWith (.str (encodeAll (cs.map f))) (.str (encodeAll (ps.map f)))
      = endsWith (.str (encodeAll cs)) (.str (encodeAll ps)) := by
  show Res.ok (Val.bool (hasSuffix _ _)) = Res.ok (Val.bool (hasSuffix _ _))
  rw [hasSuffix_encodeAll _ _ hcs' hps', hasSuffix_encodeAll _ _ hcs hps, hasSuffix_map hf]

/-- ends_with("θйμμο", "μο") = ends_with("héllo", "lo") = true (the last 4 bytes there, the last 2 here) -/
example : endsWith (.str [0xCE, 0xB8, 0xD0, 0xB9, 0xCE, 0xBC, 0xCE, 0xBC, 0xCE, 0xBF]) (.str [0xCE, 0xBC, 0xCE, 0xBF])
    = .ok (.bool true) :=
  ends_with_rename shift_mono.toInj hello [0x6C, 0x6F] hello_scalars hello'_scalars (by unfold Scalars; decide)
    (by unfold Scalars; decide)

/-- `strings.Contains` is "`strings.Index` finds something", on any lists -/
theorem bytesContains_eq : ∀ (a b : List Nat) (off : Nat), bytesContains a b = (indexOfAux off a b).isSome
  | [], b, off => by
    rw [indexOfAux_eq]; unfold bytesContains; cases b <;> rfl
  | x :: t, b, off => by
    rw [indexOfAux_eq]; unfold bytesContains
    cases h : b.isPrefixOf (x :: t)
    · simp [bytesContains_eq t b (off + 1)]
    · simp

theorem bytesContains_encodeAll (cs ps : List Nat) (hcs : Scalars cs) (hps : Scalars ps) :
    bytesContains (encodeAll cs) (encodeAll ps) = bytesContains cs ps := by
  rw [bytesContains_eq _ _ 0, bytesContains_eq cs ps 0]
  show (indexOf (encodeAll cs) (encodeAll ps)).isSome = (indexOf cs ps).isSome
  rw [indexOf_encodeAll_any cs ps hcs hps]
  cases indexOf cs ps <;> rfl

theorem bytesContains_map {f : Nat → Nat} (hf : Inj f) (cs ps : List Nat) :
    bytesContains (cs.map f) (ps.map f) = bytesContains cs ps := by
  rw [bytesContains_eq _ _ 0, bytesContains_eq cs ps 0, indexOfAux_map hf]

/-- `contains(string, string)` -/
theorem contains_rename {f : Nat → Nat} (hf : Inj f) (cs ps : List Nat) (hcs : Scalars cs)
    (hcs' : Scalars (cs.map f)) (hps : Scalars ps) (hps' : Scalars (ps.map f)) :
    contains (.str (encodeAll (cs.map f))) (.str (encodeAll (ps.map f)))
      = contains (.str (encodeAll cs)) (.str (encodeAll ps)) := by
  show Res.ok (Val.bool (bytesContains _ _)) = Res.ok (Val.bool (bytesContains _ _))
  rw [bytesContains_encodeAll _ _ hcs' hps', bytesContains_encodeAll _ _ hcs hps, bytesContains_map hf]

/-- contains("θйμμο", "йμ") = contains("héllo", "él") = true; the Latin "l" is not in the renamed string -/
example : contains (.str [0xCE, 0xB8, 0xD0, 0xB9, 0xCE, 0xBC, 0xCE, 0xBC, 0xCE, 0xBF]) (.str [0xD0, 0xB9, 0xCE, 0xBC])
    = .ok (.bool true) :=
  contains_rename shift_mono.toInj hello [0xE9, 0x6C] hello_scalars hello'_scalars (by unfold Scalars; decide)
    (by unfold Scalars; decide)
example : contains (.str [0xCE, 0xB8, 0xD0, 0xB9, 0xCE, 0xBC, 0xCE, 0xBC, 0xCE, 0xBF]) (.str [0x6C]) = .ok (.bool false) := by
  rfl

/-! ### 4. `pad_left` / `pad_right` with an explicit pad character -/

theorem padded_map (f : Nat → Nat) (left : Bool) (cs : List Nat) (w : Int) (p : Nat) :
    padded left (cs.map f) w (f p) = (padded left cs w p).map f := by
  unfold padded
  rw [List.length_map]
  cases left <;> simp [List.map_append, List.map_replicate]

/-- padding the renamed string with the renamed pad character to the same width gives the renamed result (the
    width counts code points: the same number of pad characters is added) -/
theorem pad_rename (f : Nat → Nat) (left : Bool) (cs : List Nat) (hcs : Scalars cs) (hcs' : Scalars (cs.map f))
    (p : Nat) (hp : isScalar p = true) (hp' : isScalar (f p) = true) (w : Int) (hw : 0 ≤ w)
    (hlim : w - cs.length ≤ padLimit) (orig : Val) :
    padWith left (encodeAll (cs.map f)) w (encodeRune (f p)) (renV f orig)
      = mapRes (renV f) (padWith left (encodeAll cs) w (encodeRune p) orig) := by
  rw [pad_codepoints left _ hcs' (f p) hp' w hw (by rw [List.length_map]; exact hlim),
    pad_codepoints left cs hcs p hp w hw hlim, List.length_map]
  split
  · rfl
  · rw [mapRes_ok, renV, renB_encodeAll f _ (padded_scalars left cs w p hcs hp), padded_map]

theorem padLeft_rename (f : Nat → Nat) (cs : List Nat) (hcs : Scalars cs) (hcs' : Scalars (cs.map f))
    (p : Nat) (hp : isScalar p = true) (hp' : isScalar (f p) = true) (w : Int) (hw : 0 ≤ w)
    (hlim : w - cs.length ≤ padLimit) :
    padLeft (.str (encodeAll (cs.map f))) (.num (.int .i64 w)) (.str (encodeRune (f p)))
      = mapRes (renV f) (padLeft (.str (encodeAll cs)) (.num (.int .i64 w)) (.str (encodeRune p))) := by
  have := pad_rename f true cs hcs hcs' p hp hp' w hw hlim (.str (encodeAll cs))
  rw [renV, renB_encodeAll f cs hcs] at this
  exact this

theorem padRight_rename (f : Nat → Nat) (cs : List Nat) (hcs : Scalars cs) (hcs' : Scalars (cs.map f))
    (p : Nat) (hp : isScalar p = true) (hp' : isScalar (f p) = true) (w : Int) (hw : 0 ≤ w)
    (hlim : w - cs.length ≤ padLimit) :
    padRight (.str (encodeAll (cs.map f))) (.num (.int .i64 w)) (.str (encodeRune (f p)))
      = mapRes (renV f) (padRight (.str (encodeAll cs)) (.num (.int .i64 w)) (.str (encodeRune p))) := by
  have := pad_rename f false cs hcs hcs' p hp hp' w hw hlim (.str (encodeAll cs))
  rw [renV, renB_encodeAll f cs hcs] at this
  exact this

/-- pad_left("θйμμο", 7, "й") = "ййθйμμο" = renamed pad_left("héllo", 7, "é"): two pad characters in both -/
example : padLeft (.str [0xCE, 0xB8, 0xD0, 0xB9, 0xCE, 0xBC, 0xCE, 0xBC, 0xCE, 0xBF]) (.num (.int .i64 7)) (.str [0xD0, 0xB9])
    = .ok (.str [0xD0, 0xB9, 0xD0, 0xB9, 0xCE, 0xB8, 0xD0, 0xB9, 0xCE, 0xBC, 0xCE, 0xBC, 0xCE, 0xBF]) :=
  padLeft_rename shift hello hello_scalars hello'_scalars 0xE9 (by decide) (by decide) 7 (by decide) (by decide)
/-- pad_right("θйμμο", 5, "κ") is unchanged although the string has 10 bytes -/
example : padRight (.str [0xCE, 0xB8, 0xD0, 0xB9, 0xCE, 0xBC, 0xCE, 0xBC, 0xCE, 0xBF]) (.num (.int .i64 5)) (.str [0xCE, 0xBA])
    = .ok (.str [0xCE, 0xB8, 0xD0, 0xB9, 0xCE, 0xBC, 0xCE, 0xBC, 0xCE, 0xBF]) :=
  padRight_rename shift hello hello_scalars hello'_scalars 0x6A (by decide) (by decide) 5 (by decide) (by decide)

/-! ### 5. `split` on the empty separator -/

theorem renV_strsToArr (f : Nat → Nat) (ss : List Bytes) : renV f (strsToArr ss) = strsToArr (ss.map (renB f)) :=
  renV_strs f .plain ss

theorem map_renB_encodeRune (f : Nat → Nat) (cs : List Nat) (h : Scalars cs) :
    (cs.map encodeRune).map (renB f) = (cs.map f).map encodeRune := by
  rw [List.map_map, List.map_map]
  apply List.map_congr_left
  intro c hc
  exact renB_encodeRune f c (h c hc)

/-- `split(s, '')`: one piece per code point, each renamed -/
theorem split_empty_sep_rename (f : Nat → Nat) (cs : List Nat) (hcs : Scalars cs) (hcs' : Scalars (cs.map f)) :
    split (.str (encodeAll (cs.map f))) (.str []) = mapRes (renV f) (split (.str (encodeAll cs)) (.str [])) := by
  by_cases hne : cs = []
  · subst hne; rfl
  · rw [split_empty_sep_codepoints _ hcs' (map_ne_nil hne), split_empty_sep_codepoints cs hcs hne, mapRes_ok]
    have e : ∀ l : List Nat, Val.arr .plain (l.map (fun c => Val.str (encodeRune c))) = strsToArr (l.map encodeRune) := by
      intro l; unfold strsToArr; rw [List.map_map]; rfl
    rw [e, e, renV_strsToArr, map_renB_encodeRune f cs hcs]

/-- split("θйμμο", "") = ["θ", "й", "μ", "μ", "ο"] -/
example : split (.str [0xCE, 0xB8, 0xD0, 0xB9, 0xCE, 0xBC, 0xCE, 0xBC, 0xCE, 0xBF]) (.str []) =
    .ok (.arr .plain [.str [0xCE, 0xB8], .str [0xD0, 0xB9], .str [0xCE, 0xBC], .str [0xCE, 0xBC], .str [0xCE, 0xBF]]) :=
  split_empty_sep_rename shift hello hello_scalars hello'_scalars

/-- `split(s, '', n)`: the same number of cuts, the remainder kept whole -/
theorem split_count_empty_sep_rename (f : Nat → Nat) (cs : List Nat) (hcs : Scalars cs) (hcs' : Scalars (cs.map f))
    (hne : cs ≠ []) (n : Int) (hn : 0 < n) :
    splitCount (.str (encodeAll (cs.map f))) (.str []) (.num (.int .i64 n))
      = mapRes (renV f) (splitCount (.str (encodeAll cs)) (.str []) (.num (.int .i64 n))) := by
  rw [split_count_empty_sep_codepoints _ hcs' (map_ne_nil hne) n hn,
    split_count_empty_sep_codepoints cs hcs hne n hn, mapRes_ok, renV_strsToArr, List.length_map]
  split
  · rw [map_renB_encodeRune f cs hcs]
  · rw [List.map_append, ← List.map_take, map_renB_encodeRune f _ (hcs.take _), List.map_cons, List.map_nil,
      renB_encodeAll f _ (hcs.drop _), List.map_drop]

/-- split("θйμμο", "", 2) = ["θ", "й", "μμο"] -/
example : splitCount (.str [0xCE, 0xB8, 0xD0, 0xB9, 0xCE, 0xBC, 0xCE, 0xBC, 0xCE, 0xBF]) (.str []) (.num (.int .i64 2)) =
    .ok (.arr .plain [.str [0xCE, 0xB8], .str [0xD0, 0xB9], .str [0xCE, 0xBC, 0xCE, 0xBC, 0xCE, 0xBF]]) :=
  split_count_empty_sep_rename shift hello hello_scalars hello'_scalars (by decide) 2 (by decide)

/-! ### 7. ordering: a strictly monotone renaming preserves the order of strings -/

theorem cpLt_map {f : Nat → Nat} (hm : Mono f) : ∀ as bs : List Nat, cpLt (as.map f) (bs.map f) = cpLt as bs
  | [], [] => rfl
  | [], _ :: _ => rfl
  | _ :: _, [] => rfl
  | a :: as, b :: bs => by
    simp only [List.map_cons, cpLt]
    rw [cpLt_map hm as bs]
    by_cases h1 : a < b
    · have := hm a b h1; simp [h1, this]
    · by_cases h2 : b < a
      · have := hm b a h2
        have h3 : ¬ f a < f b := by omega
        simp [h1, h2, this, h3]
      · have : a = b := by omega
        subst this; simp

/-- Go's `<` on the renamed strings is Go's `<` on the original strings -/
theorem bytesLt_rename {f : Nat → Nat} (hm : Mono f) (as bs : List Nat) (ha : Scalars as) (ha' : Scalars (as.map f))
    (hb : Scalars bs) (hb' : Scalars (bs.map f)) :
    bytesLt (encodeAll (as.map f)) (encodeAll (bs.map f)) = bytesLt (encodeAll as) (encodeAll bs) := by
  rw [bytesLt_encodeAll _ _ ha' hb', bytesLt_encodeAll _ _ ha hb, cpLt_map hm]

/-- "z" < "é" and, renamed, "ϊ" (CF 8A) < "й" (D0 B9); "é" < "z" is false in both -/
example : bytesLt [0xCF, 0x8A] [0xD0, 0xB9] = bytesLt [0x7A] [0xC3, 0xA9] :=
  bytesLt_rename shift_mono [0x7A] [0xE9] (by unfold Scalars; decide) (by unfold Scalars; decide)
    (by unfold Scalars; decide) (by unfold Scalars; decide)
/-- monotonicity is needed: swapping `a` and `b` is injective but reverses "a" < "b" -/
example : bytesLt (encodeAll ([0x61].map (fun c => if c = 0x61 then 0x62 else if c = 0x62 then 0x61 else c)))
      (encodeAll ([0x62].map (fun c => if c = 0x61 then 0x62 else if c = 0x62 then 0x61 else c))) = false
    ∧ bytesLt (encodeAll [0x61]) (encodeAll [0x62]) = true := by decide

/-- a valid UTF-8 string whose renamed code points are scalar values -/
def Renamable (f : Nat → Nat) (s : Bytes) : Prop := ∃ cs, Scalars cs ∧ Scalars (cs.map f) ∧ s = encodeAll cs

theorem Renamable.mk {f : Nat → Nat} {cs : List Nat} (h : Scalars cs) (h' : Scalars (cs.map f)) :
    Renamable f (encodeAll cs) := ⟨cs, h, h', rfl⟩

theorem bytesLt_renB {f : Nat → Nat} (hm : Mono f) {a b : Bytes} (ha : Renamable f a) (hb : Renamable f b) :
    bytesLt (renB f a) (renB f b) = bytesLt a b := by
  obtain ⟨as, h1, h2, rfl⟩ := ha
  obtain ⟨bs, h3, h4, rfl⟩ := hb
  rw [renB_encodeAll f _ h1, renB_encodeAll f _ h3, bytesLt_rename hm as bs h1 h2 h3 h4]

/-- the scan of `max()` over strings picks the corresponding element -/
theorem maxStr_rename {f : Nat → Nat} (hm : Mono f) : ∀ (ss : List Bytes) (m : Bytes), Renamable f m →
    (∀ s ∈ ss, Renamable f s) → maxStr (renB f m) (ss.map (renB f)) = renB f (maxStr m ss)
  | [], _, _, _ => rfl
  | s :: rest, m, hmr, h => by
    have hs := h s List.mem_cons_self
    have hr : ∀ x ∈ rest, Renamable f x := fun x hx => h x (List.mem_cons_of_mem _ hx)
    rw [List.map_cons, maxStr, maxStr, bytesLt_renB hm hmr hs]
    split
    · exact maxStr_rename hm rest s hs hr
    · exact maxStr_rename hm rest m hmr hr

theorem minStr_rename {f : Nat → Nat} (hm : Mono f) : ∀ (ss : List Bytes) (m : Bytes), Renamable f m →
    (∀ s ∈ ss, Renamable f s) → minStr (renB f m) (ss.map (renB f)) = renB f (minStr m ss)
  | [], _, _, _ => rfl
  | s :: rest, m, hmr, h => by
    have hs := h s List.mem_cons_self
    have hr : ∀ x ∈ rest, Renamable f x := fun x hx => h x (List.mem_cons_of_mem _ hx)
    rw [List.map_cons, minStr, minStr, bytesLt_renB hm hs hmr]
    split
    · exact minStr_rename hm rest s hs hr
    · exact minStr_rename hm rest m hmr hr

theorem allStrings_strs : ∀ ss : List Bytes, allStrings (ss.map Val.str) = some ss
  | [] => rfl
  | s :: rest => by rw [List.map_cons, allStrings, allStrings_strs rest]; rfl

/-- `max()` of an array of strings: the renamed array has the renamed maximum -/
theorem arrayMax_rename {f : Nat → Nat} (hm : Mono f) (t : ATag) (ss : List Bytes) (h : ∀ s ∈ ss, Renamable f s) :
    arrayMax (.arr t ((ss.map (renB f)).map Val.str)) = mapRes (renV f) (arrayMax (.arr t (ss.map Val.str))) := by
  cases ss with
  | nil => rfl
  | cons s rest =>
    simp only [List.map_cons, arrayMax, allStrings_strs, mapRes_ok, renV]
    rw [maxStr_rename hm rest s (h s List.mem_cons_self) (fun x hx => h x (List.mem_cons_of_mem _ hx))]

/-- `min()` likewise -/
theorem arrayMin_rename {f : Nat → Nat} (hm : Mono f) (t : ATag) (ss : List Bytes) (h : ∀ s ∈ ss, Renamable f s) :
    arrayMin (.arr t ((ss.map (renB f)).map Val.str)) = mapRes (renV f) (arrayMin (.arr t (ss.map Val.str))) := by
  cases ss with
  | nil => rfl
  | cons s rest =>
    simp only [List.map_cons, arrayMin, allStrings_strs, mapRes_ok, renV]
    rw [minStr_rename hm rest s (h s List.mem_cons_self) (fun x hx => h x (List.mem_cons_of_mem _ hx))]

theorem renamable_hello : Renamable shift [0x68, 0xC3, 0xA9, 0x6C, 0x6C, 0x6F] := Renamable.mk hello_scalars hello'_scalars
theorem renamable_hello_ascii : Renamable shift [0x68, 0x65, 0x6C, 0x6C, 0x6F] :=
  Renamable.mk (cs := [0x68, 0x65, 0x6C, 0x6C, 0x6F]) (by unfold Scalars; decide) (by unfold Scalars; decide)

/-- max(["hello", "héllo"]) = "héllo" and max(["θεμμο", "θйμμο"]) = "θйμμο" -/
example : arrayMax (.arr .plain [.str [0xCE, 0xB8, 0xCE, 0xB5, 0xCE, 0xBC, 0xCE, 0xBC, 0xCE, 0xBF],
      .str [0xCE, 0xB8, 0xD0, 0xB9, 0xCE, 0xBC, 0xCE, 0xBC, 0xCE, 0xBF]])
    = .ok (.str [0xCE, 0xB8, 0xD0, 0xB9, 0xCE, 0xBC, 0xCE, 0xBC, 0xCE, 0xBF]) :=
  arrayMax_rename shift_mono .plain [[0x68, 0x65, 0x6C, 0x6C, 0x6F], [0x68, 0xC3, 0xA9, 0x6C, 0x6C, 0x6F]] (by
    intro s hs
    rcases List.mem_cons.1 hs with rfl | hs
    · exact renamable_hello_ascii
    · rcases List.mem_cons.1 hs with rfl | hs
      · exact renamable_hello
      · cases hs)

/-- `sort()` of an array of strings: the renamed array sorts to the renamed sorted array (the same permutation) -/
theorem sortArray_rename {f : Nat → Nat} (hm : Mono f) (t : ATag) (ss : List Bytes) (h : ∀ s ∈ ss, Renamable f s) :
    sortArray (.arr t ((ss.map (renB f)).map Val.str)) = mapRes (renV f) (sortArray (.arr t (ss.map Val.str))) := by
  cases ss with
  | nil => rfl
  | cons s rest =>
    have e1 : sortArray (.arr t (((s :: rest).map (renB f)).map Val.str))
        = .ok (.arr .plain ((((s :: rest).map (renB f)).mergeSort (fun a b => !bytesLt b a)).map Val.str)) := by
      simp only [List.map_cons, sortArray]
      rw [← List.map_cons (f := Val.str), ← List.map_cons (f := renB f), allStrings_strs]
    have e2 : sortArray (.arr t ((s :: rest).map Val.str))
        = .ok (.arr .plain (((s :: rest).mergeSort (fun a b => !bytesLt b a)).map Val.str)) := by
      simp only [List.map_cons, sortArray]
      rw [← List.map_cons (f := Val.str), allStrings_strs]
    rw [e1, e2, mapRes_ok, renV_strs]
    congr 3
    symm
    apply List.map_mergeSort
    intro a ha b hb
    rw [bytesLt_renB hm (h b hb) (h a ha)]

/-- sort(["z", "é", "a"]) = ["a", "z", "é"] and sort(["ϊ", "й", "α"]) = ["α", "ϊ", "й"] -/
example : sortArray (.arr .plain [.str [0xCF, 0x8A], .str [0xD0, 0xB9], .str [0xCE, 0xB1]])
    = .ok (.arr .plain [.str [0xCE, 0xB1], .str [0xCF, 0x8A], .str [0xD0, 0xB9]]) := by
  have := sortArray_rename shift_mono .plain [[0x7A], [0xC3, 0xA9], [0x61]] (by
    intro s hs
    rcases List.mem_cons.1 hs with rfl | hs
    · exact Renamable.mk (cs := [0x7A]) (by unfold Scalars; decide) (by unfold Scalars; decide)
    · rcases List.mem_cons.1 hs with rfl | hs
      · exact Renamable.mk (cs := [0xE9]) (by unfold Scalars; decide) (by unfold Scalars; decide)
      · rcases List.mem_cons.1 hs with rfl | hs
        · exact Renamable.mk (cs := [0x61]) (by unfold Scalars; decide) (by unfold Scalars; decide)
        · cases hs)
  have e : sortArray (.arr .plain ([[0x7A], [0xC3, 0xA9], [0x61]].map Val.str))
      = .ok (.arr .plain [.str [0x61], .str [0x7A], .str [0xC3, 0xA9]]) := by
    simp [sortArray, allStrings, List.mergeSort, bytesLt]
  rw [e] at this
  exact this

/-! ### 6. `split` on a separator, `trim` with a cutset, `replace`, `join`

  First the element-polymorphic list functions of the model commute with an injective renaming; then, through the
  code point characterisations of `Jmes.C11S`, so do the functions on strings. -/

theorem splitAux_map {f : Nat → Nat} (hf : Inj f) (p : List Nat) :
    ∀ (fuel : Nat) (s : List Nat) (n : Option Nat) (cur : List Nat),
      splitAux fuel (s.map f) (p.map f) n (cur.map f) = (splitAux fuel s p n cur).map (List.map f)
  | 0, s, n, cur => by rw [splitAux_zero, splitAux_zero, ← List.map_append]; rfl
  | fuel + 1, s, n, cur => by
    by_cases hn : n = some 0
    · subst hn; rw [splitAux_stop, splitAux_stop, ← List.map_append]; rfl
    · cases s with
      | nil => rw [List.map_nil, splitAux_nil _ _ _ _ hn, splitAux_nil _ _ _ _ hn]; rfl
      | cons b t =>
        cases hp : p.isPrefixOf (b :: t)
        · have hp' : (p.map f).isPrefixOf ((b :: t).map f) = false := by rw [isPrefixOf_map hf, hp]
          rw [List.map_cons] at hp' ⊢
          rw [splitAux_miss _ _ _ _ _ _ hn hp', splitAux_miss _ _ _ _ _ _ hn hp]
          have := splitAux_map hf p fuel t n (cur ++ [b])
          rw [List.map_append] at this
          exact this
        · have hp' : (p.map f).isPrefixOf ((b :: t).map f) = true := by rw [isPrefixOf_map hf, hp]
          rw [splitAux_hit _ _ _ _ _ hn (by simp) hp', splitAux_hit _ _ _ _ _ hn (by simp) hp, List.length_map,
            ← List.map_drop]
          have := splitAux_map hf p fuel ((b :: t).drop p.length) (n.map (· - 1)) []
          rw [List.map_nil] at this
          rw [this]; rfl

/-- splitting the renamed code points on the renamed separator gives the renamed pieces -/
theorem splitOn_map {f : Nat → Nat} (hf : Inj f) (s p : List Nat) (n : Option Nat) :
    splitOn (s.map f) (p.map f) n = (splitOn s p n).map (List.map f) := by
  unfold splitOn
  rw [List.length_map]
  exact splitAux_map hf p _ s n []

theorem replaceAux_map {f : Nat → Nat} (hf : Inj f) (old new : List Nat) :
    ∀ (fuel : Nat) (s : List Nat) (n : Option Nat),
      replaceAux fuel (s.map f) (old.map f) (new.map f) n = (replaceAux fuel s old new n).map f
  | 0, s, n => rfl
  | fuel + 1, s, n => by
    by_cases hn : n = some 0
    · subst hn; rw [replaceAux_stop, replaceAux_stop]
    · cases s with
      | nil => rw [List.map_nil, replaceAux_nil, replaceAux_nil]; rfl
      | cons b t =>
        cases hp : old.isPrefixOf (b :: t)
        · have hp' : (old.map f).isPrefixOf ((b :: t).map f) = false := by rw [isPrefixOf_map hf, hp]
          rw [List.map_cons] at hp' ⊢
          rw [replaceAux_miss _ _ _ _ _ _ hn hp', replaceAux_miss _ _ _ _ _ _ hn hp, List.map_cons,
            replaceAux_map hf old new fuel t n]
        · have hp' : (old.map f).isPrefixOf ((b :: t).map f) = true := by rw [isPrefixOf_map hf, hp]
          rw [replaceAux_hit _ _ _ _ _ hn (by simp) hp', replaceAux_hit _ _ _ _ _ hn (by simp) hp, List.length_map,
            ← List.map_drop, replaceAux_map hf old new fuel _ _, List.map_append]

theorem concat_map (f : Nat → Nat) : ∀ ps : List (List Nat),
    (ps.map (List.map f)).foldr (· ++ ·) [] = (ps.foldr (· ++ ·) []).map f
  | [] => rfl
  | p :: ps => by rw [List.map_cons, List.foldr_cons, List.foldr_cons, concat_map f ps, List.map_append]

theorem replaceEmptyAux_map (f : Nat → Nat) (new : List Nat) : ∀ (ps : List (List Nat)) (n : Option Nat),
    replaceEmptyAux (ps.map (List.map f)) (new.map f) n = (replaceEmptyAux ps new n).map f
  | [], n => by
    simp only [List.map_nil, replaceEmptyAux]
    split <;> rfl
  | p :: ps, n => by
    simp only [List.map_cons, replaceEmptyAux]
    split
    · rw [concat_map, List.map_append]
    · rw [replaceEmptyAux_map f new ps, List.map_append, List.map_append]

/-- `strings.Replace` on code points commutes with the renaming of subject, `old` and `new` -/
theorem cpReplace_map {f : Nat → Nat} (hf : Inj f) (cs os ns : List Nat) (n : Option Nat) :
    cpReplace (cs.map f) (os.map f) (ns.map f) n = (cpReplace cs os ns n).map f := by
  unfold cpReplace
  cases os with
  | nil =>
    simp only [List.map_nil, List.isEmpty_nil, if_true]
    have : (cs.map f).map (fun c => [c]) = (cs.map (fun c => [c])).map (List.map f) := by
      rw [List.map_map, List.map_map]; rfl
    rw [this, replaceEmptyAux_map]
  | cons o os =>
    simp only [List.map_cons, List.isEmpty_cons, Bool.false_eq_true, if_false, List.length_map]
    exact replaceAux_map hf (o :: os) ns _ cs n

theorem joinStrs_map (f : Nat → Nat) (sep : List Nat) : ∀ ss : List (List Nat),
    joinStrs (sep.map f) (ss.map (List.map f)) = (joinStrs sep ss).map f
  | [] => rfl
  | [s] => rfl
  | s :: t :: rest => by
    rw [List.map_cons, List.map_cons, joinStrs_cons_cons, joinStrs_cons_cons, ← List.map_cons (f := List.map f),
      joinStrs_map f sep (t :: rest), List.map_append, List.map_append]

theorem contains_map {f : Nat → Nat} (hf : Inj f) (cut : List Nat) (c : Nat) :
    (cut.map f).contains (f c) = cut.contains c := by
  induction cut with
  | nil => rfl
  | cons a t ih => rw [List.map_cons, List.contains_cons, List.contains_cons, ih, beq_map hf]

theorem dropWhile_map (f : Nat → Nat) (p q : Nat → Bool) (h : ∀ c, q (f c) = p c) :
    ∀ cs : List Nat, (cs.map f).dropWhile q = (cs.dropWhile p).map f
  | [] => rfl
  | c :: cs => by
    rw [List.map_cons, List.dropWhile_cons, List.dropWhile_cons, h c]
    split
    · exact dropWhile_map f p q h cs
    · rfl

/-! #### `split(s, sep)` with a non-empty separator -/

theorem split_str (s p : Bytes) : split (.str s) (.str p) =
    if s.isEmpty then .ok (.arr .plain [])
    else if p.isEmpty then .ok (strsToArr (splitRunes s none))
    else .ok (strsToArr (splitOn s p none)) := rfl

/-- `split` on a non-empty separator acts on code points -/
theorem split_sep_codepoints (cs ps : List Nat) (hcs : Scalars cs) (hps : Scalars ps) (hc : cs ≠ []) (hp : ps ≠ []) :
    split (.str (encodeAll cs)) (.str (encodeAll ps)) = .ok (strsToArr ((splitOn cs ps none).map encodeAll)) := by
  rw [split_str, isEmpty_encodeAll cs hc, isEmpty_encodeAll ps hp, splitOn_encodeAll cs ps hcs hps hp]
  rfl

theorem map_renB_encodeAll (f : Nat → Nat) (l : List (List Nat)) (h : ∀ o ∈ l, Scalars o) :
    (l.map encodeAll).map (renB f) = (l.map (List.map f)).map encodeAll := by
  rw [List.map_map, List.map_map]
  apply List.map_congr_left
  intro o ho
  exact renB_encodeAll f o (h o ho)

/-- `split(s, sep)` for every subject and every separator (empty ones included): the pieces are renamed, their
    number and order unchanged -/
theorem split_rename {f : Nat → Nat} (hf : Inj f) (cs ps : List Nat) (hcs : Scalars cs) (hcs' : Scalars (cs.map f))
    (hps : Scalars ps) (hps' : Scalars (ps.map f)) :
    split (.str (encodeAll (cs.map f))) (.str (encodeAll (ps.map f)))
      = mapRes (renV f) (split (.str (encodeAll cs)) (.str (encodeAll ps))) := by
  by_cases hc : cs = []
  · subst hc; rfl
  · by_cases hp : ps = []
    · subst hp; exact split_empty_sep_rename f cs hcs hcs'
    · rw [split_sep_codepoints _ _ hcs' hps' (map_ne_nil hc) (map_ne_nil hp), split_sep_codepoints _ _ hcs hps hc hp,
        mapRes_ok, renV_strsToArr, map_renB_encodeAll f _ (splitOn_scalars cs ps hcs none), splitOn_map hf]

/-- split("θйμμο", "μ") = ["θй", "", "ο"] = renamed split("héllo", "l") = ["hé", "", "o"] -/
example : split (.str [0xCE, 0xB8, 0xD0, 0xB9, 0xCE, 0xBC, 0xCE, 0xBC, 0xCE, 0xBF]) (.str [0xCE, 0xBC])
    = .ok (.arr .plain [.str [0xCE, 0xB8, 0xD0, 0xB9], .str [], .str [0xCE, 0xBF]]) :=
  split_rename shift_mono.toInj hello [0x6C] hello_scalars hello'_scalars (by unfold Scalars; decide)
    (by unfold Scalars; decide)

theorem splitCount_str (s p : Bytes) (n : Int) : splitCount (.str s) (.str p) (.num (.int .i64 n)) =
    if n < 0 then errValue
    else if n = 0 then .ok (.arr .plain [.str s])
    else if s.isEmpty then .ok (.arr .plain [])
    else if p.isEmpty then .ok (strsToArr (splitRunes s (some n.toNat)))
    else .ok (strsToArr (splitOn s p (some n.toNat))) := rfl

/-- `split(s, sep, n)` for every subject, separator and count -/
theorem split_count_rename {f : Nat → Nat} (hf : Inj f) (cs ps : List Nat) (hcs : Scalars cs)
    (hcs' : Scalars (cs.map f)) (hps : Scalars ps) (hps' : Scalars (ps.map f)) (n : Int) :
    splitCount (.str (encodeAll (cs.map f))) (.str (encodeAll (ps.map f))) (.num (.int .i64 n))
      = mapRes (renV f) (splitCount (.str (encodeAll cs)) (.str (encodeAll ps)) (.num (.int .i64 n))) := by
  by_cases h1 : n < 0
  · rw [splitCount_str, splitCount_str, if_pos h1, if_pos h1]; rfl
  · by_cases h2 : n = 0
    · rw [splitCount_str, splitCount_str, if_neg h1, if_neg h1, if_pos h2, if_pos h2, mapRes_ok, renV, renVL, renVL,
        renV, renB_encodeAll f cs hcs]
    · by_cases hc : cs = []
      · subst hc
        rw [splitCount_str, splitCount_str, if_neg h1, if_neg h1, if_neg h2, if_neg h2]; rfl
      · by_cases hp : ps = []
        · subst hp; exact split_count_empty_sep_rename f cs hcs hcs' hc n (by omega)
        · rw [splitCount_str, splitCount_str, if_neg h1, if_neg h1, if_neg h2, if_neg h2,
            isEmpty_encodeAll _ (map_ne_nil (f := f) hc), isEmpty_encodeAll _ (map_ne_nil (f := f) hp),
            isEmpty_encodeAll cs hc, isEmpty_encodeAll ps hp]
          simp only [Bool.false_eq_true, if_false]
          rw [splitOn_encodeAll _ _ hcs' hps' (map_ne_nil hp), splitOn_encodeAll cs ps hcs hps hp, mapRes_ok,
            renV_strsToArr, map_renB_encodeAll f _ (splitOn_scalars cs ps hcs _), splitOn_map hf]

/-- split("θйμμο", "μ", 1) = ["θй", "μο"] -/
example : splitCount (.str [0xCE, 0xB8, 0xD0, 0xB9, 0xCE, 0xBC, 0xCE, 0xBC, 0xCE, 0xBF]) (.str [0xCE, 0xBC]) (.num (.int .i64 1))
    = .ok (.arr .plain [.str [0xCE, 0xB8, 0xD0, 0xB9], .str [0xCE, 0xBC, 0xCE, 0xBF]]) :=
  split_count_rename shift_mono.toInj hello [0x6C] hello_scalars hello'_scalars (by unfold Scalars; decide)
    (by unfold Scalars; decide) 1

/-! #### `trim`, `trim_left`, `trim_right` with an explicit cutset -/

/-- code point level `trim_left(s, cut)` / `trim_right(s, cut)` -/
def cpTrimLeft (cut cs : List Nat) : List Nat := cs.dropWhile cut.contains
def cpTrimRight (cut cs : List Nat) : List Nat := (cs.reverse.dropWhile cut.contains).reverse

theorem inCutset_eq (cut : List Nat) (h : Scalars cut) : inCutset (encodeAll cut) = cut.contains :=
  funext (inCutset_encodeAll cut h)

theorem cpTrimLeft_scalars (cut : List Nat) {cs : List Nat} (h : Scalars cs) : Scalars (cpTrimLeft cut cs) :=
  scalars_dropWhile _ h
theorem cpTrimRight_scalars (cut : List Nat) {cs : List Nat} (h : Scalars cs) : Scalars (cpTrimRight cut cs) :=
  (scalars_dropWhile _ h.reverse).reverse

theorem cpTrimLeft_map {f : Nat → Nat} (hf : Inj f) (cut cs : List Nat) :
    cpTrimLeft (cut.map f) (cs.map f) = (cpTrimLeft cut cs).map f :=
  dropWhile_map f _ _ (contains_map hf cut) cs
theorem cpTrimRight_map {f : Nat → Nat} (hf : Inj f) (cut cs : List Nat) :
    cpTrimRight (cut.map f) (cs.map f) = (cpTrimRight cut cs).map f := by
  unfold cpTrimRight
  rw [← List.map_reverse, dropWhile_map f _ _ (contains_map hf cut), List.map_reverse]

theorem trimLeft_codepoints (cs cut : List Nat) (hcs : Scalars cs) (hcut : Scalars cut) (hne : cut ≠ []) :
    trimLeft (.str (encodeAll cs)) (.str (encodeAll cut)) = .ok (.str (encodeAll (cpTrimLeft cut cs))) := by
  show (if (encodeAll cut).isEmpty then _ else _) = _
  rw [isEmpty_encodeAll cut hne, inCutset_eq cut hcut]
  simp only [Bool.false_eq_true, if_false]
  show Res.ok (Val.str (trimLeftF _ _)) = _
  rw [trimLeftF_encodeAll _ cs hcs]; rfl

theorem trimRight_codepoints (cs cut : List Nat) (hcs : Scalars cs) (hcut : Scalars cut) (hne : cut ≠ []) :
    trimRight (.str (encodeAll cs)) (.str (encodeAll cut)) = .ok (.str (encodeAll (cpTrimRight cut cs))) := by
  show (if (encodeAll cut).isEmpty then _ else _) = _
  rw [isEmpty_encodeAll cut hne, inCutset_eq cut hcut]
  simp only [Bool.false_eq_true, if_false]
  show Res.ok (Val.str (trimRightF _ _)) = _
  rw [trimRightF_encodeAll _ cs hcs]; rfl

theorem trim_codepoints (cs cut : List Nat) (hcs : Scalars cs) (hcut : Scalars cut) (hne : cut ≠ []) :
    trim (.str (encodeAll cs)) (.str (encodeAll cut))
      = .ok (.str (encodeAll (cpTrimRight cut (cpTrimLeft cut cs)))) := by
  show (if (encodeAll cut).isEmpty then _ else _) = _
  rw [isEmpty_encodeAll cut hne, inCutset_eq cut hcut]
  simp only [Bool.false_eq_true, if_false]
  show Res.ok (Val.str (trimRightF _ (trimLeftF _ _))) = _
  rw [trimLeftF_encodeAll _ cs hcs, trimRightF_encodeAll _ _ (scalars_dropWhile _ hcs)]; rfl

/-- `trim_left(s, cut)` with a non-empty cutset: subject and cutset renamed, result renamed -/
theorem trimLeft_rename {f : Nat → Nat} (hf : Inj f) (cs cut : List Nat) (hcs : Scalars cs)
    (hcs' : Scalars (cs.map f)) (hcut : Scalars cut) (hcut' : Scalars (cut.map f)) (hne : cut ≠ []) :
    trimLeft (.str (encodeAll (cs.map f))) (.str (encodeAll (cut.map f)))
      = mapRes (renV f) (trimLeft (.str (encodeAll cs)) (.str (encodeAll cut))) := by
  rw [trimLeft_codepoints _ _ hcs' hcut' (map_ne_nil hne), trimLeft_codepoints _ _ hcs hcut hne, mapRes_ok, renV,
    renB_encodeAll f _ (cpTrimLeft_scalars cut hcs), cpTrimLeft_map hf]

theorem trimRight_rename {f : Nat → Nat} (hf : Inj f) (cs cut : List Nat) (hcs : Scalars cs)
    (hcs' : Scalars (cs.map f)) (hcut : Scalars cut) (hcut' : Scalars (cut.map f)) (hne : cut ≠ []) :
    trimRight (.str (encodeAll (cs.map f))) (.str (encodeAll (cut.map f)))
      = mapRes (renV f) (trimRight (.str (encodeAll cs)) (.str (encodeAll cut))) := by
  rw [trimRight_codepoints _ _ hcs' hcut' (map_ne_nil hne), trimRight_codepoints _ _ hcs hcut hne, mapRes_ok, renV,
    renB_encodeAll f _ (cpTrimRight_scalars cut hcs), cpTrimRight_map hf]

theorem trim_rename {f : Nat → Nat} (hf : Inj f) (cs cut : List Nat) (hcs : Scalars cs)
    (hcs' : Scalars (cs.map f)) (hcut : Scalars cut) (hcut' : Scalars (cut.map f)) (hne : cut ≠ []) :
    trim (.str (encodeAll (cs.map f))) (.str (encodeAll (cut.map f)))
      = mapRes (renV f) (trim (.str (encodeAll cs)) (.str (encodeAll cut))) := by
  rw [trim_codepoints _ _ hcs' hcut' (map_ne_nil hne), trim_codepoints _ _ hcs hcut hne, mapRes_ok, renV,
    renB_encodeAll f _ (cpTrimRight_scalars cut (cpTrimLeft_scalars cut hcs)), cpTrimLeft_map hf, cpTrimRight_map hf]

/-- trim("θйμμο", "οθ") = "йμμ" = renamed trim("héllo", "oh") = "éll" -/
example : trim (.str [0xCE, 0xB8, 0xD0, 0xB9, 0xCE, 0xBC, 0xCE, 0xBC, 0xCE, 0xBF]) (.str [0xCE, 0xBF, 0xCE, 0xB8])
    = .ok (.str [0xD0, 0xB9, 0xCE, 0xBC, 0xCE, 0xBC]) :=
  trim_rename shift_mono.toInj hello [0x6F, 0x68] hello_scalars hello'_scalars (by unfold Scalars; decide)
    (by unfold Scalars; decide) (by decide)
/-- trim_left("θйμμο", "йθ") = "μμο" -/
example : trimLeft (.str [0xCE, 0xB8, 0xD0, 0xB9, 0xCE, 0xBC, 0xCE, 0xBC, 0xCE, 0xBF]) (.str [0xD0, 0xB9, 0xCE, 0xB8])
    = .ok (.str [0xCE, 0xBC, 0xCE, 0xBC, 0xCE, 0xBF]) :=
  trimLeft_rename shift_mono.toInj hello [0xE9, 0x68] hello_scalars hello'_scalars (by unfold Scalars; decide)
    (by unfold Scalars; decide) (by decide)

/-! #### `replace` -/

theorem replace_codepoints (cs os ns : List Nat) (hcs : Scalars cs) (hos : Scalars os) (hns : Scalars ns) :
    replace (.str (encodeAll cs)) (.str (encodeAll os)) (.str (encodeAll ns))
      = .ok (.str (encodeAll (cpReplace cs os ns none))) := by
  show Res.ok (Val.str (stringsReplace _ _ _ none)) = _
  rw [stringsReplace_encodeAll cs os ns hcs hos hns]

theorem replaceCount_str (s o n : Bytes) (k : Int) : replaceCount (.str s) (.str o) (.str n) (.num (.int .i64 k)) =
    if k < 0 then errValue else .ok (.str (stringsReplace s o n (some k.toNat))) := rfl

/-- `replace(s, old, new)`: all three renamed, result renamed (an empty `old` included: `new` goes between code
    points) -/
theorem replace_rename {f : Nat → Nat} (hf : Inj f) (cs os ns : List Nat) (hcs : Scalars cs)
    (hcs' : Scalars (cs.map f)) (hos : Scalars os) (hos' : Scalars (os.map f)) (hns : Scalars ns)
    (hns' : Scalars (ns.map f)) :
    replace (.str (encodeAll (cs.map f))) (.str (encodeAll (os.map f))) (.str (encodeAll (ns.map f)))
      = mapRes (renV f) (replace (.str (encodeAll cs)) (.str (encodeAll os)) (.str (encodeAll ns))) := by
  rw [replace_codepoints _ _ _ hcs' hos' hns', replace_codepoints _ _ _ hcs hos hns, mapRes_ok, renV,
    renB_encodeAll f _ (cpReplace_scalars cs os ns hcs hos hns none), cpReplace_map hf]

/-- `replace(s, old, new, count)` for every count (negative: invalid-value in both) -/
theorem replace_count_rename {f : Nat → Nat} (hf : Inj f) (cs os ns : List Nat) (hcs : Scalars cs)
    (hcs' : Scalars (cs.map f)) (hos : Scalars os) (hos' : Scalars (os.map f)) (hns : Scalars ns)
    (hns' : Scalars (ns.map f)) (k : Int) :
    replaceCount (.str (encodeAll (cs.map f))) (.str (encodeAll (os.map f))) (.str (encodeAll (ns.map f)))
        (.num (.int .i64 k))
      = mapRes (renV f) (replaceCount (.str (encodeAll cs)) (.str (encodeAll os)) (.str (encodeAll ns))
          (.num (.int .i64 k))) := by
  rw [replaceCount_str, replaceCount_str]
  split
  · rfl
  · rw [stringsReplace_encodeAll _ _ _ hcs' hos' hns', stringsReplace_encodeAll _ _ _ hcs hos hns, mapRes_ok, renV,
      renB_encodeAll f _ (cpReplace_scalars cs os ns hcs hos hns _), cpReplace_map hf]

/-- replace("θйμμο", "μ", "й") = "θйййο" = renamed replace("héllo", "l", "é") = "héééo" -/
example : replace (.str [0xCE, 0xB8, 0xD0, 0xB9, 0xCE, 0xBC, 0xCE, 0xBC, 0xCE, 0xBF]) (.str [0xCE, 0xBC]) (.str [0xD0, 0xB9])
    = .ok (.str [0xCE, 0xB8, 0xD0, 0xB9, 0xD0, 0xB9, 0xD0, 0xB9, 0xCE, 0xBF]) :=
  replace_rename shift_mono.toInj hello [0x6C] [0xE9] hello_scalars hello'_scalars (by unfold Scalars; decide)
    (by unfold Scalars; decide) (by unfold Scalars; decide) (by unfold Scalars; decide)
/-- replace("θйμμο", "", "α", 2) = "αθαйμμο": the empty string is found between code points in both -/
example : replaceCount (.str [0xCE, 0xB8, 0xD0, 0xB9, 0xCE, 0xBC, 0xCE, 0xBC, 0xCE, 0xBF]) (.str []) (.str [0xCE, 0xB1])
      (.num (.int .i64 2))
    = .ok (.str [0xCE, 0xB1, 0xCE, 0xB8, 0xCE, 0xB1, 0xD0, 0xB9, 0xCE, 0xBC, 0xCE, 0xBC, 0xCE, 0xBF]) :=
  replace_count_rename shift_mono.toInj hello [] [0x61] hello_scalars hello'_scalars Scalars.nil Scalars.nil
    (by unfold Scalars; decide) (by unfold Scalars; decide) 2

/-! #### `join` -/

theorem joinStrs_scalars (sep : List Nat) (hsep : Scalars sep) : ∀ css : List (List Nat),
    (∀ cs ∈ css, Scalars cs) → Scalars (joinStrs sep css)
  | [], _ => Scalars.nil
  | [a], h => h a List.mem_cons_self
  | a :: b :: rest, h => by
    rw [joinStrs_cons_cons]
    exact ((h a List.mem_cons_self).append hsep).append
      (joinStrs_scalars sep hsep (b :: rest) (fun cs hcs => h cs (List.mem_cons_of_mem _ hcs)))

theorem join_strs (t : ATag) (sep : Bytes) (ss : List Bytes) :
    join (.str sep) (.arr t (ss.map Val.str))
      = if enum2 t (ss.map Val.str) then .nondet else .ok (.str (joinStrs sep ss)) := by
  simp only [join, allStrings_strs]

/-- `join(sep, array of strings)`: separator and elements renamed, result renamed (an array obtained by ranging over
    a Go map with two or more elements is order-dependent in both) -/
theorem join_rename (f : Nat → Nat) (t : ATag) (sep : List Nat) (css : List (List Nat)) (hsep : Scalars sep)
    (h : ∀ cs ∈ css, Scalars cs) :
    join (.str (encodeAll (sep.map f))) (.arr t ((css.map (fun cs => encodeAll (cs.map f))).map Val.str))
      = mapRes (renV f) (join (.str (encodeAll sep)) (.arr t ((css.map encodeAll).map Val.str))) := by
  rw [join_strs, join_strs]
  have e : enum2 t ((css.map (fun cs => encodeAll (cs.map f))).map Val.str)
      = enum2 t ((css.map encodeAll).map Val.str) := by
    unfold enum2; simp only [List.length_map]
  rw [e]
  split
  · rfl
  · have e2 : css.map (fun cs => encodeAll (cs.map f)) = (css.map (List.map f)).map encodeAll := by
      rw [List.map_map]; rfl
    have hj : Scalars (joinStrs sep css) := joinStrs_scalars sep hsep css h
    rw [e2, joinStrs_encodeAll, joinStrs_encodeAll, mapRes_ok, renV, renB_encodeAll f _ hj, joinStrs_map]

/-- join("μ", ["θ", "й"]) = "θμй" = renamed join("l", ["h", "é"]) = "hlé" -/
example : join (.str [0xCE, 0xBC]) (.arr .plain [.str [0xCE, 0xB8], .str [0xD0, 0xB9]])
    = .ok (.str [0xCE, 0xB8, 0xCE, 0xBC, 0xD0, 0xB9]) :=
  join_rename shift .plain [0x6C] [[0x68], [0xE9]] (by unfold Scalars; decide) (by
    intro cs hcs
    rcases List.mem_cons.1 hcs with rfl | hcs
    · unfold Scalars; decide
    · rcases List.mem_cons.1 hcs with rfl | hcs
      · unfold Scalars; decide
      · cases hcs)

/-! #### what is NOT rename-invariant

  `trim` / `trim_left` / `trim_right` with the default cutset (Unicode white space), `lower` / `upper`, and
  `pad_left` / `pad_right` with the default pad character (a space) refer to FIXED code points (white space, the
  case pairs, U+0020), which a renaming moves: they commute only with renamings that respect those sets. -/

/-- trim(" h") = "h", but the renamed " h" = "Ͱθ" (U+0370 is not white space) is left alone, it does not become "θ" -/
example : trimSpace (.str [0x20, 0x68]) = .ok (.str [0x68])
    ∧ encodeAll ([0x20, 0x68].map shift) = [0xCD, 0xB0, 0xCE, 0xB8]
    ∧ trimSpace (.str [0xCD, 0xB0, 0xCE, 0xB8]) = .ok (.str [0xCD, 0xB0, 0xCE, 0xB8]) := ⟨rfl, by decide, rfl⟩

/-- pad_right("h", 2) adds U+0020 whether or not the subject was renamed: "θ " is not the renamed "h " = "θͰ" -/
example : padSpaceRight (.str [0xCE, 0xB8]) (.num (.int .i64 2)) = .ok (.str [0xCE, 0xB8, 0x20])
    ∧ renB shift [0x68, 0x20] = [0xCE, 0xB8, 0xCD, 0xB0] := ⟨rfl, by decide⟩

/-- upper("ÿ") = "Ÿ" (U+0178), whose renaming is U+04C8; but the renamed "ÿ" is "я" (U+044F) and upper("я") = "Я"
    (U+042F) -/
example : upper (.str (encodeAll [0xFF])) = .ok (.str (encodeAll [0x178]))
    ∧ upper (.str (encodeAll ([0xFF].map shift))) = .ok (.str (encodeAll [0x42F]))
    ∧ [0x178].map shift ≠ [0x42F] := ⟨rfl, rfl, by decide⟩

/-! ### the instance: Latin → Greek / Cyrillic -/

/-- for the shift `c ↦ c + 0x350` the side condition on a string is just "every code point is below U+D4B0"
    (all of Latin, Greek, Cyrillic, …, CJK): e.g. `reverse` -/
theorem reverse_shift (cs : List Nat) (h : Scalars cs) (hb : ∀ c ∈ cs, c < 0xD800 - 0x350) :
    reverse (.str (encodeAll (cs.map shift))) = mapRes (renV shift) (reverse (.str (encodeAll cs))) :=
  reverse_rename shift cs h (shift_scalars hb)

/-- and `find_first` with any `start` -/
theorem find_first_from_shift (cs ps : List Nat) (hcs : Scalars cs) (hps : Scalars ps)
    (hb : ∀ c ∈ cs, c < 0xD800 - 0x350) (hb' : ∀ c ∈ ps, c < 0xD800 - 0x350) (i : Int) :
    findFirstFrom (.str (encodeAll (cs.map shift))) (.str (encodeAll (ps.map shift))) (.num (.int .i64 i))
      = findFirstFrom (.str (encodeAll cs)) (.str (encodeAll ps)) (.num (.int .i64 i)) :=
  find_from_rename shift_mono.toInj false cs ps hcs (shift_scalars hb) hps (shift_scalars hb') i

example : reverse (.str (encodeAll (hello.map shift))) = mapRes (renV shift) (reverse (.str (encodeAll hello))) :=
  reverse_shift hello hello_scalars (by decide)

#print axioms length_rename
#print axioms reverse_rename
#print axioms slice_rename
#print axioms sliceStep_rename
#print axioms find_first_rename
#print axioms find_last_rename
#print axioms find_from_rename
#print axioms find_between_rename
#print axioms starts_with_rename
#print axioms ends_with_rename
#print axioms contains_rename
#print axioms padLeft_rename
#print axioms padRight_rename
#print axioms split_empty_sep_rename
#print axioms split_count_empty_sep_rename
#print axioms split_rename
#print axioms split_count_rename
#print axioms trim_rename
#print axioms trimLeft_rename
#print axioms trimRight_rename
#print axioms replace_rename
#print axioms replace_count_rename
#print axioms join_rename
#print axioms bytesLt_rename
#print axioms arrayMax_rename
#print axioms arrayMin_rename
#print axioms sortArray_rename

end Jmes.C11R
