/-
  C02 (nested calls), part 2: the closure lemmas.  One lemma for each way a sub-expression can sit in a larger one; each
  says: if reading the inner tokens `X` fails with `E` (whatever follows), reading the outer tokens fails with `E`.

  * prefix forms: `( X`, `! X`, `- X`, `+ X`;
  * sequences: elements of `[ … ]`, member values of `{ … }`, arguments of calls (fixed, variadic, `f(array, &expr)`,
    `map(&expr, array)`), bindings and body of `let`, each after any number of well-formed items;
  * the condition of `[? … ]` and the right-hand sides of the five projection openers, in primary position, as a step of
    the operator loop, and as the first selector of a right-hand side;
  * the right operand of a binary operator and of `.`;
  * the base cases: a call whose argument count is outside the signature.
-/
import Jmes.Proofs.C02CArity
namespace Jmes.C02CArity
open Jmes Jmes.Parser Jmes.Pratt Jmes.Grammar Jmes.GrammarF0
open Jmes.GrammarF2 (complete filter_run expression_ok_first prim_let)
set_option linter.unusedSimpArgs false

/-! ## First tokens -/

/-- no expression starts with `)`, a number or `:` -/
theorem expression_first_bad {F p : Nat} {s : PState}
    (h : s.curr.type = .closeParen ∨ s.curr.type = .integerLiteral ∨ s.curr.type = .colon) :
    expression F p s = .error .fuel ∨ expression F p s = .error .unexpectedToken := by
  cases F with
  | zero => left; rw [expression.eq_1]; rfl
  | succ F =>
    rw [expression_succ_run]
    cases F with
    | zero => left; rw [primaryExpression.eq_1]; rfl
    | succ F =>
      right
      rw [primaryExpression.eq_2, bind_ok (get_run _)]
      rcases h with hc | hc | hc <;> simp only [hc] <;> rfl

/-- tokens on which `expression` fails with a hard error do not start with `)`, a number or `:` -/
theorem Fails.first {E : PErr} {p : Nat} {X : List Token} (h : Fails E false p X) (rest : List Token) :
    (stOf (X ++ rest)).curr.type ≠ .closeParen ∧ (stOf (X ++ rest)).curr.type ≠ .integerLiteral ∧
      (stOf (X ++ rest)).curr.type ≠ .colon := by
  obtain ⟨F, hF⟩ := h.expr rest
  have key : ¬ ((stOf (X ++ rest)).curr.type = .closeParen ∨ (stOf (X ++ rest)).curr.type = .integerLiteral ∨
      (stOf (X ++ rest)).curr.type = .colon) := by
    intro hc
    rcases expression_first_bad (F := F) (p := p) hc with h' | h' <;> rw [hF] at h' <;> cases h'
    · exact h.1.1 rfl
    · exact h.1.2 rfl
  exact ⟨fun hc => key (Or.inl hc), fun hc => key (Or.inr (Or.inl hc)), fun hc => key (Or.inr (Or.inr hc))⟩

/-! ## Primary position -/

/-- a failing `primaryExpression` is a failing `expression`, at every power -/
theorem fails_of_prim {E : PErr} (hE : Hard E) {toks : List Token}
    (h : ∀ rest, ∃ F, primaryExpression F (stOf (toks ++ rest)) = .error E) (p : Nat) : Fails E false p toks :=
  ⟨hE, fun rest => by
    obtain ⟨F, hF⟩ := h rest
    exact ⟨F + 1, by show expression _ _ _ = _; rw [expression_succ_run, hF]⟩⟩

/-- `( X` -/
theorem fails_paren {E : PErr} {X : List Token} (h : Fails E false 1 X) (p : Nat) :
    Fails E false p (tLParen :: X) := by
  apply fails_of_prim h.1
  intro rest
  obtain ⟨F, hF⟩ := h.expr rest
  refine ⟨F + 1, ?_⟩
  rw [primaryExpression.eq_2]
  pm_eval [hF]

/-- `! X` -/
theorem fails_not {E : PErr} {X : List Token} (h : Fails E false lvlNot X) (p : Nat) :
    Fails E false p (tNot :: X) := by
  apply fails_of_prim h.1
  intro rest
  obtain ⟨F, hF⟩ := h.expr rest
  have hF' : expression F (precedence .not) (stOf (X ++ rest)) = .error E := hF
  refine ⟨F + 1, ?_⟩
  rw [primaryExpression.eq_2]
  pm_eval [hF']

/-- `- X` -/
theorem fails_neg {E : PErr} {X : List Token} {tok : Token} (ht : tok.type = .subtract)
    (h : Fails E false lvlMul X) (p : Nat) : Fails E false p (tok :: X) := by
  apply fails_of_prim h.1
  intro rest
  obtain ⟨F, hF⟩ := h.expr rest
  have hF' : expression F (precedence .multiply) (stOf (X ++ rest)) = .error E := hF
  refine ⟨F + 1, ?_⟩
  rw [primaryExpression.eq_2]
  pm_eval [ht, hF']

/-- `+ X` -/
theorem fails_pos {E : PErr} {X : List Token} (h : Fails E false lvlMul X) (p : Nat) :
    Fails E false p (tPlus :: X) := by
  apply fails_of_prim h.1
  intro rest
  obtain ⟨F, hF⟩ := h.expr rest
  have hF' : expression F (precedence .multiply) (stOf (X ++ rest)) = .error E := hF
  refine ⟨F + 1, ?_⟩
  rw [primaryExpression.eq_2]
  pm_eval [hF']

/-! ## Sequences: the well-formed items before the failing one -/

/-- well-formed expressions, each followed by a comma -/
def sepPre : List PTree → List Token
  | [] => []
  | e :: es => flat false e ++ tComma :: sepPre es

/-- well-formed `key sep expression` members, each followed by a comma -/
def kvPre (sep : Token) : List (Token × PTree) → List Token
  | [] => []
  | (k, e) :: rest => k :: sep :: flat false e ++ tComma :: kvPre sep rest

/-- what follows the failing item of a comma-separated list -/
def sepPost : List PTree → List Token
  | [] => []
  | e :: es => tComma :: flatSep (e :: es)

/-- what follows the failing member of a comma-separated list of members -/
def kvPost (sep : Token) : List (Token × PTree) → List Token
  | [] => []
  | kv :: kvs => tComma :: flatKVs sep (kv :: kvs)

/-- the printing of a list of expressions, split at one element -/
theorem flatSep_split (x : PTree) (post : List PTree) :
    ∀ pre : List PTree, flatSep (pre ++ x :: post) = sepPre pre ++ (flat false x ++ sepPost post)
  | [] => by cases post <;> simp [flatSep, sepPre, sepPost]
  | [e] => by
    have := flatSep_split x post []
    simp only [List.nil_append] at this
    simp only [List.cons_append, List.nil_append, flatSep_cons2, this, sepPre, List.append_assoc]
  | e :: e' :: es => by
    have := flatSep_split x post (e' :: es)
    simp only [List.cons_append] at this
    simp only [List.cons_append, flatSep_cons2, this, sepPre, List.append_assoc]

/-- the printing of a list of members, split at one member -/
theorem flatKVs_split (sep : Token) (k : Token) (x : PTree) (post : List (Token × PTree)) :
    ∀ pre : List (Token × PTree),
      flatKVs sep (pre ++ (k, x) :: post) = kvPre sep pre ++ (k :: sep :: (flat false x ++ kvPost sep post))
  | [] => by cases post <;> simp [flatKVs, kvPre, kvPost]
  | [(k', e)] => by
    have := flatKVs_split sep k x post []
    simp only [List.nil_append] at this
    simp only [List.cons_append, List.nil_append, flatKVs_cons2, this, kvPre, List.append_assoc]
  | (k', e) :: kv :: kvs => by
    have := flatKVs_split sep k x post (kv :: kvs)
    simp only [List.cons_append] at this
    simp only [List.cons_append, flatKVs_cons2, this, kvPre, List.append_assoc]

/-- a sequence of well-formed items followed by a failing expression does not start with `)`, a number or `:` -/
theorem seq_first {E : PErr} {X : List Token} (h : Fails E false 1 X) {pre : List PTree}
    (hw : ∀ e ∈ pre, WellPrec e) (rest : List Token) :
    (stOf (sepPre pre ++ (X ++ rest))).curr.type ≠ .closeParen ∧
      (stOf (sepPre pre ++ (X ++ rest))).curr.type ≠ .integerLiteral ∧
      (stOf (sepPre pre ++ (X ++ rest))).curr.type ≠ .colon := by
  cases pre with
  | nil => simpa only [sepPre, List.nil_append] using h.first rest
  | cons e es =>
    have hwe : wp false e = true := hw e (by simp)
    obtain ⟨f, hf⟩ := (complete e false hwe).elem hwe (t := tComma) (sepPre es ++ (X ++ rest)) rfl (by decide)
    simpa only [sepPre, List.append_assoc, List.cons_append] using expression_ok_first hf

/-- elements of a multi-select list -/
theorem sarrl_fails {E : PErr} {X : List Token} (h : Fails E false 1 X) (child : Option INode) (rest : List Token) :
    ∀ (pre : List PTree), (∀ e ∈ pre, WellPrec e) → ∀ acc,
      ∃ f, selectArrayLoop f child acc (stOf (sepPre pre ++ (X ++ rest))) = .error E
  | [], _, acc => by
    obtain ⟨F, hF⟩ := h.expr rest
    refine ⟨F + 1, ?_⟩
    rw [selectArrayLoop.eq_2]
    pm_eval [sepPre, hF]
  | e :: es, hw, acc => by
    have hwe : wp false e = true := hw e (by simp)
    obtain ⟨f, hf⟩ := (complete e false hwe).elem hwe (t := tComma) (sepPre es ++ (X ++ rest)) rfl (by decide)
    obtain ⟨g, hg⟩ := sarrl_fails h child rest es (fun x hx => hw x (by simp [hx])) (acc ++ [erase e])
    refine ⟨max f g + 1, ?_⟩
    rw [selectArrayLoop.eq_2]
    have hf' := expression_mono (Nat.le_max_left f g) hf
    have hg' := C02B.Le.err ((mono_le (Nat.le_max_right f g)).sarrl _ _) hg h.1.1
    pm_eval [sepPre, hf', hg']

/-- the same for `selectArray` (the entry point of the loop) -/
theorem sarr_fails {E : PErr} {X : List Token} (h : Fails E false 1 X) (child : Option INode) (rest : List Token)
    {pre : List PTree} (hw : ∀ e ∈ pre, WellPrec e) :
    ∃ f, selectArray f child (stOf (sepPre pre ++ (X ++ rest))) = .error E := by
  obtain ⟨f, hf⟩ := sarrl_fails h child rest pre hw []
  exact ⟨f + 1, by rw [selectArray.eq_2]; exact hf⟩

/-- member values of a multi-select hash -/
theorem sobjl_fails {E : PErr} {X : List Token} (h : Fails E false 1 X) (child : Option INode) (rest : List Token)
    {k : Token} (hk : keyOK k = true) :
    ∀ (pre : List (Token × PTree)), (∀ kv ∈ pre, keyOK kv.1 = true ∧ WellPrec kv.2) → ∀ acc,
      ∃ f, selectObjectLoop f child acc (stOf (kvPre tColon pre ++ k :: tColon :: (X ++ rest))) = .error E
  | [], _, acc => by
    obtain ⟨F, hF⟩ := h.expr rest
    refine ⟨F + 1, ?_⟩
    rw [selectObjectLoop.eq_2]
    rcases keyOK_cases hk with hk | ⟨hk, v, hv⟩
    · pm_eval [kvPre, hk, hF]
    · pm_eval [kvPre, hk, hv, hF]
  | (k', e) :: kvs, hw, acc => by
    have hwe : wp false e = true := (hw (k', e) (by simp)).2
    have hk' : keyOK k' = true := (hw (k', e) (by simp)).1
    obtain ⟨f, hf⟩ := (complete e false hwe).elem hwe (t := tComma)
      (kvPre tColon kvs ++ k :: tColon :: (X ++ rest)) rfl (by decide)
    have ih := sobjl_fails h child rest hk kvs (fun x hx => hw x (by simp [hx]))
    rcases keyOK_cases hk' with hk' | ⟨hk', v, hv⟩
    · obtain ⟨g, hg⟩ := ih (assocInsert k'.value (erase e) acc)
      refine ⟨max f g + 1, ?_⟩
      rw [selectObjectLoop.eq_2]
      have hf' := expression_mono (Nat.le_max_left f g) hf
      have hg' := C02B.Le.err ((mono_le (Nat.le_max_right f g)).sobjl _ _) hg h.1.1
      pm_eval [kvPre, hk', hf', hg']
    · obtain ⟨g, hg⟩ := ih (assocInsert v (erase e) acc)
      refine ⟨max f g + 1, ?_⟩
      rw [selectObjectLoop.eq_2]
      have hf' := expression_mono (Nat.le_max_left f g) hf
      have hg' := C02B.Le.err ((mono_le (Nat.le_max_right f g)).sobjl _ _) hg h.1.1
      pm_eval [kvPre, hk', hv, hf', hg']

/-- the same for `selectObject` (the entry point of the loop) -/
theorem sobj_fails {E : PErr} {X : List Token} (h : Fails E false 1 X) (child : Option INode) (rest : List Token)
    {k : Token} (hk : keyOK k = true) {pre : List (Token × PTree)}
    (hw : ∀ kv ∈ pre, keyOK kv.1 = true ∧ WellPrec kv.2) :
    ∃ f, selectObject f child (stOf (kvPre tColon pre ++ k :: tColon :: (X ++ rest))) = .error E := by
  obtain ⟨f, hf⟩ := sobjl_fails h child rest hk pre hw []
  exact ⟨f + 1, by rw [selectObject.eq_2]; exact hf⟩

/-- arguments of a builtin with between `mn` and `mx` plain arguments: the failing argument is still within the
    signature (`acc.length + pre.length < mx`) -/
theorem fnArgs_fails {E : PErr} {X : List Token} (h : Fails E false 1 X) (mn mx : Nat) (rest : List Token) :
    ∀ (pre : List PTree), (∀ e ∈ pre, WellPrec e) → ∀ acc : List INode, acc.length + pre.length < mx →
      ∃ f, fnArgs f mn mx acc (stOf (sepPre pre ++ (X ++ rest))) = .error E
  | [], _, acc, _ => by
    obtain ⟨F, hF⟩ := h.expr rest
    refine ⟨F + 1, ?_⟩
    rw [fnArgs.eq_2]
    pm_eval [sepPre, hF]
  | e :: es, hw, acc, hlen => by
    have hwe : wp false e = true := hw e (by simp)
    obtain ⟨f, hf⟩ := (complete e false hwe).elem hwe (t := tComma) (sepPre es ++ (X ++ rest)) rfl (by decide)
    simp only [List.length_cons] at hlen
    obtain ⟨g, hg⟩ := fnArgs_fails h mn mx rest es (fun x hx => hw x (by simp [hx])) (acc ++ [erase e])
      (by simp only [List.length_append, List.length_cons, List.length_nil]; omega)
    refine ⟨max f g + 1, ?_⟩
    rw [fnArgs.eq_2]
    have hf' := expression_mono (Nat.le_max_left f g) hf
    have hg' := C02B.Le.err ((mono_le (Nat.le_max_right f g)).args mn mx (acc ++ [erase e])) hg h.1.1
    have h3 : acc.length + 1 < mx := by omega
    pm_eval [sepPre, hf', hg', List.length_append, List.length_singleton, h3]
    split <;> rfl

/-- arguments of a variadic builtin -/
theorem fnVarArgs_fails {E : PErr} {X : List Token} (h : Fails E false 1 X) (rest : List Token) :
    ∀ (pre : List PTree), (∀ e ∈ pre, WellPrec e) → ∀ acc : List INode,
      ∃ f, fnVarArgs f acc (stOf (sepPre pre ++ (X ++ rest))) = .error E
  | [], _, acc => by
    obtain ⟨F, hF⟩ := h.expr rest
    refine ⟨F + 1, ?_⟩
    rw [fnVarArgs.eq_2]
    pm_eval [sepPre, hF]
  | e :: es, hw, acc => by
    have hwe : wp false e = true := hw e (by simp)
    obtain ⟨f, hf⟩ := (complete e false hwe).elem hwe (t := tComma) (sepPre es ++ (X ++ rest)) rfl (by decide)
    obtain ⟨g, hg⟩ := fnVarArgs_fails h rest es (fun x hx => hw x (by simp [hx])) (acc ++ [erase e])
    refine ⟨max f g + 1, ?_⟩
    rw [fnVarArgs.eq_2]
    have hf' := expression_mono (Nat.le_max_left f g) hf
    have hg' := C02B.Le.err ((mono_le (Nat.le_max_right f g)).vargs (acc ++ [erase e])) hg h.1.1
    pm_eval [sepPre, hf', hg']

/-- the bindings of `let` -/
theorem letP_fails_binding {E : PErr} {X : List Token} (h : Fails E false 1 X) (rest : List Token)
    {k : Token} (hk : isVarTok k = true) :
    ∀ (pre : List (Token × PTree)), (∀ kv ∈ pre, isVarTok kv.1 = true ∧ WellPrec kv.2) → ∀ vars,
      ∃ f, letP f vars (stOf (kvPre tAssign pre ++ k :: tAssign :: (X ++ rest))) = .error E
  | [], _, vars => by
    obtain ⟨F, hF⟩ := h.expr rest
    have hk : k.type = .variable := by simpa [isVarTok] using hk
    refine ⟨F + 1, ?_⟩
    rw [letP.eq_2]
    pm_eval [kvPre, hk, hF]
  | (k', e) :: kvs, hw, vars => by
    have hwe : wp false e = true := (hw (k', e) (by simp)).2
    have hk' : k'.type = .variable := by simpa [isVarTok] using (hw (k', e) (by simp)).1
    obtain ⟨f, hf⟩ := (complete e false hwe).elem hwe (t := tComma)
      (kvPre tAssign kvs ++ k :: tAssign :: (X ++ rest)) rfl (by decide)
    obtain ⟨g, hg⟩ := letP_fails_binding h rest hk kvs (fun x hx => hw x (by simp [hx]))
      (assocInsert k'.value (erase e) vars)
    refine ⟨max f g + 1, ?_⟩
    rw [letP.eq_2]
    have hf' := expression_mono (Nat.le_max_left f g) hf
    have hg' := C02B.Le.err ((mono_le (Nat.le_max_right f g)).letp _) hg h.1.1
    pm_eval [kvPre, hk', hf', hg']

/-- the body of `let` -/
theorem letP_fails_body {E : PErr} {X : List Token} (h : Fails E false 1 X) (rest : List Token) :
    ∀ (bs : List (Token × PTree)), bs ≠ [] → (∀ kv ∈ bs, isVarTok kv.1 = true ∧ WellPrec kv.2) → ∀ vars,
      ∃ f, letP f vars (stOf (flatKVs tAssign bs ++ tIn :: (X ++ rest))) = .error E
  | [], hne, _, _ => absurd rfl hne
  | [(k, e)], _, hw, vars => by
    have hwe : wp false e = true := (hw (k, e) (by simp)).2
    have hk : k.type = .variable := by simpa [isVarTok] using (hw (k, e) (by simp)).1
    obtain ⟨f, hf⟩ := (complete e false hwe).elem hwe (t := tIn) (X ++ rest) rfl (by decide)
    obtain ⟨g, hg⟩ := h.expr rest
    refine ⟨max f g + 1, ?_⟩
    rw [letP.eq_2]
    have hf' := expression_mono (Nat.le_max_left f g) hf
    have hg' := expr_err_mono h.1.1 (Nat.le_max_right f g) hg
    pm_eval [flatKVs, hk, hf', hg']
  | (k, e) :: kv :: kvs, _, hw, vars => by
    have hwe : wp false e = true := (hw (k, e) (by simp)).2
    have hk : k.type = .variable := by simpa [isVarTok] using (hw (k, e) (by simp)).1
    obtain ⟨f, hf⟩ := (complete e false hwe).elem hwe (t := tComma)
      (flatKVs tAssign (kv :: kvs) ++ tIn :: (X ++ rest)) rfl (by decide)
    obtain ⟨g, hg⟩ := letP_fails_body h rest (kv :: kvs) (by simp) (fun x hx => hw x (by simp [hx]))
      (assocInsert k.value (erase e) vars)
    refine ⟨max f g + 1, ?_⟩
    rw [letP.eq_2, flatKVs_cons2]
    have hf' := expression_mono (Nat.le_max_left f g) hf
    have hg' := C02B.Le.err ((mono_le (Nat.le_max_right f g)).letp _) hg h.1.1
    pm_eval [hk, hf', hg']

/-! ## Primary forms that contain a sequence -/

/-- `[ e, …, X` -/
theorem fails_multiList {E : PErr} {X : List Token} (h : Fails E false 1 X) {pre : List PTree}
    (hw : ∀ e ∈ pre, WellPrec e) (p : Nat) : Fails E false p (tLBracket :: (sepPre pre ++ X)) := by
  apply fails_of_prim h.1
  intro rest
  obtain ⟨f, hf⟩ := sarr_fails h none rest hw
  have h1 := seq_first h hw rest
  refine ⟨f + 1, ?_⟩
  simp only [List.cons_append, List.append_assoc]
  rw [prim_multiList h1.2.1 h1.2.2]
  exact hf

/-- `{ k: e, …, k: X` -/
theorem fails_multiHash {E : PErr} {X : List Token} (h : Fails E false 1 X) {k : Token} (hk : keyOK k = true)
    {pre : List (Token × PTree)} (hw : ∀ kv ∈ pre, keyOK kv.1 = true ∧ WellPrec kv.2) (p : Nat) :
    Fails E false p (tLBrace :: (kvPre tColon pre ++ k :: tColon :: X)) := by
  apply fails_of_prim h.1
  intro rest
  obtain ⟨f, hf⟩ := sobj_fails h none rest hk hw
  refine ⟨f + 1, ?_⟩
  simp only [List.cons_append, List.append_assoc]
  rw [prim_multiHash]
  exact hf

/-- `name( e, …, X` for a builtin with between `mn` and `mx` plain arguments: the failing argument is one of the
    first `mx` -/
theorem fails_call_fixed {E : PErr} {X : List Token} (h : Fails E false 1 X) {name : Token}
    (hn : name.type = .unquotedIdentifier) {mn mx : Nat} {mk : List INode → INode}
    (hl : lookupBuiltin name.value = some (.fixed mn mx mk)) {pre : List PTree} (hw : ∀ e ∈ pre, WellPrec e)
    (hlen : pre.length < mx) (p : Nat) : Fails E false p (name :: tLParen :: (sepPre pre ++ X)) := by
  apply fails_of_prim h.1
  intro rest
  obtain ⟨f, hf⟩ := fnArgs_fails h mn mx rest pre hw [] (by simpa using hlen)
  have hne := (seq_first h hw rest).1
  refine ⟨f + 2, ?_⟩
  simp only [List.cons_append, List.append_assoc]
  rw [prim_function hn, function.eq_2]
  pm_eval [hl, hne, hf]

/-- `name( e, …, X` for a variadic builtin -/
theorem fails_call_varArg {E : PErr} {X : List Token} (h : Fails E false 1 X) {name : Token}
    (hn : name.type = .unquotedIdentifier) {mk : List INode → INode}
    (hl : lookupBuiltin name.value = some (.varArg mk)) {pre : List PTree} (hw : ∀ e ∈ pre, WellPrec e)
    (p : Nat) : Fails E false p (name :: tLParen :: (sepPre pre ++ X)) := by
  apply fails_of_prim h.1
  intro rest
  obtain ⟨f, hf⟩ := fnVarArgs_fails h rest pre hw []
  have hne := (seq_first h hw rest).1
  refine ⟨f + 2, ?_⟩
  simp only [List.cons_append, List.append_assoc]
  rw [prim_function hn, function.eq_2]
  pm_eval [hl, hne, hf]

/-- `name( X` for `sort_by` & co: the first argument -/
theorem fails_call_expArg1 {E : PErr} {X : List Token} (h : Fails E false 1 X) {name : Token}
    (hn : name.type = .unquotedIdentifier) {mk : INode → INode → INode}
    (hl : lookupBuiltin name.value = some (.expArg mk)) (p : Nat) : Fails E false p (name :: tLParen :: X) := by
  apply fails_of_prim h.1
  intro rest
  obtain ⟨f, hf⟩ := h.expr rest
  have hne := (h.first rest).1
  refine ⟨f + 2, ?_⟩
  simp only [List.cons_append, List.append_assoc]
  rw [prim_function hn, function.eq_2]
  pm_eval [hl, hne, hf]

/-- `name( a, & X` for `sort_by` & co: the expression reference -/
theorem fails_call_expArg2 {E : PErr} {X : List Token} (h : Fails E false 1 X) {name : Token}
    (hn : name.type = .unquotedIdentifier) {mk : INode → INode → INode}
    (hl : lookupBuiltin name.value = some (.expArg mk)) {a : PTree} (ha : WellPrec a) (p : Nat) :
    Fails E false p (name :: tLParen :: (flat false a ++ tComma :: tAmp :: X)) := by
  apply fails_of_prim h.1
  intro rest
  have hwa : wp false a = true := ha
  obtain ⟨f, hf⟩ := (complete a false hwa).elem hwa (t := tComma) (tAmp :: (X ++ rest)) rfl (by decide)
  obtain ⟨g, hg⟩ := h.expr rest
  have hf' := expression_mono (Nat.le_max_left f g) hf
  have hg' := expr_err_mono h.1.1 (Nat.le_max_right f g) hg
  have hne := expression_ok_ne_rparen hf'
  refine ⟨max f g + 2, ?_⟩
  simp only [List.cons_append, List.append_assoc]
  rw [prim_function hn, function.eq_2]
  pm_eval [hl, hne, hf', hg']

/-- `map( & X`: the expression reference -/
theorem fails_call_mapArg1 {E : PErr} {X : List Token} (h : Fails E false 1 X) {name : Token}
    (hn : name.type = .unquotedIdentifier) {mk : INode → INode → INode}
    (hl : lookupBuiltin name.value = some (.mapArg mk)) (p : Nat) :
    Fails E false p (name :: tLParen :: tAmp :: X) := by
  apply fails_of_prim h.1
  intro rest
  obtain ⟨f, hf⟩ := h.expr rest
  refine ⟨f + 2, ?_⟩
  simp only [List.cons_append, List.append_assoc]
  rw [prim_function hn, function.eq_2]
  pm_eval [hl, hf]

/-- `map( & t, X`: the array -/
theorem fails_call_mapArg2 {E : PErr} {X : List Token} (h : Fails E false 1 X) {name : Token}
    (hn : name.type = .unquotedIdentifier) {mk : INode → INode → INode}
    (hl : lookupBuiltin name.value = some (.mapArg mk)) {t : PTree} (ht : WellPrec t) (p : Nat) :
    Fails E false p (name :: tLParen :: tAmp :: (flat false t ++ tComma :: X)) := by
  apply fails_of_prim h.1
  intro rest
  have hwt : wp false t = true := ht
  obtain ⟨f, hf⟩ := (complete t false hwt).elem hwt (t := tComma) (X ++ rest) rfl (by decide)
  obtain ⟨g, hg⟩ := h.expr rest
  have hf' := expression_mono (Nat.le_max_left f g) hf
  have hg' := expr_err_mono h.1.1 (Nat.le_max_right f g) hg
  refine ⟨max f g + 2, ?_⟩
  simp only [List.cons_append, List.append_assoc]
  rw [prim_function hn, function.eq_2]
  pm_eval [hl, hf', hg']

/-- `let $x = e, …, $y = X` -/
theorem fails_let_binding {E : PErr} {X : List Token} (h : Fails E false 1 X) {k : Token} (hk : isVarTok k = true)
    {pre : List (Token × PTree)} (hw : ∀ kv ∈ pre, isVarTok kv.1 = true ∧ WellPrec kv.2) (p : Nat) :
    Fails E false p (tLet :: (kvPre tAssign pre ++ k :: tAssign :: X)) := by
  apply fails_of_prim h.1
  intro rest
  obtain ⟨f, hf⟩ := letP_fails_binding h rest hk pre hw []
  refine ⟨f + 1, ?_⟩
  simp only [List.cons_append, List.append_assoc]
  rw [prim_let]
  exact hf

/-- `let $x = e, … in X` -/
theorem fails_let_body {E : PErr} {X : List Token} (h : Fails E false 1 X) {bs : List (Token × PTree)}
    (hne : bs ≠ []) (hw : ∀ kv ∈ bs, isVarTok kv.1 = true ∧ WellPrec kv.2) (p : Nat) :
    Fails E false p (tLet :: (flatKVs tAssign bs ++ tIn :: X)) := by
  apply fails_of_prim h.1
  intro rest
  obtain ⟨f, hf⟩ := letP_fails_body h rest bs hne hw []
  refine ⟨f + 1, ?_⟩
  simp only [List.cons_append, List.append_assoc]
  rw [prim_let]
  exact hf

/-! ## The condition of a filter and the right-hand sides of projections -/

/-- the condition `X` of `[? X` -/
theorem filterP_fails {E : PErr} {X : List Token} (h : Fails E false 1 X) (rest : List Token) :
    ∃ F, filterP F (stOf (X ++ rest)) = .error E := by
  obtain ⟨F, hF⟩ := h.expr rest
  refine ⟨F + 1, ?_⟩
  rw [filterP.eq_2]
  pm_eval [hF]

/-- more fuel for a failing filter condition -/
theorem filterP_err_mono {E : PErr} (hE : E ≠ .fuel) {f g : Nat} {s} (hfg : f ≤ g)
    (h : filterP f s = .error E) : filterP g s = .error E :=
  C02B.Le.err ((mono_le hfg).filt) h hE

/-- a failing right-hand side, read at the projection power -/
theorem Fails.rhs {E : PErr} {X : List Token} (h : Fails E true lvlProj X) (rest : List Token) :
    ∃ F, projection F projectionPrecedence (stOf (X ++ rest)) = .error E := h.2 rest

/-- the leading forms `[*] X`, `* X`, `[] X`, `[? X`, `[? c ] X`, `[a:b:c] X`, read by `primaryExpression` -/
theorem prim_star0_err {E : PErr} {X : List Token} (h : Fails E true lvlProj X) (rest : List Token) :
    ∃ F, primaryExpression F (stOf (tArrayStar :: (X ++ rest))) = .error E := by
  obtain ⟨F, hF⟩ := h.rhs rest
  refine ⟨F + 1, ?_⟩
  rw [primaryExpression.eq_2]
  pm_eval [hF]

/-- the leading `* X` -/
theorem prim_ostar0_err {E : PErr} {X : List Token} (h : Fails E true lvlProj X) (rest : List Token) :
    ∃ F, primaryExpression F (stOf (tStar :: (X ++ rest))) = .error E := by
  obtain ⟨F, hF⟩ := h.rhs rest
  refine ⟨F + 1, ?_⟩
  rw [primaryExpression.eq_2]
  pm_eval [hF]

/-- the leading `[] X` -/
theorem prim_flat0_err {E : PErr} {X : List Token} (h : Fails E true lvlProj X) (rest : List Token) :
    ∃ F, primaryExpression F (stOf (tFlatten :: (X ++ rest))) = .error E := by
  obtain ⟨F, hF⟩ := h.rhs rest
  refine ⟨F + 1, ?_⟩
  rw [primaryExpression.eq_2]
  pm_eval [hF]

/-- the leading `[? X` -/
theorem prim_filt0_cond_err {E : PErr} {X : List Token} (h : Fails E false 1 X) (rest : List Token) :
    ∃ F, primaryExpression F (stOf (tFilter :: (X ++ rest))) = .error E := by
  obtain ⟨F, hF⟩ := filterP_fails h rest
  refine ⟨F + 1, ?_⟩
  rw [primaryExpression.eq_2]
  pm_eval [hF]

/-- the leading `[? c ] X` -/
theorem prim_filt0_rhs_err {E : PErr} {X : List Token} (h : Fails E true lvlProj X) {c : PTree} (hc : WellPrec c)
    (rest : List Token) :
    ∃ F, primaryExpression F (stOf (tFilter :: (flat false c ++ tRBracket :: (X ++ rest)))) = .error E := by
  obtain ⟨f, hf⟩ := h.rhs rest
  obtain ⟨g, hg⟩ := filter_run (complete c) hc (X ++ rest)
  have hf' := proj_err_mono h.1.1 (Nat.le_max_left f g) hf
  have hg' := ((mono_le (Nat.le_max_right f g)).filt).ok hg
  refine ⟨max f g + 1, ?_⟩
  rw [primaryExpression.eq_2]
  pm_eval [hg', hf']

/-- the leading `[a:b:c] X` -/
theorem prim_slice0_err {E : PErr} {X : List Token} (h : Fails E true lvlProj X) {a b : Option Token}
    {c : Option (Option Token)} (hok : sliceOK a b c = true) (rest : List Token) :
    ∃ F, primaryExpression F (stOf (tLBracket :: (sliceToks a b c ++ tRBracket :: (X ++ rest)))) = .error E := by
  obtain ⟨F, hF⟩ := h.rhs rest
  refine ⟨F + 1, ?_⟩
  rw [primaryExpression.eq_2]
  have hh : ((stOf (sliceToks a b c ++ tRBracket :: (X ++ rest))).curr.type == TokenType.integerLiteral ||
      (stOf (sliceToks a b c ++ tRBracket :: (X ++ rest))).curr.type == TokenType.colon) = true := by
    rcases sliceToks_head hok (tRBracket :: (X ++ rest)) with h' | h' <;> simp [h']
  rw [bind_ok (get_run _)]
  simp only [stOf_curr, tLBracket_type]
  rw [bind_ok (advance_stOf _ _), bind_ok (currType_run _), if_pos hh, bind_ok (indexP_slice none hok (X ++ rest))]
  pm_eval [hF]

/-- … in primary position -/
theorem fails_star0 {E : PErr} {X : List Token} (h : Fails E true lvlProj X) (p : Nat) :
    Fails E false p (tArrayStar :: X) :=
  fails_of_prim h.1 (fun rest => by simpa only [List.cons_append] using prim_star0_err h rest) p

/-- the leading `* X`, as an expression -/
theorem fails_ostar0 {E : PErr} {X : List Token} (h : Fails E true lvlProj X) (p : Nat) :
    Fails E false p (tStar :: X) :=
  fails_of_prim h.1 (fun rest => by simpa only [List.cons_append] using prim_ostar0_err h rest) p

/-- the leading `[] X`, as an expression -/
theorem fails_flat0 {E : PErr} {X : List Token} (h : Fails E true lvlProj X) (p : Nat) :
    Fails E false p (tFlatten :: X) :=
  fails_of_prim h.1 (fun rest => by simpa only [List.cons_append] using prim_flat0_err h rest) p

/-- the leading `[? X`, as an expression -/
theorem fails_filt0_cond {E : PErr} {X : List Token} (h : Fails E false 1 X) (p : Nat) :
    Fails E false p (tFilter :: X) :=
  fails_of_prim h.1 (fun rest => by simpa only [List.cons_append] using prim_filt0_cond_err h rest) p

/-- the leading `[? c ] X`, as an expression -/
theorem fails_filt0_rhs {E : PErr} {X : List Token} (h : Fails E true lvlProj X) {c : PTree} (hc : WellPrec c)
    (p : Nat) : Fails E false p (tFilter :: (flat false c ++ tRBracket :: X)) :=
  fails_of_prim h.1 (fun rest => by
    simpa only [List.cons_append, List.append_assoc] using prim_filt0_rhs_err h hc rest) p

/-- the leading `[a:b:c] X`, as an expression -/
theorem fails_slice0 {E : PErr} {X : List Token} (h : Fails E true lvlProj X) {a b : Option Token}
    {c : Option (Option Token)} (hok : sliceOK a b c = true) (p : Nat) :
    Fails E false p (tLBracket :: (sliceToks a b c ++ tRBracket :: X)) :=
  fails_of_prim h.1 (fun rest => by
    simpa only [List.cons_append, List.append_assoc] using prim_slice0_err h hok rest) p

/-! ## Steps of the operator loop -/

/-- the right operand `X` of a binary operator (`|`, `&&`, `||` included) -/
theorem loop_bin_fails {E : PErr} {X : List Token} {o : Token} {lvl : Nat} (hl : binLevel o.type = some lvl)
    {p : Nat} (hp : p < lvl) (h : Fails E false lvl X) : LoopFails E p (o :: X) := by
  refine ⟨h.1, fun n rest => ?_⟩
  obtain ⟨F, hF⟩ := h.expr rest
  have hprec := binLevel_precedence hl
  refine ⟨F + 1, ?_⟩
  rw [List.cons_append, exprLoop_bin (s := stOf (o :: (X ++ rest))) (binLevel_mkBin hl) (by simpa [hprec] using hp),
    bind_ok (advance_stOf _ _)]
  simp only [stOf_curr, hprec]
  rw [bind_err hF]

/-- the right operand of `.`, which starts with an identifier -/
theorem loop_dotId_fails {E : PErr} {t : Token} {ts : List Token}
    (ht : t.type = .unquotedIdentifier ∨ t.type = .quotedIdentifier) {p : Nat} (hp : p < lvlDot)
    (h : Fails E false lvlDot (t :: ts)) : LoopFails E p (tDot :: t :: ts) := by
  refine ⟨h.1, fun n rest => ?_⟩
  obtain ⟨F, hF⟩ := h.expr rest
  refine ⟨F + 1, ?_⟩
  simp only [List.cons_append] at hF ⊢
  rw [exprLoop_dot_ident (s := stOf (tDot :: t :: (ts ++ rest))) rfl (by simpa using ht) hp,
    bind_ok (advance_stOf _ _)]
  show (expression F lvlDot >>= _) _ = _
  rw [bind_err hF]

/-- `.[ e, …, X` -/
theorem loop_dotList_fails {E : PErr} {X : List Token} (h : Fails E false 1 X) {pre : List PTree}
    (hw : ∀ e ∈ pre, WellPrec e) {p : Nat} (hp : p < lvlDot) :
    LoopFails E p (tDot :: tLBracket :: (sepPre pre ++ X)) := by
  refine ⟨h.1, fun n rest => ?_⟩
  obtain ⟨f, hf⟩ := sarr_fails h (some n) rest hw
  have hn : ¬ precedence TokenType.dot ≤ p := by simp only [precedence, lvlDot] at *; omega
  refine ⟨f + 1, ?_⟩
  rw [exprLoop.eq_2]
  pm_eval [hn, binOpOf, hf]

/-- `.{ k: e, …, k: X` -/
theorem loop_dotHash_fails {E : PErr} {X : List Token} (h : Fails E false 1 X) {k : Token} (hk : keyOK k = true)
    {pre : List (Token × PTree)} (hw : ∀ kv ∈ pre, keyOK kv.1 = true ∧ WellPrec kv.2) {p : Nat} (hp : p < lvlDot) :
    LoopFails E p (tDot :: tLBrace :: (kvPre tColon pre ++ k :: tColon :: X)) := by
  refine ⟨h.1, fun n rest => ?_⟩
  obtain ⟨f, hf⟩ := sobj_fails h (some n) rest hk hw
  have hn : ¬ precedence TokenType.dot ≤ p := by simp only [precedence, lvlDot] at *; omega
  refine ⟨f + 1, ?_⟩
  rw [exprLoop.eq_2]
  pm_eval [hn, binOpOf, hf]

/-- `[*] X` -/
theorem loop_star_fails {E : PErr} {X : List Token} (h : Fails E true lvlProj X) {p : Nat} (hp : p < lvlBracket) :
    LoopFails E p (tArrayStar :: X) := by
  refine ⟨h.1, fun n rest => ?_⟩
  obtain ⟨F, hF⟩ := h.rhs rest
  have hn : ¬ precedence TokenType.arrayWildcard ≤ p := by simp only [precedence, lvlBracket] at *; omega
  refine ⟨F + 1, ?_⟩
  rw [exprLoop.eq_2]
  pm_eval [hn, binOpOf, hF]

/-- `.* X` -/
theorem loop_ostar_fails {E : PErr} {X : List Token} (h : Fails E true lvlProj X) {p : Nat} (hp : p < lvlDot) :
    LoopFails E p (tDotStar :: X) := by
  refine ⟨h.1, fun n rest => ?_⟩
  obtain ⟨F, hF⟩ := h.rhs rest
  have hn : ¬ precedence TokenType.objectWildcard ≤ p := by simp only [precedence, lvlDot] at *; omega
  refine ⟨F + 1, ?_⟩
  rw [exprLoop.eq_2]
  pm_eval [hn, binOpOf, hF]

/-- `[] X` -/
theorem loop_flat_fails {E : PErr} {X : List Token} (h : Fails E true lvlProj X) {p : Nat} (hp : p < lvlFlatten) :
    LoopFails E p (tFlatten :: X) := by
  refine ⟨h.1, fun n rest => ?_⟩
  obtain ⟨F, hF⟩ := h.rhs rest
  have hn : ¬ precedence TokenType.flatten ≤ p := by simp only [precedence, lvlFlatten] at *; omega
  refine ⟨F + 1, ?_⟩
  rw [exprLoop.eq_2]
  pm_eval [hn, binOpOf, hF]

/-- `[? X` -/
theorem loop_filt_cond_fails {E : PErr} {X : List Token} (h : Fails E false 1 X) {p : Nat} (hp : p < lvlFilter) :
    LoopFails E p (tFilter :: X) := by
  refine ⟨h.1, fun n rest => ?_⟩
  obtain ⟨F, hF⟩ := filterP_fails h rest
  have hn : ¬ precedence TokenType.filter ≤ p := by simp only [precedence, lvlFilter] at *; omega
  refine ⟨F + 1, ?_⟩
  rw [exprLoop.eq_2]
  pm_eval [hn, binOpOf, hF]

/-- `[? c ] X` -/
theorem loop_filt_rhs_fails {E : PErr} {X : List Token} (h : Fails E true lvlProj X) {c : PTree} (hc : WellPrec c)
    {p : Nat} (hp : p < lvlFilter) : LoopFails E p (tFilter :: (flat false c ++ tRBracket :: X)) := by
  refine ⟨h.1, fun n rest => ?_⟩
  obtain ⟨f, hf⟩ := h.rhs rest
  obtain ⟨g, hg⟩ := filter_run (complete c) hc (X ++ rest)
  have hf' := proj_err_mono h.1.1 (Nat.le_max_left f g) hf
  have hg' := ((mono_le (Nat.le_max_right f g)).filt).ok hg
  have hn : ¬ precedence TokenType.filter ≤ p := by simp only [precedence, lvlFilter] at *; omega
  refine ⟨max f g + 1, ?_⟩
  rw [exprLoop.eq_2]
  pm_eval [hn, binOpOf, hg', hf']

/-- `[a:b:c] X` -/
theorem loop_slice_fails {E : PErr} {X : List Token} (h : Fails E true lvlProj X) {a b : Option Token}
    {c : Option (Option Token)} (hok : sliceOK a b c = true) {p : Nat} (hp : p < lvlBracket) :
    LoopFails E p (tLBracket :: (sliceToks a b c ++ tRBracket :: X)) := by
  refine ⟨h.1, fun n rest => ?_⟩
  obtain ⟨F, hF⟩ := h.rhs rest
  have hn : ¬ precedence TokenType.openSqBrace ≤ p := by simp only [precedence, lvlBracket] at *; omega
  refine ⟨F + 1, ?_⟩
  rw [exprLoop.eq_2]
  pm_eval [hn, binOpOf]
  rw [indexP_slice (some n) hok (X ++ rest)]
  pm_eval [hF]

/-! ## The first selector of a right-hand side -/

/-- `. X` where `X` starts with an identifier -/
theorem proj_dotId_fails {E : PErr} {t : Token} {ts : List Token}
    (ht : t.type = .unquotedIdentifier ∨ t.type = .quotedIdentifier) {p : Nat}
    (h : Fails E false p (t :: ts)) : Fails E true p (tDot :: t :: ts) := by
  refine ⟨h.1, fun rest => ?_⟩
  obtain ⟨F, hF⟩ := h.expr rest
  exact ⟨F + 1, proj_dotId_err ht hF⟩

/-- `.[ e, …, X` -/
theorem proj_dotList_fails {E : PErr} {X : List Token} (h : Fails E false 1 X) {pre : List PTree}
    (hw : ∀ e ∈ pre, WellPrec e) (p : Nat) : Fails E true p (tDot :: tLBracket :: (sepPre pre ++ X)) := by
  refine ⟨h.1, fun rest => ?_⟩
  obtain ⟨f, hf⟩ := sarr_fails h none rest hw
  refine ⟨f + 1, ?_⟩
  show projection _ _ _ = _
  rw [projection.eq_2]
  pm_eval [hf]

/-- `.{ k: e, …, k: X` -/
theorem proj_dotHash_fails {E : PErr} {X : List Token} (h : Fails E false 1 X) {k : Token} (hk : keyOK k = true)
    {pre : List (Token × PTree)} (hw : ∀ kv ∈ pre, keyOK kv.1 = true ∧ WellPrec kv.2) (p : Nat) :
    Fails E true p (tDot :: tLBrace :: (kvPre tColon pre ++ k :: tColon :: X)) := by
  refine ⟨h.1, fun rest => ?_⟩
  obtain ⟨f, hf⟩ := sobj_fails h none rest hk hw
  refine ⟨f + 1, ?_⟩
  show projection _ _ _ = _
  rw [projection.eq_2]
  pm_eval [hf]

/-- `[*]` and `[?` as the first selector of a right-hand side are read by `primaryExpression` -/
theorem proj_of_prim_err {E : PErr} {F p : Nat} {ts : List Token}
    (ht : (stOf ts).curr.type = .arrayWildcard ∨ (stOf ts).curr.type = .filter)
    (hm : primaryExpression F (stOf ts) = .error E) : projection (F + 1) p (stOf ts) = .error E := by
  rw [projection.eq_2]
  rcases ht with ht | ht <;> pm_eval [ht, hm]

/-- `[*] X` as the first selector of a right-hand side -/
theorem proj_star_fails {E : PErr} {X : List Token} (h : Fails E true lvlProj X) (p : Nat) :
    Fails E true p (tArrayStar :: X) := by
  refine ⟨h.1, fun rest => ?_⟩
  obtain ⟨F, hF⟩ := prim_star0_err h rest
  exact ⟨F + 1, proj_of_prim_err (Or.inl rfl) hF⟩

/-- `[? X` as the first selector of a right-hand side -/
theorem proj_filt_cond_fails {E : PErr} {X : List Token} (h : Fails E false 1 X) (p : Nat) :
    Fails E true p (tFilter :: X) := by
  refine ⟨h.1, fun rest => ?_⟩
  obtain ⟨F, hF⟩ := prim_filt0_cond_err h rest
  exact ⟨F + 1, proj_of_prim_err (Or.inr rfl) hF⟩

/-- `[? c ] X` as the first selector of a right-hand side -/
theorem proj_filt_rhs_fails {E : PErr} {X : List Token} (h : Fails E true lvlProj X) {c : PTree} (hc : WellPrec c)
    (p : Nat) : Fails E true p (tFilter :: (flat false c ++ tRBracket :: X)) := by
  refine ⟨h.1, fun rest => ?_⟩
  obtain ⟨F, hF⟩ := prim_filt0_rhs_err h hc rest
  refine ⟨F + 1, ?_⟩
  show projection _ _ _ = _
  simp only [List.cons_append, List.append_assoc]
  exact proj_of_prim_err (Or.inr rfl) hF

/-- `.* X` as the first selector of a right-hand side -/
theorem proj_ostar_fails {E : PErr} {X : List Token} (h : Fails E true lvlProj X) (p : Nat) :
    Fails E true p (tDotStar :: X) := by
  refine ⟨h.1, fun rest => ?_⟩
  obtain ⟨F, hF⟩ := h.rhs rest
  refine ⟨F + 1, ?_⟩
  show projection _ _ _ = _
  rw [projection.eq_2]
  pm_eval [hF]

/-- `[a:b:c] X` as the first selector of a right-hand side -/
theorem proj_slice_fails {E : PErr} {X : List Token} (h : Fails E true lvlProj X) {a b : Option Token}
    {c : Option (Option Token)} (hok : sliceOK a b c = true) (p : Nat) :
    Fails E true p (tLBracket :: (sliceToks a b c ++ tRBracket :: X)) := by
  refine ⟨h.1, fun rest => ?_⟩
  obtain ⟨F, hF⟩ := h.rhs rest
  refine ⟨F + 1, ?_⟩
  show projection _ _ _ = _
  rw [projection.eq_2]
  pm_eval []
  rw [indexP_slice none hok (X ++ rest)]
  pm_eval [hF]

/-! ## The base cases: a call whose argument count is outside the signature -/

/-- `name()`: every builtin wants at least one argument -/
theorem fails_noArgs {name : Token} (hn : name.type = .unquotedIdentifier) {spec : ArgSpec}
    (hl : lookupBuiltin name.value = some spec) (p : Nat) :
    Fails .invalidFunctionCall false p (name :: tLParen :: [tRParen]) := by
  apply fails_of_prim hard_arity
  intro rest
  refine ⟨2, ?_⟩
  simp only [List.cons_append, List.nil_append]
  rw [prim_function hn]
  exact C02B.function_no_args hl rest

/-- the first token of a non-empty list of well-formed arguments is not `)` -/
theorem flatSep_first {a : PTree} (ha : WellPrec a) (as : List PTree) (rest : List Token) :
    (stOf (flatSep (a :: as) ++ tRParen :: rest)).curr.type ≠ .closeParen := by
  have hwa : wp false a = true := ha
  cases as with
  | nil =>
    obtain ⟨f, hf⟩ := (complete a false hwa).elem hwa (t := tRParen) rest rfl (by decide)
    simpa only [flatSep] using expression_ok_ne_rparen hf
  | cons a' as' =>
    obtain ⟨f, hf⟩ := (complete a false hwa).elem hwa (t := tComma) (flatSep (a' :: as') ++ tRParen :: rest) rfl
      (by decide)
    simpa only [flatSep_cons2, List.append_assoc, List.cons_append] using expression_ok_ne_rparen hf

/-- a builtin with between `mn` and `mx` plain arguments, called with fewer than `mn` or more than `mx` well-formed
    arguments -/
theorem fails_fixed_count {name : Token} (hn : name.type = .unquotedIdentifier) {mn mx : Nat}
    {mk : List INode → INode} (hl : lookupBuiltin name.value = some (.fixed mn mx mk)) {args : List PTree}
    (hw : ∀ a ∈ args, WellPrec a) (h : args.length < mn ∨ mx < args.length) (p : Nat) :
    Fails .invalidFunctionCall false p (name :: tLParen :: (flatSep args ++ [tRParen])) := by
  cases args with
  | nil => exact fails_noArgs hn hl p
  | cons a as =>
    have hb := C02B.fixed_bounds hl
    apply fails_of_prim hard_arity
    intro rest
    have hfn : ∃ f, fnArgs f mn mx [] (stOf (flatSep (a :: as) ++ tRParen :: rest)) =
        .error .invalidFunctionCall := by
      rcases h with h | h
      · exact C02B.fnArgs_too_few mn mx _ (a :: as) (by simp) hw [] (by simpa using h)
      · exact C02B.fnArgs_too_many mn mx hb.2 _ (a :: as) (by simp) hw [] (by simp only [List.length_nil]; omega)
          (by simpa using h)
    obtain ⟨f, hf⟩ := hfn
    have hne := flatSep_first (hw a (by simp)) as rest
    refine ⟨f + 2, ?_⟩
    simp only [List.cons_append, List.append_assoc, List.nil_append]
    rw [prim_function hn, function.eq_2]
    pm_eval [hl, hne, hf]

/-- `sort_by`, `max_by`, `min_by`, `group_by` with a well-formed first argument, an expression reference in second
    position (if there is a second argument), and a number of arguments other than two -/
theorem fails_expArg_count {name : Token} (hn : name.type = .unquotedIdentifier) {mk : INode → INode → INode}
    (hl : lookupBuiltin name.value = some (.expArg mk)) {a : PTree} (ha : WellPrec a)
    {more : List PTree} (hmore : ∀ x ∈ more.head?, ∃ t, x = .ref t ∧ WellPrec t)
    (h : (a :: more).length ≠ 2) (p : Nat) :
    Fails .invalidFunctionCall false p (name :: tLParen :: (flatSep (a :: more) ++ [tRParen])) := by
  apply fails_of_prim hard_arity
  intro rest
  have hwa : wp false a = true := ha
  match more, hmore, h with
  | [], _, _ =>
    obtain ⟨f, hf⟩ := (complete a false hwa).elem hwa (t := tRParen) rest rfl (by decide)
    have hne := expression_ok_ne_rparen hf
    refine ⟨f + 2, ?_⟩
    simp only [flatSep, List.cons_append, List.append_assoc, List.nil_append]
    rw [prim_function hn, function.eq_2]
    pm_eval [hl, hne, hf]
  | [x], _, h => exact absurd rfl h
  | x :: y :: more', hmore, _ =>
    obtain ⟨t, rfl, ht⟩ := hmore x rfl
    have hwt : wp false t = true := ht
    obtain ⟨f, hf⟩ := (complete a false hwa).elem hwa (t := tComma)
      (tAmp :: (flat false t ++ tComma :: (flatSep (y :: more') ++ tRParen :: rest))) rfl (by decide)
    obtain ⟨g, hg⟩ := (complete t false hwt).elem hwt (t := tComma)
      (flatSep (y :: more') ++ tRParen :: rest) rfl (by decide)
    have hf' := expression_mono (Nat.le_max_left f g) hf
    have hg' := expression_mono (Nat.le_max_right f g) hg
    have hne := expression_ok_ne_rparen hf'
    refine ⟨max f g + 2, ?_⟩
    simp only [flatSep_cons2, flat, List.cons_append, List.append_assoc, List.nil_append]
    rw [prim_function hn, function.eq_2]
    pm_eval [hl, hne, hf', hg']

/-- `map` with an expression reference in first position, a well-formed second argument (if any), and a number of
    arguments other than two -/
theorem fails_mapArg_count {name : Token} (hn : name.type = .unquotedIdentifier) {mk : INode → INode → INode}
    (hl : lookupBuiltin name.value = some (.mapArg mk)) {t : PTree} (ht : WellPrec t)
    {more : List PTree} (hmore : ∀ x ∈ more.head?, WellPrec x)
    (h : (PTree.ref t :: more).length ≠ 2) (p : Nat) :
    Fails .invalidFunctionCall false p (name :: tLParen :: (flatSep (.ref t :: more) ++ [tRParen])) := by
  apply fails_of_prim hard_arity
  intro rest
  have hwt : wp false t = true := ht
  match more, hmore, h with
  | [], _, _ =>
    obtain ⟨f, hf⟩ := (complete t false hwt).elem hwt (t := tRParen) rest rfl (by decide)
    refine ⟨f + 2, ?_⟩
    simp only [flatSep, flat, List.cons_append, List.append_assoc, List.nil_append]
    rw [prim_function hn, function.eq_2]
    pm_eval [hl, hf]
  | [x], _, h => exact absurd rfl h
  | x :: y :: more', hmore, _ =>
    have hx : wp false x = true := hmore x rfl
    obtain ⟨f, hf⟩ := (complete t false hwt).elem hwt (t := tComma)
      (flat false x ++ tComma :: (flatSep (y :: more') ++ tRParen :: rest)) rfl (by decide)
    obtain ⟨g, hg⟩ := (complete x false hx).elem hx (t := tComma)
      (flatSep (y :: more') ++ tRParen :: rest) rfl (by decide)
    have hf' := expression_mono (Nat.le_max_left f g) hf
    have hg' := expression_mono (Nat.le_max_right f g) hg
    refine ⟨max f g + 2, ?_⟩
    simp only [flatSep_cons2, flat, List.cons_append, List.append_assoc, List.nil_append]
    rw [prim_function hn, function.eq_2]
    pm_eval [hl, hf', hg']

/-! ## Small concrete checks -/
section Checks
open Grammar.Ex

/-- the identifier `abs` -/
private def nAbs : Token := ⟨.unquotedIdentifier, bs "abs"⟩
/-- the tokens of `abs()` -/
private def abs0 : List Token := [nAbs, tLParen, tRParen]
/-- `abs()` fails with the arity error at every power -/
private theorem abs0_fails (p : Nat) : Fails .invalidFunctionCall false p abs0 :=
  fails_noArgs (name := nAbs) rfl (spec := .fixed 1 1 (callN .abs)) rfl p

/-- `( abs()`, `! abs()`, `[ a, abs()`, `{ k: abs()`, `length( abs()`, `let $x = abs()`, `[* ] . abs()` … fail, whatever
    follows -/
example : Fails .invalidFunctionCall false 1 (tLParen :: abs0) := fails_paren (abs0_fails _) _
example : Fails .invalidFunctionCall false 1 (tNot :: abs0) := fails_not (abs0_fails _) _
example : Fails .invalidFunctionCall false 1 (tLBracket :: (sepPre [idt "a"] ++ abs0)) :=
  fails_multiList (abs0_fails _) (by decide) _
example : Fails .invalidFunctionCall false 1 (tLBrace :: (kvPre tColon [] ++ nAbs :: tColon :: abs0)) :=
  fails_multiHash (abs0_fails _) rfl (fun _ h => by cases h) _
example : Fails .invalidFunctionCall false 1 (⟨.unquotedIdentifier, bs "length"⟩ :: tLParen :: (sepPre [] ++ abs0)) :=
  fails_call_fixed (abs0_fails _) rfl (mn := 1) (mx := 1) (mk := callN .length) rfl (fun _ h => by cases h)
    (by decide) _
example : Fails .invalidFunctionCall false 1
    (tLet :: (kvPre tAssign [] ++ ⟨.variable, bs "$x"⟩ :: tAssign :: abs0)) :=
  fails_let_binding (abs0_fails _) rfl (fun _ h => by cases h) _
example : Fails .invalidFunctionCall false 1 (tArrayStar :: tDot :: abs0) :=
  fails_star0 (proj_dotId_fails (Or.inl rfl) (abs0_fails _)) _
example : LoopFails .invalidFunctionCall 1 (op .or "||" :: abs0) :=
  loop_bin_fails (lvl := lvlOr) rfl (by decide) (abs0_fails _)
example : LoopFails .invalidFunctionCall 1 (tFilter :: abs0) := loop_filt_cond_fails (abs0_fails _) (by decide)
/-- the first tokens of `abs()` -/
example : (stOf (abs0 ++ [])).curr.type ≠ .closeParen := ((abs0_fails 1).first []).1

/-- **Why `Hard` excludes the syntax error.**  `1` is not an expression (`expression` fails on it with
    `unexpectedToken`, whatever follows), and yet `[1]` is one: the closure lemma `fails_multiList` is false for
    `E = unexpectedToken` (`[` followed by a number is an index, not a multi-select list). -/
example : (∀ rest, ∃ F, expression F 1 (stOf ([int "1"] ++ rest)) = .error .unexpectedToken) ∧
    Parser.parse (bs "[1]") = .ok (.smallIndexCurrent 1) := by
  refine ⟨fun rest => ⟨2, ?_⟩, ?_⟩
  · rw [expression_succ_run, primaryExpression.eq_2, bind_ok (get_run _)]; rfl
  · exact C04G.parse_complete (t := .index .icur (int "1")) (by decide) (by decide +kernel)
end Checks

end Jmes.C02CArity
