/-
  Helper lemmas for property C04, item 7: the JSON decoder of `Model/Json.lean` against the JSON text grammar of
  `Jmes/Spec/Lexical.lean` (`JsonText`, RFC 8259 on bytes).

  * `parseStringBody_sound`, `parseNumberTok_sound`, `soundAt` (values / elements / members, by induction on the
    fuel), `decode_sound : Json.decode s = some v → JsonText s`;
  * for numbers also completeness: `parseNumberTok_complete`, `isValidNumber_iff`.
-/
import Jmes.Spec.Lexical
import Jmes.Proofs.Literals
namespace Jmes.JsonGrammar
open Jmes Jmes.Utf8 Jmes.Lexical Jmes.Json Jmes.Literals
set_option linter.unusedSimpArgs false

theorem Ws.nil : Ws [] := by intro b h; cases h
theorem Ws.cons {b : Nat} {w : Bytes} (hb : isWsB b = true) (hw : Ws w) : Ws (b :: w) := by
  intro x hx; simp at hx; rcases hx with rfl | hx
  · exact hb
  · exact hw x hx

theorem isWs_eq (b : Nat) : Json.isWs b = isWsB b := by
  simp only [Json.isWs, isWsB]
  generalize (b == 32) = x
  generalize (b == 9) = y
  generalize (b == 10) = z
  generalize (b == 13) = u
  cases x <;> cases y <;> cases z <;> cases u <;> rfl

theorem skipWs_spec : ∀ s : Bytes, ∃ w, Ws w ∧ s = w ++ skipWs s
  | [] => ⟨[], Ws.nil, rfl⟩
  | b :: t => by
    unfold skipWs
    split
    · rename_i hb
      obtain ⟨w, hw, e⟩ := skipWs_spec t
      exact ⟨b :: w, Ws.cons (by rw [← isWs_eq]; exact hb) hw, by rw [List.cons_append, ← e]⟩
    · exact ⟨[], Ws.nil, rfl⟩

theorem ws_of_skipWs_nil {r : Bytes} (h : (skipWs r).isEmpty = true) : Ws r := by
  obtain ⟨w, hw, e⟩ := skipWs_spec r
  have : skipWs r = [] := by simpa using h
  rw [this, List.append_nil] at e
  rw [e]; exact hw

/-! ### strings -/

theorem hexVal_isHex {b v : Nat} (h : hexVal b = some v) : isHexB b = true := by
  unfold hexVal at h
  simp only [isHexB]
  split at h
  · simp; omega
  · split at h
    · simp; omega
    · split at h
      · simp; omega
      · cases h

theorem hex4_spec {t t' : Bytes} {r : Nat} (h : hex4 t = some (r, t')) :
    ∃ a b c d, t = a :: b :: c :: d :: t' ∧ isHexB a = true ∧ isHexB b = true ∧ isHexB c = true ∧ isHexB d = true := by
  unfold hex4 at h
  split at h
  · rename_i a b c d rest
    split at h
    · rename_i va vb vc vd ha hb hc hd
      simp at h
      refine ⟨a, b, c, d, by rw [h.2], hexVal_isHex ha, hexVal_isHex hb, hexVal_isHex hc, hexVal_isHex hd⟩
    · cases h
  · cases h

theorem JStrBody.chars : ∀ (cs : Bytes) {w : Bytes}, (∀ b ∈ cs, 0x80 ≤ b) → JStrBody w → JStrBody (cs ++ w)
  | [], _, _, hw => hw
  | c :: cs, w, h, hw => by
    have hc := h c (by simp)
    exact JStrBody.char c _ (by omega) (by omega) (by omega) (JStrBody.chars cs (fun b hb => h b (by simp [hb])) hw)

/-- the bytes of a multi-byte rune are all `≥ 0x80` -/
theorem rune_bytes_high {b : Nat} {t : Bytes} (hb : ¬ b < 0x80)
    (hv : ¬ ((decodeRune (b :: t)).1 = RuneError ∧ (decodeRune (b :: t)).2 = 1)) :
    ∀ x ∈ (b :: t).take (decodeRune (b :: t)).2, 0x80 ≤ x := by
  obtain ⟨h1, h2, h3⟩ := decodeRune_valid (b :: t) (by simp) hv
  have htake : (b :: t).take (decodeRune (b :: t)).2 = encodeRune (decodeRune (b :: t)).1 := by
    have key : ∀ (l E R : Bytes), l = E ++ R → l.take E.length = E := by intro l E R h; subst h; simp
    rw [h3]; exact key _ _ _ h2
  rw [htake]
  have hr : 0x80 ≤ (decodeRune (b :: t)).1 := by
    apply Nat.le_of_not_lt
    intro hlt
    rw [Literals.encodeRune_ascii _ hlt] at h2
    simp at h2
    omega
  exact Literals.encodeRune_bytes_ge _ hr

theorem parseStringBody_sound : ∀ (fuel : Nat) (s acc out rest : Bytes),
    parseStringBody fuel s acc = some (out, rest) → ∃ p, s = p ++ rest ∧ JStrBody p
  | 0, _, _, _, _ => by intro h; simp [parseStringBody] at h
  | _ + 1, [], _, _, _ => by intro h; simp [parseStringBody] at h
  | fuel + 1, b :: t, acc, out, rest => by
    intro h
    rw [parseStringBody.eq_def] at h
    simp only [] at h
    have esc2 : ∀ (e : Nat) (t' acc' : Bytes), e ∈ [0x22, 0x5C, 0x2F, 0x62, 0x66, 0x6E, 0x72, 0x74] →
        parseStringBody fuel t' acc' = some (out, rest) → ∃ p, 0x5C :: e :: t' = p ++ rest ∧ JStrBody p := by
      intro e t' acc' he h'
      obtain ⟨p, hp1, hp2⟩ := parseStringBody_sound fuel _ _ _ _ h'
      exact ⟨0x5C :: e :: p, by rw [hp1]; rfl, JStrBody.esc e p he hp2⟩
    by_cases hq : b = 0x22
    · rw [if_pos hq] at h; cases h; subst hq
      exact ⟨[0x22], rfl, JStrBody.close⟩
    rw [if_neg hq] at h
    by_cases hctl : b < 0x20
    · rw [if_pos hctl] at h; cases h
    rw [if_neg hctl] at h
    by_cases hbs : b = 0x5C
    · rw [if_pos hbs] at h; subst hbs
      cases t with
      | nil => cases h
      | cons e t' =>
        dsimp only at h
        by_cases he : e = 0x22
        · rw [if_pos he] at h; subst he; exact esc2 _ _ _ (by simp) h
        rw [if_neg he] at h
        by_cases he : e = 0x5C
        · rw [if_pos he] at h; subst he; exact esc2 _ _ _ (by simp) h
        rw [if_neg he] at h
        by_cases he : e = 0x2F
        · rw [if_pos he] at h; subst he; exact esc2 _ _ _ (by simp) h
        rw [if_neg he] at h
        by_cases he : e = 0x62
        · rw [if_pos he] at h; subst he; exact esc2 _ _ _ (by simp) h
        rw [if_neg he] at h
        by_cases he : e = 0x66
        · rw [if_pos he] at h; subst he; exact esc2 _ _ _ (by simp) h
        rw [if_neg he] at h
        by_cases he : e = 0x6E
        · rw [if_pos he] at h; subst he; exact esc2 _ _ _ (by simp) h
        rw [if_neg he] at h
        by_cases he : e = 0x72
        · rw [if_pos he] at h; subst he; exact esc2 _ _ _ (by simp) h
        rw [if_neg he] at h
        by_cases he : e = 0x74
        · rw [if_pos he] at h; subst he; exact esc2 _ _ _ (by simp) h
        rw [if_neg he] at h
        by_cases he : e = 0x75
        · rw [if_pos he] at h; subst he
          split at h
          · cases h
          · rename_i r t'' hh
            obtain ⟨a, b, c, d, e1, ha, hb, hc, hd⟩ := hex4_spec hh
            have one : ∀ acc', parseStringBody fuel t'' acc' = some (out, rest) →
                ∃ p, 0x5C :: 0x75 :: t' = p ++ rest ∧ JStrBody p := by
              intro acc' h'
              obtain ⟨p, hp1, hp2⟩ := parseStringBody_sound fuel _ _ _ _ h'
              exact ⟨0x5C :: 0x75 :: a :: b :: c :: d :: p, by rw [e1, hp1]; rfl,
                JStrBody.uni a b c d p ha hb hc hd hp2⟩
            split at h
            · split at h
              · rename_i t3
                split at h
                · rename_i r2 t4 hh2
                  obtain ⟨a2, b2, c2, d2, e2, ha2, hb2, hc2, hd2⟩ := hex4_spec hh2
                  split at h
                  · obtain ⟨p, hp1, hp2⟩ := parseStringBody_sound fuel _ _ _ _ h
                    exact ⟨0x5C :: 0x75 :: a :: b :: c :: d :: 0x5C :: 0x75 :: a2 :: b2 :: c2 :: d2 :: p,
                      by rw [e1, e2, hp1]; rfl,
                      JStrBody.uni a b c d _ ha hb hc hd (JStrBody.uni a2 b2 c2 d2 p ha2 hb2 hc2 hd2 hp2)⟩
                  · exact one _ h
                · cases h
              · exact one _ h
            · exact one _ h
        · rw [if_neg he] at h; cases h
    rw [if_neg hbs] at h
    by_cases hlo : b < 0x80
    · rw [if_pos hlo] at h
      obtain ⟨p, hp1, hp2⟩ := parseStringBody_sound fuel _ _ _ _ h
      exact ⟨b :: p, by rw [hp1]; rfl, JStrBody.char b p (by omega) hq hbs hp2⟩
    rw [if_neg hlo] at h
    split at h
    · obtain ⟨p, hp1, hp2⟩ := parseStringBody_sound fuel _ _ _ _ h
      exact ⟨b :: p, by rw [hp1]; rfl, JStrBody.char b p (by omega) hq hbs hp2⟩
    · rename_i hv
      obtain ⟨p, hp1, hp2⟩ := parseStringBody_sound fuel _ _ _ _ h
      have hhigh := rune_bytes_high hlo hv
      refine ⟨(b :: t).take (decodeRune (b :: t)).2 ++ p, ?_, JStrBody.chars _ hhigh hp2⟩
      rw [List.append_assoc, ← hp1, List.take_append_drop]


/-! ### numbers -/

theorem isDigit_eq (b : Nat) : Dec.isDigit b = isDigitB b := rfl

def NoDigitHead (rest : Bytes) : Prop := ∀ b t, rest = b :: t → isDigitB b = false

theorem takeDigits_sound : ∀ s : Bytes, s = (takeDigits s).1 ++ (takeDigits s).2 ∧ DigitStar (takeDigits s).1 ∧
    NoDigitHead (takeDigits s).2
  | [] => by simp [takeDigits, DigitStar, NoDigitHead]
  | b :: t => by
    have ih := takeDigits_sound t
    unfold takeDigits
    by_cases h : Dec.isDigit b = true
    · simp only [h, if_true]
      refine ⟨by simp; exact ih.1, ?_, ih.2.2⟩
      intro x hx
      simp at hx
      rcases hx with rfl | hx
      · exact h
      · exact ih.2.1 x hx
    · have h' : Dec.isDigit b = false := by simpa using h
      simp only [h', Bool.false_eq_true, if_false]
      constructor
      · rfl
      constructor
      · intro x hx; cases hx
      · intro b' t' e; cases e; simpa [isDigit_eq] using h'

theorem takeDigits_complete : ∀ (ds rest : Bytes), DigitStar ds → NoDigitHead rest →
    takeDigits (ds ++ rest) = (ds, rest)
  | [], rest, _, hr => by
    cases rest with
    | nil => rfl
    | cons b t =>
      have := hr b t rfl
      simp [takeDigits, isDigit_eq, this]
  | d :: ds, rest, hd, hr => by
    have h1 : Dec.isDigit d = true := hd d (by simp)
    have ih := takeDigits_complete ds rest (fun b hb => hd b (by simp [hb])) hr
    simp [takeDigits, h1, ih]

theorem intPart_sound {s p r : Bytes} (h : intPart s = some (p, r)) : s = p ++ r ∧ JInt p := by
  unfold intPart at h
  split at h
  · simp at h; obtain ⟨rfl, rfl⟩ := h
    exact ⟨rfl, Or.inl rfl⟩
  · rename_i b t _
    split at h
    · rename_i hb
      simp at h
      have sp := takeDigits_sound (b :: t)
      have hd : Dec.isDigit b = true := by simp [Dec.isDigit]; omega
      have e : takeDigits (b :: t) = (b :: (takeDigits t).1, (takeDigits t).2) := by
        rw [takeDigits]; simp [hd]
      rw [e] at h sp
      simp at h
      obtain ⟨rfl, rfl⟩ := h
      refine ⟨sp.1, Or.inr ⟨b, _, rfl, hb.1, hb.2, ?_⟩⟩
      intro x hx; exact sp.2.1 x (by simp [hx])
    · cases h
  · cases h

theorem fracPart_sound {s p r : Bytes} (h : fracPart s = some (p, r)) : s = p ++ r ∧ JFrac p := by
  unfold fracPart at h
  split at h
  · rename_i t
    have sp := takeDigits_sound t
    simp only [] at h
    split at h
    · cases h
    · rename_i hne
      simp at h; obtain ⟨rfl, rfl⟩ := h
      refine ⟨by simp; exact sp.1, Or.inr ⟨_, rfl, ?_, sp.2.1⟩⟩
      intro he; rw [he] at hne; simp at hne
  · simp at h; obtain ⟨rfl, rfl⟩ := h; exact ⟨rfl, Or.inl rfl⟩

theorem expPart_sound {s p r : Bytes} (h : expPart s = some (p, r)) : s = p ++ r ∧ JExp p := by
  unfold expPart at h
  split at h
  · rename_i e t
    split at h
    · rename_i he
      split at h
      rename_i sg t' heq
      have hsg : t = sg ++ t' ∧ (sg = [] ∨ sg = [0x2B] ∨ sg = [0x2D]) := by
        split at heq
        · simp at heq; obtain ⟨rfl, rfl⟩ := heq; simp
        · simp at heq; obtain ⟨rfl, rfl⟩ := heq; simp
        · simp at heq; obtain ⟨rfl, rfl⟩ := heq; simp
      have sp := takeDigits_sound t'
      simp only [] at h
      split at h
      · cases h
      · rename_i hne
        simp at h; obtain ⟨rfl, rfl⟩ := h
        refine ⟨by rw [hsg.1]; simp; exact sp.1, Or.inr ⟨e, sg, _, rfl, he, hsg.2, ?_, sp.2.1⟩⟩
        intro he'; rw [he'] at hne; simp at hne
    · simp at h; obtain ⟨rfl, rfl⟩ := h; exact ⟨rfl, Or.inl rfl⟩
  · simp at h; obtain ⟨rfl, rfl⟩ := h; exact ⟨rfl, Or.inl rfl⟩

/-- **the number scanner accepts only RFC 8259 numbers** -/
theorem parseNumberTok_sound {s n r : Bytes} (h : parseNumberTok s = some (n, r)) : s = n ++ r ∧ JNumber n := by
  rw [parseNumberTok_stages] at h
  have hs := signPart_spec s
  split at h
  · cases h
  · rename_i ip s2 hi
    split at h
    · cases h
    · rename_i fp s3 hf
      split at h
      · cases h
      · rename_i ep s4 he
        simp at h
        obtain ⟨rfl, rfl⟩ := h
        obtain ⟨i1, i2⟩ := intPart_sound hi
        obtain ⟨f1, f2⟩ := fracPart_sound hf
        obtain ⟨e1, e2⟩ := expPart_sound he
        refine ⟨?_, _, _, _, _, by simp [List.append_assoc], hs.2.symm, i2, f2, e2⟩
        · conv => lhs; rw [hs.1, i1, f1, e1]
          simp [List.append_assoc]
        

/-! #### completeness for numbers -/

theorem digits_head {ds : Bytes} (h : Digits ds) : ∃ d t, ds = d :: t ∧ isDigitB d = true ∧ DigitStar t := by
  obtain ⟨hne, hall⟩ := h
  match ds, hne with
  | d :: t, _ => exact ⟨d, t, rfl, hall d (by simp), fun b hb => hall b (by simp [hb])⟩

theorem expPart_complete {e : Bytes} (h : JExp e) : expPart e = some (e, []) := by
  rcases h with rfl | ⟨c, sg, ds, rfl, hc, hsg, hds⟩
  · rfl
  · obtain ⟨d, t, rfl, hd, ht⟩ := digits_head hds
    have hd' : 0x30 ≤ d ∧ d ≤ 0x39 := by simpa [isDigitB] using hd
    have htd : takeDigits (d :: t) = (d :: t, []) := by
      have := takeDigits_complete (d :: t) [] hds.2 (by intro b t e; cases e)
      simpa using this
    unfold expPart
    simp only [hc, if_true]
    rcases hsg with rfl | rfl | rfl
    · have e1 : ¬ d = 0x2B := by omega
      have e2 : ¬ d = 0x2D := by omega
      simp [htd]
      split
      · rename_i heq; simp at heq; omega
      · rename_i heq; simp at heq; omega
      · simp [htd]
    · simp [htd]
    · simp [htd]

theorem fracPart_complete {f rest : Bytes} (h : JFrac f) (hr : NoDigitHead rest) (hdot : ∀ t, rest ≠ 0x2E :: t) :
    fracPart (f ++ rest) = some (f, rest) := by
  rcases h with rfl | ⟨ds, rfl, hds⟩
  · unfold fracPart
    split
    · rename_i t heq; exact absurd heq (hdot t)
    · rfl
  · have htd := takeDigits_complete ds rest hds.2 hr
    unfold fracPart
    simp only [List.cons_append, htd]
    have : ds.isEmpty = false := by
      cases ds with
      | nil => exact absurd rfl hds.1
      | cons => rfl
    simp [this]

theorem intPart_complete {i rest : Bytes} (h : JInt i) (hr : NoDigitHead rest) :
    intPart (i ++ rest) = some (i, rest) := by
  rcases h with rfl | ⟨d, ds, rfl, h1, h2, hds⟩
  · rfl
  · have hd : isDigitB d = true := by simp [isDigitB]; omega
    have htd := takeDigits_complete (d :: ds) rest
      (by intro b hb; simp at hb; rcases hb with rfl | hb; exact hd; exact hds b hb) hr
    unfold intPart
    simp only [List.cons_append] at htd ⊢
    split
    · rename_i heq; simp at heq; omega
    · rename_i b t _ heq
      simp at heq
      obtain ⟨rfl, rfl⟩ := heq
      simp [h1, h2, htd]
    · rename_i heq; cases heq

theorem jexp_head {e : Bytes} (h : JExp e) : NoDigitHead e ∧ ∀ t, e ≠ 0x2E :: t := by
  rcases h with rfl | ⟨c, sg, ds, rfl, hc, _, _⟩
  · exact ⟨(by intro b t e; cases e), (by intro t e; cases e)⟩
  · refine ⟨?_, ?_⟩
    · intro b t e; simp at e; rcases hc with rfl | rfl <;> (rw [← e.1]; rfl)
    · intro t e; simp at e; rcases hc with rfl | rfl <;> omega

theorem jfrac_exp_head {f e : Bytes} (hf : JFrac f) (he : JExp e) : NoDigitHead (f ++ e) := by
  rcases hf with rfl | ⟨ds, rfl, _⟩
  · exact (jexp_head he).1
  · intro b t h; simp at h; rw [← h.1]; rfl

theorem parseNumberTok_complete {s : Bytes} (h : JNumber s) : parseNumberTok s = some (s, []) := by
  obtain ⟨sg, i, f, e, rfl, hsg, hi, hf, he⟩ := h
  rw [parseNumberTok_stages]
  have hi0 : ∃ d t, i = d :: t ∧ 0x30 ≤ d ∧ d ≤ 0x39 := by
    rcases hi with rfl | ⟨d, ds, rfl, h1, h2, _⟩
    · exact ⟨0x30, [], rfl, by omega, by omega⟩
    · exact ⟨d, ds, rfl, by omega, h2⟩
  have hsign : signPart (sg ++ i ++ f ++ e) = (sg, i ++ (f ++ e)) := by
    obtain ⟨d, t, rfl, h1, h2⟩ := hi0
    rcases hsg with rfl | rfl
    · unfold signPart
      simp only [List.nil_append, List.cons_append]
      split
      · rename_i heq; simp at heq; omega
      · simp
    · simp [signPart]
  rw [hsign]
  simp only []
  rw [intPart_complete hi (jfrac_exp_head hf he)]
  simp only []
  rw [fracPart_complete hf (jexp_head he).1 (jexp_head he).2]
  simp only []
  rw [expPart_complete he]

/-- **`parseNumberTok` accepts exactly the RFC 8259 number grammar** -/
theorem isValidNumber_iff (s : Bytes) : isValidNumber s = true ↔ JNumber s := by
  constructor
  · intro h
    unfold isValidNumber at h
    split at h
    · rename_i n heq
      have := parseNumberTok_sound heq
      rw [List.append_nil] at this
      rw [this.1]; exact this.2
    · cases h
  · intro h
    unfold isValidNumber
    rw [parseNumberTok_complete h]

-- `-12.5e+3` is a number, `01` and `1.` and `.5` and `+1` are not
example : isValidNumber [0x2D, 0x31, 0x32, 0x2E, 0x35, 0x65, 0x2B, 0x33] = true := by decide
example : ¬ JNumber [0x30, 0x31] := fun h => by have := (isValidNumber_iff _).2 h; revert this; decide
example : ¬ JNumber [0x31, 0x2E] := fun h => by have := (isValidNumber_iff _).2 h; revert this; decide
example : ¬ JNumber [0x2E, 0x35] := fun h => by have := (isValidNumber_iff _).2 h; revert this; decide
example : ¬ JNumber [0x2B, 0x31] := fun h => by have := (isValidNumber_iff _).2 h; revert this; decide


/-! ### values -/

/-- the three soundness statements at a given fuel -/
structure SoundAt (fuel : Nat) : Prop where
  value : ∀ depth s v r, parseValue fuel depth s = some (v, r) → ∃ w p, Ws w ∧ JValue p ∧ s = w ++ p ++ r
  elems : ∀ depth s acc xs r, parseElems fuel depth s acc = some (xs, r) → ∃ p, JElems p ∧ s = p ++ r
  members : ∀ depth s acc kvs r, parseMembers fuel depth s acc = some (kvs, r) → ∃ p, JMembers p ∧ s = p ++ r

theorem soundAt_zero : SoundAt 0 where
  value := by intro d s v r h; simp [parseValue] at h
  elems := by intro d s acc xs r h; simp [parseElems] at h
  members := by intro d s acc xs r h; simp [parseMembers] at h

theorem soundAt_succ (fuel : Nat) (ih : SoundAt fuel) : SoundAt (fuel + 1) where
  value := by
    intro depth s v r h
    obtain ⟨w, hw, hs⟩ := skipWs_spec s
    rw [parseValue] at h
    split at h
    · cases h
    · rename_i t heq; cases h
      exact ⟨w, _, hw, JValue.null, by rw [hs, heq]; simp⟩
    · rename_i t heq; cases h
      exact ⟨w, _, hw, JValue.true, by rw [hs, heq]; simp⟩
    · rename_i t heq; cases h
      exact ⟨w, _, hw, JValue.false, by rw [hs, heq]; simp⟩
    · rename_i t heq
      cases hp : parseStringBody (t.length + 1) t [] with
      | none => rw [hp] at h; cases h
      | some x =>
        obtain ⟨b, r'⟩ := x
        rw [hp] at h; simp at h
        obtain ⟨rfl, rfl⟩ := h
        obtain ⟨p, hp1, hp2⟩ := parseStringBody_sound _ _ _ _ _ hp
        exact ⟨w, _, hw, JValue.str p hp2, by rw [hs, heq, hp1]; simp⟩
    · rename_i t heq
      split at h
      · cases h
      · split at h
        · rename_i r0 heq2
          cases h
          obtain ⟨w2, hw2, hs2⟩ := skipWs_spec t
          rw [heq2] at hs2
          exact ⟨w, _, hw, JValue.arrEmpty w2 hw2, by rw [hs, heq, hs2]; simp⟩
        · cases hp : parseElems fuel (depth + 1) t [] with
          | none => rw [hp] at h; cases h
          | some x =>
            obtain ⟨xs, r'⟩ := x
            rw [hp] at h; simp at h
            obtain ⟨rfl, rfl⟩ := h
            obtain ⟨p, hp1, hp2⟩ := ih.elems _ _ _ _ _ hp
            exact ⟨w, _, hw, JValue.arr p hp1, by rw [hs, heq, hp2]; simp⟩
    · rename_i t heq
      split at h
      · cases h
      · split at h
        · rename_i r0 heq2
          cases h
          obtain ⟨w2, hw2, hs2⟩ := skipWs_spec t
          rw [heq2] at hs2
          exact ⟨w, _, hw, JValue.objEmpty w2 hw2, by rw [hs, heq, hs2]; simp⟩
        · cases hp : parseMembers fuel (depth + 1) t [] with
          | none => rw [hp] at h; cases h
          | some x =>
            obtain ⟨xs, r'⟩ := x
            rw [hp] at h; simp at h
            obtain ⟨rfl, rfl⟩ := h
            obtain ⟨p, hp1, hp2⟩ := ih.members _ _ _ _ _ hp
            exact ⟨w, _, hw, JValue.obj p hp1, by rw [hs, heq, hp2]; simp⟩
    · rename_i b t _ _ _ _ _ _ heq
      split at h
      · cases hp : parseNumberTok (b :: t) with
        | none => rw [hp] at h; cases h
        | some x =>
          obtain ⟨n, r'⟩ := x
          rw [hp] at h; simp at h
          obtain ⟨rfl, rfl⟩ := h
          obtain ⟨hp1, hp2⟩ := parseNumberTok_sound hp
          exact ⟨w, _, hw, JValue.num n hp2, by rw [hs, heq, hp1]; simp⟩
      · cases h
  elems := by
    intro depth s acc xs r h
    rw [parseElems] at h
    split at h
    · cases h
    · rename_i v r1 hv
      obtain ⟨w1, p, hw1, hp, hs⟩ := ih.value _ _ _ _ hv
      obtain ⟨w2, hw2, hs2⟩ := skipWs_spec r1
      split at h
      · rename_i r' heq
        rw [heq] at hs2
        obtain ⟨q, hq1, hq2⟩ := ih.elems _ _ _ _ _ h
        exact ⟨_, JElems.cons w1 p w2 q hw1 hp hw2 hq1, by rw [hs, hs2, hq2]; simp⟩
      · rename_i r' heq
        rw [heq] at hs2
        cases h
        exact ⟨_, JElems.last w1 p w2 hw1 hp hw2, by rw [hs, hs2]; simp⟩
      · cases h
  members := by
    intro depth s acc kvs r h
    obtain ⟨w1, hw1, hs1⟩ := skipWs_spec s
    rw [parseMembers] at h
    split at h
    · rename_i t heq
      rw [heq] at hs1
      split at h
      · cases h
      · rename_i k r0 hk
        obtain ⟨kb, hk1, hk2⟩ := parseStringBody_sound _ _ _ _ _ hk
        obtain ⟨w2, hw2, hs2⟩ := skipWs_spec r0
        split at h
        · rename_i r1 heq2
          rw [heq2] at hs2
          split at h
          · cases h
          · rename_i v r2 hv
            obtain ⟨w3, p, hw3, hp, hs3⟩ := ih.value _ _ _ _ hv
            obtain ⟨w4, hw4, hs4⟩ := skipWs_spec r2
            split at h
            · rename_i r3 heq3
              rw [heq3] at hs4
              obtain ⟨q, hq1, hq2⟩ := ih.members _ _ _ _ _ h
              exact ⟨_, JMembers.cons w1 kb w2 w3 p w4 q hw1 hk2 hw2 hw3 hp hw4 hq1,
                by rw [hs1, hk1, hs2, hs3, hs4, hq2]; simp⟩
            · rename_i r3 heq3
              rw [heq3] at hs4
              cases h
              exact ⟨_, JMembers.last w1 kb w2 w3 p w4 hw1 hk2 hw2 hw3 hp hw4,
                by rw [hs1, hk1, hs2, hs3, hs4]; simp⟩
            · cases h
        · cases h
    · cases h

theorem soundAt : ∀ fuel, SoundAt fuel
  | 0 => soundAt_zero
  | f + 1 => soundAt_succ f (soundAt f)

/-- **The JSON decoder accepts only JSON texts** (whatever the nesting depth: beyond `maxDepth` it rejects) -/
theorem decode_sound {s : Bytes} {v : Val} (h : Json.decode s = some v) : JsonText s := by
  unfold Json.decode at h
  split at h
  · rename_i v' r hv
    split at h
    · rename_i hr
      obtain ⟨w, p, hw, hp, hs⟩ := (soundAt _).value _ _ _ _ hv
      exact ⟨w, p, r, hs, hw, hp, ws_of_skipWs_nil hr⟩
    · cases h
  · cases h

/-! ### non-vacuity -/

-- `parseStringBody_sound`: the body `a\né"` is accepted, and is a `JStrBody`
example : (parseStringBody 20 [0x61, 0x5C, 0x6E, 0x5C, 0x75, 0x30, 0x30, 0x65, 0x39, 0x22] []).isSome = true := by
  decide
example : JStrBody [0x61, 0x5C, 0x6E, 0x5C, 0x75, 0x30, 0x30, 0x65, 0x39, 0x22] :=
  JStrBody.char 0x61 _ (by decide) (by decide) (by decide)
    (JStrBody.esc 0x6E _ (by simp) (JStrBody.uni 0x30 0x30 0x65 0x39 _ rfl rfl rfl rfl JStrBody.close))
-- a raw control character and an unknown escape `\x` are rejected
example : parseStringBody 20 [0x09, 0x22] [] = none := by decide
example : parseStringBody 20 [0x5C, 0x78, 0x22] [] = none := by decide
-- `decode_sound`: `{"a": [1, null]}` decodes, hence is a JSON text
example : JsonText [0x7B, 0x22, 0x61, 0x22, 0x3A, 0x20, 0x5B, 0x31, 0x2C, 0x20, 0x6E, 0x75, 0x6C, 0x6C, 0x5D, 0x7D] := by
  have hs : (Json.decode [0x7B, 0x22, 0x61, 0x22, 0x3A, 0x20, 0x5B, 0x31, 0x2C, 0x20, 0x6E, 0x75, 0x6C, 0x6C, 0x5D, 0x7D]).isSome
      = true := by decide +kernel
  cases h : Json.decode [0x7B, 0x22, 0x61, 0x22, 0x3A, 0x20, 0x5B, 0x31, 0x2C, 0x20, 0x6E, 0x75, 0x6C, 0x6C, 0x5D, 0x7D] with
  | none => rw [h] at hs; cases hs
  | some v => exact decode_sound h
-- `[1,]` and `{"a" 1}` are rejected
example : Json.decode [0x5B, 0x31, 0x2C, 0x5D] = none := by decide +kernel
example : Json.decode [0x7B, 0x22, 0x61, 0x22, 0x20, 0x31, 0x7D] = none := by decide +kernel

end Jmes.JsonGrammar
