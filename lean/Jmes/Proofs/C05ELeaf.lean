import Jmes.Proofs.C05ELemmas
namespace Jmes.C05ELeaf
open Jmes.Dec Jmes.C05ELemmas Jmes.C05CLemmas
open Jmes.C20B Jmes.C05

/-- **what `toDecimal` makes of a regular number text, explicitly**: sign of the text, digit string with its `ndrop` lowest
    digits rounded away half-even, exponent of the last kept digit -/
theorem toDecimal_regular_explicit {t : Bytes} (h : Regular t) :
    toDecimal (.num (.jnum t)) = some (normalize (.fin (numParts t).neg
      (rhe (numParts t).mant (ndrop (numParts t).mant)) ((ratRaw t).2 + ((ndrop (numParts t).mant : Nat) : Int)))) := by
  obtain ⟨neg, b, ip, fp, ex, rfl, hwf⟩ := jnumber_numText h.gram
  have hb : isDigit b = true := hwf.1 b (List.mem_cons_self ..)
  have hparts := numParts_numText neg b ip fp ex hwf
  have hraw := ratRaw_numText neg b ip fp ex hwf
  have hef := h.efield
  have hlo := h.lo
  have hhi := h.hi
  rw [hparts] at hef hhi
  rw [hraw] at hlo hhi
  rw [round34_signed] at hhi
  simp only [decRat] at hhi hlo hef
  rw [hparts, hraw]
  simp only []
  generalize hVdef : dval 0 ((b :: ip) ++ fp) = V at *
  have main : numTextExp fp ex + ((ndrop V : Nat) : Int) + (if rhe V (ndrop V) ≤ MAXSIG then 0 else 1) ≤ EMAX →
      toDecimal (.num (.jnum (numText neg (b :: ip) fp ex))) =
        some (normalize (.fin neg (rhe V (ndrop V)) (numTextExp fp ex + ((ndrop V : Nat) : Int)))) := by
    intro hhi
    have hp := parseNumber_round neg true b ip fp ex hwf hef hlo (by rw [hVdef]; exact hhi)
    simp only [toDecimal]
    rw [parse_numText neg b ip fp ex hb, hp, hVdef]
  rcases hhi with hhi | hroom
  · exact main hhi
  · have hVm : V ≤ MAXSIG := Nat.le_trans (Nat.le_mul_of_pos_right _ (Nat.pow_pos (by decide))) hroom
    by_cases hE : numTextExp fp ex ≤ EMAX
    · apply main
      rw [ndrop_zero hVm, rhe_zero]
      simp only [hVm, if_true]
      omega
    · rw [ndrop_zero hVm, rhe_zero]
      simp only [toDecimal]
      rw [parse_numText neg b ip fp ex hb]
      by_cases hv0 : V = 0
      · rw [parseNumber_zero neg true b ip fp ex hwf (Or.inl (by rw [hVdef]; exact hv0)), hv0, normalize_zero]
      · have := parseNumber_high neg true b ip fp ex hwf hef (by rw [hVdef]; exact hVm) (by rw [hVdef]; exact hv0) (by omega)
        rw [this, hVdef]
        simp only [hroom, if_true]
        simp

theorem ratRaw_natAbs (t : Bytes) : (ratRaw t).1.natAbs = (numParts t).mant := by
  simp only [ratRaw]; split <;> simp

theorem kdrop_of_lo {V : Nat} {E : Int} (h : EMIN ≤ E) : kdrop V E = ndrop V := by
  unfold kdrop
  have : (EMIN - E).toNat = 0 := by omega
  rw [this]; omega

/-- a regular number text does not overflow: its exact value is below `(MAXSIG + ½)·10^EMAX` -/
theorem regular_not_overflows {t : Bytes} (h : Regular t) : ¬ OverflowsD (numParts t).mant 1 (ratRaw t).2 := by
  have hlo := h.lo
  have hhi := h.hi
  simp only [round34, ratRaw_natAbs] at hhi
  generalize (numParts t).mant = V at *
  generalize (ratRaw t).2 = E at *
  by_cases hc : MAXSIG < V
  · rw [overflows_iff_exponent V E hc, kdrop_of_lo hlo]
    rcases hhi with h1 | h2
    · omega
    · have : V ≤ V * 10 ^ (E - EMAX).toNat := Nat.le_mul_of_pos_right _ (Nat.pow_pos (by decide))
      omega
  · have hc' : V ≤ MAXSIG := by omega
    rw [overflows_small V E hc']
    rcases hhi with h1 | h2
    · rw [ndrop_zero hc', rhe_zero] at h1
      simp only [hc', if_true] at h1
      intro h; omega
    · intro h; omega

/-- **a number text is ROUNDED FIRST**: `toDecimal` of a regular `json.Number` text is the rounding function of the format
    (`roundN`, the same one every operator ends with: half-even to the longest coefficient `≤ MAXSIG`) applied to the exact
    rational value `± mant · 10^E` of the text -/
theorem toDecimal_regular_roundN {t : Bytes} (h : Regular t) :
    toDecimal (.num (.jnum t)) = some (roundN (numParts t).neg (numParts t).mant (ratRaw t).2) := by
  rw [toDecimal_regular_explicit h, roundN_eq, if_neg (regular_not_overflows h), kdrop_of_lo h.lo]

/-- … so it is a number of the format -/
theorem good_jnum_regular {t : Bytes} (h : Regular t) : Good (.num (.jnum t)) := by
  obtain ⟨c', e', hv, hrep⟩ := C05C.round_result_representable (numParts t).neg _ _ (regular_not_overflows h)
  have hd := toDecimal_regular_roundN h
  rw [hv] at hd
  refine ⟨Val.noFloat_jnum _, fun d hd' => ?_⟩
  rw [hd] at hd'
  cases hd'
  obtain ⟨c, e, heq, hz, hk, _⟩ := (denotes_normalize (numParts t).neg c' e').unpack
  exact ⟨_, c, e, heq, denotes_fits hk hz hrep⟩

/-- a text too small to be told from zero is a zero -/
theorem good_jnum_tiny {t : Bytes} (h : Tiny t) : Good (.num (.jnum t)) :=
  ⟨Val.noFloat_jnum _, fun d hd => by
    rw [toDecimal_tiny h] at hd; cases hd; exact ⟨_, 0, 0, rfl, fits_zero 0⟩⟩

/-- a text too large for the format is not a number for the operators (they answer `invalid-type`) -/
theorem good_jnum_huge {t : Bytes} (h : Huge t) : Good (.num (.jnum t)) :=
  good_of_notnum (Val.noFloat_jnum _) (toDecimal_huge h)

/-- a Go integer (up to 34 digits: every `int64` / `uint64`) -/
theorem good_int (k : IntKind) (i : Int) (h : i.natAbs ≤ MAXSIG) : Good (.num (.int k i)) := by
  refine ⟨Val.noFloat_int _ _, fun d hd => ?_⟩
  simp only [toDecimal, Option.some.injEq] at hd
  subst hd
  obtain ⟨c, e, heq, hz, hk, _⟩ := (denotes_ofInt i).unpack
  exact ⟨_, c, e, heq, denotes_fits hk hz (fits_of_le h (by decide) (by decide))⟩

/-- a `decimal128.Decimal` that is a finite number of the format -/
theorem good_dec (n : Bool) (c : Nat) (e : Int) (h : Representable c e) : Good (.num (.dec (.fin n c e))) :=
  good_dec_of_denotes (denotes_fin n c e) h

end Jmes.C05ELeaf
