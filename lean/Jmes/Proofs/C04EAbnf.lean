/-
  C04 (fourth part), helpers for the comparison of the declarative grammar (`Spec/Grammar.lean`: Go's binding powers)
  with the published ABNF: surgery on well-formed parse trees.

  The ABNF is ambiguous (`expression = expression "||" expression / "!" expression / expression "." identifier …`);
  the declarative grammar is not.  To show that every ABNF sentence is the printing of a well-formed tree one has to
  re-associate: given well-formed trees for the parts, build a well-formed tree for the whole.

  * `Ext` — a form with a left operand, without that operand ("extension": `· op r`, `·.name`, `·[n]`, `·[*] rhs`, …);
    every tree is a leaf or `E.mk l`;
  * `attach E T` — append the extension `E` to the tokens of `T`: `E` is applied at the deepest point of the right
    spine of `T` where its level allows (`attach_spec`);
  * `pre K T` — put a prefix operator (`!`, `-`, `+`) in front of the tokens of `T`: it is applied to the longest
    piece of the left spine that binds tighter (`pre_spec`);
  * `merge op Tl Tr` — the tokens of `Tl`, the binary operator `op`, the tokens of `Tr` (`merge_spec`).
-/
import Jmes.Proofs.GrammarS
namespace Jmes.C04EAbnf
open Jmes Jmes.Grammar Jmes.GrammarF0 Jmes.GrammarS
set_option linter.unusedSimpArgs false

/-- a form with a left operand, without the operand -/
inductive Ext where
  | bin (op : Token) (r : PTree)
  | dotId (r : PTree)
  | dotList (es : List PTree)
  | dotHash (kvs : List (Token × PTree))
  | dotStarList
  | index (n : Token)
  | star (rhs : PTree)
  | ostar (rhs : PTree)
  | flat (rhs : PTree)
  | filt (c rhs : PTree)
  | slice (a b : Option Token) (c : Option (Option Token)) (rhs : PTree)

namespace Ext

def mk : Ext → PTree → PTree
  | .bin op r, l => .bin op l r
  | .dotId r, l => .dotId l r
  | .dotList es, l => .dotList l es
  | .dotHash kvs, l => .dotHash l kvs
  | .dotStarList, l => .dotStarList l
  | .index n, l => .index l n
  | .star rhs, l => .star l rhs
  | .ostar rhs, l => .ostar l rhs
  | .flat rhs, l => .flat l rhs
  | .filt c rhs, l => .filt l c rhs
  | .slice a b c rhs, l => .slice l a b c rhs

def lvl : Ext → Nat
  | .bin op _ => (binLevel op.type).getD 0
  | .dotId _ | .dotList _ | .dotHash _ | .dotStarList | .ostar _ => lvlDot
  | .index _ | .star _ | .slice .. => lvlBracket
  | .flat _ => lvlFlatten
  | .filt .. => lvlFilter

/-- `rlevel` of the form (it does not depend on the left operand) -/
def rlvl : Ext → Nat
  | .bin op r => min ((binLevel op.type).getD 0) (rlevel r)
  | .dotId r => min lvlDot (rlevel r)
  | .star _ | .ostar _ | .flat _ | .filt .. | .slice .. => lvlProj
  | _ => top

def rhsOK (rhs : PTree) : Bool := rhs.isIcur || (wp true rhs && decide (lvlProj < llevel rhs))

/-- the conditions `wp` puts on everything but the left operand -/
def ok : Ext → Bool
  | .bin op r => (match binLevel op.type with | none => false | some lvl => wp false r && decide (lvl < llevel r))
  | .dotId r => wp false r && decide (lvlDot < llevel r) && startsWithIdent r
  | .dotList es => !es.isEmpty && wpL es
  | .dotHash kvs => !kvs.isEmpty && wpKVs keyOK kvs
  | .dotStarList => true
  | .index n => isIntTok n
  | .star rhs => rhsOK rhs
  | .ostar rhs => rhsOK rhs
  | .flat rhs => rhsOK rhs
  | .filt c rhs => wp false c && rhsOK rhs
  | .slice a b c rhs => sliceOK a b c && rhsOK rhs

/-- the tokens the form adds behind its left operand -/
def toks : Ext → List Token
  | .bin op r => op :: Grammar.flat false r
  | .dotId r => tDot :: Grammar.flat false r
  | .dotList es => tDot :: tLBracket :: flatSep es ++ [tRBracket]
  | .dotHash kvs => tDot :: tLBrace :: flatKVs tColon kvs ++ [tRBrace]
  | .dotStarList => [tDot, tArrayStar]
  | .index n => [tLBracket, n, tRBracket]
  | .star rhs => tArrayStar :: Grammar.flat true rhs
  | .ostar rhs => tDotStar :: Grammar.flat true rhs
  | .flat rhs => tFlatten :: Grammar.flat true rhs
  | .filt c rhs => tFilter :: Grammar.flat false c ++ tRBracket :: Grammar.flat true rhs
  | .slice a b c rhs => tLBracket :: sliceToks a b c ++ tRBracket :: Grammar.flat true rhs

/-- the form may start a right-hand side (its left operand may be the implicit current node there) -/
def rhsStart : Ext → Bool
  | .bin .. | .flat _ => false
  | _ => true

theorem mk_isIcur (E : Ext) (l : PTree) : (E.mk l).isIcur = false := by cases E <;> rfl

theorem llevel_mk (E : Ext) (l : PTree) : llevel (E.mk l) = lmin E.lvl l (llevel l) := by cases E <;> rfl

theorem llevel_mk_ne (E : Ext) {l : PTree} (h : l.isIcur = false) : llevel (E.mk l) = min E.lvl (llevel l) := by
  rw [llevel_mk, lmin_of_ne h]

theorem rlevel_mk (E : Ext) (l : PTree) : rlevel (E.mk l) = E.rlvl := by cases E <;> rfl

theorem flat_mk (E : Ext) (b : Bool) {l : PTree} (h : l.isIcur = false) :
    Grammar.flat b (E.mk l) = Grammar.flat b l ++ E.toks := by
  cases E <;> simp only [mk, toks, Grammar.flat, h, Bool.false_eq_true, if_false, List.append_assoc, List.cons_append,
    List.nil_append, List.singleton_append]

theorem flat_mk_icur (E : Ext) (h : E.rhsStart = true) : Grammar.flat true (E.mk .icur) = E.toks := by
  cases E with
  | bin op r => cases h
  | flat rhs => cases h
  | _ => simp [mk, toks, Grammar.flat, PTree.isIcur]

theorem wp_mk (E : Ext) (b : Bool) {l : PTree} (h : l.isIcur = false) :
    wp b (E.mk l) = true ↔ wp b l = true ∧ E.lvl ≤ rlevel l ∧ E.ok = true := by
  cases E with
  | bin op r =>
    simp only [mk, wp, lvl, ok]
    cases binLevel op.type with
    | none => simp
    | some v => simp [h, and_assoc]
  | _ => simp [mk, wp, lvl, ok, rhsOK, h, and_assoc]

theorem ok_bin_level {op : Token} {r : PTree} (h : (Ext.bin op r).ok = true) :
    ∃ v, binLevel op.type = some v ∧ (Ext.bin op r).lvl = v ∧ v ≤ 7 ∧ wp false r = true ∧ v < llevel r := by
  simp only [ok] at h
  cases hb : binLevel op.type with
  | none => simp [hb] at h
  | some v =>
    simp only [hb, Bool.and_eq_true, decide_eq_true_eq] at h
    exact ⟨v, rfl, by simp [lvl, hb], (binLevel_range hb).2, h.1, h.2⟩

/-- above the level of a right-hand side there are only forms that may start one -/
theorem rhsStart_of_lvl {E : Ext} (hok : E.ok = true) (h : lvlProj < E.lvl) : E.rhsStart = true := by
  cases E with
  | bin op r =>
    obtain ⟨v, _, hv, h7, _⟩ := ok_bin_level hok
    rw [hv] at h; simp only [lvlProj] at h; omega
  | flat rhs => simp [lvl, lvlFlatten, lvlProj] at h
  | _ => rfl

theorem wp_mk_icur (E : Ext) (hs : E.rhsStart = true) (hok : E.ok = true) : wp true (E.mk .icur) = true := by
  cases E with
  | bin op r => cases hs
  | flat rhs => cases hs
  | _ =>
    have hi : PTree.icur.isIcur = true := rfl
    simp only [mk, wp, hi, if_true, Bool.true_and]
    try (simpa [ok, rhsOK] using hok)

end Ext

/-! ## `attach` -/

/-- the right-hand side of a projection, extended -/
def attachRhs (E : Ext) (rhs : PTree) (rec : PTree) : PTree := if rhs.isIcur then E.mk .icur else rec

/-- append the extension `E` behind the tokens of `T`: at the top if the level of `E` allows, else further down the
    right spine -/
def attach (E : Ext) (T : PTree) : PTree :=
  if E.lvl ≤ rlevel T then E.mk T else
  match T with
  | .not t => .not (attach E t)
  | .neg k t => .neg k (attach E t)
  | .pos t => .pos (attach E t)
  | .bin op l r => .bin op l (attach E r)
  | .dotId l r => .dotId l (attach E r)
  | .letIn bs body => .letIn bs (attach E body)
  | .star l rhs => .star l (attachRhs E rhs (attach E rhs))
  | .ostar l rhs => .ostar l (attachRhs E rhs (attach E rhs))
  | .flat l rhs => .flat l (attachRhs E rhs (attach E rhs))
  | .filt l c rhs => .filt l c (attachRhs E rhs (attach E rhs))
  | .slice l a b c rhs => .slice l a b c (attachRhs E rhs (attach E rhs))
  | t => E.mk t


/-- what `attach` achieves on `T` in position `b` -/
def AttachOK (E : Ext) (b : Bool) (T : PTree) : Prop :=
  wp b (attach E T) = true ∧ Grammar.flat b (attach E T) = Grammar.flat b T ++ E.toks ∧
    llevel (attach E T) = (if E.lvl ≤ rlevel T then min E.lvl (llevel T) else llevel T)

theorem attach_top {E : Ext} {T : PTree} (h : E.lvl ≤ rlevel T) : attach E T = E.mk T := by
  unfold attach; rw [if_pos h]

theorem attachOK_top {E : Ext} (hok : E.ok = true) {b : Bool} {T : PTree} (hw : wp b T = true)
    (h : E.lvl ≤ rlevel T) : AttachOK E b T := by
  have hi := wp_ne_icur hw
  unfold AttachOK
  rw [attach_top h, if_pos h]
  exact ⟨(E.wp_mk b hi).2 ⟨hw, h, hok⟩, E.flat_mk b hi, E.llevel_mk_ne hi⟩

theorem lvl_helper {v lv rl ll ll' : Nat} (hdesc : ¬ v ≤ min lv rl) (hll' : ll' = if v ≤ rl then min v ll else ll)
    (h : lv < ll) : lv < ll' := by
  subst hll'
  split <;> omega

theorem lvl_helper' {v rl ll ll' : Nat} (hdesc : lvlProj < v) (hll' : ll' = if v ≤ rl then min v ll else ll)
    (h : lvlProj < ll) : lvlProj < ll' := by
  subst hll'
  split <;> omega

/-- the new right-hand side of a projection -/
theorem attachRhs_spec {E : Ext} (hok : E.ok = true) (hlv : lvlProj < E.lvl) {rhs : PTree}
    (hr : (rhs.isIcur || (wp true rhs && decide (lvlProj < llevel rhs))) = true)
    (ih : wp true rhs = true → AttachOK E true rhs) :
    ((attachRhs E rhs (attach E rhs)).isIcur || (wp true (attachRhs E rhs (attach E rhs)) &&
        decide (lvlProj < llevel (attachRhs E rhs (attach E rhs))))) = true ∧
      Grammar.flat true (attachRhs E rhs (attach E rhs)) = Grammar.flat true rhs ++ E.toks := by
  have hs := Ext.rhsStart_of_lvl hok hlv
  unfold attachRhs
  cases hi : rhs.isIcur
  · simp only [hi, Bool.false_or, Bool.and_eq_true, decide_eq_true_eq, Bool.false_eq_true, if_false] at hr ⊢
    obtain ⟨h1, h2, h3⟩ := ih hr.1
    refine ⟨?_, h2⟩
    rw [Bool.or_eq_true]
    exact Or.inr (by simp only [Bool.and_eq_true, decide_eq_true_eq]; exact ⟨h1, lvl_helper' hlv h3 hr.2⟩)
  · have := isIcur_eq hi
    subst this
    simp only [if_true, PTree.isIcur]
    refine ⟨?_, ?_⟩
    · rw [Bool.or_eq_true]
      refine Or.inr ?_
      simp only [Bool.and_eq_true, decide_eq_true_eq]
      refine ⟨E.wp_mk_icur hs hok, ?_⟩
      rw [E.llevel_mk]; simp only [lmin, PTree.isIcur, if_true, lvlProj, top]; omega
    · rw [E.flat_mk_icur hs]; simp [Grammar.flat]


theorem Ext.lvl_lt_top (E : Ext) : E.lvl < top := by
  cases E with
  | bin op r =>
    simp only [Ext.lvl]
    cases h : binLevel op.type with
    | none => decide
    | some v => have := (binLevel_range h).2; simp only [Option.getD_some, top]; omega
  | _ => simp only [Ext.lvl]; decide

section
variable {E : Ext}

theorem attach_not {t : PTree} (h : ¬ E.lvl ≤ rlevel (.not t)) : attach E (.not t) = .not (attach E t) := by
  rw [attach.eq_def, if_neg h]
theorem attach_neg {k : Token} {t : PTree} (h : ¬ E.lvl ≤ rlevel (.neg k t)) :
    attach E (.neg k t) = .neg k (attach E t) := by
  rw [attach.eq_def, if_neg h]
theorem attach_pos {t : PTree} (h : ¬ E.lvl ≤ rlevel (.pos t)) : attach E (.pos t) = .pos (attach E t) := by
  rw [attach.eq_def, if_neg h]
theorem attach_bin {op : Token} {l r : PTree} (h : ¬ E.lvl ≤ rlevel (.bin op l r)) :
    attach E (.bin op l r) = .bin op l (attach E r) := by
  rw [attach.eq_def, if_neg h]
theorem attach_dotId {l r : PTree} (h : ¬ E.lvl ≤ rlevel (.dotId l r)) :
    attach E (.dotId l r) = .dotId l (attach E r) := by
  rw [attach.eq_def, if_neg h]
theorem attach_letIn {bs : List (Token × PTree)} {body : PTree} (h : ¬ E.lvl ≤ rlevel (.letIn bs body)) :
    attach E (.letIn bs body) = .letIn bs (attach E body) := by
  rw [attach.eq_def, if_neg h]
theorem attach_star {l rhs : PTree} (h : ¬ E.lvl ≤ rlevel (.star l rhs)) :
    attach E (.star l rhs) = .star l (attachRhs E rhs (attach E rhs)) := by
  rw [attach.eq_def, if_neg h]
theorem attach_ostar {l rhs : PTree} (h : ¬ E.lvl ≤ rlevel (.ostar l rhs)) :
    attach E (.ostar l rhs) = .ostar l (attachRhs E rhs (attach E rhs)) := by
  rw [attach.eq_def, if_neg h]
theorem attach_flat {l rhs : PTree} (h : ¬ E.lvl ≤ rlevel (.flat l rhs)) :
    attach E (.flat l rhs) = .flat l (attachRhs E rhs (attach E rhs)) := by
  rw [attach.eq_def, if_neg h]
theorem attach_filt {l c rhs : PTree} (h : ¬ E.lvl ≤ rlevel (.filt l c rhs)) :
    attach E (.filt l c rhs) = .filt l c (attachRhs E rhs (attach E rhs)) := by
  rw [attach.eq_def, if_neg h]
theorem attach_slice {l : PTree} {a b c} {rhs : PTree} (h : ¬ E.lvl ≤ rlevel (.slice l a b c rhs)) :
    attach E (.slice l a b c rhs) = .slice l a b c (attachRhs E rhs (attach E rhs)) := by
  rw [attach.eq_def, if_neg h]

end

theorem attachOK_of_top {E : Ext} (hok : E.ok = true) {b : Bool} {T : PTree} (hw : wp b T = true)
    (h : rlevel T = top) : AttachOK E b T :=
  attachOK_top hok hw (by rw [h]; exact Nat.le_of_lt E.lvl_lt_top)

/-- **`attach_spec`**: in every position, `attach E T` is well formed, prints as `T` followed by the tokens of `E`,
    and its left level is that of `T`, lowered to the level of `E` if `E` was applied at the top -/
theorem attach_spec {E : Ext} (hok : E.ok = true) : ∀ T : PTree, ∀ b, wp b T = true → AttachOK E b T := by
  apply PTree.ind
  case h_icur => intro b h; simp [wp] at h
  case h_atom => intro t b h; exact attachOK_of_top hok h rfl
  case h_paren => intro t _ b h; exact attachOK_of_top hok h rfl
  case h_dotList => intro l es _ _ b h; exact attachOK_of_top hok h rfl
  case h_dotHash => intro l kvs _ _ b h; exact attachOK_of_top hok h rfl
  case h_dotStarList => intro l _ b h; exact attachOK_of_top hok h rfl
  case h_index => intro l n _ b h; exact attachOK_of_top hok h rfl
  case h_call => intro n a _ b h; exact attachOK_of_top hok h rfl
  case h_ref => intro t _ b h; simp [wp] at h
  case h_multiList => intro es _ b h; exact attachOK_of_top hok h rfl
  case h_multiHash => intro kvs _ b h; exact attachOK_of_top hok h rfl
  case h_not =>
    intro t ih b h
    by_cases hd : E.lvl ≤ rlevel (.not t)
    · exact attachOK_top hok h hd
    · simp only [wp, Bool.and_eq_true, Bool.not_eq_true', decide_eq_true_eq] at h
      obtain ⟨h1, h2, h3⟩ := ih false h.1.2
      unfold AttachOK
      rw [attach_not hd, if_neg hd]
      simp only [rlevel] at hd
      refine ⟨?_, ?_, rfl⟩
      · simp only [wp, Bool.and_eq_true, Bool.not_eq_true', decide_eq_true_eq]
        exact ⟨⟨h.1.1, h1⟩, lvl_helper hd h3 h.2⟩
      · simp only [Grammar.flat, h2, List.cons_append]
  case h_neg =>
    intro k t ih b h
    by_cases hd : E.lvl ≤ rlevel (.neg k t)
    · exact attachOK_top hok h hd
    · simp only [wp, Bool.and_eq_true, Bool.not_eq_true', decide_eq_true_eq] at h
      obtain ⟨h1, h2, h3⟩ := ih false h.1.2
      unfold AttachOK
      rw [attach_neg hd, if_neg hd]
      simp only [rlevel] at hd
      refine ⟨?_, ?_, rfl⟩
      · simp only [wp, Bool.and_eq_true, Bool.not_eq_true', decide_eq_true_eq]
        exact ⟨⟨h.1.1, h1⟩, lvl_helper hd h3 h.2⟩
      · simp only [Grammar.flat, h2, List.cons_append]
  case h_pos =>
    intro t ih b h
    by_cases hd : E.lvl ≤ rlevel (.pos t)
    · exact attachOK_top hok h hd
    · simp only [wp, Bool.and_eq_true, Bool.not_eq_true', decide_eq_true_eq] at h
      obtain ⟨h1, h2, h3⟩ := ih false h.1.2
      unfold AttachOK
      rw [attach_pos hd, if_neg hd]
      simp only [rlevel] at hd
      refine ⟨?_, ?_, rfl⟩
      · simp only [wp, Bool.and_eq_true, Bool.not_eq_true', decide_eq_true_eq]
        exact ⟨⟨h.1.1, h1⟩, lvl_helper hd h3 h.2⟩
      · simp only [Grammar.flat, h2, List.cons_append]
  case h_bin =>
    intro op l r _ ih b h
    by_cases hd : E.lvl ≤ rlevel (.bin op l r)
    · exact attachOK_top hok h hd
    · simp only [wp] at h
      cases hb : binLevel op.type with
      | none => simp [hb] at h
      | some v =>
        simp only [hb, Bool.and_eq_true, Bool.not_eq_true', decide_eq_true_eq] at h
        obtain ⟨h1, h2, h3⟩ := ih false h.1.2
        unfold AttachOK
        rw [attach_bin hd, if_neg hd]
        simp only [rlevel, hb, Option.getD_some] at hd
        refine ⟨?_, ?_, rfl⟩
        · simp only [wp, hb, Bool.and_eq_true, Bool.not_eq_true', decide_eq_true_eq]
          exact ⟨⟨h.1.1, h1⟩, lvl_helper hd h3 h.2⟩
        · simp only [Grammar.flat, h2, List.append_assoc, List.cons_append]
  case h_dotId =>
    intro l r _ ih b h
    by_cases hd : E.lvl ≤ rlevel (.dotId l r)
    · exact attachOK_top hok h hd
    · simp only [wp, Bool.and_eq_true, decide_eq_true_eq] at h
      obtain ⟨h1, h2, h3⟩ := ih false h.1.1.2
      unfold AttachOK
      rw [attach_dotId hd, if_neg hd]
      simp only [rlevel] at hd
      refine ⟨?_, ?_, rfl⟩
      · simp only [wp, Bool.and_eq_true, decide_eq_true_eq]
        refine ⟨⟨⟨h.1.1.1, h1⟩, lvl_helper hd h3 h.1.2⟩, ?_⟩
        have hs := h.2
        unfold startsWithIdent at hs ⊢
        rw [h2]
        cases hf : Grammar.flat false r with
        | nil => rw [hf] at hs; simp at hs
        | cons x xs => rw [hf] at hs; simpa using hs
      · simp only [Grammar.flat, h2, List.append_assoc, List.cons_append]
  case h_letIn =>
    intro bs body _ ih b h
    by_cases hd : E.lvl ≤ rlevel (.letIn bs body)
    · exact attachOK_top hok h hd
    · simp only [wp, Bool.and_eq_true, Bool.not_eq_true', decide_eq_true_eq] at h
      obtain ⟨h1, h2, h3⟩ := ih false h.2
      unfold AttachOK
      rw [attach_letIn hd, if_neg hd]
      refine ⟨?_, ?_, rfl⟩
      · simp only [wp, Bool.and_eq_true, Bool.not_eq_true', decide_eq_true_eq]
        exact ⟨h.1, h1⟩
      · simp only [Grammar.flat, h2, List.append_assoc, List.cons_append]
  case h_star =>
    intro l rhs _ ih b h
    by_cases hd : E.lvl ≤ rlevel (.star l rhs)
    · exact attachOK_top hok h hd
    · simp only [wp, Bool.and_eq_true] at h
      have hlv : lvlProj < E.lvl := by simpa [rlevel] using hd
      obtain ⟨g1, g2⟩ := attachRhs_spec hok hlv h.2 (ih true)
      unfold AttachOK
      rw [attach_star hd, if_neg hd]
      refine ⟨?_, ?_, rfl⟩
      · simp only [wp, Bool.and_eq_true]; exact ⟨h.1, g1⟩
      · simp only [Grammar.flat, g2, List.append_assoc, List.cons_append]
  case h_ostar =>
    intro l rhs _ ih b h
    by_cases hd : E.lvl ≤ rlevel (.ostar l rhs)
    · exact attachOK_top hok h hd
    · simp only [wp, Bool.and_eq_true] at h
      have hlv : lvlProj < E.lvl := by simpa [rlevel] using hd
      obtain ⟨g1, g2⟩ := attachRhs_spec hok hlv h.2 (ih true)
      unfold AttachOK
      rw [attach_ostar hd, if_neg hd]
      refine ⟨?_, ?_, rfl⟩
      · simp only [wp, Bool.and_eq_true]; exact ⟨h.1, g1⟩
      · simp only [Grammar.flat, g2, List.append_assoc, List.cons_append]
  case h_flat =>
    intro l rhs _ ih b h
    by_cases hd : E.lvl ≤ rlevel (.flat l rhs)
    · exact attachOK_top hok h hd
    · simp only [wp, Bool.and_eq_true] at h
      have hlv : lvlProj < E.lvl := by simpa [rlevel] using hd
      obtain ⟨g1, g2⟩ := attachRhs_spec hok hlv h.2 (ih true)
      unfold AttachOK
      rw [attach_flat hd, if_neg hd]
      refine ⟨?_, ?_, rfl⟩
      · simp only [wp, Bool.and_eq_true]; exact ⟨h.1, g1⟩
      · simp only [Grammar.flat, g2, List.append_assoc, List.cons_append]
  case h_filt =>
    intro l c rhs _ _ ih b h
    by_cases hd : E.lvl ≤ rlevel (.filt l c rhs)
    · exact attachOK_top hok h hd
    · simp only [wp, Bool.and_eq_true] at h
      have hlv : lvlProj < E.lvl := by simpa [rlevel] using hd
      obtain ⟨g1, g2⟩ := attachRhs_spec hok hlv h.2 (ih true)
      unfold AttachOK
      rw [attach_filt hd, if_neg hd]
      refine ⟨?_, ?_, rfl⟩
      · simp only [wp, Bool.and_eq_true]; exact ⟨h.1, g1⟩
      · simp only [Grammar.flat, g2, List.append_assoc, List.cons_append]
  case h_slice =>
    intro l a bb c rhs _ ih b h
    by_cases hd : E.lvl ≤ rlevel (.slice l a bb c rhs)
    · exact attachOK_top hok h hd
    · simp only [wp, Bool.and_eq_true] at h
      have hlv : lvlProj < E.lvl := by simpa [rlevel] using hd
      obtain ⟨g1, g2⟩ := attachRhs_spec hok hlv h.2 (ih true)
      unfold AttachOK
      rw [attach_slice hd, if_neg hd]
      refine ⟨?_, ?_, rfl⟩
      · simp only [wp, Bool.and_eq_true]; exact ⟨h.1, g1⟩
      · simp only [Grammar.flat, g2, List.append_assoc, List.cons_append]


/-! ## Prefix operators -/

inductive Pre where
  | not
  | neg (tok : Token)
  | pos

namespace Pre
def mk : Pre → PTree → PTree
  | .not, t => .not t
  | .neg k, t => .neg k t
  | .pos, t => .pos t
def lvl : Pre → Nat
  | .not => lvlNot
  | _ => lvlMul
def tok : Pre → Token
  | .not => tNot
  | .neg k => k
  | .pos => tPlus
def ok : Pre → Bool
  | .neg k => k.type == .subtract
  | _ => true

theorem lvl_lt_top (K : Pre) : K.lvl < top := by cases K <;> (simp only [lvl]; decide)
theorem wp_mk (K : Pre) (T : PTree) : wp false (K.mk T) = true ↔ K.ok = true ∧ wp false T = true ∧ K.lvl < llevel T := by
  cases K <;> simp [mk, wp, ok, lvl, and_assoc]
theorem flat_mk (K : Pre) (T : PTree) : Grammar.flat false (K.mk T) = K.tok :: Grammar.flat false T := by
  cases K <;> rfl
theorem rlevel_mk (K : Pre) (T : PTree) : rlevel (K.mk T) = min K.lvl (rlevel T) := by cases K <;> rfl
theorem mk_isIcur (K : Pre) (T : PTree) : (K.mk T).isIcur = false := by cases K <;> rfl
end Pre

/-- put the prefix operator `K` in front of the tokens of `T` -/
def pre (K : Pre) (T : PTree) : PTree :=
  if K.lvl < llevel T then K.mk T else
  match T with
  | .bin op l r => .bin op (pre K l) r
  | .dotId l r => .dotId (pre K l) r
  | .dotList l es => .dotList (pre K l) es
  | .dotHash l kvs => .dotHash (pre K l) kvs
  | .dotStarList l => .dotStarList (pre K l)
  | .index l n => .index (pre K l) n
  | .star l rhs => .star (pre K l) rhs
  | .ostar l rhs => .ostar (pre K l) rhs
  | .flat l rhs => .flat (pre K l) rhs
  | .filt l c rhs => .filt (pre K l) c rhs
  | .slice l a b c rhs => .slice (pre K l) a b c rhs
  | t => K.mk t

def PreOK (K : Pre) (T : PTree) : Prop :=
  wp false (pre K T) = true ∧ Grammar.flat false (pre K T) = K.tok :: Grammar.flat false T ∧
    rlevel (pre K T) = (if K.lvl < llevel T then min K.lvl (rlevel T) else rlevel T) ∧ (pre K T).isIcur = false

theorem pre_top {K : Pre} {T : PTree} (h : K.lvl < llevel T) : pre K T = K.mk T := by
  unfold pre; rw [if_pos h]

theorem preOK_top {K : Pre} (hK : K.ok = true) {T : PTree} (hw : wp false T = true) (h : K.lvl < llevel T) :
    PreOK K T := by
  unfold PreOK
  rw [pre_top h, if_pos h]
  exact ⟨(K.wp_mk T).2 ⟨hK, hw, h⟩, K.flat_mk T, K.rlevel_mk T, K.mk_isIcur T⟩

theorem pre_mk {K : Pre} (E : Ext) (l : PTree) (h : ¬ K.lvl < llevel (E.mk l)) : pre K (E.mk l) = E.mk (pre K l) := by
  cases E <;> (simp only [Ext.mk] at h ⊢; rw [pre.eq_def, if_neg h])

theorem pre_step {K : Pre} (E : Ext) {l : PTree} (hw : wp false (E.mk l) = true) (h : ¬ K.lvl < llevel (E.mk l))
    (ih : wp false l = true → PreOK K l) : PreOK K (E.mk l) := by
  have hi : l.isIcur = false := by
    cases hi : l.isIcur
    · rfl
    · exfalso
      apply h
      rw [E.llevel_mk]; simp only [lmin, hi, if_true]; exact K.lvl_lt_top
  obtain ⟨hwl, hlv, hok⟩ := (E.wp_mk false hi).1 hw
  obtain ⟨h1, h2, h3, h4⟩ := ih hwl
  unfold PreOK
  rw [pre_mk E l h, if_neg h]
  rw [E.llevel_mk_ne hi] at h
  refine ⟨(E.wp_mk false h4).2 ⟨h1, ?_, hok⟩, ?_, ?_, E.mk_isIcur _⟩
  · rw [h3]; split <;> omega
  · rw [E.flat_mk false h4, h2, E.flat_mk false hi]; rfl
  · rw [E.rlevel_mk, E.rlevel_mk]

/-- **`pre_spec`**: `pre K T` is well formed and prints as the operator followed by `T` -/
theorem pre_spec {K : Pre} (hK : K.ok = true) : ∀ T : PTree, wp false T = true → PreOK K T := by
  have topc : ∀ T : PTree, llevel T = top → wp false T = true → PreOK K T :=
    fun T h hw => preOK_top hK hw (by rw [h]; exact K.lvl_lt_top)
  have stepc : ∀ (E : Ext) (l : PTree), (wp false l = true → PreOK K l) → wp false (E.mk l) = true →
      PreOK K (E.mk l) := by
    intro E l ih hw
    by_cases h : K.lvl < llevel (E.mk l)
    · exact preOK_top hK hw h
    · exact pre_step E hw h ih
  apply PTree.ind
  case h_icur => intro h; simp [wp] at h
  case h_atom => intro t h; exact topc _ rfl h
  case h_paren => intro t _ h; exact topc _ rfl h
  case h_not => intro t _ h; exact topc _ rfl h
  case h_neg => intro k t _ h; exact topc _ rfl h
  case h_pos => intro t _ h; exact topc _ rfl h
  case h_call => intro n a _ h; exact topc _ rfl h
  case h_ref => intro t _ h; simp [wp] at h
  case h_letIn => intro bs body _ _ h; exact topc _ rfl h
  case h_multiList => intro es _ h; exact topc _ rfl h
  case h_multiHash => intro kvs _ h; exact topc _ rfl h
  case h_bin => intro op l r ih _; exact stepc (.bin op r) l ih
  case h_dotId => intro l r ih _; exact stepc (.dotId r) l ih
  case h_dotList => intro l es ih _; exact stepc (.dotList es) l ih
  case h_dotHash => intro l kvs ih _; exact stepc (.dotHash kvs) l ih
  case h_dotStarList => intro l ih; exact stepc .dotStarList l ih
  case h_index => intro l n ih; exact stepc (.index n) l ih
  case h_star => intro l rhs ih _; exact stepc (.star rhs) l ih
  case h_ostar => intro l rhs ih _; exact stepc (.ostar rhs) l ih
  case h_flat => intro l rhs ih _; exact stepc (.flat rhs) l ih
  case h_filt => intro l c rhs ih _ _; exact stepc (.filt c rhs) l ih
  case h_slice => intro l a b c rhs ih _; exact stepc (.slice a b c rhs) l ih

/-! ## Binary operators -/

/-- the tokens of `Tl`, the operator `op`, the tokens of `Tr` -/
def merge (op : Token) (Tl : PTree) (Tr : PTree) : PTree :=
  if (binLevel op.type).getD 0 < llevel Tr then attach (.bin op Tr) Tl else
  match Tr with
  | .bin o l r => attach (.bin o r) (merge op Tl l)
  | .dotId l r => attach (.dotId r) (merge op Tl l)
  | .dotList l es => attach (.dotList es) (merge op Tl l)
  | .dotHash l kvs => attach (.dotHash kvs) (merge op Tl l)
  | .dotStarList l => attach .dotStarList (merge op Tl l)
  | .index l n => attach (.index n) (merge op Tl l)
  | .star l rhs => attach (.star rhs) (merge op Tl l)
  | .ostar l rhs => attach (.ostar rhs) (merge op Tl l)
  | .flat l rhs => attach (.flat rhs) (merge op Tl l)
  | .filt l c rhs => attach (.filt c rhs) (merge op Tl l)
  | .slice l a b c rhs => attach (.slice a b c rhs) (merge op Tl l)
  | t => attach (.bin op t) Tl

def MergeOK (op : Token) (Tl Tr : PTree) : Prop :=
  wp false (merge op Tl Tr) = true ∧
    Grammar.flat false (merge op Tl Tr) = Grammar.flat false Tl ++ op :: Grammar.flat false Tr

theorem merge_mk {op : Token} {Tl : PTree} (E : Ext) (l : PTree)
    (h : ¬ (binLevel op.type).getD 0 < llevel (E.mk l)) : merge op Tl (E.mk l) = attach E (merge op Tl l) := by
  cases E <;> (simp only [Ext.mk] at h ⊢; rw [merge.eq_def, if_neg h])

theorem mergeOK_top {op : Token} {v : Nat} (hb : binLevel op.type = some v) {Tl Tr : PTree}
    (hl : wp false Tl = true) (hr : wp false Tr = true) (h : (binLevel op.type).getD 0 < llevel Tr) :
    MergeOK op Tl Tr := by
  have hok : (Ext.bin op Tr).ok = true := by
    simp only [Ext.ok, hb, Bool.and_eq_true, decide_eq_true_eq]
    exact ⟨hr, by simpa [hb] using h⟩
  obtain ⟨h1, h2, _⟩ := attach_spec hok Tl false hl
  unfold MergeOK
  have : merge op Tl Tr = attach (.bin op Tr) Tl := by unfold merge; rw [if_pos h]
  rw [this]
  exact ⟨h1, h2⟩

theorem merge_step {op : Token} {v : Nat} (hb : binLevel op.type = some v) {Tl : PTree} (E : Ext) {l : PTree}
    (hw : wp false (E.mk l) = true) (h : ¬ (binLevel op.type).getD 0 < llevel (E.mk l))
    (ih : wp false l = true → MergeOK op Tl l) : MergeOK op Tl (E.mk l) := by
  have hi : l.isIcur = false := by
    cases hi : l.isIcur
    · rfl
    · exfalso
      apply h
      rw [E.llevel_mk]; simp only [lmin, hi, if_true, hb, Option.getD_some]
      have := (binLevel_range hb).2; simp only [top]; omega
  obtain ⟨hwl, _, hok⟩ := (E.wp_mk false hi).1 hw
  obtain ⟨h1, h2⟩ := ih hwl
  obtain ⟨g1, g2, _⟩ := attach_spec hok _ false h1
  unfold MergeOK
  rw [merge_mk E l h]
  refine ⟨g1, ?_⟩
  rw [g2, h2, E.flat_mk false hi]
  simp only [List.append_assoc, List.cons_append]

/-- **`merge_spec`**: two well-formed trees and a binary operator between them -/
theorem merge_spec {op : Token} {v : Nat} (hb : binLevel op.type = some v) {Tl : PTree} (hl : wp false Tl = true) :
    ∀ Tr : PTree, wp false Tr = true → MergeOK op Tl Tr := by
  have topc : ∀ T : PTree, llevel T = top → wp false T = true → MergeOK op Tl T :=
    fun T h hw => mergeOK_top hb hl hw (by
      rw [h, hb]; have := (binLevel_range hb).2; simp only [Option.getD_some, top]; omega)
  have stepc : ∀ (E : Ext) (l : PTree), (wp false l = true → MergeOK op Tl l) → wp false (E.mk l) = true →
      MergeOK op Tl (E.mk l) := by
    intro E l ih hw
    by_cases h : (binLevel op.type).getD 0 < llevel (E.mk l)
    · exact mergeOK_top hb hl hw h
    · exact merge_step hb E hw h ih
  apply PTree.ind
  case h_icur => intro h; simp [wp] at h
  case h_atom => intro t h; exact topc _ rfl h
  case h_paren => intro t _ h; exact topc _ rfl h
  case h_not => intro t _ h; exact topc _ rfl h
  case h_neg => intro k t _ h; exact topc _ rfl h
  case h_pos => intro t _ h; exact topc _ rfl h
  case h_call => intro n a _ h; exact topc _ rfl h
  case h_ref => intro t _ h; simp [wp] at h
  case h_letIn => intro bs body _ _ h; exact topc _ rfl h
  case h_multiList => intro es _ h; exact topc _ rfl h
  case h_multiHash => intro kvs _ h; exact topc _ rfl h
  case h_bin => intro o l r ih _; exact stepc (.bin o r) l ih
  case h_dotId => intro l r ih _; exact stepc (.dotId r) l ih
  case h_dotList => intro l es ih _; exact stepc (.dotList es) l ih
  case h_dotHash => intro l kvs ih _; exact stepc (.dotHash kvs) l ih
  case h_dotStarList => intro l ih; exact stepc .dotStarList l ih
  case h_index => intro l n ih; exact stepc (.index n) l ih
  case h_star => intro l rhs ih _; exact stepc (.star rhs) l ih
  case h_ostar => intro l rhs ih _; exact stepc (.ostar rhs) l ih
  case h_flat => intro l rhs ih _; exact stepc (.flat rhs) l ih
  case h_filt => intro l c rhs ih _ _; exact stepc (.filt c rhs) l ih
  case h_slice => intro l a b c rhs ih _; exact stepc (.slice a b c rhs) l ih

/-! ## Token lists of sequences, and lifting lists of accepted token lists to lists of trees -/

/-- comma-separated token lists -/
def joinSep : List (List Token) → List Token
  | [] => []
  | [e] => e
  | e :: es => e ++ tComma :: joinSep es

/-- comma-separated `key sep tokens` members -/
def joinKVs (sep : Token) : List (Token × List Token) → List Token
  | [] => []
  | [(k, e)] => k :: sep :: e
  | (k, e) :: rest => k :: sep :: e ++ tComma :: joinKVs sep rest

/-- function-arg = expression / expression-type (`&` expression) -/
def argToks (a : Bool × List Token) : List Token := if a.1 then tAmp :: a.2 else a.2

/-- the argument list fits the builtin (which arguments are expression references) -/
def argShape : Parser.ArgSpec → List Bool → Bool
  | .fixed mn mx _, refs => decide (1 ≤ refs.length ∧ mn ≤ refs.length ∧ refs.length ≤ mx) && refs.all (!·)
  | .varArg _, refs => decide (1 ≤ refs.length) && refs.all (!·)
  | .expArg _, [a, e] => !a && e
  | .mapArg _, [e, a] => e && !a
  | _, _ => false

/-- the token list is the printing of a well-formed tree -/
def Accepted (ts : List Token) : Prop := ∃ t : PTree, WellPrec t ∧ Grammar.flatten t = ts

theorem lift_list : ∀ (es : List (List Token)), (∀ e ∈ es, Accepted e) →
    ∃ ts : List PTree, wpL ts = true ∧ flatSep ts = joinSep es ∧ ts.isEmpty = es.isEmpty
  | [], _ => ⟨[], rfl, rfl, rfl⟩
  | [e], h => by
    obtain ⟨t, hw, hf⟩ := h e (by simp)
    exact ⟨[t], by simp only [wpL, Bool.and_true]; exact hw, by simp only [flatSep, joinSep]; exact hf, rfl⟩
  | e :: e' :: es, h => by
    obtain ⟨t, hw, hf⟩ := h e (by simp)
    obtain ⟨ts, h1, h2, h3⟩ := lift_list (e' :: es) (fun x hx => h x (by simp [hx]))
    cases ts with
    | nil => simp at h3
    | cons t' ts' =>
      refine ⟨t :: t' :: ts', ?_, ?_, rfl⟩
      · have : wp false t = true := hw
        simp only [wpL, this, Bool.true_and]; exact h1
      · rw [flatSep_cons2, h2]; simp only [joinSep]; rw [← hf]; rfl

theorem lift_kvs (ok : Token → Bool) (sep : Token) : ∀ (kvs : List (Token × List Token)),
    (∀ kv ∈ kvs, ok kv.1 = true) → (∀ kv ∈ kvs, Accepted kv.2) →
    ∃ ts : List (Token × PTree), wpKVs ok ts = true ∧ flatKVs sep ts = joinKVs sep kvs ∧ ts.isEmpty = kvs.isEmpty
  | [], _, _ => ⟨[], rfl, rfl, rfl⟩
  | [(k, e)], hk, h => by
    obtain ⟨t, hw, hf⟩ := h (k, e) (by simp)
    have hf : Grammar.flatten t = e := hf
    have : wp false t = true := hw
    refine ⟨[(k, t)], ?_, ?_, rfl⟩
    · simp only [wpKVs, hk (k, e) (by simp), this, Bool.and_self]
    · simp only [flatKVs, joinKVs]; rw [← hf]; rfl
  | (k, e) :: kv' :: kvs, hk, h => by
    obtain ⟨t, hw, hf⟩ := h (k, e) (by simp)
    have hf : Grammar.flatten t = e := hf
    have hw' : wp false t = true := hw
    obtain ⟨ts, h1, h2, h3⟩ := lift_kvs ok sep (kv' :: kvs) (fun x hx => hk x (by simp [hx]))
      (fun x hx => h x (by simp [hx]))
    cases ts with
    | nil => simp at h3
    | cons t' ts' =>
      refine ⟨(k, t) :: t' :: ts', ?_, ?_, rfl⟩
      · simp only [wpKVs, hk (k, e) (by simp), hw', Bool.true_and]; exact h1
      · rw [flatKVs_cons2, h2]; simp only [joinKVs]; rw [← hf]; rfl

/-- the trees of an argument list -/
theorem lift_args : ∀ (args : List (Bool × List Token)), (∀ a ∈ args, Accepted a.2) →
    ∃ ts : List PTree, wpArgs ts = true ∧ flatSep ts = joinSep (args.map argToks) ∧
      ts.map PTree.isRef = args.map (·.1)
  | [], _ => ⟨[], rfl, rfl, rfl⟩
  | [(r, e)], h => by
    obtain ⟨t, hw, hf⟩ := h (r, e) (by simp)
    have hfe : Grammar.flatten t = e := hf
    clear hf
    have hw' : wp false t = true := hw
    have hnr : t.isRef = false := by cases t <;> first | rfl | (simp [wp] at hw')
    cases r
    · refine ⟨[t], ?_, ?_, by simp [hnr]⟩
      · rw [GrammarF2.wpArgs_cons, GrammarF2.unref_of_not hnr, hw']; rfl
      · simp only [flatSep, List.map, joinSep, argToks, Bool.false_eq_true, if_false]; exact hfe
    · refine ⟨[.ref t], ?_, ?_, by simp [PTree.isRef]⟩
      · simp only [wpArgs, hw', Bool.and_self]
      · simp only [flatSep, Grammar.flat, List.map, joinSep, argToks, if_true]; rw [← hfe]; rfl
  | (r, e) :: a' :: args, h => by
    obtain ⟨t, hw, hf⟩ := h (r, e) (by simp)
    have hfe : Grammar.flatten t = e := hf
    clear hf
    have hw' : wp false t = true := hw
    have hnr : t.isRef = false := by cases t <;> first | rfl | (simp [wp] at hw')
    obtain ⟨ts, h1, h2, h3⟩ := lift_args (a' :: args) (fun x hx => h x (by simp [hx]))
    cases ts with
    | nil => simp at h3
    | cons t' ts' =>
      cases r
      · refine ⟨t :: t' :: ts', ?_, ?_, by simpa [hnr] using h3⟩
        · rw [GrammarF2.wpArgs_cons, GrammarF2.unref_of_not hnr, hw', h1]; rfl
        · rw [flatSep_cons2, h2]
          simp only [List.map, joinSep, argToks, Bool.false_eq_true, if_false]; rw [← hfe]; rfl
      · refine ⟨.ref t :: t' :: ts', ?_, ?_, by simpa [PTree.isRef] using h3⟩
        · simp only [wpArgs, hw', Bool.true_and]; exact h1
        · rw [flatSep_cons2, h2]
          simp only [List.map, joinSep, argToks, if_true, Grammar.flat]; rw [← hfe]; rfl

theorem argsOK_of_shape (spec : Parser.ArgSpec) (ts : List PTree) :
    argsOK spec ts = argShape spec (ts.map PTree.isRef) := by
  cases spec with
  | fixed mn mx mk => simp [argsOK, argShape, List.all_map, Function.comp_def]
  | varArg mk => simp [argsOK, argShape, List.all_map, Function.comp_def]
  | expArg mk =>
    match ts with
    | [] => rfl
    | [_] => rfl
    | [_, _] => rfl
    | _ :: _ :: _ :: _ => rfl
  | mapArg mk =>
    match ts with
    | [] => rfl
    | [_] => rfl
    | [_, _] => rfl
    | _ :: _ :: _ :: _ => rfl

/-- a legal call is a well-formed tree -/
theorem call_accepted {name : Token} {spec : Parser.ArgSpec} {args : List (Bool × List Token)}
    (hn : name.type = .unquotedIdentifier) (hl : Parser.lookupBuiltin name.value = some spec)
    (hs : argShape spec (args.map (·.1)) = true) (ih : ∀ a ∈ args, Accepted a.2) :
    ∃ ts : List PTree, wp false (.call name ts) = true ∧
      Grammar.flat false (.call name ts) = name :: tLParen :: joinSep (args.map argToks) ++ [tRParen] := by
  obtain ⟨ts, h1, h2, h3⟩ := lift_args args ih
  refine ⟨ts, ?_, by simp only [Grammar.flat, h2]⟩
  simp only [wp, Bool.not_false, Bool.true_and, hn, beq_self_eq_true, hl, h1, Bool.and_true]
  rw [argsOK_of_shape, h3]; exact hs

theorem keyOK_atom {k : Token} (h : keyOK k = true) :
    wp false (.atom k) = true ∧ startsWithIdent (.atom k) = true := by
  simp only [keyOK, Bool.or_eq_true, Bool.and_eq_true, beq_iff_eq] at h
  refine ⟨?_, ?_⟩
  · simp only [wp, Bool.not_false, Bool.true_and, atomNode]
    rcases h with h | ⟨h, h'⟩
    · simp [h]
    · simp only [h, Option.isSome_map]; exact h'
  · simp only [startsWithIdent, Grammar.flat, List.head?, Bool.or_eq_true, beq_iff_eq]
    rcases h with h | ⟨h, _⟩
    · exact Or.inl h
    · exact Or.inr h


/-- an extension of a well-formed tree -/
theorem accepted_attach {l : List Token} (E : Ext) (hok : E.ok = true) (h : Accepted l) : Accepted (l ++ E.toks) := by
  obtain ⟨t, hw, hf⟩ := h
  obtain ⟨h1, h2, _⟩ := attach_spec hok t false hw
  exact ⟨attach E t, h1, by show Grammar.flat false _ = _; rw [h2]; show Grammar.flatten t ++ _ = _; rw [hf]⟩

theorem accepted_pre {e : List Token} (K : Pre) (hK : K.ok = true) (h : Accepted e) : Accepted (K.tok :: e) := by
  obtain ⟨t, hw, hf⟩ := h
  obtain ⟨h1, h2, _⟩ := pre_spec hK t hw
  exact ⟨pre K t, h1, by show Grammar.flat false _ = _; rw [h2]; show _ :: Grammar.flatten t = _; rw [hf]⟩

theorem rhsOK_icur : Ext.rhsOK .icur = true := rfl


/-! ## Small facts for the converse direction (trees to sentences) -/

theorem flatSep_eq_join : ∀ es : List PTree, flatSep es = joinSep (es.map (Grammar.flat false))
  | [] => rfl
  | [e] => rfl
  | e :: e' :: es => by
    rw [flatSep_cons2, flatSep_eq_join (e' :: es)]; rfl

theorem flatKVs_eq_join (sep : Token) : ∀ kvs : List (Token × PTree),
    flatKVs sep kvs = joinKVs sep (kvs.map fun kv => (kv.1, Grammar.flat false kv.2))
  | [] => rfl
  | [(k, e)] => rfl
  | (k, e) :: kv' :: kvs => by
    rw [flatKVs_cons2, flatKVs_eq_join sep (kv' :: kvs)]; rfl

theorem flat_arg (a : PTree) : Grammar.flat false a = argToks (a.isRef, Grammar.flat false (GrammarF2.unref a)) := by
  cases a <;> rfl

theorem flatSep_args (args : List PTree) :
    flatSep args = joinSep ((args.map fun a => (a.isRef, Grammar.flat false (GrammarF2.unref a))).map argToks) := by
  rw [flatSep_eq_join, List.map_map]
  congr 1
  apply List.map_congr_left
  intro a _
  exact flat_arg a

theorem wpL_mem : ∀ {es : List PTree}, wpL es = true → ∀ e ∈ es, wp false e = true
  | [], _, _, h => by cases h
  | x :: xs, hw, e, h => by
    simp only [wpL, Bool.and_eq_true] at hw
    rcases List.mem_cons.1 h with rfl | h
    · exact hw.1
    · exact wpL_mem hw.2 e h

theorem wpKVs_mem {ok : Token → Bool} : ∀ {kvs : List (Token × PTree)}, wpKVs ok kvs = true →
    ∀ kv ∈ kvs, ok kv.1 = true ∧ wp false kv.2 = true
  | [], _, _, h => by cases h
  | (k, x) :: xs, hw, kv, h => by
    simp only [wpKVs, Bool.and_eq_true] at hw
    rcases List.mem_cons.1 h with rfl | h
    · exact ⟨hw.1.1, hw.1.2⟩
    · exact wpKVs_mem hw.2 kv h

theorem wpArgs_mem : ∀ {es : List PTree}, wpArgs es = true → ∀ e ∈ es, wp false (GrammarF2.unref e) = true
  | [], _, _, h => by cases h
  | x :: xs, hw, e, h => by
    rw [GrammarF2.wpArgs_cons, Bool.and_eq_true] at hw
    rcases List.mem_cons.1 h with rfl | h
    · exact hw.1
    · exact wpArgs_mem hw.2 e h

theorem bin_icur_false {b : Bool} {op : Token} {r : PTree} : wp b (.bin op .icur r) = false := by
  simp only [wp]
  cases binLevel op.type <;> simp [PTree.isIcur]
theorem wp_mk_icur_inv {E : Ext} (h : wp true (E.mk .icur) = true) : E.ok = true ∧ E.rhsStart = true := by
  have hi : PTree.icur.isIcur = true := rfl
  cases E with
  | bin op r => rw [Ext.mk, bin_icur_false] at h; cases h
  | _ => simp [Ext.mk, wp, hi, Ext.ok, Ext.rhsOK, Ext.rhsStart] at h ⊢ <;> try exact h
theorem startsWithIdent_mk_icur {E : Ext} (h : wp false (E.mk .icur) = true) : startsWithIdent (E.mk .icur) = false := by
  have hi : PTree.icur.isIcur = true := rfl
  cases E with
  | bin op r => rw [Ext.mk, bin_icur_false] at h; cases h
  | _ => simp [Ext.mk, wp, hi] at h <;> simp [Ext.mk, startsWithIdent, Grammar.flat, hi] <;> decide

theorem head_append_of_ne {a b : List Token} (h : a ≠ []) : (a ++ b).head? = a.head? := by
  cases a with
  | nil => exact absurd rfl h
  | cons x xs => rfl

theorem not_ident_of {t : PTree} {tok : Token} {rest : List Token} (hf : Grammar.flat false t = tok :: rest)
    (h1 : tok.type ≠ .unquotedIdentifier) (h2 : tok.type ≠ .quotedIdentifier) : startsWithIdent t = false := by
  simp [startsWithIdent, hf, h1, h2]

theorem last_cons {x y : Token} {l : List Token} (h : l.getLast? = some y) : (x :: l).getLast? = some y := by
  cases l with
  | nil => cases h
  | cons a t => rw [List.getLast?_cons_cons]; exact h
theorem last_app {y : Token} (a : List Token) {b : List Token} (h : b.getLast? = some y) :
    (a ++ b).getLast? = some y := by
  induction a with
  | nil => exact h
  | cons x xs ih => exact last_cons ih


end Jmes.C04EAbnf
